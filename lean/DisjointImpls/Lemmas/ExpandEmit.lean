/-
  What the generators of `Expand.lean` PRINT for the dispatch keys (`Props/C12.lean`, last clause) and the top-level
  shape of the whole expansion (`Props/C08.lean`).

  * the where-clause of the main impl (trait mode and inherent mode) as an exact list: one predicate per distinct
    bounded type, `?Sized` first iff relaxed, then `tbTokens` of the stored trait path of every key on that type, and
    the predicate `Self: helper<lifetimes, <bounded as tbTokens path>::assoc …, other arguments>`;
  * the leading arguments of every helper impl: a payload as written, a wildcard as the projection of the FAMILY's
    stored key;
  * which spelling the stored key has (flat inputs: one the last member wrote);
  * `expandAll_em`: the assembly of lib.rs:693-702 over the generators.

  Every new top-level name carries the suffix `_em`. Core-only.
-/
import DisjointImpls.Lemmas.ExpandInherent
import DisjointImpls.Lemmas.FlatOrder
import DisjointImpls.Lemmas.RowsOwn
import DisjointImpls.Lemmas.Names
import DisjointImpls.Validate
namespace DI

open XOK

/-! ### the printed bound, tree for tree -/

/-- `tbTokens` spelled out: the leading `::`, every leading segment, the identifier, the `::` before `<` (`c2`) and
    every non-binding argument are kept as they are; only the `GenericArgument::AssocType` arguments of the last
    segment disappear. A path whose last segment has no angle-bracketed arguments is printed unchanged. -/
theorem tbTokens_spelling_em (p : T) :
    (∃ lc i id c2 args, p = mkPath lc (i ++ [angleSeg id c2 args]) ∧
      tbTokens p = mkPath lc (i ++ [angleSeg id c2 (nonAssoc args)])) ∨
    (tbTokens p = p ∧ ∀ l args, lastSeg p = some l → segArgs l ≠ .angle args) := by
  rcases stripBindings_cases p with ⟨lc, i, id, c2, args, rfl⟩ | h
  · exact Or.inl ⟨lc, i, id, c2, args, rfl, stripBindings_angle lc i id c2 args⟩
  · exact Or.inr h

/-- a trait path read as a tree `Path [lead, List segments]` -/
def isPathNode_em : T → Bool
  | .node "Path" [] [_, .node "List" [] _] => true
  | _ => false

theorem isPathNode_inv_em {p : T} (h : isPathNode_em p = true) : ∃ lc segs, p = mkPath lc segs := by
  unfold isPathNode_em at h
  split at h
  · next lc segs => exact ⟨lc, segs, rfl⟩
  · cases h

theorem isPathNode_of_wfPath_em {p : T} (h : wfPath p = true) : isPathNode_em p = true := by
  obtain ⟨l, hl, _⟩ := wfPath_last h
  have hne : pathSegments p ≠ [] := by
    intro e; unfold lastSeg at hl; rw [e] at hl; cases hl
  obtain ⟨lc, segs, rfl⟩ := pathSegments_ne_nil_inv hne
  rfl

theorem isPathNode_tbTokens_em {p : T} (h : isPathNode_em p = true) : isPathNode_em (tbTokens p) = true := by
  rcases tbTokens_spelling_em p with ⟨lc, i, id, c2, args, _, h2⟩ | ⟨h2, _⟩
  · rw [h2]; rfl
  · rw [h2]; exact h

/-- a path with one more segment -/
def pathSnoc_em (p : T) (s : T) : T :=
  match p with
  | .node "Path" [] [lc, .node "List" [] segs] => .node "Path" [] [lc, .node "List" [] (segs ++ [s])]
  | t => t

/-- the qualified path `<bounded as trait>::assoc` as a type -/
def qualified_em (bounded trait_ : T) (assoc : String) : T :=
  tyPath (tSome (.node "QSelf" [] [bounded, .node "Atom" [toString (pathSegments trait_).length] [], .node "Some" ["As"] []]))
    (pathSnoc_em trait_ (seg assoc))

/-- the projection of a key is `<bounded as tbTokens path>::assoc`: the qualified self is the key's bounded type and
    the path is the PRINTED bound (`tbTokens`) followed by the segment `assoc` -/
theorem projection_eq_em (b tr : T) (a : String) (h : isPathNode_em tr = true) :
    projection b tr a = qualified_em b (tbTokens tr) a := by
  obtain ⟨lc, segs, hp⟩ := isPathNode_inv_em (isPathNode_tbTokens_em h)
  unfold projection qualified_em
  simp only [hp]
  simp [mkPath, pathSnoc_em, pathNode, pathLead, pathSegments, tList]

/-- reading a projection back: the bounded type, the trait path (all segments but the last, under the same leading
    colon) and the associated type -/
def projectionRead_em : T → Option (T × T × String)
  | .node "Type::Path" [] [.node "Some" [] [.node "QSelf" [] [b, _, _]], .node "Path" [] [lc, .node "List" [] segs]] =>
      (match segs.getLast? with
       | some (.node "PathSegment" [] [.node "Ident" [a] [], _]) => some (b, .node "Path" [] [lc, .node "List" [] segs.dropLast], a)
       | _ => none)
  | _ => none

theorem projectionRead_projection_em (b tr : T) (a : String) (h : isPathNode_em tr = true) :
    projectionRead_em (projection b tr a) = some (b, tbTokens tr, a) := by
  obtain ⟨lc, segs, hp⟩ := isPathNode_inv_em (isPathNode_tbTokens_em h)
  rw [projection_eq_em b tr a h, hp]
  simp [qualified_em, projectionRead_em, tyPath, tSome, mkPath, pathSnoc_em, seg, tIdent]

/-! ### the where-clause predicates of the keys -/

/-- `IndexSet<&TraitBound>`: first occurrences under `TraitBound::eq` -/
def dedupTb_em (ps : List T) : List T :=
  ps.foldl (fun (acc : List T) p => if acc.any (fun t => tbEq t p == .t) then acc else acc ++ [p]) []

/-- the distinct bounded types of the keys, in order of first occurrence -/
def boundedTypes_em (abg : ABG) : List T := dedupKeys (abg.idents.map (fun kx => kx.1.1))

/-- the stored trait paths of the keys on the bounded type `b`, in order, each once -/
def keyPathsFor_em (abg : ABG) (b : T) : List T :=
  dedupTb_em ((abg.idents.filter (fun kx => kx.1.1 == b)).map (fun kx => kx.1.2))

/-- `b: ?Sized + tbTokens p₁ + tbTokens p₂ …` -/
def keyPredicate_em (abg : ABG) (b : T) : T :=
  whereType b ((if abg.unsized.contains b then [maybeSizedBound] else []) ++
    (keyPathsFor_em abg b).map (fun p => traitBoundOf (tbTokens p)))

/-- `<bounded as tbTokens path>::assoc` as a generic argument -/
def projArg_em (kx : BKey × String) : T := gaType (projection kx.1.1 kx.1.2 kx.2)

/-- the arguments of the helper-trait reference: lifetimes of the header, one projection per key, the other arguments -/
def helperArgs_em (abg : ABG) (hargs : List T) : List T :=
  hargs.filter isLifetimeArg ++ abg.idents.map projArg_em ++ hargs.filter (fun a => !isLifetimeArg a)

/-- `Self: name<…>` -/
def selfPredicate_em (name : String) (abg : ABG) (hargs : List T) : T :=
  whereType selfTy [traitBoundOf (pathNode noLead [seg name (angle (helperArgs_em abg hargs))])]

/-- everything the main impl's where-clause says about the keys -/
def emittedPreds_em (name : String) (abg : ABG) (hargs : List T) : List T :=
  (boundedTypes_em abg).map (keyPredicate_em abg) ++ [selfPredicate_em name abg hargs]

theorem assocBoundPredicates_eq_em (name : String) (abg : ABG) (hargs : List T) :
    assocBoundPredicates abg (helperRef name abg.idents hargs) = emittedPreds_em name abg hargs := by
  unfold assocBoundPredicates emittedPreds_em boundedTypes_em keyPredicate_em keyPathsFor_em dedupTb_em selfPredicate_em
    helperRef helperArgs_em projArg_em
  simp only [List.foldl_map]

/-! ### the main impl, trait mode -/

/-- the where-predicates of an `ItemImpl` -/
def implWhere_em (m : T) : List T :=
  match implGenerics m with
  | some gen => genericsWhere gen
  | none => []

/-- the trait path of the family's first block (the header the main impl is generated for) -/
def headerPath_em (g : T × ABG × List Blk) : Option T := implTraitPath (firstItem_inh g)

/-- the trait's name as the first block spells it (last segment of its trait path) -/
def headerName_em (g : T × ABG × List Blk) : String := ((headerPath_em g).bind lastSegIdentOf).getD ""

/-- the trait arguments of the header (`[]` when the last segment has none) -/
def angleArgsOf_em : T → List T
  | .node "PathArguments::AngleBracketed" [] [_, .node "List" [] as] => as
  | _ => []

def headerArgs_em (g : T × ABG × List Blk) : List T :=
  match (headerPath_em g).bind lastSegArgsNode with
  | some a => angleArgsOf_em a
  | none => []

/-- the predicates the main impl inherits from the trait definition (`resolve_main_trait_params`): the trait's own
    where-clause and the bounds of its parameters, with the header's arguments substituted -/
def traitOwnPreds_em (tr : T) (g : T × ABG × List Blk) : List T :=
  match headerPath_em g with
  | some tp =>
      (match resolveMainTrait tr tp with
       | some (.node "Generics" [] [_, _, _, wc], _) => wherePreds wc
       | _ => [])
  | none => []

theorem implWhere_mk_em (a d u lt ps gt tr st items : T) (preds : List T) :
    implWhere_em (.node "ItemImpl" [] [a, d, u, .node "Generics" [] [lt, ps, gt, mkWhere preds], tr, st, items]) = preds := by
  simp [implWhere_em, implGenerics, genericsWhere, mkWhere, tSome, tList]

/-- the where-clause of the main impl (trait mode), exactly -/
theorem mainImplOfTrait_where_em {trait_ : T} {idx : Nat} {g : T × ABG × List Blk} {m : T}
    (h : mainImplOfTrait trait_ idx g = .ok m) :
    implWhere_em m = traitOwnPreds_em trait_ g ++
      emittedPreds_em (genIdentStr (headerName_em g) idx) g.2.1 (headerArgs_em g) := by
  unfold mainImplOfTrait at h
  split at h
  · cases h
  · next first rest hg =>
    simp only at h
    have hfi : firstItem_inh g = first.item := by simp [firstItem_inh, hg]
    cases hp : implTraitPath first.item with
    | none => rw [hp] at h; cases h
    | some tp =>
      cases hs : implSelfTy first.item with
      | none => rw [hp, hs] at h; cases h
      | some st =>
        cases he : implGenerics first.item with
        | none => rw [hp, hs, he] at h; cases h
        | some eg =>
          rw [hp, hs, he] at h
          split at h
          · have e1 : some tp = some _ := ‹_›
            cases e1
            have e2 : some st = some _ := ‹_›
            cases e2
            split at h
            · next lt x gt wc items tname targs hres hlast =>
              split at h
              · next dummies finals hd hf =>
                split at h
                · cases h
                · next cps hc =>
                  cases h
                  rw [implWhere_mk_em]
                  have hhp : headerPath_em g = some tp := by rw [headerPath_em, hfi, hp]
                  have hname : headerName_em g = tname := by
                    simp [headerName_em, hhp, lastSegIdentOf, hlast]
                  have hargs : headerArgs_em g = angleArgsOf_em targs := by
                    simp only [headerArgs_em, hhp, Option.bind_some, lastSegArgsNode, hlast]
                  simp only [traitOwnPreds_em, hhp, hres]
                  rw [hname, hargs, ← assocBoundPredicates_eq_em]
                  rfl
              · cases h
              · cases h
              · cases h
            · cases h
          · cases h

/-! ### the main impl, inherent mode -/

/-- the identifier of the self type of the family's first block (last segment of its path) -/
def selfName_em (g : T × ABG × List Blk) : String :=
  match implSelfTy (firstItem_inh g) with
  | some (.node "Type::Path" [] [_, sp]) => (lastSegIdentOf sp).getD ""
  | _ => ""

/-- the self-type arguments `gen_inherent_self_ty_args` prints for the first block: sorted lifetimes, then the sorted
    other parameters -/
def selfArgs_em (g : T × ABG × List Blk) : List T :=
  inhArgs_inh ((implGenerics (firstItem_inh g)).getD (.node "?" [] []))

/-- the where-clause of the main inherent impl, exactly (the first block's own where-clause is dropped) -/
theorem mainImplInherent_where_em {idx : Nat} {g : T × ABG × List Blk} {m : T}
    (h : mainImplInherent idx g = .ok (some m)) :
    implWhere_em m = emittedPreds_em (genIdentStr (selfName_em g) idx) g.2.1 (selfArgs_em g) := by
  obtain ⟨first, rest, a, d, u, lt, ps, gt, wc, tr, q, sp, items, x, params, finals, hg, hitem, hx, _, _, _, rfl⟩ :=
    mainImplInherent_ok_inv_inh h
  have hfi : firstItem_inh g = first.item := by simp [firstItem_inh, hg]
  rw [implWhere_mk_em]
  have hname : selfName_em g = x := by simp [selfName_em, hfi, hitem, implSelfTy, tList, hx]
  have hargs : selfArgs_em g = inhArgs_inh (inhEg_inh lt ps gt) := by
    unfold selfArgs_em
    rw [hfi, hitem]
    exact inhArgs_congr_inh (by simp [implGenerics, tList, inhEg_inh, genericsParams])
  rw [hname, hargs, ← assocBoundPredicates_eq_em]
  rfl

/-! ### the predicates in terms of the family's key map (`abg.bounds`) -/

/-- the associated-type identifiers bound under one key -/
def entryNames_em (e : BKey × List Row) : List String := dedupStr (e.2.flatMap (fun r => r.map (·.1)))

theorem idents_eq_em (abg : ABG) :
    abg.idents = abg.bounds.flatMap (fun e => (entryNames_em e).map (fun x => (e.1, x))) := rfl

/-- the key map is a proper IndexMap: pairwise different keys (`keyEq`), every key comparable with itself
    (`TraitBound::eq` does not panic on it) and bound by at least one member (what `prune_non_assoc` leaves) -/
def keysProper_em (abg : ABG) : Bool :=
  distinctKeysB (abg.bounds.map (·.1)) && abg.bounds.all (fun e => keyEq e.1 e.1 && e.2.any (fun r => !r.isEmpty))

theorem dedupStr_fold_ne_nil_em : ∀ (l acc : List String), acc ≠ [] →
    l.foldl (fun acc x => if acc.contains x then acc else acc ++ [x]) acc ≠ []
  | [], acc, h => h
  | x :: l, acc, h => by
      rw [List.foldl_cons]
      apply dedupStr_fold_ne_nil_em l
      split
      · exact h
      · simp

theorem dedupStr_ne_nil_em {l : List String} (h : l ≠ []) : dedupStr l ≠ [] := by
  cases l with
  | nil => exact absurd rfl h
  | cons x l =>
    unfold dedupStr
    rw [List.foldl_cons]
    exact dedupStr_fold_ne_nil_em l _ (by simp)

theorem entryNames_ne_nil_em {e : BKey × List Row} (h : e.2.any (fun r => !r.isEmpty) = true) : entryNames_em e ≠ [] := by
  apply dedupStr_ne_nil_em
  obtain ⟨r, hr, hne⟩ := List.any_eq_true.1 h
  intro he
  have := List.flatMap_eq_nil_iff.1 he r hr
  simp at this
  subst this
  simp at hne

def stepK_em (acc : List T) (k : T) : List T := if acc.contains k then acc else acc ++ [k]

theorem dedupKeys_eq_em (ks : List T) : dedupKeys ks = ks.foldl stepK_em [] := rfl

theorem stepK_mem_em (acc : List T) (k : T) : k ∈ stepK_em acc k := by
  unfold stepK_em
  split
  · next h => simpa using h
  · simp

theorem foldK_replicate_mem_em (k : T) (rest : List T) : ∀ (n : Nat) (acc : List T), k ∈ acc →
    (List.replicate n k ++ rest).foldl stepK_em acc = rest.foldl stepK_em acc
  | 0, acc, _ => by simp
  | n + 1, acc, h => by
      rw [List.replicate_succ, List.cons_append, List.foldl_cons]
      have : stepK_em acc k = acc := by
        unfold stepK_em; rw [if_pos (by simpa using h)]
      rw [this]
      exact foldK_replicate_mem_em k rest n acc h

theorem foldK_replicate_em (k : T) (rest : List T) (n : Nat) (acc : List T) :
    (List.replicate (n + 1) k ++ rest).foldl stepK_em acc = (k :: rest).foldl stepK_em acc := by
  rw [List.replicate_succ, List.cons_append, List.foldl_cons, List.foldl_cons]
  exact foldK_replicate_mem_em k rest n _ (stepK_mem_em acc k)

theorem foldK_entries_em : ∀ (L : List (BKey × List Row)) (acc : List T), (∀ e ∈ L, entryNames_em e ≠ []) →
    ((L.flatMap (fun e => (entryNames_em e).map (fun x => (e.1, x)))).map (fun kx => kx.1.1)).foldl stepK_em acc =
      (L.map (fun e => e.1.1)).foldl stepK_em acc
  | [], acc, _ => rfl
  | e :: L, acc, h => by
      have hne := h e (by simp)
      obtain ⟨n, hn⟩ : ∃ n, (entryNames_em e).length = n + 1 := by
        cases hl : entryNames_em e with
        | nil => exact absurd hl hne
        | cons x l => exact ⟨l.length, rfl⟩
      have hrep : ((entryNames_em e).map (fun x => (e.1, x))).map (fun (kx : BKey × String) => kx.1.1) =
          List.replicate (n + 1) e.1.1 := by
        rw [List.map_map, ← hn]
        exact List.map_const' (l := entryNames_em e) (b := e.1.1)
      rw [List.flatMap_cons, List.map_append, hrep, foldK_replicate_em, List.map_cons, List.foldl_cons, List.foldl_cons]
      exact foldK_entries_em L _ (fun e' he' => h e' (List.mem_cons_of_mem _ he'))

/-- the distinct bounded types are those of the key map, in its order -/
theorem boundedTypes_eq_em (abg : ABG) (h : keysProper_em abg = true) :
    boundedTypes_em abg = dedupKeys (abg.bounds.map (fun e => e.1.1)) := by
  simp only [keysProper_em, Bool.and_eq_true, List.all_eq_true] at h
  unfold boundedTypes_em
  rw [idents_eq_em, dedupKeys_eq_em, dedupKeys_eq_em]
  exact foldK_entries_em _ _ (fun e he => entryNames_ne_nil_em (h.2 e he).2)

def stepTb_em (acc : List T) (p : T) : List T := if acc.any (fun t => tbEq t p == .t) then acc else acc ++ [p]

theorem dedupTb_eq_em (ps : List T) : dedupTb_em ps = ps.foldl stepTb_em [] := rfl

theorem foldTb_replicate_any_em (p : T) (rest : List T) : ∀ (n : Nat) (acc : List T),
    acc.any (fun t => tbEq t p == .t) = true →
    (List.replicate n p ++ rest).foldl stepTb_em acc = rest.foldl stepTb_em acc
  | 0, acc, _ => by simp
  | n + 1, acc, h => by
      rw [List.replicate_succ, List.cons_append, List.foldl_cons]
      have : stepTb_em acc p = acc := by unfold stepTb_em; rw [if_pos h]
      rw [this]
      exact foldTb_replicate_any_em p rest n acc h

theorem foldTb_replicate_em (p : T) (rest : List T) (n : Nat) (acc : List T)
    (hno : acc.any (fun t => tbEq t p == .t) = false) (hself : tbEq p p = .t) :
    (List.replicate (n + 1) p ++ rest).foldl stepTb_em acc = rest.foldl stepTb_em (acc ++ [p]) := by
  rw [List.replicate_succ, List.cons_append, List.foldl_cons]
  have : stepTb_em acc p = acc ++ [p] := by unfold stepTb_em; rw [hno]; rfl
  rw [this]
  exact foldTb_replicate_any_em p rest n _ (by simp [hself])

theorem foldTb_entries_em (b : T) : ∀ (L : List (BKey × List Row)) (acc : List T),
    DistinctKeys (L.map (·.1)) → (∀ e ∈ L, keyEq e.1 e.1 = true ∧ entryNames_em e ≠ []) →
    (∀ t ∈ acc, ∀ e ∈ L, e.1.1 = b → tbEq t e.1.2 ≠ .t) →
    ((((L.flatMap (fun e => (entryNames_em e).map (fun x => (e.1, x)))).filter (fun kx => kx.1.1 == b)).map
        (fun kx => kx.1.2)).foldl stepTb_em acc) = acc ++ (L.filter (fun e => e.1.1 == b)).map (fun e => e.1.2)
  | [], acc, _, _, _ => by simp
  | e :: L, acc, hd, hp, hacc => by
      have hd' : DistinctKeys (L.map (·.1)) := by
        unfold DistinctKeys at hd ⊢
        simp only [List.map_cons, List.pairwise_cons] at hd
        exact hd.2
      have hp' : ∀ e' ∈ L, keyEq e'.1 e'.1 = true ∧ entryNames_em e' ≠ [] := fun e' he' => hp e' (List.mem_cons_of_mem _ he')
      rw [List.flatMap_cons, List.filter_append, List.map_append, List.filter_cons]
      by_cases hb : e.1.1 = b
      · obtain ⟨hself, hne⟩ := hp e (by simp)
        obtain ⟨n, hn⟩ : ∃ n, (entryNames_em e).length = n + 1 := by
          cases hl : entryNames_em e with
          | nil => exact absurd hl hne
          | cons x l => exact ⟨l.length, rfl⟩
        have hfil : ((entryNames_em e).map (fun x => (e.1, x))).filter (fun (kx : BKey × String) => kx.1.1 == b) =
            (entryNames_em e).map (fun x => (e.1, x)) := by
          apply List.filter_eq_self.2
          intro a ha
          obtain ⟨x, _, rfl⟩ := List.mem_map.1 ha
          simp [hb]
        have hrep : ((entryNames_em e).map (fun x => (e.1, x))).map (fun (kx : BKey × String) => kx.1.2) =
            List.replicate (n + 1) e.1.2 := by
          rw [List.map_map, ← hn]
          exact List.map_const' (l := entryNames_em e) (b := e.1.2)
        have hselfT : tbEq e.1.2 e.1.2 = .t := by
          simp only [keyEq, Bool.and_eq_true, beq_iff_eq] at hself
          exact hself.2
        have hno : acc.any (fun t => tbEq t e.1.2 == .t) = false := by
          apply Bool.eq_false_iff.2
          intro hany
          obtain ⟨t, ht, hte⟩ := List.any_eq_true.1 hany
          exact hacc t ht e (by simp) hb (by simpa using hte)
        rw [hfil, hrep, foldTb_replicate_em _ _ _ _ hno hselfT, if_pos (by simp [hb]), List.map_cons]
        rw [foldTb_entries_em b L (acc ++ [e.1.2]) hd' hp']
        · simp
        · intro t ht e' he' hb'
          rcases List.mem_append.1 ht with h | h
          · exact hacc t h e' (List.mem_cons_of_mem _ he') hb'
          · simp only [List.mem_singleton] at h
            subst h
            unfold DistinctKeys at hd
            simp only [List.map_cons, List.pairwise_cons] at hd
            have := hd.1 e'.1 (List.mem_map.2 ⟨e', he', rfl⟩)
            simp only [keyEq, hb, hb', beq_self_eq_true, Bool.true_and, beq_eq_false_iff_ne] at this
            exact this
      · have hfil : ((entryNames_em e).map (fun x => (e.1, x))).filter (fun (kx : BKey × String) => kx.1.1 == b) = [] := by
          apply List.filter_eq_nil_iff.2
          intro a ha
          obtain ⟨x, _, rfl⟩ := List.mem_map.1 ha
          simp [hb]
        rw [hfil, if_neg (by simp [hb]), List.map_nil, List.nil_append]
        exact foldTb_entries_em b L acc hd' hp' (fun t ht e' he' => hacc t ht e' (List.mem_cons_of_mem _ he'))

/-- the trait paths printed for the bounded type `b`: the stored path of every key on `b`, in the order of the key map -/
theorem keyPathsFor_eq_em (abg : ABG) (b : T) (h : keysProper_em abg = true) :
    keyPathsFor_em abg b = (abg.bounds.filter (fun e => e.1.1 == b)).map (fun e => e.1.2) := by
  simp only [keysProper_em, Bool.and_eq_true, List.all_eq_true] at h
  unfold keyPathsFor_em
  rw [idents_eq_em, dedupTb_eq_em]
  have := foldTb_entries_em b abg.bounds [] (distinctKeys_of_B h.1)
    (fun e he => ⟨(h.2 e he).1, entryNames_ne_nil_em (h.2 e he).2⟩) (fun t ht => by cases ht)
  simpa using this

/-- `keyPredicate_em` over the key map -/
theorem keyPredicate_eq_em (abg : ABG) (b : T) (h : keysProper_em abg = true) :
    keyPredicate_em abg b = whereType b ((if abg.unsized.contains b then [maybeSizedBound] else []) ++
      (abg.bounds.filter (fun e => e.1.1 == b)).map (fun e => traitBoundOf (tbTokens e.1.2))) := by
  unfold keyPredicate_em
  rw [keyPathsFor_eq_em abg b h, List.map_map]
  rfl

/-- one projection per (key, associated type), in the order of the key map -/
theorem helperArgs_eq_em (abg : ABG) (hargs : List T) :
    helperArgs_em abg hargs = hargs.filter isLifetimeArg ++
      abg.bounds.flatMap (fun e => (entryNames_em e).map (fun x => gaType (projection e.1.1 e.1.2 x))) ++
      hargs.filter (fun a => !isLifetimeArg a) := by
  unfold helperArgs_em
  rw [idents_eq_em, List.map_flatMap]
  simp only [List.map_map]
  rfl

/-! ### every family of an accepted grouping has a proper key map -/

theorem insertKey_keys_distinct_em {α : Type} (bs : List (BKey × α)) (k : BKey) (v : α)
    (h : DistinctKeys (bs.map (·.1))) : DistinctKeys ((insertKey bs k v).map (·.1)) := by
  unfold insertKey
  split
  · have : (bs.map (fun e => if keyEq e.1 k = true then (e.1, v) else e)).map (·.1) = bs.map (·.1) := by
      rw [List.map_map]
      apply List.map_congr_left
      intro e _
      simp only [Function.comp]
      split <;> rfl
    rw [this]; exact h
  · next hany =>
    unfold DistinctKeys at h ⊢
    rw [List.map_append, List.pairwise_append]
    refine ⟨h, by simp, ?_⟩
    intro a ha b hb
    simp only [List.map_cons, List.map_nil, List.mem_singleton] at hb
    subst hb
    obtain ⟨e, he, rfl⟩ := List.mem_map.1 ha
    simp only [List.any_eq_true, not_exists, not_and, Bool.not_eq_true] at hany
    exact hany e he

theorem foldl_insertKey_keys_distinct_em {α : Type} : ∀ (l acc : List (BKey × α)), DistinctKeys (acc.map (·.1)) →
    DistinctKeys ((l.foldl (fun acc e => insertKey acc e.1 e.2) acc).map (·.1))
  | [], _, h => h
  | e :: l, acc, h => by
      rw [List.foldl_cons]
      exact foldl_insertKey_keys_distinct_em l _ (insertKey_keys_distinct_em acc e.1 e.2 h)

def KeysDistinct_em (e : T × ABG × List Blk) : Prop := DistinctKeys (e.2.1.bounds.map (·.1))

theorem keysDistinct_inv_em (env : Env) : SearchInv env KeysDistinct_em (fun _ _ => True) where
  fresh id b _ := by
    unfold KeysDistinct_em
    simp only
    rw [new_eq_otherFold, List.map_map]
    exact otherFold_distinct b
  join gid abg ms currId curr σ inter _ _ _ hinter := by
    unfold KeysDistinct_em
    rw [intersection_eq] at hinter
    unfold interWith at hinter
    simp only [List.mem_map] at hinter
    obtain ⟨combo, _, rfl⟩ := hinter
    exact foldl_insertKey_keys_distinct_em _ [] List.Pairwise.nil
  impls _ _ _ := trivial

theorem distinctKeysB_of_em : ∀ {ks : List BKey}, DistinctKeys ks → distinctKeysB ks = true
  | [], _ => rfl
  | k :: ks, h => by
      unfold DistinctKeys at h
      simp only [List.pairwise_cons] at h
      simp only [distinctKeysB, Bool.and_eq_true, List.all_eq_true, Bool.not_eq_true']
      exact ⟨h.1, distinctKeysB_of_em h.2⟩

/-- in every family of an accepted grouping the key map is a proper IndexMap (`keysProper_em`) -/
theorem parseGroups_keysProper_em {rawItems : List T} {groups : Groups} (h : parseGroups rawItems = .ok groups)
    {e : T × ABG × List Blk} (he : e ∈ groups) : keysProper_em e.2.1 = true := by
  obtain ⟨e0, h0, heq, _, _⟩ := parseGroups_group' h he (keysDistinct_inv_em (parseEnv rawItems))
  have hsome := parseGroups_keys_some h he
  have hb : e.2.1.bounds = e0.2.1.bounds.filter (fun e => e.2.any (fun r => !r.isEmpty)) := by rw [heq]; rfl
  simp only [keysProper_em, Bool.and_eq_true, List.all_eq_true]
  refine ⟨distinctKeysB_of_em ?_, fun kr hkr => ⟨?_, ?_⟩⟩
  · rw [hb]
    exact List.Pairwise.sublist (List.Sublist.map _ List.filter_sublist) h0
  · exact (keyEq_iff_sameKey kr.1 kr.1).2 ⟨sameKey_refl _, hsome kr hkr⟩
  · rw [hb] at hkr
    exact (List.mem_filter.1 hkr).2

/-! ### the helper impls: what is printed for a row -/

/-- the generic arguments of the last segment of an impl's trait path (`[]` when there are none) -/
def implTraitArgs_em (item : T) : List T :=
  match traitPathOf item with
  | some p => XOK.segArgs (XOK.lastSeg p)
  | none => []

/-- the identifier of the last segment of an impl's trait path -/
def implTraitName_em (item : T) : String :=
  match traitPathOf item with
  | some p => XOK.segIdent (XOK.lastSeg p)
  | none => ""

/-- a row entry as the helper impl prints it: a payload as written; a wildcard as the projection
    `<bounded as tbTokens path>::assoc` of the FAMILY's stored key `kx` (no substitution is applied: finding F-D3) -/
def rowEntry_em (kx : BKey × String) (r : Option T) : T :=
  match r with
  | some p => gaType p
  | none => gaType (projection kx.1.1 kx.1.2 kx.2)

theorem rowArgs_eq_zipWith_em (idents : List (BKey × String)) (row : List (Option T)) :
    rowArgs idents row = List.zipWith rowEntry_em idents row := by
  induction idents generalizing row with
  | nil => simp [rowArgs]
  | cons kx ks ih =>
    cases row with
    | nil => simp [rowArgs]
    | cons r rs =>
      rw [rowArgs_cons, List.zipWith_cons_cons, ih]
      cases r <;> rfl

theorem rowArgs_getElem_em (idents : List (BKey × String)) (row : List (Option T)) (j : Nat) (kx : BKey × String)
    (r : Option T) (hk : idents[j]? = some kx) (hr : row[j]? = some r) :
    (rowArgs idents row)[j]? = some (rowEntry_em kx r) := by
  rw [rowArgs_eq_zipWith_em, List.getElem?_zipWith, hk, hr]

theorem rowArgs_length_em (idents : List (BKey × String)) (row : List (Option T)) :
    (rowArgs idents row).length = min idents.length row.length := by
  simp [rowArgs]

/-- one helper impl (trait mode): the helper trait's name is the member's trait name with the family index, and its
    arguments are the printed row followed by the member's own trait arguments -/
theorem helperImpl_trait_args_em {idx : Nat} {idents : List (BKey × String)} {row : List (Option T)} {member h : T}
    (hh : helperImpl idx none idents row member = some h) :
    implTraitName_em h = genIdentStr (implTraitName_em member) idx ∧
    implTraitArgs_em h = rowArgs idents row ++ implTraitArgs_em member := by
  unfold helperImpl at hh
  simp only at hh
  cases hp' : implTraitPath member with
  | none => rw [hp'] at hh; cases hh
  | some p =>
    rw [hp'] at hh
    simp only at hh
    obtain ⟨a, d, u, g, b, s, items, rfl⟩ := implTraitPath_inv hp'
    cases hl : lastSegOf p with
    | none => rw [hl] at hh; cases hh
    | some l =>
      rw [hl] at hh
      obtain ⟨lc, hpe⟩ := lastSegOf_inv hl
      split at hh
      · next x args heq =>
        cases heq
        split at hh
        · next hna =>
          split at hna
          · cases hna
            cases hh
            rw [hpe]
            simp [implTraitName_em, implTraitArgs_em, setImplTrait, traitPathOf, kid, kids, kind, tSome, pathNode, tList,
              XOK.lastSeg, segsOf, lastOf, XOK.segArgs, XOK.segIdent, angle, atoms, tIdent]
          · next c2 old =>
            cases hna
            cases hh
            rw [hpe]
            simp [implTraitName_em, implTraitArgs_em, setImplTrait, traitPathOf, kid, kids, kind, tSome, pathNode, tList,
              XOK.lastSeg, segsOf, lastOf, XOK.segArgs, XOK.segIdent, atoms, tIdent]
          · cases hna
        · cases hh
      · cases hh

theorem filterMap_id_all_em {α : Type} : ∀ (l : List (Option α)), l.all Option.isSome = true →
    (l.filterMap id).map some = l
  | [], _ => rfl
  | none :: _, h => by simp at h
  | some a :: l, h => by
      simp only [List.all_cons, Option.isSome_some, Bool.true_and] at h
      simp [filterMap_id_all_em l h]

/-- a list built like `helperImpls` builds its result, read position by position -/
theorem zip_filterMap_getElem_em (f : T × List (Option T) → Option T) (ms : List Blk) (rows : List (List (Option T)))
    (hall : (((ms.map (·.item)).zip rows).map f).all Option.isSome = true) :
    ((((ms.map (·.item)).zip rows).map f).filterMap id).length = min ms.length rows.length ∧
    ∀ (i : Nat) (h : T), ((((ms.map (·.item)).zip rows).map f).filterMap id)[i]? = some h →
      ∃ b row, ms[i]? = some b ∧ rows[i]? = some row ∧ f (b.item, row) = some h := by
  have hmap := filterMap_id_all_em _ hall
  refine ⟨?_, ?_⟩
  · have := congrArg List.length hmap
    simpa using this
  · intro i h hi
    have h1 : (List.map some (List.filterMap id (List.map f ((List.map (·.item) ms).zip rows))))[i]? = some (some h) := by
      rw [List.getElem?_map, hi]; rfl
    rw [hmap, List.getElem?_map] at h1
    cases hz : ((List.map (·.item) ms).zip rows)[i]? with
    | none => rw [hz] at h1; cases h1
    | some mr =>
      rw [hz] at h1
      simp only [Option.map_some, Option.some.injEq] at h1
      obtain ⟨hz1, hz2⟩ := List.getElem?_zip_eq_some.1 hz
      rw [List.getElem?_map] at hz1
      cases hb : ms[i]? with
      | none => rw [hb] at hz1; cases hz1
      | some b =>
        rw [hb] at hz1
        simp only [Option.map_some, Option.some.injEq] at hz1
        refine ⟨b, mr.2, rfl, hz2, ?_⟩
        rw [hz1]; exact h1

/-- `helperImpls` in trait mode, member by member: helper `i` is member `i` with the helper trait's name
    (`_<Trait><idx>`) and the printed row `i` in front of the member's own trait arguments -/
theorem helperImpls_trait_rows_em {idx : Nat} {g : T × ABG × List Blk} {hs : List T}
    (hh : helperImpls idx g = some hs) (hinh : inherentFamily_inh g = false) :
    hs.length = min g.2.2.length g.2.1.payloads.length ∧
    ∀ (i : Nat) (h : T), hs[i]? = some h → ∃ b row, g.2.2[i]? = some b ∧ g.2.1.payloads[i]? = some row ∧
      implTraitName_em h = genIdentStr (implTraitName_em b.item) idx ∧
      implTraitArgs_em h = rowArgs g.2.1.idents row ++ implTraitArgs_em b.item := by
  unfold helperImpls at hh
  simp only at hh
  split at hh
  · next hnil =>
    cases hh
    have : g.2.2 = [] := by simpa using hnil
    simp [this]
  · next first rest hm =>
    have hn : (implTraitPath first).isNone = false := by
      cases hg : g.2.2 with
      | nil => rw [hg] at hm; cases hm
      | cons f r =>
        rw [hg] at hm
        simp only [List.map_cons, List.cons.injEq] at hm
        simp only [inherentFamily_inh, hg] at hinh
        rw [← hm.1]; exact hinh
    simp only [hn, Bool.false_eq_true, if_false] at hh
    split at hh
    · next hall =>
      cases hh
      obtain ⟨h1, h2⟩ := zip_filterMap_getElem_em (fun mr => helperImpl idx none g.2.1.idents mr.2 mr.1) g.2.2 g.2.1.payloads hall
      refine ⟨h1, fun i h hi => ?_⟩
      obtain ⟨b, row, hb, hr, hf⟩ := h2 i h hi
      exact ⟨b, row, hb, hr, helperImpl_trait_args_em hf⟩
    · cases hh

/-- `helperImpls` in inherent mode, member by member: the helper trait's name is `_<SelfType><idx>` and the arguments
    are the printed row `i` followed by the self-type arguments `selfArgs_em g` -/
theorem helperImpls_inherent_rows_em {idx : Nat} {g : T × ABG × List Blk} {hs : List T}
    (hh : helperImpls idx g = some hs) (hinh : inherentFamily_inh g = true) :
    hs.length = min g.2.2.length g.2.1.payloads.length ∧
    ∀ (i : Nat) (h : T), hs[i]? = some h → ∃ b row, g.2.2[i]? = some b ∧ g.2.1.payloads[i]? = some row ∧
      implTraitName_em h = genIdentStr (selfName_em g) idx ∧
      implTraitArgs_em h = rowArgs g.2.1.idents row ++ selfArgs_em g := by
  cases hg : g.2.2 with
  | nil => simp [inherentFamily_inh, hg] at hinh
  | cons first rest =>
    have hnone : implTraitPath first.item = none := by
      simp only [inherentFamily_inh, hg] at hinh
      cases hq : implTraitPath first.item with
      | none => rfl
      | some q => rw [hq] at hinh; cases hinh
    obtain ⟨s, gen, p, sid, hs', hgen, hse, ⟨a, hl⟩, H2⟩ := helperImpls_inherent_inv_inh hg hnone hh
    subst hse
    generalize hp0 : pathNode (pathLead p) (initSegsOf p ++ [.node "PathSegment" [] [sid, angle (inhArgs_inh gen)]]) = p0 at H2
    have hl0 : lastSegOf p0 = some (.node "PathSegment" [] [sid, angle (inhArgs_inh gen)]) := by
      rw [← hp0]; exact lastSegOf_pathNode_inh _ _ _
    obtain ⟨hall, hhs⟩ := H2
    have hfi : firstItem_inh g = first.item := by simp [firstItem_inh, hg]
    obtain ⟨h1, h2⟩ := zip_filterMap_getElem_em (fun mr => helperImpl idx (some p0) g.2.1.idents mr.2 mr.1)
      g.2.2 g.2.1.payloads hall
    rw [← hhs] at h1 h2
    rw [← hg]
    refine ⟨h1, fun i h hi => ?_⟩
    obtain ⟨b, row, hb, hr, hf⟩ := h2 i h hi
    refine ⟨b, row, hb, hr, ?_⟩
    have hf' : helperImpl idx (some p0) g.2.1.idents row b.item = some h := hf
    obtain ⟨x, a', d, u, g', tr, s', items, hsid, _, hh'⟩ := helperImpl_inherent_inv_inh hl0 hf'
    subst hsid
    rw [hh']
    have hname : selfName_em g = x := by
      simp [selfName_em, hfi, hs', lastSegIdentOf, hl]
    have hargs : selfArgs_em g = inhArgs_inh gen := by simp [selfArgs_em, hfi, hgen]
    rw [hname, hargs]
    have := xsegArgs_single_inh noLead (genIdentStr x idx) (rowArgs g.2.1.idents row ++ inhArgs_inh gen)
    simp only [implTraitName_em, implTraitArgs_em, traitPathOf_impl_inh]
    exact ⟨this.2, this.1⟩

/-- both modes: helper `i` starts with the printed row `i`, entry by entry -/
theorem helperImpls_row_entries_em {idx : Nat} {g : T × ABG × List Blk} {hs : List T}
    (hh : helperImpls idx g = some hs) :
    hs.length = min g.2.2.length g.2.1.payloads.length ∧
    ∀ (i : Nat) (h : T), hs[i]? = some h → ∃ b row, g.2.2[i]? = some b ∧ g.2.1.payloads[i]? = some row ∧
      (∃ rest, implTraitArgs_em h = rowArgs g.2.1.idents row ++ rest) ∧
      ∀ (j : Nat) (kx : BKey × String) (r : Option T), g.2.1.idents[j]? = some kx → row[j]? = some r →
        (implTraitArgs_em h)[j]? = some (rowEntry_em kx r) := by
  have key : ∀ (h : T) (row : List (Option T)) (rest : List T), implTraitArgs_em h = rowArgs g.2.1.idents row ++ rest →
      ∀ (j : Nat) (kx : BKey × String) (r : Option T), g.2.1.idents[j]? = some kx → row[j]? = some r →
        (implTraitArgs_em h)[j]? = some (rowEntry_em kx r) := by
    intro h row rest he j kx r hk hr
    have hj := rowArgs_getElem_em g.2.1.idents row j kx r hk hr
    have hlt : j < (rowArgs g.2.1.idents row).length := by
      rcases Nat.lt_or_ge j (rowArgs g.2.1.idents row).length with h1 | h1
      · exact h1
      · rw [List.getElem?_eq_none h1] at hj; cases hj
    rw [he, List.getElem?_append_left hlt, hj]
  cases hinh : inherentFamily_inh g with
  | false =>
    obtain ⟨h1, h2⟩ := helperImpls_trait_rows_em hh hinh
    refine ⟨h1, fun i h hi => ?_⟩
    obtain ⟨b, row, hb, hr, _, ha⟩ := h2 i h hi
    exact ⟨b, row, hb, hr, ⟨_, ha⟩, key h row _ ha⟩
  | true =>
    obtain ⟨h1, h2⟩ := helperImpls_inherent_rows_em hh hinh
    refine ⟨h1, fun i h hi => ?_⟩
    obtain ⟨b, row, hb, hr, _, ha⟩ := h2 i h hi
    exact ⟨b, row, hb, hr, ⟨_, ha⟩, key h row _ ha⟩

/-! ### the whole expansion (lib.rs:693-716): the generators run on every family, in order -/

def genToOption_em {α : Type} : Gen α → Option α
  | .ok a => some a
  | _ => none

/-- `helper_trait::generate` for family `idx`: from the trait definition (trait mode) or from the family's first
    block (inherent mode); the number of key parameters is `idents().count()` -/
def helperTraitOf_em (trait_ : Option T) (idx : Nat) (g : T × ABG × List Blk) : Option T :=
  match trait_ with
  | some t => helperTraitOfTrait t idx g.2.1.idents.length
  | none => genToOption_em (helperTraitOfInherent (firstItem_inh g) idx g.2.1.idents.length)

/-- `main_trait::generate` for family `idx` (`some none`: inherent mode, no main impl is generated) -/
def mainImplOf_em (trait_ : Option T) (idx : Nat) (g : T × ABG × List Blk) : Option (Option T) :=
  match trait_ with
  | some t => (genToOption_em (mainImplOfTrait t idx g)).map some
  | none => genToOption_em (mainImplInherent idx g)

/-- the three generators on one family: (helper trait, helper impls, main impl); `none` if one of them fails -/
def familyItems_em (trait_ : Option T) (idx : Nat) (g : T × ABG × List Blk) : Option (T × List T × Option T) :=
  match helperTraitOf_em trait_ idx g, helperImpls idx g, mainImplOf_em trait_ idx g with
  | some ht, some hs, some mi => some (ht, hs, mi)
  | _, _, _ => none

/-- `for (impl_group_idx, impl_group) in impl_groups.into_values().enumerate()` -/
def expandParts_em (trait_ : Option T) (groups : Groups) : Option (List (T × List T × Option T)) :=
  allSome ((List.zip (List.range groups.length) groups).map (fun ig => familyItems_em trait_ ig.1 ig.2))

def partsHelpers_em (ps : List (T × List T × Option T)) : List T := ps.map (·.1)
def partsHelperImpls_em (ps : List (T × List T × Option T)) : List T := ps.flatMap (·.2.1)
def partsMainImpls_em (ps : List (T × List T × Option T)) : List T := ps.filterMap (·.2.2)

/-- `const _: () = { items };` as an item tree -/
def anonConst_em (items : List T) : T :=
  .node "ItemConst" [] [ignAttrs, .node "Visibility::Inherited" [] [], tIdent "_", emptyGenerics,
    .node "Type::Tuple" [] [tList []],
    .node "Expr::Block" [] [ignAttrs, tNone, .node "Block" [] [tList (items.map (fun i => .node "Stmt::Item" [] [i]))]]]

/-- the names an item binds in the scope it is placed in: a trait its identifier, `const _` none -/
def itemBoundNames_em : T → List String
  | .node "ItemTrait" [] (_ :: _ :: _ :: _ :: _ :: .node "Ident" [x] [] :: _) => [x]
  | .node "ItemConst" [] (_ :: _ :: .node "Ident" [x] [] :: _) => if x == "_" then [] else [x]
  | _ => []

/-- an `ItemTrait` tree with an identifier -/
def isItemTrait_em : T → Bool
  | .node "ItemTrait" [] (_ :: _ :: _ :: _ :: _ :: .node "Ident" [_] [] :: _) => true
  | _ => false

theorem itemBoundNames_of_isItemTrait_em {t : T} (h : isItemTrait_em t = true) : itemBoundNames_em t = [traitIdent t] := by
  unfold isItemTrait_em at h
  split at h
  · simp [itemBoundNames_em, traitIdent]
  · cases h

theorem itemBoundNames_anonConst_em (items : List T) : itemBoundNames_em (anonConst_em items) = [] := by
  simp [itemBoundNames_em, anonConst_em, tIdent]

theorem map_eq_map_some_em {α β γ : Type} [DecidableEq γ] (f : α → Option β) (P : α → γ) (Q : β → γ) :
    ∀ (l : List α) (r : List β), l.map f = r.map some → (∀ x p, x ∈ l → f x = some p → P x = Q p) → l.map P = r.map Q
  | [], [], _, _ => rfl
  | [], _ :: _, h, _ => by simp at h
  | _ :: _, [], h, _ => by simp at h
  | x :: l, p :: r, h, hp => by
      simp only [List.map_cons, List.cons.injEq] at h ⊢
      exact ⟨hp x p (by simp) h.1, map_eq_map_some_em f P Q l r h.2 (fun x p hx => hp x p (List.mem_cons_of_mem _ hx))⟩

theorem expandParts_inv_em {trait_ : Option T} {groups : Groups} {ps : List (T × List T × Option T)}
    (h : expandParts_em trait_ groups = some ps) :
    (List.zip (List.range groups.length) groups).map (fun ig => familyItems_em trait_ ig.1 ig.2) = ps.map some :=
  allSome_inv_inh h

theorem expandParts_length_em {trait_ : Option T} {groups : Groups} {ps : List (T × List T × Option T)}
    (h : expandParts_em trait_ groups = some ps) : ps.length = groups.length := by
  have := congrArg List.length (expandParts_inv_em h)
  simpa using this.symm

/-- the name of the trait the helper trait of family `idx` is derived from -/
def helperBaseName_em (trait_ : Option T) (g : T × ABG × List Blk) : String :=
  match trait_ with
  | some t => traitIdent t
  | none => selfName_em g

theorem helperTraitOfTrait_name_em {t : T} {idx nkeys : Nat} {ht : T} (h : helperTraitOfTrait t idx nkeys = some ht) :
    traitIdent ht = genIdent (traitIdent t) idx := by
  unfold helperTraitOfTrait at h
  split at h
  · cases h; simp [traitIdent, tIdent, genIdentStr, genIdent]
  · cases h

theorem helperTraitOfInherent_name_em {g : T × ABG × List Blk} {idx nkeys : Nat} {ht : T}
    (h : helperTraitOfInherent (firstItem_inh g) idx nkeys = .ok ht) :
    traitIdent ht = genIdent (selfName_em g) idx := by
  unfold helperTraitOfInherent at h
  split at h
  · next a b unsafety lt ps gt wc tr st items hitem =>
    split at h
    · next x its hx _ =>
      cases h
      obtain ⟨sp, a', rfl, hlast⟩ := selfTraitIdent_inv_inh hx
      have : selfName_em g = x := by
        simp [selfName_em, hitem, implSelfTy, lastSegIdentOf, hlast]
      rw [this]
      simp [traitIdent, tIdent, genIdentStr, genIdent]
    · cases h
    · cases h
    · cases h
  · cases h

theorem familyItems_name_em {trait_ : Option T} {idx : Nat} {g : T × ABG × List Blk} {p : T × List T × Option T}
    (h : familyItems_em trait_ idx g = some p) : traitIdent p.1 = genIdent (helperBaseName_em trait_ g) idx := by
  unfold familyItems_em at h
  split at h
  · next ht hs mi h1 _ _ =>
    cases h
    cases trait_ with
    | some t => exact helperTraitOfTrait_name_em h1
    | none =>
      simp only [helperTraitOf_em] at h1
      cases hg : helperTraitOfInherent (firstItem_inh g) idx g.2.1.idents.length with
      | ok ht' =>
        rw [hg] at h1
        simp only [genToOption_em, Option.some.injEq] at h1
        subst h1
        exact helperTraitOfInherent_name_em hg
      | panic => rw [hg] at h1; cases h1
      | unmodelled => rw [hg] at h1; cases h1
  · cases h

/-- the helper traits are named `_<base><idx>`, family by family -/
theorem partsHelpers_names_em {trait_ : Option T} {groups : Groups} {ps : List (T × List T × Option T)}
    (h : expandParts_em trait_ groups = some ps) :
    (partsHelpers_em ps).map traitIdent =
      (List.zip (List.range groups.length) groups).map (fun ig => genIdent (helperBaseName_em trait_ ig.2) ig.1) := by
  unfold partsHelpers_em
  rw [List.map_map]
  exact (map_eq_map_some_em _ _ _ _ _ (expandParts_inv_em h) (fun x p _ hx => (familyItems_name_em hx).symm)).symm

theorem zip_range_map_fst_em {α : Type} (l : List α) (f : Nat → String) :
    (List.zip (List.range l.length) l).map (fun ig => f ig.1) = (List.range l.length).map f := by
  have : (List.zip (List.range l.length) l).map (fun ig => f ig.1) = ((List.zip (List.range l.length) l).map (·.1)).map f := by
    rw [List.map_map]; rfl
  rw [this, List.map_fst_zip (by simp)]

/-- trait mode: the helper traits are named `_<Trait>0 … _<Trait>(n-1)` -/
theorem partsHelpers_names_trait_em {t : T} {groups : Groups} {ps : List (T × List T × Option T)}
    (h : expandParts_em (some t) groups = some ps) :
    (partsHelpers_em ps).map traitIdent = (List.range groups.length).map (genIdent (traitIdent t)) := by
  rw [partsHelpers_names_em h]
  exact zip_range_map_fst_em groups (genIdent (traitIdent t))

/-- inherent mode, all families on the same self-type name `n` -/
theorem partsHelpers_names_inherent_em {n : String} {groups : Groups} {ps : List (T × List T × Option T)}
    (h : expandParts_em none groups = some ps) (hn : groups.all (fun g => selfName_em g == n) = true) :
    (partsHelpers_em ps).map traitIdent = (List.range groups.length).map (genIdent n) := by
  rw [partsHelpers_names_em h, ← zip_range_map_fst_em groups (genIdent n)]
  apply List.map_congr_left
  intro ig hig
  have : ig.2 ∈ groups := (List.of_mem_zip hig).2
  have := List.all_eq_true.1 hn _ this
  simp only [helperBaseName_em, eq_of_beq this]

/-! ### helper names with at most ten families: single-digit indices cannot clash -/

theorem toString_digit_em : ∀ i : Fin 10, (toString i.val).toList = [Nat.digitChar i.val] := by decide

theorem digitChar_inj_em : ∀ i j : Fin 10, Nat.digitChar i.val = Nat.digitChar j.val → i = j := by decide

/-- with single-digit indices `_<x><i>` determines `i`, whatever the names are -/
theorem genIdent_inj_small_em {x y : String} {i j : Nat} (hi : i < 10) (hj : j < 10)
    (h : genIdent x i = genIdent y j) : i = j := by
  unfold genIdent at h
  have h' := congrArg String.toList h
  simp only [String.toList_append] at h'
  have e1 := toString_digit_em ⟨i, hi⟩
  have e2 := toString_digit_em ⟨j, hj⟩
  simp only at e1 e2
  rw [e1, e2] at h'
  have := List.append_inj_right' h' rfl
  simp only [List.cons.injEq, and_true] at this
  have := digitChar_inj_em ⟨i, hi⟩ ⟨j, hj⟩ this
  exact congrArg Fin.val this

/-- at most ten families: the helper traits have pairwise different names in both modes -/
theorem partsHelpers_names_nodup_small_em {trait_ : Option T} {groups : Groups} {ps : List (T × List T × Option T)}
    (h : expandParts_em trait_ groups = some ps) (hlen : groups.length ≤ 10) :
    ((partsHelpers_em ps).map traitIdent).Nodup := by
  rw [partsHelpers_names_em h]
  have hfst : ((List.zip (List.range groups.length) groups).map (·.1)).Nodup := by
    rw [List.map_fst_zip (by simp)]; exact List.nodup_range
  unfold List.Nodup at hfst ⊢
  rw [List.pairwise_map] at hfst ⊢
  rw [List.Pairwise.and_mem] at hfst
  refine hfst.imp ?_
  intro a b ⟨ha, hb, hab⟩ he
  have la : a.1 < 10 := by
    have := List.mem_range.1 (List.of_mem_zip ha).1; omega
  have lb : b.1 < 10 := by
    have := List.mem_range.1 (List.of_mem_zip hb).1; omega
  exact hab (genIdent_inj_small_em la lb he)

/-! ### which spelling the stored key has -/

theorem mem_keyPathsFor_em {abg : ABG} (hk : keysProper_em abg = true) {b p : T} (h : p ∈ keyPathsFor_em abg b) :
    ∃ kr ∈ abg.bounds, kr.1 = (b, p) := by
  rw [keyPathsFor_eq_em abg b hk] at h
  obtain ⟨kr, hkr, rfl⟩ := List.mem_map.1 h
  obtain ⟨hkr1, hb⟩ := List.mem_filter.1 hkr
  exact ⟨kr, hkr1, by rw [← eq_of_beq hb]⟩

/-- flat inputs: every stored key of a family is, tree for tree, a bound `bounded: tr` the LAST member wrote
    (`rb ∈ l.raw`, the bounds `TraitBoundsVisitor::find` extracts from the canonicalised block) -/
theorem flat_stored_key_last_em {items : List T} {g : Groups} (h : parseGroups items = .ok g)
    (hms : msPairs ((mkBuckets (items.map mkBlk)).map (·.1)) = []) (hwf : flatWF0 items = true) :
    ∀ e ∈ g, ∃ l, e.2.2.getLast? = some l ∧ l ∈ items.map mkBlk ∧
      ∀ kr ∈ e.2.1.bounds, ∃ rb ∈ l.raw, kr.1 = (rb.bounded, rb.tr) := by
  intro e he
  obtain ⟨_, hmem, l, hl, hchar⟩ := flat_family_char h hms hwf e he
  have hle : l ∈ e.2.2 := List.mem_of_getLast? hl
  refine ⟨l, hl, ((hmem l).1 hle).1, fun kr hkr => ?_⟩
  obtain ⟨⟨r, hr⟩, _⟩ := (hchar kr).1 hkr
  exact (otherFold_spec l _ hr).1

/-! ### executable exact checkers (to be evaluated on a REAL expansion) -/

/-- the where-clause of the main impl `m` of family `g` with index `idx` is exactly what the theorems
    `mainImplOfTrait_where_em` / `mainImplInherent_where_em` say -/
def mainWhereExact_em (trait_ : Option T) (idx : Nat) (g : T × ABG × List Blk) (m : T) : Bool :=
  match trait_ with
  | some tr => implWhere_em m ==
      traitOwnPreds_em tr g ++ emittedPreds_em (genIdentStr (headerName_em g) idx) g.2.1 (headerArgs_em g)
  | none => implWhere_em m == emittedPreds_em (genIdentStr (selfName_em g) idx) g.2.1 (selfArgs_em g)

/-- every helper impl starts its trait arguments with the printed row of its member -/
def helperRowsExact_em (g : T × ABG × List Blk) (hs : List T) : Bool :=
  hs.length == min g.2.2.length g.2.1.payloads.length &&
  (List.zip hs g.2.1.payloads).all (fun hr => (rowArgs g.2.1.idents hr.2).isPrefixOf (implTraitArgs_em hr.1))

theorem mainWhereExact_of_trait_em {tr : T} {idx : Nat} {g : T × ABG × List Blk} {m : T}
    (h : mainImplOfTrait tr idx g = .ok m) : mainWhereExact_em (some tr) idx g m = true := by
  simp [mainWhereExact_em, mainImplOfTrait_where_em h]

theorem mainWhereExact_of_inherent_em {idx : Nat} {g : T × ABG × List Blk} {m : T}
    (h : mainImplInherent idx g = .ok (some m)) : mainWhereExact_em none idx g m = true := by
  simp [mainWhereExact_em, mainImplInherent_where_em h]

theorem isPrefixOf_append_em (a b : List T) : a.isPrefixOf (a ++ b) = true := by
  induction a with
  | nil => simp
  | cons x a ih => simp [ih]

theorem helperRowsExact_of_em {idx : Nat} {g : T × ABG × List Blk} {hs : List T}
    (h : helperImpls idx g = some hs) : helperRowsExact_em g hs = true := by
  obtain ⟨h1, h2⟩ := helperImpls_row_entries_em h
  simp only [helperRowsExact_em, Bool.and_eq_true, beq_iff_eq, List.all_eq_true]
  refine ⟨h1, fun hr hhr => ?_⟩
  obtain ⟨i, hi⟩ := List.getElem?_of_mem hhr
  obtain ⟨hz1, hz2⟩ := List.getElem?_zip_eq_some.1 hi
  obtain ⟨b, row, _, hrow, ⟨rest, hrest⟩, _⟩ := h2 i hr.1 hz1
  rw [hz2] at hrow
  cases hrow
  rw [hrest]
  exact isPrefixOf_append_em _ _

end DI
