/-
  `mainSizedParams_uz` (Lemmas/UnsizedSearch.lean) against the model of the generator (`mainImplOfTrait`, Expand.lean):
  the `Sized` parameters `Bounds.mkBlock` reads off the generated main impl are among `mainSizedParams_uz e`
  (the main impl may require `Sized` of FEWER parameters: it drops the parameters it does not use, and the trait's own
  where-clause may relax more; `sizedCompatB` is antitone in this set, `sizedCompatB_mono_uz`).
-/
import DisjointImpls.Lemmas.UnsizedSearch
import DisjointImpls.Lemmas.ExpandLemmas
import DisjointImpls.Lemmas.CanonLemmas
namespace DI

/-- the shape of a main impl the generator returns, with its parameter list exposed: the lifetime, type and const
    parameters the indexer `s` reached, `s` starting from the tables of the first member's generics `eg` -/
theorem mainImplOfTrait_params_inv_uz {trait_ : T} {idx : Nat} {g : T × ABG × List Blk} {m : T}
    (h : mainImplOfTrait trait_ idx g = .ok m) :
    ∃ first rest eg, ∃ s : IxState, ∃ cps usf lt gt preds0 href tr st finals,
      g.2.2 = first :: rest ∧ implGenerics first.item = some eg ∧
      s.namesTy.Perm (kindNames eg "GenericParam::Type") ∧
      allSome (s.ixCo.map (fun xi => newConstParam eg xi.1)) = some cps ∧
      m = .node "ItemImpl" [] [ignAttrs, tNone, usf,
        .node "Generics" [] [lt, tList (s.ixLt.map (fun xi => newLifetimeParam xi.1) ++
          s.ixTy.map (fun xi => newTypeParam xi.1) ++ cps), gt, mkWhere (preds0 ++ assocBoundPredicates g.2.1 href)],
        tr, st, tList finals] := by
  unfold mainImplOfTrait at h
  split at h
  · cases h
  · next first rest hg =>
    simp only at h
    cases hp : implTraitPath first.item with
    | none => rw [hp] at h; cases h
    | some tp =>
      cases hs : implSelfTy first.item with
      | none => rw [hp, hs] at h; cases h
      | some st =>
        cases he : implGenerics first.item with
        | none => rw [hp, hs, he] at h; cases h
        | some eg =>
          rw [hp, hs, he] at h
          split at h
          · have e1 : some tp = some _ := ‹_›
            cases e1
            have e2 : some st = some _ := ‹_›
            cases e2
            have e3 : some eg = some _ := ‹_›
            cases e3
            split at h
            · next lt x gt wc items tname targs hres hlast =>
              split at h
              · next dummies finals hd hf =>
                split at h
                · cases h
                · next cps hc =>
                  cases h
                  refine ⟨first, rest, _, _, cps, _, lt, gt, wherePreds wc, _, _, _, finals, hg, he, ?_, hc, rfl⟩
                  exact (sameNames_rel.trans (ixT_rel sameNames_rel _ _)
                    (ixL_rel sameNames_rel _ (fun t _ => ixT_rel sameNames_rel t) _)).2.1
              · cases h
              · cases h
              · cases h
            · cases h
          · cases h

theorem allSome_inv_uz {α : Type} : ∀ {l : List (Option α)} {r : List α}, allSome l = some r → l = r.map some
  | [], r, h => by simp [allSome] at h; subst h; rfl
  | none :: l, r, h => by simp [allSome] at h
  | some a :: l, r, h => by
      simp only [allSome, Option.map_eq_some_iff] at h
      obtain ⟨r', hr, rfl⟩ := h
      simp [allSome_inv_uz hr]

theorem typeParamBounds_newLifetime_uz (x : String) : typeParamBounds (newLifetimeParam x) = none := rfl
theorem typeParamBounds_newType_uz (x : String) : typeParamBounds (newTypeParam x) = some (x, []) := rfl

theorem typeParamBounds_newConst_uz {eg : T} {x : String} {q : T} (h : newConstParam eg x = some q) :
    typeParamBounds q = none := by
  unfold newConstParam at h
  split at h
  · cases h; rfl
  · cases h

/-- the type parameters of the generated main impl are those the indexer reached -/
theorem typeParamNames_main_uz {s : IxState} {eg : T} {cps : List T} {lt gt wc : T}
    (hc : allSome (s.ixCo.map (fun xi => newConstParam eg xi.1)) = some cps) {p : String}
    (hp : p ∈ typeParamNames (.node "Generics" [] [lt, tList (s.ixLt.map (fun xi => newLifetimeParam xi.1) ++
          s.ixTy.map (fun xi => newTypeParam xi.1) ++ cps), gt, wc])) : p ∈ s.ixTy.map Prod.fst := by
  have hgp : genericsParams (.node "Generics" [] [lt, tList (s.ixLt.map (fun xi => newLifetimeParam xi.1) ++
          s.ixTy.map (fun xi => newTypeParam xi.1) ++ cps), gt, wc]) =
      s.ixLt.map (fun xi => newLifetimeParam xi.1) ++ s.ixTy.map (fun xi => newTypeParam xi.1) ++ cps := rfl
  unfold typeParamNames at hp
  rw [hgp] at hp
  obtain ⟨q, hq, hfq⟩ := List.mem_filterMap.1 hp
  rcases List.mem_append.1 hq with hq | hq
  · rcases List.mem_append.1 hq with hq | hq
    · obtain ⟨xi, _, rfl⟩ := List.mem_map.1 hq
      rw [typeParamBounds_newLifetime_uz] at hfq
      cases hfq
    · obtain ⟨xi, hxi, rfl⟩ := List.mem_map.1 hq
      rw [typeParamBounds_newType_uz] at hfq
      cases hfq
      exact List.mem_map.2 ⟨xi, hxi, rfl⟩
  · have hinv := allSome_inv_uz hc
    have : some q ∈ s.ixCo.map (fun xi => newConstParam eg xi.1) := by
      rw [hinv]; exact List.mem_map.2 ⟨q, hq, rfl⟩
    obtain ⟨xi, _, hxi⟩ := List.mem_map.1 this
    rw [typeParamBounds_newConst_uz hxi] at hfq
    cases hfq

theorem boundsOf_maybeSized_uz (b : T) (rest : List T) :
    ∃ rb ∈ boundsOf b (maybeSizedBound :: rest), rb.maybe = true ∧ rb.bounded = b := by
  refine ⟨⟨b, pathNode noLead [seg "Sized"], assocBinds (pathNode noLead [seg "Sized"]), true⟩, ?_, rfl, rfl⟩
  unfold boundsOf maybeSizedBound
  simp only [List.filterMap_cons]
  exact List.mem_cons_self

/-- the main impl relaxes (in the sense of `Bounds.isMaybeSizedOn`) every parameter `x` that is in the group's `unsized`
    set and is the bounded type of a key with an associated-type identifier -/
theorem isMaybeSizedOn_main_uz (abg : ABG) (href : T) (lt ps gt : T) (preds0 : List T) (x : String)
    (hu : abg.unsized.contains (mkTypeIdent x) = true) (hk : mkTypeIdent x ∈ identTypes_uz abg) :
    isMaybeSizedOn (findBounds (.node "Generics" [] [lt, ps, gt, mkWhere (preds0 ++ assocBoundPredicates abg href)])) x = true := by
  have hgw : genericsWhere (.node "Generics" [] [lt, ps, gt, mkWhere (preds0 ++ assocBoundPredicates abg href)]) =
      preds0 ++ assocBoundPredicates abg href := rfl
  obtain ⟨rb, hrb, hm, hb⟩ := boundsOf_maybeSized_uz (mkTypeIdent x)
    (((abg.idents.filter (fun kx => kx.1.1 == mkTypeIdent x)).foldl (fun (acc : List T) kx =>
      if acc.any (fun t => tbEq t kx.1.2 == .t) then acc else acc ++ [kx.1.2]) []).map (fun t => traitBoundOf (tbTokens t)))
  unfold isMaybeSizedOn
  rw [List.any_eq_true]
  refine ⟨rb, ?_, by rw [hm, hb]; simp⟩
  unfold findBounds
  simp only
  rw [hgw]
  apply List.mem_append_right
  rw [List.mem_flatMap]
  refine ⟨whereType (mkTypeIdent x) (maybeSizedBound :: _), ?_, hrb⟩
  apply List.mem_append_right
  unfold assocBoundPredicates
  simp only
  apply List.mem_append_left
  rw [List.mem_map]
  refine ⟨mkTypeIdent x, mem_dedupKeys hk, ?_⟩
  rw [hu]
  rfl

/-- **the `Sized` parameters of the generated main impl are among `mainSizedParams_uz e`**, for every group `e` for which
    the model's generator `mainImplOfTrait` returns a main impl -/
theorem mainImpl_sizedParams_sub_uz {trait_ : T} {idx : Nat} {e : T × ABG × List Blk} {m : T}
    (h : mainImplOfTrait trait_ idx e = .ok m) : ∀ p ∈ (mkBlock m).sizedParams, p ∈ mainSizedParams_uz e := by
  obtain ⟨first, rest, eg, s, cps, usf, lt, gt, preds0, href, tr, st, finals, hg, he, hperm, hc, rfl⟩ :=
    mainImplOfTrait_params_inv_uz h
  intro p hp
  have hsp : (mkBlock (.node "ItemImpl" [] [ignAttrs, tNone, usf,
        .node "Generics" [] [lt, tList (s.ixLt.map (fun xi => newLifetimeParam xi.1) ++
          s.ixTy.map (fun xi => newTypeParam xi.1) ++ cps), gt, mkWhere (preds0 ++ assocBoundPredicates e.2.1 href)],
        tr, st, tList finals])).sizedParams =
      (typeParamNames (.node "Generics" [] [lt, tList (s.ixLt.map (fun xi => newLifetimeParam xi.1) ++
          s.ixTy.map (fun xi => newTypeParam xi.1) ++ cps), gt, mkWhere (preds0 ++ assocBoundPredicates e.2.1 href)])).filter
        (fun x => !isMaybeSizedOn (findBounds (.node "Generics" [] [lt, tList (s.ixLt.map (fun xi => newLifetimeParam xi.1) ++
          s.ixTy.map (fun xi => newTypeParam xi.1) ++ cps), gt, mkWhere (preds0 ++ assocBoundPredicates e.2.1 href)])) x) := rfl
  rw [hsp, List.mem_filter] at hp
  obtain ⟨hp1, hp2⟩ := hp
  have hix := typeParamNames_main_uz hc hp1
  have hkn : p ∈ kindNames eg "GenericParam::Type" :=
    hperm.mem_iff.1 (List.mem_append.2 (Or.inl hix))
  unfold mainSizedParams_uz
  rw [hg]
  simp only
  have hbg : blkGenerics_uz first = eg := by unfold blkGenerics_uz; rw [he]; rfl
  rw [hbg, List.mem_filter]
  refine ⟨hkn, ?_⟩
  cases hu : e.2.1.unsized.contains (mkTypeIdent p) with
  | false => rfl
  | true =>
    cases hk : (identTypes_uz e.2.1).contains (mkTypeIdent p) with
    | false => rfl
    | true =>
      exfalso
      have hk' : mkTypeIdent p ∈ identTypes_uz e.2.1 := by simpa using hk
      rw [isMaybeSizedOn_main_uz e.2.1 href lt _ gt preds0 p hu hk'] at hp2
      cases hp2

/-- hence, for the flat families that pass the checks, `sizedCompatB` holds for the family abstracted with the `Sized`
    parameters READ OFF THE GENERATED MAIN IMPL (what `Bounds.mkFamily` / the driver's `family` command do) -/
theorem flat_sizedCompatB_mainImpl_uz {items : List T} {groups : Groups} (h : parseGroups items = .ok groups)
    (hns : ∀ id, (parseEnv items).subsets.get id = []) {e : T × ABG × List Blk} (he : e ∈ groups)
    (hself : selfIdentity e.1 = true) (hpar : mainParamsOK_uz e = true) (hrel : relaxedAreKeys_uz e = true)
    {trait_ : T} {idx : Nat} {m : T} (hm : mainImplOfTrait trait_ idx e = .ok m) (W : World) :
    ∀ mem ∈ (familyOfGroup (mkBlock m).sizedParams e).members,
      sizedCompatB (familyOfGroup (mkBlock m).sizedParams e) mem = true ∧
      SizedCompat W (familyOfGroup (mkBlock m).sizedParams e) mem :=
  fun mem hmem =>
    ⟨flat_sizedCompatB_sub_uz h hns he hself hpar hrel _ (mainImpl_sizedParams_sub_uz hm) mem hmem,
     flat_sizedCompat_uz h hns he hself hpar hrel _ (mainImpl_sizedParams_sub_uz hm) W mem hmem⟩

end DI
