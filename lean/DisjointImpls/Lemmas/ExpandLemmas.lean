/-
  `ExpandOK` holds of the model's expansion (`Props/C01.lean`, `C01_expandOK_of_expand`): the helper impls and the
  main impl produced by the generators of `Expand.lean` pass the checker of `ExpandOK.lean`. Core-only.
-/
import DisjointImpls.ExpandOK
import DisjointImpls.Expand
import DisjointImpls.Lemmas.KeyLemmas
import DisjointImpls.Lemmas.GroupLemmas
namespace DI

open XOK

theorem implTraitPath_inv {item p : T} (h : implTraitPath item = some p) :
    ∃ a d u g b s items, item = .node "ItemImpl" [] [a, d, u, g, .node "Some" [] [.node "Tuple" [] [b, p]], s, items] := by
  unfold implTraitPath at h
  split at h
  · next a d u g b p' s items => cases h; exact ⟨a, d, u, g, b, s, items, rfl⟩
  · cases h

theorem lastSegOf_inv {p l : T} (h : lastSegOf p = some l) :
    ∃ lc, p = .node "Path" [] [lc, .node "List" [] (initSegsOf p ++ [l])] := by
  unfold lastSegOf at h
  have hne : pathSegments p ≠ [] := by intro e; rw [e] at h; simp at h
  obtain ⟨lc, segs, rfl⟩ := pathSegments_ne_nil_inv hne
  refine ⟨lc, ?_⟩
  rw [pathSegments_mkPath] at h
  rw [initSegsOf, pathSegments_mkPath]
  rcases List.eq_nil_or_concat segs with rfl | ⟨i, x, rfl⟩
  · simp at h
  · simp at h; subst h; simp [mkPath]

theorem isAssocType_eq (a : T) : isAssocType a = (kind a == "GenericArgument::AssocType") := by
  unfold isAssocType kind
  split
  · simp
  · next h =>
    cases a with
    | tparam n => simp
    | eparam n => simp
    | node k as ks =>
      simp only
      cases hk : (k == "GenericArgument::AssocType") with
      | false => rfl
      | true => exact absurd (by rw [eq_of_beq hk]) (h as ks)

theorem filter_nonAssoc (args : List T) :
    args.filter (fun a => kind a != "GenericArgument::AssocType") = nonAssoc args := by
  unfold nonAssoc
  apply List.filter_congr
  intro a _
  rw [isAssocType_eq]
  rfl

theorem segsOf_mkPath (lc : T) (segs : List T) : segsOf (mkPath lc segs) = segs := by
  simp [segsOf, mkPath, kid, kids]

theorem lastOf_concat (l : List T) (x : T) : lastOf (l ++ [x]) = x := by simp [lastOf]

theorem normSegs_append (a b : List T) : normSegs (a ++ b) = normSegs a ++ normSegs b := by simp [normSegs]

theorem xsegArgs_angleSeg (id c2 : T) (args : List T) : XOK.segArgs (angleSeg id c2 args) = args := by
  simp [XOK.segArgs, angleSeg, kid, kids, kind]

theorem segIdent_angleSeg' (id c2 : T) (args : List T) : XOK.segIdent (angleSeg id c2 args) = (atoms id).headD "" := by
  simp [XOK.segIdent, angleSeg, kid, kids]

/-- printing a trait bound without its bindings does not change its normalised segments -/
theorem normSegs_tbTokens (tr : T) :
    normSegs (pathSegments (tbTokens tr)) = normSegs (pathSegments tr) := by
  unfold tbTokens
  rcases stripBindings_cases tr with ⟨lc, i, id, c2, args, rfl⟩ | ⟨he, _⟩
  · rw [stripBindings_angle, pathSegments_mkPath, pathSegments_mkPath, normSegs_append, normSegs_append]
    congr 1
    simp only [normSegs, List.map_cons, List.map_nil, xsegArgs_angleSeg, segIdent_angleSeg', filter_nonAssoc,
      nonAssoc_idem]
  · rw [he]

/-- a path whose segments can be read positionally -/
def pathShaped (p : T) : Bool := pathSegments p == segsOf p

theorem pathShaped_of_wfPath {p : T} (h : wfPath p = true) : pathShaped p = true := by
  obtain ⟨l, hl, _⟩ := wfPath_last h
  have hne : pathSegments p ≠ [] := by
    intro e; unfold lastSeg at hl; rw [e] at hl; cases hl
  obtain ⟨lc, segs, rfl⟩ := pathSegments_ne_nil_inv hne
  simp [pathShaped, pathSegments_mkPath, segsOf_mkPath]

/-- the projection of a key, read back by the checker -/
theorem projectionParts_projection (b tr : T) (a : String) :
    projectionParts (gaType (projection b tr a)) = some (b, pathSegments (tbTokens tr), a) := by
  simp [projectionParts, gaType, projection, tyPath, tSome, pathNode, tList, kid, kids, kind, segsOf, seg, tIdent,
    XOK.segIdent, lastOf, atoms]

/-- wildcard entries only where the member's substitution fixes the key's bounded type (fails for F-D3) -/
def wfixRow (θ : Subst) : List (BKey × String) → List (Option T) → Bool
  | kx :: ks, r :: rs => (r.isSome || inst θ kx.1.1 == kx.1.1) && wfixRow θ ks rs
  | _, _ => true

/-- one leading argument as the generator prints it -/
def rowArg (kx : BKey × String) (r : Option T) : T :=
  match r with
  | some p => asGenericArg p
  | none => asGenericArg (projection kx.1.1 kx.1.2 kx.2)

theorem rowArgs_cons (kx : BKey × String) (ks : List (BKey × String)) (r : Option T) (rs : List (Option T)) :
    rowArgs (kx :: ks) (r :: rs) = rowArg kx r :: rowArgs ks rs := by
  simp only [rowArgs, List.zip_cons_cons, List.map_cons]
  cases r <;> rfl

theorem rowArgs_length (idents : List (BKey × String)) (row : List (Option T)) (h : row.length = idents.length) :
    (rowArgs idents row).length = idents.length := by
  simp [rowArgs, h]

theorem checkArgs_rowArgs (θ : Subst) : ∀ (idents : List (BKey × String)) (row : List (Option T)),
    (∀ kx ∈ idents, pathShaped kx.1.2 = true) → wfixRow θ idents row = true →
    checkArgs θ (rowArgs idents row) (keysOf idents) row = true
  | [], row, _, _ => by simp [rowArgs, checkArgs]
  | kx :: ks, [], _, _ => by simp [rowArgs, checkArgs]
  | kx :: ks, r :: rs, hp, hw => by
      rw [rowArgs_cons]
      simp only [wfixRow, Bool.and_eq_true, Bool.or_eq_true] at hw
      simp only [keysOf, List.map_cons, checkArgs, List.headD_cons, List.tail_cons, Bool.and_eq_true]
      refine ⟨?_, checkArgs_rowArgs θ ks rs (fun k hk => hp k (List.mem_cons_of_mem _ hk)) hw.2⟩
      cases r with
      | some p => simp [rowArg, checkArg, asGenericArg, gaType]
      | none =>
        have hfix : inst θ kx.1.1 = kx.1.1 := by
          rcases hw.1 with h | h
          · cases h
          · exact eq_of_beq h
        have hsh : pathSegments kx.1.2 = segsOf kx.1.2 := eq_of_beq (hp kx (by simp))
        simp only [rowArg, checkArg, asGenericArg, projectionParts_projection, normSegs_tbTokens, hfix, hsh,
          beq_self_eq_true, Bool.and_self]

theorem keysOf_length (idents : List (BKey × String)) : (keysOf idents).length = idents.length := by
  simp [keysOf]

/-- a helper impl produced by the generator (trait mode) passes the per-member check -/
theorem checkHelper_helperImpl (idx : Nat) (idents : List (BKey × String)) (row : List (Option T)) (member h : T)
    (θ : Subst) (hh : helperImpl idx none idents row member = some h) (hlen : row.length = idents.length)
    (hp : ∀ kx ∈ idents, pathShaped kx.1.2 = true) (hw : wfixRow θ idents row = true) :
    checkHelper false (keysOf idents) member h row θ = true := by
  unfold helperImpl at hh
  simp only at hh
  cases hp' : implTraitPath member with
  | none => rw [hp'] at hh; cases hh
  | some p =>
    rw [hp'] at hh
    simp only at hh
    obtain ⟨a, d, u, g, b, s, items, rfl⟩ := implTraitPath_inv hp'
    cases hl : lastSegOf p with
    | none => rw [hl] at hh; cases hh
    | some l =>
      rw [hl] at hh
      obtain ⟨lc, hpe⟩ := lastSegOf_inv hl
      have hargsLen := rowArgs_length idents row hlen
      have hca := checkArgs_rowArgs θ idents row hp hw
      split at hh
      · next x args heq =>
        cases heq
        split at hh
        · next hna =>
          -- which arguments did the member's last segment have
          split at hna
          · -- none
            cases hna
            cases hh
            rw [hpe]
            simp [checkHelper, setImplTrait, traitPathOf, kid, kids, kind, tSome, pathNode, tList, XOK.lastSeg, segsOf,
              lastOf, XOK.segArgs, angle, keysOf_length, ← hargsLen, hca]
          · next c2 old =>
            cases hna
            cases hh
            rw [hpe]
            simp [checkHelper, setImplTrait, traitPathOf, kid, kids, kind, tSome, pathNode, tList, XOK.lastSeg, segsOf,
              lastOf, XOK.segArgs, keysOf_length, ← hargsLen, hca]
          · cases hna
        · cases hh
      · cases hh

open XOK

/-- `wfixRow` for every member, rows and substitutions taken position by position like `checkHelpers` does -/
def wfixRows (idents : List (BKey × String)) : List T → List (List (Option T)) → List Subst → Bool
  | _ :: ms, rows, thetas => wfixRow (thetas.headD []) idents (rows.headD []) && wfixRows idents ms rows.tail thetas.tail
  | [], _, _ => true

theorem checkHelpers_helperImpls (idx : Nat) (idents : List (BKey × String))
    (hp : ∀ kx ∈ idents, pathShaped kx.1.2 = true) :
    ∀ (ms : List T) (rows : List (List (Option T))) (thetas : List Subst),
      ms.length ≤ rows.length → (∀ r ∈ rows, r.length = idents.length) →
      ((List.zip ms rows).map (fun mr => helperImpl idx none idents mr.2 mr.1)).all Option.isSome = true →
      wfixRows idents ms rows thetas = true →
      (((List.zip ms rows).map (fun mr => helperImpl idx none idents mr.2 mr.1)).filterMap id).length = ms.length ∧
      checkHelpers false (keysOf idents) ms
        (((List.zip ms rows).map (fun mr => helperImpl idx none idents mr.2 mr.1)).filterMap id) rows thetas = true
  | [], rows, thetas, _, _, _, _ => by simp [checkHelpers]
  | m :: ms, [], thetas, hl, _, _, _ => by simp at hl
  | m :: ms, r :: rows, thetas, hl, hr, hall, hw => by
      simp only [List.zip_cons_cons, List.map_cons, List.all_cons, Bool.and_eq_true] at hall
      simp only [wfixRows, List.headD_cons, List.tail_cons, Bool.and_eq_true] at hw
      cases hh : helperImpl idx none idents r m with
      | none => rw [hh] at hall; simp at hall
      | some h =>
        obtain ⟨ih1, ih2⟩ := checkHelpers_helperImpls idx idents hp ms rows thetas.tail (by simpa using hl)
          (fun x hx => hr x (List.mem_cons_of_mem _ hx)) hall.2 hw.2
        simp only [List.zip_cons_cons, List.map_cons, hh, List.filterMap_cons, id, List.length_cons, ih1,
          checkHelpers, List.headD_cons, List.tail_cons, ih2, Bool.and_true, true_and]
        exact checkHelper_helperImpl idx idents r m h _ hh (hr r (by simp)) hp hw.1

open XOK

/-- the shape of a main impl the generator returns -/
theorem mainImplOfTrait_ok_inv {trait_ : T} {idx : Nat} {g : T × ABG × List Blk} {m : T}
    (h : mainImplOfTrait trait_ idx g = .ok m) :
    ∃ first rest tp st unsafety lt gt params preds0 href finals,
      g.2.2 = first :: rest ∧ implTraitPath first.item = some tp ∧ implSelfTy first.item = some st ∧
      (∃ hident hargs, href = helperRef hident g.2.1.idents hargs) ∧
      m = .node "ItemImpl" [] [ignAttrs, tNone, unsafety,
        .node "Generics" [] [lt, tList params, gt, mkWhere (preds0 ++ assocBoundPredicates g.2.1 href)],
        tSome (.node "Tuple" [] [tNone, tp]), st, tList finals] := by
  unfold mainImplOfTrait at h
  split at h
  · cases h
  · next first rest hg =>
    simp only at h
    cases hp : implTraitPath first.item with
    | none => rw [hp] at h; cases h
    | some tp =>
      cases hs : implSelfTy first.item with
      | none => rw [hp, hs] at h; cases h
      | some st =>
        cases he : implGenerics first.item with
        | none => rw [hp, hs, he] at h; cases h
        | some eg =>
          rw [hp, hs, he] at h
          split at h
          · have e1 : some tp = some _ := ‹_›
            cases e1
            have e2 : some st = some _ := ‹_›
            cases e2
            split at h
            · next lt x gt wc items tname targs hres hlast =>
              split at h
              · next dummies finals hd hf =>
                split at h
                · cases h
                · next cps hc =>
                  cases h
                  exact ⟨first, rest, _, _, _, lt, gt, _, wherePreds wc, _, finals, hg, hp, hs, ⟨_, _, rfl⟩, rfl⟩
              · cases h
              · cases h
              · cases h
            · cases h
          · cases h

open XOK

theorem isLifetimeArg_eq (a : T) : isLifetimeArg a = (kind a == "GenericArgument::Lifetime") := by
  unfold isLifetimeArg kind
  split
  · simp
  · next h =>
    cases a with
    | tparam n => simp
    | eparam n => simp
    | node k as ks =>
      simp only
      cases hk : (k == "GenericArgument::Lifetime") with
      | false => rfl
      | true => exact absurd (by rw [eq_of_beq hk]) (h as ks)

/-- the `Self: helper<…>` reference, read back: its non-lifetime arguments start with the projections of the keys -/
theorem checkSelfArgs_projs : ∀ (idents : List (BKey × String)) (rest : List T),
    (∀ kx ∈ idents, pathShaped kx.1.2 = true) →
    checkSelfArgs (idents.map (fun kx => gaType (projection kx.1.1 kx.1.2 kx.2)) ++ rest) (keysOf idents) = true
  | [], rest, _ => by simp [keysOf, checkSelfArgs]
  | kx :: ks, rest, hp => by
      have hsh : pathSegments kx.1.2 = segsOf kx.1.2 := eq_of_beq (hp kx (by simp))
      simp only [List.map_cons, List.cons_append, keysOf, checkSelfArgs, projectionParts_projection, normSegs_tbTokens,
        hsh, beq_self_eq_true, Bool.and_self, Bool.true_and]
      exact checkSelfArgs_projs ks rest (fun k hk => hp k (List.mem_cons_of_mem _ hk))

theorem selfArgs_helperRef (hident : String) (idents : List (BKey × String)) (hargs : List T) :
    (XOK.segArgs (XOK.lastSeg (helperRef hident idents hargs))).filter (fun a => kind a != "GenericArgument::Lifetime") =
      idents.map (fun kx => gaType (projection kx.1.1 kx.1.2 kx.2)) ++ hargs.filter (fun a => !isLifetimeArg a) := by
  have h1 : XOK.segArgs (XOK.lastSeg (helperRef hident idents hargs)) =
      hargs.filter isLifetimeArg ++ idents.map (fun kx => gaType (projection kx.1.1 kx.1.2 kx.2)) ++
        hargs.filter (fun a => !isLifetimeArg a) := by
    simp [helperRef, XOK.lastSeg, segsOf, pathNode, tList, kid, kids, lastOf, seg, XOK.segArgs, angle, kind]
  rw [h1, List.filter_append, List.filter_append]
  have e1 : (hargs.filter isLifetimeArg).filter (fun a => kind a != "GenericArgument::Lifetime") = [] := by
    apply List.filter_eq_nil_iff.2
    intro a ha
    have := (List.mem_filter.1 ha).2
    rw [isLifetimeArg_eq] at this
    simp [eq_of_beq this]
  have e2 : (idents.map (fun kx => gaType (projection kx.1.1 kx.1.2 kx.2))).filter
      (fun a => kind a != "GenericArgument::Lifetime") = idents.map (fun kx => gaType (projection kx.1.1 kx.1.2 kx.2)) := by
    apply List.filter_eq_self.2
    intro a ha
    obtain ⟨kx, _, rfl⟩ := List.mem_map.1 ha
    simp [gaType, kind]
  have e3 : (hargs.filter (fun a => !isLifetimeArg a)).filter (fun a => kind a != "GenericArgument::Lifetime") =
      hargs.filter (fun a => !isLifetimeArg a) := by
    apply List.filter_eq_self.2
    intro a ha
    have := (List.mem_filter.1 ha).2
    rw [isLifetimeArg_eq] at this
    simpa [bne] using this
  rw [e1, e2, e3, List.nil_append]

open XOK

theorem keySegIdent_inv {l : T} {n : String} (h : DI.segIdent l = some n) : XOK.segIdent l = n := by
  unfold DI.segIdent at h
  split at h
  · cases h; simp [XOK.segIdent, kid, kids, atoms]
  · cases h

theorem keySegArgs_good {l : T} (h : cmpArgs (DI.segArgs l) = true) :
    XOK.segArgs l = (match DI.segArgs l with | .angle args => args | _ => []) := by
  cases hs : DI.segArgs l with
  | angle args =>
    obtain ⟨id, c2, rfl⟩ := segArgs_angle_inv hs
    simp [xsegArgs_angleSeg]
  | none =>
    unfold DI.segArgs at hs
    split at hs
    · simp [XOK.segArgs, kid, kids, kind]
    · cases hs
    · cases hs
    · cases hs
  | paren x =>
    obtain ⟨id, as, ks, rfl, _⟩ := segArgs_paren_inv hs
    simp [XOK.segArgs, kid, kids, kind]
  | bad => rw [hs] at h; simp [cmpArgs] at h

/-- the normalised segments of a well-formed path in terms of the components of its key -/
theorem normSegs_of_wf {p : T} (h : wfPath p = true) :
    normSegs (pathSegments p) =
      normSegs (initSegs p) ++ [((lastIdent p).getD "", nonAssoc (lastArgs p))] := by
  obtain ⟨l, hl, hg⟩ := wfPath_last h
  have hrev := rev_of_lastSeg hl
  have hps : pathSegments p = initSegs p ++ [l] := by
    have := reverse_eq_cons hrev
    simpa using this
  have hid : ∃ n, DI.segIdent l = some n := by
    unfold wfPath at h
    simp only [Bool.and_eq_true, List.all_eq_true] at h
    have := h.2 l (by rw [hps]; simp)
    cases hs : DI.segIdent l with
    | none => rw [hs] at this; cases this
    | some n => exact ⟨n, rfl⟩
  obtain ⟨n, hn⟩ := hid
  rw [hps, normSegs_append]
  congr 1
  simp only [normSegs, List.map_cons, List.map_nil, keySegIdent_inv hn, filter_nonAssoc, keySegArgs_good hg,
    lastIdent, lastArgs, hl, Option.bind_some, hn, Option.getD_some]
  cases DI.segArgs l <;> rfl

theorem normSegs_of_tbEq {p q : T} (hp : wfPath p = true) (hq : wfPath q = true) (h : tbEq p q = .t) :
    normSegs (pathSegments p) = normSegs (pathSegments q) := by
  rw [tbEq_eq hp hq] at h
  have hk : keyOf' p = keyOf' q := by
    by_cases hk : keyOf' p = keyOf' q
    · exact hk
    · rw [if_neg hk] at h; cases h
  simp only [keyOf', TraitKey.mk.injEq] at hk
  rw [normSegs_of_wf hp, normSegs_of_wf hq, hk.1, hk.2.1, hk.2.2.1]

theorem mem_dedupKeys {l : List T} {b : T} (h : b ∈ l) : b ∈ dedupKeys l := by
  unfold dedupKeys
  have key : ∀ (l acc : List T), (b ∈ acc ∨ b ∈ l) →
      b ∈ l.foldl (fun acc k => if acc.contains k then acc else acc ++ [k]) acc := by
    intro l
    induction l with
    | nil => intro acc h; simpa using h
    | cons k l ih =>
      intro acc h
      rw [List.foldl_cons]
      apply ih
      rcases h with h | h
      · left; split
        · exact h
        · exact List.mem_append.2 (Or.inl h)
      · rcases List.mem_cons.1 h with h | h
        · left; subst h
          split
          · next hc => simpa using hc
          · simp
        · exact Or.inr h
  exact key l [] (Or.inr h)

/-- the distinct trait bounds kept for one bounded type: every listed bound is `TraitBound::eq` to a kept one -/
theorem tbs_fold (L : List (BKey × String)) (hw : ∀ kx ∈ L, wfPath kx.1.2 = true) :
    ∀ kx ∈ L, ∃ t ∈ L.foldl (fun (acc : List T) kx => if acc.any (fun t => tbEq t kx.1.2 == .t) then acc else acc ++ [kx.1.2]) [],
      tbEq t kx.1.2 = .t ∧ wfPath t = true := by
  have key : ∀ (L : List (BKey × String)) (acc : List T), (∀ kx ∈ L, wfPath kx.1.2 = true) → (∀ t ∈ acc, wfPath t = true) →
      (∀ t ∈ L.foldl (fun (acc : List T) kx => if acc.any (fun t => tbEq t kx.1.2 == .t) then acc else acc ++ [kx.1.2]) acc,
        wfPath t = true) ∧
      (∀ t ∈ acc, t ∈ L.foldl (fun (acc : List T) kx => if acc.any (fun t => tbEq t kx.1.2 == .t) then acc else acc ++ [kx.1.2]) acc) ∧
      ∀ kx ∈ L, ∃ t ∈ L.foldl (fun (acc : List T) kx => if acc.any (fun t => tbEq t kx.1.2 == .t) then acc else acc ++ [kx.1.2]) acc,
        tbEq t kx.1.2 = .t := by
    intro L
    induction L with
    | nil => intro acc _ ha; exact ⟨ha, fun t ht => ht, fun kx hkx => by cases hkx⟩
    | cons k L ih =>
      intro acc hL ha
      rw [List.foldl_cons]
      have hacc' : ∀ t ∈ (if acc.any (fun t => tbEq t k.1.2 == .t) then acc else acc ++ [k.1.2]), wfPath t = true := by
        intro t ht
        split at ht
        · exact ha t ht
        · rcases List.mem_append.1 ht with h | h
          · exact ha t h
          · simp only [List.mem_singleton] at h; rw [h]; exact hL k (by simp)
      obtain ⟨i1, i2, i3⟩ := ih _ (fun kx hkx => hL kx (List.mem_cons_of_mem _ hkx)) hacc'
      refine ⟨i1, ?_, ?_⟩
      · intro t ht
        apply i2
        split
        · exact ht
        · exact List.mem_append.2 (Or.inl ht)
      · intro kx hkx
        rcases List.mem_cons.1 hkx with h | h
        · subst h
          by_cases hany : acc.any (fun t => tbEq t kx.1.2 == .t) = true
          · obtain ⟨t, ht, hte⟩ := List.any_eq_true.1 hany
            refine ⟨t, i2 t (by rw [if_pos hany]; exact ht), by simpa using hte⟩
          · refine ⟨kx.1.2, i2 _ (by rw [if_neg hany]; simp), ?_⟩
            have hwk := hL kx (by simp)
            rw [tbEq_eq hwk hwk]; simp
        · exact i3 kx h
  obtain ⟨k1, _, k3⟩ := key L [] hw (fun t ht => by cases ht)
  intro kx hkx
  obtain ⟨t, ht, hte⟩ := k3 kx hkx
  exact ⟨t, ht, hte, k1 t ht⟩

open XOK

theorem predBounds_whereType (b : T) (bounds : List T) :
    predBounds (whereType b bounds) = some (b, bounds.filterMap (fun x =>
      if kind x != "TypeParamBound::Trait" then none else some (kid (kid x 0) 3))) := by
  simp [predBounds, whereType, kind, kid, kids, tNone, tList]

theorem mem_havePairs {preds : List T} {pair : T × List (String × List T)} {p : T} {bp : T × List T} {path : T}
    (hp : p ∈ preds) (hb : predBounds p = some bp) (hs : isSelfTy bp.1 = false) (hpath : path ∈ bp.2)
    (he : pair = (bp.1, normSegs (segsOf path))) : pair ∈ havePairs preds := by
  simp only [havePairs, List.mem_flatMap, List.mem_filterMap]
  refine ⟨bp, ⟨p, hp, hb⟩, ?_⟩
  rw [hs]
  simp only [Bool.false_eq_true, if_false, List.mem_map]
  exact ⟨path, hpath, he.symm⟩

theorem pathShaped_tbTokens {t : T} (h : wfPath t = true) : pathShaped (tbTokens t) = true := by
  apply pathShaped_of_wfPath
  unfold tbTokens
  rw [wfPath_stripBindings]; exact h

/-- every key has its predicate `bounded: trait` among the generated where-predicates -/
theorem have_key (abg : ABG) (href : T) (hw : ∀ kx ∈ abg.idents, wfPath kx.1.2 = true)
    (hs : ∀ kx ∈ abg.idents, isSelfTy kx.1.1 = false) :
    ∀ kx ∈ abg.idents, (kx.1.1, normSegs (segsOf kx.1.2)) ∈ havePairs (assocBoundPredicates abg href) := by
  intro kx hkx
  have hL : kx ∈ abg.idents.filter (fun k => k.1.1 == kx.1.1) := List.mem_filter.2 ⟨hkx, by simp⟩
  obtain ⟨t, ht, hte, hwt⟩ := tbs_fold (abg.idents.filter (fun k => k.1.1 == kx.1.1))
    (fun k hk => hw k (List.mem_filter.1 hk).1) kx hL
  have hb : kx.1.1 ∈ dedupKeys (abg.idents.map (fun k => k.1.1)) := mem_dedupKeys (List.mem_map.2 ⟨kx, hkx, rfl⟩)
  unfold assocBoundPredicates
  simp only
  apply mem_havePairs (p := whereType kx.1.1 _) (path := tbTokens t)
    (List.mem_append.2 (Or.inl (List.mem_map.2 ⟨kx.1.1, hb, rfl⟩))) (predBounds_whereType _ _) (hs kx hkx)
  · simp only [List.filterMap_append, List.mem_append, List.mem_filterMap]
    right
    refine ⟨traitBoundOf (tbTokens t), List.mem_map.2 ⟨t, ht, rfl⟩, ?_⟩
    simp [traitBoundOf, kind, kid, kids]
  · have h1 : normSegs (segsOf (tbTokens t)) = normSegs (pathSegments (tbTokens t)) := by
      rw [eq_of_beq (pathShaped_tbTokens hwt)]
    have h2 : pathSegments kx.1.2 = segsOf kx.1.2 := eq_of_beq (pathShaped_of_wfPath (hw kx hkx))
    rw [h1, normSegs_tbTokens, normSegs_of_tbEq hwt (hw kx hkx) hte, h2]

open XOK

theorem selfPred_snoc (l : List T) (href : T) :
    selfPred (l ++ [whereType selfTy [traitBoundOf href]]) = some href := by
  unfold selfPred
  rw [List.filterMap_append, List.foldl_append]
  have : [whereType selfTy [traitBoundOf href]].filterMap predBounds = [(selfTy, [href])] := by
    simp [predBounds_whereType, traitBoundOf, kind, kid, kids]
  rw [this]
  have hs : isSelfTy selfTy = true := by decide
  simp [hs]

theorem havePairs_append_right (l1 l2 : List T) (x : T × List (String × List T)) (h : x ∈ havePairs l2) :
    x ∈ havePairs (l1 ++ l2) := by
  unfold havePairs at h ⊢
  rw [List.filterMap_append, List.flatMap_append]
  exact List.mem_append.2 (Or.inr h)

/-- executable well-formedness of a formed family used by `expandOK_of_expand` -/
def expandWF (g : T × ABG × List Blk) : Bool :=
  !g.2.1.bounds.isEmpty &&
  g.2.1.bounds.all (fun kr => kr.2.length == g.2.2.length) &&
  (match g.2.2 with
   | first :: _ => g.1 == mkHdr first.item
   | [] => false) &&
  g.2.1.idents.all (fun kx => wfPath kx.1.2 && !isSelfTy kx.1.1)

/-- wildcard row entries only where the member's substitution fixes the key's bounded type (what F-D3 violates) -/
def wildcardsFixed (g : T × ABG × List Blk) : Bool :=
  wfixRows g.2.1.idents (g.2.2.map (·.item)) g.2.1.payloads (thetasOf g)

theorem checkMain_of_main {trait_ : T} {idx : Nat} {g : T × ABG × List Blk} {m : T}
    (hm : mainImplOfTrait trait_ idx g = .ok m) (hwf : expandWF g = true) :
    checkMain false g.1 (keysOf g.2.1.idents) m = true := by
  obtain ⟨first, rest, tp, st, unsafety, lt, gt, params, preds0, href, finals, hg, hp, hs, ⟨hident, hargs, rfl⟩, rfl⟩ :=
    mainImplOfTrait_ok_inv hm
  simp only [expandWF, Bool.and_eq_true, hg, List.all_eq_true, Bool.not_eq_true'] at hwf
  obtain ⟨⟨⟨_, _⟩, hgid⟩, hid⟩ := hwf
  have hgid' : g.1 = .node "ImplGroupId" [] [.node "Some" [] [tp], st] := by
    rw [eq_of_beq hgid]; simp [mkHdr, hp, hs]
  have hw : ∀ kx ∈ g.2.1.idents, wfPath kx.1.2 = true := fun kx h => (hid kx h).1
  have hself : ∀ kx ∈ g.2.1.idents, isSelfTy kx.1.1 = false := fun kx h => (hid kx h).2
  have hpreds : wherePredsOf (.node "Generics" [] [lt, tList params, gt,
      mkWhere (preds0 ++ assocBoundPredicates g.2.1 (helperRef hident g.2.1.idents hargs))]) =
      preds0 ++ assocBoundPredicates g.2.1 (helperRef hident g.2.1.idents hargs) := by
    simp [wherePredsOf, mkWhere, tSome, tList, kid, kids, kind]
  have hsp : selfPred (preds0 ++ assocBoundPredicates g.2.1 (helperRef hident g.2.1.idents hargs)) =
      some (helperRef hident g.2.1.idents hargs) := by
    have : assocBoundPredicates g.2.1 (helperRef hident g.2.1.idents hargs) =
        _ ++ [whereType selfTy [traitBoundOf (helperRef hident g.2.1.idents hargs)]] := rfl
    rw [this, ← List.append_assoc]
    exact selfPred_snoc _ _
  unfold checkMain
  simp only [Bool.false_or, Bool.and_eq_true]
  refine ⟨⟨?_, ?_⟩, ?_⟩
  · simp [traitPathOf, kid, kids, kind, tSome, hgid']
  · simp [kid, kids, hgid']
  · have hk3 : kid (T.node "ItemImpl" [] [ignAttrs, tNone, unsafety,
        T.node "Generics" [] [lt, tList params, gt, mkWhere (preds0 ++ assocBoundPredicates g.2.1 (helperRef hident g.2.1.idents hargs))],
        tSome (T.node "Tuple" [] [tNone, tp]), st, tList finals]) 3 =
        T.node "Generics" [] [lt, tList params, gt, mkWhere (preds0 ++ assocBoundPredicates g.2.1 (helperRef hident g.2.1.idents hargs))] := by
      simp [kid, kids]
    rw [hk3, hpreds, hsp]
    simp only [List.all_eq_true]
    refine ⟨?_, ?_⟩
    · intro key hkey
      obtain ⟨kx, hkx, rfl⟩ := List.mem_map.1 hkey
      exact List.contains_iff_mem.2 (havePairs_append_right _ _ _ (have_key g.2.1 _ hw hself kx hkx))
    · rw [selfArgs_helperRef]
      exact checkSelfArgs_projs _ _ (fun kx h => pathShaped_of_wfPath (hw kx h))

open XOK

theorem payloads_row_length (abg : ABG) : ∀ r ∈ abg.payloads, r.length = abg.idents.length := by
  intro r hr
  unfold ABG.payloads at hr
  split at hr
  · cases hr
  · obtain ⟨i, _, rfl⟩ := List.mem_map.1 hr
    simp

theorem payloads_length (abg : ABG) (n : Nat) (hne : abg.bounds.isEmpty = false)
    (hall : ∀ kr ∈ abg.bounds, kr.2.length = n) : abg.payloads.length = n := by
  unfold ABG.payloads
  split
  · next h => rw [h] at hne; simp at hne
  · next first rest h =>
    simp only [List.length_map, List.length_range]
    exact hall first (by rw [h]; simp)

/-- `ExpandOK` holds of the model's expansion (trait mode) -/
theorem expandOK_of_expand (trait_ : T) (idx : Nat) (g : T × ABG × List Blk) (hs : List T) (m : T)
    (hh : helperImpls idx g = some hs) (hm : mainImplOfTrait trait_ idx g = .ok m)
    (hwf : expandWF g = true) (hfix : wildcardsFixed g = true) :
    expandOKB g (thetasOf g) hs m = true := by
  have hmain := checkMain_of_main hm hwf
  obtain ⟨first, rest, tp, st, _, _, _, _, _, _, _, hg, hp, hsf, _, _⟩ := mainImplOfTrait_ok_inv hm
  have hwf' := hwf
  simp only [expandWF, Bool.and_eq_true, hg, List.all_eq_true, Bool.not_eq_true', beq_iff_eq] at hwf'
  obtain ⟨⟨⟨hne, hal⟩, hgid⟩, hid⟩ := hwf'
  have hgid' : g.1 = .node "ImplGroupId" [] [.node "Some" [] [tp], st] := by
    rw [hgid]; simp [mkHdr, hp, hsf]
  have hinh : (kind (kid g.1 0) == "None") = false := by rw [hgid']; simp [kid, kids, kind]
  have hplen : g.2.1.payloads.length = g.2.2.length := by
    rw [hg]; exact payloads_length g.2.1 _ hne (fun kr hkr => hal kr hkr)
  -- the helper impls
  unfold helperImpls at hh
  simp only [hg, List.map_cons] at hh
  have hnone : (implTraitPath first.item).isNone = false := by rw [hp]; rfl
  simp only [hnone, Bool.false_eq_true, if_false] at hh
  split at hh
  · next hall =>
    cases hh
    have hmem : g.2.2.map (·.item) = first.item :: rest.map (·.item) := by rw [hg]; rfl
    obtain ⟨hlen, hchk⟩ := checkHelpers_helperImpls idx g.2.1.idents
      (fun kx h => pathShaped_of_wfPath (hid kx h).1) (first.item :: rest.map (·.item)) g.2.1.payloads (thetasOf g)
      (by rw [hplen, hg]; simp) (payloads_row_length g.2.1) hall (by
        have := hfix
        unfold wildcardsFixed at this
        rw [hmem] at this
        exact this)
    unfold expandOKB expandOKCore
    simp only [hinh, hmem, Bool.and_eq_true, beq_iff_eq]
    refine ⟨⟨hlen, hchk⟩, ?_⟩
    rw [← hinh] at hmain
    simpa [hinh] using hmain
  · cases hh

end DI
