/-
  Canonicalisation IS a consistent textual renaming of the block (C13, "the rewritten block means the same as the
  original"): `canon item = qsT_cr P (alphaRenameC_cr r item)` for the computed renaming `r` — the resolver's output is
  the textual renaming of `CanonAlphaDefs.lean` (declarations, lifetimes, lone parameter paths, the first segment of longer
  paths; in decoder form, `CanonIsRenamingDefs.lean`) followed by the one presentation change `X::rest… ↦ <X>::rest…`.
  Statements: `Props/C13.lean` (`C13_canon_is_renaming*`). That `T::A` and `<T>::A` denote the same path when `T` is a type
  parameter is Rust's semantics of paths and is NOT proved here (trusted).

  `rsT_is_renaming_cr`: the tree-level statement, by induction, under the executable condition `renOK_cr P r t` and
  "the new spellings are reserved identifiers"; `renOK_of_rsOK_cr`: `renOK_cr` follows from `rsOK` (the tree clause of
  `canonWF`) for `P :=` "is one of the canonical type names"; `canon_is_renaming_of_cr` / `canon_is_renaming_cr`: the block.
  Consequences: `rsT_noOld_cr` / `canon_noOld_cr` (every occurrence is rewritten), `canon_params_cr` (the declarations,
  position by position), `canonWF_alphaOK_cr` (the computed renaming satisfies the side condition of alpha-invariance),
  `acT_eq_arT_cr` / `alphaRenameC_eq_cr` (the decoder-form renaming is `arT` on form-preserving maps), `rsT_untouched_cr`
  (frame property: a tree without occurrences is left alone).
-/
import DisjointImpls.Lemmas.CanonIsRenamingDefs
import DisjointImpls.Lemmas.CanonAlphaHeader
namespace DI

/-! ### Shapes: `acT_cr` -/

theorem acT_tparam_cr (π : Renaming) (n : String) :
    acT_cr π (.tparam n) = (match rlookup π.ty n with | some m => mkTypeIdent m | none => .tparam n) := by
  rw [acT_cr]; cases rlookup π.ty n <;> rfl
theorem acT_eparam_cr (π : Renaming) (n : String) :
    acT_cr π (.eparam n) =
      (match (rlookup π.ty n).or (rlookup π.co n) with | some m => mkExprIdent_cr m | none => .eparam n) := by
  rw [acT_cr]; cases (rlookup π.ty n).or (rlookup π.co n) <;> rfl
theorem acT_ign_cr (π : Renaming) (as : List String) (ks : List T) : acT_cr π (.node "Ign" as ks) = .node "Ign" as ks := by
  rw [acT_cr]
theorem acT_eq_cr (π : Renaming) (as : List String) (ks : List T) : acT_cr π (.node "Eq" as ks) = .node "Eq" as ks := by
  rw [acT_cr]
theorem acT_lifetime_cr (π : Renaming) (as : List String) (x : String) :
    acT_cr π (.node "Lifetime" as [.node "Ident" [x] []]) = .node "Lifetime" as [.node "Ident" [rn π.lt x] []] := by
  rw [acT_cr]
theorem acT_typePath_cr (π : Renaming) (as : List String) (q p : T) :
    acT_cr π (.node "Type::Path" as [q, p]) =
      (match convTy_cr π q p with
       | some m => .tparam m
       | none => .node "Type::Path" as [acT_cr π q, mapHead (rn π.ty) (acT_cr π p)]) := by
  rw [acT_cr]; cases convTy_cr π q p <;> rfl
theorem acT_exprPath_cr (π : Renaming) (as : List String) (a q p : T) :
    acT_cr π (.node "Expr::Path" as [a, q, p]) =
      (match convEx_cr π q p with
       | some m => .eparam m
       | none => .node "Expr::Path" as [acT_cr π a, acT_cr π q, mapHead (exW π) (acT_cr π p)]) := by
  rw [acT_cr]; cases convEx_cr π q p <;> rfl

theorem acT_of_other_cr (π : Renaming) {k : String} (as : List String) {ks : List T} (h : NodeOther k ks) :
    acT_cr π (.node k as ks) = .node k as (acL_cr π ks) := by
  obtain ⟨h1, h2, h3, h4, h5⟩ := h
  unfold acT_cr
  split
  · next heq => cases heq
  · next heq => cases heq
  · next heq => cases heq; exact absurd rfl h1
  · next heq => cases heq; exact absurd rfl h2
  · next x heq => cases heq; exact absurd ⟨rfl, rfl⟩ (h3 x)
  · next q p heq => cases heq; exact absurd ⟨rfl, rfl⟩ (h4 q p)
  · next a q p heq => cases heq; exact absurd ⟨rfl, rfl⟩ (h5 a q p)
  · next heq => cases heq; rfl

theorem acT_other_cr (π : Renaming) {k : String} (as : List String) (ks : List T) (h1 : k ≠ "Ign") (h2 : k ≠ "Eq")
    (h3 : k ≠ "Lifetime") (h4 : k ≠ "Type::Path") (h5 : k ≠ "Expr::Path") :
    acT_cr π (.node k as ks) = .node k as (acL_cr π ks) :=
  acT_of_other_cr π as (nodeOther_of_ne ks h1 h2 h3 h4 h5)

theorem acL_nil_cr (π : Renaming) : acL_cr π [] = [] := by rw [acL_cr]
theorem acL_cons_cr (π : Renaming) (t : T) (ts : List T) : acL_cr π (t :: ts) = acT_cr π t :: acL_cr π ts := by rw [acL_cr]

theorem acL_map_cr (π : Renaming) : ∀ l : List T, acL_cr π l = l.map (acT_cr π)
  | [] => by rw [acL_nil_cr]; rfl
  | t :: ts => by rw [acL_cons_cr, acL_map_cr π ts]; rfl

theorem mkTypeIdent_kind_cr {m k : String} {as : List String} {ks : List T} (h : mkTypeIdent m = .node k as ks) :
    k = "Type::Path" := by
  unfold mkTypeIdent at h
  split at h
  · cases h
  · cases h; rfl

theorem mkExprIdent_kind_cr {m k : String} {as : List String} {ks : List T} (h : mkExprIdent_cr m = .node k as ks) :
    k = "Expr::Path" := by
  unfold mkExprIdent_cr at h
  split at h
  · cases h
  · cases h; rfl

/-- a node of an ordinary kind comes from a node of that kind, rebuilt around its respelled children -/
theorem acT_inv_cr {π : Renaming} {t : T} {k : String} {as : List String} {ks' : List T}
    (h1 : k ≠ "Ign") (h2 : k ≠ "Eq") (h3 : k ≠ "Lifetime") (h4 : k ≠ "Type::Path") (h5 : k ≠ "Expr::Path")
    (h : acT_cr π t = .node k as ks') : ∃ ks, t = .node k as ks ∧ ks' = acL_cr π ks := by
  cases t with
  | tparam n =>
    rw [acT_tparam_cr] at h
    split at h
    · exact absurd (mkTypeIdent_kind_cr h) h4
    · cases h
  | eparam n =>
    rw [acT_eparam_cr] at h
    split at h
    · exact absurd (mkExprIdent_kind_cr h) h5
    · cases h
  | node k0 as0 ks0 =>
    rcases node_shape k0 ks0 with hh | ⟨x, rfl, rfl⟩ | ⟨q, p, rfl, rfl⟩ | ⟨a, q, p, rfl, rfl⟩ | hh
    · rcases hh with rfl | rfl
      · rw [acT_ign_cr] at h; cases h; exact absurd rfl h1
      · rw [acT_eq_cr] at h; cases h; exact absurd rfl h2
    · rw [acT_lifetime_cr] at h; cases h; exact absurd rfl h3
    · rw [acT_typePath_cr] at h
      split at h
      · cases h
      · cases h; exact absurd rfl h4
    · rw [acT_exprPath_cr] at h
      split at h
      · cases h
      · cases h; exact absurd rfl h5
    · rw [acT_of_other_cr π as0 hh] at h
      cases h
      exact ⟨ks0, rfl, rfl⟩

theorem acL_eq_nil_cr {π : Renaming} {ks : List T} (h : acL_cr π ks = []) : ks = [] := by
  cases ks with
  | nil => rfl
  | cons t ts => rw [acL_cons_cr] at h; cases h

theorem acL_eq_cons_cr {π : Renaming} {ks : List T} {t' : T} {ts' : List T} (h : acL_cr π ks = t' :: ts') :
    ∃ t ts, ks = t :: ts ∧ acT_cr π t = t' ∧ acL_cr π ts = ts' := by
  cases ks with
  | nil => rw [acL_nil_cr] at h; cases h
  | cons t ts => rw [acL_cons_cr] at h; cases h; exact ⟨t, ts, rfl, rfl, rfl⟩

theorem acT_leaf_cr (π : Renaming) {k : String} (as : List String) (h1 : k ≠ "Ign") (h2 : k ≠ "Eq") (h3 : k ≠ "Lifetime")
    (h4 : k ≠ "Type::Path") (h5 : k ≠ "Expr::Path") : acT_cr π (.node k as []) = .node k as [] := by
  rw [acT_other_cr π as [] h1 h2 h3 h4 h5, acL_nil_cr]

theorem acT_leaf_inv_cr {π : Renaming} {t : T} {k : String} {as : List String}
    (h1 : k ≠ "Ign") (h2 : k ≠ "Eq") (h3 : k ≠ "Lifetime") (h4 : k ≠ "Type::Path") (h5 : k ≠ "Expr::Path")
    (h : acT_cr π t = .node k as []) : t = .node k as [] := by
  obtain ⟨ks, rfl, e⟩ := acT_inv_cr h1 h2 h3 h4 h5 h
  rw [acL_eq_nil_cr e.symm]

theorem acT_identLeaf_cr (π : Renaming) (x : String) : acT_cr π (.node "Ident" [x] []) = .node "Ident" [x] [] :=
  acT_leaf_cr π _ (by decide) (by decide) (by decide) (by decide) (by decide)
theorem acT_noneNode_cr (π : Renaming) : acT_cr π noneNode = noneNode :=
  acT_leaf_cr π [] (by decide) (by decide) (by decide) (by decide) (by decide)
theorem acT_argsNone_cr (π : Renaming) : acT_cr π argsNone = argsNone :=
  acT_leaf_cr π [] (by decide) (by decide) (by decide) (by decide) (by decide)
theorem acT_nohead_cr (π : Renaming) : acT_cr π nohead = nohead := by
  unfold nohead
  rw [acT_other_cr π [] _ (by decide) (by decide) (by decide) (by decide) (by decide), acL_cons_cr, acL_nil_cr, acT_noneNode_cr]
theorem acT_pathSegment_cr (π : Renaming) (as : List String) (ks : List T) :
    acT_cr π (.node "PathSegment" as ks) = .node "PathSegment" as (acL_cr π ks) :=
  acT_other_cr π as ks (by decide) (by decide) (by decide) (by decide) (by decide)
theorem acT_list_cr (π : Renaming) (as : List String) (ks : List T) :
    acT_cr π (.node "List" as ks) = .node "List" as (acL_cr π ks) :=
  acT_other_cr π as ks (by decide) (by decide) (by decide) (by decide) (by decide)
theorem acT_path_cr (π : Renaming) (as : List String) (ks : List T) :
    acT_cr π (.node "Path" as ks) = .node "Path" as (acL_cr π ks) :=
  acT_other_cr π as ks (by decide) (by decide) (by decide) (by decide) (by decide)
theorem acT_plainSeg_cr (π : Renaming) (x : String) : acT_cr π (plainSeg x) = plainSeg x := by
  unfold plainSeg
  rw [acT_pathSegment_cr, acL_cons_cr, acL_cons_cr, acL_nil_cr, acT_identLeaf_cr, acT_argsNone_cr]
theorem acT_plainPath_cr (π : Renaming) (x : String) (rest : List T) :
    acT_cr π (plainPath x rest) = plainPath x (acL_cr π rest) := by
  unfold plainPath
  rw [acT_path_cr, acL_cons_cr, acL_cons_cr, acL_nil_cr, acT_nohead_cr, acT_list_cr, acL_cons_cr, acT_plainSeg_cr]

theorem acT_noneNode_inv_cr {π : Renaming} {t : T} (h : acT_cr π t = noneNode) : t = noneNode :=
  acT_leaf_inv_cr (by decide) (by decide) (by decide) (by decide) (by decide) h

/-- a path with a first segment comes from a path with that first segment -/
theorem acT_pathShape_inv_cr {π : Renaming} {p a' args' : T} {x : String} {rest' : List T}
    (h : acT_cr π p = .node "Path" [] [a', .node "List" [] (.node "PathSegment" [] [.node "Ident" [x] [], args'] :: rest')]) :
    ∃ a args rest, p = .node "Path" [] [a, .node "List" [] (.node "PathSegment" [] [.node "Ident" [x] [], args] :: rest)] ∧
      a' = acT_cr π a ∧ args' = acT_cr π args ∧ rest' = acL_cr π rest := by
  obtain ⟨ks, rfl, e2⟩ := acT_inv_cr (by decide) (by decide) (by decide) (by decide) (by decide) h
  obtain ⟨a, ks2, rfl, ea, e4⟩ := acL_eq_cons_cr e2.symm
  obtain ⟨l, ks3, rfl, e5, e6⟩ := acL_eq_cons_cr e4
  cases acL_eq_nil_cr e6
  obtain ⟨segs, rfl, e7⟩ := acT_inv_cr (by decide) (by decide) (by decide) (by decide) (by decide) e5
  obtain ⟨sg, rest, rfl, e8, e9⟩ := acL_eq_cons_cr e7.symm
  obtain ⟨sk, rfl, e10⟩ := acT_inv_cr (by decide) (by decide) (by decide) (by decide) (by decide) e8
  obtain ⟨i, sk2, rfl, e11, e12⟩ := acL_eq_cons_cr e10.symm
  obtain ⟨args, sk3, rfl, e13, e14⟩ := acL_eq_cons_cr e12
  cases acL_eq_nil_cr e14
  cases acT_leaf_inv_cr (by decide) (by decide) (by decide) (by decide) (by decide) e11
  exact ⟨a, args, rest, rfl, ea.symm, e13.symm, e9.symm⟩

theorem acT_plainPath_inv_cr {π : Renaming} {p : T} {x : String} {rest' : List T}
    (h : acT_cr π p = plainPath x rest') : ∃ rest, p = plainPath x rest ∧ rest' = acL_cr π rest := by
  obtain ⟨a, args, rest, rfl, ea, eargs, er⟩ := acT_pathShape_inv_cr h
  have e1 : a = nohead := by
    obtain ⟨ks, rfl, e⟩ := acT_inv_cr (by decide) (by decide) (by decide) (by decide) (by decide) ea.symm
    obtain ⟨n, ks2, rfl, e2, e3⟩ := acL_eq_cons_cr e.symm
    cases acL_eq_nil_cr e3
    cases acT_noneNode_inv_cr e2
    rfl
  have e2 : args = argsNone := acT_leaf_inv_cr (by decide) (by decide) (by decide) (by decide) (by decide) eargs.symm
  subst e1 e2
  exact ⟨rest, rfl, er⟩

theorem firstSegIdent_acT_cr (π : Renaming) (p : T) : firstSegIdent (acT_cr π p) = firstSegIdent p := by
  cases h : firstSegIdent p with
  | some x =>
    obtain ⟨a, args, rest, rfl⟩ := path_of_firstSeg h
    rw [acT_path_cr, acL_cons_cr, acL_cons_cr, acL_nil_cr, acT_list_cr, acL_cons_cr, acT_pathSegment_cr, acL_cons_cr,
      acL_cons_cr, acL_nil_cr, acT_identLeaf_cr]
    rfl
  | none =>
    cases h' : firstSegIdent (acT_cr π p) with
    | none => rfl
    | some x =>
      exfalso
      obtain ⟨a', args', rest', e⟩ := path_of_firstSeg h'
      obtain ⟨a, args, rest, rfl, _, _, _⟩ := acT_pathShape_inv_cr e
      cases h

/-! ### Shapes: `qsT_cr`, `renOK_cr` -/

theorem qsT_tparam_cr (P : String → Bool) (n : String) : qsT_cr P (.tparam n) = .tparam n := by rw [qsT_cr]
theorem qsT_eparam_cr (P : String → Bool) (n : String) : qsT_cr P (.eparam n) = .eparam n := by rw [qsT_cr]
theorem qsT_ign_cr (P : String → Bool) (as : List String) (ks : List T) : qsT_cr P (.node "Ign" as ks) = .node "Ign" as ks := by
  rw [qsT_cr]
theorem qsT_eq_cr (P : String → Bool) (as : List String) (ks : List T) : qsT_cr P (.node "Eq" as ks) = .node "Eq" as ks := by
  rw [qsT_cr]
theorem qsT_lifetime_cr (P : String → Bool) (as : List String) (x : String) :
    qsT_cr P (.node "Lifetime" as [.node "Ident" [x] []]) = .node "Lifetime" as [.node "Ident" [x] []] := by rw [qsT_cr]
theorem qsT_typePath_cr (P : String → Bool) (as : List String) (q p : T) :
    qsT_cr P (.node "Type::Path" as [q, p]) =
      (match qsFires_cr P q p with
       | some x => .node "Type::Path" as [(qselfPath x (restSegments (qsT_cr P p))).1, (qselfPath x (restSegments (qsT_cr P p))).2]
       | none => .node "Type::Path" as [qsT_cr P q, qsT_cr P p]) := by
  rw [qsT_cr]; cases qsFires_cr P q p <;> rfl
theorem qsT_exprPath_cr (P : String → Bool) (as : List String) (a q p : T) :
    qsT_cr P (.node "Expr::Path" as [a, q, p]) =
      (match qsFires_cr P q p with
       | some x => .node "Expr::Path" as [.node "Ign" [] [.node "List" [] []],
          (qselfPath x (restSegments (qsT_cr P p))).1, (qselfPath x (restSegments (qsT_cr P p))).2]
       | none => .node "Expr::Path" as [qsT_cr P a, qsT_cr P q, qsT_cr P p]) := by
  rw [qsT_cr]; cases qsFires_cr P q p <;> rfl

theorem qsT_of_other_cr (P : String → Bool) {k : String} (as : List String) {ks : List T} (h : NodeOther k ks) :
    qsT_cr P (.node k as ks) = .node k as (qsL_cr P ks) := by
  obtain ⟨h1, h2, h3, h4, h5⟩ := h
  unfold qsT_cr
  split
  · next heq => cases heq
  · next heq => cases heq
  · next heq => cases heq; exact absurd rfl h1
  · next heq => cases heq; exact absurd rfl h2
  · next x heq => cases heq; exact absurd ⟨rfl, rfl⟩ (h3 x)
  · next q p heq => cases heq; exact absurd ⟨rfl, rfl⟩ (h4 q p)
  · next a q p heq => cases heq; exact absurd ⟨rfl, rfl⟩ (h5 a q p)
  · next heq => cases heq; rfl

theorem qsT_other_cr (P : String → Bool) {k : String} (as : List String) (ks : List T) (h1 : k ≠ "Ign") (h2 : k ≠ "Eq")
    (h3 : k ≠ "Lifetime") (h4 : k ≠ "Type::Path") (h5 : k ≠ "Expr::Path") :
    qsT_cr P (.node k as ks) = .node k as (qsL_cr P ks) :=
  qsT_of_other_cr P as (nodeOther_of_ne ks h1 h2 h3 h4 h5)

theorem qsL_nil_cr (P : String → Bool) : qsL_cr P [] = [] := by rw [qsL_cr]
theorem qsL_cons_cr (P : String → Bool) (t : T) (ts : List T) : qsL_cr P (t :: ts) = qsT_cr P t :: qsL_cr P ts := by rw [qsL_cr]

theorem qsT_leaf_cr (P : String → Bool) {k : String} (as : List String) (h1 : k ≠ "Ign") (h2 : k ≠ "Eq") (h3 : k ≠ "Lifetime")
    (h4 : k ≠ "Type::Path") (h5 : k ≠ "Expr::Path") : qsT_cr P (.node k as []) = .node k as [] := by
  rw [qsT_other_cr P as [] h1 h2 h3 h4 h5, qsL_nil_cr]
theorem qsT_noneNode_cr (P : String → Bool) : qsT_cr P noneNode = noneNode :=
  qsT_leaf_cr P [] (by decide) (by decide) (by decide) (by decide) (by decide)
theorem qsT_plainPath_cr (P : String → Bool) (x : String) (rest : List T) :
    qsT_cr P (plainPath x rest) = plainPath x (qsL_cr P rest) := by
  unfold plainPath plainSeg nohead argsNone
  rw [qsT_other_cr P _ _ (by decide) (by decide) (by decide) (by decide) (by decide), qsL_cons_cr, qsL_cons_cr, qsL_nil_cr,
    qsT_other_cr P _ _ (by decide) (by decide) (by decide) (by decide) (by decide), qsL_cons_cr, qsL_nil_cr, qsT_noneNode_cr,
    qsT_other_cr P _ _ (by decide) (by decide) (by decide) (by decide) (by decide), qsL_cons_cr,
    qsT_other_cr P _ _ (by decide) (by decide) (by decide) (by decide) (by decide), qsL_cons_cr, qsL_cons_cr, qsL_nil_cr,
    qsT_leaf_cr P _ (by decide) (by decide) (by decide) (by decide) (by decide),
    qsT_leaf_cr P _ (by decide) (by decide) (by decide) (by decide) (by decide)]

theorem renOK_typePath_cr (P : String → Bool) (r : Renaming) (as : List String) (q p : T) :
    renOK_cr P r (.node "Type::Path" as [q, p]) = (renOK_cr P r q && renOK_cr P r p && renHeadTy_cr P r q p) := by
  rw [renOK_cr]
theorem renOK_exprPath_cr (P : String → Bool) (r : Renaming) (as : List String) (a q p : T) :
    renOK_cr P r (.node "Expr::Path" as [a, q, p]) =
      (renOK_cr P r a && renOK_cr P r q && renOK_cr P r p && renHeadEx_cr P r q p) := by
  rw [renOK_cr]

theorem renOK_of_other_cr (P : String → Bool) (r : Renaming) {k : String} (as : List String) {ks : List T}
    (h : NodeOther k ks) : renOK_cr P r (.node k as ks) = renOKL_cr P r ks := by
  obtain ⟨h1, h2, h3, h4, h5⟩ := h
  unfold renOK_cr
  split
  · next heq => cases heq
  · next heq => cases heq
  · next heq => cases heq; exact absurd rfl h1
  · next heq => cases heq; exact absurd rfl h2
  · next x heq => cases heq; exact absurd ⟨rfl, rfl⟩ (h3 x)
  · next q p heq => cases heq; exact absurd ⟨rfl, rfl⟩ (h4 q p)
  · next a q p heq => cases heq; exact absurd ⟨rfl, rfl⟩ (h5 a q p)
  · next heq => cases heq; rfl

theorem renOKL_iff_cr {P : String → Bool} {r : Renaming} :
    ∀ {ks : List T}, renOKL_cr P r ks = true ↔ ∀ t ∈ ks, renOK_cr P r t = true
  | [] => by simp [renOKL_cr]
  | t :: ts => by simp [renOKL_cr, renOKL_iff_cr (ks := ts)]

/-! ### When the presentation change applies -/

theorem qsFires_none_of_head_cr (P : String → Bool) {q p : T} (h : firstSegIdent p = none) : qsFires_cr P q p = none := by
  unfold qsFires_cr; rw [h]

theorem qsFires_plain_cr (P : String → Bool) (x : String) (rest : List T) :
    qsFires_cr P noneNode (plainPath x rest) = if !rest.isEmpty && P x then some x else none := by
  unfold qsFires_cr
  rw [firstSegIdent_plainPath, restSegments_plainPath]
  have : plainHead noneNode (plainPath x rest) = true := by
    simp [plainHead, plainPath, plainSeg, nohead, argsNone]
  rw [this, Bool.true_and]

/-- if the presentation change applies to a respelled path, the path was a plain `x::rest…` -/
theorem qsFires_transport_cr (P : String → Bool) (π : Renaming) (f : String → String) {q p : T} {y : String}
    (h : qsFires_cr P (acT_cr π q) (mapHead f (acT_cr π p)) = some y) :
    ∃ x rest, q = noneNode ∧ p = plainPath x rest ∧ rest ≠ [] ∧ y = f x ∧ P (f x) = true := by
  unfold qsFires_cr at h
  split at h
  · next x' hx' =>
    split at h
    · next hc =>
      have ey : x' = y := Option.some.inj h
      subst ey
      simp only [Bool.and_eq_true, Bool.not_eq_true', ← Bool.not_eq_true] at hc
      obtain ⟨⟨hplain, hrest⟩, hP⟩ := hc
      obtain ⟨eq, x'', rest', ep⟩ := plainHead_inv hplain
      have e1 : x'' = x' := by
        rw [ep, firstSegIdent_plainPath] at hx'
        exact Option.some.inj hx'
      subst e1
      rw [firstSegIdent_mapHead, firstSegIdent_acT_cr] at hx'
      cases hf : firstSegIdent p with
      | none => rw [hf] at hx'; cases hx'
      | some x =>
        rw [hf] at hx'
        have efx : f x = x'' := Option.some.inj hx'
        obtain ⟨a, args, rest, ea⟩ := path_of_firstSeg (show firstSegIdent (acT_cr π p) = some x by rw [firstSegIdent_acT_cr, hf])
        rw [ea] at ep
        have ep' : T.node "Path" [] [a, .node "List" [] (.node "PathSegment" [] [.node "Ident" [f x] [], args] :: rest)] =
            plainPath x'' rest' := ep
        unfold plainPath plainSeg at ep'
        injection ep' with _ _ ek
        injection ek with e1 ek
        injection ek with e2 _
        injection e2 with _ _ e2
        injection e2 with e2 e3
        injection e2 with _ _ e2
        injection e2 with _ e2
        injection e2 with e2 _
        subst e1 e2 e3
        obtain ⟨rest0, rfl, er⟩ := acT_plainPath_inv_cr (x := x) ea
        refine ⟨x, rest0, acT_noneNode_inv_cr eq, rfl, ?_, efx.symm, by rw [efx]; exact hP⟩
        intro e0
        subst e0
        rw [acT_plainPath_cr, acL_nil_cr, mapHead_plainPath, restSegments_plainPath] at hrest
        exact hrest rfl
    · cases h
  · cases h

/-! ### The tree-level theorem -/

theorem mkTypeIdent_reserved_cr {m : String} (h : reserved_cr m = true) : mkTypeIdent m = .tparam m := by
  unfold mkTypeIdent; rw [if_pos (show m.startsWith PARAM_PREFIX = true from h)]
theorem mkExprIdent_reserved_cr {m : String} (h : reserved_cr m = true) : mkExprIdent_cr m = .eparam m := by
  unfold mkExprIdent_cr; rw [if_pos (show m.startsWith PARAM_PREFIX = true from h)]

theorem reservedTargets_ty_cr {r : Renaming} (h : r.reservedTargets_cr = true) {x m : String}
    (hl : rlookup r.ty x = some m) : reserved_cr m = true := by
  simp only [Renaming.reservedTargets_cr, List.all_eq_true, List.mem_append] at h
  exact h (x, m) (Or.inl (rlookup_some_mem hl))
theorem reservedTargets_co_cr {r : Renaming} (h : r.reservedTargets_cr = true) {x m : String}
    (hl : rlookup r.co x = some m) : reserved_cr m = true := by
  simp only [Renaming.reservedTargets_cr, List.all_eq_true, List.mem_append] at h
  exact h (x, m) (Or.inr (rlookup_some_mem hl))

theorem plainPath_inj_cr {x y : String} {r1 r2 : List T} (h : plainPath x r1 = plainPath y r2) : x = y ∧ r1 = r2 := by
  simpa [plainPath, plainSeg] using h

theorem plainHead_plain_cr (x : String) (rest : List T) : plainHead noneNode (plainPath x rest) = true := by
  simp [plainHead, plainPath, plainSeg, nohead, argsNone]

theorem rsL_qs_of_cr {P : String → Bool} {r : Renaming} : ∀ (ks : List T),
    (∀ t ∈ ks, renOK_cr P r t = true → rsT r t = qsT_cr P (acT_cr r t)) →
    renOKL_cr P r ks = true → rsL r ks = qsL_cr P (acL_cr r ks)
  | [], _, _ => by rw [acL_nil_cr, rsL_nil, qsL_nil_cr]
  | t :: ts, ih, h => by
      have h' := renOKL_iff_cr.1 h
      rw [acL_cons_cr, rsL_cons, qsL_cons_cr, ih t (by simp) (h' t (by simp)),
        rsL_qs_of_cr ts (fun t' ht' => ih t' (List.mem_cons_of_mem _ ht'))
          (renOKL_iff_cr.2 (fun t' ht' => h' t' (List.mem_cons_of_mem _ ht')))]

theorem rsTypePath_none_cr {r : Renaming} {as : List String} {q p : T} (h : firstSegIdent p = none) :
    rsTypePath r as q p = .node "Type::Path" as [q, p] := by
  unfold rsTypePath; rw [h]
theorem rsTypePath_unrenamed_cr {r : Renaming} {as : List String} {q p : T} {x : String} (h : firstSegIdent p = some x)
    (hl : rlookup r.ty x = none) : rsTypePath r as q p = .node "Type::Path" as [q, p] := by
  unfold rsTypePath; rw [h]; simp only [hl]
theorem rsTypePath_plain_cr {r : Renaming} {as : List String} {q : T} {x m : String} {rest : List T}
    (hl : rlookup r.ty x = some m) :
    rsTypePath r as q (plainPath x rest) =
      if rest.isEmpty then .tparam m else
        .node "Type::Path" as [.node "Some" [] [.node "QSelf" [] [.tparam m, .node "Atom" ["0"] [], noneNode]],
          .node "Path" [] [someColon, .node "List" [] rest]] := by
  unfold rsTypePath
  rw [firstSegIdent_plainPath]
  simp only [hl, restSegments_plainPath, qselfPath]
  cases rest <;> rfl
theorem rsExprPath_none_cr {r : Renaming} {as : List String} {a q p : T} (h : firstSegIdent p = none) :
    rsExprPath r as a q p = .node "Expr::Path" as [a, q, p] := by
  unfold rsExprPath; rw [h]
theorem rsExprPath_unrenamed_cr {r : Renaming} {as : List String} {a q p : T} {x : String} (h : firstSegIdent p = some x)
    (hl : rlookup r.ty x = none) (hl2 : rlookup r.co x = none) :
    rsExprPath r as a q p = .node "Expr::Path" as [a, q, p] := by
  unfold rsExprPath; rw [h]; simp only [hl, hl2]

/-- an unrenamed head: the presentation change does not apply to the respelled path either -/
theorem qsFires_unrenamed_cr (P : String → Bool) (r : Renaming) (f : String → String) {q p : T} {x : String}
    (hf : firstSegIdent p = some x) (hfx : f x = x) (h : (qsFires_cr P q p).isNone = true) :
    qsFires_cr P (acT_cr r q) (mapHead f (acT_cr r p)) = none := by
  cases hq' : qsFires_cr P (acT_cr r q) (mapHead f (acT_cr r p)) with
  | none => rfl
  | some y =>
    exfalso
    obtain ⟨x0, rest, rfl, rfl, hne, rfl, hPx⟩ := qsFires_transport_cr P r f hq'
    rw [firstSegIdent_plainPath] at hf
    cases hf
    rw [hfx] at hPx
    rw [qsFires_plain_cr] at h
    cases rest with
    | nil => exact hne rfl
    | cons s rest => simp [hPx] at h


theorem nodeOther_acL_cr (π : Renaming) {k : String} {ks : List T} (h : NodeOther k ks) : NodeOther k (acL_cr π ks) := by
  obtain ⟨h1, h2, h3, h4, h5⟩ := h
  refine ⟨h1, h2, ?_, ?_, ?_⟩
  · rintro x ⟨rfl, e⟩
    obtain ⟨t, ts, rfl, e1, e2⟩ := acL_eq_cons_cr e
    cases acL_eq_nil_cr e2
    cases acT_leaf_inv_cr (by decide) (by decide) (by decide) (by decide) (by decide) e1
    exact h3 x ⟨rfl, rfl⟩
  · rintro q p ⟨rfl, e⟩
    obtain ⟨t, ts, rfl, _, e2⟩ := acL_eq_cons_cr e
    obtain ⟨t2, ts2, rfl, _, e3⟩ := acL_eq_cons_cr e2
    cases acL_eq_nil_cr e3
    exact h4 _ _ ⟨rfl, rfl⟩
  · rintro a q p ⟨rfl, e⟩
    obtain ⟨t, ts, rfl, _, e2⟩ := acL_eq_cons_cr e
    obtain ⟨t2, ts2, rfl, _, e3⟩ := acL_eq_cons_cr e2
    obtain ⟨t3, ts3, rfl, _, e4⟩ := acL_eq_cons_cr e3
    cases acL_eq_nil_cr e4
    exact h5 _ _ _ ⟨rfl, rfl⟩

/-- **the resolver's output is the textual renaming followed by the presentation change `X::rest… ↦ <X>::rest…`** -/
theorem rsT_is_renaming_cr (P : String → Bool) (r : Renaming) (hr : r.reservedTargets_cr = true) :
    ∀ t : T, renOK_cr P r t = true → rsT r t = qsT_cr P (acT_cr r t) := by
  apply T.ind
  · intro n _
    rw [rsT_tparam, acT_tparam_cr]
    cases hl : rlookup r.ty n with
    | some m => simp only [Option.getD_some]; rw [mkTypeIdent_reserved_cr (reservedTargets_ty_cr hr hl), qsT_tparam_cr]
    | none => simp only [Option.getD_none]; rw [qsT_tparam_cr]
  · intro n _
    rw [rsT_eparam, acT_eparam_cr]
    cases hl : (rlookup r.ty n).or (rlookup r.co n) with
    | some m =>
      have hres : reserved_cr m = true := by
        cases h1 : rlookup r.ty n with
        | some m' => rw [h1] at hl; cases hl; exact reservedTargets_ty_cr hr h1
        | none => rw [h1] at hl; exact reservedTargets_co_cr hr (by simpa using hl)
      simp only [Option.getD_some]; rw [mkExprIdent_reserved_cr hres, qsT_eparam_cr]
    | none => simp only [Option.getD_none]; rw [qsT_eparam_cr]
  · intro k as ks ih hok
    rcases node_shape k ks with h | ⟨x, rfl, rfl⟩ | ⟨q, p, rfl, rfl⟩ | ⟨a, q, p, rfl, rfl⟩ | h
    · rcases h with rfl | rfl
      · rw [acT_ign_cr, rsT_ign, qsT_ign_cr]
      · rw [acT_eq_cr, rsT_eq, qsT_eq_cr]
    · rw [acT_lifetime_cr, rsT_lifetime, qsT_lifetime_cr]; rfl
    · -- type paths
      rw [renOK_typePath_cr] at hok
      simp only [Bool.and_eq_true] at hok
      obtain ⟨⟨hq, hp⟩, hh⟩ := hok
      have ihq := ih q (by simp) hq
      have ihp := ih p (by simp) hp
      rw [rsT_typePath, acT_typePath_cr]
      cases hf : firstSegIdent p with
      | none =>
        have hc : convTy_cr r q p = none := by unfold convTy_cr; rw [hf]
        rw [hc]
        simp only
        rw [mapHead_none _ (by rw [firstSegIdent_acT_cr, hf]), qsT_typePath_cr,
          qsFires_none_of_head_cr P (by rw [firstSegIdent_acT_cr, hf])]
        simp only
        rw [← ihq, ← ihp, rsTypePath_none_cr (by rw [firstSegIdent_rsT, hf])]
      | some x =>
        unfold renHeadTy_cr at hh
        rw [hf] at hh
        simp only at hh
        cases hl : rlookup r.ty x with
        | none =>
          rw [hl] at hh
          simp only at hh
          have hc : convTy_cr r q p = none := by unfold convTy_cr; rw [hf]; simp only [hl]
          have hfx : rn r.ty x = x := by unfold rn; rw [hl]; rfl
          rw [hc]
          simp only
          rw [qsT_typePath_cr, qsFires_unrenamed_cr P r _ hf hfx hh]
          simp only
          rw [mapHead_id (fun y hy => by rw [firstSegIdent_acT_cr, hf] at hy; cases hy; exact hfx), ← ihq, ← ihp,
            rsTypePath_unrenamed_cr (by rw [firstSegIdent_rsT, hf]) hl]
        | some m =>
          rw [hl] at hh
          simp only [Bool.and_eq_true, Bool.or_eq_true] at hh
          obtain ⟨hplain, hPm⟩ := hh
          obtain ⟨rfl, x', rest, rfl⟩ := plainHead_inv hplain
          cases (by simpa [firstSegIdent_plainPath] using hf : x' = x)
          have hres := reservedTargets_ty_cr hr hl
          have hfx : rn r.ty x = m := by unfold rn; rw [hl]; rfl
          rw [rsT_noneNode, rsT_plainPath, rsTypePath_plain_cr hl]
          cases rest with
          | nil =>
            have hc : convTy_cr r noneNode (plainPath x []) = some m := by
              unfold convTy_cr lonePath_cr
              rw [firstSegIdent_plainPath]
              simp only [hl, hplain, restSegments_plainPath, hres, List.isEmpty_nil, Bool.and_self, if_true]
            rw [hc]
            simp only
            rw [qsT_tparam_cr, rsL_nil]
            rfl
          | cons s rest =>
            have hc : convTy_cr r noneNode (plainPath x (s :: rest)) = none := by
              unfold convTy_cr lonePath_cr
              rw [firstSegIdent_plainPath]
              simp [hl, restSegments_plainPath]
            have hPm' : P m = true := by
              rcases hPm with h | h
              · rw [restSegments_plainPath] at h; cases h
              · exact h
            rw [hc]
            simp only
            rw [acT_noneNode_cr, acT_plainPath_cr, mapHead_plainPath, hfx, qsT_typePath_cr, qsFires_plain_cr, acL_cons_cr]
            simp only [List.isEmpty_cons, Bool.not_false, hPm', Bool.and_self, if_true]
            rw [qsT_plainPath_cr, restSegments_plainPath]
            rw [rsT_plainPath, acT_plainPath_cr, qsT_plainPath_cr] at ihp
            rw [← acL_cons_cr, ← (plainPath_inj_cr ihp).2, rsL_cons]
            simp [qselfPath]
    · -- expression paths
      rw [renOK_exprPath_cr] at hok
      simp only [Bool.and_eq_true] at hok
      obtain ⟨⟨⟨ha, hq⟩, hp⟩, hh⟩ := hok
      have iha := ih a (by simp) ha
      have ihq := ih q (by simp) hq
      have ihp := ih p (by simp) hp
      rw [rsT_exprPath, acT_exprPath_cr]
      cases hf : firstSegIdent p with
      | none =>
        have hc : convEx_cr r q p = none := by unfold convEx_cr; rw [hf]
        rw [hc]
        simp only
        rw [mapHead_none _ (by rw [firstSegIdent_acT_cr, hf]), qsT_exprPath_cr,
          qsFires_none_of_head_cr P (by rw [firstSegIdent_acT_cr, hf])]
        simp only
        rw [← iha, ← ihq, ← ihp, rsExprPath_none_cr (by rw [firstSegIdent_rsT, hf])]
      | some x =>
        unfold renHeadEx_cr at hh
        rw [hf] at hh
        simp only at hh
        cases hl : rlookup r.ty x with
        | none =>
          rw [hl] at hh
          simp only at hh
          cases hl2 : rlookup r.co x with
          | none =>
            rw [hl2] at hh
            simp only [Option.isSome_none, Bool.false_eq_true, if_false] at hh
            have hc : convEx_cr r q p = none := by unfold convEx_cr; rw [hf]; simp only [hl, hl2, Option.or_none]
            have hfx : exW r x = x := by unfold exW; rw [hl, hl2]; rfl
            rw [hc]
            simp only
            rw [qsT_exprPath_cr, qsFires_unrenamed_cr P r _ hf hfx hh]
            simp only
            rw [mapHead_id (fun y hy => by rw [firstSegIdent_acT_cr, hf] at hy; cases hy; exact hfx), ← iha, ← ihq, ← ihp,
              rsExprPath_unrenamed_cr (by rw [firstSegIdent_rsT, hf]) hl hl2]
          | some m =>
            rw [hl2] at hh
            simp only [Option.isSome_some, if_true] at hh
            unfold lonePath_cr at hh
            simp only [Bool.and_eq_true] at hh
            obtain ⟨hplain, hemp⟩ := hh
            obtain ⟨rfl, x', rest, rfl⟩ := plainHead_inv hplain
            cases (by simpa [firstSegIdent_plainPath] using hf : x' = x)
            rw [restSegments_plainPath] at hemp
            cases rest with
            | cons _ _ => cases hemp
            | nil =>
              have hres := reservedTargets_co_cr hr hl2
              have hc : convEx_cr r noneNode (plainPath x []) = some m := by
                unfold convEx_cr lonePath_cr
                rw [firstSegIdent_plainPath]
                simp only [hl, hl2, Option.none_or, hplain, restSegments_plainPath, hres, List.isEmpty_nil, Bool.and_self, if_true]
              rw [hc]
              simp only
              rw [qsT_eparam_cr, rsT_noneNode, rsT_plainPath, rsL_nil, rsExprPath_bare hl hl2]
        | some m =>
          rw [hl] at hh
          simp only [Bool.and_eq_true, Bool.or_eq_true] at hh
          obtain ⟨hplain, hPm⟩ := hh
          obtain ⟨rfl, x', rest, rfl⟩ := plainHead_inv hplain
          cases (by simpa [firstSegIdent_plainPath] using hf : x' = x)
          have hres := reservedTargets_ty_cr hr hl
          have hfx : exW r x = m := by unfold exW; rw [hl]; rfl
          rw [rsT_noneNode, rsT_plainPath, rsExprPath_ty hl]
          cases rest with
          | nil =>
            have hc : convEx_cr r noneNode (plainPath x []) = some m := by
              unfold convEx_cr lonePath_cr
              rw [firstSegIdent_plainPath]
              simp only [hl, Option.some_or, hplain, restSegments_plainPath, hres, List.isEmpty_nil, Bool.and_self, if_true]
            rw [hc]
            simp only
            rw [qsT_eparam_cr, rsL_nil]
            rfl
          | cons s rest =>
            have hc : convEx_cr r noneNode (plainPath x (s :: rest)) = none := by
              unfold convEx_cr lonePath_cr
              rw [firstSegIdent_plainPath]
              simp [hl, restSegments_plainPath]
            have hPm' : P m = true := by
              rcases hPm with h | h
              · rw [restSegments_plainPath] at h; cases h
              · exact h
            rw [hc]
            simp only
            rw [acT_noneNode_cr, acT_plainPath_cr, mapHead_plainPath, hfx, qsT_exprPath_cr, qsFires_plain_cr, acL_cons_cr]
            simp only [List.isEmpty_cons, Bool.not_false, hPm', Bool.and_self, if_true]
            rw [qsT_plainPath_cr, restSegments_plainPath]
            rw [rsT_plainPath, acT_plainPath_cr, qsT_plainPath_cr] at ihp
            rw [← acL_cons_cr, ← (plainPath_inj_cr ihp).2, rsL_cons]
            simp [qselfPath]
    · rw [renOK_of_other_cr P r as h] at hok
      rw [acT_of_other_cr r as h, rsT_of_other r as h, rsL_qs_of_cr ks ih hok,
        qsT_of_other_cr P as (nodeOther_acL_cr r h)]

/-! ### The condition `renOK_cr` survives the renaming of the declarations -/

theorem renOK_node_cr (P : String → Bool) (r : Renaming) {k : String} (as : List String) (ks : List T) (h1 : k ≠ "Ign")
    (h2 : k ≠ "Eq") (h3 : k ≠ "Lifetime") (h4 : k ≠ "Type::Path") (h5 : k ≠ "Expr::Path") :
    renOK_cr P r (.node k as ks) = renOKL_cr P r ks :=
  renOK_of_other_cr P r as (nodeOther_of_ne ks h1 h2 h3 h4 h5)
theorem renOKL_nil_cr (P : String → Bool) (r : Renaming) : renOKL_cr P r [] = true := by rw [renOKL_cr]
theorem renOKL_cons_cr (P : String → Bool) (r : Renaming) (t : T) (ts : List T) :
    renOKL_cr P r (t :: ts) = (renOK_cr P r t && renOKL_cr P r ts) := by rw [renOKL_cr]
theorem renOK_identLeaf_cr (P : String → Bool) (r : Renaming) (x : String) : renOK_cr P r (.node "Ident" [x] []) = true := by
  rw [renOK_node_cr P r _ _ (by decide) (by decide) (by decide) (by decide) (by decide), renOKL_nil_cr]

theorem renameDecl_renOK_cr (P : String → Bool) (r r' : Renaming) (p : T) (h : renOK_cr P r p = true) :
    renOK_cr P r (renameDecl r' p) = true := by
  unfold renameDecl
  split
  · next a x rest =>
    rw [renOK_node_cr P r _ _ (by decide) (by decide) (by decide) (by decide) (by decide), renOKL_cons_cr, renOKL_nil_cr,
      renOK_node_cr P r _ _ (by decide) (by decide) (by decide) (by decide) (by decide), renOKL_cons_cr, renOKL_cons_cr,
      renOK_identLeaf_cr] at h ⊢
    exact h
  · next a x rest =>
    rw [renOK_node_cr P r _ _ (by decide) (by decide) (by decide) (by decide) (by decide), renOKL_cons_cr, renOKL_nil_cr,
      renOK_node_cr P r _ _ (by decide) (by decide) (by decide) (by decide) (by decide), renOKL_cons_cr, renOKL_cons_cr,
      renOK_identLeaf_cr] at h ⊢
    exact h
  · exact h

theorem renameGenerics_renOK_cr (P : String → Bool) (r r' : Renaming) (g : T) (h : renOK_cr P r g = true) :
    renOK_cr P r (renameGenerics r' g) = true := by
  unfold renameGenerics
  split
  · next lt0 ps gt0 wc =>
    rw [renOK_node_cr P r _ _ (by decide) (by decide) (by decide) (by decide) (by decide), renOKL_cons_cr, renOKL_cons_cr,
      renOK_node_cr P r _ _ (by decide) (by decide) (by decide) (by decide) (by decide)] at h ⊢
    simp only [Bool.and_eq_true] at h ⊢
    refine ⟨h.1, ?_, h.2.2⟩
    rw [renOKL_iff_cr]
    intro t ht
    obtain ⟨p, hp, rfl⟩ := List.mem_map.1 ht
    exact renameDecl_renOK_cr P r r' p (renOKL_iff_cr.1 h.2.1 p hp)
  · exact h

theorem renameImplDecls_renOK_cr (P : String → Bool) (r r' : Renaming) (item : T) (h : renOK_cr P r item = true) :
    renOK_cr P r (renameImplDecls r' item) = true := by
  unfold renameImplDecls
  split
  · next a d u g tr sf items =>
    rw [renOK_node_cr P r _ _ (by decide) (by decide) (by decide) (by decide) (by decide)] at h ⊢
    simp only [renOKL_cons_cr, Bool.and_eq_true] at h ⊢
    exact ⟨h.1, h.2.1, h.2.2.1, renameGenerics_renOK_cr P r r' g h.2.2.2.1, h.2.2.2.2⟩
  · exact h

/-! ### The computed renaming -/

theorem reserved_gen_cr (i : Nat) : reserved_cr (genIndexedIdent i) = true := by
  unfold reserved_cr
  rw [String.startsWith_string_iff]
  unfold genIndexedIdent
  rw [String.toList_append]
  exact List.prefix_append _ _

/-- the names handed out are reserved identifiers -/
theorem renaming_reservedTargets_cr (s : IxState) : s.renaming.reservedTargets_cr = true := by
  simp only [Renaming.reservedTargets_cr, IxState.renaming, List.all_eq_true, List.mem_append, List.mem_map]
  rintro p (⟨⟨x, i⟩, _, rfl⟩ | ⟨⟨x, i⟩, _, rfl⟩) <;> exact reserved_gen_cr i

/-! ### `renOK_cr` from the tree clause of `canonWF` -/

theorem mem_tyNames_cr {r : Renaming} {x m : String} (h : rlookup r.ty x = some m) : r.tyNames_cr.contains m = true := by
  rw [List.contains_iff_mem]
  exact List.mem_map.2 ⟨(x, m), rlookup_some_mem h, rfl⟩

/-- a name the type map does not rename and that may stand in type position is not one of the canonical type names -/
theorem unrenamed_notName_ty_cr {c : CCtx} (st : Stat c) (hn : (c.r.ty.map Prod.fst).Nodup) {x : String}
    (hok : okTy c x = true) (hl : rlookup c.r.ty x = none) : c.r.tyNames_cr.contains x = false := by
  rw [← Bool.not_eq_true, List.contains_iff_mem]
  intro hm
  obtain ⟨⟨y, x'⟩, hp, e⟩ := List.mem_map.1 hm
  cases (show x' = x from e)
  have hly : rlookup (c.m .ty) y = some x := rlookup_of_mem_nodup hn hp
  have hy : y ∈ c.D .ty := st.dom .ty y x hly
  have hρ : c.ρ .ty y = x := by unfold CCtx.ρ rn; rw [hly]; rfl
  simp only [okTy, Bool.or_eq_true, List.contains_iff_mem, Bool.not_eq_true', ← Bool.not_eq_true] at hok
  rcases hok with hx | hx
  · have hρx : c.ρ .ty x = x := by unfold CCtx.ρ rn; rw [show c.m .ty = c.r.ty from rfl, hl]; rfl
    have := st.inj .ty .ty rfl y x hy hx (by rw [hρ, hρx])
    subst this
    rw [show c.m .ty = c.r.ty from rfl, hl] at hly
    cases hly
  · exact hx (List.mem_map.2 ⟨y, hy, hρ⟩)

theorem unrenamed_notName_ex_cr {c : CCtx} (st : Stat c) (hn : (c.r.ty.map Prod.fst).Nodup) {x : String}
    (hok : okEx c x = true) (hl : rlookup c.r.ty x = none) (hl2 : rlookup c.r.co x = none) :
    c.r.tyNames_cr.contains x = false := by
  rw [← Bool.not_eq_true, List.contains_iff_mem]
  intro hm
  obtain ⟨⟨y, x'⟩, hp, e⟩ := List.mem_map.1 hm
  cases (show x' = x from e)
  have hly : rlookup (c.m .ty) y = some x := rlookup_of_mem_nodup hn hp
  have hy : y ∈ c.D .ty := st.dom .ty y x hly
  have hρ : c.ρ .ty y = x := by unfold CCtx.ρ rn; rw [hly]; rfl
  simp only [okEx, Bool.or_eq_true, Bool.and_eq_true, List.contains_iff_mem, Bool.not_eq_true', ← Bool.not_eq_true] at hok
  rcases hok with (hx | hx) | hx
  · have hρx : c.ρ .ty x = x := by unfold CCtx.ρ rn; rw [show c.m .ty = c.r.ty from rfl, hl]; rfl
    have := st.inj .ty .ty rfl y x hy hx (by rw [hρ, hρx])
    subst this
    rw [show c.m .ty = c.r.ty from rfl, hl] at hly
    cases hly
  · have hρx : c.ρ .co x = x := by unfold CCtx.ρ rn; rw [show c.m .co = c.r.co from rfl, hl2]; rfl
    have := st.inj .ty .co rfl y x hy hx (by rw [hρ, hρx])
    subst this
    cases st.disj .ty .co rfl y hy hx
  · exact hx.1 (List.mem_map.2 ⟨y, hy, hρ⟩)

theorem qsFires_none_of_not_cr {P : String → Bool} {q p : T} {x : String} (hf : firstSegIdent p = some x)
    (h : P x = false) : qsFires_cr P q p = none := by
  unfold qsFires_cr
  rw [hf]
  simp [h]

/-- **the tree clause of `canonWF` gives the condition of the tree-level theorem**, for "is one of the canonical type
    names" -/
theorem renOK_of_rsOK_cr (c : CCtx) (st : Stat c) (hn : (c.r.ty.map Prod.fst).Nodup) :
    ∀ t : T, rsOK c t = true → renOK_cr c.r.tyNames_cr.contains c.r t = true := by
  apply T.ind
  · intro n _; rw [renOK_cr]
  · intro n _; rw [renOK_cr]
  · intro k as ks ih hok
    rcases node_shape k ks with h | ⟨x, rfl, rfl⟩ | ⟨q, p, rfl, rfl⟩ | ⟨a, q, p, rfl, rfl⟩ | h
    · rcases h with rfl | rfl <;> rw [renOK_cr]
    · rw [renOK_cr]
    · obtain ⟨hq, hp, hx⟩ := rsOK_typePath_inv hok
      rw [renOK_typePath_cr, ih q (by simp) hq, ih p (by simp) hp]
      simp only [Bool.true_and]
      unfold renHeadTy_cr
      cases hf : firstSegIdent p with
      | none => rfl
      | some x =>
        simp only
        obtain ⟨hokx, hm⟩ := hx x hf
        cases hl : rlookup c.r.ty x with
        | some m => simp only; rw [(hm m hl).1, mem_tyNames_cr hl]; simp
        | none => simp only; rw [qsFires_none_of_not_cr hf (unrenamed_notName_ty_cr st hn hokx hl)]; rfl
    · obtain ⟨ha, hq, hp, hx⟩ := rsOK_exprPath_inv hok
      rw [renOK_exprPath_cr, ih a (by simp) ha, ih q (by simp) hq, ih p (by simp) hp]
      simp only [Bool.true_and]
      unfold renHeadEx_cr
      cases hf : firstSegIdent p with
      | none => rfl
      | some x =>
        simp only
        obtain ⟨hokx, hm, hco⟩ := hx x hf
        cases hl : rlookup c.r.ty x with
        | some m => simp only; rw [(hm m hl).1, mem_tyNames_cr hl]; simp
        | none =>
          simp only
          cases hl2 : rlookup c.r.co x with
          | some m =>
            obtain ⟨h1, h2⟩ := hco hl m hl2
            simp only [Option.isSome_some, if_true, lonePath_cr, h1, h2, Bool.and_self]
          | none =>
            simp only [Option.isSome_none, Bool.false_eq_true, if_false]
            rw [qsFires_none_of_not_cr hf (unrenamed_notName_ex_cr st hn hokx hl hl2)]; rfl
    · rw [rsOK_of_other c as h] at hok
      rw [renOK_of_other_cr _ _ as h, renOKL_iff_cr]
      intro t ht
      exact ih t ht (rsOKL_iff.1 hok t ht)

/-! ### The item-level theorems -/

/-- canonicalisation is the textual renaming followed by the presentation change, under exactly the tree condition -/
theorem canon_is_renaming_of_cr (P : String → Bool) (item : T)
    (h : renOK_cr P (indexImpl item).renaming item = true) :
    canon item = qsT_cr P (alphaRenameC_cr (indexImpl item).renaming item) := by
  unfold canon alphaRenameC_cr
  exact rsT_is_renaming_cr P _ (renaming_reservedTargets_cr _) _ (renameImplDecls_renOK_cr P _ _ item h)

theorem canonWF_keys_nodup_cr (item : T) (hd : namesDistinct (canonCtx item) = true) :
    ((indexImpl item).renaming.ty.map Prod.fst).Nodup := by
  have hnd : (canonCtx item).dLt.Nodup ∧ ((canonCtx item).dTy ++ (canonCtx item).dCo).Nodup := by
    simpa [namesDistinct] using hd
  rw [List.nodup_append] at hnd
  have hinv : IxInv (indexImpl item) := indexImpl_inv item hnd.1 hnd.2.1 hnd.2.2.1
  have : (indexImpl item).renaming.ty.map Prod.fst = (indexImpl item).ixTy.map Prod.fst := by
    simp [IxState.renaming, List.map_map, Function.comp_def]
  rw [this]
  exact (List.nodup_append.1 hinv.2.2.1).1

theorem canonWF_renOK_cr (item : T) (h : canonWF item = true) :
    renOK_cr (indexImpl item).renaming.tyNames_cr.contains (indexImpl item).renaming item = true := by
  simp only [canonWF, Bool.and_eq_true] at h
  obtain ⟨⟨⟨_, hd⟩, hf⟩, hok⟩ := h
  exact renOK_of_rsOK_cr (canonCtx item) (canon_stat item hd hf) (canonWF_keys_nodup_cr item hd) item hok

theorem canon_is_renaming_cr (item : T) (h : canonWF item = true) :
    canon item = qselfFormOf_cr (indexImpl item).renaming.tyNames_cr
      (alphaRenameC_cr (indexImpl item).renaming item) :=
  canon_is_renaming_of_cr _ item (canonWF_renOK_cr item h)

/-! ### Every occurrence is rewritten -/

theorem noOld_of_other_cr (r : Renaming) {k : String} (as : List String) {ks : List T} (h : NodeOther k ks) :
    noOld_cr r (.node k as ks) = noOldL_cr r ks := by
  obtain ⟨h1, h2, h3, h4, h5⟩ := h
  unfold noOld_cr
  split
  · next heq => cases heq
  · next heq => cases heq
  · next heq => cases heq; exact absurd rfl h1
  · next heq => cases heq; exact absurd rfl h2
  · next x heq => cases heq; exact absurd ⟨rfl, rfl⟩ (h3 x)
  · next q p heq => cases heq; exact absurd ⟨rfl, rfl⟩ (h4 q p)
  · next a q p heq => cases heq; exact absurd ⟨rfl, rfl⟩ (h5 a q p)
  · next heq => cases heq; rfl

theorem noOld_node_cr (r : Renaming) {k : String} (as : List String) (ks : List T) (h1 : k ≠ "Ign")
    (h2 : k ≠ "Eq") (h3 : k ≠ "Lifetime") (h4 : k ≠ "Type::Path") (h5 : k ≠ "Expr::Path") :
    noOld_cr r (.node k as ks) = noOldL_cr r ks :=
  noOld_of_other_cr r as (nodeOther_of_ne ks h1 h2 h3 h4 h5)

theorem noOldL_nil_cr (r : Renaming) : noOldL_cr r [] = true := by rw [noOldL_cr]
theorem noOldL_cons_cr (r : Renaming) (t : T) (ts : List T) :
    noOldL_cr r (t :: ts) = (noOld_cr r t && noOldL_cr r ts) := by rw [noOldL_cr]

theorem noOldL_iff_cr {r : Renaming} : ∀ {ks : List T}, noOldL_cr r ks = true ↔ ∀ t ∈ ks, noOld_cr r t = true
  | [] => by simp [noOldL_cr]
  | t :: ts => by simp [noOldL_cr, noOldL_iff_cr (ks := ts)]

theorem noOld_typePath_cr (r : Renaming) (as : List String) (q p : T) :
    noOld_cr r (.node "Type::Path" as [q, p]) = (noOld_cr r q && noOld_cr r p &&
      (q != noneNode || (match firstSegIdent p with | some x => notOld_cr r.ty x | none => true))) := by
  rw [noOld_cr]; cases firstSegIdent p <;> rfl
theorem noOld_exprPath_cr (r : Renaming) (as : List String) (a q p : T) :
    noOld_cr r (.node "Expr::Path" as [a, q, p]) = (noOld_cr r a && noOld_cr r q && noOld_cr r p &&
      (q != noneNode || (match firstSegIdent p with | some x => notOldEx_cr r x | none => true))) := by
  rw [noOld_cr]; cases firstSegIdent p <;> rfl

theorem noOld_plainPath_cr (r : Renaming) (x : String) (rest : List T) :
    noOld_cr r (plainPath x rest) = noOldL_cr r rest := by
  unfold plainPath plainSeg nohead argsNone noneNode
  rw [noOld_node_cr r _ _ (by decide) (by decide) (by decide) (by decide) (by decide), noOldL_cons_cr, noOldL_cons_cr,
    noOldL_nil_cr, noOld_node_cr r _ _ (by decide) (by decide) (by decide) (by decide) (by decide), noOldL_cons_cr, noOldL_nil_cr,
    noOld_node_cr r _ _ (by decide) (by decide) (by decide) (by decide) (by decide), noOldL_nil_cr,
    noOld_node_cr r _ _ (by decide) (by decide) (by decide) (by decide) (by decide), noOldL_cons_cr,
    noOld_node_cr r _ _ (by decide) (by decide) (by decide) (by decide) (by decide), noOldL_cons_cr, noOldL_cons_cr, noOldL_nil_cr,
    noOld_node_cr r _ _ (by decide) (by decide) (by decide) (by decide) (by decide), noOldL_nil_cr,
    noOld_node_cr r _ _ (by decide) (by decide) (by decide) (by decide) (by decide), noOldL_nil_cr]
  simp

theorem noOld_qself_cr (r : Renaming) {x m : String} (hl : rlookup r.ty x = some m) (rest : List T)
    (h : noOldL_cr r rest = true) :
    noOld_cr r (.node "Some" [] [.node "QSelf" [] [.tparam m, .node "Atom" ["0"] [], noneNode]]) = true ∧
    noOld_cr r (.node "Path" [] [someColon, .node "List" [] rest]) = true := by
  have hm : notOld_cr r.ty m = true := by
    unfold notOld_cr
    rw [Bool.or_eq_true, List.contains_iff_mem]
    exact Or.inr (List.mem_map.2 ⟨(x, m), rlookup_some_mem hl, rfl⟩)
  constructor
  · unfold noneNode
    rw [noOld_node_cr r _ _ (by decide) (by decide) (by decide) (by decide) (by decide), noOldL_cons_cr, noOldL_nil_cr,
      noOld_node_cr r _ _ (by decide) (by decide) (by decide) (by decide) (by decide), noOldL_cons_cr, noOldL_cons_cr,
      noOldL_cons_cr, noOldL_nil_cr, noOld_cr, hm,
      noOld_node_cr r _ _ (by decide) (by decide) (by decide) (by decide) (by decide), noOldL_nil_cr,
      noOld_node_cr r _ _ (by decide) (by decide) (by decide) (by decide) (by decide), noOldL_nil_cr]
    rfl
  · unfold someColon
    rw [noOld_node_cr r _ _ (by decide) (by decide) (by decide) (by decide) (by decide), noOldL_cons_cr, noOldL_cons_cr,
      noOldL_nil_cr, noOld_node_cr r _ _ (by decide) (by decide) (by decide) (by decide) (by decide), noOldL_cons_cr, noOldL_nil_cr,
      noOld_node_cr r _ _ (by decide) (by decide) (by decide) (by decide) (by decide), noOldL_nil_cr,
      noOld_node_cr r _ _ (by decide) (by decide) (by decide) (by decide) (by decide), h]
    rfl

/-- **every occurrence is rewritten**: in the resolver's output no old spelling of a renamed parameter is left in
    parameter position -/
theorem rsT_noOld_cr (P : String → Bool) (r : Renaming) : ∀ t : T, renOK_cr P r t = true → noOld_cr r (rsT r t) = true := by
  apply T.ind
  · intro n _
    rw [rsT_tparam, noOld_cr]
    unfold notOld_cr
    cases hl : rlookup r.ty n with
    | some m =>
      simp only [Option.getD_some, Bool.or_eq_true, List.contains_iff_mem]
      exact Or.inr (List.mem_map.2 ⟨(n, m), rlookup_some_mem hl, rfl⟩)
    | none => simp [hl]
  · intro n _
    rw [rsT_eparam, noOld_cr]
    unfold notOldEx_cr
    cases hl : rlookup r.ty n with
    | some m =>
      simp only [Option.some_or, Option.getD_some, Bool.or_eq_true, List.contains_iff_mem]
      exact Or.inr (List.mem_map.2 ⟨(n, m), List.mem_append_left _ (rlookup_some_mem hl), rfl⟩)
    | none =>
      cases hl2 : rlookup r.co n with
      | some m =>
        simp only [Option.none_or, Option.getD_some, Bool.or_eq_true, List.contains_iff_mem]
        exact Or.inr (List.mem_map.2 ⟨(n, m), List.mem_append_right _ (rlookup_some_mem hl2), rfl⟩)
      | none => simp [hl, hl2]
  · intro k as ks ih hok
    rcases node_shape k ks with h | ⟨x, rfl, rfl⟩ | ⟨q, p, rfl, rfl⟩ | ⟨a, q, p, rfl, rfl⟩ | h
    · rcases h with rfl | rfl
      · rw [rsT_ign, noOld_cr]
      · rw [rsT_eq, noOld_cr]
    · rw [rsT_lifetime, noOld_cr]
      unfold notOld_cr
      cases hl : rlookup r.lt x with
      | some m =>
        simp only [Option.getD_some, Bool.or_eq_true, List.contains_iff_mem]
        exact Or.inr (List.mem_map.2 ⟨(x, m), rlookup_some_mem hl, rfl⟩)
      | none => simp [hl]
    · rw [renOK_typePath_cr] at hok
      simp only [Bool.and_eq_true] at hok
      obtain ⟨⟨hq, hp⟩, hh⟩ := hok
      have ihq := ih q (by simp) hq
      have ihp := ih p (by simp) hp
      rw [rsT_typePath]
      cases hf : firstSegIdent p with
      | none =>
        rw [rsTypePath_none_cr (by rw [firstSegIdent_rsT, hf]), noOld_typePath_cr, ihq, ihp, firstSegIdent_rsT, hf]
        simp
      | some x =>
        unfold renHeadTy_cr at hh
        rw [hf] at hh
        simp only at hh
        cases hl : rlookup r.ty x with
        | none =>
          rw [rsTypePath_unrenamed_cr (by rw [firstSegIdent_rsT, hf]) hl, noOld_typePath_cr, ihq, ihp, firstSegIdent_rsT, hf]
          simp [notOld_cr, hl]
        | some m =>
          rw [hl] at hh
          simp only [Bool.and_eq_true, Bool.or_eq_true] at hh
          obtain ⟨rfl, x', rest, rfl⟩ := plainHead_inv hh.1
          cases (by simpa [firstSegIdent_plainPath] using hf : x' = x)
          rw [rsT_plainPath, noOld_plainPath_cr] at ihp
          rw [rsT_noneNode, rsT_plainPath, rsTypePath_plain_cr hl]
          split
          · rw [noOld_cr]
            unfold notOld_cr
            rw [Bool.or_eq_true, List.contains_iff_mem]
            exact Or.inr (List.mem_map.2 ⟨(x, m), rlookup_some_mem hl, rfl⟩)
          · obtain ⟨h1, h2⟩ := noOld_qself_cr r hl _ ihp
            rw [noOld_typePath_cr, h1, h2]
            rfl
    · rw [renOK_exprPath_cr] at hok
      simp only [Bool.and_eq_true] at hok
      obtain ⟨⟨⟨ha, hq⟩, hp⟩, hh⟩ := hok
      have iha := ih a (by simp) ha
      have ihq := ih q (by simp) hq
      have ihp := ih p (by simp) hp
      rw [rsT_exprPath]
      cases hf : firstSegIdent p with
      | none =>
        rw [rsExprPath_none_cr (by rw [firstSegIdent_rsT, hf]), noOld_exprPath_cr, iha, ihq, ihp, firstSegIdent_rsT, hf]
        simp
      | some x =>
        unfold renHeadEx_cr at hh
        rw [hf] at hh
        simp only at hh
        cases hl : rlookup r.ty x with
        | none =>
          rw [hl] at hh
          simp only at hh
          cases hl2 : rlookup r.co x with
          | none =>
            rw [rsExprPath_unrenamed_cr (by rw [firstSegIdent_rsT, hf]) hl hl2, noOld_exprPath_cr, iha, ihq, ihp,
              firstSegIdent_rsT, hf]
            simp [notOldEx_cr, hl, hl2]
          | some m =>
            rw [hl2] at hh
            simp only [Option.isSome_some, if_true] at hh
            unfold lonePath_cr at hh
            simp only [Bool.and_eq_true] at hh
            obtain ⟨hplain, hemp⟩ := hh
            obtain ⟨rfl, x', rest, rfl⟩ := plainHead_inv hplain
            cases (by simpa [firstSegIdent_plainPath] using hf : x' = x)
            rw [restSegments_plainPath] at hemp
            cases rest with
            | cons _ _ => cases hemp
            | nil =>
              rw [rsT_noneNode, rsT_plainPath, rsL_nil, rsExprPath_bare hl hl2, noOld_cr]
              unfold notOldEx_cr
              rw [Bool.or_eq_true, List.contains_iff_mem]
              exact Or.inr (List.mem_map.2 ⟨(x, m), List.mem_append_right _ (rlookup_some_mem hl2), rfl⟩)
        | some m =>
          rw [hl] at hh
          simp only [Bool.and_eq_true, Bool.or_eq_true] at hh
          obtain ⟨rfl, x', rest, rfl⟩ := plainHead_inv hh.1
          cases (by simpa [firstSegIdent_plainPath] using hf : x' = x)
          rw [rsT_plainPath, noOld_plainPath_cr] at ihp
          rw [rsT_noneNode, rsT_plainPath, rsExprPath_ty hl]
          split
          · rw [noOld_cr]
            unfold notOldEx_cr
            rw [Bool.or_eq_true, List.contains_iff_mem]
            exact Or.inr (List.mem_map.2 ⟨(x, m), List.mem_append_left _ (rlookup_some_mem hl), rfl⟩)
          · obtain ⟨h1, h2⟩ := noOld_qself_cr r hl _ ihp
            rw [noOld_exprPath_cr, h1, h2, noOld_cr]
            rfl
    · rw [renOK_of_other_cr P r as h] at hok
      rw [rsT_of_other r as h, noOld_of_other_cr r as (nodeOther_rsL r h), noOldL_iff_cr]
      intro t' ht'
      rw [rsL_map] at ht'
      obtain ⟨t, ht, rfl⟩ := List.mem_map.1 ht'
      exact ih t ht (renOKL_iff_cr.1 hok t ht)

theorem canon_noOld_cr (P : String → Bool) (item : T) (h : renOK_cr P (indexImpl item).renaming item = true) :
    noOld_cr (indexImpl item).renaming (canon item) = true := by
  unfold canon
  exact rsT_noOld_cr P _ _ (renameImplDecls_renOK_cr P _ _ item h)

/-! ### The declared parameter list -/

theorem canonCtx_rho_cr (item : T) (k : PK) (y : String) :
    (canonCtx item).ρ k y = rn ((indexImpl item).renaming.m k) y := by
  cases k <;> rfl

/-- the declarations of the canonical block are the declarations of the block, position by position, each with its
    name respelled (and its bounds resolved: `declF`) -/
theorem canon_params_cr (item : T) (hdecl : implDeclsOK item = true) (hd : namesDistinct (canonCtx item) = true) :
    implParams (canon item) = (implParams item).map (declF (indexImpl item).renaming) ∧
    ∀ p ∈ implParams item, ∃ k y, kindSel (kindStr k) p = some y ∧ paramIdent p = some y ∧
      kindSel (kindStr k) (declF (indexImpl item).renaming p) = some (rn ((indexImpl item).renaming.m k) y) ∧
      paramIdent (declF (indexImpl item).renaming p) = some (rn ((indexImpl item).renaming.m k) y) := by
  refine ⟨(declOrder_canon item (implParams item) hdecl hd (List.Perm.refl _)).2, ?_⟩
  obtain ⟨a, d, u, lt0, ps, gt0, wc, tr, sf, items, rfl, hps⟩ := implDeclsOK_inv hdecl
  intro p hp
  obtain ⟨k, y, sh⟩ := param_cases (canonCtx (.node "ItemImpl" [] [a, d, u, .node "Generics" [] [lt0, .node "List" [] ps, gt0, wc], tr, sf, items])) p (hps p hp)
  refine ⟨k, y, ?_, sh.ident, ?_, ?_⟩
  · rw [sh.sel k]; simp
  · rw [← canonCtx_rho_cr]; exact (sh.selF k).trans (if_pos rfl)
  · rw [← canonCtx_rho_cr]; exact sh.identF

/-! ### The computed renaming satisfies the side condition of alpha-invariance -/

/-- the no-capture clause of `alphaOK` is the no-capture part of `rsOK` -/
theorem alOK_of_rsOK_cr (c : CCtx) : ∀ t : T, rsOK c t = true → alOK c t = true := by
  apply T.ind
  · intro n h; rw [rsOK] at h; rw [alOK]; exact h
  · intro n h; rw [rsOK] at h; rw [alOK]; exact h
  · intro k as ks ih hok
    rcases node_shape k ks with h | ⟨x, rfl, rfl⟩ | ⟨q, p, rfl, rfl⟩ | ⟨a, q, p, rfl, rfl⟩ | h
    · rcases h with rfl | rfl <;> rw [alOK]
    · rw [rsOK] at hok; rw [alOK]; exact hok
    · obtain ⟨hq, hp, hx⟩ := rsOK_typePath_inv hok
      rw [alOK, ih q (by simp) hq, ih p (by simp) hp]
      cases hf : firstSegIdent p with
      | none => rfl
      | some x => simpa using (hx x hf).1
    · obtain ⟨ha, hq, hp, hx⟩ := rsOK_exprPath_inv hok
      rw [alOK, ih a (by simp) ha, ih q (by simp) hq, ih p (by simp) hp]
      cases hf : firstSegIdent p with
      | none => rfl
      | some x => simpa using (hx x hf).1
    · rw [rsOK_of_other c as h] at hok
      rw [alOK_of_other c as h, alOKL_iff]
      intro t ht
      exact ih t ht (rsOKL_iff.1 hok t ht)

theorem nodup_map_on_cr {α β : Type} {f : α → β} {l : List α} (hn : l.Nodup)
    (hinj : ∀ a ∈ l, ∀ b ∈ l, f a = f b → a = b) : (l.map f).Nodup := by
  unfold List.Nodup
  rw [List.pairwise_map]
  exact List.Pairwise.imp_of_mem (fun ha hb hab e => hab (hinj _ ha _ hb e)) hn

theorem alphaCtx_self_cr (item : T) : alphaCtx (indexImpl item).renaming item = canonCtx item := rfl

/-- **`canonWF` gives `alphaOK` for the computed renaming**: the canonical renaming is an admissible consistent respelling
    of the block -/
theorem canonWF_alphaOK_cr (item : T) (h : canonWF item = true) : alphaOK (indexImpl item).renaming item = true := by
  simp only [canonWF, Bool.and_eq_true] at h
  obtain ⟨⟨⟨_, hd⟩, hf⟩, hok⟩ := h
  have st := canon_stat item hd hf
  have hnd : (canonCtx item).dLt.Nodup ∧ ((canonCtx item).dTy ++ (canonCtx item).dCo).Nodup := by
    simpa [namesDistinct] using hd
  have hnd2 := List.nodup_append.1 hnd.2
  have hinv : IxInv (indexImpl item) := indexImpl_inv item hnd.1 hnd2.1 hnd2.2.1
  have hkey : ∀ k x, x ∈ ((canonCtx item).m k).map Prod.fst → x ∈ (canonCtx item).D k := by
    intro k x hx
    rw [← canonCtx_mem_D, names_eq]
    refine List.mem_append_left _ ?_
    rw [canonCtx_m, List.map_map] at hx
    exact hx
  unfold alphaOK
  rw [alphaCtx_self_cr]
  simp only [Bool.and_eq_true]
  refine ⟨⟨⟨?_, ?_⟩, ?_⟩, alOK_of_rsOK_cr _ item hok⟩
  · -- domOK
    simp only [domOK, Bool.and_eq_true, List.all_eq_true, List.contains_iff_mem]
    exact ⟨⟨fun x hx => hkey .lt x hx, fun x hx => hkey .ty x hx⟩, fun x hx => hkey .co x hx⟩
  · -- injOK
    simp only [injOK, Bool.and_eq_true, decide_eq_true_eq]
    refine ⟨nodup_map_on_cr hnd.1 (fun a ha b hb e => st.inj .lt .lt rfl a b ha hb e), ?_⟩
    rw [List.nodup_append]
    refine ⟨nodup_map_on_cr hnd2.1 (fun a ha b hb e => st.inj .ty .ty rfl a b ha hb e),
      nodup_map_on_cr hnd2.2.1 (fun a ha b hb e => st.inj .co .co rfl a b ha hb e), ?_⟩
    intro a' ha' b' hb' e
    obtain ⟨a, ha, rfl⟩ := List.mem_map.1 ha'
    obtain ⟨b, hb, rfl⟩ := List.mem_map.1 hb'
    have := st.inj .ty .co rfl a b ha hb e
    subst this
    cases st.disj .ty .co rfl a ha hb
  · -- deadFixed
    have hun : ∀ k n, n ∈ (indexImpl item).un k → rn ((canonCtx item).m k) n = n := by
      intro k n hn
      have hnn : ((indexImpl item).names k).Nodup := by
        cases k
        · exact hinv.2.1
        · exact hinv.2.2.1
        · exact hinv.2.2.2
      rw [names_eq, List.nodup_append] at hnn
      have : rlookup ((canonCtx item).m k) n = none := by
        apply rlookup_none_of_notin
        rw [canonCtx_m, List.map_map]
        intro hk
        exact hnn.2.2 n hk n hn rfl
      unfold rn
      rw [this]
      rfl
    simp only [deadFixed, Bool.and_eq_true, List.all_eq_true, beq_iff_eq]
    exact ⟨⟨fun n hn => hun .lt n hn, fun n hn => hun .ty n hn⟩, fun n hn => hun .co n hn⟩

/-! ### The decoder-form renaming is the renaming `arT` on form-preserving maps -/

theorem decNF_typePath_cr (as : List String) (q p : T) :
    decNF_cr (.node "Type::Path" as [q, p]) = (decNF_cr q && decNF_cr p &&
      (match firstSegIdent p with | some x => !(lonePath_cr q p && reserved_cr x) | none => true)) := by
  rw [decNF_cr]; cases firstSegIdent p <;> rfl
theorem decNF_exprPath_cr (as : List String) (a q p : T) :
    decNF_cr (.node "Expr::Path" as [a, q, p]) = (decNF_cr a && decNF_cr q && decNF_cr p &&
      (match firstSegIdent p with | some x => !(lonePath_cr q p && reserved_cr x) | none => true)) := by
  rw [decNF_cr]; cases firstSegIdent p <;> rfl

theorem decNF_of_other_cr {k : String} (as : List String) {ks : List T} (h : NodeOther k ks) :
    decNF_cr (.node k as ks) = decNFL_cr ks := by
  obtain ⟨h1, h2, h3, h4, h5⟩ := h
  unfold decNF_cr
  split
  · next heq => cases heq
  · next heq => cases heq
  · next heq => cases heq; exact absurd rfl h1
  · next heq => cases heq; exact absurd rfl h2
  · next x heq => cases heq; exact absurd ⟨rfl, rfl⟩ (h3 x)
  · next q p heq => cases heq; exact absurd ⟨rfl, rfl⟩ (h4 q p)
  · next a q p heq => cases heq; exact absurd ⟨rfl, rfl⟩ (h5 a q p)
  · next heq => cases heq; rfl

theorem decNF_node_cr {k : String} (as : List String) (ks : List T) (h1 : k ≠ "Ign")
    (h2 : k ≠ "Eq") (h3 : k ≠ "Lifetime") (h4 : k ≠ "Type::Path") (h5 : k ≠ "Expr::Path") :
    decNF_cr (.node k as ks) = decNFL_cr ks :=
  decNF_of_other_cr as (nodeOther_of_ne ks h1 h2 h3 h4 h5)
theorem decNFL_nil_cr : decNFL_cr [] = true := by rw [decNFL_cr]
theorem decNFL_cons_cr (t : T) (ts : List T) : decNFL_cr (t :: ts) = (decNF_cr t && decNFL_cr ts) := by rw [decNFL_cr]
theorem decNFL_iff_cr : ∀ {ks : List T}, decNFL_cr ks = true ↔ ∀ t ∈ ks, decNF_cr t = true
  | [] => by simp [decNFL_cr]
  | t :: ts => by simp [decNFL_cr, decNFL_iff_cr (ks := ts)]

theorem formOK_ty_cr {π : Renaming} (h : formOK π = true) {x m : String} (hl : rlookup π.ty x = some m) :
    reserved_cr m = reserved_cr x := by
  simp only [formOK, List.all_eq_true, List.mem_append, beq_iff_eq] at h
  exact (h (x, m) (Or.inl (rlookup_some_mem hl))).symm
theorem formOK_ex_cr {π : Renaming} (h : formOK π = true) {x m : String}
    (hl : (rlookup π.ty x).or (rlookup π.co x) = some m) : reserved_cr m = reserved_cr x := by
  simp only [formOK, List.all_eq_true, List.mem_append, beq_iff_eq] at h
  cases h1 : rlookup π.ty x with
  | some m' => rw [h1] at hl; cases hl; exact (h (x, m) (Or.inl (rlookup_some_mem h1))).symm
  | none =>
    rw [h1, Option.none_or] at hl
    exact (h (x, m) (Or.inr (rlookup_some_mem hl))).symm

theorem acL_eq_arL_of_cr {π : Renaming} : ∀ (ks : List T),
    (∀ t ∈ ks, decNF_cr t = true → acT_cr π t = arT π t) → decNFL_cr ks = true → acL_cr π ks = arL π ks
  | [], _, _ => by rw [acL_nil_cr, arL_nil]
  | t :: ts, ih, h => by
      have h' := decNFL_iff_cr.1 h
      rw [acL_cons_cr, arL_cons, ih t (by simp) (h' t (by simp)),
        acL_eq_arL_of_cr ts (fun t' ht' => ih t' (List.mem_cons_of_mem _ ht'))
          (decNFL_iff_cr.2 (fun t' ht' => h' t' (List.mem_cons_of_mem _ ht')))]

/-- on a tree in decoder normal form, a renaming that relates reserved names to reserved names and ordinary names to
    ordinary names never changes the form of a node: the decoder-form renaming is `arT` -/
theorem acT_eq_arT_cr (π : Renaming) (hf : formOK π = true) : ∀ t : T, decNF_cr t = true → acT_cr π t = arT π t := by
  apply T.ind
  · intro n h
    rw [decNF_cr] at h
    rw [acT_tparam_cr, arT_tparam]
    unfold rn
    cases hl : rlookup π.ty n with
    | some m => simp only [Option.getD_some]; exact mkTypeIdent_reserved_cr (by rw [formOK_ty_cr hf hl, h])
    | none => rfl
  · intro n h
    rw [decNF_cr] at h
    rw [acT_eparam_cr, arT_eparam]
    unfold exW
    cases hl : (rlookup π.ty n).or (rlookup π.co n) with
    | some m => simp only [Option.getD_some]; exact mkExprIdent_reserved_cr (by rw [formOK_ex_cr hf hl, h])
    | none => rfl
  · intro k as ks ih hok
    rcases node_shape k ks with h | ⟨x, rfl, rfl⟩ | ⟨q, p, rfl, rfl⟩ | ⟨a, q, p, rfl, rfl⟩ | h
    · rcases h with rfl | rfl
      · rw [acT_ign_cr, arT_ign]
      · rw [acT_eq_cr, arT_eq]
    · rw [acT_lifetime_cr, arT_lifetime]
    · rw [decNF_typePath_cr] at hok
      simp only [Bool.and_eq_true] at hok
      obtain ⟨⟨hq, hp⟩, hh⟩ := hok
      have hc : convTy_cr π q p = none := by
        unfold convTy_cr
        cases hfs : firstSegIdent p with
        | none => rfl
        | some x =>
          rw [hfs] at hh
          simp only
          cases hl : rlookup π.ty x with
          | none => rfl
          | some m =>
            simp only
            rw [formOK_ty_cr hf hl, if_neg]
            intro hc
            simp only [Bool.and_eq_true] at hc
            simp only [hc.1, hc.2] at hh
            cases hh
      rw [acT_typePath_cr, arT_typePath, hc, ih q (by simp) hq, ih p (by simp) hp]
    · rw [decNF_exprPath_cr] at hok
      simp only [Bool.and_eq_true] at hok
      obtain ⟨⟨⟨ha, hq⟩, hp⟩, hh⟩ := hok
      have hc : convEx_cr π q p = none := by
        unfold convEx_cr
        cases hfs : firstSegIdent p with
        | none => rfl
        | some x =>
          rw [hfs] at hh
          simp only
          cases hl : (rlookup π.ty x).or (rlookup π.co x) with
          | none => rfl
          | some m =>
            simp only
            rw [formOK_ex_cr hf hl, if_neg]
            intro hc
            simp only [Bool.and_eq_true] at hc
            simp only [hc.1, hc.2] at hh
            cases hh
      rw [acT_exprPath_cr, arT_exprPath, hc, ih a (by simp) ha, ih q (by simp) hq, ih p (by simp) hp]
    · rw [decNF_of_other_cr as h] at hok
      rw [acT_of_other_cr π as h, arT_of_other π as h, acL_eq_arL_of_cr ks ih hok]

theorem decNF_identLeaf_cr (x : String) : decNF_cr (.node "Ident" [x] []) = true := by
  rw [decNF_node_cr _ _ (by decide) (by decide) (by decide) (by decide) (by decide), decNFL_nil_cr]

theorem renameDecl_decNF_cr (r' : Renaming) (p : T) (h : decNF_cr p = true) : decNF_cr (renameDecl r' p) = true := by
  unfold renameDecl
  split
  · next a x rest =>
    rw [decNF_node_cr _ _ (by decide) (by decide) (by decide) (by decide) (by decide), decNFL_cons_cr, decNFL_nil_cr,
      decNF_node_cr _ _ (by decide) (by decide) (by decide) (by decide) (by decide), decNFL_cons_cr, decNFL_cons_cr,
      decNF_identLeaf_cr] at h ⊢
    exact h
  · next a x rest =>
    rw [decNF_node_cr _ _ (by decide) (by decide) (by decide) (by decide) (by decide), decNFL_cons_cr, decNFL_nil_cr,
      decNF_node_cr _ _ (by decide) (by decide) (by decide) (by decide) (by decide), decNFL_cons_cr, decNFL_cons_cr,
      decNF_identLeaf_cr] at h ⊢
    exact h
  · exact h

theorem renameGenerics_decNF_cr (r' : Renaming) (g : T) (h : decNF_cr g = true) : decNF_cr (renameGenerics r' g) = true := by
  unfold renameGenerics
  split
  · next lt0 ps gt0 wc =>
    rw [decNF_node_cr _ _ (by decide) (by decide) (by decide) (by decide) (by decide), decNFL_cons_cr, decNFL_cons_cr,
      decNF_node_cr _ _ (by decide) (by decide) (by decide) (by decide) (by decide)] at h ⊢
    simp only [Bool.and_eq_true] at h ⊢
    refine ⟨h.1, ?_, h.2.2⟩
    rw [decNFL_iff_cr]
    intro t ht
    obtain ⟨p, hp, rfl⟩ := List.mem_map.1 ht
    exact renameDecl_decNF_cr r' p (decNFL_iff_cr.1 h.2.1 p hp)
  · exact h

theorem renameImplDecls_decNF_cr (r' : Renaming) (item : T) (h : decNF_cr item = true) :
    decNF_cr (renameImplDecls r' item) = true := by
  unfold renameImplDecls
  split
  · next a d u g tr sf items =>
    rw [decNF_node_cr _ _ (by decide) (by decide) (by decide) (by decide) (by decide)] at h ⊢
    simp only [decNFL_cons_cr, Bool.and_eq_true] at h ⊢
    exact ⟨h.1, h.2.1, h.2.2.1, renameGenerics_decNF_cr r' g h.2.2.2.1, h.2.2.2.2⟩
  · exact h

/-- on form-preserving maps and blocks in decoder normal form the two textual renamings coincide -/
theorem alphaRenameC_eq_cr (π : Renaming) (item : T) (hf : formOK π = true) (hn : decNF_cr item = true) :
    alphaRenameC_cr π item = alphaRename π item :=
  acT_eq_arT_cr π hf _ (renameImplDecls_decNF_cr π item hn)

/-! ### Nothing that is not an occurrence is rewritten (frame property) -/

/-- no identifier in parameter position is renamed by `r` (per position: lifetimes by the lifetime map, type position by
    the type map, expression position by the type and const maps) -/
def untouchedP_cr (r : Renaming) : NP :=
  ⟨fun n => (rlookup r.lt n).isNone, fun n => (rlookup r.ty n).isNone,
   fun n => (rlookup r.ty n).isNone && (rlookup r.co n).isNone⟩

theorem rsL_untouched_of_cr {r : Renaming} : ∀ (ks : List T),
    (∀ t ∈ ks, alP (untouchedP_cr r) t = true → rsT r t = t) → alPL (untouchedP_cr r) ks = true → rsL r ks = ks
  | [], _, _ => by rw [rsL_nil]
  | t :: ts, ih, h => by
      have h' := alPL_iff.1 h
      rw [rsL_cons, ih t (by simp) (h' t (by simp)),
        rsL_untouched_of_cr ts (fun t' ht' => ih t' (List.mem_cons_of_mem _ ht'))
          (alPL_iff.2 (fun t' ht' => h' t' (List.mem_cons_of_mem _ ht')))]

/-- **frame property of the resolver**: a tree in which no identifier in parameter position is a renamed parameter is
    left exactly as it is — whatever else it contains (trait names, path segments, field and method names, lifetimes,
    literals that merely share a spelling with a parameter of ANOTHER position) -/
theorem rsT_untouched_cr (r : Renaming) : ∀ t : T, alP (untouchedP_cr r) t = true → rsT r t = t := by
  apply T.ind
  · intro n h
    rw [alP] at h
    have h' : rlookup r.ty n = none := by simpa [untouchedP_cr] using h
    rw [rsT_tparam, h']; rfl
  · intro n h
    rw [alP] at h
    have h' : rlookup r.ty n = none ∧ rlookup r.co n = none := by simpa [untouchedP_cr] using h
    rw [rsT_eparam, h'.1, h'.2]; rfl
  · intro k as ks ih h
    rcases node_shape k ks with hh | ⟨x, rfl, rfl⟩ | ⟨q, p, rfl, rfl⟩ | ⟨a, q, p, rfl, rfl⟩ | hh
    · rcases hh with rfl | rfl
      · exact rsT_ign r as ks
      · exact rsT_eq r as ks
    · rw [alP] at h
      have h' : rlookup r.lt x = none := by simpa [untouchedP_cr] using h
      rw [rsT_lifetime, h']; rfl
    · rw [alP_typePath_iff] at h
      obtain ⟨hq, hp, hx⟩ := h
      rw [rsT_typePath, ih q (by simp) hq, ih p (by simp) hp]
      cases hf : firstSegIdent p with
      | none => exact rsTypePath_none_cr hf
      | some x => exact rsTypePath_unrenamed_cr hf (by simpa [untouchedP_cr] using hx x hf)
    · rw [alP_exprPath_iff] at h
      obtain ⟨ha, hq, hp, hx⟩ := h
      rw [rsT_exprPath, ih a (by simp) ha, ih q (by simp) hq, ih p (by simp) hp]
      cases hf : firstSegIdent p with
      | none => exact rsExprPath_none_cr hf
      | some x =>
        have h' : rlookup r.ty x = none ∧ rlookup r.co x = none := by simpa [untouchedP_cr] using hx x hf
        exact rsExprPath_unrenamed_cr hf h'.1 h'.2
    · rw [alP_of_other _ as hh] at h
      rw [rsT_of_other r as hh, rsL_untouched_of_cr ks ih h]

end DI
