/-
  Generated identifiers are injective in their index (C08, C13): `toString : Nat → String` is injective
  (`Nat.repr_injective`, Std) and string append cancels on the left. Proof file only (imports Std).
-/
import Std.Data.String.ToNat
namespace DI

theorem toString_nat_inj {i j : Nat} (h : toString i = toString j) : i = j := Nat.repr_injective h

/-- code: helper_trait.rs:140-142 `format_ident!("_{}{}", ident, idx)` -/
def genIdent (name : String) (idx : Nat) : String := "_" ++ name ++ toString idx

theorem genIdent_inj (name : String) {i j : Nat} (h : genIdent name i = genIdent name j) : i = j := by
  unfold genIdent at h
  exact toString_nat_inj ((String.append_right_inj _).1 h)

theorem genIdent_ne (name : String) (i : Nat) : genIdent name i ≠ name := by
  intro h
  have := congrArg String.length h
  simp only [genIdent, String.length_append] at this
  have h1 : ("_" : String).length = 1 := by decide
  omega

end DI
