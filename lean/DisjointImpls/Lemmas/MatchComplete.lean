/-
  Completeness of the matcher (`Props/C09.lean`, `C09_complete_partial`): on an executable fragment of
  patterns `a`, whenever `erase (inst θ a) = erase b` for a presentation-free `b`, `sup a b` answers `yes`
  with a substitution made of the values θ induces. Core-only.
-/
import DisjointImpls.Lemmas.MatchSound
namespace DI

/-! ### Forward computation of `supS` on nodes -/



theorem supS_wrapper {k : String} (as : List String) (ks : List T) (b : T) (hw : isWrapper k = true) :
    supS (.node k as ks) b = supLast ks b := by
  unfold supS; rw [if_pos hw]

theorem supS_ign (as : List String) (ks : List T) (b : T) : supS (.node "Ign" as ks) b = .yes [] false := by
  unfold supS; rw [if_neg (by decide), if_pos (by decide)]

theorem supS_ignL (as : List String) (ks : List T) (b : T) :
    supS (.node "IgnL" as ks) b = .yes [] (decide (T.node "IgnL" as ks ≠ b)) := by
  unfold supS; rw [if_neg (by decide), if_neg (by decide), if_pos (by decide)]

theorem supS_wild (as as' : List String) (ks ks' : List T) :
    supS (.node "Pat::Wild" as ks) (.node "Pat::Wild" as' ks') = supL ks ks' [] false := by
  unfold supS
  rw [if_neg (by decide), if_neg (by decide), if_neg (by decide)]
  dsimp only
  rw [if_pos (by decide), if_pos (by decide)]

theorem supS_gaConst (n : String) (e : T) :
    supS (.node "GenericArgument::Type" [] [.tparam n]) (.node "GenericArgument::Const" [] [e]) =
      .yes [(n, .ex e)] false := by
  unfold supS
  rw [if_neg (by decide), if_neg (by decide), if_neg (by decide)]
  dsimp only
  rw [if_neg (by decide), if_neg (by decide), if_pos (by decide)]
  simp

theorem supS_lifetime (x : String) :
    ∃ l, supS (.node "Lifetime" [] [.node "Ident" [x] []]) (.node "Lifetime" [] [.node "Ident" [x] []]) = .yes [] l := by
  unfold supS
  rw [if_neg (by decide), if_neg (by decide), if_neg (by decide)]
  dsimp only
  rw [if_neg (by decide), if_neg (by decide), if_neg (by decide), if_neg (by decide), if_pos (by decide)]
  simp only [lifetimeIdent]
  by_cases hx : (x == "_" || x == "_") = true
  · rw [if_pos hx]; exact ⟨_, rfl⟩
  · rw [if_neg hx, if_pos (by simp)]; exact ⟨_, rfl⟩

/-- kinds with an arm of their own in `supS` (`Path` is not listed: its arm falls through to the default rule) -/
def specialKind (k : String) : Bool :=
  isWrapper k || k == "Ign" || k == "IgnL" || k == "Pat::Wild" || k == "Stmt::Item" || panicsOnSameKind k ||
  k == "Lifetime" || k == "QSelf" || k == "Expr::Binary" || k == "OptWild"

theorem specialKind_false {k : String} (h : specialKind k = false) :
    isWrapper k = false ∧ (k == "Ign") = false ∧ (k == "IgnL") = false ∧ (k == "Pat::Wild") = false ∧
    (k == "Stmt::Item") = false ∧ panicsOnSameKind k = false ∧ (k == "Lifetime") = false ∧
    (k == "QSelf") = false ∧ (k == "Expr::Binary") = false ∧ (k == "OptWild") = false := by
  simp only [specialKind, Bool.or_eq_false_iff] at h
  obtain ⟨⟨⟨⟨⟨⟨⟨⟨⟨h1, h2⟩, h3⟩, h4⟩, h5⟩, h6⟩, h7⟩, h8⟩, h9⟩, h10⟩ := h
  exact ⟨h1, h2, h3, h4, h5, h6, h7, h8, h9, h10⟩

theorem supS_ordinary {k : String} (as as' : List String) (ks ks' : List T) (hk : specialKind k = false) :
    (∃ n, pathParam PARAM_PREFIX (.node k as ks) = some n ∧
      supS (.node k as ks) (.node k as' ks') = .yes [(n, .identity)] false) ∨
    (pathParam PARAM_PREFIX (.node k as ks) ≠ pathParam PARAM_PREFIX (.node k as' ks') ∨
        pathParam PARAM_PREFIX (.node k as ks) = none) ∧
      supS (.node k as ks) (.node k as' ks') = if (as == as') = true then supL ks ks' [] false else .no := by
  obtain ⟨h1, h2, h3, h4, h5, h6, h7, h8, h9, h10⟩ := specialKind_false hk
  unfold supS
  rw [if_neg (by simp [h1]), if_neg (by simp [h2]), if_neg (by simp [h3])]
  dsimp only
  rw [if_neg (by simp [h4]), if_neg (by simp [h5]), if_neg (by simp), if_neg (by simp [h6]),
    if_neg (by simp [h7])]
  by_cases hp : (k == "Path" && (pathParam PARAM_PREFIX (.node k as ks)).isSome &&
          pathParam PARAM_PREFIX (.node k as ks) == pathParam PARAM_PREFIX (.node k as' ks')) = true
  · rw [if_pos hp]
    simp only [Bool.and_eq_true] at hp
    cases hpp : pathParam PARAM_PREFIX (.node k as ks) with
    | none => rw [hpp] at hp; simp at hp
    | some n => exact Or.inl ⟨n, rfl, rfl⟩
  · rw [if_neg hp, if_neg (by simp [h8]), if_neg (by simp [h9]), if_neg (by simp [h10])]
    refine Or.inr ⟨?_, rfl⟩
    by_cases hpp : pathParam PARAM_PREFIX (.node k as ks) = none
    · exact Or.inr hpp
    · left
      intro heq
      apply hp
      have hk : k = "Path" := by
        cases hq : pathParam PARAM_PREFIX (.node k as ks) with
        | none => exact absurd hq hpp
        | some n => have := pathParam_inv hq; injection this
      have hs : (pathParam PARAM_PREFIX (T.node k as ks)).isSome = true := by
        cases hq : pathParam PARAM_PREFIX (.node k as ks) with
        | none => exact absurd hq hpp
        | some n => rfl
      subst hk
      simp only [beq_self_eq_true, Bool.true_and, Bool.and_eq_true, beq_iff_eq]
      exact ⟨hs, heq⟩

theorem supS_optWild (as as' : List String) (x y : T) :
    supS (.node "OptWild" as [x]) (.node "OptWild" as' [y]) =
      if (isNoneNode x || isNoneNode y) = true then .yes [] (decide (x ≠ y)) else supS x (stripTop y) := by
  conv => lhs; unfold supS
  rw [if_neg (by decide), if_neg (by decide), if_neg (by decide)]
  dsimp only
  rw [if_neg (by decide), if_neg (by decide), if_neg (by decide), if_neg (by decide), if_neg (by decide),
    if_neg (by simp), if_neg (by decide), if_neg (by decide), if_pos (by decide)]


/-! ### Presentation-free trees -/

mutual
/-- no transparent wrapper anywhere, every `Ign` child is blank: `erase` and `stripTop` are the identity -/
def plain : T → Bool
  | .tparam _ => true
  | .eparam _ => true
  | .node k as ks => if k == "Ign" then as.isEmpty && ks.isEmpty else !isWrapper k && plainL ks
def plainL : List T → Bool
  | [] => true
  | t :: ts => plain t && plainL ts
end

theorem plainL_iff : ∀ {ks : List T}, plainL ks = true ↔ ∀ t ∈ ks, plain t = true
  | [] => by simp [plainL]
  | t :: ts => by simp [plainL, plainL_iff (ks := ts)]

theorem plain_node_inv {k : String} {as : List String} {ks : List T} (h : plain (.node k as ks) = true)
    (hi : k ≠ "Ign") : isWrapper k = false ∧ plainL ks = true := by
  rw [plain] at h
  simpa [hi] using h

theorem eraseL_eq_self : ∀ {ks : List T}, (∀ t ∈ ks, erase t = t) → eraseL ks = ks
  | [], _ => by rw [eraseL]
  | t :: ts, h => by
      rw [eraseL, h t (by simp), eraseL_eq_self (fun t ht => h t (List.mem_cons_of_mem _ ht))]

theorem plain_erase : ∀ b : T, plain b = true → erase b = b := by
  apply T.ind
  · intro n _; rw [erase]
  · intro n _; rw [erase]
  · intro k as ks ih h
    by_cases hi : k = "Ign"
    · subst hi
      rw [plain] at h
      simp only [beq_self_eq_true, if_true, Bool.and_eq_true, List.isEmpty_iff] at h
      rw [erase_ign, h.1, h.2]; rfl
    · obtain ⟨hw, hk⟩ := plain_node_inv h hi
      rw [erase_plain _ _ hw hi, eraseL_eq_self (fun t ht => ih t ht (plainL_iff.1 hk t ht))]

theorem plain_stripTop {b : T} (h : plain b = true) : stripTop b = b := by
  cases b with
  | tparam n => rw [stripTop]
  | eparam n => rw [stripTop]
  | node k as ks =>
    rw [stripTop]
    by_cases hi : k = "Ign"
    · subst hi; rw [if_neg (by decide)]
    · rw [if_neg (by simp [(plain_node_inv h hi).1])]

theorem plainL_eraseL_eq {ks : List T} (h : plainL ks = true) : eraseL ks = ks :=
  eraseL_eq_self (fun t ht => plain_erase t (plainL_iff.1 h t ht))

/-! ### The values θ induces on the parameters of `a` -/

/-- the value the matcher must report for a type parameter `n` in type position -/
def valT (θ : Subst) (n : String) : Val :=
  let b := erase (inst θ (.tparam n))
  if b = .tparam n then .identity else .ty b

def valE (θ : Subst) (n : String) : Val :=
  let b := erase (inst θ (.eparam n))
  if b = .eparam n then .identity else .ex b

def gaTparam (k : String) (as : List String) (ks : List T) : Option String :=
  if k == "GenericArgument::Type" && as.isEmpty then
    (match ks with
     | [.tparam n] => some n
     | _ => none)
  else none

/-- `some (n, e)` on `GenericArgument::Type [] [tparam n]` when θ binds `n` to the const value `e` -/
def gaEx (θ : Subst) (k : String) (as : List String) (ks : List T) : Option (String × T) :=
  match gaTparam k as ks with
  | some n => (match lookup θ n with | some (.ex e) => some (n, e) | _ => none)
  | none => none

mutual
/-- one entry per parameter occurrence the matcher can see, with the value θ induces there -/
def occVals (θ : Subst) : T → List (String × Val)
  | .tparam n => [(n, valT θ n)]
  | .eparam n => [(n, valE θ n)]
  | .node k as ks =>
      if isIgnored k then []
      else match pathParam PARAM_PREFIX (.node k as ks) with
        | some n => [(n, .identity)]
        | none =>
          match gaEx θ k as ks with
          | some (n, e) => [(n, .ex (erase e))]
          | none => occValsL θ ks
def occValsL (θ : Subst) : List T → List (String × Val)
  | [] => []
  | t :: ts => occVals θ t ++ occValsL θ ts
end

def functionalB (l : List (String × Val)) : Bool :=
  l.all (fun p => l.all (fun q => p.1 != q.1 || p.2 == q.2))

/-- θ induces one value per parameter name on `a` (it does not use one name for a type and for an expression
    value, nor move a parameter that also occurs as a trait path) -/
def coherent (θ : Subst) (a : T) : Bool := functionalB (occVals θ a)

def Functional (F : String × Val → Prop) : Prop := ∀ n v v', F (n, v) → F (n, v') → v = v'

theorem functional_of_functionalB {l : List (String × Val)} (h : functionalB l = true) :
    Functional (· ∈ l) := by
  intro n v v' h1 h2
  simp only [functionalB, List.all_eq_true] at h
  have := h _ h1 _ h2
  simpa using this

/-- `QSelf [ty, …]`: θ moves no parameter of `ty`; the remaining children are compared verbatim -/
def qselfOK (θ : Subst) (ks : List T) : Bool :=
  match ks with
  | ty :: rest => allIdentity (occVals θ ty) && closedL rest && plainL rest
  | [] => false

/-- `Expr::Binary [op, left, right, attrs]`: the operator is compared verbatim -/
def binaryOK (ks : List T) : Bool :=
  match ks with
  | [op, _, _, _] => closed op && plain op
  | _ => false

mutual
/-- the fragment of patterns for which completeness is proved: no panicking kind, non-empty wrappers,
    well-shaped `Lifetime` / `OptWild` / `QSelf` / `Expr::Binary` nodes -/
def frag (θ : Subst) : T → Bool
  | .tparam _ => true
  | .eparam _ => true
  | .node k as ks =>
      if isWrapper k then !ks.isEmpty && fragL θ ks
      else if k == "Ign" || k == "IgnL" then true
      else if k == "Stmt::Item" || panicsOnSameKind k then false
      else if k == "QSelf" then fragL θ ks && qselfOK θ ks
      else if k == "Expr::Binary" then fragL θ ks && binaryOK ks
      else if k == "Lifetime" then (lifetimeIdent (.node k as ks)).isSome
      else if k == "OptWild" then ks.length == 1 && fragL θ ks
      else fragL θ ks
def fragL (θ : Subst) : List T → Bool
  | [] => true
  | t :: ts => frag θ t && fragL θ ts
end

theorem fragL_iff {θ : Subst} : ∀ {ks : List T}, fragL θ ks = true ↔ ∀ t ∈ ks, frag θ t = true
  | [] => by simp [fragL]
  | t :: ts => by simp [fragL, fragL_iff (ks := ts)]

theorem mem_occValsL {θ : Subst} {p : String × Val} : ∀ {ks : List T},
    p ∈ occValsL θ ks ↔ ∃ t ∈ ks, p ∈ occVals θ t
  | [] => by simp [occValsL]
  | t :: ts => by simp [occValsL, mem_occValsL (ks := ts)]

/-! ### Merging never conflicts inside a functional set of entries -/

theorem merge_ok {F : String × Val → Prop} (hF : Functional F) : ∀ (σ acc : Subst),
    (∀ p ∈ acc, F p) → (∀ p ∈ σ, F p) → ∃ acc', merge acc σ = some acc'
  | [], acc, _, _ => ⟨acc, by rw [merge]⟩
  | (n, v) :: rest, acc, ha, hs => by
      rw [merge]
      cases hl : lookup acc n with
      | some v' =>
        have : v = v' := hF n v v' (hs _ (by simp)) (ha _ (lookup_mem acc n v' hl))
        simp only [this, if_true]
        exact merge_ok hF rest acc ha (fun p hp => hs p (List.mem_cons_of_mem _ hp))
      | none =>
        simp only
        apply merge_ok hF rest (acc ++ [(n, v)])
        · intro p hp
          rcases List.mem_append.1 hp with hp | hp
          · exact ha p hp
          · simp only [List.mem_singleton] at hp; subst hp; exact hs _ (by simp)
        · exact fun p hp => hs p (List.mem_cons_of_mem _ hp)


theorem supS_tparam_fwd (n : String) (b : T) :
    supS (.tparam n) b = .yes [(n, if b = .tparam n then .identity else .ty b)] false := by
  unfold supS; split <;> rfl
theorem supS_eparam_fwd (n : String) (b : T) :
    supS (.eparam n) b = .yes [(n, if b = .eparam n then .identity else .ex b)] false := by
  unfold supS; split <;> rfl

theorem gaTparam_iff {k : String} {as : List String} {ks : List T} {n : String} :
    gaTparam k as ks = some n ↔ (k = "GenericArgument::Type" ∧ as = [] ∧ ks = [.tparam n]) := by
  unfold gaTparam
  constructor
  · intro h
    split at h
    · next hc =>
      simp only [Bool.and_eq_true, beq_iff_eq, List.isEmpty_iff] at hc
      split at h
      · cases h; exact ⟨hc.1, hc.2, rfl⟩
      · cases h
    · cases h
  · rintro ⟨rfl, rfl, rfl⟩
    simp

theorem gaEx_some {θ : Subst} {k : String} {as : List String} {ks : List T} {n : String} {e : T}
    (h : gaEx θ k as ks = some (n, e)) :
    k = "GenericArgument::Type" ∧ as = [] ∧ ks = [.tparam n] ∧ lookup θ n = some (.ex e) := by
  unfold gaEx at h
  split at h
  · next m hm =>
    split at h
    · next e' he => cases h; obtain ⟨h1, h2, h3⟩ := gaTparam_iff.1 hm; exact ⟨h1, h2, h3, he⟩
    · cases h
  · cases h

/-- outside the const-argument case `inst` is homomorphic on a node -/
theorem inst_node_of_gaEx_none {θ : Subst} {k : String} {as : List String} {ks : List T}
    (h : gaEx θ k as ks = none) : inst θ (.node k as ks) = .node k as (instL θ ks) := by
  by_cases hs : Special k as ks
  · obtain ⟨n, rfl, rfl, rfl⟩ := hs
    have hg : gaTparam "GenericArgument::Type" [] [T.tparam n] = some n := gaTparam_iff.2 ⟨rfl, rfl, rfl⟩
    rw [inst_ga_other, instL, instL]
    intro e he
    simp [gaEx, hg, he] at h
  · exact inst_node_default θ hs

theorem occVals_node {θ : Subst} {k : String} {as : List String} {ks : List T} (hi : isIgnored k = false)
    (hp : pathParam PARAM_PREFIX (.node k as ks) = none) (hg : gaEx θ k as ks = none) :
    occVals θ (.node k as ks) = occValsL θ ks := by
  rw [occVals]; simp [hi, hp, hg]

theorem pathParam_kind {k : String} {as : List String} {ks : List T} (h : k ≠ "Path") :
    pathParam PARAM_PREFIX (.node k as ks) = none := by
  cases hq : pathParam PARAM_PREFIX (.node k as ks) with
  | none => rfl
  | some n => have := pathParam_inv hq; injection this with h1; exact absurd h1 h

theorem gaEx_kind {θ : Subst} {k : String} {as : List String} {ks : List T} (h : k ≠ "GenericArgument::Type") :
    gaEx θ k as ks = none := by
  cases hq : gaEx θ k as ks with
  | none => rfl
  | some p => obtain ⟨n, e⟩ := p; exact absurd (gaEx_some hq).1 h


/-- the statement carried through the induction -/
def CompP (θ : Subst) (t : T) : Prop :=
  frag θ t = true → ∀ (F : String × Val → Prop), Functional F → (∀ p ∈ occVals θ t, F p) →
    ∀ b, plain b = true → erase (inst θ t) = b →
      ∃ σ l, supS t b = .yes σ l ∧ ∀ p ∈ σ, p ∈ occVals θ t

theorem supL_complete {θ : Subst} {F : String × Val → Prop} (hF : Functional F) :
    ∀ (ks ks' : List T) (acc : Subst) (fl : Bool), (∀ t ∈ ks, CompP θ t) → fragL θ ks = true →
      (∀ p ∈ occValsL θ ks, F p) → (∀ p ∈ acc, F p) → plainL ks' = true → eraseL (instL θ ks) = ks' →
      ∃ σ l, supL ks ks' acc fl = .yes σ l ∧ ∀ p ∈ σ, p ∈ acc ∨ p ∈ occValsL θ ks
  | [], ks', acc, fl, _, _, _, _, _, he => by
      rw [instL, eraseL] at he; subst he
      exact ⟨acc, fl, by rw [supL], fun p hp => Or.inl hp⟩
  | t :: ts, ks', acc, fl, ih, hfr, hocc, hacc, hpl, he => by
      rw [instL, eraseL] at he; subst he
      rw [fragL] at hfr; rw [plainL] at hpl; simp only [Bool.and_eq_true] at hfr hpl
      have hoccT : ∀ p ∈ occVals θ t, F p := fun p hp => hocc p (by rw [occValsL]; exact List.mem_append.2 (Or.inl hp))
      have hoccTs : ∀ p ∈ occValsL θ ts, F p := fun p hp => hocc p (by rw [occValsL]; exact List.mem_append.2 (Or.inr hp))
      obtain ⟨σ1, f, h1, hsub1⟩ := ih t (by simp) hfr.1 F hF hoccT _ hpl.1 rfl
      obtain ⟨acc', hm⟩ := merge_ok hF σ1 acc hacc (fun p hp => hoccT p (hsub1 p hp))
      have hacc' : ∀ p ∈ acc', F p := fun p hp =>
        (merge_mem σ1 acc acc' hm p hp).elim (hacc p) (fun h => hoccT p (hsub1 p h))
      obtain ⟨σ, l, hs, hsub⟩ := supL_complete hF ts _ acc' (fl || f)
        (fun t ht => ih t (List.mem_cons_of_mem _ ht)) hfr.2 hoccTs hacc' hpl.2 rfl
      refine ⟨σ, l, ?_, ?_⟩
      · rw [supL, plain_stripTop hpl.1, h1]; simp only [hm]; exact hs
      · intro p hp
        rw [occValsL]
        rcases hsub p hp with h | h
        · rcases merge_mem σ1 acc acc' hm p h with h | h
          · exact Or.inl h
          · exact Or.inr (List.mem_append.2 (Or.inl (hsub1 p h)))
        · exact Or.inr (List.mem_append.2 (Or.inr h))

theorem supLast_complete {θ : Subst} {F : String × Val → Prop} (hF : Functional F) :
    ∀ (ks : List T) (b : T), ks ≠ [] → (∀ t ∈ ks, CompP θ t) → fragL θ ks = true →
      (∀ p ∈ occValsL θ ks, F p) → plain b = true → eraseLast (instL θ ks) = b →
      ∃ σ l, supLast ks b = .yes σ l ∧ ∀ p ∈ σ, p ∈ occValsL θ ks
  | [], _, hne, _, _, _, _, _ => absurd rfl hne
  | [e], b, _, ih, hfr, hocc, hpl, he => by
      rw [fragL] at hfr; simp only [Bool.and_eq_true] at hfr
      simp only [instL, eraseLast] at he
      obtain ⟨σ, l, hs, hsub⟩ := ih e (by simp) hfr.1 F hF
        (fun p hp => hocc p (by simp [occValsL, hp])) b hpl he
      exact ⟨σ, l, by rw [supLast]; exact hs, fun p hp => by simp [occValsL, hsub p hp]⟩
  | e :: e' :: es, b, _, ih, hfr, hocc, hpl, he => by
      rw [fragL] at hfr; simp only [Bool.and_eq_true] at hfr
      rw [eraseLast_instL_cons2] at he
      obtain ⟨σ, l, hs, hsub⟩ := supLast_complete hF (e' :: es) b (by simp)
        (fun t ht => ih t (List.mem_cons_of_mem _ ht)) hfr.2
        (fun p hp => hocc p (by rw [occValsL]; exact List.mem_append.2 (Or.inr hp))) hpl he
      refine ⟨σ, l, ?_, fun p hp => by rw [occValsL]; exact List.mem_append.2 (Or.inr (hsub p hp))⟩
      rw [supLast]
      · exact hs
      · intro x; cases x


theorem supS_qself_yes (as as' : List String) (ty ty' : T) (rest rest' : List T) {σ : Subst} {l : Bool}
    (h : supS ty (stripTop ty') = .yes σ l) (hc : (rest == rest' && allIdentity σ) = true) :
    supS (.node "QSelf" as (ty :: rest)) (.node "QSelf" as' (ty' :: rest')) = .yes σ l := by
  conv => lhs; unfold supS
  rw [if_neg (by decide), if_neg (by decide), if_neg (by decide)]
  dsimp only
  rw [if_neg (by decide), if_neg (by decide), if_neg (by decide), if_neg (by decide), if_neg (by decide),
    if_neg (by simp), if_pos (by decide)]
  simp only [h, hc, if_true]

theorem supS_binary_yes (as as' : List String) (op l r att l' r' att' : T)
    {σ1 σ2 σ12 σ3 σ : Subst} {f1 f2 f3 : Bool}
    (h1 : supS l (stripTop l') = .yes σ1 f1) (h2 : supS r (stripTop r') = .yes σ2 f2)
    (hm12 : merge σ1 σ2 = some σ12) (h3 : supS att (stripTop att') = .yes σ3 f3)
    (hm3 : merge σ12 σ3 = some σ) :
    supS (.node "Expr::Binary" as [op, l, r, att]) (.node "Expr::Binary" as' [op, l', r', att']) =
      .yes σ ((f1 || f2) || f3) := by
  conv => lhs; unfold supS
  rw [if_neg (by decide), if_neg (by decide), if_neg (by decide)]
  dsimp only
  rw [if_neg (by decide), if_neg (by decide), if_neg (by decide), if_neg (by decide), if_neg (by decide),
    if_neg (by simp), if_neg (by decide), if_pos (by decide)]
  simp only [bne_self_eq_false, Bool.false_eq_true, if_false, h1, h2, h3, bindMerge, hm12, hm3]


theorem compP_tparam (θ : Subst) (n : String) : CompP θ (.tparam n) := by
  intro _ F _ _ b _ he
  refine ⟨_, _, supS_tparam_fwd n b, fun p hp => ?_⟩
  simp only [List.mem_singleton] at hp
  subst hp
  rw [occVals, valT, he]; simp

theorem compP_eparam (θ : Subst) (n : String) : CompP θ (.eparam n) := by
  intro _ F _ _ b _ he
  refine ⟨_, _, supS_eparam_fwd n b, fun p hp => ?_⟩
  simp only [List.mem_singleton] at hp
  subst hp
  rw [occVals, valE, he]; simp

theorem eraseL_length : ∀ (ks : List T), (eraseL ks).length = ks.length
  | [] => by rw [eraseL]
  | t :: ts => by rw [eraseL]; simp [eraseL_length ts]
theorem instL_length (θ : Subst) : ∀ (ks : List T), (instL θ ks).length = ks.length
  | [] => by rw [instL]
  | t :: ts => by rw [instL]; simp [instL_length θ ts]

theorem compP_node (θ : Subst) (k : String) (as : List String) (ks : List T) (ih : ∀ t ∈ ks, CompP θ t) :
    CompP θ (.node k as ks) := by
  intro hfr F hF hocc b hpl he
  rw [frag] at hfr
  by_cases hw : isWrapper k = true
  · -- transparent wrapper
    rw [if_pos hw] at hfr
    simp only [Bool.and_eq_true, Bool.not_eq_true', List.isEmpty_eq_false_iff] at hfr
    have hig : isIgnored k = false := by
      simp [isIgnored, isWrapper_ne_ign hw, isWrapper_ne_ignL hw]
    have hov := occVals_node (θ := θ) (as := as) (ks := ks) hig
      (pathParam_kind (by intro e; subst e; simp [isWrapper] at hw)) (gaEx_kind (isWrapper_ne_ga hw))
    rw [inst_node_default θ (not_special_of_ne (isWrapper_ne_ga hw)), erase_wrapper _ _ hw] at he
    rw [hov] at hocc ⊢
    obtain ⟨σ, l, hs, hsub⟩ := supLast_complete hF ks b hfr.1 ih hfr.2 hocc hpl he
    exact ⟨σ, l, by rw [supS_wrapper _ _ _ hw]; exact hs, hsub⟩
  rw [if_neg hw] at hfr
  have hw : isWrapper k = false := by simpa using hw
  by_cases hi : k = "Ign"
  · subst hi; exact ⟨[], _, supS_ign _ _ _, fun p hp => by cases hp⟩
  by_cases hil : k = "IgnL"
  · subst hil; exact ⟨[], _, supS_ignL _ _ _, fun p hp => by cases hp⟩
  rw [if_neg (by simp [hi, hil])] at hfr
  by_cases hpan : (k == "Stmt::Item" || panicsOnSameKind k) = true
  · rw [if_pos hpan] at hfr; cases hfr
  rw [if_neg hpan] at hfr
  have hig : isIgnored k = false := by simp [isIgnored, hi, hil]
  by_cases hq : k = "QSelf"
  · -- qualified self: the type must match under identity bindings, the rest verbatim
    subst hq
    rw [if_pos (by decide)] at hfr
    simp only [Bool.and_eq_true] at hfr
    obtain ⟨hfk, hqo⟩ := hfr
    match ks, hqo with
    | ty :: rest, hqo =>
      simp only [qselfOK, Bool.and_eq_true] at hqo
      obtain ⟨⟨hid, hcl⟩, hplr⟩ := hqo
      have hov := occVals_node (θ := θ) (as := as) (ks := ty :: rest) hig (pathParam_kind (by decide))
        (gaEx_kind (by decide))
      rw [inst_node_default θ (not_special_of_ne (by decide)), erase_plain _ _ (by decide) (by decide),
        instL, eraseL, instL_closed θ hcl, plainL_eraseL_eq hplr] at he
      subst he
      have hply : plain (erase (inst θ ty)) = true :=
        plainL_iff.1 (plain_node_inv hpl (by decide)).2 _ (by simp)
      rw [hov] at hocc ⊢
      obtain ⟨σ, l, hs, hsub⟩ := ih ty (by simp) (fragL_iff.1 hfk ty (by simp)) F hF
        (fun p hp => hocc p (by rw [occValsL]; exact List.mem_append.2 (Or.inl hp))) _ hply rfl
      have hall : allIdentity σ = true := by
        simp only [allIdentity, List.all_eq_true] at hid ⊢
        exact fun p hp => hid p (hsub p hp)
      refine ⟨σ, l, ?_, fun p hp => by rw [occValsL]; exact List.mem_append.2 (Or.inl (hsub p hp))⟩
      exact supS_qself_yes as as ty _ rest rest (by rw [plain_stripTop hply]; exact hs) (by simp [hall])
  rw [if_neg (by simp [hq])] at hfr
  by_cases hbin : k = "Expr::Binary"
  · -- binary expression: the operator verbatim, the operands in order
    subst hbin
    rw [if_pos (by decide)] at hfr
    simp only [Bool.and_eq_true] at hfr
    obtain ⟨hfk, hbo⟩ := hfr
    match ks, hbo with
    | [op, lft, r, att], hbo =>
      simp only [binaryOK, Bool.and_eq_true] at hbo
      have hov := occVals_node (θ := θ) (as := as) (ks := [op, lft, r, att]) hig (pathParam_kind (by decide))
        (gaEx_kind (by decide))
      rw [inst_node_default θ (not_special_of_ne (by decide)), erase_plain _ _ (by decide) (by decide)] at he
      simp only [instL, eraseL] at he
      rw [inst_closed θ op hbo.1, plain_erase op hbo.2] at he
      subst he
      have hplk := (plain_node_inv hpl (by decide)).2
      have hp1 : plain (erase (inst θ lft)) = true := plainL_iff.1 hplk _ (by simp)
      have hp2 : plain (erase (inst θ r)) = true := plainL_iff.1 hplk _ (by simp)
      have hp3 : plain (erase (inst θ att)) = true := plainL_iff.1 hplk _ (by simp)
      rw [hov] at hocc ⊢
      have sub : ∀ t ∈ [op, lft, r, att], ∀ p ∈ occVals θ t, p ∈ occValsL θ [op, lft, r, att] :=
        fun t ht p hp => mem_occValsL.2 ⟨t, ht, hp⟩
      obtain ⟨σ1, f1, h1, s1⟩ := ih lft (by simp) (fragL_iff.1 hfk lft (by simp)) F hF
        (fun p hp => hocc p (sub lft (by simp) p hp)) _ hp1 rfl
      obtain ⟨σ2, f2, h2, s2⟩ := ih r (by simp) (fragL_iff.1 hfk r (by simp)) F hF
        (fun p hp => hocc p (sub r (by simp) p hp)) _ hp2 rfl
      obtain ⟨σ3, f3, h3, s3⟩ := ih att (by simp) (fragL_iff.1 hfk att (by simp)) F hF
        (fun p hp => hocc p (sub att (by simp) p hp)) _ hp3 rfl
      have F1 : ∀ p ∈ σ1, F p := fun p hp => hocc p (sub lft (by simp) p (s1 p hp))
      have F2 : ∀ p ∈ σ2, F p := fun p hp => hocc p (sub r (by simp) p (s2 p hp))
      have F3 : ∀ p ∈ σ3, F p := fun p hp => hocc p (sub att (by simp) p (s3 p hp))
      obtain ⟨σ12, hm12⟩ := merge_ok hF σ2 σ1 F1 F2
      have m12 := merge_mem σ2 σ1 σ12 hm12
      have F12 : ∀ p ∈ σ12, F p := fun p hp => (m12 p hp).elim (F1 p) (F2 p)
      obtain ⟨σ, hm3⟩ := merge_ok hF σ3 σ12 F12 F3
      have m3 := merge_mem σ3 σ12 σ hm3
      refine ⟨σ, _, supS_binary_yes as as op lft r att _ _ _
        (by rw [plain_stripTop hp1]; exact h1) (by rw [plain_stripTop hp2]; exact h2) hm12
        (by rw [plain_stripTop hp3]; exact h3) hm3, fun p hp => ?_⟩
      rcases m3 p hp with h | h
      · rcases m12 p h with h | h
        · exact sub lft (by simp) p (s1 p h)
        · exact sub r (by simp) p (s2 p h)
      · exact sub att (by simp) p (s3 p h)
  rw [if_neg (by simp [hbin])] at hfr
  by_cases hlt : k = "Lifetime"
  · -- lifetimes are compared by name
    subst hlt
    rw [if_pos (by decide)] at hfr
    cases hx : lifetimeIdent (.node "Lifetime" as ks) with
    | none => rw [hx] at hfr; cases hfr
    | some x =>
      have ha := lifetimeIdent_inv hx
      have hc : closed (.node "Lifetime" as ks) = true := by rw [ha]; simp [closed, closedL]
      rw [inst_closed θ _ hc, ha] at he
      have : erase (.node "Lifetime" [] [.node "Ident" [x] []]) = .node "Lifetime" [] [.node "Ident" [x] []] := by
        rw [erase_plain _ _ (by decide) (by decide)]
        simp only [eraseL]
        rw [erase_plain _ _ (by decide) (by decide)]
        simp only [eraseL]
      rw [this] at he
      subst he
      obtain ⟨l, hl⟩ := supS_lifetime x
      exact ⟨[], l, by rw [ha]; exact hl, fun p hp => by cases hp⟩
  rw [if_neg (by simp [hlt])] at hfr
  by_cases how : k = "OptWild"
  · -- optional child
    subst how
    rw [if_pos (by decide)] at hfr
    simp only [Bool.and_eq_true, beq_iff_eq] at hfr
    obtain ⟨hlen, hfk⟩ := hfr
    match ks, hlen with
    | [x], _ =>
      have hov := occVals_node (θ := θ) (as := as) (ks := [x]) hig (pathParam_kind (by decide)) (gaEx_kind (by decide))
      rw [inst_node_default θ (not_special_of_ne (by decide)), erase_plain _ _ (by decide) (by decide)] at he
      simp only [instL, eraseL] at he
      subst he
      have hply : plain (erase (inst θ x)) = true := by
        have := (plain_node_inv hpl (by decide)).2
        exact plainL_iff.1 this _ (by simp)
      rw [supS_optWild]
      by_cases hn : (isNoneNode x || isNoneNode (erase (inst θ x))) = true
      · rw [if_pos hn]; exact ⟨[], _, rfl, fun p hp => by cases hp⟩
      · rw [if_neg hn, plain_stripTop hply]
        rw [hov] at hocc ⊢
        obtain ⟨σ, l, hs, hsub⟩ := ih x (by simp) (fragL_iff.1 hfk x (by simp)) F hF
          (fun p hp => hocc p (by simp [occValsL, hp])) _ hply rfl
        exact ⟨σ, l, hs, fun p hp => by simp [occValsL, hsub p hp]⟩
  rw [if_neg (by simp [how])] at hfr
  -- from here: `Pat::Wild` or an ordinary kind; children are matched pairwise
  by_cases hpp : ∃ n, pathParam PARAM_PREFIX (.node k as ks) = some n
  · -- a parameter in trait-path position
    obtain ⟨n, hpn⟩ := hpp
    have ha := pathParam_inv hpn
    have hk : k = "Path" := by injection ha
    have hc : closed (.node k as ks) = true := by rw [ha]; simp [closed, closedL]
    have hpa : plain (.node k as ks) = true := by rw [ha]; simp [plain, plainL, isWrapper]
    rw [inst_closed θ _ hc, plain_erase _ hpa] at he
    subst he
    have hsk : specialKind k = false := by subst hk; decide
    rcases supS_ordinary as as ks ks hsk with ⟨m, hm, hs⟩ | ⟨hne, _⟩
    · refine ⟨_, _, hs, fun p hp => ?_⟩
      rw [occVals]; simp only [hig, Bool.false_eq_true, if_false, hm]; exact hp
    · rcases hne with hne | hne
      · exact absurd rfl hne
      · rw [hpn] at hne; cases hne
  have hpn : pathParam PARAM_PREFIX (.node k as ks) = none := by
    cases hq : pathParam PARAM_PREFIX (.node k as ks) with
    | none => rfl
    | some n => exact absurd ⟨n, hq⟩ hpp
  cases hga : gaEx θ k as ks with
  | some ne =>
    -- a type parameter bound to a const argument
    obtain ⟨n, e⟩ := ne
    obtain ⟨rfl, rfl, rfl, hlk⟩ := gaEx_some hga
    rw [inst_ga_ex hlk, erase_plain _ _ (by decide) (by decide)] at he
    simp only [eraseL] at he
    subst he
    refine ⟨_, _, supS_gaConst n _, fun p hp => ?_⟩
    rw [occVals]; simp only [hig, Bool.false_eq_true, if_false, hpn, hga]; exact hp
  | none =>
    have hov := occVals_node (θ := θ) hig hpn hga
    rw [inst_node_of_gaEx_none hga, erase_plain _ _ hw hi] at he
    subst he
    have hplk : plainL (eraseL (instL θ ks)) = true := (plain_node_inv hpl hi).2
    rw [hov] at hocc ⊢
    obtain ⟨σ, l, hs, hsub⟩ := supL_complete hF ks _ [] false ih hfr hocc (fun p hp => by cases hp) hplk rfl
    have hsub' : ∀ p ∈ σ, p ∈ occValsL θ ks := fun p hp => (hsub p hp).elim (fun h => by cases h) id
    by_cases hpw : k = "Pat::Wild"
    · subst hpw; exact ⟨σ, l, by rw [supS_wild]; exact hs, hsub'⟩
    · have hsk : specialKind k = false := by
        simp only [Bool.or_eq_true, not_or, beq_iff_eq] at hpan
        simp [specialKind, hw, hi, hil, hpw, hpan.1, hpan.2, hlt, hq, hbin, how]
      rcases supS_ordinary as as ks (eraseL (instL θ ks)) hsk with ⟨m, hm, _⟩ | ⟨_, hs'⟩
      · rw [hpn] at hm; cases hm
      · exact ⟨σ, l, by rw [hs', if_pos (by simp)]; exact hs, hsub'⟩

theorem supS_complete (θ : Subst) : ∀ a : T, CompP θ a :=
  T.ind (compP_tparam θ) (compP_eparam θ) (compP_node θ)


theorem plain_eraseLast : ∀ (ks : List T), (∀ t ∈ ks, plain (erase t) = true) → plain (eraseLast ks) = true
  | [], _ => by rw [eraseLast]; decide
  | [e], h => by rw [eraseLast]; exact h e (by simp)
  | e :: e' :: es, h => by
      rw [eraseLast_cons2]
      exact plain_eraseLast (e' :: es) (fun t ht => h t (List.mem_cons_of_mem _ ht))

theorem plainL_eraseL : ∀ (ks : List T), (∀ t ∈ ks, plain (erase t) = true) → plainL (eraseL ks) = true
  | [], _ => by rw [eraseL, plainL]
  | t :: ts, h => by
      rw [eraseL, plainL, h t (by simp), plainL_eraseL ts (fun t ht => h t (List.mem_cons_of_mem _ ht))]
      rfl

/-- `erase` produces presentation-free trees -/
theorem plain_erase_self : ∀ b : T, plain (erase b) = true := by
  apply T.ind
  · intro n; rw [erase, plain]
  · intro n; rw [erase, plain]
  · intro k as ks ih
    by_cases hi : k = "Ign"
    · subst hi; rw [erase_ign]; decide
    by_cases hw : isWrapper k = true
    · rw [erase_wrapper _ _ hw]; exact plain_eraseLast ks ih
    · have hw : isWrapper k = false := by simpa using hw
      rw [erase_plain _ _ hw hi, plain]
      simp [hi, hw, plainL_eraseL ks ih]

theorem erase_erase (b : T) : erase (erase b) = erase b := plain_erase _ (plain_erase_self b)

end DI
