/-
  The refinement between the generated helper-trait program and the user's blocks (DESIGN.md §6):
  helper lemmas (composition of substitutions, finite choice) and the two inclusions.
  Substitutions may bind const parameters (`.ex`); the side conditions are about kinds of parameter occurrences
  (`wkT` for the instantiating substitution, `kindOK` for a member's substitution, `occSub` for keys against the
  header) — see Sem.lean. The ambiguous generic-argument position `GenericArgument::Type [tparam n]` (a bare const
  argument is printed like a type) is handled by `inst` (Tree.lean) and by `comp` (Sem.lean).
-/
import DisjointImpls.Sem
namespace DI

theorem inst_node (σ : Subst) (h : noEx σ) (k : String) (as : List String) (ks : List T) :
    inst σ (.node k as ks) = .node k as (instL σ ks) := by
  unfold inst
  split
  · next n =>
    cases hl : lookup σ n with
    | none => simp [instL, inst, hl]
    | some v =>
      cases v with
      | ty t => simp [instL, inst, hl]
      | ex e => exact absurd hl (h n e)
      | identity => simp [instL, inst, hl]
  · rfl


/-! ### Unfolding `inst` and the kind predicates at a node -/

/-- the ambiguous generic-argument position `GenericArgument::Type [tparam n]` -/
def isGA (k : String) (as : List String) (ks : List T) : Option String :=
  match k, as, ks with
  | "GenericArgument::Type", [], [.tparam n] => some n
  | _, _, _ => none

def gaNode (t : T) : T := .node "GenericArgument::Type" [] [t]

theorem isGA_some {k : String} {as : List String} {ks : List T} {n : String} (h : isGA k as ks = some n) :
    k = "GenericArgument::Type" ∧ as = [] ∧ ks = [.tparam n] := by
  unfold isGA at h
  split at h
  · cases h; exact ⟨rfl, rfl, rfl⟩
  · cases h

theorem instGa (σ : Subst) (n : String) :
    inst σ (gaNode (.tparam n)) = match lookup σ n with
      | some (.ex e) => .node "GenericArgument::Const" [] [e]
      | some (.ty t) => gaNode t
      | _ => gaNode (.tparam n) := by
  unfold gaNode
  rw [inst]
  rcases lookup σ n with _ | (t | e | _) <;> rfl

theorem inst_other (σ : Subst) {k : String} {as : List String} {ks : List T} (h : isGA k as ks = none) :
    inst σ (.node k as ks) = .node k as (instL σ ks) := by
  unfold inst
  split
  · simp [isGA] at h
  · rfl

theorem wkT_other (σ : Subst) {k : String} {as : List String} {ks : List T} (h : isGA k as ks = none) :
    wkT σ (.node k as ks) = wkL σ ks := by
  unfold wkT
  split
  · simp [isGA] at h
  · rfl

theorem bareOcc_other {k : String} {as : List String} {ks : List T} (h : isGA k as ks = none) :
    bareOcc (.node k as ks) = bareOccL ks := by
  unfold bareOcc
  split
  · simp [isGA] at h
  · rfl
theorem exOcc_other {k : String} {as : List String} {ks : List T} (h : isGA k as ks = none) :
    exOcc (.node k as ks) = exOccL ks := by
  unfold exOcc
  split
  · simp [isGA] at h
  · rfl
theorem gaOcc_other {k : String} {as : List String} {ks : List T} (h : isGA k as ks = none) :
    gaOcc (.node k as ks) = gaOccL ks := by
  unfold gaOcc
  split
  · simp [isGA] at h
  · rfl

theorem kindOK_other (θ : Subst) {k : String} {as : List String} {ks : List T} (h : isGA k as ks = none)
    (hk : kindOK θ (.node k as ks) = true) :
    kindOKL θ ks = true ∧ ¬ ∃ n, k = "GenericArgument::Type" ∧ as = [] ∧ ks = [.eparam n] := by
  unfold kindOK at hk
  split at hk
  · simp [isGA] at h
  · cases hk
  · next h1 h2 =>
    refine ⟨hk, ?_⟩
    rintro ⟨n, rfl, rfl, rfl⟩
    exact h2 n rfl rfl rfl

theorem instGa_ex {σ : Subst} {n : String} {e : T} (h : lookup σ n = some (.ex e)) :
    inst σ (gaNode (.tparam n)) = .node "GenericArgument::Const" [] [e] := by rw [instGa, h]
theorem instGa_ty {σ : Subst} {n : String} {t : T} (h : lookup σ n = some (.ty t)) :
    inst σ (gaNode (.tparam n)) = gaNode t := by rw [instGa, h]
theorem instGa_id {σ : Subst} {n : String} (h : lookup σ n = some .identity) :
    inst σ (gaNode (.tparam n)) = gaNode (.tparam n) := by rw [instGa, h]
theorem instGa_none {σ : Subst} {n : String} (h : lookup σ n = none) :
    inst σ (gaNode (.tparam n)) = gaNode (.tparam n) := by rw [instGa, h]

theorem instTp_ty {σ : Subst} {n : String} {t : T} (h : lookup σ n = some (.ty t)) : inst σ (.tparam n) = t := by
  rw [inst, h]
theorem instTp_notTy {σ : Subst} {n : String} (h : ∀ t, lookup σ n ≠ some (.ty t)) : inst σ (.tparam n) = .tparam n := by
  rw [inst]
  rcases hl : lookup σ n with _ | (t | e | _)
  · rfl
  · exact absurd hl (h t)
  · rfl
  · rfl
theorem instEp_ex {σ : Subst} {n : String} {e : T} (h : lookup σ n = some (.ex e)) : inst σ (.eparam n) = e := by
  rw [inst, h]
theorem instEp_notEx {σ : Subst} {n : String} (h : ∀ e, lookup σ n ≠ some (.ex e)) : inst σ (.eparam n) = .eparam n := by
  rw [inst]
  rcases hl : lookup σ n with _ | (t | e | _)
  · rfl
  · rfl
  · exact absurd hl (h e)
  · rfl

theorem nonEx_iff {σ : Subst} {n : String} : nonEx σ n = true ↔ ∀ e, lookup σ n ≠ some (.ex e) := by
  unfold nonEx
  rcases lookup σ n with _ | (t | e | _) <;> simp

theorem inst_node_is_node (σ : Subst) (k : String) (as : List String) (ks : List T) :
    ∃ k' as' ks', inst σ (.node k as ks) = .node k' as' ks' := by
  cases h : isGA k as ks with
  | none => exact ⟨_, _, _, inst_other σ h⟩
  | some n =>
    obtain ⟨rfl, rfl, rfl⟩ := isGA_some h
    have := instGa σ n
    unfold gaNode at this
    rw [this]
    rcases lookup σ n with _ | (t | e | _) <;> exact ⟨_, _, _, rfl⟩

/-- instantiating the children of an ordinary node does not produce the ambiguous generic-argument shape, unless
    the child is an expression parameter in type-argument position (which `kindOK` excludes) -/
theorem isGA_instL (σ : Subst) {k : String} {as : List String} {ks : List T} (h : isGA k as ks = none)
    (hne : ¬ ∃ n, k = "GenericArgument::Type" ∧ as = [] ∧ ks = [.eparam n]) : isGA k as (instL σ ks) = none := by
  cases h' : isGA k as (instL σ ks) with
  | none => rfl
  | some m =>
    exfalso
    obtain ⟨rfl, rfl, e⟩ := isGA_some h'
    match ks, e with
    | [t0], e =>
      simp only [instL] at e
      injection e with e0 _
      cases t0 with
      | tparam n0 => simp [isGA] at h
      | eparam n0 => exact hne ⟨n0, rfl, rfl, rfl⟩
      | node k0 as0 ks0 =>
        obtain ⟨k', as', ks', e'⟩ := inst_node_is_node σ k0 as0 ks0
        rw [e'] at e0; cases e0
    | [], e => simp [instL] at e
    | _ :: _ :: _, e => simp [instL] at e

/-! ### Composition -/

/-- the value `comp θ ρ` gives to a parameter `n` that `θ` binds to `v` -/
def compVal (ρ : Subst) (n : String) : Val → Val
  | .ty (.tparam m) => (match lookup ρ m with
      | some (.ex e) => .ex e
      | _ => .ty (inst ρ (.tparam m)))
  | .ty t => .ty (inst ρ t)
  | .ex e => .ex (inst ρ e)
  | .identity => (match lookup ρ n with | some w => w | none => .identity)

theorem comp_eq (θ ρ : Subst) : comp θ ρ = θ.map (fun p => (p.1, compVal ρ p.1 p.2)) := by
  unfold comp
  apply List.map_congr_left
  rintro ⟨n, v⟩ _
  rcases v with (t | e | _)
  · cases t with
    | tparam m =>
      simp only [compVal]
      rcases lookup ρ m with _ | (t | e | _) <;> rfl
    | eparam _ => rfl
    | node _ _ _ => rfl
  · rfl
  · simp only [compVal]
    rcases lookup ρ n with _ | w <;> rfl

theorem lookup_map_val (f : String → Val → Val) (n : String) : ∀ θ : Subst,
    lookup (θ.map (fun p => (p.1, f p.1 p.2))) n = (lookup θ n).map (f n)
  | [] => rfl
  | (m, v) :: tl => by
      simp only [List.map, lookup]
      by_cases hmn : m = n
      · subst hmn; simp
      · simp only [if_neg hmn]; exact lookup_map_val f n tl

theorem lookup_comp (θ ρ : Subst) (n : String) : lookup (comp θ ρ) n = (lookup θ n).map (compVal ρ n) := by
  rw [comp_eq]; exact lookup_map_val (compVal ρ) n θ

theorem compVal_tp_ex {ρ : Subst} {n m : String} {e : T} (h : lookup ρ m = some (.ex e)) :
    compVal ρ n (.ty (.tparam m)) = .ex e := by simp [compVal, h]
theorem compVal_tp_notEx {ρ : Subst} {n m : String} (h : nonEx ρ m = true) :
    compVal ρ n (.ty (.tparam m)) = .ty (inst ρ (.tparam m)) := by
  have := nonEx_iff.1 h
  rcases hl : lookup ρ m with _ | (t | e | _)
  · simp [compVal, hl]
  · simp [compVal, hl]
  · exact absurd hl (this e)
  · simp [compVal, hl]
theorem compVal_ty_other {ρ : Subst} {n : String} {t : T} (h : ∀ m, t ≠ .tparam m) :
    compVal ρ n (.ty t) = .ty (inst ρ t) := by
  cases t with
  | tparam m => exact absurd rfl (h m)
  | eparam _ => rfl
  | node _ _ _ => rfl

theorem kindOK_tparam {θ : Subst} {n : String} (h : kindOK θ (.tparam n) = true) : nonEx θ n = true := by
  rwa [kindOK] at h
theorem kindOK_eparam {θ : Subst} {n : String} (h : kindOK θ (.eparam n) = true) : ∀ t, lookup θ n ≠ some (.ty t) := by
  rw [kindOK] at h
  intro t ht
  rw [ht] at h
  cases h
theorem kindOKL_cons {θ : Subst} {t : T} {ts : List T} (h : kindOKL θ (t :: ts) = true) :
    kindOK θ t = true ∧ kindOKL θ ts = true := by
  rw [kindOKL] at h; simpa using h
theorem wkL_cons {σ : Subst} {t : T} {ts : List T} (h : wkL σ (t :: ts) = true) :
    wkT σ t = true ∧ wkL σ ts = true := by
  rw [wkL] at h; simpa using h
theorem wkT_tparam {σ : Subst} {n : String} : wkT σ (.tparam n) = nonEx σ n := by rw [wkT]

theorem isGA_single_notTp {t : T} (h : ∀ m, t ≠ .tparam m) : isGA "GenericArgument::Type" [] [t] = none := by
  cases t with
  | tparam m => exact absurd rfl (h m)
  | eparam _ => rfl
  | node _ _ _ => rfl

theorem inst_gaNode_notTp (σ : Subst) {t : T} (h : ∀ m, t ≠ .tparam m) : inst σ (gaNode t) = gaNode (inst σ t) := by
  unfold gaNode
  rw [inst_other σ (isGA_single_notTp h)]
  simp [instL]

theorem inst_gaConst (σ : Subst) (e : T) :
    inst σ (.node "GenericArgument::Const" [] [e]) = .node "GenericArgument::Const" [] [inst σ e] := by
  rw [inst_other σ (by rfl)]
  simp [instL]

mutual
/-- instantiating with `θ` and then with `ρ` is instantiating with the composition, on a tree whose parameters `θ`
    binds respecting their kinds and whose `θ`-instance `ρ` is well-kinded for -/
theorem inst_comp (θ ρ : Subst) : ∀ (t : T), (∀ n ∈ allParams t, (lookup θ n).isSome = true) →
    kindOK θ t = true → wkT ρ (inst θ t) = true → inst ρ (inst θ t) = inst (comp θ ρ) t
  | .tparam n, hc, hk, hw => by
      have hn := hc n (by simp [allParams])
      rcases hl : lookup θ n with _ | (s | e | _)
      · simp [hl] at hn
      · rw [instTp_ty hl] at hw ⊢
        have hlc : lookup (comp θ ρ) n = some (compVal ρ n (.ty s)) := by rw [lookup_comp, hl]; rfl
        by_cases hs : ∃ m, s = .tparam m
        · obtain ⟨m, rfl⟩ := hs
          rw [wkT_tparam] at hw
          rw [compVal_tp_notEx hw] at hlc
          rw [instTp_ty hlc]
        · rw [compVal_ty_other (fun m hm => hs ⟨m, hm⟩)] at hlc
          rw [instTp_ty hlc]
      · exact absurd hl (nonEx_iff.1 (kindOK_tparam hk) e)
      · have hlc : lookup (comp θ ρ) n = some (compVal ρ n .identity) := by rw [lookup_comp, hl]; rfl
        have e1 : inst θ (.tparam n) = .tparam n := instTp_notTy (fun t ht => by rw [hl] at ht; cases ht)
        rw [e1]
        rcases hr : lookup ρ n with _ | (t | e | _)
        · have : compVal ρ n .identity = .identity := by simp [compVal, hr]
          rw [this] at hlc
          rw [instTp_notTy (fun t ht => by rw [hr] at ht; cases ht),
            instTp_notTy (fun t ht => by rw [hlc] at ht; cases ht)]
        · have : compVal ρ n .identity = .ty t := by simp [compVal, hr]
          rw [this] at hlc
          rw [instTp_ty hr, instTp_ty hlc]
        · have : compVal ρ n .identity = .ex e := by simp [compVal, hr]
          rw [this] at hlc
          rw [instTp_notTy (fun t ht => by rw [hr] at ht; cases ht),
            instTp_notTy (fun t ht => by rw [hlc] at ht; cases ht)]
        · have : compVal ρ n .identity = .identity := by simp [compVal, hr]
          rw [this] at hlc
          rw [instTp_notTy (fun t ht => by rw [hr] at ht; cases ht),
            instTp_notTy (fun t ht => by rw [hlc] at ht; cases ht)]
  | .eparam n, hc, hk, _ => by
      have hn := hc n (by simp [allParams])
      rcases hl : lookup θ n with _ | (s | e | _)
      · simp [hl] at hn
      · exact absurd hl (kindOK_eparam hk s)
      · have hlc : lookup (comp θ ρ) n = some (.ex (inst ρ e)) := by rw [lookup_comp, hl]; rfl
        rw [instEp_ex hl, instEp_ex hlc]
      · have hlc : lookup (comp θ ρ) n = some (compVal ρ n .identity) := by rw [lookup_comp, hl]; rfl
        have e1 : inst θ (.eparam n) = .eparam n := instEp_notEx (fun t ht => by rw [hl] at ht; cases ht)
        rw [e1]
        rcases hr : lookup ρ n with _ | (t | e | _)
        · have : compVal ρ n .identity = .identity := by simp [compVal, hr]
          rw [this] at hlc
          rw [instEp_notEx (fun t ht => by rw [hr] at ht; cases ht),
            instEp_notEx (fun t ht => by rw [hlc] at ht; cases ht)]
        · have : compVal ρ n .identity = .ty t := by simp [compVal, hr]
          rw [this] at hlc
          rw [instEp_notEx (fun t ht => by rw [hr] at ht; cases ht),
            instEp_notEx (fun t ht => by rw [hlc] at ht; cases ht)]
        · have : compVal ρ n .identity = .ex e := by simp [compVal, hr]
          rw [this] at hlc
          rw [instEp_ex hr, instEp_ex hlc]
        · have : compVal ρ n .identity = .identity := by simp [compVal, hr]
          rw [this] at hlc
          rw [instEp_notEx (fun t ht => by rw [hr] at ht; cases ht),
            instEp_notEx (fun t ht => by rw [hlc] at ht; cases ht)]
  | .node k as ks, hc, hk, hw => by
      cases hga : isGA k as ks with
      | some n =>
        obtain ⟨rfl, rfl, rfl⟩ := isGA_some hga
        show inst ρ (inst θ (gaNode (.tparam n))) = inst (comp θ ρ) (gaNode (.tparam n))
        have hn := hc n (by simp [allParams, allParams.allParamsL])
        rcases hl : lookup θ n with _ | (s | e | _)
        · simp [hl] at hn
        · have hlc : lookup (comp θ ρ) n = some (compVal ρ n (.ty s)) := by rw [lookup_comp, hl]; rfl
          rw [instGa_ty hl]
          by_cases hs : ∃ m, s = .tparam m
          · obtain ⟨m, rfl⟩ := hs
            rcases hr : lookup ρ m with _ | (t | e | _)
            · rw [compVal_tp_notEx (by simp [nonEx, hr]), instTp_notTy (fun t ht => by rw [hr] at ht; cases ht)] at hlc
              rw [instGa_none hr, instGa_ty hlc]
            · rw [compVal_tp_notEx (by simp [nonEx, hr]), instTp_ty hr] at hlc
              rw [instGa_ty hr, instGa_ty hlc]
            · rw [compVal_tp_ex hr] at hlc
              rw [instGa_ex hr, instGa_ex hlc]
            · rw [compVal_tp_notEx (by simp [nonEx, hr]), instTp_notTy (fun t ht => by rw [hr] at ht; cases ht)] at hlc
              rw [instGa_id hr, instGa_ty hlc]
          · rw [compVal_ty_other (fun m hm => hs ⟨m, hm⟩)] at hlc
            rw [inst_gaNode_notTp ρ (fun m hm => hs ⟨m, hm⟩), instGa_ty hlc]
        · have hlc : lookup (comp θ ρ) n = some (.ex (inst ρ e)) := by rw [lookup_comp, hl]; rfl
          rw [instGa_ex hl, inst_gaConst, instGa_ex hlc]
        · have hlc : lookup (comp θ ρ) n = some (compVal ρ n .identity) := by rw [lookup_comp, hl]; rfl
          rw [instGa_id hl]
          rcases hr : lookup ρ n with _ | (t | e | _)
          · have : compVal ρ n .identity = .identity := by simp [compVal, hr]
            rw [this] at hlc
            rw [instGa_none hr, instGa_id hlc]
          · have : compVal ρ n .identity = .ty t := by simp [compVal, hr]
            rw [this] at hlc
            rw [instGa_ty hr, instGa_ty hlc]
          · have : compVal ρ n .identity = .ex e := by simp [compVal, hr]
            rw [this] at hlc
            rw [instGa_ex hr, instGa_ex hlc]
          · have : compVal ρ n .identity = .identity := by simp [compVal, hr]
            rw [this] at hlc
            rw [instGa_id hr, instGa_id hlc]
      | none =>
        obtain ⟨hkl, hne⟩ := kindOK_other θ hga hk
        have hga' := isGA_instL θ hga hne
        rw [inst_other θ hga] at hw ⊢
        rw [wkT_other ρ hga'] at hw
        rw [inst_other ρ hga', inst_other _ hga]
        congr 1
        exact instL_comp θ ρ ks (by simpa [allParams] using hc) hkl hw
theorem instL_comp (θ ρ : Subst) : ∀ (ts : List T), (∀ n ∈ allParams.allParamsL ts, (lookup θ n).isSome = true) →
    kindOKL θ ts = true → wkL ρ (instL θ ts) = true → instL ρ (instL θ ts) = instL (comp θ ρ) ts
  | [], _, _, _ => rfl
  | t :: ts, hc, hk, hw => by
      simp only [instL] at hw ⊢
      obtain ⟨hk1, hk2⟩ := kindOKL_cons hk
      obtain ⟨hw1, hw2⟩ := wkL_cons hw
      rw [inst_comp θ ρ t (fun n hn => hc n (by simp [allParams.allParamsL, hn])) hk1 hw1,
          instL_comp θ ρ ts (fun n hn => hc n (by simp [allParams.allParamsL, hn])) hk2 hw2]
end

mutual
/-- … and the composition is well-kinded for the tree -/
theorem wk_comp (θ ρ : Subst) : ∀ (t : T), (∀ n ∈ allParams t, (lookup θ n).isSome = true) →
    kindOK θ t = true → wkT ρ (inst θ t) = true → wkT (comp θ ρ) t = true
  | .tparam n, hc, hk, hw => by
      have hn := hc n (by simp [allParams])
      rw [wkT_tparam, nonEx_iff]
      intro e' he'
      rw [lookup_comp] at he'
      rcases hl : lookup θ n with _ | (s | e | _)
      · simp [hl] at hn
      · rw [hl] at he'
        rw [instTp_ty hl] at hw
        simp only [Option.map_some, Option.some.injEq] at he'
        by_cases hs : ∃ m, s = .tparam m
        · obtain ⟨m, rfl⟩ := hs
          rw [wkT_tparam] at hw
          rw [compVal_tp_notEx hw] at he'
          cases he'
        · rw [compVal_ty_other (fun m hm => hs ⟨m, hm⟩)] at he'
          cases he'
      · exact absurd hl (nonEx_iff.1 (kindOK_tparam hk) e)
      · rw [hl] at he'
        rw [instTp_notTy (fun t ht => by rw [hl] at ht; cases ht), wkT_tparam] at hw
        simp only [Option.map_some, Option.some.injEq] at he'
        rcases hr : lookup ρ n with _ | (t | e | _)
        · simp [compVal, hr] at he'
        · simp [compVal, hr] at he'
        · exact absurd hr (nonEx_iff.1 hw e)
        · simp [compVal, hr] at he'
  | .eparam n, _, _, _ => by rw [wkT]
  | .node k as ks, hc, hk, hw => by
      cases hga : isGA k as ks with
      | some n =>
        obtain ⟨rfl, rfl, rfl⟩ := isGA_some hga
        rw [wkT]
      | none =>
        obtain ⟨hkl, hne⟩ := kindOK_other θ hga hk
        have hga' := isGA_instL θ hga hne
        rw [inst_other θ hga, wkT_other ρ hga'] at hw
        rw [wkT_other _ hga]
        exact wkL_comp θ ρ ks (by simpa [allParams] using hc) hkl hw
theorem wkL_comp (θ ρ : Subst) : ∀ (ts : List T), (∀ n ∈ allParams.allParamsL ts, (lookup θ n).isSome = true) →
    kindOKL θ ts = true → wkL ρ (instL θ ts) = true → wkL (comp θ ρ) ts = true
  | [], _, _, _ => by rw [wkL]
  | t :: ts, hc, hk, hw => by
      simp only [instL] at hw
      obtain ⟨hk1, hk2⟩ := kindOKL_cons hk
      obtain ⟨hw1, hw2⟩ := wkL_cons hw
      rw [wkL, wk_comp θ ρ t (fun n hn => hc n (by simp [allParams.allParamsL, hn])) hk1 hw1,
          wkL_comp θ ρ ts (fun n hn => hc n (by simp [allParams.allParamsL, hn])) hk2 hw2]
      rfl
end

/-! ### Uniqueness of the matching substitution (for C04 and "never another block") -/

/-- two substitutions agree on parameter `n` in type position / expression position / generic-argument position -/
def Ab (σ τ : Subst) (n : String) : Prop := inst σ (.tparam n) = inst τ (.tparam n)
def Ae (σ τ : Subst) (n : String) : Prop := inst σ (.eparam n) = inst τ (.eparam n)
def Ag (σ τ : Subst) (n : String) : Prop := inst σ (gaNode (.tparam n)) = inst τ (gaNode (.tparam n))

theorem Ag.ab {σ τ : Subst} {n : String} (h : Ag σ τ n) : Ab σ τ n := by
  unfold Ag at h
  unfold Ab
  rw [instGa, instGa] at h
  rw [inst, inst]
  revert h
  rcases lookup σ n with _ | (t | e | _) <;> rcases lookup τ n with _ | (t' | e' | _) <;> simp [gaNode] <;>
    (intro h; simp [h])

theorem Ag.ae {σ τ : Subst} {n : String} (h : Ag σ τ n) : Ae σ τ n := by
  unfold Ag at h
  unfold Ae
  rw [instGa, instGa] at h
  rw [inst, inst]
  revert h
  rcases lookup σ n with _ | (t | e | _) <;> rcases lookup τ n with _ | (t' | e' | _) <;> simp [gaNode] <;>
    (intro h; simp [h])

theorem Ab.ag {σ τ : Subst} {n : String} (h : Ab σ τ n) (h1 : nonEx σ n = true) (h2 : nonEx τ n = true) : Ag σ τ n := by
  unfold Ab at h
  unfold Ag
  rw [instGa, instGa]
  rw [inst, inst] at h
  unfold nonEx at h1 h2
  revert h h1 h2
  rcases lookup σ n with _ | (t | e | _) <;> rcases lookup τ n with _ | (t' | e' | _) <;> simp [gaNode] <;>
    (intro h; simp [h])

mutual
theorem agree_of_eq (σ τ : Subst) : ∀ (t : T), inst σ t = inst τ t →
    (∀ n ∈ bareOcc t, Ab σ τ n) ∧ (∀ n ∈ exOcc t, Ae σ τ n) ∧ (∀ n ∈ gaOcc t, Ag σ τ n)
  | .tparam m, h => by
      refine ⟨?_, ?_, ?_⟩ <;> intro n hn <;> simp [bareOcc, exOcc, gaOcc] at hn
      subst hn; exact h
  | .eparam m, h => by
      refine ⟨?_, ?_, ?_⟩ <;> intro n hn <;> simp [bareOcc, exOcc, gaOcc] at hn
      subst hn; exact h
  | .node k as ks, h => by
      cases hga : isGA k as ks with
      | some m =>
        obtain ⟨rfl, rfl, rfl⟩ := isGA_some hga
        refine ⟨?_, ?_, ?_⟩ <;> intro n hn <;> simp [bareOcc, exOcc, gaOcc] at hn
        subst hn; exact h
      | none =>
        rw [inst_other σ hga, inst_other τ hga] at h
        injection h with _ _ hks
        rw [bareOcc_other hga, exOcc_other hga, gaOcc_other hga]
        exact agreeL_of_eq σ τ ks hks
theorem agreeL_of_eq (σ τ : Subst) : ∀ (ts : List T), instL σ ts = instL τ ts →
    (∀ n ∈ bareOccL ts, Ab σ τ n) ∧ (∀ n ∈ exOccL ts, Ae σ τ n) ∧ (∀ n ∈ gaOccL ts, Ag σ τ n)
  | [], _ => by
      refine ⟨?_, ?_, ?_⟩ <;> intro n hn <;> simp [bareOccL, exOccL, gaOccL] at hn
  | t :: ts, h => by
      simp only [instL] at h
      injection h with h1 h2
      obtain ⟨a1, a2, a3⟩ := agree_of_eq σ τ t h1
      obtain ⟨b1, b2, b3⟩ := agreeL_of_eq σ τ ts h2
      refine ⟨?_, ?_, ?_⟩ <;> intro n hn <;> simp only [bareOccL, exOccL, gaOccL, List.mem_append] at hn
      · exact hn.elim (a1 n) (b1 n)
      · exact hn.elim (a2 n) (b2 n)
      · exact hn.elim (a3 n) (b3 n)
end

mutual
theorem inst_congr (σ τ : Subst) : ∀ (u : T), (∀ n ∈ bareOcc u, Ab σ τ n) → (∀ n ∈ exOcc u, Ae σ τ n) →
    (∀ n ∈ gaOcc u, Ag σ τ n) → inst σ u = inst τ u
  | .tparam m, h, _, _ => h m (by simp [bareOcc])
  | .eparam m, _, h, _ => h m (by simp [exOcc])
  | .node k as ks, h1, h2, h3 => by
      cases hga : isGA k as ks with
      | some m =>
        obtain ⟨rfl, rfl, rfl⟩ := isGA_some hga
        exact h3 m (by simp [gaOcc])
      | none =>
        rw [bareOcc_other hga] at h1
        rw [exOcc_other hga] at h2
        rw [gaOcc_other hga] at h3
        rw [inst_other σ hga, inst_other τ hga, instL_congr σ τ ks h1 h2 h3]
theorem instL_congr (σ τ : Subst) : ∀ (us : List T), (∀ n ∈ bareOccL us, Ab σ τ n) → (∀ n ∈ exOccL us, Ae σ τ n) →
    (∀ n ∈ gaOccL us, Ag σ τ n) → instL σ us = instL τ us
  | [], _, _, _ => rfl
  | u :: us, h1, h2, h3 => by
      simp only [instL]
      rw [inst_congr σ τ u (fun n hn => h1 n (by simp [bareOccL, hn])) (fun n hn => h2 n (by simp [exOccL, hn]))
            (fun n hn => h3 n (by simp [gaOccL, hn])),
          instL_congr σ τ us (fun n hn => h1 n (by simp [bareOccL, hn])) (fun n hn => h2 n (by simp [exOccL, hn]))
            (fun n hn => h3 n (by simp [gaOccL, hn]))]
end

mutual
theorem wkT_bare (σ : Subst) : ∀ (t : T), wkT σ t = true → ∀ n ∈ bareOcc t, nonEx σ n = true
  | .tparam m, h, n, hn => by
      simp [bareOcc] at hn; subst hn; rwa [wkT_tparam] at h
  | .eparam m, _, n, hn => by simp [bareOcc] at hn
  | .node k as ks, h, n, hn => by
      cases hga : isGA k as ks with
      | some m =>
        obtain ⟨rfl, rfl, rfl⟩ := isGA_some hga
        simp [bareOcc] at hn
      | none =>
        rw [wkT_other σ hga] at h
        rw [bareOcc_other hga] at hn
        exact wkL_bare σ ks h n hn
theorem wkL_bare (σ : Subst) : ∀ (ts : List T), wkL σ ts = true → ∀ n ∈ bareOccL ts, nonEx σ n = true
  | [], _, n, hn => by simp [bareOccL] at hn
  | t :: ts, h, n, hn => by
      obtain ⟨h1, h2⟩ := wkL_cons h
      simp only [bareOccL, List.mem_append] at hn
      exact hn.elim (wkT_bare σ t h1 n) (wkL_bare σ ts h2 n)
end

/-- two substitutions that are well-kinded for `t` and instantiate it alike instantiate alike every tree whose
    parameter occurrences have counterparts in `t` -/
theorem inst_agree (σ τ : Subst) (t u : T) (hσ : wkT σ t = true) (hτ : wkT τ t = true) (h : inst σ t = inst τ t)
    (hs : occSub u t = true) : inst σ u = inst τ u := by
  obtain ⟨a1, a2, a3⟩ := agree_of_eq σ τ t h
  simp only [occSub, Bool.and_eq_true, List.all_eq_true, Bool.or_eq_true, List.contains_iff_mem] at hs
  obtain ⟨⟨s1, s2⟩, s3⟩ := hs
  apply inst_congr
  · intro n hn
    rcases s1 n hn with h' | h'
    · exact a1 n h'
    · exact (a3 n h').ab
  · intro n hn
    rcases s2 n hn with h' | h'
    · exact a2 n h'
    · exact (a3 n h').ae
  · intro n hn
    rcases s3 n hn with h' | h'
    · exact a3 n h'
    · exact (a1 n h').ag (wkT_bare σ t hσ n h') (wkT_bare τ t hτ n h')

/-- finite choice over an index range -/
theorem finite_choice {α : Type} [Inhabited α] (n : Nat) (P : Nat → α → Prop) :
    (∀ i, i < n → ∃ g, P i g) → ∃ gs : List α, gs.length = n ∧ ∀ i (h : i < gs.length), P i gs[i] := by
  induction n with
  | zero => intro _; exact ⟨[], rfl, fun i h => absurd h (by simp)⟩
  | succ n ih =>
    intro h
    obtain ⟨gs, hl, hg⟩ := ih (fun i hi => h i (Nat.lt_succ_of_lt hi))
    obtain ⟨g, hgn⟩ := h n (Nat.lt_succ_self n)
    refine ⟨gs ++ [g], by simp [hl], ?_⟩
    intro i hi
    by_cases hin : i < gs.length
    · rw [List.getElem_append_left hin]; exact hg i hin
    · have hig : i = gs.length := by simp at hi; omega
      subst hig
      simp
      rw [hl]; exact hgn


/-! ### Substitutions without const bindings are well-kinded for everything (the old model is included) -/

mutual
theorem wkT_of_noEx {σ : Subst} (h : noEx σ) : ∀ t : T, wkT σ t = true
  | .tparam n => by rw [wkT_tparam, nonEx_iff]; exact h n
  | .eparam _ => by rw [wkT]
  | .node k as ks => by
      cases hga : isGA k as ks with
      | some n => obtain ⟨rfl, rfl, rfl⟩ := isGA_some hga; rw [wkT]
      | none => rw [wkT_other σ hga]; exact wkL_of_noEx h ks
theorem wkL_of_noEx {σ : Subst} (h : noEx σ) : ∀ ts : List T, wkL σ ts = true
  | [] => by rw [wkL]
  | t :: ts => by rw [wkL, wkT_of_noEx h t, wkL_of_noEx h ts]; rfl
end

theorem wkB_of_noEx {σ : Subst} (h : noEx σ) (b : Block) : wkB σ b = true := by
  simp only [wkB, Bool.and_eq_true, List.all_eq_true]
  exact ⟨⟨wkT_of_noEx h _, fun c _ => ⟨wkT_of_noEx h _, wkT_of_noEx h _⟩⟩, fun p _ => nonEx_iff.2 (h p)⟩

theorem wkF_of_noEx {σ : Subst} (h : noEx σ) (F : Family) : wkF σ F = true := by
  simp only [wkF, Bool.and_eq_true, List.all_eq_true]
  exact ⟨wkT_of_noEx h _, fun k _ => ⟨wkT_of_noEx h _, wkT_of_noEx h _⟩⟩

/-- the blocks of the type-parameters-only model apply in this one -/
theorem applies_of_noEx (W : World) (b : Block) (q : T)
    (h : ∃ ρ, noEx ρ ∧ inst ρ b.hdr = q ∧ (∀ c ∈ b.clauses, holds W ρ c) ∧ sizedOK W ρ b.sizedParams) : applies W b q := by
  obtain ⟨ρ, h0, h1, h2, h3⟩ := h
  exact ⟨ρ, wkB_of_noEx h0 b, h1, h2, h3⟩

mutual
/-- on a tree without expression parameters a substitution without const bindings respects all kinds -/
theorem kindOK_of_noEx {θ : Subst} (h : noEx θ) : ∀ t : T, noEParams t = true → kindOK θ t = true
  | .tparam n, _ => by rw [kindOK, nonEx_iff]; exact h n
  | .eparam _, he => by simp [noEParams] at he
  | .node k as ks, he => by
      have hes : noEParams.noEParamsL ks = true := by simpa [noEParams] using he
      unfold kindOK
      split
      · rfl
      · simp [noEParams.noEParamsL, noEParams] at hes
      · exact kindOKL_of_noEx h ks hes
theorem kindOKL_of_noEx {θ : Subst} (h : noEx θ) : ∀ ts : List T, noEParams.noEParamsL ts = true → kindOKL θ ts = true
  | [], _ => by rw [kindOKL]
  | t :: ts, he => by
      simp only [noEParams.noEParamsL, Bool.and_eq_true] at he
      rw [kindOKL, kindOK_of_noEx h t he.1, kindOKL_of_noEx h ts he.2]; rfl
end

/-! ### What `memberOK` gives -/

theorem memberOK_hdr {F : Family} {m : Member} (h : memberOK F m = true) : inst m.θ F.hdr = m.blk.hdr := by
  unfold memberOK at h
  simp only [Bool.and_eq_true, beq_iff_eq] at h
  exact h.1.1

theorem memberOK_len {F : Family} {m : Member} (h : memberOK F m = true) : m.row.length = F.keys.length := by
  unfold memberOK at h
  simp only [Bool.and_eq_true, beq_iff_eq] at h
  exact h.1.2

theorem memberOK_key {F : Family} {m : Member} (h : memberOK F m = true) (i : Nat) (hk : i < F.keys.length)
    (hr : i < m.row.length) :
    ∃ c ∈ m.blk.clauses, c.bounded = inst m.θ (F.keys[i]).bounded ∧ c.tr = inst m.θ (F.keys[i]).tr ∧
      ∀ p, m.row[i] = some p → ((F.keys[i]).a, p) ∈ c.binds := by
  unfold memberOK at h
  simp only [Bool.and_eq_true, beq_iff_eq] at h
  have hall := h.2
  rw [List.all_eq_true] at hall
  have hmem : (F.keys[i], m.row[i]) ∈ List.zip F.keys m.row := by
    rw [List.mem_iff_getElem]
    refine ⟨i, by simp [List.length_zip]; omega, by simp [List.getElem_zip]⟩
  have hc := hall _ hmem
  unfold clauseFor at hc
  rw [List.any_eq_true] at hc
  obtain ⟨c, hcm, hcc⟩ := hc
  simp only [Bool.and_eq_true, beq_iff_eq] at hcc
  refine ⟨c, hcm, hcc.1.1, hcc.1.2, ?_⟩
  intro p hp
  have h3 := hcc.2
  simp only [hp] at h3
  simpa [List.contains_iff_mem] using h3

/-- every ground impl of a dispatch trait defines every associated type used as a key (true of any Rust
    program: an impl must define all associated types of its trait) -/
def WorldTotal (W : World) (F : Family) : Prop :=
  ∀ k ∈ F.keys, ∀ tr ty bs, W.disp tr ty = some bs → ∃ g, assoc bs k.a = some g

/-- the member's substitution binds every parameter of the family's header and keys (C09_binds_all +
    KeysOverHeaderParams) and respects the kinds of their occurrences (`kindOK`: a parameter in type position is not
    bound to an expression, a parameter in expression position is not bound to a type) -/
def ThetaCovers (F : Family) (m : Member) : Prop :=
  (kindOK m.θ F.hdr = true ∧ ∀ n ∈ allParams F.hdr, (lookup m.θ n).isSome = true) ∧
  ∀ k ∈ F.keys, kindOK m.θ k.bounded = true ∧ kindOK m.θ k.tr = true ∧
                (∀ n ∈ allParams k.bounded, (lookup m.θ n).isSome = true) ∧
                (∀ n ∈ allParams k.tr, (lookup m.θ n).isSome = true)

/-- `thetaCoversB` (Sem.lean, evaluated by the driver's `family` command) decides `ThetaCovers` -/
theorem thetaCoversB_iff (F : Family) (m : Member) : thetaCoversB F m = true ↔ ThetaCovers F m := by
  simp only [thetaCoversB, ThetaCovers, boundAll, Bool.and_eq_true, List.all_eq_true]
  constructor
  · rintro ⟨⟨h1, h2⟩, h3⟩
    exact ⟨⟨h1, h2⟩, fun k hk => ⟨(h3 k hk).1.1.1, (h3 k hk).1.1.2, (h3 k hk).1.2, (h3 k hk).2⟩⟩
  · rintro ⟨⟨h1, h2⟩, h3⟩
    exact ⟨⟨h1, h2⟩, fun k hk => ⟨⟨⟨(h3 k hk).1, (h3 k hk).2.1⟩, (h3 k hk).2.2.1⟩, (h3 k hk).2.2.2⟩⟩

/-- the hypothesis of the type-parameters-only model implies the present one -/
theorem thetaCovers_of_noEx (F : Family) (m : Member) (h0 : noEx m.θ)
    (hh : noEParams F.hdr = true) (hk : ∀ k ∈ F.keys, noEParams k.bounded = true ∧ noEParams k.tr = true)
    (h1 : ∀ n ∈ allParams F.hdr, (lookup m.θ n).isSome = true)
    (h2 : ∀ k ∈ F.keys, (∀ n ∈ allParams k.bounded, (lookup m.θ n).isSome = true) ∧
                (∀ n ∈ allParams k.tr, (lookup m.θ n).isSome = true)) : ThetaCovers F m :=
  ⟨⟨kindOK_of_noEx h0 _ hh, h1⟩, fun k hkm =>
    ⟨kindOK_of_noEx h0 _ (hk k hkm).1, kindOK_of_noEx h0 _ (hk k hkm).2, (h2 k hkm).1, (h2 k hkm).2⟩⟩

/-- `Sized` requirements of the main impl follow from those of the member (fails for D7) -/
def SizedCompat (W : World) (F : Family) (m : Member) : Prop :=
  ∀ ρ, wkB ρ m.blk = true → sizedOK W ρ m.blk.sizedParams → sizedOK W (comp m.θ ρ) F.sizedParams

/-- soundness direction: whatever the generated program selects is a block that applies -/
theorem gen_sub_spec (W : World) (F : Family) (m : Member) (q : T) :
    genSel W F m q → applies W m.blk q := by
  rintro ⟨τ, gs, _, _, _, _, _, ρ, h0, h1, h2, h3, _⟩
  exact ⟨ρ, h0, h1, h2, h3⟩

theorem wkB_parts {ρ : Subst} {b : Block} (h : wkB ρ b = true) :
    wkT ρ b.hdr = true ∧ (∀ c ∈ b.clauses, wkT ρ c.bounded = true ∧ wkT ρ c.tr = true) ∧
    ∀ p ∈ b.sizedParams, nonEx ρ p = true := by
  simp only [wkB, Bool.and_eq_true, List.all_eq_true] at h
  exact ⟨h.1.1, h.1.2, h.2⟩

/-- well-kindedness for a block only depends on its header, the set of its bounds and the set of its `Sized`
    parameters -/
theorem wkB_of_sub {ρ : Subst} {b b' : Block} (hh : b'.hdr = b.hdr) (hc : ∀ c ∈ b'.clauses, c ∈ b.clauses)
    (hs : ∀ p ∈ b'.sizedParams, p ∈ b.sizedParams) (h : wkB ρ b = true) : wkB ρ b' = true := by
  obtain ⟨w1, w2, w3⟩ := wkB_parts h
  simp only [wkB, Bool.and_eq_true, List.all_eq_true]
  exact ⟨⟨by rw [hh]; exact w1, fun c hcm => w2 c (hc c hcm)⟩, fun p hp => w3 p (hs p hp)⟩

/-- completeness direction: a block that applies is reached through the main impl and its helper impl -/
theorem spec_sub_gen (W : World) (F : Family) (m : Member) (q : T)
    (hm : memberOK F m = true) (hw : WorldTotal W F) (hθ : ThetaCovers F m) (hs : SizedCompat W F m) :
    applies W m.blk q → genSel W F m q := by
  rintro ⟨ρ, hρ, hq, hc, hsz⟩
  obtain ⟨⟨hθk0, hθh⟩, hθk⟩ := hθ
  obtain ⟨hwh, hwc, _⟩ := wkB_parts hρ
  have hhdr := memberOK_hdr hm
  have hlen := memberOK_len hm
  -- what a key gives
  have hkey : ∀ i (h : i < F.keys.length), ∃ c ∈ m.blk.clauses,
      c.bounded = inst m.θ (F.keys[i]).bounded ∧ c.tr = inst m.θ (F.keys[i]).tr ∧
      (∀ p, m.row[i]'(by omega) = some p → ((F.keys[i]).a, p) ∈ c.binds) ∧
      inst ρ c.bounded = inst (comp m.θ ρ) (F.keys[i]).bounded ∧ inst ρ c.tr = inst (comp m.θ ρ) (F.keys[i]).tr ∧
      wkT (comp m.θ ρ) (F.keys[i]).bounded = true ∧ wkT (comp m.θ ρ) (F.keys[i]).tr = true := by
    intro i h
    obtain ⟨c, hcm, hb, ht, hrow⟩ := memberOK_key hm i h (by omega)
    obtain ⟨kb, kt, cb, ct⟩ := hθk _ (List.getElem_mem h)
    obtain ⟨wb, wt⟩ := hwc c hcm
    rw [hb] at wb
    rw [ht] at wt
    refine ⟨c, hcm, hb, ht, hrow, ?_, ?_, wk_comp _ _ _ cb kb wb, wk_comp _ _ _ ct kt wt⟩
    · rw [hb]; exact inst_comp _ _ _ cb kb wb
    · rw [ht]; exact inst_comp _ _ _ ct kt wt
  have hτ : wkF (comp m.θ ρ) F = true := by
    simp only [wkF, Bool.and_eq_true, List.all_eq_true]
    refine ⟨wk_comp _ _ _ hθh hθk0 (by rw [hhdr]; exact hwh), ?_⟩
    intro k hk
    obtain ⟨i, hi, rfl⟩ := List.mem_iff_getElem.1 hk
    obtain ⟨_, _, _, _, _, _, _, w1, w2⟩ := hkey i hi
    exact ⟨w1, w2⟩
  -- one projection per key
  have hproj : ∀ i, i < F.keys.length → ∃ g, ∀ (h : i < F.keys.length),
      projOK W (comp m.θ ρ) F.keys[i] g ∧
      (∀ p, m.row[i]'(by omega) = some p → inst ρ p = g) ∧
      projOK W ρ ((F.keys[i]).via m.θ) g := by
    intro i h
    obtain ⟨c, hcm, hb, ht, hrow, eb, et, _, _⟩ := hkey i h
    obtain ⟨bs, hd, hbinds⟩ := hc c hcm
    obtain ⟨g, hg⟩ := hw _ (List.getElem_mem h) _ _ _ hd
    refine ⟨g, fun _ => ⟨⟨bs, by rw [← eb, ← et]; exact hd, hg⟩, ?_, ⟨bs, ?_, hg⟩⟩⟩
    · intro p hp
      have := hbinds _ _ (hrow p hp)
      rw [hg] at this; cases this; rfl
    · simp only [Key.via]; rw [← hb, ← ht]; exact hd
  obtain ⟨gs, hgl, hgs⟩ := finite_choice F.keys.length _ hproj
  refine ⟨comp m.θ ρ, gs, hτ, ?_, hs ρ hρ hsz, hgl, ?_, ρ, hρ, hq, hc, hsz, hgl, ?_⟩
  · rw [← inst_comp _ _ _ hθh hθk0 (by rw [hhdr]; exact hwh), hhdr]; exact hq
  · intro i h h2
    exact ((hgs i h2) h).1
  · intro i h h1 h2
    have := (hgs i h2) h
    split
    · next p hp => exact this.2.1 p hp
    · exact this.2.2

/-- every parameter occurrence of a key has a counterpart in the family's header that determines its value
    (DESIGN §6, clause 5): a type position one in type or generic-argument position, an expression position one in
    expression or generic-argument position, a generic-argument position one in generic-argument or type position -/
def KeysOverHeader (F : Family) : Prop :=
  ∀ k ∈ F.keys, occSub k.bounded F.hdr = true ∧ occSub k.tr F.hdr = true

/-- `keysOverHeaderB` (Sem.lean, evaluated by the driver's `family` command) decides `KeysOverHeader` -/
theorem keysOverHeaderB_iff (F : Family) : keysOverHeaderB F = true ↔ KeysOverHeader F := by
  simp only [keysOverHeaderB, KeysOverHeader, List.all_eq_true, Bool.and_eq_true]

/-- the helper arguments of the main impl are determined by the query -/
theorem helper_args_unique (W : World) (F : Family) (hk : KeysOverHeader F) (q : T) (τ1 τ2 : Subst) (gs1 gs2 : List T)
    (h1 : wkT τ1 F.hdr = true) (h2 : wkT τ2 F.hdr = true) (e1 : inst τ1 F.hdr = q) (e2 : inst τ2 F.hdr = q)
    (l1 : gs1.length = F.keys.length) (l2 : gs2.length = F.keys.length)
    (p1 : ∀ i (h : i < F.keys.length) (h2 : i < gs1.length), projOK W τ1 F.keys[i] gs1[i])
    (p2 : ∀ i (h : i < F.keys.length) (h2 : i < gs2.length), projOK W τ2 F.keys[i] gs2[i]) : gs1 = gs2 := by
  apply List.ext_getElem (by omega)
  intro i hi1 hi2
  have hi : i < F.keys.length := by omega
  obtain ⟨bs1, d1, a1⟩ := p1 i hi hi1
  obtain ⟨bs2, d2, a2⟩ := p2 i hi hi2
  obtain ⟨kb, kt⟩ := hk _ (List.getElem_mem hi)
  have hh : inst τ1 F.hdr = inst τ2 F.hdr := by rw [e1, e2]
  have eb := inst_agree τ1 τ2 F.hdr _ h1 h2 hh kb
  have et := inst_agree τ1 τ2 F.hdr _ h1 h2 hh kt
  rw [eb, et] at d1
  rw [d1] at d2
  cases d2
  rw [a1] at a2
  exact Option.some.inj a2

theorem wkF_hdr {τ : Subst} {F : Family} (h : wkF τ F = true) : wkT τ F.hdr = true := by
  simp only [wkF, Bool.and_eq_true] at h
  exact h.1

/-! ### The side conditions of the type-parameters-only model imply the present ones -/

mutual
theorem allParams_occ : ∀ (t : T) (n : String), n ∈ allParams t ↔ n ∈ bareOcc t ∨ n ∈ exOcc t ∨ n ∈ gaOcc t
  | .tparam m, n => by simp [allParams, bareOcc, exOcc, gaOcc]
  | .eparam m, n => by simp [allParams, bareOcc, exOcc, gaOcc]
  | .node k as ks, n => by
      cases hga : isGA k as ks with
      | some m =>
        obtain ⟨rfl, rfl, rfl⟩ := isGA_some hga
        simp [allParams, allParams.allParamsL, bareOcc, exOcc, gaOcc]
      | none =>
        rw [bareOcc_other hga, exOcc_other hga, gaOcc_other hga]
        simpa [allParams] using allParamsL_occ ks n
theorem allParamsL_occ : ∀ (ts : List T) (n : String),
    n ∈ allParams.allParamsL ts ↔ n ∈ bareOccL ts ∨ n ∈ exOccL ts ∨ n ∈ gaOccL ts
  | [], n => by simp [allParams.allParamsL, bareOccL, exOccL, gaOccL]
  | t :: ts, n => by
      simp only [allParams.allParamsL, bareOccL, exOccL, gaOccL, List.mem_append, allParams_occ t n, allParamsL_occ ts n]
      constructor
      · rintro ((h | h | h) | (h | h | h))
        · exact Or.inl (Or.inl h)
        · exact Or.inr (Or.inl (Or.inl h))
        · exact Or.inr (Or.inr (Or.inl h))
        · exact Or.inl (Or.inr h)
        · exact Or.inr (Or.inl (Or.inr h))
        · exact Or.inr (Or.inr (Or.inr h))
      · rintro ((h | h) | (h | h) | (h | h))
        · exact Or.inl (Or.inl h)
        · exact Or.inr (Or.inl h)
        · exact Or.inl (Or.inr (Or.inl h))
        · exact Or.inr (Or.inr (Or.inl h))
        · exact Or.inl (Or.inr (Or.inr h))
        · exact Or.inr (Or.inr (Or.inr h))
end

mutual
theorem exOcc_of_noEParams : ∀ (t : T), noEParams t = true → exOcc t = []
  | .tparam _, _ => by rw [exOcc]
  | .eparam _, h => by simp [noEParams] at h
  | .node k as ks, h => by
      cases hga : isGA k as ks with
      | some m => obtain ⟨rfl, rfl, rfl⟩ := isGA_some hga; rw [exOcc]
      | none => rw [exOcc_other hga]; exact exOccL_of_noEParams ks (by simpa [noEParams] using h)
theorem exOccL_of_noEParams : ∀ (ts : List T), noEParams.noEParamsL ts = true → exOccL ts = []
  | [], _ => by rw [exOccL]
  | t :: ts, h => by
      simp only [noEParams.noEParamsL, Bool.and_eq_true] at h
      rw [exOccL, exOcc_of_noEParams t h.1, exOccL_of_noEParams ts h.2]; rfl
end

theorem occSub_of_noEParams {u h : T} (hu : noEParams u = true) (hh : noEParams h = true)
    (hs : ∀ n ∈ allParams u, n ∈ allParams h) : occSub u h = true := by
  have key : ∀ n ∈ allParams u, n ∈ bareOcc h ∨ n ∈ gaOcc h := by
    intro n hn
    have := (allParams_occ h n).1 (hs n hn)
    rw [exOcc_of_noEParams h hh] at this
    simpa using this
  simp only [occSub, Bool.and_eq_true, List.all_eq_true, Bool.or_eq_true, List.contains_iff_mem]
  refine ⟨⟨?_, ?_⟩, ?_⟩
  · intro n hn
    exact key n ((allParams_occ u n).2 (Or.inl hn))
  · intro n hn
    rw [exOcc_of_noEParams u hu] at hn
    cases hn
  · intro n hn
    exact (key n ((allParams_occ u n).2 (Or.inr (Or.inr hn)))).symm

/-- `KeysOverHeader` as it was stated for the type-parameters-only model implies the present one -/
theorem keysOverHeader_of_noEParams (F : Family) (hte : noEParams F.hdr = true)
    (h : ∀ k ∈ F.keys, (∀ n ∈ allParams k.bounded, n ∈ allParams F.hdr) ∧ (∀ n ∈ allParams k.tr, n ∈ allParams F.hdr) ∧
      noEParams k.bounded = true ∧ noEParams k.tr = true) : KeysOverHeader F :=
  fun k hk => ⟨occSub_of_noEParams (h k hk).2.2.1 hte (h k hk).1, occSub_of_noEParams (h k hk).2.2.2 hte (h k hk).2.1⟩

end DI
