/-
  The refinement between the generated helper-trait program and the user's blocks (DESIGN.md §6):
  helper lemmas (composition of substitutions, finite choice) and the two inclusions.
-/
import DisjointImpls.Sem
namespace DI

theorem inst_node (σ : Subst) (h : noEx σ) (k : String) (as : List String) (ks : List T) :
    inst σ (.node k as ks) = .node k as (instL σ ks) := by
  unfold inst
  split
  · next n =>
    cases hl : lookup σ n with
    | none => simp [instL, inst, hl]
    | some v =>
      cases v with
      | ty t => simp [instL, inst, hl]
      | ex e => exact absurd hl (h n e)
      | identity => simp [instL, inst, hl]
  · rfl

theorem lookup_comp (θ ρ : Subst) (n : String) :
    lookup (comp θ ρ) n = (lookup θ n).map (fun v => match v with
      | .ty t => .ty (inst ρ t)
      | .ex e => .ex (inst ρ e)
      | .identity => match lookup ρ n with | some w => w | none => .identity) := by
  induction θ with
  | nil => simp [comp, lookup]
  | cons hd tl ih =>
    obtain ⟨m, v⟩ := hd
    unfold comp at ih ⊢
    cases v with
    | ty t =>
      simp only [List.map, lookup]
      by_cases hmn : m = n
      · simp [hmn]
      · simp [hmn]; exact ih
    | ex e =>
      simp only [List.map, lookup]
      by_cases hmn : m = n
      · simp [hmn]
      · simp [hmn]; exact ih
    | identity =>
      simp only [List.map, lookup]
      by_cases hmn : m = n
      · subst hmn; simp; rfl
      · simp [hmn]; exact ih

theorem noEx_comp (θ ρ : Subst) (hθ : noEx θ) (hρ : noEx ρ) : noEx (comp θ ρ) := by
  intro n e h
  rw [lookup_comp] at h
  cases hl : lookup θ n with
  | none => simp [hl] at h
  | some v =>
    cases v with
    | ty t => simp [hl] at h
    | ex e' => exact hθ n e' hl
    | identity =>
      simp [hl] at h
      cases hr : lookup ρ n with
      | none => simp [hr] at h
      | some w => simp [hr] at h; subst h; exact hρ n e hr

mutual
theorem inst_comp (θ ρ : Subst) (hθ : noEx θ) (hρ : noEx ρ) :
    ∀ (t : T), (∀ n ∈ allParams t, (lookup θ n).isSome = true) → inst ρ (inst θ t) = inst (comp θ ρ) t
  | .tparam n, h => by
      have hn := h n (by simp [allParams])
      cases hl : lookup θ n with
      | none => simp [hl] at hn
      | some v =>
        cases v with
        | ty t => simp [inst, hl, lookup_comp]
        | ex e => exact absurd hl (hθ n e)
        | identity =>
          simp only [inst, hl, lookup_comp, Option.map]
          cases hr : lookup ρ n with
          | none => simp
          | some w => cases w <;> simp
  | .eparam n, h => by
      have hn := h n (by simp [allParams])
      cases hl : lookup θ n with
      | none => simp [hl] at hn
      | some v =>
        cases v with
        | ty t =>
          simp only [inst, hl, lookup_comp, Option.map]
          cases hr : lookup ρ n with
          | none => simp
          | some w =>
            cases w with
            | ex e => exact absurd hr (hρ n e)
            | ty _ => simp
            | identity => simp
        | ex e => exact absurd hl (hθ n e)
        | identity =>
          simp only [inst, hl, lookup_comp, Option.map]
          cases hr : lookup ρ n with
          | none => simp
          | some w =>
            cases w with
            | ex e => exact absurd hr (hρ n e)
            | ty _ => simp
            | identity => simp
  | .node k as ks, h => by
      rw [inst_node θ hθ, inst_node ρ hρ, inst_node _ (noEx_comp θ ρ hθ hρ)]
      congr 1
      exact instL_comp θ ρ hθ hρ ks (by simpa [allParams] using h)
theorem instL_comp (θ ρ : Subst) (hθ : noEx θ) (hρ : noEx ρ) :
    ∀ (ts : List T), (∀ n ∈ allParams.allParamsL ts, (lookup θ n).isSome = true) →
      instL ρ (instL θ ts) = instL (comp θ ρ) ts
  | [], _ => rfl
  | t :: ts, h => by
      simp only [instL]
      rw [inst_comp θ ρ hθ hρ t (fun n hn => h n (by simp [allParams.allParamsL, hn])),
          instL_comp θ ρ hθ hρ ts (fun n hn => h n (by simp [allParams.allParamsL, hn]))]
end

/-- finite choice over an index range -/
theorem finite_choice {α : Type} [Inhabited α] (n : Nat) (P : Nat → α → Prop) :
    (∀ i, i < n → ∃ g, P i g) → ∃ gs : List α, gs.length = n ∧ ∀ i (h : i < gs.length), P i gs[i] := by
  induction n with
  | zero => intro _; exact ⟨[], rfl, fun i h => absurd h (by simp)⟩
  | succ n ih =>
    intro h
    obtain ⟨gs, hl, hg⟩ := ih (fun i hi => h i (Nat.lt_succ_of_lt hi))
    obtain ⟨g, hgn⟩ := h n (Nat.lt_succ_self n)
    refine ⟨gs ++ [g], by simp [hl], ?_⟩
    intro i hi
    by_cases hin : i < gs.length
    · rw [List.getElem_append_left hin]; exact hg i hin
    · have hig : i = gs.length := by simp at hi; omega
      subst hig
      simp
      rw [hl]; exact hgn


/-! ### What `memberOK` gives -/

theorem memberOK_hdr {F : Family} {m : Member} (h : memberOK F m = true) : inst m.θ F.hdr = m.blk.hdr := by
  unfold memberOK at h
  simp only [Bool.and_eq_true, beq_iff_eq] at h
  exact h.1.1

theorem memberOK_len {F : Family} {m : Member} (h : memberOK F m = true) : m.row.length = F.keys.length := by
  unfold memberOK at h
  simp only [Bool.and_eq_true, beq_iff_eq] at h
  exact h.1.2

theorem memberOK_key {F : Family} {m : Member} (h : memberOK F m = true) (i : Nat) (hk : i < F.keys.length)
    (hr : i < m.row.length) :
    ∃ c ∈ m.blk.clauses, c.bounded = inst m.θ (F.keys[i]).bounded ∧ c.tr = inst m.θ (F.keys[i]).tr ∧
      ∀ p, m.row[i] = some p → ((F.keys[i]).a, p) ∈ c.binds := by
  unfold memberOK at h
  simp only [Bool.and_eq_true, beq_iff_eq] at h
  have hall := h.2
  rw [List.all_eq_true] at hall
  have hmem : (F.keys[i], m.row[i]) ∈ List.zip F.keys m.row := by
    rw [List.mem_iff_getElem]
    refine ⟨i, by simp [List.length_zip]; omega, by simp [List.getElem_zip]⟩
  have hc := hall _ hmem
  unfold clauseFor at hc
  rw [List.any_eq_true] at hc
  obtain ⟨c, hcm, hcc⟩ := hc
  simp only [Bool.and_eq_true, beq_iff_eq] at hcc
  refine ⟨c, hcm, hcc.1.1, hcc.1.2, ?_⟩
  intro p hp
  have h3 := hcc.2
  simp only [hp] at h3
  simpa [List.contains_iff_mem] using h3

/-- every ground impl of a dispatch trait defines every associated type used as a key (true of any Rust
    program: an impl must define all associated types of its trait) -/
def WorldTotal (W : World) (F : Family) : Prop :=
  ∀ k ∈ F.keys, ∀ tr ty bs, W.disp tr ty = some bs → ∃ g, assoc bs k.a = some g

/-- the member's substitution binds every parameter of the family's header and keys (C09_binds_all +
    KeysOverHeaderParams) and binds no const -/
def ThetaCovers (F : Family) (m : Member) : Prop :=
  noEx m.θ ∧ (∀ n ∈ allParams F.hdr, (lookup m.θ n).isSome = true) ∧
  ∀ k ∈ F.keys, (∀ n ∈ allParams k.bounded, (lookup m.θ n).isSome = true) ∧
                (∀ n ∈ allParams k.tr, (lookup m.θ n).isSome = true)

/-- `Sized` requirements of the main impl follow from those of the member (fails for D7) -/
def SizedCompat (W : World) (F : Family) (m : Member) : Prop :=
  ∀ ρ, noEx ρ → sizedOK W ρ m.blk.sizedParams → sizedOK W (comp m.θ ρ) F.sizedParams

/-- soundness direction: whatever the generated program selects is a block that applies -/
theorem gen_sub_spec (W : World) (F : Family) (m : Member) (q : T) :
    genSel W F m q → applies W m.blk q := by
  rintro ⟨τ, gs, _, _, _, _, _, ρ, h0, h1, h2, h3, _⟩
  exact ⟨ρ, h0, h1, h2, h3⟩

/-- completeness direction: a block that applies is reached through the main impl and its helper impl -/
theorem spec_sub_gen (W : World) (F : Family) (m : Member) (q : T)
    (hm : memberOK F m = true) (hw : WorldTotal W F) (hθ : ThetaCovers F m) (hs : SizedCompat W F m) :
    applies W m.blk q → genSel W F m q := by
  rintro ⟨ρ, hρ, hq, hc, hsz⟩
  obtain ⟨hθ0, hθh, hθk⟩ := hθ
  have hhdr := memberOK_hdr hm
  have hlen := memberOK_len hm
  have hτ : noEx (comp m.θ ρ) := noEx_comp _ _ hθ0 hρ
  -- one projection per key
  have hproj : ∀ i, i < F.keys.length → ∃ g, ∀ (h : i < F.keys.length),
      projOK W (comp m.θ ρ) F.keys[i] g ∧
      (∀ p, m.row[i]'(by omega) = some p → inst ρ p = g) ∧
      projOK W ρ ((F.keys[i]).via m.θ) g := by
    intro i h
    obtain ⟨c, hcm, hb, ht, hrow⟩ := memberOK_key hm i h (by omega)
    obtain ⟨bs, hd, hbinds⟩ := hc c hcm
    obtain ⟨hkb, hkt⟩ := hθk _ (List.getElem_mem h)
    have eb : inst ρ c.bounded = inst (comp m.θ ρ) (F.keys[i]).bounded := by
      rw [hb]; exact inst_comp _ _ hθ0 hρ _ hkb
    have et : inst ρ c.tr = inst (comp m.θ ρ) (F.keys[i]).tr := by
      rw [ht]; exact inst_comp _ _ hθ0 hρ _ hkt
    obtain ⟨g, hg⟩ := hw _ (List.getElem_mem h) _ _ _ hd
    refine ⟨g, fun _ => ⟨⟨bs, by rw [← eb, ← et]; exact hd, hg⟩, ?_, ⟨bs, ?_, hg⟩⟩⟩
    · intro p hp
      have := hbinds _ _ (hrow p hp)
      rw [hg] at this; cases this; rfl
    · simp only [Key.via]; rw [← hb, ← ht]; exact hd
  obtain ⟨gs, hgl, hgs⟩ := finite_choice F.keys.length _ hproj
  refine ⟨comp m.θ ρ, gs, hτ, ?_, hs ρ hρ hsz, hgl, ?_, ρ, hρ, hq, hc, hsz, hgl, ?_⟩
  · rw [← inst_comp _ _ hθ0 hρ _ hθh, hhdr]; exact hq
  · intro i h h2
    exact ((hgs i h2) h).1
  · intro i h h1 h2
    have := (hgs i h2) h
    split
    · next p hp => exact this.2.1 p hp
    · exact this.2.2


/-! ### Uniqueness of the matching substitution (for C04 and "never another block") -/

mutual
theorem inst_agree (σ τ : Subst) (hσ : noEx σ) (hτ : noEx τ) :
    ∀ (t : T), inst σ t = inst τ t → ∀ (u : T), (∀ n ∈ allParams u, n ∈ allParams t) → noEParams u = true → noEParams t = true →
      inst σ u = inst τ u
  | t, h, u, hu, hue, hte => by
      have key : ∀ n ∈ allParams t, inst σ (.tparam n) = inst τ (.tparam n) := tparam_agree σ τ hσ hτ t h hte
      exact inst_congr_tp σ τ hσ hτ u (fun n hn => key n (hu n hn)) hue
theorem tparam_agree (σ τ : Subst) (hσ : noEx σ) (hτ : noEx τ) :
    ∀ (t : T), inst σ t = inst τ t → noEParams t = true → ∀ n ∈ allParams t, inst σ (.tparam n) = inst τ (.tparam n)
  | .tparam m, h, _, n, hn => by
      simp [allParams] at hn; subst hn; exact h
  | .eparam m, _, he, _, _ => by simp [noEParams] at he
  | .node k as ks, h, he, n, hn => by
      rw [inst_node σ hσ, inst_node τ hτ] at h
      injection h with _ _ hks
      exact tparamL_agree σ τ hσ hτ ks hks (by simpa [noEParams] using he) n (by simpa [allParams] using hn)
theorem tparamL_agree (σ τ : Subst) (hσ : noEx σ) (hτ : noEx τ) :
    ∀ (ts : List T), instL σ ts = instL τ ts → noEParams.noEParamsL ts = true →
      ∀ n ∈ allParams.allParamsL ts, inst σ (.tparam n) = inst τ (.tparam n)
  | [], _, _, n, hn => by simp [allParams.allParamsL] at hn
  | t :: ts, h, he, n, hn => by
      simp only [instL] at h
      injection h with h1 h2
      simp only [noEParams.noEParamsL, Bool.and_eq_true] at he
      simp only [allParams.allParamsL, List.mem_append] at hn
      rcases hn with hn | hn
      · exact tparam_agree σ τ hσ hτ t h1 he.1 n hn
      · exact tparamL_agree σ τ hσ hτ ts h2 he.2 n hn
theorem inst_congr_tp (σ τ : Subst) (hσ : noEx σ) (hτ : noEx τ) :
    ∀ (u : T), (∀ n ∈ allParams u, inst σ (.tparam n) = inst τ (.tparam n)) → noEParams u = true → inst σ u = inst τ u
  | .tparam m, h, _ => h m (by simp [allParams])
  | .eparam m, _, he => by simp [noEParams] at he
  | .node k as ks, h, he => by
      rw [inst_node σ hσ, inst_node τ hτ]
      congr 1
      exact instL_congr_tp σ τ hσ hτ ks (by simpa [allParams] using h) (by simpa [noEParams] using he)
theorem instL_congr_tp (σ τ : Subst) (hσ : noEx σ) (hτ : noEx τ) :
    ∀ (us : List T), (∀ n ∈ allParams.allParamsL us, inst σ (.tparam n) = inst τ (.tparam n)) →
      noEParams.noEParamsL us = true → instL σ us = instL τ us
  | [], _, _ => rfl
  | u :: us, h, he => by
      simp only [noEParams.noEParamsL, Bool.and_eq_true] at he
      simp only [instL]
      rw [inst_congr_tp σ τ hσ hτ u (fun n hn => h n (by simp [allParams.allParamsL, hn])) he.1,
          instL_congr_tp σ τ hσ hτ us (fun n hn => h n (by simp [allParams.allParamsL, hn])) he.2]
end

/-- every parameter of a key occurs in the family's header; no expression parameters (DESIGN §6, clause 5) -/
def KeysOverHeader (F : Family) : Prop :=
  noEParams F.hdr = true ∧
  ∀ k ∈ F.keys, (∀ n ∈ allParams k.bounded, n ∈ allParams F.hdr) ∧ (∀ n ∈ allParams k.tr, n ∈ allParams F.hdr) ∧
    noEParams k.bounded = true ∧ noEParams k.tr = true

/-- the helper arguments of the main impl are determined by the query -/
theorem helper_args_unique (W : World) (F : Family) (hk : KeysOverHeader F) (q : T) (τ1 τ2 : Subst) (gs1 gs2 : List T)
    (h1 : noEx τ1) (h2 : noEx τ2) (e1 : inst τ1 F.hdr = q) (e2 : inst τ2 F.hdr = q)
    (l1 : gs1.length = F.keys.length) (l2 : gs2.length = F.keys.length)
    (p1 : ∀ i (h : i < F.keys.length) (h2 : i < gs1.length), projOK W τ1 F.keys[i] gs1[i])
    (p2 : ∀ i (h : i < F.keys.length) (h2 : i < gs2.length), projOK W τ2 F.keys[i] gs2[i]) : gs1 = gs2 := by
  apply List.ext_getElem (by omega)
  intro i hi1 hi2
  have hi : i < F.keys.length := by omega
  obtain ⟨bs1, d1, a1⟩ := p1 i hi hi1
  obtain ⟨bs2, d2, a2⟩ := p2 i hi hi2
  obtain ⟨hte, hkk⟩ := hk
  obtain ⟨kb, kt, kbe, kte⟩ := hkk _ (List.getElem_mem hi)
  have hh : inst τ1 F.hdr = inst τ2 F.hdr := by rw [e1, e2]
  have eb := inst_agree τ1 τ2 h1 h2 F.hdr hh _ kb kbe hte
  have et := inst_agree τ1 τ2 h1 h2 F.hdr hh _ kt kte hte
  rw [eb, et] at d1
  rw [d1] at d2
  cases d2
  rw [a1] at a2
  exact Option.some.inj a2

end DI
