/-
  Executable definitions for the ROUND TRIP of parameter canonicalisation and the converse of alpha-invariance (C13;
  statements in `Props/C13.lean` `C13_round_trip*`, `C13_same_canon_only_if_renaming*`, proofs in
  `Lemmas/CanonRoundTrip.lean`). Definitions only, core only (it imports `CanonIsRenamingDefs.lean` and nothing else), so
  that every side condition can be evaluated on generated cases:
  * `Renaming.inv_rt r`           the inverse renaming: the pairs of each name space swapped;
  * `Renaming.comp_rt r ρ`        "first `r`, then `ρ`": every pair `(x, m)` of `r` becomes `(x, ρ m)`;
  * `unqsT_rt P t`, `unqself_rt r t`   the inverse presentation change: a type / expression path `<X>::rest…` exactly as
                                  the resolver prints it (`qselfPath`) with `P X` is written `X::rest…` again;
  * `qsInvOK_rt P t`              what "`unqsT_rt P` undoes `qsT_cr P`" needs of the tree `t` BEFORE the presentation
                                  change: it contains no path that is already written `<X>::rest…` with `P X`, and an
                                  expression path `X::rest…` with `P X` has no attributes (the resolver drops them);
  * `acOK_rt r t`                 what "`acT_cr ρ ∘ acT_cr r` is `acT_cr (r ; ρ)`" needs of the tree (`ρ` defined exactly on
                                  the new names of `r`): an identifier in parameter position that `r` does not rename is
                                  not one of the new names of its name space (no capture), and a LONE path that `r`
                                  renames has no atoms and no attributes (a `tparam` / `eparam` leaf has neither);
  * `declsFresh_rt r item`        a declared type / const parameter that `r` does not rename is not one of the new names;
  * `loneOK_rt r t`               the part of `acOK_rt` that `canonWF` does not give (lone renamed paths: no atoms, no attributes);
  * `roundTripOK_rt item`         the ONE side condition of the round trip, on the block before canonicalisation;
  * `renamingBetween_rt item item'`  the computed renaming `r ; r'⁻¹` between two blocks.
-/
import DisjointImpls.Lemmas.CanonIsRenamingDefs
namespace DI

/-! ### Inverse and composition of renamings -/

def swapPairs_rt (m : List (String × String)) : List (String × String) := m.map (fun p => (p.2, p.1))

/-- the inverse renaming: new spelling ↦ old spelling, per name space -/
def Renaming.inv_rt (r : Renaming) : Renaming := ⟨swapPairs_rt r.lt, swapPairs_rt r.ty, swapPairs_rt r.co⟩

/-- first `r`, then `ρ` (on the new spellings of `r`), per name space -/
def Renaming.comp_rt (r ρ : Renaming) : Renaming :=
  ⟨r.lt.map (fun p => (p.1, rn ρ.lt p.2)), r.ty.map (fun p => (p.1, rn ρ.ty p.2)), r.co.map (fun p => (p.1, rn ρ.co p.2))⟩

/-! ### The inverse presentation change -/

/-- no attributes, as the decoder prints it -/
def emptyAttrs_rt : T := .node "Ign" [] [.node "List" [] []]

/-- the qualified self `<X>` exactly as `qselfPath` prints it -/
def qselfNode_rt (x : String) : T := (qselfPath x []).1

/-- the path `::segs…` exactly as `qselfPath` prints it -/
def colonPath_rt (segs : List T) : T := (qselfPath "" segs).2

/-- `some X` iff the node is the qualified self `<X>` of `qselfPath` -/
def qselfOf_rt (q : T) : Option String :=
  match q with
  | .node _ _ [.node _ _ [.tparam x, _, _]] => if q == qselfNode_rt x then some x else none
  | _ => none

/-- the segment list of a path node -/
def pathSegs_rt : T → List T
  | .node _ _ [_, .node _ _ segs] => segs
  | _ => []

/-- the node is the path `::segs…` of `qselfPath` -/
def isColonPath_rt (p : T) : Bool := p == colonPath_rt (pathSegs_rt p)

/-- `<X>::rest…` exactly as the resolver prints it, with `P X` and at least one segment -/
def unqsFires_rt (P : String → Bool) (q p : T) : Option String :=
  match qselfOf_rt q with
  | some x => if isColonPath_rt p && !(pathSegs_rt p).isEmpty && P x then some x else none
  | none => none

/-- the plain path `x::segs…` (no leading `::`, no arguments on `x`) -/
def plainPathOf_rt (x : String) (segs : List T) : T :=
  .node "Path" [] [.node "IgnL" [] [noneNode], .node "List" [] (mkSegment x :: segs)]

mutual
/-- the inverse of the presentation change `qsT_cr P`: every type / expression path `<X>::rest…` (exactly the form
    `qselfPath` prints) with `P X` is written `X::rest…`; nothing else changes -/
def unqsT_rt (P : String → Bool) : T → T
  | .tparam n => .tparam n
  | .eparam n => .eparam n
  | .node "Ign" as ks => .node "Ign" as ks
  | .node "Eq" as ks => .node "Eq" as ks
  | .node "Lifetime" as [.node "Ident" [x] []] => .node "Lifetime" as [.node "Ident" [x] []]
  | .node "Type::Path" as [qself, path] =>
      (match unqsFires_rt P qself path with
       | some x => .node "Type::Path" as [noneNode, plainPathOf_rt x (pathSegs_rt (unqsT_rt P path))]
       | none => .node "Type::Path" as [unqsT_rt P qself, unqsT_rt P path])
  | .node "Expr::Path" as [att, qself, path] =>
      (match unqsFires_rt P qself path with
       | some x => .node "Expr::Path" as [unqsT_rt P att, noneNode, plainPathOf_rt x (pathSegs_rt (unqsT_rt P path))]
       | none => .node "Expr::Path" as [unqsT_rt P att, unqsT_rt P qself, unqsT_rt P path])
  | .node k as ks => .node k as (unqsL_rt P ks)
def unqsL_rt (P : String → Bool) : List T → List T
  | [] => []
  | t :: ts => unqsT_rt P t :: unqsL_rt P ts
end

/-- **the inverse presentation change for the canonical type names of `r`**: `<_ŠČn>::rest…` is written `_ŠČn::rest…` -/
def unqself_rt (r : Renaming) : T → T := unqsT_rt r.tyNames_cr.contains

mutual
/-- what `unqsT_rt P (qsT_cr P t) = t` needs of `t`: no path of `t` is already written `<X>::rest…` with `P X` (the
    presentation change is not injective: `X::A` and `<X>::A` are both printed `<X>::A`), and an expression path
    `X::rest…` with `P X` has no attributes (the resolver replaces the whole `ExprPath`, param.rs:377) -/
def qsInvOK_rt (P : String → Bool) : T → Bool
  | .tparam _ => true
  | .eparam _ => true
  | .node "Ign" _ _ => true
  | .node "Eq" _ _ => true
  | .node "Lifetime" _ [.node "Ident" [_] []] => true
  | .node "Type::Path" _ [q, p] => qsInvOK_rt P q && qsInvOK_rt P p && (unqsFires_rt P q p).isNone
  | .node "Expr::Path" _ [att, q, p] =>
      qsInvOK_rt P att && qsInvOK_rt P q && qsInvOK_rt P p && (unqsFires_rt P q p).isNone &&
      ((qsFires_cr P q p).isNone || att == emptyAttrs_rt)
  | .node _ _ ks => qsInvOKL_rt P ks
def qsInvOKL_rt (P : String → Bool) : List T → Bool
  | [] => true
  | t :: ts => qsInvOK_rt P t && qsInvOKL_rt P ts
end

/-! ### The side condition of the composition of two textual renamings -/

/-- `x` is not one of the new names of the map -/
def notNew_rt (m : List (String × String)) (x : String) : Bool := !((m.map Prod.snd).contains x)

/-- an identifier in lifetime / type position: renamed, or not one of the new names (no capture) -/
def freshOr_rt (m : List (String × String)) (x : String) : Bool := (rlookup m x).isSome || notNew_rt m x

/-- … in expression position (type parameters first, then const parameters) -/
def freshOrEx_rt (r : Renaming) (x : String) : Bool :=
  (rlookup r.ty x).isSome || (rlookup r.co x).isSome || (notNew_rt r.ty x && notNew_rt r.co x)

mutual
/-- what `acT_cr ρ (acT_cr r t) = acT_cr (r ; ρ) t` needs of `t` when `ρ` is defined exactly on the new names of `r`:
    no capture (an identifier in parameter position that `r` does not rename is not a new name of its name space), and a
    lone path renamed by `r` — it becomes a `tparam` / `eparam` leaf — has no atoms and (expression path) no attributes -/
def acOK_rt (r : Renaming) : T → Bool
  | .tparam n => freshOr_rt r.ty n
  | .eparam n => freshOrEx_rt r n
  | .node "Ign" _ _ => true
  | .node "Eq" _ _ => true
  | .node "Lifetime" _ [.node "Ident" [x] []] => freshOr_rt r.lt x
  | .node "Type::Path" as [q, p] =>
      acOK_rt r q && acOK_rt r p &&
      (match firstSegIdent p with
       | some x => freshOr_rt r.ty x && (!((rlookup r.ty x).isSome && lonePath_cr q p) || as.isEmpty)
       | none => true)
  | .node "Expr::Path" as [att, q, p] =>
      acOK_rt r att && acOK_rt r q && acOK_rt r p &&
      (match firstSegIdent p with
       | some x => freshOrEx_rt r x &&
           (!(((rlookup r.ty x).isSome || (rlookup r.co x).isSome) && lonePath_cr q p) || (as.isEmpty && att == emptyAttrs_rt))
       | none => true)
  | .node _ _ ks => acOKL_rt r ks
def acOKL_rt (r : Renaming) : List T → Bool
  | [] => true
  | t :: ts => acOK_rt r t && acOKL_rt r ts
end

mutual
/-- the part of `acOK_rt` that does not follow from `canonWF`: a LONE path whose identifier `r` renames — it becomes a
    `tparam` / `eparam` leaf — has no atoms and (expression path) no attributes -/
def loneOK_rt (r : Renaming) : T → Bool
  | .tparam _ => true
  | .eparam _ => true
  | .node "Ign" _ _ => true
  | .node "Eq" _ _ => true
  | .node "Lifetime" _ [.node "Ident" [_] []] => true
  | .node "Type::Path" as [q, p] =>
      loneOK_rt r q && loneOK_rt r p &&
      (match firstSegIdent p with
       | some x => !((rlookup r.ty x).isSome && lonePath_cr q p) || as.isEmpty
       | none => true)
  | .node "Expr::Path" as [att, q, p] =>
      loneOK_rt r att && loneOK_rt r q && loneOK_rt r p &&
      (match firstSegIdent p with
       | some x => !(((rlookup r.ty x).isSome || (rlookup r.co x).isSome) && lonePath_cr q p) || (as.isEmpty && att == emptyAttrs_rt)
       | none => true)
  | .node _ _ ks => loneOKL_rt r ks
def loneOKL_rt (r : Renaming) : List T → Bool
  | [] => true
  | t :: ts => loneOK_rt r t && loneOKL_rt r ts
end

/-- a declared type / const parameter that `r` does not rename is not one of the new names of `r` (the shapes are the
    ones `renameDecl` rewrites) -/
def declFresh_rt (r : Renaming) : T → Bool
  | .node "GenericParam::Type" [] [.node "TypeParam" [] (_ :: .node "Ident" [x] [] :: _)] => freshOr_rt r.ty x
  | .node "GenericParam::Const" [] [.node "ConstParam" [] (_ :: .node "Ident" [x] [] :: _)] => freshOr_rt r.co x
  | _ => true

def declsFresh_rt (r : Renaming) (item : T) : Bool := (implParams item).all (declFresh_rt r)

/-! ### The side condition of the round trip -/

/-- **the side condition of the round trip**, evaluated on the block before canonicalisation (`r` the computed renaming):
    * `canonWF item`        the side condition of idempotence / of "canonicalisation is a renaming"; it gives the no-capture
                            part of `acOK_rt r item` and `declsFresh_rt r item` (`acOK_of_canonWF_rt`);
    * `decNF_cr item`       the block is in decoder normal form (a `tparam` / `eparam` leaf is a reserved identifier, a lone
                            `Type::Path` / `Expr::Path` is not);
    * `loneOK_rt r item`    the lone paths that are parameters have no atoms and no attributes (`[T; #[a] N]`: the attribute
                            is dropped by the resolver);
    * `qsInvOK_rt …`        the user did not write `<T>::A` for a live type parameter `T` (it is printed like `T::A`), and
                            `T::A` in expression position has no attributes -/
def roundTripOK_rt (item : T) : Bool :=
  let r := (indexImpl item).renaming
  canonWF item && decNF_cr item && loneOK_rt r item && qsInvOK_rt r.tyNames_cr.contains (alphaRenameC_cr r item)

/-- **the renaming between two blocks**: canonicalise the first, undo the canonicalisation of the second (`r ; r'⁻¹`) -/
def renamingBetween_rt (item item' : T) : Renaming :=
  (indexImpl item).renaming.comp_rt (indexImpl item').renaming.inv_rt

end DI
