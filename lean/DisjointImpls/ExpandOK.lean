/-
  `ExpandOK`: the generated items have the shape the refinement theorem (Lemmas/Refine.lean, `genSel` /
  `helperApplies`) assumes — every helper impl is its member with the trait path renamed and
  `row ++ member's trait arguments` as arguments (a payload as a generic argument, a wildcard as the projection of
  the key through the member's substitution θ), and the main impl has the family's trait path and self type, one
  predicate `bounded: trait` per key, a predicate `Self: helper<lifetimes, projections of the keys in order, …>`.

  This file is a CHECKER: it reads the given trees (with generic positional accessors, like the former Python
  `expand_ok` of harness/props/shape.py, which it mirrors step by step) and does not call the generators of
  `Expand.lean`. Core-only, no proofs.
-/
import DisjointImpls.Group
namespace DI
namespace XOK

/-! ### positional accessors (total: a missing child is the dummy node `?`) -/

def dummy : T := .node "?" [] []

def kids : T → List T
  | .node _ _ ks => ks
  | _ => []
def kind : T → String
  | .node k _ _ => k
  | .tparam _ => "P"
  | .eparam _ => "E"
def atoms : T → List String
  | .node _ as _ => as
  | _ => []
def kid (t : T) (i : Nat) : T := (kids t).getD i dummy
def lastOf (l : List T) : T := l.getLast?.getD dummy

/-- the trait path of an `ItemImpl` (`trait_: Some((bang, path, for))`) -/
def traitPathOf (item : T) : Option T :=
  let tr := kid item 4
  if kind tr != "Some" then none else some (kid (kid tr 0) 1)

/-- the segments of a `Path [leading_colon, List segments]` -/
def segsOf (path : T) : List T := kids (kid path 1)
def lastSeg (path : T) : T := lastOf (segsOf path)

/-- angle-bracketed arguments of a segment, `[]` otherwise -/
def segArgs (seg : T) : List T :=
  let a := kid seg 1
  if kind a == "PathArguments::AngleBracketed" then kids (kid a 1) else []

def segIdent (seg : T) : String := (atoms (kid seg 0)).headD ""

/-- segments of a trait path with bindings removed and `Tr<>` identified with `Tr` -/
def normSegs (segs : List T) : List (String × List T) :=
  segs.map (fun s => (segIdent s, (segArgs s).filter (fun a => kind a != "GenericArgument::AssocType")))

/-- `GenericArgument::Type [Type::Path [Some [QSelf [ty, pos, as]], Path [.., segs]]]` ↦ (ty, trait segments, assoc) -/
def projectionParts (arg : T) : Option (T × List T × String) :=
  if kind arg != "GenericArgument::Type" then none else
  let t := kid arg 0
  if kind t != "Type::Path" || kind (kid t 0) != "Some" then none else
  let qself := kid (kid t 0) 0
  let segs := segsOf (kid t 1)
  some (kid qself 0, segs.dropLast, segIdent (lastOf segs))

def isSelfTy (t : T) : Bool :=
  kind t == "Type::Path" &&
    (let segs := segsOf (kid t 1)
     segs.length == 1 && atoms (kid (segs.headD dummy) 0) == ["Self"])

/-- a dispatch key as the checker compares it: bounded type, normalised trait segments, associated type -/
abbrev CKey := T × List (String × List T) × String

def keysOf (idents : List (BKey × String)) : List CKey :=
  idents.map (fun kx => (kx.1.1, normSegs (segsOf kx.1.2), kx.2))

/-! ### helper impls -/

/-- one leading argument of a helper impl against its key and the member's row entry -/
def checkArg (θ : Subst) (arg : T) (key : CKey) (payload : Option T) : Bool :=
  match payload with
  | some p => arg == .node "GenericArgument::Type" [] [p] || arg == .node "GenericArgument::Const" [] [p]
  | none =>
      match projectionParts arg with
      | none => false
      | some pp => pp.1 == inst θ key.1 && normSegs pp.2.1 == key.2.1 && pp.2.2 == key.2.2

/-- `zip(lead, keys)` with the row entry of the same position (`None` when the row is too short) -/
def checkArgs (θ : Subst) : List T → List CKey → List (Option T) → Bool
  | arg :: args, key :: keys, row => checkArg θ arg key (row.headD none) && checkArgs θ args keys row.tail
  | _, _, _ => true

/-- one member / helper-impl pair -/
def checkHelper (inherent : Bool) (keys : List CKey) (m h : T) (row : List (Option T)) (θ : Subst) : Bool :=
  kid m 3 == kid h 3 && kid m 5 == kid h 5 && kid m 2 == kid h 2 && (inherent || kid m 6 == kid h 6) &&
  (match traitPathOf h with
   | none => false
   | some hpath =>
      let hargs := segArgs (lastSeg hpath)
      let nkeys := keys.length
      let lead := hargs.take nkeys
      inherent ||
        (match traitPathOf m with
         | none => false
         | some mpath =>
            hargs.drop nkeys == segArgs (lastSeg mpath) && checkArgs θ lead keys row && lead.length == nkeys))

/-- `enumerate(zip(members, helpers))`, the row and the substitution of the same position (empty when missing) -/
def checkHelpers (inherent : Bool) (keys : List CKey) : List T → List T → List (List (Option T)) → List Subst → Bool
  | m :: ms, h :: hs, rows, thetas =>
      checkHelper inherent keys m h (rows.headD []) (thetas.headD []) && checkHelpers inherent keys ms hs rows.tail thetas.tail
  | _, _, _, _ => true

/-! ### main impl -/

def wherePredsOf (generics : T) : List T :=
  let wc := kid generics 3
  if kind wc == "Some" then kids (kid (kid wc 0) 0) else []

/-- the trait paths of the `TypeParamBound::Trait` bounds of a `WherePredicate::Type`, with its bounded type -/
def predBounds (p : T) : Option (T × List T) :=
  if kind p != "WherePredicate::Type" then none else
  let pt := kid p 0
  some (kid pt 1, (kids (kid pt 2)).filterMap (fun b =>
    if kind b != "TypeParamBound::Trait" then none else some (kid (kid b 0) 3)))

/-- the last `Self: path` bound -/
def selfPred (preds : List T) : Option T :=
  (preds.filterMap predBounds).foldl (fun acc bp => if isSelfTy bp.1 then (bp.2.foldl (fun _ path => some path) acc) else acc) none

/-- all `(bounded, normalised trait)` pairs of the non-`Self` predicates -/
def havePairs (preds : List T) : List (T × List (String × List T)) :=
  (preds.filterMap predBounds).flatMap (fun bp => if isSelfTy bp.1 then [] else bp.2.map (fun path => (bp.1, normSegs (segsOf path))))

def checkSelfArgs : List T → List CKey → Bool
  | _, [] => true
  | [], _ :: _ => false
  | a :: as, key :: keys =>
      (match projectionParts a with
       | none => false
       | some pp => pp.1 == key.1 && normSegs pp.2.1 == key.2.1 && pp.2.2 == key.2.2) && checkSelfArgs as keys

def checkMain (inherent : Bool) (gid : T) (keys : List CKey) (main : T) : Bool :=
  (inherent || (match traitPathOf main with
     | some mpath => T.node "Some" [] [mpath] == kid gid 0
     | none => false)) &&
  (inherent || kid main 5 == kid gid 1) &&
  (let preds := wherePredsOf (kid main 3)
   keys.all (fun key => (havePairs preds).contains (key.1, key.2.1)) &&
   (match selfPred preds with
    | none => false
    | some sp => checkSelfArgs ((segArgs (lastSeg sp)).filter (fun a => kind a != "GenericArgument::Lifetime")) keys))

end XOK

/-- the checker on explicit data (what the driver receives for a real expansion) -/
def expandOKCore (gid : T) (idents : List (BKey × String)) (rows : List (List (Option T))) (members : List T)
    (thetas : List Subst) (helpers : List T) (main : T) : Bool :=
  let keys := XOK.keysOf idents
  let inherent := XOK.kind (XOK.kid gid 0) == "None"
  helpers.length == members.length &&
  XOK.checkHelpers inherent keys members helpers rows thetas &&
  XOK.checkMain inherent gid keys main

/-- `ExpandOK` for a formed family `g`, the members' substitutions, the helper impls and the main impl -/
def expandOKB (g : T × ABG × List Blk) (thetas : List Subst) (helpers : List T) (main : T) : Bool :=
  expandOKCore g.1 g.2.1.idents g.2.1.payloads (g.2.2.map (·.item)) thetas helpers main

/-- the members' substitutions, as the driver's `family` command computes them (`mkMember`) -/
def thetasOf (g : T × ABG × List Blk) : List Subst :=
  g.2.2.map (fun b => match sup g.1 (mkHdr b.item) with
    | .yes σ _ => σ
    | _ => [])

end DI
