/-
  Executable definitions for the alpha-invariance and declaration-order theorems of parameter canonicalisation
  (C13 / C06; statements in `Props/C13.lean`, `Props/C06.lean`; proofs in `Lemmas/CanonAlpha.lean`,
  `Lemmas/CanonAlphaHeader.lean`, `Lemmas/CanonDeclOrder.lean`). Definitions only, core only (like `CanonWF.lean`), so
  that the side conditions can be evaluated on every generated case:
  * `alphaRename π item`   the user-level consistent renaming of the declared generic parameters of an impl;
  * `alphaOK π item`       its side condition (`domOK`, `injOK`, `deadFixed`, `alOK`), `alphaOKh` without `deadFixed`;
  * `formOK π`             the tree-level renaming is the textual one (reserved ↔ reserved, ordinary ↔ ordinary);
  * `implParams`, `setParams`  the declared parameter list of an impl, and replacing it (declaration order);
  * `hdrVis item`          the indexer visits the whole trait and self type.
-/
import DisjointImpls.CanonWF
namespace DI

/-! ### The textual renaming -/

/-- the path with the identifier of its first segment respelled -/
def mapHead (f : String → String) : T → T
  | .node "Path" [] [a, .node "List" [] (.node "PathSegment" [] [.node "Ident" [x] [], args] :: rest)] =>
      .node "Path" [] [a, .node "List" [] (.node "PathSegment" [] [.node "Ident" [f x] [], args] :: rest)]
  | t => t

mutual
/-- user-level consistent renaming of the parameter occurrences of a tree by the per-kind map `π`: lifetimes, lone
    parameter paths in their reserved form (`tparam` / `eparam`), and the identifier of the first segment of type and
    expression paths (`T::Assoc` becomes `T'::Assoc`); ignored children and verbatim leaves are kept, the form of a
    node is never changed -/
def arT (π : Renaming) : T → T
  | .tparam n => .tparam (rn π.ty n)
  | .eparam n => .eparam (((rlookup π.ty n).or (rlookup π.co n)).getD n)
  | .node "Ign" as ks => .node "Ign" as ks
  | .node "Eq" as ks => .node "Eq" as ks
  | .node "Lifetime" as [.node "Ident" [x] []] => .node "Lifetime" as [.node "Ident" [rn π.lt x] []]
  | .node "Type::Path" as [qself, path] => .node "Type::Path" as [arT π qself, mapHead (rn π.ty) (arT π path)]
  | .node "Expr::Path" as [att, qself, path] =>
      .node "Expr::Path" as [arT π att, arT π qself, mapHead (fun x => ((rlookup π.ty x).or (rlookup π.co x)).getD x) (arT π path)]
  | .node k as ks => .node k as (arL π ks)
def arL (π : Renaming) : List T → List T
  | [] => []
  | t :: ts => arT π t :: arL π ts
end

/-- **the user-level renaming of an impl**: the declared type and const parameters are respelled in place (the declared
    lifetimes are `Lifetime` nodes), then every occurrence -/
def alphaRename (π : Renaming) (item : T) : T := arT π (renameImplDecls π item)

/-! ### The executable side conditions -/

/-- the renaming together with the declared names of the impl -/
def alphaCtx (π : Renaming) (item : T) : CCtx :=
  let g := (implGenerics item).getD (.node "?" [] [])
  ⟨π, kindNames g "GenericParam::Lifetime", kindNames g "GenericParam::Type", kindNames g "GenericParam::Const"⟩

mutual
/-- no capture: an identifier in parameter position (lifetime, `tparam` / `eparam`, first segment of a type or
    expression path) that is not a declared parameter is not spelled like the new spelling of one -/
def alOK (c : CCtx) : T → Bool
  | .tparam n => okTy c n
  | .eparam n => okEx c n
  | .node "Ign" _ _ => true
  | .node "Eq" _ _ => true
  | .node "Lifetime" _ [.node "Ident" [x] []] => okLt c x
  | .node "Type::Path" _ [q, p] =>
      alOK c q && alOK c p && (match firstSegIdent p with | some x => okTy c x | none => true)
  | .node "Expr::Path" _ [att, q, p] =>
      alOK c att && alOK c q && alOK c p && (match firstSegIdent p with | some x => okEx c x | none => true)
  | .node _ _ ks => alOKL c ks
def alOKL (c : CCtx) : List T → Bool
  | [] => true
  | t :: ts => alOK c t && alOKL c ts
end

/-- only declared parameters are respelled -/
def domOK (c : CCtx) : Bool :=
  (c.r.lt.map Prod.fst).all c.dLt.contains && (c.r.ty.map Prod.fst).all c.dTy.contains &&
  (c.r.co.map Prod.fst).all c.dCo.contains

/-- the new spellings of the declared parameters are pairwise distinct within a name space (lifetimes / types and
    consts); a parameter that is not respelled counts with its own spelling, so a new name may not clash with another
    declared name unless that one is respelled as well -/
def injOK (c : CCtx) : Bool := decide c.imgLt.Nodup && decide (c.imgTy ++ c.imgCo).Nodup

/-- a declared parameter the indexer never reaches keeps its spelling under canonicalisation (finding D21), so it must
    keep it under `π` -/
def deadFixed (π : Renaming) (item : T) : Bool :=
  let s := indexImpl item
  s.unLt.all (fun n => rn π.lt n == n) && s.unTy.all (fun n => rn π.ty n == n) && s.unCo.all (fun n => rn π.co n == n)

def alphaOK (π : Renaming) (item : T) : Bool :=
  domOK (alphaCtx π item) && injOK (alphaCtx π item) && deadFixed π item && alOK (alphaCtx π item) item

/-- the two spellings of a lone parameter path (`tparam` / `eparam` for reserved identifiers, `Type::Path` /
    `Expr::Path` for ordinary ones) are never converted into each other by `arT`; the tree-level renaming is the
    textual renaming exactly when every pair of `π` relates two reserved or two ordinary identifiers -/
def formOK (π : Renaming) : Bool :=
  (π.ty ++ π.co).all (fun p => p.1.startsWith PARAM_PREFIX == p.2.startsWith PARAM_PREFIX)

/-! ### Declaration order -/

/-- the declared generic parameters of an impl -/
def implParams (item : T) : List T := genericsParams ((implGenerics item).getD (.node "?" [] []))

/-- the impl with its list of declared generic parameters replaced -/
def setParams (ps' : List T) : T → T
  | .node "ItemImpl" [] [a, d, u, .node "Generics" [] [lt0, .node "List" [] _, gt0, wc], tr, sf, items] =>
      .node "ItemImpl" [] [a, d, u, .node "Generics" [] [lt0, .node "List" [] ps', gt0, wc], tr, sf, items]
  | t => t

/-! ### What the indexer visits -/

def isIgn : T → Bool
  | .node "Ign" _ _ => true
  | _ => false

mutual
/-- the indexer visits every parameter position of the tree: no `Generics` node (`visit_generics` is switched off),
    and the attributes of an expression path are an ignored child -/
def ixVis : T → Bool
  | .tparam _ => true
  | .eparam _ => true
  | .node "Ign" _ _ => true
  | .node "Eq" _ _ => true
  | .node "Generics" _ _ => false
  | .node "Expr::Path" _ [att, q, p] => isIgn att && ixVis q && ixVis p
  | .node _ _ ks => ixVisL ks
def ixVisL : List T → Bool
  | [] => true
  | t :: ts => ixVis t && ixVisL ts
end

/-- the trait and the self type of the impl are fully visited by the indexer -/
def hdrVis (item : T) : Bool :=
  (match implTrait item with | some tr => ixVis tr | none => false) &&
  (match implSelfTy item with | some sf => ixVis sf | none => false)

/-- `alphaOK` without `deadFixed` -/
def alphaOKh (π : Renaming) (item : T) : Bool :=
  domOK (alphaCtx π item) && injOK (alphaCtx π item) && alOK (alphaCtx π item) item

end DI
