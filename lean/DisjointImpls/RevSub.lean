/-
  Model of reverse substitution: `Substitutions::substitute` (superset.rs:109-137) and the
  `Substitute` impls (src/superset/**): every outermost sub-term equal to a value of σ is replaced
  by each parameter bound to that value; all combinations are returned, first child varying slowest.
-/
import DisjointImpls.Match
namespace DI

/-- values grouped with the parameters bound to them, in insertion order (superset.rs:113-119) -/
abbrev RevMap := List (Val × List String)

def RevMap.add : RevMap → String → Val → RevMap
  | [], n, v => [(v, [n])]
  | (w, ns) :: rest, n, v => if w = v then (w, ns ++ [n]) :: rest else (w, ns) :: RevMap.add rest n v

def reverseMap (σ : Subst) : RevMap :=
  σ.foldl (fun acc p => RevMap.add acc p.1 p.2) []

def RevMap.find : RevMap → Val → Option (List String)
  | [], _ => none
  | (w, ns) :: rest, v => if w = v then some ns else RevMap.find rest v

/-- itertools' `multi_cartesian_product` / `cartesian_product`: first factor slowest; no factors ↦ one empty tuple -/
def cartesian : List (List T) → List (List T)
  | [] => [[]]
  | xs :: rest => xs.flatMap (fun x => (cartesian rest).map (fun tl => x :: tl))

def isTypeKind (k : String) : Bool := k.startsWith "Type::"
def isExprKind (k : String) : Bool := k.startsWith "Expr::"

mutual
def revSub (rm : RevMap) : T → List T
  | .tparam n =>
      match RevMap.find rm (.ty (.tparam n)) with
      | some ns => if ns.isEmpty then [.tparam n] else ns.map .tparam
      | none => [.tparam n]
  | .eparam n =>
      match RevMap.find rm (.ex (.eparam n)) with
      | some ns => if ns.isEmpty then [.eparam n] else ns.map .eparam
      | none => [.eparam n]
  | .node k as ks =>
      if isTypeKind k then
        match RevMap.find rm (.ty (.node k as ks)) with
        | some ns => if ns.isEmpty then [.node k as ks] else ns.map .tparam
        | none => (cartesian (revSubL rm ks)).map (.node k as)
      else if isExprKind k then
        match RevMap.find rm (.ex (.node k as ks)) with
        | some ns => if ns.isEmpty then [.node k as ks] else ns.map .eparam
        | none => (cartesian (revSubL rm ks)).map (.node k as)
      else if k == "Ign" || k == "IgnL" || k == "Eq" then [.node k as ks]
      else (cartesian (revSubL rm ks)).map (.node k as)
def revSubL (rm : RevMap) : List T → List (List T)
  | [] => []
  | t :: ts => revSub rm t :: revSubL rm ts
end

/-- `Substitutions::substitute` on a `(Bounded, TraitBound)` pair: the product of the two rewrites -/
def substituteBound (σ : Subst) (bounded trait_ : T) : List (T × T) :=
  let rm := reverseMap σ
  (revSub rm bounded).flatMap (fun b => (revSub rm trait_).map (fun t => (b, t)))

end DI
