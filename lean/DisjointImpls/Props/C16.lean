import DisjointImpls.Lemmas.Refine
namespace DI
theorem C16_placeholder : (1 : Nat) = 1 := rfl
end DI
