/-
  C16 — trait-argument fidelity: corollaries of the refinement theorems. The header tree `hdr` of a block / family
  is `ImplGroupId [trait path with its arguments, self type]`; a query is a ground header.
-/
import DisjointImpls.Lemmas.Refine
import DisjointImpls.Lemmas.ExpandItems
import DisjointImpls.Lemmas.HelperAlign
import DisjointImpls.Props.C01
namespace DI

/-- instantiation acts component-wise on a header -/
theorem inst_groupId (ρ : Subst) (tr s tr' s' : T)
    (h : inst ρ (.node "ImplGroupId" [] [tr, s]) = .node "ImplGroupId" [] [tr', s']) :
    inst ρ tr = tr' ∧ inst ρ s = s' := by
  rw [inst_other ρ (by rfl)] at h
  simp only [instL] at h
  injection h with _ _ h3
  injection h3 with h4 h5
  injection h5 with h6 _
  exact ⟨h4, h6⟩

/-- a selected member's header instantiates exactly to the query -/
theorem C16_exact_instantiation (W : World) (F : Family) (m : Member) (q : T) :
    genSel W F m q → ∃ ρ, wkB ρ m.blk = true ∧ inst ρ m.blk.hdr = q := by
  intro h
  obtain ⟨ρ, h0, h1, _⟩ := gen_sub_spec W F m q h
  exact ⟨ρ, h0, h1⟩

/-- trait arguments are matched exactly: a member `impl Tr<args> for S` selected for the query `Tr<args'> for S'`
    has `args` instantiating to `args'` and `S` to `S'` under one substitution -/
theorem C16_trait_args_exact (W : World) (F : Family) (m : Member) (tr s tr' s' : T)
    (hh : m.blk.hdr = .node "ImplGroupId" [] [tr, s]) :
    genSel W F m (.node "ImplGroupId" [] [tr', s']) → ∃ ρ, wkB ρ m.blk = true ∧ inst ρ tr = tr' ∧ inst ρ s = s' := by
  intro h
  obtain ⟨ρ, h0, h1⟩ := C16_exact_instantiation W F m _ h
  rw [hh] at h1
  exact ⟨ρ, h0, inst_groupId ρ tr s tr' s' h1⟩

/-- a query whose trait-argument part is an instance of no instantiation of the member's trait path is not
    selected, whatever its self type -/
theorem C16_other_trait_args_not_selected (W : World) (F : Family) (m : Member) (tr s tr' s' : T)
    (hh : m.blk.hdr = .node "ImplGroupId" [] [tr, s]) (hne : ∀ ρ, wkB ρ m.blk = true → inst ρ tr ≠ tr') :
    ¬ genSel W F m (.node "ImplGroupId" [] [tr', s']) := by
  intro h
  obtain ⟨ρ, h0, h1, _⟩ := C16_trait_args_exact W F m tr s tr' s' hh h
  exact hne ρ h0 h1

/-- independent instantiations: two families whose headers have no common instance never both answer a query -/
theorem C16_independent_instantiations (W : World) (F1 F2 : Family) (m1 m2 : Member) (q : T)
    (hd : ¬ ∃ τ1 τ2, wkF τ1 F1 = true ∧ wkF τ2 F2 = true ∧ inst τ1 F1.hdr = inst τ2 F2.hdr) :
    genSel W F1 m1 q → ¬ genSel W F2 m2 q := by
  rintro ⟨τ1, _, n1, e1, _⟩ ⟨τ2, _, n2, e2, _⟩
  exact hd ⟨τ1, τ2, n1, n2, e1.trans e2.symm⟩

/-- instantiation does not touch a leaf -/
theorem inst_leaf (σ : Subst) (k : String) (as : List String) : inst σ (.node k as []) = .node k as [] := by
  rw [inst_other σ (by unfold isGA; split <;> simp_all)]; simp [instL]

/-- non-vacuity: `impl Tr<u8> for T` and `impl Tr<u16> for T` — the headers have no common instance (under any two
    substitutions), so the two families are never selected for the same query; and a member for `Tr<u8>` is not
    selected for `Tr<u16>` -/
example :
    let tru8 : T := .node "Tr" [] [.node "u8" [] []]
    let tru16 : T := .node "Tr" [] [.node "u16" [] []]
    (¬ ∃ τ1 τ2 : Subst,
      inst τ1 (.node "ImplGroupId" [] [tru8, .tparam "_ŠČ0"]) = inst τ2 (.node "ImplGroupId" [] [tru16, .tparam "_ŠČ0"])) ∧
    (∀ ρ : Subst, inst ρ tru8 ≠ tru16) := by
  refine ⟨?_, ?_⟩
  · rintro ⟨τ1, τ2, h⟩
    rw [inst_other τ1 (by rfl), inst_other τ2 (by rfl)] at h
    simp only [instL, inst_other τ1 (k := "Tr") (by rfl), inst_other τ2 (k := "Tr") (by rfl), inst_leaf] at h
    simp at h
  · intro ρ h
    simp only [inst_other ρ (k := "Tr") (by rfl), instL, inst_leaf] at h
    simp at h

/-! ## The generators: trait arguments of the main impl and the replacement of the trait's parameters
  (`Lemmas/ExpandItems.lean`; model: `mainImplOfTrait`, `resolveMainTrait`, `zipTraitArgs`, `sbT` of `Expand.lean`) -/

/-- THE MAIN IMPL IMPLEMENTS THE TRAIT AT THE FAMILY'S ARGUMENTS. If `mainImplOfTrait tr idx g = .ok m` then the trait path of
    `m` is, node for node, the trait path `tp` of the family's first block — `Trait<args>` with its lifetime, type and const
    arguments unchanged — which for a well-formed family (`expandWF`, executable) is the trait path of the group id; and the
    helper reference `href` that the where-clause bounds `Self` by passes exactly: the lifetime arguments of `tp` (unchanged,
    in order), then one projection `<bounded as Trait>::Assoc` per dispatch key, then the remaining arguments of `tp`
    (unchanged, in order). -/
theorem C16_main_impl_trait_args (tr : T) (idx : Nat) (g : T × ABG × List Blk) (m : T)
    (hm : mainImplOfTrait tr idx g = .ok m) :
    ∃ tp href, implTraitPath (firstItem_inh g) = some tp ∧ XOK.traitPathOf m = some tp ∧ implTraitPath m = some tp ∧
      (expandWF g = true → XOK.kid g.1 0 = .node "Some" [] [tp]) ∧
      mainHref_inh m = some href ∧
      XOK.segArgs (XOK.lastSeg href) =
        (traitArgsOf_it tp).filter isLifetimeArg ++
        g.2.1.idents.map (fun kx => gaType (projection kx.1.1 kx.1.2 kx.2)) ++
        (traitArgsOf_it tp).filter (fun a => !isLifetimeArg a) := by
  obtain ⟨first, rest, tp, st, unsafety, lt, gt, wc, x0, params, items, tname, targs, finals, hg, hp, hs, hres, hlast, hf, rfl⟩ :=
    mainImplOfTrait_items_inv_it hm
  have hfirst : firstItem_inh g = first.item := by simp [firstItem_inh, hg]
  refine ⟨tp, _, by rw [hfirst]; exact hp, by simp [XOK.traitPathOf, XOK.kid, XOK.kids, XOK.kind, tSome], rfl, ?_,
    mainHref_main_it _ _ _ _ _ _ _ _ _ _ _ _, ?_⟩
  · intro hwf
    simp only [expandWF, Bool.and_eq_true, hg, beq_iff_eq] at hwf
    rw [hwf.1.2]
    simp [mkHdr, hp, hs, XOK.kid, XOK.kids]
  · simp [mainHrefOf_it, helperRef, XOK.lastSeg, XOK.segsOf, pathNode, tList, XOK.kid, XOK.kids, XOK.lastOf, seg, XOK.segArgs,
      angle, XOK.kind]

/-- WHAT `resolve_main_trait_params` DOES TO THE TRAIT'S ITEMS: `sbT am`, where the argument map `am` (`mainArgMap_it`,
    `zipTraitArgs`) pairs the trait's parameters with the family's trait arguments position by position. For every map `am`:
    (a) a lifetime that names a lifetime parameter becomes the argument lifetime, any other lifetime is kept;
    (b) a type parameter in type position becomes its argument;
    (c) a path starting with a type parameter, `U::Assoc…`, becomes `<arg>::Assoc…`;
    (d) a const parameter as a bare identifier in expression position becomes the WHOLE argument expression (fix 1001a0e),
        parenthesised unless it is a path, a literal, a block or a parenthesised expression;
    (e) every node that is not a lifetime, a type path or an expression path (and not an ignored child) is rebuilt around
        its rewritten children — nothing else happens anywhere;
    (f) NOTHING ELSE CHANGES: a tree that mentions no parameter of the map (`sbFree_it`, executable) is returned unchanged;
    (g) the map has exactly one entry per zipped (parameter, argument) pair — `min(#parameters, #arguments)` entries: a
        parameter beyond the last argument (an omitted default, finding D17) has no entry, so by (f) its occurrences stay;
    (h) a const parameter facing a type argument (a bare identifier `N` is a type to `syn`, finding D24) has no map at all
        (`unreachable!()`). -/
theorem C16_trait_param_replacement (am : ArgMap) :
    (∀ (as : List String) (x : String), sbT am (.node "Lifetime" as [.node "Ident" [x] []]) =
        some ((alookup am.lt x).getD (.node "Lifetime" as [.node "Ident" [x] []]))) ∧
    (∀ (x : String) (r : T), alookup am.ty x = some r → sbT am (mkTypeIdent x) = some r) ∧
    (∀ (as : List String) (x : String) (r s1 : T) (rest : List T), alookup am.ty x = some r →
        sbFreeL_it am (s1 :: rest) = true →
        sbT am (.node "Type::Path" as [tNone, pathNode noLead (seg x :: s1 :: rest)]) =
          some (.node "Type::Path" as [tSome (.node "QSelf" [] [r, .node "Atom" ["0"] [], tNone]), pathNode someLead (s1 :: rest)])) ∧
    (∀ (x : String) (e : T), alookup am.ty x = none → alookup am.co x = some e → sbT am (identExpr x) = some (exprOperand e)) ∧
    (∀ (k : String) (as : List String) (ks : List T), NodeOther k ks → sbT am (.node k as ks) = (sbL am ks).map (.node k as)) ∧
    (∀ t : T, sbFree_it am t = true → sbT am t = some t) ∧
    (∀ ps args : List T, zipTraitArgs ps args = some am →
        am.lt.length + am.ty.length + am.co.length = min ps.length args.length) ∧
    (∀ cp ta ps args : List T,
        zipTraitArgs (.node "GenericParam::Const" [] cp :: ps) (.node "GenericArgument::Type" [] ta :: args) = none) :=
  ⟨sbT_lifetime_it am, sbT_type_occurrence_it am, sbT_type_projection_it am, sbT_const_occurrence_it am,
   fun _ as _ h => sbT_of_other_it am as h, sbT_free_it am, fun ps args h => zipTraitArgs_size_it ps args am h,
   zipTraitArgs_const_vs_type_it⟩

/-- finding D17 in general: a parameter of the trait beyond the last argument of the family's trait path (an omitted
    default) whose name no parameter that does have an argument carries is not in the argument map, and its occurrences
    in type position are left as they are — the main impl then mentions a name it does not declare
    (`C16_omitted_default_counterexample`). The side condition is executable. -/
theorem C16_omitted_parameter_unresolved (ps args : List T) (am : ArgMap) (h : zipTraitArgs ps args = some am) (x : String)
    (hx : ((ps.take args.length).map paramIdent).contains (some x) = false) :
    am.has_it x = false ∧ sbT am (mkTypeIdent x) = some (mkTypeIdent x) := by
  have hno : am.has_it x = false := by
    cases hh : am.has_it x with
    | false => rfl
    | true =>
      have := zipTraitArgs_keys_it ps args am h x hh
      rw [← List.contains_iff_mem, hx] at this
      cases this
  refine ⟨hno, sbT_unmapped_type_it am x ?_⟩
  simp only [ArgMap.has_it, Bool.or_eq_false_iff] at hno
  cases hl : alookup am.ty x with
  | none => rfl
  | some r => rw [hl] at hno; simp at hno

section ParamExamples
set_option maxRecDepth 1000000
open ExIt

/-- the argument map of the example `trait Kita<'a, U, const N: usize>` at `Kita<'_ŠČ0, Vec<_ŠČ1>, { 2 }>` -/
def exArgMap : ArgMap := ⟨[("a", ltNode "_ŠČ0")], [("U", Ex11.vecOf (.tparam "_ŠČ1"))], [("N", blockExpr "2")]⟩

/-- non-vacuity of `C16_main_impl_trait_args` and `C16_trait_param_replacement` on the example of `C01_items_example`
    (`trait Kita<'a, U, const N: usize>` implemented as `Kita<'x, Vec<T>, { 2 }>`): the generators succeed and the family is
    well-formed; the argument map of the family is `'a ↦ '_ŠČ0, U ↦ Vec<_ŠČ1>, N ↦ { 2 }`; the three items are resolved; the
    helper reference passes `'_ŠČ0` first, then one projection, then `Vec<_ŠČ1>` and `{ 2 }`; the hypotheses of (b), (d), (f)
    hold for `U`, `N` and the type `usize`, and `sbFree_it` is not vacuous (it rejects the trait's function item) -/
theorem C16_param_example : ExIt.run traitDef [memberA, memberB] (fun g _ _ m =>
    expandWF g &&
    (match implTraitPath (firstItem_inh g) with
     | some tp =>
        (match mainArgMap_it traitDef tp with
         | some am => am.lt == exArgMap.lt && am.ty == exArgMap.ty && am.co == exArgMap.co &&
             (sbL am (traitItemsOf_it traitDef)).isSome
         | none => false) &&
        (traitArgsOf_it tp).map isLifetimeArg == [true, false, false] &&
        ((mainHref_inh m).map (fun h => (XOK.segArgs (XOK.lastSeg h)).map isLifetimeArg)) == some [true, false, false, false] &&
        XOK.traitPathOf m == some tp
     | none => false) &&
    alookup exArgMap.ty "U" == some (Ex11.vecOf (.tparam "_ŠČ1")) && alookup exArgMap.ty "N" == none &&
    alookup exArgMap.co "N" == some (blockExpr "2") && sbFree_it exArgMap (tyS "usize") &&
    (traitItemsOf_it traitDef).map (sbFree_it exArgMap) == [true, true, false]) = true := by
  with_unfolding_all decide

/-- finding D17 (main_trait.rs `resolve_main_trait_params`, `zip` of parameters and arguments): a defaulted trait
    parameter whose argument is omitted stays unresolved. Witness: `trait Kita<U, V = u32> { fn f(&self, x: V); }` with the
    blocks `impl<T: Dispatch<Group = g>> Kita<T> for T { fn f(&self, x: u32) {} }` — the family is well-formed and the
    generators succeed; the argument map has one entry (`U`) and the side condition of
    `C16_omitted_parameter_unresolved` holds for `V`; the main impl implements `Kita<_ŠČ0>` and declares only `_ŠČ0`,
    but its function is `fn f(&self, x: V)`: the parameter type is still the trait's parameter `V`, which names nothing in
    the impl (rustc: cannot find type `V`). So "every occurrence of a trait parameter is replaced" holds only for
    parameters that have an argument (`C16_trait_param_replacement` (g)). -/
theorem C16_omitted_default_counterexample : ExIt.run d17Trait [d17Member "GroupA", d17Member "GroupB"] (fun g _ _ m =>
    g.2.2.length == 2 && expandWF g &&
    (match implTraitPath (firstItem_inh g) with
     | some tp => (match mainArgMap_it d17Trait tp with
         | some am => am.lt.isEmpty && am.ty.map (fun p => p.1) == ["U"] && am.co.isEmpty
         | none => false)
     | none => false) &&
    (traitParams_inh d17Trait).map pname_inh == ["U", "V"] &&
    (match implTraitPath (firstItem_inh g) with
     | some tp => !(((traitParamsOf_it d17Trait).take (traitArgsOf_it tp).length).map paramIdent).contains (some "V")
     | none => false) &&
    (genericsParams (XOK.kid m 3)).map pname_inh == ["_ŠČ0"] &&
    (implItems m).map (fun it => XOK.kid (XOK.kid it 3) 6) == [.node "List" [] [recv, typedArg "x" (tyS "V")]]) = true := by
  with_unfolding_all decide

/-- finding D24: a const trait parameter instantiated with a BARE const identifier. Witness:
    `trait Kita<const N: usize> { fn f(&self) -> [u8; N]; }` with the blocks
    `impl<T: Dispatch<Group = g>, const M: usize> Kita<M> for T { … }` — the front end forms the family (two members), the
    argument `M` is a type argument to `syn`, there is no argument map and `main_trait::generate` reaches `unreachable!()`:
    the model's main impl is `panic`. With the braced spelling `Kita<{ M }>` the same invocation expands, and the return
    type of `f` is `[u8; { _ŠČ0 }]` (the whole argument expression). -/
theorem C16_bare_const_argument_counterexample :
    (match parseGroups [d24Member "GroupA", d24Member "GroupB"] with
     | .ok (g :: _) => g.2.2.length == 2 && expandWF g &&
         (match implTraitPath (firstItem_inh g) with
          | some tp => (mainArgMap_it d24Trait tp).isNone
          | none => false) &&
         (match mainImplOfTrait d24Trait 0 g with | .panic => true | _ => false)
     | _ => false) = true ∧
    ExIt.run d24Trait [d24MemberBraced "GroupA", d24MemberBraced "GroupB"] (fun g _ _ m =>
      g.2.2.length == 2 && expandWF g &&
      (implItems m).map (fun it => XOK.kid (XOK.kid it 3) 8) ==
        [retTy (arrTy (tyS "u8") (.node "Expr::Block" [] [Ex11.attrs, Ex11.leaf "None", blockOf [stmtExpr (.eparam "_ŠČ0")]]))]) = true := by
  constructor <;> with_unfolding_all decide

end ParamExamples

/-! ## The helper trait's parameters and every use of the helper trait agree position by position and kind by kind
  (`Lemmas/HelperAlign.lean`; model: `helperGenerics`, `helperTraitOfTrait`, `helperImpl`, `helperImpls`, `helperRef`).

  Executable side conditions: `kindsMatch_ha ps args` (the arguments match the parameters kind by kind, position by
  position; arguments may be missing only for trailing parameters that have a default), `familyKindsMatch_ha tr g` (that, for
  the trait arguments of every member of the family), `keyNamesFresh_ha ps nkeys`, `genericsShaped_it`.
  `printedArgs_inh` is `syn`'s printer of an angle-bracketed argument list: lifetime arguments first, whatever their
  position in the tree. -/

/-- THE SHAPE OF THE HELPER TRAIT'S GENERICS (helper_trait.rs:61-92). For the definition's generics `<ps> where wc` and `nkeys`
    dispatch keys the helper trait's generics are `<lifetimes(ps), keys, others(ps)> where wc` with the `<`, `>` tokens and the
    where-clause kept, where
    * `keys` are exactly `nkeys` parameters, the `i`-th being `_ŠČ<len ps + i>: ?Sized` (a type parameter without default),
      pairwise differently named;
    * every parameter of `ps` occurs UNCHANGED (the same node: attributes, bounds, default) exactly once
      (`lifetimes(ps) ++ others(ps)` is a permutation of `ps`), and inside each of the two groups the order is the
      definition's (each group is a sublist of `ps`);
    * the key names clash with no type/const parameter of the definition IF AND ONLY IF `keyNamesFresh_ha ps nkeys`
      (no type/const parameter is spelled `_ŠČ<m>` with `len ps ≤ m < len ps + nkeys`); the clash is possible:
      `C16_key_name_clash_counterexample`. -/
theorem C16_helper_generics_shape (lt gt wc : T) (ps : List T) (nkeys : Nat) :
    helperGenerics (.node "Generics" [] [lt, .node "List" [] ps, gt, wc]) nkeys =
      .node "Generics" [] [lt, .node "List" [] (ps.filter isLifetimeParam ++ inhKeyParams_inh ps.length nkeys ++
        ps.filter (fun p => !isLifetimeParam p)), gt, wc] ∧
    (inhKeyParams_inh ps.length nkeys).length = nkeys ∧
    (∀ i, i < nkeys →
      (inhKeyParams_inh ps.length nkeys)[i]? = some (keyParam ("_ŠČ" ++ toString (ps.length + i)))) ∧
    (∀ k ∈ inhKeyParams_inh ps.length nkeys, paramKind_ha k = some .type ∧ paramDefault_ha k = none) ∧
    ((inhKeyParams_inh ps.length nkeys).map paramIdent).Nodup ∧
    (ps.filter isLifetimeParam).Sublist ps ∧ (ps.filter (fun p => !isLifetimeParam p)).Sublist ps ∧
    (ps.filter isLifetimeParam ++ ps.filter (fun p => !isLifetimeParam p)).Perm ps ∧
    (keyNamesFresh_ha ps nkeys = true ↔
      ∀ k ∈ inhKeyParams_inh ps.length nkeys, ∀ p ∈ ps.filter (fun p => !isLifetimeParam p), paramIdent k ≠ paramIdent p) :=
  ⟨rfl, keyParams_length_ha _ _, fun i hi => keyParams_get_ha _ _ i hi,
   fun _ hk => by
     obtain ⟨i, _, rfl⟩ := keyParams_mem_ha hk
     exact ⟨(keyParam_facts_ha _).1, (keyParam_facts_ha _).2.1⟩,
   keyParams_nodup_ha _ _, List.filter_sublist, List.filter_sublist, List.filter_append_perm _ _,
   keyNamesFresh_iff_ha ps nkeys⟩

/-- A HELPER IMPL MATCHES THE HELPER TRAIT'S PARAMETERS — AS PRINTED. For a helper impl `h` produced by `helperImpl` (trait
    mode) from a member whose trait path is `mp`, with `ua` the member's own trait arguments and `row.length = idents.length`
    (true for every row of a family, `payload_row_length_ha`):
    * IN THE TREE the helper impl's trait arguments are `row' ++ ua` (disjoint.rs:53-80 chains the row in front of ALL of the
      block's arguments, lifetimes included) — type arguments BEFORE lifetime arguments, which rustc would reject and which
      does NOT match the helper trait's parameter list (`C16_helper_impl_tree_order_counterexample`);
    * AS PRINTED by `syn` (`printedArgs_inh`: lifetimes first) they are `lifetimes(ua) ++ row' ++ others(ua)`; nothing in
      the macro re-orders them, the expansion is correct only through `syn`'s printer;
    * if `ua` matches the definition's parameters `ps` (`kindsMatch_ha ps ua`), the printed list matches the helper trait's
      parameter list `helperParams_it ps nkeys` kind by kind and position by position; the (parameter, argument) pairs are
      exactly the user's pairs with a lifetime parameter, then (`i`-th key parameter, `i`-th row entry), then the user's
      other pairs — every user argument meets the SAME parameter as in the definition; the `i`-th key parameter and the
      `i`-th row entry both sit at position `#lifetimes + i`; and the parameters left without an argument are exactly the
      definition's parameters the block left without an argument. -/
theorem C16_kinds_align_helper_impl {idx : Nat} {idents : List (BKey × String)} {row : List (Option T)} {member h : T}
    (ps : List T) (hh : helperImpl idx none idents row member = some h) (hrow : row.length = idents.length) :
    ∃ mp hp, implTraitPath member = some mp ∧ XOK.traitPathOf h = some hp ∧
      XOK.segArgs (XOK.lastSeg hp) = rowArgs idents row ++ traitArgsOf_it mp ∧
      printedArgs_inh (XOK.segArgs (XOK.lastSeg hp)) =
        (traitArgsOf_it mp).filter isLifetimeArg ++ rowArgs idents row ++ (traitArgsOf_it mp).filter (fun a => !isLifetimeArg a) ∧
      (kindsMatch_ha ps (traitArgsOf_it mp) = true →
        kindsMatch_ha (helperParams_it ps idents.length) (printedArgs_inh (XOK.segArgs (XOK.lastSeg hp))) = true ∧
        List.zip (helperParams_it ps idents.length) (printedArgs_inh (XOK.segArgs (XOK.lastSeg hp))) =
          (List.zip ps (traitArgsOf_it mp)).filter (fun pa => isLifetimeParam pa.1) ++
          List.zip (inhKeyParams_inh ps.length idents.length) (rowArgs idents row) ++
          (List.zip ps (traitArgsOf_it mp)).filter (fun pa => !isLifetimeParam pa.1) ∧
        (helperParams_it ps idents.length).drop (printedArgs_inh (XOK.segArgs (XOK.lastSeg hp))).length =
          ps.drop (traitArgsOf_it mp).length ∧
        (∀ i, i < idents.length →
          (helperParams_it ps idents.length)[(ps.filter isLifetimeParam).length + i]? =
            some (keyParam (genIndexedIdent (ps.length + i))) ∧
          (printedArgs_inh (XOK.segArgs (XOK.lastSeg hp)))[(ps.filter isLifetimeParam).length + i]? =
            (rowArgs idents row)[i]?)) :=
  helperImpl_aligned_ha ps hh hrow

/-- the `i`-th entry of the printed row is made from the `i`-th key and the `i`-th column of the member's row (the payload as
    written, or for a wildcard the projection of the `i`-th key): columns are not permuted -/
theorem C16_row_columns_in_key_order (idents : List (BKey × String)) (row : List (Option T)) (i : Nat)
    (h1 : i < idents.length) (h2 : i < row.length) :
    (rowArgs idents row)[i]? = some (match row[i] with
      | some p => gaType p
      | none => gaType (projection idents[i].1.1 idents[i].1.2 idents[i].2)) :=
  rowArgs_get_ha idents row i h1 h2

/-- THE MAIN IMPL'S HELPER REFERENCE MATCHES THE HELPER TRAIT'S PARAMETERS (main_trait.rs:184-209). If the block's trait
    arguments `ua` match the definition's parameters `ps`, the arguments of `helperRef name idents ua` — the lifetime arguments
    of `ua`, one projection per key, the other arguments of `ua`; already in printed order — match
    `helperParams_it ps nkeys` kind by kind and position by position, with the same pairs as for a helper impl (projections in
    place of the row); the `i`-th projection `<bounded_i as Trait_i>::Assoc_i` sits at the position of the `i`-th key parameter
    `_ŠČ<len ps + i>`; the parameters left without an argument are the definition's parameters the block left without one. -/
theorem C16_kinds_align_main_ref (name : String) (idents : List (BKey × String)) (ps ua : List T)
    (hk : kindsMatch_ha ps ua = true) :
    XOK.segArgs (XOK.lastSeg (helperRef name idents ua)) =
      ua.filter isLifetimeArg ++ idents.map (fun kx => gaType (projection kx.1.1 kx.1.2 kx.2)) ++
      ua.filter (fun a => !isLifetimeArg a) ∧
    printedArgs_inh (XOK.segArgs (XOK.lastSeg (helperRef name idents ua))) =
      XOK.segArgs (XOK.lastSeg (helperRef name idents ua)) ∧
    kindsMatch_ha (helperParams_it ps idents.length) (XOK.segArgs (XOK.lastSeg (helperRef name idents ua))) = true ∧
    List.zip (helperParams_it ps idents.length) (XOK.segArgs (XOK.lastSeg (helperRef name idents ua))) =
      (List.zip ps ua).filter (fun pa => isLifetimeParam pa.1) ++
      List.zip (inhKeyParams_inh ps.length idents.length) (idents.map (fun kx => gaType (projection kx.1.1 kx.1.2 kx.2))) ++
      (List.zip ps ua).filter (fun pa => !isLifetimeParam pa.1) ∧
    (helperParams_it ps idents.length).drop (XOK.segArgs (XOK.lastSeg (helperRef name idents ua))).length =
      ps.drop ua.length ∧
    (∀ (i : Nat) (hi : i < idents.length),
      (helperParams_it ps idents.length)[(ps.filter isLifetimeParam).length + i]? =
        some (keyParam (genIndexedIdent (ps.length + i))) ∧
      (XOK.segArgs (XOK.lastSeg (helperRef name idents ua)))[(ps.filter isLifetimeParam).length + i]? =
        some (gaType (projection idents[i].1.1 idents[i].1.2 idents[i].2))) := by
  obtain ⟨a1, a2, a3, a4⟩ := helperRef_aligned_ha name idents ps ua hk
  exact ⟨helperRef_args_ha name idents ua, by rw [helperRef_args_ha, printed_ref_ha], a1, a2, a3, a4⟩

/-- DEFAULTS ARE KEPT, OMITTED TRAILING ARGUMENTS STAY LEGAL. (a) every parameter of the definition is a parameter of the
    helper trait — the same node, hence with the same default; (b) the defaults of the helper trait are the defaults of the
    definition, in order; the key parameters have none; (c) the key parameters are inserted BEFORE the definition's type/const
    parameters, so "defaults are trailing" holds for the helper trait iff it holds for the definition; (d) arity: for
    arguments `ua` matching `ps` and any `nkeys` key arguments `R` (a row, the projections), the use
    `lifetimes(ua) ++ R ++ others(ua)` supplies exactly as many lifetimes as the helper trait declares, at most as many other
    arguments as it declares other parameters, and the parameters it omits are exactly the parameters of the definition that
    `ua` omits — each of which has a default. -/
theorem C16_helper_defaults_kept (ps : List T) (nkeys : Nat) :
    (∀ p ∈ ps, p ∈ helperParams_it ps nkeys) ∧
    (helperParams_it ps nkeys).filterMap paramDefault_ha = ps.filterMap paramDefault_ha ∧
    (∀ k ∈ inhKeyParams_inh ps.length nkeys, paramDefault_ha k = none) ∧
    defaultsTrailing_ha (helperParams_it ps nkeys) = defaultsTrailing_ha ps ∧
    (∀ (ua R : List T), kindsMatch_ha ps ua = true → R.length = nkeys → (∀ a ∈ R, argKind_ha a = some .type) →
      (ua.filter isLifetimeArg ++ R ++ ua.filter (fun a => !isLifetimeArg a)).length ≤ (helperParams_it ps nkeys).length ∧
      ((ua.filter isLifetimeArg ++ R ++ ua.filter (fun a => !isLifetimeArg a)).filter isLifetimeArg).length =
        ((helperParams_it ps nkeys).filter isLifetimeParam).length ∧
      ((ua.filter isLifetimeArg ++ R ++ ua.filter (fun a => !isLifetimeArg a)).filter (fun a => !isLifetimeArg a)).length ≤
        ((helperParams_it ps nkeys).filter (fun p => !isLifetimeParam p)).length ∧
      (helperParams_it ps nkeys).drop (ua.filter isLifetimeArg ++ R ++ ua.filter (fun a => !isLifetimeArg a)).length =
        ps.drop ua.length ∧
      ∀ p ∈ ps.drop ua.length, hasDefault_ha p = true) := by
  refine ⟨?_, helperParams_defaults_ha ps nkeys, ?_, defaultsTrailing_helper_ha ps nkeys, ?_⟩
  · intro p hp
    unfold helperParams_it
    cases hl : isLifetimeParam p with
    | true => simp [List.mem_filter, hp, hl]
    | false => simp [List.mem_filter, hp, hl]
  · intro k hk
    obtain ⟨i, _, rfl⟩ := keyParams_mem_ha hk
    exact (keyParam_facts_ha _).2.1
  · intro ua R hk hR hRk
    obtain ⟨a1, _, a3, _⟩ := align_assembly_ha ps ua (inhKeyParams_inh ps.length nkeys) R hk
      (by rw [keyParams_length_ha, hR]) (fun p hp => keyParams_kind_ha hp) hRk
    obtain ⟨b1, _, _⟩ := kindsMatch_spec_ha _ _ a1
    obtain ⟨_, c2, c3, _, _, _⟩ := kindsMatch_filter_ha _ _ a1
    obtain ⟨d1, _, _⟩ := kindsMatch_spec_ha _ _ c3
    exact ⟨b1, c2.symm, d1, a3, (kindsMatch_spec_ha _ _ hk).2.2⟩

/-- THE WHOLE FAMILY (trait mode). If the three generators succeed on a family `g` of the trait definition `tr` (whose
    generics have the shape `syn` produces) and every member's trait arguments match the definition's parameters
    (`familyKindsMatch_ha tr g`, executable), then the helper trait declares `helperParams_it (params of tr) nkeys`, every
    helper impl's trait arguments AS PRINTED match that declaration kind by kind and position by position, and so do the
    arguments of the main impl's helper reference (which are in printed order already). -/
theorem C16_kinds_align_family (tr : T) (idx : Nat) (g : T × ABG × List Blk) (ht : T) (hs : List T) (m : T)
    (hht : helperTraitOfTrait tr idx g.2.1.idents.length = some ht)
    (hhs : helperImpls idx g = some hs) (hm : mainImplOfTrait tr idx g = .ok m)
    (hgs : genericsShaped_it (XOK.kid tr 6) = true) (hk : familyKindsMatch_ha tr g = true) :
    traitParams_inh ht = helperParams_it (traitParamsOf_it tr) g.2.1.idents.length ∧
    (∀ h ∈ hs, ∃ hp, XOK.traitPathOf h = some hp ∧
      kindsMatch_ha (traitParams_inh ht) (printedArgs_inh (XOK.segArgs (XOK.lastSeg hp))) = true) ∧
    (∃ href, mainHref_inh m = some href ∧
      printedArgs_inh (XOK.segArgs (XOK.lastSeg href)) = XOK.segArgs (XOK.lastSeg href) ∧
      kindsMatch_ha (traitParams_inh ht) (XOK.segArgs (XOK.lastSeg href)) = true) :=
  family_aligned_ha hht hhs hm hgs hk

/-- `kindsMatch_ha` against the generator's own zip: whenever `zipTraitArgs` succeeds (it does whenever the main impl is
    generated), `kindsMatch_ha` only adds the arity conditions — no more arguments than parameters, a default for every
    parameter beyond the last argument -/
theorem C16_kindsMatch_of_zip (ps args : List T) (am : ArgMap) (hz : zipTraitArgs ps args = some am)
    (hle : args.length ≤ ps.length) (hd : (ps.drop args.length).all hasDefault_ha = true) : kindsMatch_ha ps args = true :=
  kindsMatch_of_zip_ha ps args am hz hle hd

/-- what `kindsMatch_ha` says, in plain terms (both directions) -/
theorem C16_kindsMatch_iff (ps args : List T) :
    kindsMatch_ha ps args = true ↔
      args.length ≤ ps.length ∧
      (∀ (i : Nat) (h1 : i < ps.length) (h2 : i < args.length),
          (paramKind_ha ps[i]).isSome = true ∧ paramKind_ha ps[i] = argKind_ha args[i]) ∧
      (∀ p ∈ ps.drop args.length, hasDefault_ha p = true) :=
  ⟨kindsMatch_spec_ha ps args, fun h => kindsMatch_of_spec_ha ps args h.1 h.2.1 h.2.2⟩

namespace ExAl
open Ex11 ExIt
/-! trees for the closed examples of the alignment theorems -/
def tyParamD (x : String) (bounds : List T) (d : T) : T :=
  .node "GenericParam::Type" [] [.node "TypeParam" [] [attrs, .node "Ident" [x] [], .node "Some" ["Colon"] [],
    .node "List" [] bounds, .node "Some" ["Eq"] [], .node "Some" [] [d]]]
def constParamD (x : String) (ty d : T) : T :=
  .node "GenericParam::Const" [] [.node "ConstParam" [] [attrs, .node "Ident" [x] [], ty, .node "Some" ["Eq"] [], .node "Some" [] [d]]]
/-- `'a, U: Clone = u32, const N: usize = 3` -/
def kitaPs : List T :=
  [ltParam "a", tyParamD "U" [traitBound (Ex11.path [Ex11.seg "Clone"])] (tyS "u32"), constParamD "N" (tyS "usize") (lit "3")]
def traitWith (ps : List T) : T :=
  .node "ItemTrait" [] [attrs, inh, leaf "None", leaf "None", leaf "None", .node "Ident" ["Kita"] [],
    .node "Generics" [] [leaf "Some", .node "List" [] ps, leaf "Some", leaf "None"],
    leaf "None", .node "List" [] [], .node "List" [] [tConst "C" (tyS "usize") (leaf "None")]]
/-- `trait Kita<'a, U: Clone = u32, const N: usize = 3> { const C: usize; }` -/
def kitaD : T := traitWith kitaPs
/-- `Other<Kind = k>` -/
def other (k : String) : T :=
  Ex11.path [.node "PathSegment" [] [.node "Ident" ["Other"] [], .node "PathArguments::AngleBracketed" [] [.node "Ign" [] [leaf "None"],
    .node "List" [] [.node "GenericArgument::AssocType" [] [.node "AssocType" [] [.node "Ident" ["Kind"] [], leaf "None", Ex11.tyPath [Ex11.seg k]]]]]]]
/-- `impl<'x, T: Dispatch<Group = g>, V: Other<Kind = k>> Kita<args> for T { const C: usize = 1; }` (two dispatch keys) -/
def mem (g k : String) (args : List T) : T :=
  memberOf [ltParam "x", tyParam "T" [traitBound (dispatch g)], tyParam "V" [traitBound (other k)]] args
    [iConst "C" (tyS "usize") (lit "1")]
/-- `'x, V` -/
def args2 : List T := [ltArg "x", tyArg (tyS "V")]
/-- `'x, V, 2` -/
def args3 : List T := [ltArg "x", tyArg (tyS "V"), constArg (lit "2")]
/-- the checks of the family example: hypotheses of `C16_kinds_align_family` and its conclusions, the kinds the helper
    trait declares, the TREE order of a helper impl's arguments, the omitted parameters -/
def familyCheck (ps : List T) (nArgs : Nat) (g : T × ABG × List Blk) (ht : T) (hs : List T) (m : T) : Bool :=
  g.2.1.idents.length == 2 && g.2.2.length == 2 && hs.length == 2 &&
  genericsShaped_it (XOK.kid (traitWith ps) 6) && familyKindsMatch_ha (traitWith ps) g && keyNamesFresh_ha ps 2 &&
  (traitParams_inh ht).map pname_inh == ["a", "_ŠČ3", "_ŠČ4", "U", "N"] &&
  (traitParams_inh ht).map paramKind_ha == [some .lifetime, some .type, some .type, some .type, some .const] &&
  (traitParams_inh ht).filterMap paramDefault_ha == [tyS "u32", lit "3"] && defaultsTrailing_ha (traitParams_inh ht) &&
  hs.all (fun h => match XOK.traitPathOf h with
    | some hp =>
        -- in the tree: the row first, then the block's arguments — type arguments before the lifetime
        ((XOK.segArgs (XOK.lastSeg hp)).map argKind_ha).take 3 == [some .type, some .type, some .lifetime] &&
        !kindsMatch_ha (traitParams_inh ht) (XOK.segArgs (XOK.lastSeg hp)) &&
        -- as printed: aligned
        ((printedArgs_inh (XOK.segArgs (XOK.lastSeg hp))).map argKind_ha).take 4 ==
          [some .lifetime, some .type, some .type, some .type] &&
        kindsMatch_ha (traitParams_inh ht) (printedArgs_inh (XOK.segArgs (XOK.lastSeg hp))) &&
        (printedArgs_inh (XOK.segArgs (XOK.lastSeg hp))).length == 2 + nArgs &&
        (traitParams_inh ht).drop (2 + nArgs) == ps.drop nArgs
    | none => false) &&
  (match mainHref_inh m with
   | some href => kindsMatch_ha (traitParams_inh ht) (XOK.segArgs (XOK.lastSeg href)) &&
       (XOK.segArgs (XOK.lastSeg href)).length == 2 + nArgs
   | none => false)
end ExAl

section AlignExamples
set_option maxRecDepth 1000000
open Ex11 ExIt ExAl

/-- NON-VACUITY of `C16_kinds_align_family` / `C16_kinds_align_helper_impl` / `C16_kinds_align_main_ref` /
    `C16_helper_defaults_kept` / `C16_helper_generics_shape`, and the decided counterexample for the TREE order:
    `trait Kita<'a, U: Clone = u32, const N: usize = 3> { const C: usize; }` with two blocks
    `impl<'x, T: Dispatch<Group = g>, V: Other<Kind = k>> Kita<'x, V> for T` (two dispatch keys; `N` omitted): the three
    generators succeed, all hypotheses hold; the helper trait declares `<'a, _ŠČ3: ?Sized, _ŠČ4: ?Sized, U: Clone = u32,
    const N: usize = 3>` (kinds lifetime, type, type, type, const; defaults `u32`, `3` kept and trailing); each helper impl's
    arguments are `<P1, P2, 'x, V>` IN THE TREE — which does NOT match the declaration — and `<'x, P1, P2, V>` AS PRINTED,
    which does; the omitted parameter is the definition's `N`; the main reference `<'x, proj1, proj2, V>` matches.
    Replayed on the real macro: the expansion prints `_Kita0<'_ŠČ0, KA, GroupA, _ŠČ1>` and compiles. -/
theorem C16_align_example_omitted_default :
    ExIt.run kitaD [mem "GroupA" "KA" args2, mem "GroupB" "KB" args2] (familyCheck kitaPs 2) = true := by
  with_unfolding_all decide

/-- the same with all three arguments written, `Kita<'x, V, 2>`: nothing is omitted -/
theorem C16_align_example_all_arguments :
    ExIt.run kitaD [mem "GroupA" "KA" args3, mem "GroupB" "KB" args3] (familyCheck kitaPs 3) = true := by
  with_unfolding_all decide

/-- THE TREE ORDER IS NOT THE DECLARATION ORDER (why `printedArgs_inh` is in the statements): for the definition's parameters
    `'a, U = u32, N = 3`, one key and the block arguments `'x, V`, the helper impl's argument list as `helperImpl` builds it
    (`row' ++ ua` = `P, 'x, V`) does not match `helperParams_it` (`'a, _ŠČ3, U, N`), the printed list `'x, P, V` does. Not a
    defect of the expansion (rustc only sees the printed tokens), but the macro relies on `syn`'s printer for it. -/
theorem C16_helper_impl_tree_order_counterexample :
    kindsMatch_ha kitaPs args2 = true ∧
    kindsMatch_ha (helperParams_it kitaPs 1) ([tyArg (tyS "P")] ++ args2) = false ∧
    kindsMatch_ha (helperParams_it kitaPs 1) (printedArgs_inh ([tyArg (tyS "P")] ++ args2)) = true := by
  with_unfolding_all decide

/-- FINDING (reserved key-parameter name): `keyNamesFresh_ha` can fail. `trait Kita<_ŠČ1> { const C: usize; }` with the blocks
    `impl<T: Dispatch<Group = g>, X> Kita<X> for T` (one key, one parameter: the key parameter is `_ŠČ<1 + 0>`): the generators
    succeed and the arguments match the parameters, but the helper trait declares `<_ŠČ1: ?Sized, _ŠČ1>` — two parameters of
    one name (rustc: E0403, replayed on the real macro; with the parameter spelled `_ŠČ0` the invocation compiles). Only
    reachable when the user spells a trait parameter with the reserved prefix and the colliding number. -/
theorem C16_key_name_clash_counterexample :
    ExIt.run (traitWith [tyParam "_ŠČ1" []])
      [memberOf [tyParam "T" [traitBound (dispatch "GroupA")], tyParam "X" []] [tyArg (tyS "X")] [iConst "C" (tyS "usize") (lit "1")],
       memberOf [tyParam "T" [traitBound (dispatch "GroupB")], tyParam "X" []] [tyArg (tyS "X")] [iConst "C" (tyS "usize") (lit "1")]]
      (fun g ht _ _ => g.2.1.idents.length == 1 && familyKindsMatch_ha (traitWith [tyParam "_ŠČ1" []]) g &&
        !keyNamesFresh_ha [tyParam "_ŠČ1" []] 1 && keyNamesFresh_ha [tyParam "_ŠČ0" []] 1 &&
        (traitParams_inh ht).map paramIdent == [some "_ŠČ1", some "_ŠČ1"]) = true := by
  with_unfolding_all decide

/-- non-vacuity of `C16_kindsMatch_of_zip` and of the negative side of `kindsMatch_ha`: the zip succeeds and the arity
    conditions hold for `'x, V` against `'a, U = u32, N = 3`; a type argument in a lifetime position, a missing argument for a
    parameter without default and a surplus argument are rejected -/
example :
    (zipTraitArgs kitaPs args2).isSome = true ∧ args2.length ≤ kitaPs.length ∧
    (kitaPs.drop args2.length).all hasDefault_ha = true ∧
    kindsMatch_ha kitaPs [tyArg (tyS "V"), ltArg "x"] = false ∧
    kindsMatch_ha [ltParam "a", tyParam "U" []] [ltArg "x"] = false ∧
    kindsMatch_ha [ltParam "a"] [ltArg "x", tyArg (tyS "V")] = false := by
  with_unfolding_all decide

/-- a block that writes its trait arguments in the wrong order, `Kita<X, 'x>` for `trait Kita<'a, U>` (not legal Rust, but
    `syn` parses it): `kindsMatch_ha` fails and so does the generator's own zip — `main_trait::generate` reaches
    `unreachable!()` (replayed on the real macro: "proc macro panicked … internal error: entered unreachable code" instead of a
    diagnostic) -/
example :
    kindsMatch_ha [ltParam "a", tyParam "U" []] [tyArg (tyS "X"), ltArg "x"] = false ∧
    (zipTraitArgs [ltParam "a", tyParam "U" []] [tyArg (tyS "X"), ltArg "x"]).isNone = true := by
  with_unfolding_all decide

end AlignExamples

end DI
