/-
  C16 — trait-argument fidelity: corollaries of the refinement theorems. The header tree `hdr` of a block / family
  is `ImplGroupId [trait path with its arguments, self type]`; a query is a ground header.
-/
import DisjointImpls.Lemmas.Refine
namespace DI

/-- instantiation acts component-wise on a header -/
theorem inst_groupId (ρ : Subst) (tr s tr' s' : T)
    (h : inst ρ (.node "ImplGroupId" [] [tr, s]) = .node "ImplGroupId" [] [tr', s']) :
    inst ρ tr = tr' ∧ inst ρ s = s' := by
  rw [inst_other ρ (by rfl)] at h
  simp only [instL] at h
  injection h with _ _ h3
  injection h3 with h4 h5
  injection h5 with h6 _
  exact ⟨h4, h6⟩

/-- a selected member's header instantiates exactly to the query -/
theorem C16_exact_instantiation (W : World) (F : Family) (m : Member) (q : T) :
    genSel W F m q → ∃ ρ, wkB ρ m.blk = true ∧ inst ρ m.blk.hdr = q := by
  intro h
  obtain ⟨ρ, h0, h1, _⟩ := gen_sub_spec W F m q h
  exact ⟨ρ, h0, h1⟩

/-- trait arguments are matched exactly: a member `impl Tr<args> for S` selected for the query `Tr<args'> for S'`
    has `args` instantiating to `args'` and `S` to `S'` under one substitution -/
theorem C16_trait_args_exact (W : World) (F : Family) (m : Member) (tr s tr' s' : T)
    (hh : m.blk.hdr = .node "ImplGroupId" [] [tr, s]) :
    genSel W F m (.node "ImplGroupId" [] [tr', s']) → ∃ ρ, wkB ρ m.blk = true ∧ inst ρ tr = tr' ∧ inst ρ s = s' := by
  intro h
  obtain ⟨ρ, h0, h1⟩ := C16_exact_instantiation W F m _ h
  rw [hh] at h1
  exact ⟨ρ, h0, inst_groupId ρ tr s tr' s' h1⟩

/-- a query whose trait-argument part is an instance of no instantiation of the member's trait path is not
    selected, whatever its self type -/
theorem C16_other_trait_args_not_selected (W : World) (F : Family) (m : Member) (tr s tr' s' : T)
    (hh : m.blk.hdr = .node "ImplGroupId" [] [tr, s]) (hne : ∀ ρ, wkB ρ m.blk = true → inst ρ tr ≠ tr') :
    ¬ genSel W F m (.node "ImplGroupId" [] [tr', s']) := by
  intro h
  obtain ⟨ρ, h0, h1, _⟩ := C16_trait_args_exact W F m tr s tr' s' hh h
  exact hne ρ h0 h1

/-- independent instantiations: two families whose headers have no common instance never both answer a query -/
theorem C16_independent_instantiations (W : World) (F1 F2 : Family) (m1 m2 : Member) (q : T)
    (hd : ¬ ∃ τ1 τ2, wkF τ1 F1 = true ∧ wkF τ2 F2 = true ∧ inst τ1 F1.hdr = inst τ2 F2.hdr) :
    genSel W F1 m1 q → ¬ genSel W F2 m2 q := by
  rintro ⟨τ1, _, n1, e1, _⟩ ⟨τ2, _, n2, e2, _⟩
  exact hd ⟨τ1, τ2, n1, n2, e1.trans e2.symm⟩

/-- instantiation does not touch a leaf -/
theorem inst_leaf (σ : Subst) (k : String) (as : List String) : inst σ (.node k as []) = .node k as [] := by
  rw [inst_other σ (by unfold isGA; split <;> simp_all)]; simp [instL]

/-- non-vacuity: `impl Tr<u8> for T` and `impl Tr<u16> for T` — the headers have no common instance (under any two
    substitutions), so the two families are never selected for the same query; and a member for `Tr<u8>` is not
    selected for `Tr<u16>` -/
example :
    let tru8 : T := .node "Tr" [] [.node "u8" [] []]
    let tru16 : T := .node "Tr" [] [.node "u16" [] []]
    (¬ ∃ τ1 τ2 : Subst,
      inst τ1 (.node "ImplGroupId" [] [tru8, .tparam "_ŠČ0"]) = inst τ2 (.node "ImplGroupId" [] [tru16, .tparam "_ŠČ0"])) ∧
    (∀ ρ : Subst, inst ρ tru8 ≠ tru16) := by
  refine ⟨?_, ?_⟩
  · rintro ⟨τ1, τ2, h⟩
    rw [inst_other τ1 (by rfl), inst_other τ2 (by rfl)] at h
    simp only [instL, inst_other τ1 (k := "Tr") (by rfl), inst_other τ2 (k := "Tr") (by rfl), inst_leaf] at h
    simp at h
  · intro ρ h
    simp only [inst_other ρ (k := "Tr") (by rfl), instL, inst_leaf] at h
    simp at h

end DI
