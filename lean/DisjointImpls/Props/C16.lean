/-
  C16 — trait-argument fidelity: corollaries of the refinement theorems. The header tree `hdr` of a block / family
  is `ImplGroupId [trait path with its arguments, self type]`; a query is a ground header.
-/
import DisjointImpls.Lemmas.Refine
import DisjointImpls.Lemmas.ExpandItems
import DisjointImpls.Props.C01
namespace DI

/-- instantiation acts component-wise on a header -/
theorem inst_groupId (ρ : Subst) (tr s tr' s' : T)
    (h : inst ρ (.node "ImplGroupId" [] [tr, s]) = .node "ImplGroupId" [] [tr', s']) :
    inst ρ tr = tr' ∧ inst ρ s = s' := by
  rw [inst_other ρ (by rfl)] at h
  simp only [instL] at h
  injection h with _ _ h3
  injection h3 with h4 h5
  injection h5 with h6 _
  exact ⟨h4, h6⟩

/-- a selected member's header instantiates exactly to the query -/
theorem C16_exact_instantiation (W : World) (F : Family) (m : Member) (q : T) :
    genSel W F m q → ∃ ρ, wkB ρ m.blk = true ∧ inst ρ m.blk.hdr = q := by
  intro h
  obtain ⟨ρ, h0, h1, _⟩ := gen_sub_spec W F m q h
  exact ⟨ρ, h0, h1⟩

/-- trait arguments are matched exactly: a member `impl Tr<args> for S` selected for the query `Tr<args'> for S'`
    has `args` instantiating to `args'` and `S` to `S'` under one substitution -/
theorem C16_trait_args_exact (W : World) (F : Family) (m : Member) (tr s tr' s' : T)
    (hh : m.blk.hdr = .node "ImplGroupId" [] [tr, s]) :
    genSel W F m (.node "ImplGroupId" [] [tr', s']) → ∃ ρ, wkB ρ m.blk = true ∧ inst ρ tr = tr' ∧ inst ρ s = s' := by
  intro h
  obtain ⟨ρ, h0, h1⟩ := C16_exact_instantiation W F m _ h
  rw [hh] at h1
  exact ⟨ρ, h0, inst_groupId ρ tr s tr' s' h1⟩

/-- a query whose trait-argument part is an instance of no instantiation of the member's trait path is not
    selected, whatever its self type -/
theorem C16_other_trait_args_not_selected (W : World) (F : Family) (m : Member) (tr s tr' s' : T)
    (hh : m.blk.hdr = .node "ImplGroupId" [] [tr, s]) (hne : ∀ ρ, wkB ρ m.blk = true → inst ρ tr ≠ tr') :
    ¬ genSel W F m (.node "ImplGroupId" [] [tr', s']) := by
  intro h
  obtain ⟨ρ, h0, h1, _⟩ := C16_trait_args_exact W F m tr s tr' s' hh h
  exact hne ρ h0 h1

/-- independent instantiations: two families whose headers have no common instance never both answer a query -/
theorem C16_independent_instantiations (W : World) (F1 F2 : Family) (m1 m2 : Member) (q : T)
    (hd : ¬ ∃ τ1 τ2, wkF τ1 F1 = true ∧ wkF τ2 F2 = true ∧ inst τ1 F1.hdr = inst τ2 F2.hdr) :
    genSel W F1 m1 q → ¬ genSel W F2 m2 q := by
  rintro ⟨τ1, _, n1, e1, _⟩ ⟨τ2, _, n2, e2, _⟩
  exact hd ⟨τ1, τ2, n1, n2, e1.trans e2.symm⟩

/-- instantiation does not touch a leaf -/
theorem inst_leaf (σ : Subst) (k : String) (as : List String) : inst σ (.node k as []) = .node k as [] := by
  rw [inst_other σ (by unfold isGA; split <;> simp_all)]; simp [instL]

/-- non-vacuity: `impl Tr<u8> for T` and `impl Tr<u16> for T` — the headers have no common instance (under any two
    substitutions), so the two families are never selected for the same query; and a member for `Tr<u8>` is not
    selected for `Tr<u16>` -/
example :
    let tru8 : T := .node "Tr" [] [.node "u8" [] []]
    let tru16 : T := .node "Tr" [] [.node "u16" [] []]
    (¬ ∃ τ1 τ2 : Subst,
      inst τ1 (.node "ImplGroupId" [] [tru8, .tparam "_ŠČ0"]) = inst τ2 (.node "ImplGroupId" [] [tru16, .tparam "_ŠČ0"])) ∧
    (∀ ρ : Subst, inst ρ tru8 ≠ tru16) := by
  refine ⟨?_, ?_⟩
  · rintro ⟨τ1, τ2, h⟩
    rw [inst_other τ1 (by rfl), inst_other τ2 (by rfl)] at h
    simp only [instL, inst_other τ1 (k := "Tr") (by rfl), inst_other τ2 (k := "Tr") (by rfl), inst_leaf] at h
    simp at h
  · intro ρ h
    simp only [inst_other ρ (k := "Tr") (by rfl), instL, inst_leaf] at h
    simp at h

/-! ## The generators: trait arguments of the main impl and the replacement of the trait's parameters
  (`Lemmas/ExpandItems.lean`; model: `mainImplOfTrait`, `resolveMainTrait`, `zipTraitArgs`, `sbT` of `Expand.lean`) -/

/-- THE MAIN IMPL IMPLEMENTS THE TRAIT AT THE FAMILY'S ARGUMENTS. If `mainImplOfTrait tr idx g = .ok m` then the trait path of
    `m` is, node for node, the trait path `tp` of the family's first block — `Trait<args>` with its lifetime, type and const
    arguments unchanged — which for a well-formed family (`expandWF`, executable) is the trait path of the group id; and the
    helper reference `href` that the where-clause bounds `Self` by passes exactly: the lifetime arguments of `tp` (unchanged,
    in order), then one projection `<bounded as Trait>::Assoc` per dispatch key, then the remaining arguments of `tp`
    (unchanged, in order). -/
theorem C16_main_impl_trait_args (tr : T) (idx : Nat) (g : T × ABG × List Blk) (m : T)
    (hm : mainImplOfTrait tr idx g = .ok m) :
    ∃ tp href, implTraitPath (firstItem_inh g) = some tp ∧ XOK.traitPathOf m = some tp ∧ implTraitPath m = some tp ∧
      (expandWF g = true → XOK.kid g.1 0 = .node "Some" [] [tp]) ∧
      mainHref_inh m = some href ∧
      XOK.segArgs (XOK.lastSeg href) =
        (traitArgsOf_it tp).filter isLifetimeArg ++
        g.2.1.idents.map (fun kx => gaType (projection kx.1.1 kx.1.2 kx.2)) ++
        (traitArgsOf_it tp).filter (fun a => !isLifetimeArg a) := by
  obtain ⟨first, rest, tp, st, unsafety, lt, gt, wc, x0, params, items, tname, targs, finals, hg, hp, hs, hres, hlast, hf, rfl⟩ :=
    mainImplOfTrait_items_inv_it hm
  have hfirst : firstItem_inh g = first.item := by simp [firstItem_inh, hg]
  refine ⟨tp, _, by rw [hfirst]; exact hp, by simp [XOK.traitPathOf, XOK.kid, XOK.kids, XOK.kind, tSome], rfl, ?_,
    mainHref_main_it _ _ _ _ _ _ _ _ _ _ _ _, ?_⟩
  · intro hwf
    simp only [expandWF, Bool.and_eq_true, hg, beq_iff_eq] at hwf
    rw [hwf.1.2]
    simp [mkHdr, hp, hs, XOK.kid, XOK.kids]
  · simp [mainHrefOf_it, helperRef, XOK.lastSeg, XOK.segsOf, pathNode, tList, XOK.kid, XOK.kids, XOK.lastOf, seg, XOK.segArgs,
      angle, XOK.kind]

/-- WHAT `resolve_main_trait_params` DOES TO THE TRAIT'S ITEMS: `sbT am`, where the argument map `am` (`mainArgMap_it`,
    `zipTraitArgs`) pairs the trait's parameters with the family's trait arguments position by position. For every map `am`:
    (a) a lifetime that names a lifetime parameter becomes the argument lifetime, any other lifetime is kept;
    (b) a type parameter in type position becomes its argument;
    (c) a path starting with a type parameter, `U::Assoc…`, becomes `<arg>::Assoc…`;
    (d) a const parameter as a bare identifier in expression position becomes the WHOLE argument expression (fix 1001a0e),
        parenthesised unless it is a path, a literal, a block or a parenthesised expression;
    (e) every node that is not a lifetime, a type path or an expression path (and not an ignored child) is rebuilt around
        its rewritten children — nothing else happens anywhere;
    (f) NOTHING ELSE CHANGES: a tree that mentions no parameter of the map (`sbFree_it`, executable) is returned unchanged;
    (g) the map has exactly one entry per zipped (parameter, argument) pair — `min(#parameters, #arguments)` entries: a
        parameter beyond the last argument (an omitted default, finding D17) has no entry, so by (f) its occurrences stay;
    (h) a const parameter facing a type argument (a bare identifier `N` is a type to `syn`, finding D24) has no map at all
        (`unreachable!()`). -/
theorem C16_trait_param_replacement (am : ArgMap) :
    (∀ (as : List String) (x : String), sbT am (.node "Lifetime" as [.node "Ident" [x] []]) =
        some ((alookup am.lt x).getD (.node "Lifetime" as [.node "Ident" [x] []]))) ∧
    (∀ (x : String) (r : T), alookup am.ty x = some r → sbT am (mkTypeIdent x) = some r) ∧
    (∀ (as : List String) (x : String) (r s1 : T) (rest : List T), alookup am.ty x = some r →
        sbFreeL_it am (s1 :: rest) = true →
        sbT am (.node "Type::Path" as [tNone, pathNode noLead (seg x :: s1 :: rest)]) =
          some (.node "Type::Path" as [tSome (.node "QSelf" [] [r, .node "Atom" ["0"] [], tNone]), pathNode someLead (s1 :: rest)])) ∧
    (∀ (x : String) (e : T), alookup am.ty x = none → alookup am.co x = some e → sbT am (identExpr x) = some (exprOperand e)) ∧
    (∀ (k : String) (as : List String) (ks : List T), NodeOther k ks → sbT am (.node k as ks) = (sbL am ks).map (.node k as)) ∧
    (∀ t : T, sbFree_it am t = true → sbT am t = some t) ∧
    (∀ ps args : List T, zipTraitArgs ps args = some am →
        am.lt.length + am.ty.length + am.co.length = min ps.length args.length) ∧
    (∀ cp ta ps args : List T,
        zipTraitArgs (.node "GenericParam::Const" [] cp :: ps) (.node "GenericArgument::Type" [] ta :: args) = none) :=
  ⟨sbT_lifetime_it am, sbT_type_occurrence_it am, sbT_type_projection_it am, sbT_const_occurrence_it am,
   fun _ as _ h => sbT_of_other_it am as h, sbT_free_it am, fun ps args h => zipTraitArgs_size_it ps args am h,
   zipTraitArgs_const_vs_type_it⟩

/-- finding D17 in general: a parameter of the trait beyond the last argument of the family's trait path (an omitted
    default) whose name no parameter that does have an argument carries is not in the argument map, and its occurrences
    in type position are left as they are — the main impl then mentions a name it does not declare
    (`C16_omitted_default_counterexample`). The side condition is executable. -/
theorem C16_omitted_parameter_unresolved (ps args : List T) (am : ArgMap) (h : zipTraitArgs ps args = some am) (x : String)
    (hx : ((ps.take args.length).map paramIdent).contains (some x) = false) :
    am.has_it x = false ∧ sbT am (mkTypeIdent x) = some (mkTypeIdent x) := by
  have hno : am.has_it x = false := by
    cases hh : am.has_it x with
    | false => rfl
    | true =>
      have := zipTraitArgs_keys_it ps args am h x hh
      rw [← List.contains_iff_mem, hx] at this
      cases this
  refine ⟨hno, sbT_unmapped_type_it am x ?_⟩
  simp only [ArgMap.has_it, Bool.or_eq_false_iff] at hno
  cases hl : alookup am.ty x with
  | none => rfl
  | some r => rw [hl] at hno; simp at hno

section ParamExamples
set_option maxRecDepth 1000000
open ExIt

/-- the argument map of the example `trait Kita<'a, U, const N: usize>` at `Kita<'_ŠČ0, Vec<_ŠČ1>, { 2 }>` -/
def exArgMap : ArgMap := ⟨[("a", ltNode "_ŠČ0")], [("U", Ex11.vecOf (.tparam "_ŠČ1"))], [("N", blockExpr "2")]⟩

/-- non-vacuity of `C16_main_impl_trait_args` and `C16_trait_param_replacement` on the example of `C01_items_example`
    (`trait Kita<'a, U, const N: usize>` implemented as `Kita<'x, Vec<T>, { 2 }>`): the generators succeed and the family is
    well-formed; the argument map of the family is `'a ↦ '_ŠČ0, U ↦ Vec<_ŠČ1>, N ↦ { 2 }`; the three items are resolved; the
    helper reference passes `'_ŠČ0` first, then one projection, then `Vec<_ŠČ1>` and `{ 2 }`; the hypotheses of (b), (d), (f)
    hold for `U`, `N` and the type `usize`, and `sbFree_it` is not vacuous (it rejects the trait's function item) -/
theorem C16_param_example : ExIt.run traitDef [memberA, memberB] (fun g _ _ m =>
    expandWF g &&
    (match implTraitPath (firstItem_inh g) with
     | some tp =>
        (match mainArgMap_it traitDef tp with
         | some am => am.lt == exArgMap.lt && am.ty == exArgMap.ty && am.co == exArgMap.co &&
             (sbL am (traitItemsOf_it traitDef)).isSome
         | none => false) &&
        (traitArgsOf_it tp).map isLifetimeArg == [true, false, false] &&
        ((mainHref_inh m).map (fun h => (XOK.segArgs (XOK.lastSeg h)).map isLifetimeArg)) == some [true, false, false, false] &&
        XOK.traitPathOf m == some tp
     | none => false) &&
    alookup exArgMap.ty "U" == some (Ex11.vecOf (.tparam "_ŠČ1")) && alookup exArgMap.ty "N" == none &&
    alookup exArgMap.co "N" == some (blockExpr "2") && sbFree_it exArgMap (tyS "usize") &&
    (traitItemsOf_it traitDef).map (sbFree_it exArgMap) == [true, true, false]) = true := by
  with_unfolding_all decide

/-- finding D17 (main_trait.rs `resolve_main_trait_params`, `zip` of parameters and arguments): a defaulted trait
    parameter whose argument is omitted stays unresolved. Witness: `trait Kita<U, V = u32> { fn f(&self, x: V); }` with the
    blocks `impl<T: Dispatch<Group = g>> Kita<T> for T { fn f(&self, x: u32) {} }` — the family is well-formed and the
    generators succeed; the argument map has one entry (`U`) and the side condition of
    `C16_omitted_parameter_unresolved` holds for `V`; the main impl implements `Kita<_ŠČ0>` and declares only `_ŠČ0`,
    but its function is `fn f(&self, x: V)`: the parameter type is still the trait's parameter `V`, which names nothing in
    the impl (rustc: cannot find type `V`). So "every occurrence of a trait parameter is replaced" holds only for
    parameters that have an argument (`C16_trait_param_replacement` (g)). -/
theorem C16_omitted_default_counterexample : ExIt.run d17Trait [d17Member "GroupA", d17Member "GroupB"] (fun g _ _ m =>
    g.2.2.length == 2 && expandWF g &&
    (match implTraitPath (firstItem_inh g) with
     | some tp => (match mainArgMap_it d17Trait tp with
         | some am => am.lt.isEmpty && am.ty.map (fun p => p.1) == ["U"] && am.co.isEmpty
         | none => false)
     | none => false) &&
    (traitParams_inh d17Trait).map pname_inh == ["U", "V"] &&
    (match implTraitPath (firstItem_inh g) with
     | some tp => !(((traitParamsOf_it d17Trait).take (traitArgsOf_it tp).length).map paramIdent).contains (some "V")
     | none => false) &&
    (genericsParams (XOK.kid m 3)).map pname_inh == ["_ŠČ0"] &&
    (implItems m).map (fun it => XOK.kid (XOK.kid it 3) 6) == [.node "List" [] [recv, typedArg "x" (tyS "V")]]) = true := by
  with_unfolding_all decide

/-- finding D24: a const trait parameter instantiated with a BARE const identifier. Witness:
    `trait Kita<const N: usize> { fn f(&self) -> [u8; N]; }` with the blocks
    `impl<T: Dispatch<Group = g>, const M: usize> Kita<M> for T { … }` — the front end forms the family (two members), the
    argument `M` is a type argument to `syn`, there is no argument map and `main_trait::generate` reaches `unreachable!()`:
    the model's main impl is `panic`. With the braced spelling `Kita<{ M }>` the same invocation expands, and the return
    type of `f` is `[u8; { _ŠČ0 }]` (the whole argument expression). -/
theorem C16_bare_const_argument_counterexample :
    (match parseGroups [d24Member "GroupA", d24Member "GroupB"] with
     | .ok (g :: _) => g.2.2.length == 2 && expandWF g &&
         (match implTraitPath (firstItem_inh g) with
          | some tp => (mainArgMap_it d24Trait tp).isNone
          | none => false) &&
         (match mainImplOfTrait d24Trait 0 g with | .panic => true | _ => false)
     | _ => false) = true ∧
    ExIt.run d24Trait [d24MemberBraced "GroupA", d24MemberBraced "GroupB"] (fun g _ _ m =>
      g.2.2.length == 2 && expandWF g &&
      (implItems m).map (fun it => XOK.kid (XOK.kid it 3) 8) ==
        [retTy (arrTy (tyS "u8") (.node "Expr::Block" [] [Ex11.attrs, Ex11.leaf "None", blockOf [stmtExpr (.eparam "_ŠČ0")]]))]) = true := by
  constructor <;> with_unfolding_all decide

end ParamExamples

end DI
