/-
  C06 — independence from parameter names, declaration order and bound placement. Property theorems only.
  At the semantic level a block is (header, set of clauses, Sized requirements): declaration order and inline /
  where-clause placement are not even representable, and the order of the clauses does not matter (`applies` quantifies
  over membership). What remains is renaming: see `C06_clause_order_irrelevant` and `C06_same_blocks_same_dispatch`;
  the canonicalisation that makes renamed blocks syntactically equal is C13's subject and is compared with the real
  `resolve_non_predicate_params` on every generated variant.
  On the syntactic level (last section): blocks that differ by a consistent renaming of the generic parameters and a
  permutation of their declarations have the same canonical header and fall into one bucket of `mkBuckets`
  (`C06_renamed_permuted_same_header`, `C06_renamed_permuted_one_bucket`; proofs: C13's alpha-invariance and
  declaration-order theorems).
  Bound placement and bound order on the syntactic level (final sections; proofs: `Lemmas/FlatPlacement.lean`): for
  un-nested invocations, presentations whose blocks list the same bounds in a different order / position
  (`PlacedAs`) get the same verdict and corresponding families (`C06_flat_placement_acceptance`, `_families`, `_parse`,
  `_items`, `_checked`), under `noConflictingBindings` — needed, `C06_flat_placement_counterexample` — and implement the
  trait for the same queries (`C06_flat_placement_same_dispatch`); moving a bound into the where-clause is such a
  presentation (`C06_move_bound_to_where`).
-/
import DisjointImpls.Props.C05
import DisjointImpls.Props.C13
import DisjointImpls.Props.C02
import DisjointImpls.Lemmas.FlatPlacement
namespace DI

/-- the order in which a block's bounds are written (hence inline vs where-clause placement, which only moves a
    bound inside the list that `TraitBoundsVisitor` collects) is irrelevant to whether the block applies -/
theorem C06_clause_order_irrelevant (W : World) (b : Block) (cs : List Clause) (h : b.clauses.Perm cs) (q : T) :
    applies W b q ↔ applies W { b with clauses := cs } q := by
  constructor
  · rintro ⟨ρ, h0, h1, h2, h3⟩
    exact ⟨ρ, wkB_of_sub (b := b) (b' := { b with clauses := cs }) rfl (fun c hc => h.mem_iff.mpr hc) (fun _ hp => hp) h0, h1, fun c hc => h2 c (h.mem_iff.mpr hc), h3⟩
  · rintro ⟨ρ, h0, h1, h2, h3⟩
    exact ⟨ρ, wkB_of_sub (b := { b with clauses := cs }) (b' := b) rfl (fun c hc => h.mem_iff.mp hc) (fun _ hp => hp) h0, h1, fun c hc => h2 c (h.mem_iff.mp hc), h3⟩

/-- likewise for the order of the parameters that must be `Sized` (declaration order of `impl<..>`) -/
theorem C06_decl_order_irrelevant (W : World) (b : Block) (ps : List String) (h : b.sizedParams.Perm ps) (q : T) :
    applies W b q ↔ applies W { b with sizedParams := ps } q := by
  constructor
  · rintro ⟨ρ, h0, h1, h2, h3⟩
    exact ⟨ρ, wkB_of_sub (b := b) (b' := { b with sizedParams := ps }) rfl (fun _ hc => hc) (fun p hp => h.mem_iff.mpr hp) h0, h1, h2, fun p hp => h3 p (h.mem_iff.mpr hp)⟩
  · rintro ⟨ρ, h0, h1, h2, h3⟩
    exact ⟨ρ, wkB_of_sub (b := { b with sizedParams := ps }) (b' := b) rfl (fun _ hc => hc) (fun p hp => h.mem_iff.mp hp) h0, h1, h2, fun p hp => h3 p (h.mem_iff.mp hp)⟩

/-- two presentations of an invocation whose (canonicalised) blocks are the same up to order are implemented for
    exactly the same queries, whatever well-formed groupings the macro forms for them -/
theorem C06_same_blocks_same_dispatch (W : World) (G G' : List Family) (hG : GroupingWF W G) (hG' : GroupingWF W G')
    (h : (blocksOf G).Perm (blocksOf G')) (q : T) : implemented W G q ↔ implemented W G' q :=
  C05_dispatch_invariant W G G' hG hG' h q

/-! ## Renaming and declaration order on the syntactic level (proofs: C13, `Lemmas/CanonAlpha.lean`,
`Lemmas/CanonDeclOrder.lean`)

`alphaRename π item`: the generic parameters of the block consistently respelled by `π`; `setParams ps' item`: the block
with its list of declared generic parameters replaced by `ps'`; `mkBlk` (Group.lean) canonicalises a raw block, `groupIdOf`
is the header (trait path, self type) by which `mkBuckets` groups the blocks.
Side conditions (executable): `canonWF item` (the well-formedness condition of C13) and `alphaOK π item` (only declared
parameters are respelled, the new spellings are distinct per name space, parameters that occur nowhere keep their
spelling, no capture) — see `Props/C13.lean`, "Alpha-invariance", for the reason each one is there. -/

/-- **blocks that are equal up to a consistent renaming of the generic parameters and a permutation of their
    declarations have the same canonical header** -/
theorem C06_renamed_permuted_same_header (π : Renaming) (item : T) (ps' : List T) (hwf : canonWF item = true)
    (hal : alphaOK π item = true) (hp : ps'.Perm (implParams (alphaRename π item))) :
    groupIdOf (mkBlk (setParams ps' (alphaRename π item))).item = groupIdOf (mkBlk item).item := by
  have hdecl : implDeclsOK item = true := by
    simp only [canonWF, Bool.and_eq_true] at hwf
    exact hwf.1.1.1
  obtain ⟨h1, h2⟩ := C13_alpha_decls π item hdecl hal
  show groupIdOf (canon (setParams ps' (alphaRename π item))) = groupIdOf (canon item)
  rw [(C13_declOrder_header (alphaRename π item) ps' h1 h2 hp).1, (C13_alpha_header π item hwf hal).1]

/-- … also when parameters that occur nowhere are respelled (`alphaOKh`: `alphaOK` without `deadFixed`), provided the
    indexer visits the whole trait path and self type (`hdrVis`, executable: no nested `Generics` node) -/
theorem C06_renamed_permuted_same_header_any (π : Renaming) (item : T) (ps' : List T) (hwf : canonWF item = true)
    (hal : alphaOKh π item = true) (hv : hdrVis item = true) (hp : ps'.Perm (implParams (alphaRename π item))) :
    groupIdOf (mkBlk (setParams ps' (alphaRename π item))).item = groupIdOf (mkBlk item).item := by
  have hdecl : implDeclsOK item = true := by
    simp only [canonWF, Bool.and_eq_true] at hwf
    exact hwf.1.1.1
  obtain ⟨h1, h2⟩ := alpha_decls_h π item hdecl hal
  show groupIdOf (canon (setParams ps' (alphaRename π item))) = groupIdOf (canon item)
  rw [(C13_declOrder_header (alphaRename π item) ps' h1 h2 hp).1, C13_alpha_header_any π item hwf hal hv]

/-- … renaming alone: the canonical blocks are even identical (same header, same bounds) -/
theorem C06_renamed_same_block (π : Renaming) (item : T) (hwf : canonWF item = true) (hal : alphaOK π item = true) :
    mkBlk (alphaRename π item) = mkBlk item := by
  unfold mkBlk
  rw [C13_alpha_invariance π item hwf hal]

/-- … declaration order alone -/
theorem C06_permuted_same_header (item : T) (ps' : List T) (hdecl : implDeclsOK item = true)
    (hd : namesDistinct (canonCtx item) = true) (hp : ps'.Perm (implParams item)) :
    groupIdOf (mkBlk (setParams ps' item)).item = groupIdOf (mkBlk item).item :=
  (C13_declOrder_header item ps' hdecl hd hp).1

/-- two blocks with the same header fall into one bucket of `mkBuckets` -/
theorem C06_same_header_one_bucket (b1 b2 : Blk) (h : groupIdOf b2.item = groupIdOf b1.item) :
    (mkBuckets [b1, b2]).map Prod.fst = [groupIdOf b1.item] := by
  simp [mkBuckets, h]

/-- hence a block and its renamed and re-ordered presentation are grouped together -/
theorem C06_renamed_permuted_one_bucket (π : Renaming) (item : T) (ps' : List T) (hwf : canonWF item = true)
    (hal : alphaOK π item = true) (hp : ps'.Perm (implParams (alphaRename π item))) :
    (mkBuckets [mkBlk item, mkBlk (setParams ps' (alphaRename π item))]).map Prod.fst = [groupIdOf (mkBlk item).item] :=
  C06_same_header_one_bucket _ _ (C06_renamed_permuted_same_header π item ps' hwf hal hp)

section C06Examples
open Ex13
set_option maxRecDepth 100000

/-- `impl<A: Tr<B>, B> Kita for (A, A::Target) {}`: `named` respelled (`T ↦ A, U ↦ B`) and with its declarations swapped -/
def Ex13.namedABSwParams : List T := [tyParam "A" [traitBound (trWith "Tr" (tyPath [seg "B"]))], tyParam "B" []]

/-- non-vacuity: `impl<U, T: Tr<U>> Kita for (T, T::Target)` against `impl<A: Tr<B>, B> Kita for (A, A::Target)` -/
theorem C06_renamed_permuted_example :
    canonWF named = true ∧ alphaOK piNamed named = true ∧ namedABSwParams.Perm (implParams (alphaRename piNamed named)) ∧
    setParams namedABSwParams (alphaRename piNamed named) =
      implOf [tyParam "A" [traitBound (trWith "Tr" (tyPath [seg "B"]))], tyParam "B" []]
        (tuple [tyPath [seg "A"], tyPath [seg "A", seg "Target"]]) ∧
    (mkBuckets [mkBlk named, mkBlk (setParams namedABSwParams (alphaRename piNamed named))]).length = 1 := by
  refine ⟨?_, ?_, ?_, ?_, ?_⟩
  · with_unfolding_all decide
  · with_unfolding_all decide
  · have e : implParams (alphaRename piNamed named) =
        [tyParam "B" [], tyParam "A" [traitBound (trWith "Tr" (tyPath [seg "B"]))]] := by with_unfolding_all decide
    rw [e]
    exact List.Perm.swap _ _ _
  · with_unfolding_all decide
  · with_unfolding_all decide

/-- non-vacuity of `C06_renamed_permuted_same_header_any`: `impl<T, D> Kita for T` against `impl<E, T> Kita for T` -/
theorem C06_renamed_permuted_any_example :
    canonWF alphaDead = true ∧ alphaOKh piDead alphaDead = true ∧ hdrVis alphaDead = true ∧
    [tyParam "E" [], tyParam "T" []].Perm (implParams (alphaRename piDead alphaDead)) ∧
    (mkBuckets [mkBlk alphaDead, mkBlk (setParams [tyParam "E" [], tyParam "T" []] (alphaRename piDead alphaDead))]).length = 1 := by
  refine ⟨?_, ?_, ?_, ?_, ?_⟩
  · with_unfolding_all decide
  · with_unfolding_all decide
  · with_unfolding_all decide
  · have e : implParams (alphaRename piDead alphaDead) = [tyParam "T" [], tyParam "E" []] := by with_unfolding_all decide
    rw [e]
    exact List.Perm.swap _ _ _
  · with_unfolding_all decide
end C06Examples

/-! ## Bound placement and bound order on the syntactic level, un-nested invocations (proofs: `Lemmas/FlatPlacement.lean`)

Moving a trait bound between its inline position and the where-clause, or re-ordering bounds / predicates, PERMUTES the
list `Blk.raw` that `Bounds.findBounds` (model of `TraitBoundsVisitor::find`) extracts from a block. (For a bound-only
parameter it may also change the canonical numbering — finding D20; here the canonical header is assumed unchanged.)

* `PlacedAs b b'` (executable: `placedAsB`): the same canonical header `groupIdOf` and `b'.raw` is a permutation of `b.raw`.
* `BucketsPlaced l l'` (executable: `bucketsPlacedB`): two lists of buckets with, bucket by bucket, the same header and,
  block by block, `PlacedAs`. The theorems are stated for the bucket-by-bucket loop `goFlat` on explicit buckets — which
  is `parseGroups` for un-nested invocations (`C11_flat`) — and then for `parseGroups` itself.
* Side conditions (executable): `flatBucketsOK_pl l` — every header that matches itself does so with identity bindings
  only (`selfWeak`), no bucket is empty, every trait path of a bound can be compared by `TraitBound::eq` (`wfBlk`), the
  blocks of a bucket are pairwise different, and `noConflictingBindings b` for every block: the bounds of the block with
  one dispatch key (same bounded type, `TraitBound::eq` trait paths) that bind an associated type agree on what they
  bind it to (fails for `T: D<G = A>` and `T: D<G = B>` in one block). The last one is needed, and exactly so:
  `IndexMap::extend` lets the last binding win, so the order of such bounds changes the row
  (`C06_noConflictingBindings_necessary`) and even acceptance (`C06_flat_placement_counterexample`). `bucketsNodup_pl l'`: the blocks of every bucket of the second presentation
  are pairwise different (true of the buckets `mkBuckets` builds).
* `Verdict` / `ParseResult.verdict`: accepted, rejected with "Unable to form impl group" for a header, or a panic. -/

/-- **what a block binds an associated type to under a dispatch key** (`cell b (k, x)`, the payload the search compares):
    the LAST binding of `x` among the bounds of the block whose key is `TraitBound::eq` to `k`, in the order
    `TraitBoundsVisitor` lists them (inline bounds by parameter identifier, then the where-clause). Side conditions:
    the trait paths of the block and of `k` can be compared (`wfBlk`, `WfKey`). -/
theorem C06_cell_last_binding_wins (b : Blk) (hb : wfBlk b = true) (k : BKey) (hk : WfKey k) (x : String) :
    cell b (k, x) = b.raw.foldl (fun o rb =>
      if keyEq (rb.bounded, rb.tr) k then rb.binds.foldl (fun o e => if e.1 == x then some e.2 else o) o else o) none :=
  cell_eq_pl hb hk x

/-- … hence it does not depend on the placement / order of the bounds when the bounds with one key that bind an
    associated type agree on its binding (`noConflictingBindings`); and whether the block has a bound with that key never
    does -/
theorem C06_block_rows_placement (b b' : Blk) (hp : PlacedAs b b') (hb : wfBlk b = true)
    (hc : noConflictingBindings b = true) (k : BKey) (hk : WfKey k) :
    (rowOf b' k).isSome = (rowOf b k).isSome ∧ (∀ x, rowLookup (rowD b' k) x = rowLookup (rowD b k) x) ∧
    ∀ p, p ∈ b'.unsized ↔ p ∈ b.unsized := by
  have hs := blkSim_of_perm_pl hp.2 hb hc
  exact ⟨(hs.some k hk).symm, fun x => (hs.cell k hk x).symm, fun p => (hs.uns p).symm⟩

/-- **`noConflictingBindings` is necessary block by block**: a block (with comparable trait paths) that violates it has
    a presentation — the same item, its bounds in another order — that binds some associated type under some key to a
    different payload -/
theorem C06_noConflictingBindings_necessary (b : Blk) (hb : wfBlk b = true) (hc : noConflictingBindings b = false) :
    ∃ b', PlacedAs b b' ∧ ∃ k x, WfKey k ∧ cell b' (k, x) ≠ cell b (k, x) := by
  obtain ⟨b', h1, h2, h3⟩ := noConflict_necessary_pl hb hc
  exact ⟨b', ⟨by rw [h1], h2⟩, h3⟩

/-- **the candidate filter on a bucket does not depend on the placement / order of the bounds of its blocks**
    (`accOK`: what acceptance is bucket by bucket, `C05_flat_acceptance_characterised`; `separatedB`: its executable
    order-free form, `C03_flat_acceptance_exact`). Side conditions: the blocks of each presentation are pairwise
    different, `wfBlk` and `noConflictingBindings` for the blocks of the first one. -/
theorem C06_bucket_filter_placement (blks blks' : List Blk) (hp : Forall2 PlacedAs blks blks')
    (hok : ∀ b ∈ blks, wfBlk b = true ∧ noConflictingBindings b = true) (hnd : blks.Nodup) (hnd' : blks'.Nodup) :
    accOK blks = accOK blks' ∧ separatedB blks = separatedB blks' := by
  have hs : BlksSim_pl blks blks' := by
    have := bucketsSim_of_placed_pl (l := [(T.tparam "", blks)]) (l' := [(T.tparam "", blks')])
      (.cons ⟨rfl, hp⟩ .nil) (by
        intro bk hbk b hb
        simp only [List.mem_singleton] at hbk
        subst hbk
        exact hok b hb)
    cases this with | cons h _ => exact h.2
  have hacc := accOK_sim_pl hs hnd hnd'
  refine ⟨hacc, ?_⟩
  cases hs with
  | nil => rfl
  | @cons b b' t t' h1 ht =>
    have hall : BlksSim_pl (b :: t) (b' :: t') := .cons h1 ht
    rw [← accOK_eq_separatedB (by simp) (blksSim_wf_pl hall) hnd,
      ← accOK_eq_separatedB (by simp) (blksSim_wf_pl (blksSim_symm_pl hall)) hnd', hacc]

/-- **1. acceptance does not depend on the placement / order of the bounds** (the loop over flat buckets): the two
    presentations get the same verdict — both accepted, or both rejected with "Unable to form impl group" for the
    same header, or both panic in the same way -/
theorem C06_flat_placement_acceptance (l l' : List (T × List Blk)) (hpl : BucketsPlaced l l')
    (hok : flatBucketsOK_pl l = true) (hnd' : bucketsNodup_pl l' = true) :
    (goFlat l []).verdict = (goFlat l' []).verdict :=
  goFlat_placement_verdict_pl hpl hok hnd'

/-- … spelled out -/
theorem C06_flat_placement_acceptance_iff (l l' : List (T × List Blk)) (hpl : BucketsPlaced l l')
    (hok : flatBucketsOK_pl l = true) (hnd' : bucketsNodup_pl l' = true) :
    ((∃ g, goFlat l [] = .ok g) ↔ (∃ g', goFlat l' [] = .ok g')) ∧
    (∀ id, goFlat l [] = .unableToForm id ↔ goFlat l' [] = .unableToForm id) ∧
    (∀ e, goFlat l [] = .panic e ↔ goFlat l' [] = .panic e) := by
  have h := C06_flat_placement_acceptance l l' hpl hok hnd'
  revert h
  cases goFlat l [] with
  | ok g =>
    cases goFlat l' [] with
    | ok g' =>
      intro _
      exact ⟨⟨fun _ => ⟨g', rfl⟩, fun _ => ⟨g, rfl⟩⟩, fun id => ⟨fun h => (by cases h), fun h => (by cases h)⟩,
        fun e => ⟨fun h => (by cases h), fun h => (by cases h)⟩⟩
    | unableToForm id' => intro h; cases h
    | panic e' => intro h; cases h
  | unableToForm id0 =>
    cases goFlat l' [] with
    | ok g' => intro h; cases h
    | unableToForm id' =>
      intro h
      simp only [ParseResult.verdict, Verdict.unable.injEq] at h
      subst h
      exact ⟨⟨fun ⟨_, h⟩ => (by cases h), fun ⟨_, h⟩ => (by cases h)⟩, fun id => Iff.rfl, fun e => Iff.rfl⟩
    | panic e' => intro h; cases h
  | panic e0 =>
    cases goFlat l' [] with
    | ok g' => intro h; cases h
    | unableToForm id' => intro h; cases h
    | panic e' =>
      intro h
      simp only [ParseResult.verdict, Verdict.panic.injEq] at h
      subst h
      exact ⟨⟨fun ⟨_, h⟩ => (by cases h), fun ⟨_, h⟩ => (by cases h)⟩, fun id => Iff.rfl, fun e => Iff.rfl⟩

/-- **2. the families do not depend on the placement / order of the bounds**: when both presentations are accepted the
    families correspond one to one in the same order (`FamSim_pl`): the same header; the members position by position
    with the same rows as finite maps and the same `?Sized` types (`BlkSim_pl`); the same keys up to spelling and order
    (`nk`: bounded type and dispatch key of the trait path — the list of normal forms is a permutation); under
    `keyEq` keys every member has the same row up to the order of the associated-type identifiers (`RowEq_pl`:
    `rowLookup r a = rowLookup r' a` for every `a`), in both directions; the same `?Sized` set -/
theorem C06_flat_placement_families (l l' : List (T × List Blk)) (g g' : Groups) (hpl : BucketsPlaced l l')
    (hok : flatBucketsOK_pl l = true) (hg : goFlat l [] = .ok g) (hg' : goFlat l' [] = .ok g') :
    Forall2 FamSim_pl g g' :=
  goFlat_placement_families_pl hpl hok hg hg'

/-- … in particular the members of corresponding families are presentations of each other, in the same order -/
theorem C06_flat_placement_members (l l' : List (T × List Blk)) (g g' : Groups) (hpl : BucketsPlaced l l')
    (hok : flatBucketsOK_pl l = true) (hg : goFlat l [] = .ok g) (hg' : goFlat l' [] = .ok g') :
    Forall2 (fun e e' => e.1 = e'.1 ∧ Forall2 PlacedAs e.2.2 e'.2.2) g g' := by
  have hs := flatBucketsOK_spec_pl hok
  have hl : ∀ bk ∈ l, selfWeak bk.1 = true ∧ bk.2 ≠ [] := fun bk hbk => (hs bk hbk).1
  have hl' : ∀ bk' ∈ l', selfWeak bk'.1 = true ∧ bk'.2 ≠ [] := by
    intro bk' hbk'
    obtain ⟨bk, hbk, h1, h2⟩ := forall₂_right hpl bk' hbk'
    refine ⟨h1 ▸ (hl bk hbk).1, ?_⟩
    intro e
    have := forall2_length_pl h2
    rw [e] at this
    exact (hl bk hbk).2 (List.length_eq_zero_iff.1 this)
  rw [goFlat_ok_groups_pl hl hg, goFlat_ok_groups_pl hl' hg']
  exact forall2_map_pl grpOf_pl grpOf_pl (fun _ _ h => h) hpl

/-- **1./2. on `parseGroups`**: two un-nested invocations whose buckets correspond up to the placement / order of the
    bounds get the same verdict, and when accepted corresponding families. Side conditions on the first invocation
    only: no header generalises a different one (`msPairs … = []`, i.e. `noNesting`), `flatWF0` (C05) and
    `noConflictingBindingsAll`. -/
theorem C06_flat_placement_parse (items items' : List T)
    (hpl : BucketsPlaced (mkBuckets (items.map mkBlk)) (mkBuckets (items'.map mkBlk)))
    (hms : msPairs ((mkBuckets (items.map mkBlk)).map (·.1)) = []) (hwf : flatWF0 items = true)
    (hc : noConflictingBindingsAll items = true) :
    (parseGroups items).verdict = (parseGroups items').verdict ∧
    ∀ g g', parseGroups items = .ok g → parseGroups items' = .ok g' → Forall2 FamSim_pl g g' :=
  ⟨parseGroups_placement_verdict_pl hpl hms hwf hc, fun _ _ hg hg' => parseGroups_placement_families_pl hpl hms hwf hc hg hg'⟩

/-- **3. the semantic level**: `PlacedItem it it'` (executable: `placedItemB`) — `PlacedAs` on the canonical blocks and
    the same declared type parameters. A block and its presentation apply to the same queries … -/
theorem C06_placed_block_applies (it it' : T) (h : PlacedItem it it') (W : World) (q : T) :
    applies W (mkBlock (canon it)) q ↔ applies W (mkBlock (canon it')) q :=
  applies_placed_pl h W q

/-- … so, with `C02_end_to_end_flat_coverage` for both presentations (its side conditions for both groupings), the two
    generated programs implement the trait for exactly the same queries -/
theorem C06_flat_placement_same_dispatch (items items' : List T) (groups groups' : Groups)
    (hpl : Forall2 PlacedItem items items')
    (h : parseGroups items = .ok groups) (h' : parseGroups items' = .ok groups')
    (hn : noNesting items = true) (hn' : noNesting items' = true) (sp sp' : List String)
    (hok : ∀ e ∈ groups, flatGroupOK e = true ∧ hdrCoversB (familyOfGroup sp e) = true)
    (hok' : ∀ e ∈ groups', flatGroupOK e = true ∧ hdrCoversB (familyOfGroup sp' e) = true)
    (W : World) (hw : ∀ e ∈ groups, WorldTotal W (familyOfGroup sp e)) (hw' : ∀ e ∈ groups', WorldTotal W (familyOfGroup sp' e))
    (hsz : ∀ e ∈ groups, ∀ m ∈ (familyOfGroup sp e).members, SizedCompat W (familyOfGroup sp e) m)
    (hsz' : ∀ e ∈ groups', ∀ m ∈ (familyOfGroup sp' e).members, SizedCompat W (familyOfGroup sp' e) m) (q : T) :
    (∃ e ∈ groups, ∃ m ∈ (familyOfGroup sp e).members, genSel W (familyOfGroup sp e) m q) ↔
    (∃ e ∈ groups', ∃ m ∈ (familyOfGroup sp' e).members, genSel W (familyOfGroup sp' e) m q) := by
  rw [C02_end_to_end_flat_coverage items groups h hn sp hok W hw hsz q,
    C02_end_to_end_flat_coverage items' groups' h' hn' sp' hok' W hw' hsz' q]
  exact exists_applies_placed_pl hpl W q

/-- … as an executable check on the two groupings (`famSimB_pl`: what the test harness evaluates on the families
    computed for two presentations): same header, members `placedAsB`, the normal forms of the keys a permutation
    (`isPerm`), rows equal as finite maps under `keyEq` keys in both directions (`rowEqB_pl`), the same `?Sized` set -/
theorem C06_flat_placement_families_check (l l' : List (T × List Blk)) (g g' : Groups) (hpl : BucketsPlaced l l')
    (hok : flatBucketsOK_pl l = true) (hg : goFlat l [] = .ok g) (hg' : goFlat l' [] = .ok g') :
    forall2B_pl famSimB_pl g g' = true := by
  have h1 := C06_flat_placement_families l l' g g' hpl hok hg hg'
  have h2 := C06_flat_placement_members l l' g g' hpl hok hg hg'
  rw [forall2B_iff_pl (R := fun e e' => famSimB_pl e e' = true) (fun _ _ => Iff.rfl)]
  exact forall2_imp_pl (fun _ _ h => famSimB_of_pl h.1 h.2.2) (forall2_and_pl h1 h2)

/-- **1./2. for two invocations that correspond block by block**: `items'` presents `items` with, block by block in
    input order, the same canonical header and the bounds placed / ordered differently (`PlacedAs` on `mkBlk`); the
    canonical block texts are pairwise different on both sides. Then the buckets correspond
    (`mkBuckets_placed_pl`), the verdicts agree and the families correspond. -/
theorem C06_flat_placement_items (items items' : List T)
    (hpl : Forall2 PlacedAs (items.map mkBlk) (items'.map mkBlk))
    (hnd : ((items.map mkBlk).map (·.item)).Nodup) (hnd' : ((items'.map mkBlk).map (·.item)).Nodup)
    (hn : noNesting items = true) (hwf : flatWF0 items = true) (hc : noConflictingBindingsAll items = true) :
    (parseGroups items).verdict = (parseGroups items').verdict ∧
    ∀ g g', parseGroups items = .ok g → parseGroups items' = .ok g' →
      Forall2 FamSim_pl g g' ∧ forall2B_pl famSimB_pl g g' = true := by
  have hb := mkBuckets_placed_pl hpl hnd hnd'
  have hms : msPairs ((mkBuckets (items.map mkBlk)).map (·.1)) = [] := by simpa [noNesting] using hn
  obtain ⟨hv, hf⟩ := C06_flat_placement_parse items items' hb hms hwf hc
  refine ⟨hv, fun g g' hg hg' => ⟨hf g g' hg hg', ?_⟩⟩
  obtain ⟨e1, e2⟩ := parseGroups_placed_flat_pl hb hms
  exact C06_flat_placement_families_check _ _ g g' hb (buckets_ok_pl items hwf hc) (e1 ▸ hg) (e2 ▸ hg')

/-- … with all hypotheses in ONE executable check `placementPreB items items'` (what the harness evaluates) -/
theorem C06_flat_placement_checked (items items' : List T) (h : placementPreB items items' = true) :
    (parseGroups items).verdict = (parseGroups items').verdict ∧
    ∀ g g', parseGroups items = .ok g → parseGroups items' = .ok g' → forall2B_pl famSimB_pl g g' = true := by
  obtain ⟨hb, hms, hwf, hc⟩ := placementPreB_spec h
  obtain ⟨hv, _⟩ := C06_flat_placement_parse items items' hb hms hwf hc
  refine ⟨hv, fun g g' hg hg' => ?_⟩
  obtain ⟨e1, e2⟩ := parseGroups_placed_flat_pl hb hms
  exact C06_flat_placement_families_check _ _ g g' hb (buckets_ok_pl items hwf hc) (e1 ▸ hg) (e2 ▸ hg')

/-! ### which syntactic changes permute `Blk.raw`

`findBounds` lists the inline bounds of the parameters sorted by identifier, then the where-clause: up to a permutation
it is `unsortedBounds_pl` (declaration order, then the where-clause). Hence moving bounds of a parameter into a new
where-predicate, re-ordering the where-predicates and re-ordering bounds all permute it. The statements are about the
generics of the CANONICAL blocks (`genericsOf_pl (canon it)`), described through the accessors `genericsParams` /
`genericsWhere`; that the canonical header is unchanged is a hypothesis (finding D20: for a bound-only parameter the
canonical numbering may change). -/

/-- `TraitBoundsVisitor::find` is, up to a permutation, the bounds in declaration order followed by the where-clause -/
theorem C06_findBounds_perm_unsorted (g : T) : (findBounds g).Perm (unsortedBounds_pl g) :=
  findBounds_perm_unsorted_pl g

/-- **moving bounds `bs2` of the type parameter `x` from their inline position into a new predicate `x: bs2` at the end
    of the where-clause** (canonical header unchanged) yields a presentation of the same block in the sense of
    `PlacedAs`; `typeParam_pl a c e d x bs` is the parameter `x: bs` (other fields arbitrary), `wherePred_pl lts t bs`
    the predicate `t: bs` -/
theorem C06_move_bound_to_where (it it' : T) (pre post : List T) (a c e d lts : T) (x : String) (bs1 bs2 : List T)
    (hhdr : groupIdOf (canon it) = groupIdOf (canon it'))
    (hps : genericsParams (genericsOf_pl (canon it)) = pre ++ [typeParam_pl a c e d x (bs1 ++ bs2)] ++ post)
    (hps' : genericsParams (genericsOf_pl (canon it')) = pre ++ [typeParam_pl a c e d x bs1] ++ post)
    (hw : genericsWhere (genericsOf_pl (canon it')) =
      genericsWhere (genericsOf_pl (canon it)) ++ [wherePred_pl lts (mkTypeIdent x) bs2]) :
    PlacedAs (mkBlk it) (mkBlk it') :=
  ⟨hhdr, findBounds_move_pl _ _ pre post a c e d lts x bs1 bs2 hps hps' hw⟩

/-- re-ordering the where-predicates (canonical header and parameters unchanged) likewise -/
theorem C06_reorder_where (it it' : T) (hhdr : groupIdOf (canon it) = groupIdOf (canon it'))
    (hps : genericsParams (genericsOf_pl (canon it')) = genericsParams (genericsOf_pl (canon it)))
    (hw : (genericsWhere (genericsOf_pl (canon it'))).Perm (genericsWhere (genericsOf_pl (canon it)))) :
    PlacedAs (mkBlk it) (mkBlk it') :=
  ⟨hhdr, findBounds_where_perm_pl _ _ hps hw⟩

namespace Ex06
open Ex11
/-- `impl<T> Kita for T where T: Dispatch<Group = GroupB> {}` -/
def whereB : T := implW [tyParam "T" []] [pred tT [traitBound (dispatch "GroupB")]] tT
/-- the README pair, both dispatch bounds inline:
    `impl<T: Dispatch<Group = GroupA>> Kita for T {}`  +  `impl<T: Dispatch<Group = GroupB>> Kita for T {}` -/
def inlineItems : List T := [blockFor "GroupA", blockFor "GroupB"]
/-- … the second block with its dispatch bound in the where-clause:
    `impl<T: Dispatch<Group = GroupA>> Kita for T {}`  +  `impl<T> Kita for T where T: Dispatch<Group = GroupB> {}` -/
def whereItems : List T := [blockFor "GroupA", whereB]
/-- `impl<T: Other<Kind = X>> Kita for T where T: Dispatch<Group = GroupA> {}` -/
def movedAX : T := implW [tyParam "T" [traitBound (otherTr "X")]] [pred tT [traitBound (dispatch "GroupA")]] tT
/-- two keys per block: `impl<T: Dispatch<Group = GroupA> + Other<Kind = X>> Kita for T {}`  +
    `impl<T: Dispatch<Group = GroupB> + Other<Kind = Y>> Kita for T {}` -/
def twoKeys : List T := [block2 "GroupA" "X", block2 "GroupB" "Y"]
/-- … the first block with its two bounds in the other order (one of them moved to the where-clause):
    `impl<T: Other<Kind = X>> Kita for T where T: Dispatch<Group = GroupA> {}`  +  the second block unchanged -/
def twoKeysMoved : List T := [movedAX, block2 "GroupB" "Y"]
/-- `impl<T: Dispatch<Group = GroupA>> Kita for T where T: Dispatch<Group = GroupB> {}` -/
def conflictAB : T := implW [tyParam "T" [traitBound (dispatch "GroupA")]] [pred tT [traitBound (dispatch "GroupB")]] tT
/-- `impl<T> Kita for T where T: Dispatch<Group = GroupB>, T: Dispatch<Group = GroupA> {}`: the inline bound of
    `conflictAB` moved to the END of the where-clause -/
def conflictBA : T :=
  implW [tyParam "T" []] [pred tT [traitBound (dispatch "GroupB")], pred tT [traitBound (dispatch "GroupA")]] tT
/-- conflicting bindings: `conflictAB`  +  `impl<T: Dispatch<Group = GroupB>> Kita for T {}` -/
def conflictItems : List T := [conflictAB, blockFor "GroupB"]
/-- … `conflictBA`  +  the second block unchanged -/
def conflictMoved : List T := [conflictBA, blockFor "GroupB"]
/-- the buckets of an invocation -/
def bucketsOf (items : List T) : List (T × List Blk) := mkBuckets (items.map mkBlk)
/-- the canonical bound `T: Dispatch<Group = g>` as `TraitBoundsVisitor` lists it -/
def rbD (g : String) : RawBound := ⟨.tparam "_ŠČ0", dispatch g, [("Group", tyPath [seg g])], false⟩
/-- the canonical bound `T: Other<Kind = k>` -/
def rbO (k : String) : RawBound := ⟨.tparam "_ŠČ0", otherTr k, [("Kind", tyPath [seg k])], false⟩
end Ex06

section C06PlacementExamples
open Ex11 Ex06
set_option maxRecDepth 1000000

theorem Ex06.placed_whereB : PlacedAs (mkBlk (blockFor "GroupB")) (mkBlk whereB) := by
  have r1 : (mkBlk (blockFor "GroupB")).raw = [rbD "GroupB"] := by decide +kernel
  have r2 : (mkBlk whereB).raw = [rbD "GroupB"] := by decide +kernel
  exact ⟨by decide +kernel, by rw [r1, r2]⟩

theorem Ex06.placed_movedAX : PlacedAs (mkBlk (block2 "GroupA" "X")) (mkBlk movedAX) := by
  have r1 : (mkBlk (block2 "GroupA" "X")).raw = [rbD "GroupA", rbO "X"] := by decide +kernel
  have r2 : (mkBlk movedAX).raw = [rbO "X", rbD "GroupA"] := by decide +kernel
  exact ⟨by decide +kernel, by rw [r1, r2]; exact List.Perm.swap _ _ _⟩

theorem Ex06.placed_conflict : PlacedAs (mkBlk conflictAB) (mkBlk conflictBA) := by
  have r1 : (mkBlk conflictAB).raw = [rbD "GroupA", rbD "GroupB"] := by decide +kernel
  have r2 : (mkBlk conflictBA).raw = [rbD "GroupB", rbD "GroupA"] := by decide +kernel
  exact ⟨by decide +kernel, by rw [r1, r2]; exact List.Perm.swap _ _ _⟩

theorem Ex06.placed_refl (it : T) : PlacedAs (mkBlk it) (mkBlk it) := ⟨rfl, List.Perm.refl _⟩

/-- non-vacuity of `C06_flat_placement_acceptance` / `_families` / `_parse`: the README pair with the dispatch bound of
    the second block inline vs in the where-clause satisfies every hypothesis (the two presentations are different
    inputs with different canonical blocks) -/
theorem C06_flat_placement_readme_pre :
    BucketsPlaced (bucketsOf inlineItems) (bucketsOf whereItems) ∧
    flatBucketsOK_pl (bucketsOf inlineItems) = true ∧ bucketsNodup_pl (bucketsOf whereItems) = true ∧
    noNesting inlineItems = true ∧ flatWF0 inlineItems = true ∧ noConflictingBindingsAll inlineItems = true ∧
    bucketsOf inlineItems ≠ bucketsOf whereItems := by
  refine ⟨?_, ?_, ?_, ?_, ?_, ?_, ?_⟩
  · exact bucketsPlaced_pair_pl _ _ _ _ (by decide +kernel) (by decide +kernel) (by decide +kernel) (by decide +kernel)
      (Ex06.placed_refl _) Ex06.placed_whereB
  all_goals decide +kernel

/-- … and the theorems yield: the where-clause presentation is accepted (because the inline one is), with one family of
    two members whose keys and rows correspond -/
theorem C06_flat_placement_readme :
    ∃ g g', parseGroups inlineItems = .ok g ∧ parseGroups whereItems = .ok g' ∧ Forall2 FamSim_pl g g' := by
  obtain ⟨h1, _, _, h4, h5, h6, _⟩ := C06_flat_placement_readme_pre
  have hms : msPairs ((mkBuckets (inlineItems.map mkBlk)).map (·.1)) = [] := by simpa [noNesting] using h4
  obtain ⟨hv, hf⟩ := C06_flat_placement_parse inlineItems whereItems h1 hms h5 h6
  obtain ⟨g, hg, _⟩ := ParseResult.ok_of_check (r := parseGroups inlineItems) (f := fun _ => true)
    (by decide +kernel)
  rw [hg] at hv
  cases hg' : parseGroups whereItems with
  | ok g' => exact ⟨g, g', hg, rfl, hf g g' hg hg'⟩
  | unableToForm id => rw [hg'] at hv; cases hv
  | panic e => rw [hg'] at hv; cases hv

/-- non-vacuity with two keys per block, the bounds of the first block in both orders: `TraitBoundsVisitor` lists
    `[Dispatch, Other]` for `block2 "GroupA" "X"` and `[Other, Dispatch]` for `movedAX` -/
theorem C06_flat_placement_two_keys_pre :
    BucketsPlaced (bucketsOf twoKeys) (bucketsOf twoKeysMoved) ∧
    flatBucketsOK_pl (bucketsOf twoKeys) = true ∧ bucketsNodup_pl (bucketsOf twoKeysMoved) = true ∧
    noNesting twoKeys = true ∧ flatWF0 twoKeys = true ∧ noConflictingBindingsAll twoKeys = true ∧
    (mkBlk (block2 "GroupA" "X")).raw = [rbD "GroupA", rbO "X"] ∧ (mkBlk movedAX).raw = [rbO "X", rbD "GroupA"] := by
  refine ⟨?_, ?_, ?_, ?_, ?_, ?_, ?_, ?_⟩
  · exact bucketsPlaced_pair_pl _ _ _ _ (by decide +kernel) (by decide +kernel) (by decide +kernel) (by decide +kernel)
      Ex06.placed_movedAX (Ex06.placed_refl _)
  all_goals decide +kernel

theorem C06_flat_placement_two_keys :
    (goFlat (bucketsOf twoKeys) []).verdict = .accepted ∧ (goFlat (bucketsOf twoKeysMoved) []).verdict = .accepted := by
  obtain ⟨h1, h2, h3, _⟩ := C06_flat_placement_two_keys_pre
  have hv := C06_flat_placement_acceptance _ _ h1 h2 h3
  have : (goFlat (bucketsOf twoKeys) []).verdict = .accepted := by decide +kernel
  exact ⟨this, by rw [← hv]; exact this⟩

/-- **the side condition `noConflictingBindings` cannot be dropped** (a genuine order dependence of the macro inside a
    block): with `T: Dispatch<Group = GroupA>` inline and `T: Dispatch<Group = GroupB>` in the where-clause the LAST
    binding wins (`IndexMap::extend`), the first block counts as `Group = GroupB`, collides with the second block and
    the invocation is rejected; with the inline bound moved to the end of the where-clause the first block counts as
    `Group = GroupA` and the invocation is accepted. Every other hypothesis of `C06_flat_placement_acceptance` /
    `C06_flat_placement_parse` holds. -/
theorem C06_flat_placement_counterexample :
    BucketsPlaced (bucketsOf conflictItems) (bucketsOf conflictMoved) ∧
    bucketsNodup_pl (bucketsOf conflictMoved) = true ∧ noNesting conflictItems = true ∧ flatWF0 conflictItems = true ∧
    noConflictingBindingsAll conflictItems = false ∧
    (match parseGroups conflictItems with | .unableToForm _ => true | _ => false) = true ∧
    (parseGroups conflictMoved).verdict = .accepted ∧
    (goFlat (bucketsOf conflictItems) []).verdict ≠ (goFlat (bucketsOf conflictMoved) []).verdict := by
  refine ⟨?_, ?_, ?_, ?_, ?_, ?_, ?_, ?_⟩
  · exact bucketsPlaced_pair_pl _ _ _ _ (by decide +kernel) (by decide +kernel) (by decide +kernel) (by decide +kernel)
      Ex06.placed_conflict (Ex06.placed_refl _)
  all_goals decide +kernel

/-- hence the acceptance statement without `noConflictingBindings` is false -/
theorem C06_flat_placement_unconditional_false :
    ¬ ∀ (items items' : List T), BucketsPlaced (mkBuckets (items.map mkBlk)) (mkBuckets (items'.map mkBlk)) →
        noNesting items = true → flatWF0 items = true → (parseGroups items).verdict = (parseGroups items').verdict := by
  intro hall
  obtain ⟨h1, _, h3, h4, _, h6, h7, _⟩ := C06_flat_placement_counterexample
  have := hall conflictItems conflictMoved h1 h3 h4
  rw [h7] at this
  cases hr : parseGroups conflictItems with
  | ok g => rw [hr] at h6; cases h6
  | unableToForm id => rw [hr] at this; cases this
  | panic e => rw [hr] at this; cases this

/-- non-vacuity of `C06_flat_placement_same_dispatch`, on the README pair inline vs where-clause and the world `E2E.W`
    (`u32: Dispatch<Group = GroupA>`, `i64: Dispatch<Group = GroupB>`): every hypothesis holds for both presentations,
    so both generated programs implement `Kita` for the same queries — the where-clause one does for `Kita for i64` -/
theorem C06_flat_placement_same_dispatch_readme :
    ∃ gs gs', parseGroups inlineItems = .ok gs ∧ parseGroups whereItems = .ok gs' ∧
      (∀ q, (∃ e ∈ gs, ∃ m ∈ (familyOfGroup ["_ŠČ0"] e).members, genSel E2E.W (familyOfGroup ["_ŠČ0"] e) m q) ↔
            (∃ e ∈ gs', ∃ m ∈ (familyOfGroup ["_ŠČ0"] e).members, genSel E2E.W (familyOfGroup ["_ŠČ0"] e) m q)) ∧
      (∃ e ∈ gs', ∃ m ∈ (familyOfGroup ["_ŠČ0"] e).members,
        genSel E2E.W (familyOfGroup ["_ŠČ0"] e) m (E2E.query E2E.i64T)) := by
  have hnames : typeParamNames (genericsOf_pl (canon (blockFor "GroupB"))) = typeParamNames (genericsOf_pl (canon whereB)) := by
    decide +kernel
  have hpl : Forall2 PlacedItem inlineItems whereItems :=
    .cons ⟨Ex06.placed_refl _, fun _ => Iff.rfl⟩ (.cons ⟨Ex06.placed_whereB, fun x => by rw [hnames]⟩ .nil)
  have side : ∀ items : List T, (match parseGroups items with
      | .ok gs => gs.all (fun e => flatGroupOK e && hdrCoversB (familyOfGroup ["_ŠČ0"] e) &&
          (familyOfGroup ["_ŠČ0"] e).keys.all (fun k => k.a == "Group"))
      | _ => false) = true →
      ∃ gs, parseGroups items = .ok gs ∧
        (∀ e ∈ gs, flatGroupOK e = true ∧ hdrCoversB (familyOfGroup ["_ŠČ0"] e) = true) ∧
        (∀ e ∈ gs, WorldTotal E2E.W (familyOfGroup ["_ŠČ0"] e)) ∧
        (∀ e ∈ gs, ∀ m ∈ (familyOfGroup ["_ŠČ0"] e).members, SizedCompat E2E.W (familyOfGroup ["_ŠČ0"] e) m) := by
    intro items hchk0
    obtain ⟨gs, hgs, hchk⟩ := ParseResult.ok_of_check (r := parseGroups items)
      (f := fun gs => gs.all (fun e => flatGroupOK e && hdrCoversB (familyOfGroup ["_ŠČ0"] e) &&
        (familyOfGroup ["_ŠČ0"] e).keys.all (fun k => k.a == "Group"))) hchk0
    simp only [List.all_eq_true, Bool.and_eq_true, beq_iff_eq] at hchk
    refine ⟨gs, hgs, fun e he => (hchk e he).1, ?_, fun _ _ _ _ _ _ _ _ _ => rfl⟩
    intro e he k hk tr ty bs hd
    rw [(hchk e he).2 k hk]
    simp only [E2E.W] at hd
    split at hd
    · cases hd; exact ⟨_, rfl⟩
    · split at hd
      · cases hd; exact ⟨_, rfl⟩
      · cases hd
  obtain ⟨gs, hgs, hok, hw, hsz⟩ := side inlineItems (by decide +kernel)
  obtain ⟨gs', hgs', hok', hw', hsz'⟩ := side whereItems (by decide +kernel)
  have hn : noNesting inlineItems = true := by decide +kernel
  have hn' : noNesting whereItems = true := by decide +kernel
  have hsame := C06_flat_placement_same_dispatch inlineItems whereItems gs gs' hpl hgs hgs' hn hn' ["_ŠČ0"] ["_ŠČ0"]
    hok hok' E2E.W hw hw' hsz hsz'
  refine ⟨gs, gs', hgs, hgs', hsame, (hsame _).1 ?_⟩
  have hcov := C02_end_to_end_flat_coverage inlineItems gs hgs hn ["_ŠČ0"] hok E2E.W hw hsz
  exact (hcov _).2 ⟨Ex11.blockFor "GroupB", by simp [inlineItems],
    applies_of_B (ρ := [("_ŠČ0", .ty E2E.i64T)]) (by decide +kernel)⟩
/-- non-vacuity of `C06_move_bound_to_where`: `impl<T: Dispatch<Group = GroupB>> Kita for T {}` against
    `impl<T> Kita for T where T: Dispatch<Group = GroupB> {}` (`bs1 = []`, `bs2` = the dispatch bound; `_ŠČ0` is the
    canonical spelling of `T`) -/
theorem C06_move_bound_to_where_example : PlacedAs (mkBlk (blockFor "GroupB")) (mkBlk whereB) :=
  C06_move_bound_to_where (blockFor "GroupB") whereB [] [] attrs (leaf "None") (leaf "None") (leaf "None") (leaf "None")
    "_ŠČ0" [] [traitBound (dispatch "GroupB")] (by decide +kernel) (by decide +kernel) (by decide +kernel)
    (by decide +kernel)

/-- non-vacuity of `C06_flat_placement_items`: the README pair inline vs where-clause, block by block -/
theorem C06_flat_placement_items_readme :
    Forall2 PlacedAs (inlineItems.map mkBlk) (whereItems.map mkBlk) ∧
    ((inlineItems.map mkBlk).map (·.item)).Nodup ∧ ((whereItems.map mkBlk).map (·.item)).Nodup ∧
    noNesting inlineItems = true ∧ flatWF0 inlineItems = true ∧ noConflictingBindingsAll inlineItems = true := by
  refine ⟨.cons (Ex06.placed_refl _) (.cons Ex06.placed_whereB .nil), ?_, ?_, ?_, ?_, ?_⟩
  all_goals decide +kernel

/-- non-vacuity of `C06_flat_placement_checked`: the one-shot check holds on the README pair inline vs where-clause -/
theorem C06_flat_placement_checked_readme : placementPreB inlineItems whereItems = true := by
  obtain ⟨h1, h2, h3, h4, h5, h6⟩ := C06_flat_placement_items_readme
  simp only [placementPreB, Bool.and_eq_true, decide_eq_true_eq, List.isEmpty_iff]
  exact ⟨⟨⟨⟨⟨(forall2B_iff_pl (fun a b => placedAsB_iff (b := a) (b' := b)) _ _).2 h1, h2⟩, h3⟩,
    by simpa [noNesting] using h4⟩, h5⟩, h6⟩

/-- non-vacuity of `C06_noConflictingBindings_necessary`: the block `conflictAB` -/
example : wfBlk (mkBlk conflictAB) = true ∧ noConflictingBindings (mkBlk conflictAB) = false := by
  constructor <;> decide +kernel

end C06PlacementExamples

/-! ## Same bucket ⟺ headers equal up to renaming (proofs: `Lemmas/CanonHeaderConverse.lean`, C13)

`mkBuckets` puts two canonical blocks into one bucket exactly when their group ids (`groupIdOf` = trait path and self type
of the canonical block) are equal. The two directions hold under different executable conditions:
* IF (`C06_renamed_permuted_same_header`): a block and its consistently renamed and re-ordered presentation have the same
  group id — `canonWF item`, `alphaOK π item` (or `alphaOKh` + `hdrVis`, `…_same_header_any`);
* ONLY IF (`C13_same_header_only_if_renaming`): two blocks with the same group id have headers that are textual renamings
  of each other by the computed renaming `hdrRenamingBetween_hc item item'` — `hdrConverseOK_hc` for both blocks (it
  contains `canonWF`; the clause `strayFree_hc` is needed, `C13_same_header_stray_counterexamples`: a user type spelled
  `_ŠČ1` lands in the bucket of a type parameter). -/

/-- **two blocks land in the same bucket ONLY IF their headers are equal up to renaming** (`groupIdOf item` is the header —
    trait path and self type — of the raw block, `groupIdOf (mkBlk item).item` the group id by which `mkBuckets` groups) -/
theorem C06_same_bucket_only_if_headers_alpha_equivalent (item item' : T) (h : hdrConverseOK_hc item = true)
    (h' : hdrConverseOK_hc item' = true) (e : groupIdOf (mkBlk item).item = groupIdOf (mkBlk item').item) :
    acT_cr (hdrRenamingBetween_hc item item') (groupIdOf item) = groupIdOf item' :=
  C13_same_header_only_if_renaming item item' h h' e

/-- **same bucket iff headers alpha-equivalent**, both directions with the executable conditions under which each holds:
    for blocks `item`, `item'` satisfying `hdrConverseOK_hc`,
    (1) ONLY IF: if they have the same group id, the header of `item'` is the header of `item` renamed by the computed
        renaming of the two headers;
    (2) IF: if `item'` is `item` consistently renamed by some `π` with `alphaOK π item` (only declared parameters
        respelled, new spellings distinct per name space, unused parameters keep their spelling, no capture) and with its
        declarations permuted, they have the same group id — and then, by (1), the computed header renaming maps the one
        header to the other (it is `π` restricted to the parameters of the header).
    The IF direction for an arbitrary `item'` whose HEADER alone is a renaming of the header of `item` is not stated: the
    group id of `item'` is computed from the header's own numbering (`C13_header_resolved_locally`), but the existing
    alpha-invariance theorems are about renamings of whole blocks. -/
theorem C06_same_bucket_iff_headers_alpha_equivalent (item item' : T) (h : hdrConverseOK_hc item = true)
    (h' : hdrConverseOK_hc item' = true) :
    (groupIdOf (mkBlk item).item = groupIdOf (mkBlk item').item →
      acT_cr (hdrRenamingBetween_hc item item') (groupIdOf item) = groupIdOf item') ∧
    (∀ (π : Renaming) (ps' : List T), alphaOK π item = true → ps'.Perm (implParams (alphaRename π item)) →
      item' = setParams ps' (alphaRename π item) →
      groupIdOf (mkBlk item).item = groupIdOf (mkBlk item').item ∧
      acT_cr (hdrRenamingBetween_hc item item') (groupIdOf item) = groupIdOf item') := by
  refine ⟨C06_same_bucket_only_if_headers_alpha_equivalent item item' h h', ?_⟩
  intro π ps' hal hp e
  have hb : groupIdOf (mkBlk item).item = groupIdOf (mkBlk item').item := by
    rw [e]
    exact (C06_renamed_permuted_same_header π item ps' (hdrConverseOK_parts_hc h).1 hal hp).symm
  exact ⟨hb, C06_same_bucket_only_if_headers_alpha_equivalent item item' h h' hb⟩

/-- … as an equivalence, for a block and its renamed and re-ordered presentation: they are in one bucket, and (equivalently)
    the computed header renaming maps the one header to the other -/
theorem C06_renamed_permuted_bucket_iff (π : Renaming) (item : T) (ps' : List T) (hal : alphaOK π item = true)
    (hp : ps'.Perm (implParams (alphaRename π item))) (h : hdrConverseOK_hc item = true)
    (h' : hdrConverseOK_hc (setParams ps' (alphaRename π item)) = true) :
    groupIdOf (mkBlk item).item = groupIdOf (mkBlk (setParams ps' (alphaRename π item))).item ↔
      acT_cr (hdrRenamingBetween_hc item (setParams ps' (alphaRename π item))) (groupIdOf item) =
        groupIdOf (setParams ps' (alphaRename π item)) := by
  have := (C06_same_bucket_iff_headers_alpha_equivalent item _ h h').2 π ps' hal hp rfl
  exact ⟨fun _ => this.2, fun _ => this.1⟩

section C06HeaderConverseExamples
open Ex13
set_option maxRecDepth 100000

/-- non-vacuity of `C06_same_bucket_iff_headers_alpha_equivalent` / `C06_renamed_permuted_bucket_iff`:
    `impl<U, T: Tr<U>> Kita for (T, T::Target)` against `impl<A: Tr<B>, B> Kita for (A, A::Target)` (renamed `T ↦ A, U ↦ B`,
    declarations swapped): every hypothesis of both directions holds, the two blocks are in one bucket, the computed
    header renaming is `T ↦ A` (not the identity) and maps the one header to the other; and a pair in DIFFERENT buckets whose
    headers are not renamings of each other (`(T, T::Target)` against `(T, U)`) -/
theorem C06_same_bucket_iff_example :
    hdrConverseOK_hc named = true ∧ hdrConverseOK_hc (setParams namedABSwParams (alphaRename piNamed named)) = true ∧
    alphaOK piNamed named = true ∧
    groupIdOf (mkBlk named).item = groupIdOf (mkBlk (setParams namedABSwParams (alphaRename piNamed named))).item ∧
    hdrRenamingBetween_hc named (setParams namedABSwParams (alphaRename piNamed named)) = ⟨[], [("T", "A")], []⟩ ∧
    acT_cr (hdrRenamingBetween_hc named (setParams namedABSwParams (alphaRename piNamed named))) (groupIdOf named) =
      groupIdOf (setParams namedABSwParams (alphaRename piNamed named)) ∧
    (mkBuckets [mkBlk named, mkBlk (setParams namedABSwParams (alphaRename piNamed named))]).length = 1 ∧
    (hdrConverseOK_hc hcTwo = true ∧ groupIdOf (mkBlk named).item ≠ groupIdOf (mkBlk hcTwo).item ∧
      acT_cr (hdrRenamingBetween_hc named hcTwo) (groupIdOf named) ≠ groupIdOf hcTwo ∧
      (mkBuckets [mkBlk named, mkBlk hcTwo]).length = 2) := by
  refine ⟨?_, ?_, ?_, ?_, ?_, ?_, ?_, ?_, ?_, ?_, ?_⟩
  all_goals first | with_unfolding_all decide | decide +kernel

/-- the ONLY-IF direction needs `strayFree_hc`: `impl<T> Kita for (T, _ŠČ1)` and `impl<T, U> Kita for (T, U)` fall into ONE
    bucket although their headers are not renamings of each other (`C13_same_header_stray_counterexamples`) -/
theorem C06_same_bucket_stray_counterexample :
    canonWF hcStray = true ∧ strayFree_hc hcStray = false ∧ hdrConverseOK_hc hcTwo = true ∧
    (mkBuckets [mkBlk hcStray, mkBlk hcTwo]).length = 1 ∧
    acT_cr (hdrRenamingBetween_hc hcStray hcTwo) (groupIdOf hcStray) ≠ groupIdOf hcTwo := by
  refine ⟨?_, ?_, ?_, ?_, ?_⟩
  all_goals first | with_unfolding_all decide | decide +kernel
end C06HeaderConverseExamples

end DI
