/-
  C06 — independence from parameter names, declaration order and bound placement. Property theorems only.
  At the semantic level a block is (header, set of clauses, Sized requirements): declaration order and inline /
  where-clause placement are not even representable, and the order of the clauses does not matter (`applies` quantifies
  over membership). What remains is renaming: see `C06_clause_order_irrelevant` and `C06_same_blocks_same_dispatch`;
  the canonicalisation that makes renamed blocks syntactically equal is C13's subject and is compared with the real
  `resolve_non_predicate_params` on every generated variant.
-/
import DisjointImpls.Props.C05
namespace DI

/-- the order in which a block's bounds are written (hence inline vs where-clause placement, which only moves a
    bound inside the list that `TraitBoundsVisitor` collects) is irrelevant to whether the block applies -/
theorem C06_clause_order_irrelevant (W : World) (b : Block) (cs : List Clause) (h : b.clauses.Perm cs) (q : T) :
    applies W b q ↔ applies W { b with clauses := cs } q := by
  constructor
  · rintro ⟨ρ, h0, h1, h2, h3⟩
    exact ⟨ρ, wkB_of_sub (b := b) (b' := { b with clauses := cs }) rfl (fun c hc => h.mem_iff.mpr hc) (fun _ hp => hp) h0, h1, fun c hc => h2 c (h.mem_iff.mpr hc), h3⟩
  · rintro ⟨ρ, h0, h1, h2, h3⟩
    exact ⟨ρ, wkB_of_sub (b := { b with clauses := cs }) (b' := b) rfl (fun c hc => h.mem_iff.mp hc) (fun _ hp => hp) h0, h1, fun c hc => h2 c (h.mem_iff.mp hc), h3⟩

/-- likewise for the order of the parameters that must be `Sized` (declaration order of `impl<..>`) -/
theorem C06_decl_order_irrelevant (W : World) (b : Block) (ps : List String) (h : b.sizedParams.Perm ps) (q : T) :
    applies W b q ↔ applies W { b with sizedParams := ps } q := by
  constructor
  · rintro ⟨ρ, h0, h1, h2, h3⟩
    exact ⟨ρ, wkB_of_sub (b := b) (b' := { b with sizedParams := ps }) rfl (fun _ hc => hc) (fun p hp => h.mem_iff.mpr hp) h0, h1, h2, fun p hp => h3 p (h.mem_iff.mpr hp)⟩
  · rintro ⟨ρ, h0, h1, h2, h3⟩
    exact ⟨ρ, wkB_of_sub (b := { b with sizedParams := ps }) (b' := b) rfl (fun _ hc => hc) (fun p hp => h.mem_iff.mp hp) h0, h1, h2, fun p hp => h3 p (h.mem_iff.mp hp)⟩

/-- two presentations of an invocation whose (canonicalised) blocks are the same up to order are implemented for
    exactly the same queries, whatever well-formed groupings the macro forms for them -/
theorem C06_same_blocks_same_dispatch (W : World) (G G' : List Family) (hG : GroupingWF W G) (hG' : GroupingWF W G')
    (h : (blocksOf G).Perm (blocksOf G')) (q : T) : implemented W G q ↔ implemented W G' q :=
  C05_dispatch_invariant W G G' hG hG' h q

end DI
