/-
  C06 — independence from parameter names, declaration order and bound placement. Property theorems only.
  At the semantic level a block is (header, set of clauses, Sized requirements): declaration order and inline /
  where-clause placement are not even representable, and the order of the clauses does not matter (`applies` quantifies
  over membership). What remains is renaming: see `C06_clause_order_irrelevant` and `C06_same_blocks_same_dispatch`;
  the canonicalisation that makes renamed blocks syntactically equal is C13's subject and is compared with the real
  `resolve_non_predicate_params` on every generated variant.
  On the syntactic level (last section): blocks that differ by a consistent renaming of the generic parameters and a
  permutation of their declarations have the same canonical header and fall into one bucket of `mkBuckets`
  (`C06_renamed_permuted_same_header`, `C06_renamed_permuted_one_bucket`; proofs: C13's alpha-invariance and
  declaration-order theorems).
-/
import DisjointImpls.Props.C05
import DisjointImpls.Props.C13
namespace DI

/-- the order in which a block's bounds are written (hence inline vs where-clause placement, which only moves a
    bound inside the list that `TraitBoundsVisitor` collects) is irrelevant to whether the block applies -/
theorem C06_clause_order_irrelevant (W : World) (b : Block) (cs : List Clause) (h : b.clauses.Perm cs) (q : T) :
    applies W b q ↔ applies W { b with clauses := cs } q := by
  constructor
  · rintro ⟨ρ, h0, h1, h2, h3⟩
    exact ⟨ρ, wkB_of_sub (b := b) (b' := { b with clauses := cs }) rfl (fun c hc => h.mem_iff.mpr hc) (fun _ hp => hp) h0, h1, fun c hc => h2 c (h.mem_iff.mpr hc), h3⟩
  · rintro ⟨ρ, h0, h1, h2, h3⟩
    exact ⟨ρ, wkB_of_sub (b := { b with clauses := cs }) (b' := b) rfl (fun c hc => h.mem_iff.mp hc) (fun _ hp => hp) h0, h1, fun c hc => h2 c (h.mem_iff.mp hc), h3⟩

/-- likewise for the order of the parameters that must be `Sized` (declaration order of `impl<..>`) -/
theorem C06_decl_order_irrelevant (W : World) (b : Block) (ps : List String) (h : b.sizedParams.Perm ps) (q : T) :
    applies W b q ↔ applies W { b with sizedParams := ps } q := by
  constructor
  · rintro ⟨ρ, h0, h1, h2, h3⟩
    exact ⟨ρ, wkB_of_sub (b := b) (b' := { b with sizedParams := ps }) rfl (fun _ hc => hc) (fun p hp => h.mem_iff.mpr hp) h0, h1, h2, fun p hp => h3 p (h.mem_iff.mpr hp)⟩
  · rintro ⟨ρ, h0, h1, h2, h3⟩
    exact ⟨ρ, wkB_of_sub (b := { b with sizedParams := ps }) (b' := b) rfl (fun _ hc => hc) (fun p hp => h.mem_iff.mp hp) h0, h1, h2, fun p hp => h3 p (h.mem_iff.mp hp)⟩

/-- two presentations of an invocation whose (canonicalised) blocks are the same up to order are implemented for
    exactly the same queries, whatever well-formed groupings the macro forms for them -/
theorem C06_same_blocks_same_dispatch (W : World) (G G' : List Family) (hG : GroupingWF W G) (hG' : GroupingWF W G')
    (h : (blocksOf G).Perm (blocksOf G')) (q : T) : implemented W G q ↔ implemented W G' q :=
  C05_dispatch_invariant W G G' hG hG' h q

/-! ## Renaming and declaration order on the syntactic level (proofs: C13, `Lemmas/CanonAlpha.lean`,
`Lemmas/CanonDeclOrder.lean`)

`alphaRename π item`: the generic parameters of the block consistently respelled by `π`; `setParams ps' item`: the block
with its list of declared generic parameters replaced by `ps'`; `mkBlk` (Group.lean) canonicalises a raw block, `groupIdOf`
is the header (trait path, self type) by which `mkBuckets` groups the blocks.
Side conditions (executable): `canonWF item` (the well-formedness condition of C13) and `alphaOK π item` (only declared
parameters are respelled, the new spellings are distinct per name space, parameters that occur nowhere keep their
spelling, no capture) — see `Props/C13.lean`, "Alpha-invariance", for the reason each one is there. -/

/-- **blocks that are equal up to a consistent renaming of the generic parameters and a permutation of their
    declarations have the same canonical header** -/
theorem C06_renamed_permuted_same_header (π : Renaming) (item : T) (ps' : List T) (hwf : canonWF item = true)
    (hal : alphaOK π item = true) (hp : ps'.Perm (implParams (alphaRename π item))) :
    groupIdOf (mkBlk (setParams ps' (alphaRename π item))).item = groupIdOf (mkBlk item).item := by
  have hdecl : implDeclsOK item = true := by
    simp only [canonWF, Bool.and_eq_true] at hwf
    exact hwf.1.1.1
  obtain ⟨h1, h2⟩ := C13_alpha_decls π item hdecl hal
  show groupIdOf (canon (setParams ps' (alphaRename π item))) = groupIdOf (canon item)
  rw [(C13_declOrder_header (alphaRename π item) ps' h1 h2 hp).1, (C13_alpha_header π item hwf hal).1]

/-- … also when parameters that occur nowhere are respelled (`alphaOKh`: `alphaOK` without `deadFixed`), provided the
    indexer visits the whole trait path and self type (`hdrVis`, executable: no nested `Generics` node) -/
theorem C06_renamed_permuted_same_header_any (π : Renaming) (item : T) (ps' : List T) (hwf : canonWF item = true)
    (hal : alphaOKh π item = true) (hv : hdrVis item = true) (hp : ps'.Perm (implParams (alphaRename π item))) :
    groupIdOf (mkBlk (setParams ps' (alphaRename π item))).item = groupIdOf (mkBlk item).item := by
  have hdecl : implDeclsOK item = true := by
    simp only [canonWF, Bool.and_eq_true] at hwf
    exact hwf.1.1.1
  obtain ⟨h1, h2⟩ := alpha_decls_h π item hdecl hal
  show groupIdOf (canon (setParams ps' (alphaRename π item))) = groupIdOf (canon item)
  rw [(C13_declOrder_header (alphaRename π item) ps' h1 h2 hp).1, C13_alpha_header_any π item hwf hal hv]

/-- … renaming alone: the canonical blocks are even identical (same header, same bounds) -/
theorem C06_renamed_same_block (π : Renaming) (item : T) (hwf : canonWF item = true) (hal : alphaOK π item = true) :
    mkBlk (alphaRename π item) = mkBlk item := by
  unfold mkBlk
  rw [C13_alpha_invariance π item hwf hal]

/-- … declaration order alone -/
theorem C06_permuted_same_header (item : T) (ps' : List T) (hdecl : implDeclsOK item = true)
    (hd : namesDistinct (canonCtx item) = true) (hp : ps'.Perm (implParams item)) :
    groupIdOf (mkBlk (setParams ps' item)).item = groupIdOf (mkBlk item).item :=
  (C13_declOrder_header item ps' hdecl hd hp).1

/-- two blocks with the same header fall into one bucket of `mkBuckets` -/
theorem C06_same_header_one_bucket (b1 b2 : Blk) (h : groupIdOf b2.item = groupIdOf b1.item) :
    (mkBuckets [b1, b2]).map Prod.fst = [groupIdOf b1.item] := by
  simp [mkBuckets, h]

/-- hence a block and its renamed and re-ordered presentation are grouped together -/
theorem C06_renamed_permuted_one_bucket (π : Renaming) (item : T) (ps' : List T) (hwf : canonWF item = true)
    (hal : alphaOK π item = true) (hp : ps'.Perm (implParams (alphaRename π item))) :
    (mkBuckets [mkBlk item, mkBlk (setParams ps' (alphaRename π item))]).map Prod.fst = [groupIdOf (mkBlk item).item] :=
  C06_same_header_one_bucket _ _ (C06_renamed_permuted_same_header π item ps' hwf hal hp)

section C06Examples
open Ex13
set_option maxRecDepth 100000

/-- `impl<A: Tr<B>, B> Kita for (A, A::Target) {}`: `named` respelled (`T ↦ A, U ↦ B`) and with its declarations swapped -/
def Ex13.namedABSwParams : List T := [tyParam "A" [traitBound (trWith "Tr" (tyPath [seg "B"]))], tyParam "B" []]

/-- non-vacuity: `impl<U, T: Tr<U>> Kita for (T, T::Target)` against `impl<A: Tr<B>, B> Kita for (A, A::Target)` -/
theorem C06_renamed_permuted_example :
    canonWF named = true ∧ alphaOK piNamed named = true ∧ namedABSwParams.Perm (implParams (alphaRename piNamed named)) ∧
    setParams namedABSwParams (alphaRename piNamed named) =
      implOf [tyParam "A" [traitBound (trWith "Tr" (tyPath [seg "B"]))], tyParam "B" []]
        (tuple [tyPath [seg "A"], tyPath [seg "A", seg "Target"]]) ∧
    (mkBuckets [mkBlk named, mkBlk (setParams namedABSwParams (alphaRename piNamed named))]).length = 1 := by
  refine ⟨?_, ?_, ?_, ?_, ?_⟩
  · with_unfolding_all decide
  · with_unfolding_all decide
  · have e : implParams (alphaRename piNamed named) =
        [tyParam "B" [], tyParam "A" [traitBound (trWith "Tr" (tyPath [seg "B"]))]] := by with_unfolding_all decide
    rw [e]
    exact List.Perm.swap _ _ _
  · with_unfolding_all decide
  · with_unfolding_all decide

/-- non-vacuity of `C06_renamed_permuted_same_header_any`: `impl<T, D> Kita for T` against `impl<E, T> Kita for T` -/
theorem C06_renamed_permuted_any_example :
    canonWF alphaDead = true ∧ alphaOKh piDead alphaDead = true ∧ hdrVis alphaDead = true ∧
    [tyParam "E" [], tyParam "T" []].Perm (implParams (alphaRename piDead alphaDead)) ∧
    (mkBuckets [mkBlk alphaDead, mkBlk (setParams [tyParam "E" [], tyParam "T" []] (alphaRename piDead alphaDead))]).length = 1 := by
  refine ⟨?_, ?_, ?_, ?_, ?_⟩
  · with_unfolding_all decide
  · with_unfolding_all decide
  · with_unfolding_all decide
  · have e : implParams (alphaRename piDead alphaDead) = [tyParam "T" [], tyParam "E" []] := by with_unfolding_all decide
    rw [e]
    exact List.Perm.swap _ _ _
  · with_unfolding_all decide
end C06Examples

end DI
