/-
  C09 — header generalisation is exact first-order matching: property theorems over `sup` (Match.lean).
  All proofs are in `Lemmas/MatchSound.lean`; this file only states the properties.

  Status of the four statements as originally posed (for *all* trees `a b : T`):

  * `C09_functional`  — holds as posed.
  * `C09_identity`    — the `tparam` half holds as posed (`C09_identity_ty`); the `eparam` half is false
                        (`C09_identity_counterexample`) and holds when `b` has no const generic argument that
                        is a lone parameter (`noConstParam b`, `C09_identity_wf`).
  * `C09_binds_all`   — false as posed (`C09_binds_all_counterexample_*`); holds for well-formed `a`
                        (`wf a`, `C09_binds_all_wf`).
  * `C09_sound`       — false as posed (`C09_sound_counterexample_*`); holds for well-formed `a`, `b` whose
                        `Ign` children face each other (`wf a`, `wf b`, `ignFaces a (stripTop b)`,
                        `C09_sound_wf`).

  `wf`, `ignFaces`, `noConstParam` are executable (`Bool`) predicates defined in `Lemmas/MatchSound.lean`;
  every clause of `wf` has a counterexample below showing that it cannot be dropped.

  Completeness (`Lemmas/MatchComplete.lean`): `C09_complete_partial` — on the fragment `frag θ a` (no panicking
  kind, non-empty wrappers, well-shaped `Lifetime`/`OptWild`/`QSelf`/`Expr::Binary`, θ moving no parameter
  beneath a `QSelf`), for a θ that induces one value per parameter name (`coherent θ a`) and a
  presentation-free target (`plain b`), `erase (inst θ a) = erase b` implies that the matcher answers `yes`,
  with a substitution made of the values θ induces (`occVals θ a`). `C09_complete_normalised` is the same for
  an arbitrary `b` after normalising it with `erase`. Each hypothesis has a counterexample below.
-/
import DisjointImpls.Lemmas.MatchSound
import DisjointImpls.Lemmas.MatchComplete
import DisjointImpls.MatchSchema
import DisjointImpls.Lemmas.MatchTrans
namespace DI

/-! ## Theorems -/

/-- the reported substitution is a function: no key occurs twice -/
theorem C09_functional (a b : T) (σ : Subst) (l : Bool) :
    sup a b = .yes σ l → (σ.map Prod.fst).Nodup :=
  fun h => (supS_light a (stripTop b) σ l h).1

/-- a type parameter matched against itself is reported as unchanged, never as a binding to itself -/
theorem C09_identity_ty (a b : T) (σ : Subst) (l : Bool) (n : String) :
    sup a b = .yes σ l → lookup σ n ≠ some (.ty (.tparam n)) := by
  intro h hl
  exact ((supS_light a (stripTop b) σ l h).2 (n, .ty (.tparam n)) (lookup_mem σ n _ hl)).1 rfl

/-- a parameter matched against itself is reported as unchanged, never as a binding to itself
    (`b` without a const generic argument that is a lone parameter) -/
theorem C09_identity_wf (a b : T) (σ : Subst) (l : Bool) (n : String) (hb : noConstParam b = true) :
    sup a b = .yes σ l →
      lookup σ n ≠ some (.ty (.tparam n)) ∧ lookup σ n ≠ some (.ex (.eparam n)) := by
  intro h
  refine ⟨C09_identity_ty a b σ l n h, fun hl => ?_⟩
  exact ((supS_light a (stripTop b) σ l h).2 (n, .ex (.eparam n)) (lookup_mem σ n _ hl)).2
    (noConstParam_stripTop b hb) rfl

/-- every parameter of a well-formed `a` (that the matcher can see) is bound -/
theorem C09_binds_all_wf (a b : T) (σ : Subst) (ha : wf a = true) :
    sup a b = .yes σ false → ∀ n ∈ params a, (lookup σ n).isSome = true :=
  fun h => (supS_good a (stripTop b) σ ha h).1

/-- soundness: when no lenient arm fired, the reported substitution turns `a` into `b` (modulo presentation),
    for well-formed trees whose ignored children face each other -/
theorem C09_sound_wf (a b : T) (σ : Subst) (ha : wf a = true) (hb : wf b = true)
    (hf : ignFaces a (stripTop b) = true) :
    sup a b = .yes σ false → erase (inst σ a) = erase b := by
  intro h
  rw [(supS_good a (stripTop b) σ ha h).2 (wf_stripTop b hb) hf, erase_stripTop]

/-! ## Completeness

The full statement
`∀ a b θ, <side conditions> → erase (inst θ a) = erase b → ∃ σ l, sup a b = .yes σ l`
is proved for the side conditions `frag θ a`, `coherent θ a`, `plain b` (all executable). -/

/-- completeness on the fragment: whenever a coherent θ with `erase (inst θ a) = erase b` exists, the matcher
    answers yes, and every entry it reports is a value induced by θ at some parameter occurrence of `a` -/
theorem C09_complete_partial (a b : T) (θ : Subst) (hf : frag θ a = true) (hc : coherent θ a = true)
    (hb : plain b = true) :
    erase (inst θ a) = erase b → ∃ σ l, sup a b = .yes σ l ∧ ∀ p ∈ σ, p ∈ occVals θ a := by
  intro he
  rw [plain_erase b hb] at he
  unfold sup
  rw [plain_stripTop hb]
  exact supS_complete θ a hf (· ∈ occVals θ a) (functional_of_functionalB hc) (fun _ h => h) b hb he

/-- the same for an arbitrary target, normalised with `erase` first -/
theorem C09_complete_normalised (a b : T) (θ : Subst) (hf : frag θ a = true) (hc : coherent θ a = true) :
    erase (inst θ a) = erase b → ∃ σ l, sup a (erase b) = .yes σ l ∧ ∀ p ∈ σ, p ∈ occVals θ a := by
  intro he
  exact C09_complete_partial a (erase b) θ hf hc (plain_erase_self b) (by rw [erase_erase]; exact he)

/-- with soundness: on the fragment, for well-formed `a` and a presentation-free `b`, an exact answer is
    a matcher for `b`, and one exists whenever any substitution does -/
theorem C09_complete_exact (a b : T) (θ : Subst) (hf : frag θ a = true) (hc : coherent θ a = true)
    (hb : plain b = true) (he : erase (inst θ a) = erase b) :
    ∃ σ l, sup a b = .yes σ l ∧ (σ.map Prod.fst).Nodup :=
  let ⟨σ, l, h, _⟩ := C09_complete_partial a b θ hf hc hb he
  ⟨σ, l, h, C09_functional a b σ l h⟩

/-! ## Counterexamples to the unconditional statements

Each is a closed instance evaluated by the kernel (`decide`). -/

section Counterexamples
set_option maxRecDepth 8000

private def leaf (s : String) : T := .node s [] []

/-- `C09_identity` (eparam half): a type parameter in generic-argument position facing the const argument
    `_ŠČ0` is reported as the binding `_ŠČ0 ↦ ex _ŠČ0`. -/
theorem C09_identity_counterexample :
    sup (.node "GenericArgument::Type" [] [.tparam "_ŠČ0"]) (.node "GenericArgument::Const" [] [.eparam "_ŠČ0"])
        = .yes [("_ŠČ0", .ex (.eparam "_ŠČ0"))] false ∧
    lookup [("_ŠČ0", Val.ex (.eparam "_ŠČ0"))] "_ŠČ0" = some (.ex (.eparam "_ŠČ0")) := by decide

theorem C09_identity_unconditional_false :
    ¬ ∀ (a b : T) (σ : Subst) (l : Bool) (n : String), sup a b = .yes σ l →
      lookup σ n ≠ some (.ty (.tparam n)) ∧ lookup σ n ≠ some (.ex (.eparam n)) := fun h =>
  (h _ _ _ _ "_ŠČ0" C09_identity_counterexample.1).2 C09_identity_counterexample.2

/-- `C09_binds_all`, wrapper clause of `wf`: only the last child of a transparent wrapper is matched, `params`
    counts all of them. -/
theorem C09_binds_all_counterexample_wrapper :
    sup (.node "Type::Paren" [] [.tparam "y", .tparam "x"]) (leaf "Foo") = .yes [("x", .ty (leaf "Foo"))] false ∧
    "y" ∈ params (.node "Type::Paren" [] [.tparam "y", .tparam "x"]) ∧
    (lookup [("x", Val.ty (leaf "Foo"))] "y").isSome = false := by decide

/-- `C09_binds_all`, `QSelf` clause of `wf`: children after the type are compared by equality, not matched. -/
theorem C09_binds_all_counterexample_qself :
    sup (.node "QSelf" [] [.tparam "x", .tparam "y"]) (.node "QSelf" [] [.tparam "x", .tparam "y"])
      = .yes [("x", .identity)] false ∧
    "y" ∈ params (.node "QSelf" [] [.tparam "x", .tparam "y"]) ∧
    (lookup [("x", Val.identity)] "y").isSome = false := by decide

/-- `C09_binds_all`, `Expr::Binary` clause of `wf`: the operator is compared by equality, not matched. -/
theorem C09_binds_all_counterexample_binary :
    sup (.node "Expr::Binary" [] [.eparam "o", leaf "L", leaf "R", leaf "A"])
        (.node "Expr::Binary" [] [.eparam "o", leaf "L", leaf "R", leaf "A"]) = .yes [] false ∧
    "o" ∈ params (.node "Expr::Binary" [] [.eparam "o", leaf "L", leaf "R", leaf "A"]) := by decide

theorem C09_binds_all_unconditional_false :
    ¬ ∀ (a b : T) (σ : Subst), sup a b = .yes σ false → ∀ n ∈ params a, (lookup σ n).isSome = true :=
  fun h => by
    have := h _ _ _ C09_binds_all_counterexample_wrapper.1 "y" C09_binds_all_counterexample_wrapper.2.1
    rw [C09_binds_all_counterexample_wrapper.2.2] at this
    cases this

/-- `C09_sound`, hypothesis `ignFaces`: an `Ign` child on the left matches anything. -/
theorem C09_sound_counterexample_ign :
    sup (leaf "Ign") (.tparam "x") = .yes [] false ∧
    erase (inst [] (leaf "Ign")) ≠ erase (.tparam "x") := by decide

/-- `C09_sound`, `IgnL` clause of `wf`: a parameter beneath an `IgnL` child is compared, not instantiated. -/
theorem C09_sound_counterexample_ignL :
    sup (.node "X" [] [.tparam "x", .node "IgnL" [] [.tparam "x"]])
        (.node "X" [] [leaf "Foo", .node "IgnL" [] [.tparam "x"]]) = .yes [("x", .ty (leaf "Foo"))] false ∧
    erase (inst [("x", .ty (leaf "Foo"))] (.node "X" [] [.tparam "x", .node "IgnL" [] [.tparam "x"]]))
      ≠ erase (.node "X" [] [leaf "Foo", .node "IgnL" [] [.tparam "x"]]) := by decide

/-- `C09_sound`, atom clause of `wf`: the `Pat::Wild` arm (likewise `QSelf`, `Expr::Binary`, `OptWild`) does
    not compare atoms. -/
theorem C09_sound_counterexample_atoms :
    sup (.node "Pat::Wild" ["x"] []) (.node "Pat::Wild" ["y"] []) = .yes [] false ∧
    erase (inst [] (.node "Pat::Wild" ["x"] [])) ≠ erase (.node "Pat::Wild" ["y"] []) := by decide

theorem C09_sound_counterexample_atoms_qself :
    sup (.node "QSelf" ["x"] [leaf "A"]) (.node "QSelf" ["y"] [leaf "A"]) = .yes [] false ∧
    erase (inst [] (.node "QSelf" ["x"] [leaf "A"])) ≠ erase (.node "QSelf" ["y"] [leaf "A"]) := by decide

theorem C09_sound_counterexample_atoms_binary :
    sup (.node "Expr::Binary" ["x"] [leaf "O", leaf "L", leaf "R", leaf "A"])
        (.node "Expr::Binary" ["y"] [leaf "O", leaf "L", leaf "R", leaf "A"]) = .yes [] false ∧
    erase (inst [] (.node "Expr::Binary" ["x"] [leaf "O", leaf "L", leaf "R", leaf "A"]))
      ≠ erase (.node "Expr::Binary" ["y"] [leaf "O", leaf "L", leaf "R", leaf "A"]) := by decide

theorem C09_sound_counterexample_atoms_optwild :
    sup (.node "OptWild" ["x"] [leaf "A"]) (.node "OptWild" ["y"] [leaf "A"]) = .yes [] false ∧
    erase (inst [] (.node "OptWild" ["x"] [leaf "A"])) ≠ erase (.node "OptWild" ["y"] [leaf "A"]) := by decide

/-- `C09_sound`, `QSelf` clause of `wf`: a parameter after the type of a `QSelf` is bound by a later sibling. -/
theorem C09_sound_counterexample_qself :
    sup (.node "X" [] [.node "QSelf" [] [.tparam "x", .tparam "y"], .tparam "y"])
        (.node "X" [] [.node "QSelf" [] [.tparam "x", .tparam "y"], leaf "Foo"])
      = .yes [("x", .identity), ("y", .ty (leaf "Foo"))] false ∧
    erase (inst [("x", .identity), ("y", .ty (leaf "Foo"))]
        (.node "X" [] [.node "QSelf" [] [.tparam "x", .tparam "y"], .tparam "y"]))
      ≠ erase (.node "X" [] [.node "QSelf" [] [.tparam "x", .tparam "y"], leaf "Foo"]) := by decide

/-- `C09_sound`, `Expr::Binary` clause of `wf`: a parameter as operator is bound by a later sibling. -/
theorem C09_sound_counterexample_binary_op :
    sup (.node "X" [] [.node "Expr::Binary" [] [.eparam "o", leaf "L", leaf "R", leaf "A"], .eparam "o"])
        (.node "X" [] [.node "Expr::Binary" [] [.eparam "o", leaf "L", leaf "R", leaf "A"], leaf "Foo"])
      = .yes [("o", .ex (leaf "Foo"))] false ∧
    erase (inst [("o", .ex (leaf "Foo"))]
        (.node "X" [] [.node "Expr::Binary" [] [.eparam "o", leaf "L", leaf "R", leaf "A"], .eparam "o"]))
      ≠ erase (.node "X" [] [.node "Expr::Binary" [] [.eparam "o", leaf "L", leaf "R", leaf "A"], leaf "Foo"]) := by
  decide

theorem C09_sound_unconditional_false :
    ¬ ∀ (a b : T) (σ : Subst), sup a b = .yes σ false → erase (inst σ a) = erase b := fun h =>
  C09_sound_counterexample_ign.2 (h _ _ _ C09_sound_counterexample_ign.1)

/-- the side conditions are not vacuous: `(_ŠČ0, Vec<_ŠČ0>)`-like shapes with an `Ign` child and a wrapper -/
example :
    let a : T := .node "Type::Tuple" [] [.node "Ign" [] [leaf "A1"], .tparam "_ŠČ0",
      .node "Type::Paren" [] [.node "Type::Ref" ["mut"] [.tparam "_ŠČ0"]]]
    let b : T := .node "Type::Paren" [] [.node "Type::Tuple" [] [.node "Ign" [] [leaf "A2"], leaf "u8",
      .node "Type::Ref" ["mut"] [.node "Type::Group" [] [leaf "u8"]]]]
    wf a = true ∧ wf b = true ∧ ignFaces a (stripTop b) = true ∧ noConstParam b = true ∧
    sup a b = .yes [("_ŠČ0", .ty (leaf "u8"))] false := by decide

/-! ### Completeness: every hypothesis of `C09_complete_partial` is needed -/

/-- `coherent`: one name used for a type parameter left in place and for a const argument -/
theorem C09_complete_counterexample_coherent :
    let a : T := .node "X" [] [.tparam "n", .node "GenericArgument::Type" [] [.tparam "n"]]
    let b : T := .node "X" [] [.tparam "n", .node "GenericArgument::Const" [] [leaf "E"]]
    let θ : Subst := [("n", .ex (leaf "E"))]
    frag θ a = true ∧ plain b = true ∧ erase (inst θ a) = erase b ∧ coherent θ a = false ∧ sup a b = .no := by
  decide

/-- `coherent`: a parameter that also occurs as a trait path (non-type position) must not be moved -/
theorem C09_complete_counterexample_coherent_path :
    let pth : T := .node "Path" [] [.node "IgnL" [] [leaf "None"],
      .node "List" [] [.node "PathSegment" [] [.node "Ident" ["_ŠČ0"] [], leaf "PathArguments::None"]]]
    let a : T := .node "X" [] [pth, .tparam "_ŠČ0"]
    let b : T := .node "X" [] [pth, leaf "u8"]
    let θ : Subst := [("_ŠČ0", .ty (leaf "u8"))]
    frag θ a = true ∧ plain b = true ∧ erase (inst θ a) = erase b ∧ coherent θ a = false ∧ sup a b = .no := by
  with_unfolding_all decide

/-- `plain b`: two occurrences of a parameter facing sub-terms equal only modulo presentation (`(u8)` / `u8`) -/
theorem C09_complete_counterexample_plain :
    let a : T := .node "X" [] [.tparam "n", .tparam "n"]
    let b : T := .node "X" [] [.node "Tup" [] [.node "Type::Paren" [] [leaf "u8"]], .node "Tup" [] [leaf "u8"]]
    let θ : Subst := [("n", .ty (.node "Tup" [] [leaf "u8"]))]
    frag θ a = true ∧ coherent θ a = true ∧ plain b = false ∧ erase (inst θ a) = erase b ∧ sup a b = .no ∧
    (∃ σ l, sup a (erase b) = .yes σ l) := by
  refine ⟨by decide, by decide, by decide, by decide, by decide, _, _, (by decide : sup _ _ = .yes [("n", .ty (.node "Tup" [] [leaf "u8"]))] false)⟩

/-- `frag`: a kind whose arm is `unimplemented!()` -/
theorem C09_complete_counterexample_panic :
    frag [] (leaf "Constraint") = false ∧ erase (inst [] (leaf "Constraint")) = erase (leaf "Constraint") ∧
    sup (leaf "Constraint") (leaf "Constraint") = .panic := by decide

/-- `frag`: θ moves a parameter beneath a `QSelf` -/
theorem C09_complete_counterexample_qself :
    let a : T := .node "QSelf" [] [.tparam "n"]
    let θ : Subst := [("n", .ty (leaf "u8"))]
    frag θ a = false ∧ coherent θ a = true ∧ erase (inst θ a) = erase (.node "QSelf" [] [leaf "u8"]) ∧
    sup a (.node "QSelf" [] [leaf "u8"]) = .no := by decide

/-- `frag`: an empty transparent wrapper, a misshaped `Lifetime`, `OptWild` and `Expr::Binary` are rejected
    even against themselves -/
theorem C09_complete_counterexample_shapes :
    (frag [] (leaf "Type::Paren") = false ∧ erase (leaf "Type::Paren") = erase (leaf "Ign") ∧
      sup (leaf "Type::Paren") (leaf "Ign") = .no) ∧
    (frag [] (.node "Lifetime" ["a"] []) = false ∧ sup (.node "Lifetime" ["a"] []) (.node "Lifetime" ["a"] []) = .no) ∧
    (frag [] (leaf "OptWild") = false ∧ sup (leaf "OptWild") (leaf "OptWild") = .no) ∧
    (frag [] (leaf "Expr::Binary") = false ∧ sup (leaf "Expr::Binary") (leaf "Expr::Binary") = .no) := by decide

/-- non-vacuity of `C09_complete_partial`: `(_ŠČ0, &mut (_ŠČ0), <_ŠČ1 as Tr>::A)`-like pattern with an ignored
    child, a wrapper, a `QSelf` whose parameter stays, and a repeated parameter -/
example :
    let a : T := .node "Type::Tuple" [] [.node "Ign" [] [leaf "A1"], .tparam "_ŠČ0",
      .node "Type::Paren" [] [.node "Type::Ref" ["mut"] [.tparam "_ŠČ0"]],
      .node "Type::Path" [] [.node "QSelf" [] [.tparam "_ŠČ1", leaf "1"], leaf "P"]]
    let b : T := .node "Type::Tuple" [] [leaf "Ign", leaf "u8", .node "Type::Ref" ["mut"] [leaf "u8"],
      .node "Type::Path" [] [.node "QSelf" [] [.tparam "_ŠČ1", leaf "1"], leaf "P"]]
    let θ : Subst := [("_ŠČ0", .ty (leaf "u8"))]
    frag θ a = true ∧ coherent θ a = true ∧ plain b = true ∧ erase (inst θ a) = erase b ∧
    sup a b = .yes [("_ŠČ0", .ty (leaf "u8")), ("_ŠČ1", .identity)] false := by decide

end Counterexamples


/-! ## The source's field schema (regenerated facts)

`MatchFacts.lean` is regenerated from /repo/src/superset.rs, /repo/src/superset/*.rs and the pinned syn sources on every run of
the check; `MatchSchema.lean` is the schema the model (and the decoder) assume. -/

/-- every non-punctuation field of every syn struct with an `impl Superset` is mentioned by its `is_superset`, except exactly
    the fields the model treats as ignored (`MatchSchema.supersetIgnored`: presentation, the two lenient findings, `unimplemented!()` arms) -/
theorem C09_every_field_examined :
    MatchSchema.unexamined MatchFacts.supersetMentions = MatchSchema.supersetIgnored := by decide +kernel

/-- the set of types with an `impl Superset` is the one the model covers -/
theorem C09_superset_impls : MatchFacts.supersetMentions.map Prod.fst = MatchSchema.supersetImpls := by decide +kernel

/-! ## Transitivity (`Lemmas/MatchTrans.lean`)

The statement as posed — `sup a b = .yes σ l₁ → sup b c = .yes τ l₂ → ∃ ρ l, sup a c = .yes ρ l` for all trees — is
FALSE (`C09_trans_counterexample_*` below, some of them with ordinary Rust types). It is proved under executable side
conditions:

* `okT_tr t` (on `a`, `b`, `c`): outside ignored children, `t` has no node of a kind whose arm is lenient,
  order-dependent or `unimplemented!()` (`Pat::Wild`, `Stmt::Item`, `Constraint`, `Pat::Struct`, `Pat::TupleStruct`,
  `Expr::Binary`, `OptWild`), no anonymous lifetime `'_`, no `Path` node that is a lone parameter identifier
  (the decoder turns those into parameters), a `QSelf` node has no atoms, and its generic arguments have the shapes the
  matcher inspects literally: `GenericArgument::Const [] [e]` with `e` a proper node (no wrapper, no ignored child),
  `GenericArgument::Type [] [x]` with `x` a type parameter or a proper node. Transparent wrappers (elsewhere),
  `Ign` / `IgnL` children, lifetimes, qualified paths `<T as Tr>::A` are allowed.
* `faces_tr b (stripTop c)`: along the common shape of `b` and `c`, every `Ign` child of `b` faces an `Ign` child of `c`
  and every `IgnL` child of `b` (leading `::`) faces an identical node.
* `presInj_tr c`: any two sub-trees of the target `c` (not beneath ignored children) that are equal modulo presentation
  (`erase`) are equal up to wrappers at their root — `c` does not spell one type in two ways (`Vec<X>` / `Vec::<X>`,
  `Vec<(X)>` / `Vec<X>`). This is what `Substitutions::merge` needs: it compares bound sub-trees with `==`. -/

/-- TRANSITIVITY of header generalisation on the fragment: if `a` generalises `b` and `b` generalises `c` (whatever
    the lossy flags), `a` generalises `c`.
    Side conditions (all executable): `okT_tr` for the three trees, `faces_tr b (stripTop c)`, `presInj_tr c`. -/
theorem C09_trans (a b c : T) (σ τ : Subst) (l₁ l₂ : Bool) (ha : okT_tr a = true) (hb : okT_tr b = true)
    (hc : okT_tr c = true) (hf : faces_tr b (stripTop c) = true) (hi : presInj_tr c = true) :
    sup a b = .yes σ l₁ → sup b c = .yes τ l₂ → ∃ ρ l, sup a c = .yes ρ l :=
  fun h1 h2 => sup_trans_tr a b c σ τ l₁ l₂ ha hb hc hf hi h1 h2

/-- what the answer of `a → c` is made of: every entry `(n, w)` of it belongs to a parameter `n` that `a → b` bound,
    say to `v`, and `w` is the image of `v` under the match `b → c` (`Img_tr`): for `v = identity` the entry of `τ`
    for `n`; for `v = ty t` / `ex t` the sub-tree `c₁` of `c` that `t` was matched against (`identity` if `c₁` is the
    parameter `n` itself), or the const argument `τ` binds `t = tparam m` to -/
theorem C09_trans_answer (a b c : T) (σ τ : Subst) (l₁ l₂ : Bool) (ha : okT_tr a = true) (hb : okT_tr b = true)
    (hc : okT_tr c = true) (hf : faces_tr b (stripTop c) = true) (hi : presInj_tr c = true)
    (h1 : sup a b = .yes σ l₁) (h2 : sup b c = .yes τ l₂) :
    ∃ ρ l, sup a c = .yes ρ l ∧
      ∀ p ∈ ρ, ∃ v, lookup σ p.1 = some v ∧ Img_tr (· ∈ subs_tr c) τ p.1 v p.2 := by
  have hS := scope_of_tr hc hi
  unfold sup at h1 h2 ⊢
  rw [supS_stripTop_tr] at h2
  exact trans_tr hS a (stripTop b) (stripTop c) σ l₁ τ l₂ ha (okT_stripTop_tr b hb)
    (hS.strip c (self_mem_subs_tr c)) (stripTop_idem_tr c) h1 h2 (faces_stripTop_tr _ b hf)

section TransExamples
set_option maxRecDepth 100000

private def lf (s : String) : T := .node s [] []
private def lt' (x : String) : T := .node "Lifetime" [] [.node "Ident" [x] []]
/-- `Vec<x>` as the decoder produces it (with the ignored `::` before `<` and the `IgnL` leading colon) -/
private def vecT (colon2 : T) (x : T) : T :=
  .node "Type::Path" [] [lf "None", .node "Path" [] [.node "IgnL" [] [lf "None"], .node "List" []
    [.node "PathSegment" [] [.node "Ident" ["Vec"] [], .node "PathArguments::AngleBracketed" []
      [.node "Ign" [] [colon2], .node "List" [] [.node "GenericArgument::Type" [] [x]]]]]]]
private def tup2 (x y : T) : T := .node "Type::Tuple" [] [.node "List" [] [x, y]]
private def u8 : T := .node "Type::Path" [] [lf "None", .node "Path" [] [.node "IgnL" [] [lf "None"], .node "List" []
    [.node "PathSegment" [] [.node "Ident" ["u8"] [], lf "PathArguments::None"]]]]

/-- anonymous lifetime: `&'a T ⊒ &'_ T ⊒ &'b T` but `&'a T ⋣ &'b T` -/
theorem C09_trans_counterexample_lifetime :
    let a : T := .node "Type::Reference" [] [lt' "a", .tparam "_ŠČ0"]
    let b : T := .node "Type::Reference" [] [lt' "_", .tparam "_ŠČ0"]
    let c : T := .node "Type::Reference" [] [lt' "b", .tparam "_ŠČ0"]
    sup a b = .yes [("_ŠČ0", .identity)] true ∧ sup b c = .yes [("_ŠČ0", .identity)] true ∧ sup a c = .no ∧
    okT_tr a = true ∧ okT_tr b = false ∧ okT_tr c = true ∧ faces_tr b (stripTop c) = true ∧ presInj_tr c = true := by
  decide

/-- `_` pattern: anything ⊒ `_` ⊒ anything -/
theorem C09_trans_counterexample_wild :
    sup (lf "A") (lf "Pat::Wild") = .yes [] true ∧ sup (lf "Pat::Wild") (lf "B") = .yes [] true ∧
    sup (lf "A") (lf "B") = .no ∧ okT_tr (lf "Pat::Wild") = false := by decide

/-- swapped operands are tried only when the left operands do not match: `[_; N + 1] ⊒ [_; 2 + 1] ⊒ [_; 1 + 2]` but
    `[_; N + 1] ⋣ [_; 1 + 2]` (`N ↦ 1` succeeds on the left, then `1` against `2` fails and no swap is tried) -/
theorem C09_trans_counterexample_binary :
    let bin (l r : T) : T := .node "Expr::Binary" [] [lf "BinOp::Add", l, r, .node "Ign" [] [lf "List"]]
    let lit (s : String) : T := .node "Lit" [s] []
    sup (bin (.eparam "_ŠČ0") (lit "1")) (bin (lit "2") (lit "1")) = .yes [("_ŠČ0", .ex (lit "2"))] false ∧
    sup (bin (lit "2") (lit "1")) (bin (lit "1") (lit "2")) = .yes [] true ∧
    sup (bin (.eparam "_ŠČ0") (lit "1")) (bin (lit "1") (lit "2")) = .no ∧
    okT_tr (bin (lit "2") (lit "1")) = false := by decide

/-- missing turbofish: `x.f::<A>() ⊒ x.f() ⊒ x.f::<B>()` -/
theorem C09_trans_counterexample_optWild :
    sup (.node "OptWild" [] [lf "A"]) (.node "OptWild" [] [lf "None"]) = .yes [] true ∧
    sup (.node "OptWild" [] [lf "None"]) (.node "OptWild" [] [lf "B"]) = .yes [] true ∧
    sup (.node "OptWild" [] [lf "A"]) (.node "OptWild" [] [lf "B"]) = .no ∧
    okT_tr (.node "OptWild" [] [lf "None"]) = false := by decide

/-- generic-argument clause of `okT_tr`: the const-argument deviation (path.rs:173-179) looks at the literal shape
    `GenericArgument::Type [tparam]`: `Foo<(T)> ⊒ Foo<N> ⊒ Foo<3>` but `Foo<(T)> ⋣ Foo<3>` -/
theorem C09_trans_counterexample_gaWrapper :
    let a : T := .node "GenericArgument::Type" [] [.node "Type::Paren" [] [.tparam "_ŠČ0"]]
    let b : T := .node "GenericArgument::Type" [] [.tparam "_ŠČ1"]
    let c : T := .node "GenericArgument::Const" [] [.node "Expr::Lit" [] [lf "3"]]
    sup a b = .yes [("_ŠČ0", .ty (.tparam "_ŠČ1"))] false ∧
    sup b c = .yes [("_ŠČ1", .ex (.node "Expr::Lit" [] [lf "3"]))] false ∧ sup a c = .no ∧
    okT_tr a = false ∧ okT_tr b = true ∧ okT_tr c = true ∧ faces_tr b (stripTop c) = true ∧ presInj_tr c = true := by
  decide

/-- `presInj_tr c` (ignored children): `(T, T) ⊒ (Vec<U>, Vec<U>) ⊒ (Vec<u8>, Vec::<u8>)` but
    `(T, T) ⋣ (Vec<u8>, Vec::<u8>)` — the two bound sub-trees differ in the ignored `::` -/
theorem C09_trans_counterexample_presInj_ign :
    let a : T := tup2 (.tparam "_ŠČ0") (.tparam "_ŠČ0")
    let b : T := tup2 (vecT (lf "None") (.tparam "_ŠČ1")) (vecT (lf "None") (.tparam "_ŠČ1"))
    let c : T := tup2 (vecT (lf "None") u8) (vecT (lf "Some") u8)
    sup a b = .yes [("_ŠČ0", .ty (vecT (lf "None") (.tparam "_ŠČ1")))] false ∧
    sup b c = .yes [("_ŠČ1", .ty u8)] false ∧ sup a c = .no ∧
    okT_tr a = true ∧ okT_tr b = true ∧ okT_tr c = true ∧ faces_tr b (stripTop c) = true ∧ presInj_tr c = false := by
  with_unfolding_all decide

/-- `presInj_tr c` (wrappers): `(T, T) ⊒ ((U, U), (U, U)) ⊒ (((u8), u8), (u8, u8))` but
    `(T, T) ⋣ (((u8), u8), (u8, u8))` -/
theorem C09_trans_counterexample_presInj_paren :
    let a : T := tup2 (.tparam "_ŠČ0") (.tparam "_ŠČ0")
    let b : T := tup2 (tup2 (.tparam "_ŠČ1") (.tparam "_ŠČ1")) (tup2 (.tparam "_ŠČ1") (.tparam "_ŠČ1"))
    let c : T := tup2 (tup2 (.node "Type::Paren" [] [u8]) u8) (tup2 u8 u8)
    sup a b = .yes [("_ŠČ0", .ty (tup2 (.tparam "_ŠČ1") (.tparam "_ŠČ1")))] false ∧
    sup b c = .yes [("_ŠČ1", .ty u8)] false ∧ sup a c = .no ∧
    okT_tr a = true ∧ okT_tr b = true ∧ okT_tr c = true ∧ faces_tr b (stripTop c) = true ∧ presInj_tr c = false := by
  with_unfolding_all decide

/-- `faces_tr` (an `Ign` child of `b` facing something else) -/
theorem C09_trans_counterexample_faces_ign :
    let a : T := tup2 (.tparam "_ŠČ0") (.tparam "_ŠČ0")
    let b : T := tup2 (.node "V" [] [lf "Ign"]) (.node "V" [] [lf "Ign"])
    let c : T := tup2 (.node "V" [] [lf "A"]) (.node "V" [] [lf "B"])
    sup a b = .yes [("_ŠČ0", .ty (.node "V" [] [lf "Ign"]))] false ∧ sup b c = .yes [] false ∧ sup a c = .no ∧
    okT_tr a = true ∧ okT_tr b = true ∧ okT_tr c = true ∧ faces_tr b (stripTop c) = false ∧ presInj_tr c = true := by
  decide

/-- `faces_tr` (an `IgnL` child — the leading `::` of a path — facing a different one):
    `(T, T) ⊒ (X, X) ⊒ (::X, X)` but `(T, T) ⋣ (::X, X)` -/
theorem C09_trans_counterexample_faces_ignL :
    let pth (lc : T) : T := .node "Path" [] [.node "IgnL" [] [lc], .node "List" [] [lf "X"]]
    let a : T := tup2 (.tparam "_ŠČ0") (.tparam "_ŠČ0")
    let b : T := tup2 (pth (lf "None")) (pth (lf "None"))
    let c : T := tup2 (pth (lf "Some")) (pth (lf "None"))
    sup a b = .yes [("_ŠČ0", .ty (pth (lf "None")))] false ∧ sup b c = .yes [] true ∧ sup a c = .no ∧
    okT_tr a = true ∧ okT_tr b = true ∧ okT_tr c = true ∧ faces_tr b (stripTop c) = false ∧ presInj_tr c = true := by
  with_unfolding_all decide

theorem C09_trans_unconditional_false :
    ¬ ∀ (a b c : T) (σ τ : Subst) (l₁ l₂ : Bool), sup a b = .yes σ l₁ → sup b c = .yes τ l₂ →
      ∃ ρ l, sup a c = .yes ρ l := fun h => by
  obtain ⟨ρ, l, hρ⟩ := h _ _ _ _ _ _ _ C09_trans_counterexample_wild.1 C09_trans_counterexample_wild.2.1
  rw [C09_trans_counterexample_wild.2.2.1] at hρ
  cases hρ

/-- non-vacuity of `C09_trans`: `(T, T) ⊒ (Vec<U>, Vec<U>) ⊒ (Vec<Vec<u8>>, (Vec<Vec<u8>>))` — a repeated parameter,
    ignored children, a wrapper in the target; all hypotheses hold and the three answers are as stated -/
example :
    let a : T := tup2 (.tparam "_ŠČ0") (.tparam "_ŠČ0")
    let b : T := tup2 (vecT (lf "None") (.tparam "_ŠČ1")) (vecT (lf "None") (.tparam "_ŠČ1"))
    let vv : T := vecT (lf "None") (vecT (lf "None") u8)
    let c : T := tup2 vv (.node "Type::Paren" [] [vv])
    okT_tr a = true ∧ okT_tr b = true ∧ okT_tr c = true ∧ faces_tr b (stripTop c) = true ∧ presInj_tr c = true ∧
    sup a b = .yes [("_ŠČ0", .ty (vecT (lf "None") (.tparam "_ŠČ1")))] false ∧
    sup b c = .yes [("_ŠČ1", .ty (vecT (lf "None") u8))] false ∧
    sup a c = .yes [("_ŠČ0", .ty vv)] false := by
  with_unfolding_all decide

/-- non-vacuity with the const-argument deviation and a lifetime: `&'a Foo<N> ⊒ &'a Foo<M> ⊒ &'a Foo<3>` -/
example :
    let foo (arg : T) : T := .node "Type::Reference" [] [lt' "a", .node "Foo" [] [arg]]
    let a : T := foo (.node "GenericArgument::Type" [] [.tparam "_ŠČ0"])
    let b : T := foo (.node "GenericArgument::Type" [] [.tparam "_ŠČ1"])
    let c : T := foo (.node "GenericArgument::Const" [] [.node "Expr::Lit" [] [lf "3"]])
    okT_tr a = true ∧ okT_tr b = true ∧ okT_tr c = true ∧ faces_tr b (stripTop c) = true ∧ presInj_tr c = true ∧
    sup a b = .yes [("_ŠČ0", .ty (.tparam "_ŠČ1"))] false ∧
    sup b c = .yes [("_ŠČ1", .ex (.node "Expr::Lit" [] [lf "3"]))] false ∧
    sup a c = .yes [("_ŠČ0", .ex (.node "Expr::Lit" [] [lf "3"]))] false := by
  decide

/-- non-vacuity with a qualified path, whose type must stay put: `(<T as Tr>::A, U) ⊒ (<T as Tr>::A, Vec<V>) ⊒
    (<T as Tr>::A, Vec<u8>)` -/
example :
    let q (x : T) : T := .node "Type::Path" [] [.node "Some" [] [.node "QSelf" [] [x, .node "Atom" ["1"] []]], lf "P"]
    let a : T := tup2 (q (.tparam "_ŠČ0")) (.tparam "_ŠČ1")
    let b : T := tup2 (q (.tparam "_ŠČ0")) (vecT (lf "None") (.tparam "_ŠČ2"))
    let c : T := tup2 (q (.tparam "_ŠČ0")) (vecT (lf "None") u8)
    okT_tr a = true ∧ okT_tr b = true ∧ okT_tr c = true ∧ faces_tr b (stripTop c) = true ∧ presInj_tr c = true ∧
    sup a b = .yes [("_ŠČ0", .identity), ("_ŠČ1", .ty (vecT (lf "None") (.tparam "_ŠČ2")))] false ∧
    sup b c = .yes [("_ŠČ0", .identity), ("_ŠČ2", .ty u8)] false ∧
    sup a c = .yes [("_ŠČ0", .identity), ("_ŠČ1", .ty (vecT (lf "None") u8))] false := by
  with_unfolding_all decide

end TransExamples

/-! ### Session 4: `merge` computes the LEAST common extension ("most general": nothing is bound beyond what the children bound) -/

/-- `Substitutions::merge` answers an upper bound of both arguments (restated from `merge_ext`) that lies below EVERY common
    upper bound: the substitution the matcher assembles for a node with several children binds exactly what the children
    bound — no parameter more, no other value.  This is the "most general" half of first-order matching at the level of the
    substitution algebra, for all substitutions (duplicate keys included). -/
theorem C09_merge_is_least_upper_bound (σ τ ρ : Subst) (h : merge σ τ = some ρ) :
    Ext σ ρ ∧ Ext τ ρ ∧ ∀ ρ', Ext σ ρ' → Ext τ ρ' → Ext ρ ρ' := by
  obtain ⟨h1, h2⟩ := merge_ext τ σ ρ h
  refine ⟨h1, h2, ?_⟩
  intro ρ' e1 e2 n v hv
  cases hs : lookup σ n with
  | some w =>
    have := h1 n w hs
    rw [hv] at this; cases this
    exact e1 n v hs
  | none =>
    cases ht : lookup τ n with
    | some w =>
      have := h2 n w ht
      rw [hv] at this; cases this
      exact e2 n v ht
    | none =>
      exfalso
      have hm := merge_mem τ σ ρ h (n, v) (lookup_mem ρ n v hv)
      have hs' := (lookup_none_iff σ n).1 hs
      have ht' := (lookup_none_iff τ n).1 ht
      cases hm with
      | inl hm => exact hs' (List.mem_map.2 ⟨(n, v), hm, rfl⟩)
      | inr hm => exact ht' (List.mem_map.2 ⟨(n, v), hm, rfl⟩)

/-- consequently two answers of `merge` for the same pair of finite maps agree as finite maps, whatever the order of the
    arguments: the order of the children of a node cannot change WHAT is bound, only the order of the entries -/
theorem C09_merge_comm_as_maps (σ τ ρ ρ' : Subst) (h : merge σ τ = some ρ) (h' : merge τ σ = some ρ') :
    ∀ n, lookup ρ n = lookup ρ' n := by
  obtain ⟨a1, a2, a3⟩ := C09_merge_is_least_upper_bound σ τ ρ h
  obtain ⟨b1, b2, b3⟩ := C09_merge_is_least_upper_bound τ σ ρ' h'
  have e1 : Ext ρ ρ' := a3 ρ' b2 b1
  have e2 : Ext ρ' ρ := b3 ρ a2 a1
  intro n
  cases hl : lookup ρ n with
  | some v => exact (e1 n v hl).symm
  | none =>
    cases hr : lookup ρ' n with
    | some w => have := e2 n w hr; rw [hl] at this; cases this
    | none => rfl

/-- non-vacuity: a concrete merge of overlapping, consistent substitutions succeeds in both orders (entries in different
    order, equal as maps); an inconsistent pair is refused -/
example :
    merge [("_ŠČ0", Val.ty (.node "u8" [] []))] [("_ŠČ1", Val.identity), ("_ŠČ0", Val.ty (.node "u8" [] []))]
      = some [("_ŠČ0", Val.ty (.node "u8" [] [])), ("_ŠČ1", Val.identity)] ∧
    merge [("_ŠČ1", Val.identity), ("_ŠČ0", Val.ty (.node "u8" [] []))] [("_ŠČ0", Val.ty (.node "u8" [] []))]
      = some [("_ŠČ1", Val.identity), ("_ŠČ0", Val.ty (.node "u8" [] []))] ∧
    merge [("_ŠČ0", Val.ty (.node "u8" [] []))] [("_ŠČ0", Val.identity)] = none := by decide

/-- mutual extension is equality as finite maps -/
theorem C09_ext_antisymm {a b : Subst} (e1 : Ext a b) (e2 : Ext b a) : ∀ n, lookup a n = lookup b n := by
  intro n
  cases hl : lookup a n with
  | some v => exact (e1 n v hl).symm
  | none =>
    cases hr : lookup b n with
    | some w => have := e2 n w hr; rw [hl] at this; cases this
    | none => rfl

/-- `merge` is associative as a finite map: the substitution of a node does not depend on how the matcher brackets the
    folds over its children (`fold` over fields, then over the elements of a punctuated field) -/
theorem C09_merge_assoc_as_maps (σ τ υ a b c d : Subst)
    (h1 : merge σ τ = some a) (h2 : merge a υ = some b) (h3 : merge τ υ = some c) (h4 : merge σ c = some d) :
    ∀ n, lookup b n = lookup d n := by
  obtain ⟨a1, a2, a3⟩ := C09_merge_is_least_upper_bound σ τ a h1
  obtain ⟨b1, b2, b3⟩ := C09_merge_is_least_upper_bound a υ b h2
  obtain ⟨c1, c2, c3⟩ := C09_merge_is_least_upper_bound τ υ c h3
  obtain ⟨d1, d2, d3⟩ := C09_merge_is_least_upper_bound σ c d h4
  apply C09_ext_antisymm
  · exact b3 d (a3 d d1 (Ext.trans c1 d2)) (Ext.trans c2 d2)
  · exact d3 b (Ext.trans a1 b1) (c3 b (Ext.trans a2 b1) b2)

/-- `merge` is idempotent as a finite map: matching the same parameter occurrence twice adds nothing -/
theorem C09_merge_idem_as_maps (σ ρ : Subst) (h : merge σ σ = some ρ) : ∀ n, lookup ρ n = lookup σ n := by
  obtain ⟨a1, _, a3⟩ := C09_merge_is_least_upper_bound σ σ ρ h
  exact C09_ext_antisymm (a3 σ (Ext.refl σ) (Ext.refl σ)) a1

/-- `merge` refuses conflicting bindings AND ONLY those: for a right argument without repeated keys it succeeds exactly when
    every parameter bound on both sides is bound to the same value ("every parameter is bound to one value consistently
    across all of its occurrences" — and no consistent pair is ever refused) -/
theorem C09_merge_succeeds_iff : ∀ (τ σ : Subst), (τ.map Prod.fst).Nodup →
    ((∃ ρ, merge σ τ = some ρ) ↔ ∀ n v w, (n, v) ∈ τ → lookup σ n = some w → v = w)
  | [], σ, _ => by simp [merge]
  | (n, v) :: rest, σ, hn => by
      simp only [List.map_cons, List.nodup_cons] at hn
      obtain ⟨hnot, hrest⟩ := hn
      simp only [merge]
      cases hl : lookup σ n with
      | some v' =>
        by_cases hv : v = v'
        · simp only [hv, if_true]
          rw [C09_merge_succeeds_iff rest σ hrest]
          constructor
          · intro h m u w hm hw
            rcases List.mem_cons.1 hm with hm | hm
            · cases hm; rw [hl] at hw; cases hw; rfl
            · exact h m u w hm hw
          · intro h m u w hm hw
            exact h m u w (List.mem_cons_of_mem _ hm) hw
        · simp only [hv, if_false]
          constructor
          · rintro ⟨_, h⟩; cases h
          · intro h; exact absurd (h n v v' (by simp) hl) hv
      | none =>
        simp only
        rw [C09_merge_succeeds_iff rest (σ ++ [(n, v)]) hrest]
        have key : ∀ m, m ∈ rest.map Prod.fst → lookup (σ ++ [(n, v)]) m = lookup σ m := by
          intro m hm
          have hne : n ≠ m := fun e => hnot (e ▸ hm)
          rw [lookup_append]
          simp [lookup, hne]
        constructor
        · intro h m u w hm hw
          rcases List.mem_cons.1 hm with hm | hm
          · cases hm; rw [hl] at hw; cases hw
          · have hk := key m (List.mem_map.2 ⟨(m, u), hm, rfl⟩)
            exact h m u w hm (hk ▸ hw)
        · intro h m u w hm hw
          have hk := key m (List.mem_map.2 ⟨(m, u), hm, rfl⟩)
          exact h m u w (List.mem_cons_of_mem _ hm) (hk ▸ hw)

/-- the side condition is needed: a right argument that repeats a key with two values is refused even by the empty
    substitution (the matcher never produces one: `merge_nodup`) -/
theorem C09_merge_succeeds_iff_counterexample :
    merge [] [("_ŠČ0", Val.identity), ("_ŠČ0", Val.ty (.node "u8" [] []))] = none ∧
    (∀ n v w, (n, v) ∈ [("_ŠČ0", Val.identity), ("_ŠČ0", Val.ty (.node "u8" [] []))] → lookup [] n = some w → v = w) := by
  refine ⟨by decide, ?_⟩
  intro n v w _ h; simp [lookup] at h

/-- the entries of a successful `merge` are EXACTLY the entries of its arguments (as sets of pairs): nothing invented, nothing lost -/
theorem C09_merge_entries : ∀ (τ σ ρ : Subst), merge σ τ = some ρ → ∀ p, p ∈ ρ ↔ (p ∈ σ ∨ p ∈ τ)
  | [], σ, ρ, h => by simp [merge] at h; subst h; simp
  | (n, v) :: rest, σ, ρ, h => by
      intro p
      simp only [merge] at h
      cases hl : lookup σ n with
      | some v' =>
        rw [hl] at h; simp only at h
        by_cases hv : v = v'
        · simp only [hv, if_true] at h
          rw [C09_merge_entries rest σ ρ h p]
          subst hv
          have hm : (n, v) ∈ σ := lookup_mem σ n v hl
          constructor
          · rintro (h1 | h1)
            · exact Or.inl h1
            · exact Or.inr (List.mem_cons_of_mem _ h1)
          · rintro (h1 | h1)
            · exact Or.inl h1
            · rcases List.mem_cons.1 h1 with h1 | h1
              · exact Or.inl (h1 ▸ hm)
              · exact Or.inr h1
        · simp only [hv, if_false] at h; cases h
      | none =>
        rw [hl] at h; simp only at h
        rw [C09_merge_entries rest (σ ++ [(n, v)]) ρ h p]
        simp only [List.mem_append, List.mem_cons, List.not_mem_nil, or_false]
        constructor
        · rintro ((h1 | h1) | h1)
          · exact Or.inl h1
          · exact Or.inr (Or.inl h1)
          · exact Or.inr (Or.inr h1)
        · rintro (h1 | h1 | h1)
          · exact Or.inl (Or.inl h1)
          · exact Or.inl (Or.inr h1)
          · exact Or.inr h1

/-- hence a merged substitution is the identity (`Substitutions::is_eq`, the test behind "qualified-self types only match under
    the identity substitution") exactly when both parts are -/
theorem C09_merge_allIdentity (σ τ ρ : Subst) (h : merge σ τ = some ρ) :
    allIdentity ρ = (allIdentity σ && allIdentity τ) := by
  have he := C09_merge_entries τ σ ρ h
  rw [Bool.eq_iff_iff]
  simp only [allIdentity, Bool.and_eq_true, List.all_eq_true]
  constructor
  · intro hr
    exact ⟨fun p hp => hr p ((he p).2 (Or.inl hp)), fun p hp => hr p ((he p).2 (Or.inr hp))⟩
  · rintro ⟨h1, h2⟩ p hp
    rcases (he p).1 hp with hp | hp
    · exact h1 p hp
    · exact h2 p hp

/-- the default rule of the matcher (children pairwise, merged left to right): a `yes` answer is the LEAST substitution that
    extends the accumulator and every child's own answer — every child was matched, each answer is contained in the node's,
    and nothing else is.  Unconditional (all trees, no well-formedness), so this part of "exact first-order matching" holds
    also where `C09_sound_wf`'s side conditions do not. -/
theorem C09_children_answer_is_least : ∀ (as bs : List T) (acc : Subst) (fl : Bool) (ρ : Subst) (l : Bool),
    supL as bs acc fl = .yes ρ l →
    as.length = bs.length ∧ Ext acc ρ ∧
    (∀ p ∈ as.zip bs, ∃ σ f, supS p.1 (stripTop p.2) = .yes σ f ∧ Ext σ ρ) ∧
    (∀ ρ', Ext acc ρ' → (∀ p ∈ as.zip bs, ∀ σ f, supS p.1 (stripTop p.2) = .yes σ f → Ext σ ρ') → Ext ρ ρ')
  | [], [], acc, fl, ρ, l, h => by
      rw [supL] at h; cases h
      exact ⟨rfl, Ext.refl _, by simp, fun ρ' h1 _ => h1⟩
  | [], _ :: _, _, _, _, _, h => by rw [supL_nil_cons] at h; cases h
  | _ :: _, [], _, _, _, _, h => by rw [supL_cons_nil] at h; cases h
  | a :: as, b :: bs, acc, fl, ρ, l, h => by
      rw [supL] at h
      split at h
      · cases h
      · cases h
      · next σ1 f h1 =>
        split at h
        · cases h
        · next acc' hm =>
          obtain ⟨hlen, hext, hkids, hleast⟩ := C09_children_answer_is_least as bs acc' (fl || f) ρ l h
          obtain ⟨m1, m2, m3⟩ := C09_merge_is_least_upper_bound acc σ1 acc' hm
          refine ⟨by simp [hlen], Ext.trans m1 hext, ?_, ?_⟩
          · intro p hp
            simp only [List.zip_cons_cons, List.mem_cons] at hp
            rcases hp with hp | hp
            · subst hp; exact ⟨σ1, f, h1, Ext.trans m2 hext⟩
            · exact hkids p hp
          · intro ρ' hacc hall
            apply hleast ρ'
            · exact m3 ρ' hacc (hall (a, b) (by simp) σ1 f h1)
            · intro p hp σ f' hs
              exact hall p (by simp only [List.zip_cons_cons, List.mem_cons]; exact Or.inr hp) σ f' hs

/-- "mismatching arity is never glossed over" at the default rule: child lists of different lengths never match, whatever the
    accumulated substitution (tuples, generic-argument lists, fn-pointer inputs, bound lists … all go through `supL`) -/
theorem C09_arity_mismatch_never_matches (as bs : List T) (acc : Subst) (fl : Bool) (hne : as.length ≠ bs.length) :
    ∀ ρ l, supL as bs acc fl ≠ .yes ρ l :=
  fun ρ l h => hne (C09_children_answer_is_least as bs acc fl ρ l h).1

/-- and a child that does not match (or panics) makes the whole node not match: no child is skipped -/
theorem C09_failing_child_fails_node (as bs : List T) (acc : Subst) (fl : Bool) (p : T × T) (hp : p ∈ as.zip bs)
    (hfail : ∀ σ f, supS p.1 (stripTop p.2) ≠ .yes σ f) : ∀ ρ l, supL as bs acc fl ≠ .yes ρ l := by
  intro ρ l h
  obtain ⟨σ, f, hs, _⟩ := (C09_children_answer_is_least as bs acc fl ρ l h).2.2.1 p hp
  exact hfail σ f hs

end DI
