/-
  C09 — header generalisation is exact first-order matching: property theorems over `sup` (Match.lean).
  All proofs are in `Lemmas/MatchSound.lean`; this file only states the properties.

  Status of the four statements as originally posed (for *all* trees `a b : T`):

  * `C09_functional`  — holds as posed.
  * `C09_identity`    — the `tparam` half holds as posed (`C09_identity_ty`); the `eparam` half is false
                        (`C09_identity_counterexample`) and holds when `b` has no const generic argument that
                        is a lone parameter (`noConstParam b`, `C09_identity_wf`).
  * `C09_binds_all`   — false as posed (`C09_binds_all_counterexample_*`); holds for well-formed `a`
                        (`wf a`, `C09_binds_all_wf`).
  * `C09_sound`       — false as posed (`C09_sound_counterexample_*`); holds for well-formed `a`, `b` whose
                        `Ign` children face each other (`wf a`, `wf b`, `ignFaces a (stripTop b)`,
                        `C09_sound_wf`).

  `wf`, `ignFaces`, `noConstParam` are executable (`Bool`) predicates defined in `Lemmas/MatchSound.lean`;
  every clause of `wf` has a counterexample below showing that it cannot be dropped.

  Completeness (`Lemmas/MatchComplete.lean`): `C09_complete_partial` — on the fragment `frag θ a` (no panicking
  kind, non-empty wrappers, well-shaped `Lifetime`/`OptWild`/`QSelf`/`Expr::Binary`, θ moving no parameter
  beneath a `QSelf`), for a θ that induces one value per parameter name (`coherent θ a`) and a
  presentation-free target (`plain b`), `erase (inst θ a) = erase b` implies that the matcher answers `yes`,
  with a substitution made of the values θ induces (`occVals θ a`). `C09_complete_normalised` is the same for
  an arbitrary `b` after normalising it with `erase`. Each hypothesis has a counterexample below.
-/
import DisjointImpls.Lemmas.MatchSound
import DisjointImpls.Lemmas.MatchComplete
import DisjointImpls.MatchSchema
namespace DI

/-! ## Theorems -/

/-- the reported substitution is a function: no key occurs twice -/
theorem C09_functional (a b : T) (σ : Subst) (l : Bool) :
    sup a b = .yes σ l → (σ.map Prod.fst).Nodup :=
  fun h => (supS_light a (stripTop b) σ l h).1

/-- a type parameter matched against itself is reported as unchanged, never as a binding to itself -/
theorem C09_identity_ty (a b : T) (σ : Subst) (l : Bool) (n : String) :
    sup a b = .yes σ l → lookup σ n ≠ some (.ty (.tparam n)) := by
  intro h hl
  exact ((supS_light a (stripTop b) σ l h).2 (n, .ty (.tparam n)) (lookup_mem σ n _ hl)).1 rfl

/-- a parameter matched against itself is reported as unchanged, never as a binding to itself
    (`b` without a const generic argument that is a lone parameter) -/
theorem C09_identity_wf (a b : T) (σ : Subst) (l : Bool) (n : String) (hb : noConstParam b = true) :
    sup a b = .yes σ l →
      lookup σ n ≠ some (.ty (.tparam n)) ∧ lookup σ n ≠ some (.ex (.eparam n)) := by
  intro h
  refine ⟨C09_identity_ty a b σ l n h, fun hl => ?_⟩
  exact ((supS_light a (stripTop b) σ l h).2 (n, .ex (.eparam n)) (lookup_mem σ n _ hl)).2
    (noConstParam_stripTop b hb) rfl

/-- every parameter of a well-formed `a` (that the matcher can see) is bound -/
theorem C09_binds_all_wf (a b : T) (σ : Subst) (ha : wf a = true) :
    sup a b = .yes σ false → ∀ n ∈ params a, (lookup σ n).isSome = true :=
  fun h => (supS_good a (stripTop b) σ ha h).1

/-- soundness: when no lenient arm fired, the reported substitution turns `a` into `b` (modulo presentation),
    for well-formed trees whose ignored children face each other -/
theorem C09_sound_wf (a b : T) (σ : Subst) (ha : wf a = true) (hb : wf b = true)
    (hf : ignFaces a (stripTop b) = true) :
    sup a b = .yes σ false → erase (inst σ a) = erase b := by
  intro h
  rw [(supS_good a (stripTop b) σ ha h).2 (wf_stripTop b hb) hf, erase_stripTop]

/-! ## Completeness

The full statement
`∀ a b θ, <side conditions> → erase (inst θ a) = erase b → ∃ σ l, sup a b = .yes σ l`
is proved for the side conditions `frag θ a`, `coherent θ a`, `plain b` (all executable). -/

/-- completeness on the fragment: whenever a coherent θ with `erase (inst θ a) = erase b` exists, the matcher
    answers yes, and every entry it reports is a value induced by θ at some parameter occurrence of `a` -/
theorem C09_complete_partial (a b : T) (θ : Subst) (hf : frag θ a = true) (hc : coherent θ a = true)
    (hb : plain b = true) :
    erase (inst θ a) = erase b → ∃ σ l, sup a b = .yes σ l ∧ ∀ p ∈ σ, p ∈ occVals θ a := by
  intro he
  rw [plain_erase b hb] at he
  unfold sup
  rw [plain_stripTop hb]
  exact supS_complete θ a hf (· ∈ occVals θ a) (functional_of_functionalB hc) (fun _ h => h) b hb he

/-- the same for an arbitrary target, normalised with `erase` first -/
theorem C09_complete_normalised (a b : T) (θ : Subst) (hf : frag θ a = true) (hc : coherent θ a = true) :
    erase (inst θ a) = erase b → ∃ σ l, sup a (erase b) = .yes σ l ∧ ∀ p ∈ σ, p ∈ occVals θ a := by
  intro he
  exact C09_complete_partial a (erase b) θ hf hc (plain_erase_self b) (by rw [erase_erase]; exact he)

/-- with soundness: on the fragment, for well-formed `a` and a presentation-free `b`, an exact answer is
    a matcher for `b`, and one exists whenever any substitution does -/
theorem C09_complete_exact (a b : T) (θ : Subst) (hf : frag θ a = true) (hc : coherent θ a = true)
    (hb : plain b = true) (he : erase (inst θ a) = erase b) :
    ∃ σ l, sup a b = .yes σ l ∧ (σ.map Prod.fst).Nodup :=
  let ⟨σ, l, h, _⟩ := C09_complete_partial a b θ hf hc hb he
  ⟨σ, l, h, C09_functional a b σ l h⟩

/-! ## Counterexamples to the unconditional statements

Each is a closed instance evaluated by the kernel (`decide`). -/

section Counterexamples
set_option maxRecDepth 8000

private def leaf (s : String) : T := .node s [] []

/-- `C09_identity` (eparam half): a type parameter in generic-argument position facing the const argument
    `_ŠČ0` is reported as the binding `_ŠČ0 ↦ ex _ŠČ0`. -/
theorem C09_identity_counterexample :
    sup (.node "GenericArgument::Type" [] [.tparam "_ŠČ0"]) (.node "GenericArgument::Const" [] [.eparam "_ŠČ0"])
        = .yes [("_ŠČ0", .ex (.eparam "_ŠČ0"))] false ∧
    lookup [("_ŠČ0", Val.ex (.eparam "_ŠČ0"))] "_ŠČ0" = some (.ex (.eparam "_ŠČ0")) := by decide

theorem C09_identity_unconditional_false :
    ¬ ∀ (a b : T) (σ : Subst) (l : Bool) (n : String), sup a b = .yes σ l →
      lookup σ n ≠ some (.ty (.tparam n)) ∧ lookup σ n ≠ some (.ex (.eparam n)) := fun h =>
  (h _ _ _ _ "_ŠČ0" C09_identity_counterexample.1).2 C09_identity_counterexample.2

/-- `C09_binds_all`, wrapper clause of `wf`: only the last child of a transparent wrapper is matched, `params`
    counts all of them. -/
theorem C09_binds_all_counterexample_wrapper :
    sup (.node "Type::Paren" [] [.tparam "y", .tparam "x"]) (leaf "Foo") = .yes [("x", .ty (leaf "Foo"))] false ∧
    "y" ∈ params (.node "Type::Paren" [] [.tparam "y", .tparam "x"]) ∧
    (lookup [("x", Val.ty (leaf "Foo"))] "y").isSome = false := by decide

/-- `C09_binds_all`, `QSelf` clause of `wf`: children after the type are compared by equality, not matched. -/
theorem C09_binds_all_counterexample_qself :
    sup (.node "QSelf" [] [.tparam "x", .tparam "y"]) (.node "QSelf" [] [.tparam "x", .tparam "y"])
      = .yes [("x", .identity)] false ∧
    "y" ∈ params (.node "QSelf" [] [.tparam "x", .tparam "y"]) ∧
    (lookup [("x", Val.identity)] "y").isSome = false := by decide

/-- `C09_binds_all`, `Expr::Binary` clause of `wf`: the operator is compared by equality, not matched. -/
theorem C09_binds_all_counterexample_binary :
    sup (.node "Expr::Binary" [] [.eparam "o", leaf "L", leaf "R", leaf "A"])
        (.node "Expr::Binary" [] [.eparam "o", leaf "L", leaf "R", leaf "A"]) = .yes [] false ∧
    "o" ∈ params (.node "Expr::Binary" [] [.eparam "o", leaf "L", leaf "R", leaf "A"]) := by decide

theorem C09_binds_all_unconditional_false :
    ¬ ∀ (a b : T) (σ : Subst), sup a b = .yes σ false → ∀ n ∈ params a, (lookup σ n).isSome = true :=
  fun h => by
    have := h _ _ _ C09_binds_all_counterexample_wrapper.1 "y" C09_binds_all_counterexample_wrapper.2.1
    rw [C09_binds_all_counterexample_wrapper.2.2] at this
    cases this

/-- `C09_sound`, hypothesis `ignFaces`: an `Ign` child on the left matches anything. -/
theorem C09_sound_counterexample_ign :
    sup (leaf "Ign") (.tparam "x") = .yes [] false ∧
    erase (inst [] (leaf "Ign")) ≠ erase (.tparam "x") := by decide

/-- `C09_sound`, `IgnL` clause of `wf`: a parameter beneath an `IgnL` child is compared, not instantiated. -/
theorem C09_sound_counterexample_ignL :
    sup (.node "X" [] [.tparam "x", .node "IgnL" [] [.tparam "x"]])
        (.node "X" [] [leaf "Foo", .node "IgnL" [] [.tparam "x"]]) = .yes [("x", .ty (leaf "Foo"))] false ∧
    erase (inst [("x", .ty (leaf "Foo"))] (.node "X" [] [.tparam "x", .node "IgnL" [] [.tparam "x"]]))
      ≠ erase (.node "X" [] [leaf "Foo", .node "IgnL" [] [.tparam "x"]]) := by decide

/-- `C09_sound`, atom clause of `wf`: the `Pat::Wild` arm (likewise `QSelf`, `Expr::Binary`, `OptWild`) does
    not compare atoms. -/
theorem C09_sound_counterexample_atoms :
    sup (.node "Pat::Wild" ["x"] []) (.node "Pat::Wild" ["y"] []) = .yes [] false ∧
    erase (inst [] (.node "Pat::Wild" ["x"] [])) ≠ erase (.node "Pat::Wild" ["y"] []) := by decide

theorem C09_sound_counterexample_atoms_qself :
    sup (.node "QSelf" ["x"] [leaf "A"]) (.node "QSelf" ["y"] [leaf "A"]) = .yes [] false ∧
    erase (inst [] (.node "QSelf" ["x"] [leaf "A"])) ≠ erase (.node "QSelf" ["y"] [leaf "A"]) := by decide

theorem C09_sound_counterexample_atoms_binary :
    sup (.node "Expr::Binary" ["x"] [leaf "O", leaf "L", leaf "R", leaf "A"])
        (.node "Expr::Binary" ["y"] [leaf "O", leaf "L", leaf "R", leaf "A"]) = .yes [] false ∧
    erase (inst [] (.node "Expr::Binary" ["x"] [leaf "O", leaf "L", leaf "R", leaf "A"]))
      ≠ erase (.node "Expr::Binary" ["y"] [leaf "O", leaf "L", leaf "R", leaf "A"]) := by decide

theorem C09_sound_counterexample_atoms_optwild :
    sup (.node "OptWild" ["x"] [leaf "A"]) (.node "OptWild" ["y"] [leaf "A"]) = .yes [] false ∧
    erase (inst [] (.node "OptWild" ["x"] [leaf "A"])) ≠ erase (.node "OptWild" ["y"] [leaf "A"]) := by decide

/-- `C09_sound`, `QSelf` clause of `wf`: a parameter after the type of a `QSelf` is bound by a later sibling. -/
theorem C09_sound_counterexample_qself :
    sup (.node "X" [] [.node "QSelf" [] [.tparam "x", .tparam "y"], .tparam "y"])
        (.node "X" [] [.node "QSelf" [] [.tparam "x", .tparam "y"], leaf "Foo"])
      = .yes [("x", .identity), ("y", .ty (leaf "Foo"))] false ∧
    erase (inst [("x", .identity), ("y", .ty (leaf "Foo"))]
        (.node "X" [] [.node "QSelf" [] [.tparam "x", .tparam "y"], .tparam "y"]))
      ≠ erase (.node "X" [] [.node "QSelf" [] [.tparam "x", .tparam "y"], leaf "Foo"]) := by decide

/-- `C09_sound`, `Expr::Binary` clause of `wf`: a parameter as operator is bound by a later sibling. -/
theorem C09_sound_counterexample_binary_op :
    sup (.node "X" [] [.node "Expr::Binary" [] [.eparam "o", leaf "L", leaf "R", leaf "A"], .eparam "o"])
        (.node "X" [] [.node "Expr::Binary" [] [.eparam "o", leaf "L", leaf "R", leaf "A"], leaf "Foo"])
      = .yes [("o", .ex (leaf "Foo"))] false ∧
    erase (inst [("o", .ex (leaf "Foo"))]
        (.node "X" [] [.node "Expr::Binary" [] [.eparam "o", leaf "L", leaf "R", leaf "A"], .eparam "o"]))
      ≠ erase (.node "X" [] [.node "Expr::Binary" [] [.eparam "o", leaf "L", leaf "R", leaf "A"], leaf "Foo"]) := by
  decide

theorem C09_sound_unconditional_false :
    ¬ ∀ (a b : T) (σ : Subst), sup a b = .yes σ false → erase (inst σ a) = erase b := fun h =>
  C09_sound_counterexample_ign.2 (h _ _ _ C09_sound_counterexample_ign.1)

/-- the side conditions are not vacuous: `(_ŠČ0, Vec<_ŠČ0>)`-like shapes with an `Ign` child and a wrapper -/
example :
    let a : T := .node "Type::Tuple" [] [.node "Ign" [] [leaf "A1"], .tparam "_ŠČ0",
      .node "Type::Paren" [] [.node "Type::Ref" ["mut"] [.tparam "_ŠČ0"]]]
    let b : T := .node "Type::Paren" [] [.node "Type::Tuple" [] [.node "Ign" [] [leaf "A2"], leaf "u8",
      .node "Type::Ref" ["mut"] [.node "Type::Group" [] [leaf "u8"]]]]
    wf a = true ∧ wf b = true ∧ ignFaces a (stripTop b) = true ∧ noConstParam b = true ∧
    sup a b = .yes [("_ŠČ0", .ty (leaf "u8"))] false := by decide

/-! ### Completeness: every hypothesis of `C09_complete_partial` is needed -/

/-- `coherent`: one name used for a type parameter left in place and for a const argument -/
theorem C09_complete_counterexample_coherent :
    let a : T := .node "X" [] [.tparam "n", .node "GenericArgument::Type" [] [.tparam "n"]]
    let b : T := .node "X" [] [.tparam "n", .node "GenericArgument::Const" [] [leaf "E"]]
    let θ : Subst := [("n", .ex (leaf "E"))]
    frag θ a = true ∧ plain b = true ∧ erase (inst θ a) = erase b ∧ coherent θ a = false ∧ sup a b = .no := by
  decide

/-- `coherent`: a parameter that also occurs as a trait path (non-type position) must not be moved -/
theorem C09_complete_counterexample_coherent_path :
    let pth : T := .node "Path" [] [.node "IgnL" [] [leaf "None"],
      .node "List" [] [.node "PathSegment" [] [.node "Ident" ["_ŠČ0"] [], leaf "PathArguments::None"]]]
    let a : T := .node "X" [] [pth, .tparam "_ŠČ0"]
    let b : T := .node "X" [] [pth, leaf "u8"]
    let θ : Subst := [("_ŠČ0", .ty (leaf "u8"))]
    frag θ a = true ∧ plain b = true ∧ erase (inst θ a) = erase b ∧ coherent θ a = false ∧ sup a b = .no := by
  with_unfolding_all decide

/-- `plain b`: two occurrences of a parameter facing sub-terms equal only modulo presentation (`(u8)` / `u8`) -/
theorem C09_complete_counterexample_plain :
    let a : T := .node "X" [] [.tparam "n", .tparam "n"]
    let b : T := .node "X" [] [.node "Tup" [] [.node "Type::Paren" [] [leaf "u8"]], .node "Tup" [] [leaf "u8"]]
    let θ : Subst := [("n", .ty (.node "Tup" [] [leaf "u8"]))]
    frag θ a = true ∧ coherent θ a = true ∧ plain b = false ∧ erase (inst θ a) = erase b ∧ sup a b = .no ∧
    (∃ σ l, sup a (erase b) = .yes σ l) := by
  refine ⟨by decide, by decide, by decide, by decide, by decide, _, _, (by decide : sup _ _ = .yes [("n", .ty (.node "Tup" [] [leaf "u8"]))] false)⟩

/-- `frag`: a kind whose arm is `unimplemented!()` -/
theorem C09_complete_counterexample_panic :
    frag [] (leaf "Constraint") = false ∧ erase (inst [] (leaf "Constraint")) = erase (leaf "Constraint") ∧
    sup (leaf "Constraint") (leaf "Constraint") = .panic := by decide

/-- `frag`: θ moves a parameter beneath a `QSelf` -/
theorem C09_complete_counterexample_qself :
    let a : T := .node "QSelf" [] [.tparam "n"]
    let θ : Subst := [("n", .ty (leaf "u8"))]
    frag θ a = false ∧ coherent θ a = true ∧ erase (inst θ a) = erase (.node "QSelf" [] [leaf "u8"]) ∧
    sup a (.node "QSelf" [] [leaf "u8"]) = .no := by decide

/-- `frag`: an empty transparent wrapper, a misshaped `Lifetime`, `OptWild` and `Expr::Binary` are rejected
    even against themselves -/
theorem C09_complete_counterexample_shapes :
    (frag [] (leaf "Type::Paren") = false ∧ erase (leaf "Type::Paren") = erase (leaf "Ign") ∧
      sup (leaf "Type::Paren") (leaf "Ign") = .no) ∧
    (frag [] (.node "Lifetime" ["a"] []) = false ∧ sup (.node "Lifetime" ["a"] []) (.node "Lifetime" ["a"] []) = .no) ∧
    (frag [] (leaf "OptWild") = false ∧ sup (leaf "OptWild") (leaf "OptWild") = .no) ∧
    (frag [] (leaf "Expr::Binary") = false ∧ sup (leaf "Expr::Binary") (leaf "Expr::Binary") = .no) := by decide

/-- non-vacuity of `C09_complete_partial`: `(_ŠČ0, &mut (_ŠČ0), <_ŠČ1 as Tr>::A)`-like pattern with an ignored
    child, a wrapper, a `QSelf` whose parameter stays, and a repeated parameter -/
example :
    let a : T := .node "Type::Tuple" [] [.node "Ign" [] [leaf "A1"], .tparam "_ŠČ0",
      .node "Type::Paren" [] [.node "Type::Ref" ["mut"] [.tparam "_ŠČ0"]],
      .node "Type::Path" [] [.node "QSelf" [] [.tparam "_ŠČ1", leaf "1"], leaf "P"]]
    let b : T := .node "Type::Tuple" [] [leaf "Ign", leaf "u8", .node "Type::Ref" ["mut"] [leaf "u8"],
      .node "Type::Path" [] [.node "QSelf" [] [.tparam "_ŠČ1", leaf "1"], leaf "P"]]
    let θ : Subst := [("_ŠČ0", .ty (leaf "u8"))]
    frag θ a = true ∧ coherent θ a = true ∧ plain b = true ∧ erase (inst θ a) = erase b ∧
    sup a b = .yes [("_ŠČ0", .ty (leaf "u8")), ("_ŠČ1", .identity)] false := by decide

end Counterexamples


/-! ## The source's field schema (regenerated facts)

`MatchFacts.lean` is regenerated from /repo/src/superset.rs, /repo/src/superset/*.rs and the pinned syn sources on every run of
the check; `MatchSchema.lean` is the schema the model (and the decoder) assume. -/

/-- every non-punctuation field of every syn struct with an `impl Superset` is mentioned by its `is_superset`, except exactly
    the fields the model treats as ignored (`MatchSchema.supersetIgnored`: presentation, the two lenient findings, `unimplemented!()` arms) -/
theorem C09_every_field_examined :
    MatchSchema.unexamined MatchFacts.supersetMentions = MatchSchema.supersetIgnored := by decide +kernel

/-- the set of types with an `impl Superset` is the one the model covers -/
theorem C09_superset_impls : MatchFacts.supersetMentions.map Prod.fst = MatchSchema.supersetImpls := by decide +kernel

end DI
