import DisjointImpls.Match
namespace DI
theorem C09_placeholder : sup (.tparam "_ŠČ0") (.tparam "_ŠČ0") = .yes [("_ŠČ0", .identity)] false := by
  decide
end DI
