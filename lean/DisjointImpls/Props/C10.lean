/-
  C10 — reverse substitution (`Substitutions::substitute`, model `RevSub.lean`): property theorems.
  All proofs are in `Lemmas/RevSubLemmas.lean`; this file only states the properties, the
  counterexamples showing that each hypothesis of `C10_roundtrip` is needed, and D13.

  `Untouched σ t` (`untouched σ t = true`, executable) follows the recursion of `revSub (reverseMap σ)`:
  nothing is required below a sub-term that is replaced by parameters; a parameter that is reached and
  left in place must be fixed by σ (unbound, `identity`, or bound to itself); a child kept verbatim
  (`Ign`, `IgnL`, `Eq`) must be invariant under σ; a parameter left in place as the lone generic type
  argument `GenericArgument::Type [] [tparam n]` must not be bound to a const value.
-/
import DisjointImpls.Lemmas.RevSubLemmas
import DisjointImpls.Lemmas.RevSubExact
import DisjointImpls.MatchSchema
import DisjointImpls.Group
namespace DI

/-! ## Theorems -/

/-- the result is never empty -/
theorem C10_nonempty (rm : RevMap) (t : T) : revSub rm t ≠ [] := revSub_ne_nil rm t

theorem C10_bound_nonempty (σ : Subst) (b tr : T) : substituteBound σ b tr ≠ [] := by
  obtain ⟨x, hx⟩ := List.exists_mem_of_ne_nil _ (revSub_ne_nil (reverseMap σ) b)
  obtain ⟨y, hy⟩ := List.exists_mem_of_ne_nil _ (revSub_ne_nil (reverseMap σ) tr)
  apply List.ne_nil_of_mem (a := (x, y))
  simp only [substituteBound, List.mem_flatMap, List.mem_map]
  exact ⟨x, hx, y, hy, rfl⟩

/-- under a substitution whose values are all `identity` the bound is returned unchanged -/
theorem C10_identity (σ : Subst) (h : allIdentity σ = true) (t : T) : revSub (reverseMap σ) t = [t] :=
  revSub_of_no_hit _ (fun _ hv => reverseMap_find_identity h hv) t

theorem C10_bound_identity (σ : Subst) (h : allIdentity σ = true) (b tr : T) :
    substituteBound σ b tr = [(b, tr)] := by
  simp [substituteBound, C10_identity σ h]

/-- substituting the parameters back yields the original term: for a substitution with distinct keys, every
    re-expression `r` of `t` satisfies `inst σ r = t`, provided the parameters of `t` that were left in place
    are fixed by σ -/
theorem C10_roundtrip (σ : Subst) (hσ : (σ.map Prod.fst).Nodup) (t : T) (hfix : Untouched σ t) :
    ∀ r ∈ revSub (reverseMap σ) t, inst σ r = t :=
  roundtrip_all hσ t hfix

theorem C10_bound_roundtrip (σ : Subst) (hσ : (σ.map Prod.fst).Nodup) (b tr : T)
    (hb : Untouched σ b) (ht : Untouched σ tr) :
    ∀ p ∈ substituteBound σ b tr, inst σ p.1 = b ∧ inst σ p.2 = tr := by
  intro p hp
  simp only [substituteBound, List.mem_flatMap, List.mem_map] at hp
  obtain ⟨x, hx, y, hy, rfl⟩ := hp
  exact ⟨C10_roundtrip σ hσ b hb x hx, C10_roundtrip σ hσ tr ht y hy⟩

/-- exactly one re-expression per choice: the results are pairwise distinct -/
theorem C10_nodup (σ : Subst) (hσ : (σ.map Prod.fst).Nodup) (t : T) : (revSub (reverseMap σ) t).Nodup :=
  revSub_nodup hσ t

/-! ## Counterexamples -/

section Counterexamples
set_option maxRecDepth 8000

private def leaf (s : String) : T := .node s [] []

/-- D13: a parameter bound by `identity` is not offered as an alternative -/
theorem C10_identity_alias_counterexample :
    revSub (reverseMap [("_ŠČ0", .identity), ("_ŠČ1", .ty (.tparam "_ŠČ0"))]) (.tparam "_ŠČ0") = [.tparam "_ŠČ1"] := by
  decide

/-- D4, `Untouched` is needed: a bound outside the image of σ — the parameter is left in place and σ
    re-binds it. -/
theorem C10_roundtrip_counterexample_untouched :
    let σ : Subst := [("_ŠČ0", .ty (leaf "u8"))]
    (σ.map Prod.fst).Nodup ∧ untouched σ (.tparam "_ŠČ0") = false ∧
    revSub (reverseMap σ) (.tparam "_ŠČ0") = [.tparam "_ŠČ0"] ∧ inst σ (.tparam "_ŠČ0") ≠ .tparam "_ŠČ0" := by
  decide

/-- the generic-argument clause of `Untouched` is needed: `tyFixed` alone accepts a type parameter bound to
    a const value, but `inst` turns the argument it stands in into a const argument. -/
theorem C10_roundtrip_counterexample_const_arg :
    let σ : Subst := [("_ŠČ0", .ex (leaf "E"))]
    let t : T := .node "GenericArgument::Type" [] [.tparam "_ŠČ0"]
    (σ.map Prod.fst).Nodup ∧ tyFixed σ "_ŠČ0" = true ∧ untouched σ t = false ∧
    revSub (reverseMap σ) t = [t] ∧ inst σ t ≠ t := by
  with_unfolding_all decide

/-- distinct keys are needed: with a key bound twice `lookup` sees the first binding only. -/
theorem C10_roundtrip_counterexample_keys :
    let σ : Subst := [("_ŠČ0", .ty (leaf "Type::A")), ("_ŠČ0", .ty (leaf "Type::B"))]
    untouched σ (leaf "Type::B") = true ∧
    revSub (reverseMap σ) (leaf "Type::B") = [.tparam "_ŠČ0"] ∧ inst σ (.tparam "_ŠČ0") ≠ leaf "Type::B" := by
  with_unfolding_all decide

/-- a child kept verbatim must be invariant: parameters beneath `Ign` are not rewritten but `inst` reaches them. -/
theorem C10_roundtrip_counterexample_verbatim :
    let σ : Subst := [("_ŠČ0", .ty (leaf "u8"))]
    let t : T := .node "Ign" [] [.tparam "_ŠČ0"]
    (σ.map Prod.fst).Nodup ∧ untouched σ t = false ∧ revSub (reverseMap σ) t = [t] ∧ inst σ t ≠ t := by
  with_unfolding_all decide

/-- non-vacuity: the header pair `(_ŠČ0, _ŠČ1)` against `(Vec<_ŠČ0>, Vec<_ŠČ0>)` (a non-injective σ) and the bound
    `Option<Vec<_ŠČ0>>`: two re-expressions, both instantiate back to the bound. -/
example :
    let vec : T := .node "Type::Path" [] [leaf "None", .node "Path" [] [.node "IgnL" [] [leaf "None"],
      .node "List" [] [.node "PathSegment" [] [.node "Ident" ["Vec"] [],
        .node "PathArguments::AngleBracketed" [] [.node "List" [] [.node "GenericArgument::Type" [] [.tparam "_ŠČ0"]]]]]]]
    let opt (x : T) : T := .node "Type::Path" [] [leaf "None", .node "Path" [] [.node "IgnL" [] [leaf "None"],
      .node "List" [] [.node "PathSegment" [] [.node "Ident" ["Option"] [],
        .node "PathArguments::AngleBracketed" [] [.node "List" [] [.node "GenericArgument::Type" [] [x]]]]]]]
    let σ : Subst := [("_ŠČ0", .ty vec), ("_ŠČ1", .ty vec)]
    sup (.node "Type::Tuple" [] [.tparam "_ŠČ0", .tparam "_ŠČ1"]) (.node "Type::Tuple" [] [vec, vec]) = .yes σ false ∧
    (σ.map Prod.fst).Nodup ∧ untouched σ (opt vec) = true ∧
    revSub (reverseMap σ) (opt vec) = [opt (.tparam "_ŠČ0"), opt (.tparam "_ŠČ1")] ∧
    inst σ (opt (.tparam "_ŠČ0")) = opt vec ∧ inst σ (opt (.tparam "_ŠČ1")) = opt vec := by
  with_unfolding_all decide

end Counterexamples


/-! ## The source's field schema (regenerated facts) -/

/-- every non-punctuation field of every syn struct with an `impl Substitute` is mentioned or rebuilt by its `substitute`, except
    exactly the fields the model keeps verbatim (`MatchSchema.substituteVerbatim`: attributes, operators, names, flags, literals) -/
theorem C10_every_field_rewritten :
    MatchSchema.unexamined MatchFacts.substituteMentions = MatchSchema.substituteVerbatim := by decide +kernel

/-- the set of types with an `impl Substitute` is the one the model covers -/
theorem C10_substitute_impls : MatchFacts.substituteMentions.map Prod.fst = MatchSchema.substituteImpls := by decide +kernel


/-! ## Exactness: reverse substitution produces EXACTLY the re-expressions, one per way of choosing

  Proofs in `Lemmas/RevSubExact.lean`. The vocabulary:

  * `offered_rx σ v : List String` — the parameters OFFERED for a value `v`: those with an explicit entry `(p, v)` in σ, in
    insertion order. For distinct keys (`C09_functional`) these are exactly the parameters bound to `v`
    (`C10_offered_iff_bound`). A parameter with an `identity` entry is offered for nothing (finding D13, below).
  * `IsReexpr_rx σ t r` — the declarative specification "`r` is a re-expression of `t`", defined by recursion on `t`
    (`C10_reexpr_*` below spell out every case): going down from the root,
      - a type parameter `tparam n` is looked up as the value `.ty (.tparam n)`, a const parameter `eparam n` as
        `.ex (.eparam n)`, a node whose kind starts with `Type::` as `.ty node`, a node whose kind starts with `Expr::`
        as `.ex node`; if something is offered for it, `r` is ONE of the offered parameters (`tparam p` resp. `eparam p`)
        and nothing below is looked at (outermost occurrence wins);
      - if nothing is offered, a parameter stays; `Ign`/`IgnL`/`Eq` nodes stay verbatim (nothing below is looked at);
        every other node keeps kind and atoms and its children are re-expressed independently, position by position
        (`IsReexprL_rx`);
      - nodes of any other kind (paths, segments, generic arguments, lists, …) are never replaced as a whole.
  * `reexprCount_rx σ t : Nat` — the product, over the outermost replaced sub-terms, of the number of offered parameters.
  * `isReexpr_rx σ t r : Bool` — an executable checker of `IsReexpr_rx` that does not call `revSub`.

  None of the exactness theorems needs a side condition on σ (the reverse map answers a query with exactly
  `offered_rx σ v`, `reverseMap_find_eq_rx`); distinct keys are needed only to read "offered" as "bound" and for
  `C10_nodup`. -/

/-- for a substitution with distinct keys the parameters offered for a value are exactly the parameters bound to it -/
theorem C10_offered_iff_bound (σ : Subst) (hσ : (σ.map Prod.fst).Nodup) (v : Val) (p : String) :
    p ∈ offered_rx σ v ↔ lookup σ p = some v :=
  mem_offered_iff_lookup_rx hσ

/-- the reverse map built by the code answers a query for `v` with exactly the parameters offered for `v` -/
theorem C10_reverse_map (σ : Subst) (v : Val) :
    RevMap.find (reverseMap σ) v = if offered_rx σ v = [] then none else some (offered_rx σ v) :=
  reverseMap_find_eq_rx σ v

/-- **Exactness.** The results of reverse substitution are exactly the re-expressions: nothing is missing and nothing
    else is produced. No side condition. -/
theorem C10_exact (σ : Subst) (t r : T) : r ∈ revSub (reverseMap σ) t ↔ IsReexpr_rx σ t r :=
  mem_revSub_reverseMap_iff_rx σ t r

/-- the executable checker decides the specification, hence membership in the result -/
theorem C10_exact_exec (σ : Subst) (t r : T) : isReexpr_rx σ t r = true ↔ r ∈ revSub (reverseMap σ) t := by
  rw [isReexpr_iff_rx, C10_exact]

/-- **Count.** The number of results is the product, over the outermost replaced sub-terms, of the number of parameters
    offered for them. No side condition. -/
theorem C10_count (σ : Subst) (t : T) : (revSub (reverseMap σ) t).length = reexprCount_rx σ t :=
  length_revSub_reverseMap_rx σ t

/-- **Exactly one re-expression per way of choosing, and nothing else**: for distinct keys the result list has no
    repetition, its members are exactly the re-expressions, and its length is the number of ways of choosing. -/
theorem C10_exactly_one_per_choice (σ : Subst) (hσ : (σ.map Prod.fst).Nodup) (t : T) :
    (revSub (reverseMap σ) t).Nodup ∧ (∀ r, r ∈ revSub (reverseMap σ) t ↔ IsReexpr_rx σ t r) ∧
      (revSub (reverseMap σ) t).length = reexprCount_rx σ t :=
  ⟨C10_nodup σ hσ t, C10_exact σ t, C10_count σ t⟩

/-- a `(Bounded, TraitBound)` pair: exactly the pairs of re-expressions -/
theorem C10_bound_exact (σ : Subst) (b tr : T) (p : T × T) :
    p ∈ substituteBound σ b tr ↔ IsReexpr_rx σ b p.1 ∧ IsReexpr_rx σ tr p.2 :=
  mem_substituteBound_iff_rx σ b tr p

theorem C10_bound_count (σ : Subst) (b tr : T) :
    (substituteBound σ b tr).length = reexprCount_rx σ b * reexprCount_rx σ tr :=
  length_substituteBound_rx σ b tr

theorem C10_bound_nodup (σ : Subst) (hσ : (σ.map Prod.fst).Nodup) (b tr : T) : (substituteBound σ b tr).Nodup :=
  substituteBound_nodup_rx hσ b tr

/-- every re-expression instantiates back to the term (soundness of the specification; side conditions of
    `C10_roundtrip`) -/
theorem C10_reexpr_roundtrip (σ : Subst) (hσ : (σ.map Prod.fst).Nodup) (t : T) (hfix : Untouched σ t) (r : T)
    (h : IsReexpr_rx σ t r) : inst σ r = t :=
  C10_roundtrip σ hσ t hfix r ((C10_exact σ t r).2 h)

/-- under an all-`identity` substitution the only re-expression is the term itself -/
theorem C10_exact_identity (σ : Subst) (h : allIdentity σ = true) (t r : T) : IsReexpr_rx σ t r ↔ r = t := by
  rw [← C10_exact, C10_identity σ h t, List.mem_singleton]

/-! ### The specification, case by case -/

/-- a type parameter: replaced by one of the parameters offered for it, kept if nothing is offered -/
theorem C10_reexpr_tparam (σ : Subst) (n : String) (r : T) :
    IsReexpr_rx σ (.tparam n) r ↔
      if offered_rx σ (.ty (.tparam n)) = [] then r = .tparam n
      else ∃ p, p ∈ offered_rx σ (.ty (.tparam n)) ∧ r = .tparam p :=
  isReexprBy_tparam_rx _ n r

/-- a const parameter -/
theorem C10_reexpr_eparam (σ : Subst) (n : String) (r : T) :
    IsReexpr_rx σ (.eparam n) r ↔
      if offered_rx σ (.ex (.eparam n)) = [] then r = .eparam n
      else ∃ p, p ∈ offered_rx σ (.ex (.eparam n)) ∧ r = .eparam p :=
  isReexprBy_eparam_rx _ n r

/-- a type-kind node: replaced as a whole by one of the parameters offered for it as a `.ty` value, otherwise rebuilt from
    re-expressed children -/
theorem C10_reexpr_type_node (σ : Subst) (k : String) (as : List String) (ks : List T) (r : T)
    (hT : isTypeKind k = true) :
    IsReexpr_rx σ (.node k as ks) r ↔
      if offered_rx σ (.ty (.node k as ks)) = [] then ∃ rs, r = .node k as rs ∧ IsReexprL_rx σ ks rs
      else ∃ p, p ∈ offered_rx σ (.ty (.node k as ks)) ∧ r = .tparam p :=
  isReexprBy_node_ty_rx as ks r hT

/-- an expression-kind node: the same with `.ex` values and const parameters -/
theorem C10_reexpr_expr_node (σ : Subst) (k : String) (as : List String) (ks : List T) (r : T)
    (hT : isTypeKind k = false) (hE : isExprKind k = true) :
    IsReexpr_rx σ (.node k as ks) r ↔
      if offered_rx σ (.ex (.node k as ks)) = [] then ∃ rs, r = .node k as rs ∧ IsReexprL_rx σ ks rs
      else ∃ p, p ∈ offered_rx σ (.ex (.node k as ks)) ∧ r = .eparam p :=
  isReexprBy_node_ex_rx as ks r hT hE

/-- `Ign` / `IgnL` / `Eq` nodes are kept verbatim -/
theorem C10_reexpr_verbatim_node (σ : Subst) (k : String) (as : List String) (ks : List T) (r : T)
    (hT : isTypeKind k = false) (hE : isExprKind k = false) (hV : isVerbatimKind k = true) :
    IsReexpr_rx σ (.node k as ks) r ↔ r = .node k as ks :=
  isReexprBy_node_verbatim_rx as ks r hT hE hV

/-- a node of any other kind is never replaced as a whole (whatever σ contains): only its children are re-expressed -/
theorem C10_reexpr_other_node (σ : Subst) (k : String) (as : List String) (ks : List T) (r : T)
    (hT : isTypeKind k = false) (hE : isExprKind k = false) (hV : isVerbatimKind k = false) :
    IsReexpr_rx σ (.node k as ks) r ↔ ∃ rs, r = .node k as rs ∧ IsReexprL_rx σ ks rs :=
  isReexprBy_node_other_rx as ks r hT hE hV

/-- children: position by position, independently -/
theorem C10_reexpr_children_nil (σ : Subst) (rs : List T) : IsReexprL_rx σ [] rs ↔ rs = [] :=
  isReexprByL_nil_rx _ rs

theorem C10_reexpr_children_cons (σ : Subst) (t : T) (ts rs : List T) :
    IsReexprL_rx σ (t :: ts) rs ↔ ∃ r rs', rs = r :: rs' ∧ IsReexpr_rx σ t r ∧ IsReexprL_rx σ ts rs' :=
  isReexprByL_cons_rx _ t ts rs

/-- children, pointwise: the same number of children, and every child a re-expression of the child at its position -/
theorem C10_reexpr_children_pointwise (σ : Subst) (ks rs : List T) :
    IsReexprL_rx σ ks rs ↔
      rs.length = ks.length ∧ ∀ (i : Nat) (h1 : i < ks.length) (h2 : i < rs.length), IsReexpr_rx σ ks[i] rs[i] :=
  isReexprByL_iff_getElem_rx ks rs

/-! ### The count, case by case -/

theorem C10_count_tparam (σ : Subst) (n : String) :
    reexprCount_rx σ (.tparam n) =
      if offered_rx σ (.ty (.tparam n)) = [] then 1 else (offered_rx σ (.ty (.tparam n))).length :=
  reexprCount_tparam_rx σ n

theorem C10_count_eparam (σ : Subst) (n : String) :
    reexprCount_rx σ (.eparam n) =
      if offered_rx σ (.ex (.eparam n)) = [] then 1 else (offered_rx σ (.ex (.eparam n))).length :=
  reexprCount_eparam_rx σ n

/-- a replaced node counts the parameters offered for it, a verbatim node counts 1, every other node the product of the
    counts of its children (`reexprCountL_rx`) -/
theorem C10_count_node (σ : Subst) (k : String) (as : List String) (ks : List T) :
    reexprCount_rx σ (.node k as ks) =
      if isTypeKind k then
        if offered_rx σ (.ty (.node k as ks)) = [] then reexprCountL_rx σ ks
        else (offered_rx σ (.ty (.node k as ks))).length
      else if isExprKind k then
        if offered_rx σ (.ex (.node k as ks)) = [] then reexprCountL_rx σ ks
        else (offered_rx σ (.ex (.node k as ks))).length
      else if isVerbatimKind k then 1
      else reexprCountL_rx σ ks :=
  reexprCount_node_rx σ k as ks

theorem C10_count_children_nil (σ : Subst) : reexprCountL_rx σ [] = 1 := reexprCountL_nil_rx σ

theorem C10_count_children_cons (σ : Subst) (t : T) (ts : List T) :
    reexprCountL_rx σ (t :: ts) = reexprCount_rx σ t * reexprCountL_rx σ ts :=
  reexprCountL_cons_rx σ t ts

/-- there is always at least one way of choosing -/
theorem C10_count_pos (σ : Subst) (t : T) : 0 < reexprCount_rx σ t := reexprCount_pos_rx σ t

/-- the `subs.is_empty()` branches of the `Substitute` impls (model: `ns.isEmpty`) are dead: the reverse map never
    answers with an empty list -/
theorem C10_empty_hit_dead (σ : Subst) (v : Val) : RevMap.find (reverseMap σ) v ≠ some [] :=
  reverseMap_no_empty_hit_rx σ v

/-! ### Deviations of the code from the naive reading "all ways of writing the bound over the general parameters"

  Each deviation has a decided counterexample (a term `r` with `inst σ r = t` that is NOT produced) and the corrected
  statement that is true of the code. -/

/-- (a) D13, corrected statement, part 1: everything the code produces is a re-expression in the naive reading, in which a
    parameter with an `identity` entry is also offered for itself (`IsReexprNaive_rx`, offer `offeredNaive_rx`) -/
theorem C10_naive_of_exact (σ : Subst) (t r : T) (h : r ∈ revSub (reverseMap σ) t) : IsReexprNaive_rx σ t r :=
  isReexprNaive_of_isReexpr_rx σ t r ((C10_exact σ t r).1 h)

/-- (a) D13, part 2: if no parameter with an `identity` entry is the value of another parameter (`noIdentityAlias_rx`,
    executable) the code produces exactly the naive re-expressions -/
theorem C10_exact_naive_partial (σ : Subst) (h : noIdentityAlias_rx σ = true) (t r : T) :
    r ∈ revSub (reverseMap σ) t ↔ IsReexprNaive_rx σ t r := by
  rw [C10_exact, isReexprNaive_iff_of_noAlias_rx h]

/-- (a) D13, part 3: the side condition is necessary — with distinct keys, an aliased identity parameter always loses a
    naive re-expression: the parameter itself, left in place (which instantiates back to itself) -/
theorem C10_identity_alias_loses (σ : Subst) (hσ : (σ.map Prod.fst).Nodup) (h : noIdentityAlias_rx σ = false) :
    ∃ t, IsReexprNaive_rx σ t t ∧ t ∉ revSub (reverseMap σ) t ∧ inst σ t = t := by
  obtain ⟨t, h1, h2, h3⟩ := exists_lost_of_alias_rx hσ h
  exact ⟨t, h1, fun hm => h2 ((C10_exact σ t t).1 hm), h3⟩

/-- (b) outermost wins, corrected statement: a type-kind node for which something is offered is replaced as a whole by
    exactly the offered parameters, in insertion order; values occurring inside it are not rewritten -/
theorem C10_outermost_wins_type (σ : Subst) (k : String) (as : List String) (ks : List T)
    (hT : isTypeKind k = true) (h : offered_rx σ (.ty (.node k as ks)) ≠ []) :
    revSub (reverseMap σ) (.node k as ks) = (offered_rx σ (.ty (.node k as ks))).map .tparam :=
  revSub_reverseMap_ty_hit_rx σ as ks hT h

theorem C10_outermost_wins_expr (σ : Subst) (k : String) (as : List String) (ks : List T)
    (hT : isTypeKind k = false) (hE : isExprKind k = true) (h : offered_rx σ (.ex (.node k as ks)) ≠ []) :
    revSub (reverseMap σ) (.node k as ks) = (offered_rx σ (.ex (.node k as ks))).map .eparam :=
  revSub_reverseMap_ex_hit_rx σ as ks hT hE h

/-- (c)+(d) kinds, corrected statement: the value `v` of an entry `(p, .ty v)`, taken as a term, is re-expressed by `p`
    exactly if `v` is a type parameter or a type-kind node (`tyReplaceable_rx`); a `.ty` value that is an
    expression-kind node or a node of another kind (a path, a generic argument, …) is never recognised -/
theorem C10_value_reexpressed_type (σ : Subst) (p : String) (v : T) (h : (p, Val.ty v) ∈ σ) :
    .tparam p ∈ revSub (reverseMap σ) v ↔ tyReplaceable_rx v = true :=
  tparam_mem_revSub_value_rx h

/-- (c)+(d) the same for `.ex` values: recognised exactly on const parameters and expression-kind nodes -/
theorem C10_value_reexpressed_expr (σ : Subst) (p : String) (v : T) (h : (p, Val.ex v) ∈ σ) :
    .eparam p ∈ revSub (reverseMap σ) v ↔ exReplaceable_rx v = true :=
  eparam_mem_revSub_value_rx h


/-! ### Closed examples: non-vacuity and the decided counterexamples of the deviations -/

namespace ExC10
/-! trees for the closed examples (shapes as `syn` prints them, as `Ex11` in Props/C11.lean) -/
def leaf (s : String) : T := .node s [] []
def attrs : T := .node "Ign" [] [.node "List" [] []]
def seg (x : String) : T := .node "PathSegment" [] [.node "Ident" [x] [], leaf "PathArguments::None"]
def segArgs (x : String) (args : List T) : T := .node "PathSegment" [] [.node "Ident" [x] [],
  .node "PathArguments::AngleBracketed" [] [.node "Ign" [] [leaf "None"], .node "List" [] args]]
def path (segs : List T) : T := .node "Path" [] [.node "IgnL" [] [leaf "None"], .node "List" [] segs]
def tyPath (segs : List T) : T := .node "Type::Path" [] [leaf "None", path segs]
def tyS (x : String) : T := tyPath [seg x]
def tyArg (x : T) : T := .node "GenericArgument::Type" [] [x]
def constArg (e : T) : T := .node "GenericArgument::Const" [] [e]
/-- `Vec<x>` -/
def vecOf (x : T) : T := tyPath [segArgs "Vec" [tyArg x]]
/-- `Arr<a>` for a generic argument `a` -/
def arrOf (a : T) : T := tyPath [segArgs "Arr" [a]]
/-- the trait path `Tr<x>` -/
def trOf (x : T) : T := path [segArgs "Tr" [tyArg x]]
def tup2 (a b : T) : T := .node "Type::Tuple" [] [.node "List" [] [a, b]]
def lit (n : String) : T := .node "Expr::Lit" [] [attrs, .node "Lit::Int" [] [.node "Atom" [n] []]]
/-- `[elem; len]` -/
def arrayTy (elem len : T) : T := .node "Type::Array" [] [elem, len]
def p0 : T := .tparam "_ŠČ0"
def p1 : T := .tparam "_ŠČ1"
def e0 : T := .eparam "_ŠČ0"
def vec0 : T := vecOf p0
def u8 : T := tyS "u8"
/-- `(_ŠČ0, _ŠČ1)` ⊒ `(Vec<_ŠČ0>, Vec<_ŠČ0>)`: not injective -/
def σvec : Subst := [("_ŠČ0", .ty vec0), ("_ŠČ1", .ty vec0)]
/-- `(_ŠČ0, _ŠČ1)` ⊒ `(Vec<u8>, u8)`: the value of `_ŠČ1` occurs inside the value of `_ŠČ0` -/
def σouter : Subst := [("_ŠČ0", .ty (vecOf u8)), ("_ŠČ1", .ty u8)]
/-- `(_ŠČ0, _ŠČ1)` ⊒ `(_ŠČ0, _ŠČ0)`: the identity-bound `_ŠČ0` is the value of `_ŠČ1` -/
def σalias : Subst := [("_ŠČ0", .identity), ("_ŠČ1", .ty p0)]
/-- `[u8; _ŠČ0]` ⊒ `[u8; 3]` and `Arr<_ŠČ0>` ⊒ `Arr<3>`: a const-expression value -/
def σconst : Subst := [("_ŠČ0", .ex (lit "3"))]
def traitBound (p : T) : T :=
  .node "TypeParamBound::Trait" [] [.node "TraitBound" [] [leaf "None", leaf "TraitBoundModifier::None", leaf "None", p]]
/-- `Dispatch<Group = g>` -/
def dispatch (g : String) : T :=
  path [.node "PathSegment" [] [.node "Ident" ["Dispatch"] [], .node "PathArguments::AngleBracketed" [] [.node "Ign" [] [leaf "None"],
    .node "List" [] [.node "GenericArgument::AssocType" [] [.node "AssocType" [] [.node "Ident" ["Group"] [], leaf "None", tyS g]]]]]]
def tyParam (x : String) (bounds : List T) : T :=
  .node "GenericParam::Type" [] [.node "TypeParam" [] [attrs, .node "Ident" [x] [], leaf "None",
    .node "List" [] bounds, leaf "None", leaf "None"]]
/-- `impl<params> Kita for self where bounded: b {}` -/
def implWhere (params : List T) (self bounded b : T) : T :=
  .node "ItemImpl" [] [attrs, leaf "None", leaf "None",
    .node "Generics" [] [leaf "Some", .node "List" [] params, leaf "Some",
      .node "Some" [] [.node "WhereClause" [] [.node "List" [] [.node "WherePredicate::Type" [] [.node "PredicateType" []
        [leaf "None", bounded, .node "List" [] [traitBound b]]]]]]],
    .node "Some" [] [.node "Tuple" [] [leaf "None", path [seg "Kita"]]], self, .node "List" [] []]
/-- `impl<T> Kita for Arr<T> where Arr<T>: Dispatch<Group = GroupA> {}` -/
def arrGeneral : T := implWhere [tyParam "T" []] (arrOf (tyArg (tyS "T"))) (arrOf (tyArg (tyS "T"))) (dispatch "GroupA")
/-- `impl Kita for Arr<3> where Arr<3>: Dispatch<Group = GroupB> {}` -/
def arrConst : T := implWhere [] (arrOf (constArg (lit "3"))) (arrOf (constArg (lit "3"))) (dispatch "GroupB")
/-- `impl Kita for Arr<u8> where Arr<u8>: Dispatch<Group = GroupB> {}` -/
def arrType : T := implWhere [] (arrOf (tyArg u8)) (arrOf (tyArg u8)) (dispatch "GroupB")
/-- (members, keys) of every family of an accepted grouping -/
def shape : ParseResult → Option (List (Nat × Nat))
  | .ok gs => some (gs.map (fun e => (e.2.2.length, e.2.1.bounds.length)))
  | _ => none
end ExC10

section ExactExamples
open ExC10
set_option maxRecDepth 100000

/-- non-vacuity of `C10_exactly_one_per_choice` / `C10_exact` / `C10_count`: the non-injective header pair
    `(_ŠČ0, _ŠČ1)` ⊒ `(Vec<_ŠČ0>, Vec<_ŠČ0>)` and a bound mentioning `Vec<_ŠČ0>` twice: four re-expressions, first position
    slowest, one per way of choosing; a term with a value left in place is not a re-expression -/
theorem C10_exact_example_four :
    sup (tup2 p0 p1) (tup2 vec0 vec0) = .yes σvec false ∧ (σvec.map Prod.fst).Nodup ∧
    offered_rx σvec (.ty vec0) = ["_ŠČ0", "_ŠČ1"] ∧
    revSub (reverseMap σvec) (tup2 vec0 vec0) = [tup2 p0 p0, tup2 p0 p1, tup2 p1 p0, tup2 p1 p1] ∧
    reexprCount_rx σvec (tup2 vec0 vec0) = 4 ∧
    IsReexpr_rx σvec (tup2 vec0 vec0) (tup2 p1 p0) ∧ ¬ IsReexpr_rx σvec (tup2 vec0 vec0) (tup2 p1 vec0) ∧
    ¬ IsReexpr_rx σvec (tup2 vec0 vec0) (tup2 vec0 vec0) ∧
    Untouched σvec (tup2 vec0 vec0) ∧ noIdentityAlias_rx σvec = true := by
  with_unfolding_all decide

/-- non-vacuity of `C10_bound_exact` / `C10_bound_count`: `Vec<_ŠČ0>: Tr<Vec<_ŠČ0>>` has 2 · 2 re-expressions -/
theorem C10_bound_exact_example :
    substituteBound σvec vec0 (trOf vec0) = [(p0, trOf p0), (p0, trOf p1), (p1, trOf p0), (p1, trOf p1)] ∧
    reexprCount_rx σvec vec0 * reexprCount_rx σvec (trOf vec0) = 4 := by
  with_unfolding_all decide

/-- non-vacuity of `C10_exact_identity`: the identity substitution of `Vec<_ŠČ0>` ⊒ `Vec<_ŠČ0>` -/
example : sup vec0 vec0 = .yes [("_ŠČ0", .identity)] false ∧ allIdentity [("_ŠČ0", .identity)] = true ∧
    IsReexpr_rx [("_ŠČ0", .identity)] (tup2 vec0 p0) (tup2 vec0 p0) ∧
    reexprCount_rx [("_ŠČ0", .identity)] (tup2 vec0 p0) = 1 := by
  with_unfolding_all decide

/-- a const-expression value: `[u8; _ŠČ0]` ⊒ `[u8; 3]`; the bound `Vec<[u8; 3]>` is re-expressed as `Vec<[u8; _ŠČ0]>`
    (also non-vacuity of `C10_exact_naive_partial`, `C10_reexpr_roundtrip`, `C10_value_reexpressed_expr`) -/
theorem C10_exact_example_const :
    sup (arrayTy u8 e0) (arrayTy u8 (lit "3")) = .yes σconst false ∧ (σconst.map Prod.fst).Nodup ∧
    revSub (reverseMap σconst) (vecOf (arrayTy u8 (lit "3"))) = [vecOf (arrayTy u8 e0)] ∧
    IsReexpr_rx σconst (vecOf (arrayTy u8 (lit "3"))) (vecOf (arrayTy u8 e0)) ∧
    reexprCount_rx σconst (vecOf (arrayTy u8 (lit "3"))) = 1 ∧
    Untouched σconst (vecOf (arrayTy u8 (lit "3"))) ∧ inst σconst (vecOf (arrayTy u8 e0)) = vecOf (arrayTy u8 (lit "3")) ∧
    noIdentityAlias_rx σconst = true ∧ ("_ŠČ0", Val.ex (lit "3")) ∈ σconst ∧ exReplaceable_rx (lit "3") = true := by
  with_unfolding_all decide

/-- (a) D13 against the naive reading: `(_ŠČ0, _ŠČ1)` ⊒ `(_ŠČ0, _ŠČ0)`. Naively `_ŠČ0` may stay (`inst σ _ŠČ0 = _ŠČ0`) or become
    `_ŠČ1`; the code offers `_ŠČ1` only, so of the four naive re-expressions of `(_ŠČ0, _ŠČ0)` only `(_ŠČ1, _ŠČ1)` is
    produced (also non-vacuity of `C10_identity_alias_loses`) -/
theorem C10_identity_alias_exact_counterexample :
    sup (tup2 p0 p1) (tup2 p0 p0) = .yes σalias false ∧ (σalias.map Prod.fst).Nodup ∧ noIdentityAlias_rx σalias = false ∧
    offered_rx σalias (.ty p0) = ["_ŠČ1"] ∧ offeredNaive_rx σalias (.ty p0) = ["_ŠČ1", "_ŠČ0"] ∧
    IsReexprNaive_rx σalias p0 p0 ∧ ¬ IsReexpr_rx σalias p0 p0 ∧ p0 ∉ revSub (reverseMap σalias) p0 ∧ inst σalias p0 = p0 ∧
    revSub (reverseMap σalias) (tup2 p0 p0) = [tup2 p1 p1] ∧
    IsReexprNaive_rx σalias (tup2 p0 p0) (tup2 p0 p1) ∧ inst σalias (tup2 p0 p1) = tup2 p0 p0 := by
  with_unfolding_all decide

/-- (b) outermost wins: `(_ŠČ0, _ŠČ1)` ⊒ `(Vec<u8>, u8)`. The bound `Vec<u8>` is re-expressed as `_ŠČ0` only; `Vec<_ŠČ1>`
    instantiates back to `Vec<u8>` too but is not produced, because nothing below a replaced sub-term is looked at
    (also non-vacuity of `C10_outermost_wins_type`, `C10_value_reexpressed_type`) -/
theorem C10_outermost_counterexample :
    sup (tup2 p0 p1) (tup2 (vecOf u8) u8) = .yes σouter false ∧ (σouter.map Prod.fst).Nodup ∧
    isTypeKind "Type::Path" = true ∧ offered_rx σouter (.ty (vecOf u8)) = ["_ŠČ0"] ∧
    revSub (reverseMap σouter) (vecOf u8) = [p0] ∧
    inst σouter (vecOf p1) = vecOf u8 ∧ vecOf p1 ∉ revSub (reverseMap σouter) (vecOf u8) ∧
    ¬ IsReexpr_rx σouter (vecOf u8) (vecOf p1) ∧
    revSub (reverseMap σouter) (tup2 (vecOf u8) u8) = [tup2 p0 p1] ∧
    ("_ŠČ0", Val.ty (vecOf u8)) ∈ σouter ∧ tyReplaceable_rx (vecOf u8) = true := by
  with_unfolding_all decide

/-- (c) kinds: an `.ex` value that is a type-kind node is never recognised (a type-kind node is looked up as `.ty` only),
    although the const parameter instantiates to it -/
theorem C10_kind_counterexample_expr_value :
    let σ : Subst := [("_ŠČ0", .ex (leaf "Type::A"))]
    sup e0 (leaf "Type::A") = .yes σ false ∧ revSub (reverseMap σ) (leaf "Type::A") = [leaf "Type::A"] ∧
    inst σ e0 = leaf "Type::A" ∧ exReplaceable_rx (leaf "Type::A") = false := by
  with_unfolding_all decide

/-- (c) kinds, the other way round: a `.ty` value that is an expression-kind node -/
theorem C10_kind_counterexample_type_value :
    let σ : Subst := [("_ŠČ0", .ty (leaf "Expr::A"))]
    sup p0 (leaf "Expr::A") = .yes σ false ∧ revSub (reverseMap σ) (leaf "Expr::A") = [leaf "Expr::A"] ∧
    inst σ p0 = leaf "Expr::A" ∧ tyReplaceable_rx (leaf "Expr::A") = false := by
  with_unfolding_all decide

/-- (c) kinds on well-kinded trees: the identifier `N` as a type (`Arr<N>`, a `Type::Path` to `syn`) and as an expression
    (`[N; N]`'s length, an `Expr::Path`) are different values; with `_ŠČ0 ↦ .ty N` the element type is rewritten, the
    length is not -/
theorem C10_kind_same_token :
    let σ : Subst := [("_ŠČ0", .ty (tyS "N"))]
    let exprN : T := .node "Expr::Path" [] [attrs, leaf "None", path [seg "N"]]
    sup (arrOf (tyArg p0)) (arrOf (tyArg (tyS "N"))) = .yes σ false ∧
    revSub (reverseMap σ) (arrayTy (tyS "N") exprN) = [arrayTy p0 exprN] := by
  with_unfolding_all decide

/-- (d) a value whose root is neither type-kind nor expression-kind (here a `Path`) is never recognised: such nodes are
    never replaced as a whole (`C10_reexpr_other_node`). The matcher of the model is untyped and can be made to produce
    such a binding; on trees printed by `syn` a type parameter only faces types. -/
theorem C10_nonreplaceable_value_counterexample :
    let σ : Subst := [("_ŠČ0", .ty (path [seg "A"]))]
    sup p0 (path [seg "A"]) = .yes σ false ∧ revSub (reverseMap σ) (path [seg "A"]) = [path [seg "A"]] ∧
    inst σ p0 = path [seg "A"] ∧ tyReplaceable_rx (path [seg "A"]) = false := by
  with_unfolding_all decide

/-- (d) the const generic argument. A TYPE parameter in generic-argument position may bind a const argument:
    `Arr<_ŠČ0>` ⊒ `Arr<3>` with `_ŠČ0 ↦ .ex 3` (path.rs:173-179). The generic argument node itself
    (`GenericArgument::Const [3]`) is neither type- nor expression-kind, so only the expression inside it is replaced:
    the bound `Arr<3>` is re-expressed as `Arr<C>` with `C = GenericArgument::Const [eparam _ŠČ0]`, whereas the general
    header spells the same thing `Arr<GenericArgument::Type [tparam _ŠČ0]>`. Both instantiate back to `Arr<3>` (the round
    trip holds, `Untouched` holds), but they are different trees: the general spelling is not produced, and the produced
    key is not equal (`keyEq`, structural on the bounded type) to the general block's key, so `findKey` misses it. -/
theorem C10_const_argument_spelling :
    let t := arrOf (constArg (lit "3"))
    let r := arrOf (constArg e0)
    let g := arrOf (tyArg p0)
    sup g t = .yes σconst false ∧ (σconst.map Prod.fst).Nodup ∧ Untouched σconst t ∧
    revSub (reverseMap σconst) t = [r] ∧ inst σconst r = t ∧
    inst σconst g = t ∧ g ∉ revSub (reverseMap σconst) t ∧ ¬ IsReexpr_rx σconst t g ∧
    keyEq (g, dispatch "GroupA") (r, dispatch "GroupB") = false ∧
    findKey [((g, dispatch "GroupA"), [[("Group", tyS "GroupA")]])] (r, dispatch "GroupB") = none := by
  with_unfolding_all decide

/-- (d) end to end in the model: `impl<T> Kita for Arr<T> where Arr<T>: Dispatch<Group = GroupA>` followed by
    `impl Kita for Arr<3> where Arr<3>: Dispatch<Group = GroupB>`: the headers nest with `_ŠČ0 ↦ .ex 3`, but the second
    block is NOT folded into the family of the first (two families with one member each), because its re-expressed key
    is not found; with the type argument `Arr<u8>` in place of `Arr<3>` one family with two members results. -/
theorem C10_const_argument_not_folded :
    sup (groupIdOf (mkBlk arrGeneral).item) (groupIdOf (mkBlk arrConst).item) = .yes σconst false ∧
    (mkBlk arrGeneral).raw.map (fun rb => (rb.bounded, rb.tr)) = [(arrOf (tyArg p0), dispatch "GroupA")] ∧
    (mkBlk arrConst).raw.map (fun rb => (rb.bounded, rb.tr)) = [(arrOf (constArg (lit "3")), dispatch "GroupB")] ∧
    shape (parseGroups [arrGeneral, arrConst]) = some [(1, 1), (1, 1)] ∧
    shape (parseGroups [arrGeneral, arrType]) = some [(2, 1)] := by
  with_unfolding_all decide

/-- (e) values are compared syntactically, not modulo presentation: the matcher ignores the contents of `Ign` children
    (here the turbofish `::` of `Vec::<u8>`), the reverse map does not. With `_ŠČ0 ↦ Vec<u8>` the bound `Vec::<u8>` is left
    as it is although it equals the value modulo presentation (`erase`) and the matcher accepts it for `Vec<u8>`. -/
theorem C10_presentation_counterexample :
    let σ : Subst := [("_ŠČ0", .ty (vecOf u8))]
    let turbo : T := tyPath [.node "PathSegment" [] [.node "Ident" ["Vec"] [],
      .node "PathArguments::AngleBracketed" [] [.node "Ign" [] [leaf "Some"], .node "List" [] [tyArg u8]]]]
    sup p0 (vecOf u8) = .yes σ false ∧ sup (vecOf u8) turbo = .yes [] false ∧ erase turbo = erase (vecOf u8) ∧
    revSub (reverseMap σ) turbo = [turbo] ∧ revSub (reverseMap σ) (vecOf u8) = [p0] := by
  with_unfolding_all decide

/-- non-vacuity of the kind hypotheses of `C10_reexpr_*_node`, `C10_outermost_wins_*` -/
example :
    isTypeKind "Type::Path" = true ∧
    (isTypeKind "Expr::Lit" = false ∧ isExprKind "Expr::Lit" = true ∧ offered_rx σconst (.ex (lit "3")) ≠ []) ∧
    (isTypeKind "IgnL" = false ∧ isExprKind "IgnL" = false ∧ isVerbatimKind "IgnL" = true) ∧
    (isTypeKind "GenericArgument::Const" = false ∧ isExprKind "GenericArgument::Const" = false ∧
      isVerbatimKind "GenericArgument::Const" = false) := by
  with_unfolding_all decide

end ExactExamples

end DI
