import DisjointImpls.RevSub
namespace DI
theorem C10_placeholder : revSub [] (.tparam "_ŠČ0") = [.tparam "_ŠČ0"] := by
  decide
end DI
