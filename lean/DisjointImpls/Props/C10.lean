/-
  C10 — reverse substitution (`Substitutions::substitute`, model `RevSub.lean`): property theorems.
  All proofs are in `Lemmas/RevSubLemmas.lean`; this file only states the properties, the
  counterexamples showing that each hypothesis of `C10_roundtrip` is needed, and D13.

  `Untouched σ t` (`untouched σ t = true`, executable) follows the recursion of `revSub (reverseMap σ)`:
  nothing is required below a sub-term that is replaced by parameters; a parameter that is reached and
  left in place must be fixed by σ (unbound, `identity`, or bound to itself); a child kept verbatim
  (`Ign`, `IgnL`, `Eq`) must be invariant under σ; a parameter left in place as the lone generic type
  argument `GenericArgument::Type [] [tparam n]` must not be bound to a const value.
-/
import DisjointImpls.Lemmas.RevSubLemmas
import DisjointImpls.MatchSchema
namespace DI

/-! ## Theorems -/

/-- the result is never empty -/
theorem C10_nonempty (rm : RevMap) (t : T) : revSub rm t ≠ [] := revSub_ne_nil rm t

theorem C10_bound_nonempty (σ : Subst) (b tr : T) : substituteBound σ b tr ≠ [] := by
  obtain ⟨x, hx⟩ := List.exists_mem_of_ne_nil _ (revSub_ne_nil (reverseMap σ) b)
  obtain ⟨y, hy⟩ := List.exists_mem_of_ne_nil _ (revSub_ne_nil (reverseMap σ) tr)
  apply List.ne_nil_of_mem (a := (x, y))
  simp only [substituteBound, List.mem_flatMap, List.mem_map]
  exact ⟨x, hx, y, hy, rfl⟩

/-- under a substitution whose values are all `identity` the bound is returned unchanged -/
theorem C10_identity (σ : Subst) (h : allIdentity σ = true) (t : T) : revSub (reverseMap σ) t = [t] :=
  revSub_of_no_hit _ (fun _ hv => reverseMap_find_identity h hv) t

theorem C10_bound_identity (σ : Subst) (h : allIdentity σ = true) (b tr : T) :
    substituteBound σ b tr = [(b, tr)] := by
  simp [substituteBound, C10_identity σ h]

/-- substituting the parameters back yields the original term: for a substitution with distinct keys, every
    re-expression `r` of `t` satisfies `inst σ r = t`, provided the parameters of `t` that were left in place
    are fixed by σ -/
theorem C10_roundtrip (σ : Subst) (hσ : (σ.map Prod.fst).Nodup) (t : T) (hfix : Untouched σ t) :
    ∀ r ∈ revSub (reverseMap σ) t, inst σ r = t :=
  roundtrip_all hσ t hfix

theorem C10_bound_roundtrip (σ : Subst) (hσ : (σ.map Prod.fst).Nodup) (b tr : T)
    (hb : Untouched σ b) (ht : Untouched σ tr) :
    ∀ p ∈ substituteBound σ b tr, inst σ p.1 = b ∧ inst σ p.2 = tr := by
  intro p hp
  simp only [substituteBound, List.mem_flatMap, List.mem_map] at hp
  obtain ⟨x, hx, y, hy, rfl⟩ := hp
  exact ⟨C10_roundtrip σ hσ b hb x hx, C10_roundtrip σ hσ tr ht y hy⟩

/-- exactly one re-expression per choice: the results are pairwise distinct -/
theorem C10_nodup (σ : Subst) (hσ : (σ.map Prod.fst).Nodup) (t : T) : (revSub (reverseMap σ) t).Nodup :=
  revSub_nodup hσ t

/-! ## Counterexamples -/

section Counterexamples
set_option maxRecDepth 8000

private def leaf (s : String) : T := .node s [] []

/-- D13: a parameter bound by `identity` is not offered as an alternative -/
theorem C10_identity_alias_counterexample :
    revSub (reverseMap [("_ŠČ0", .identity), ("_ŠČ1", .ty (.tparam "_ŠČ0"))]) (.tparam "_ŠČ0") = [.tparam "_ŠČ1"] := by
  decide

/-- D4, `Untouched` is needed: a bound outside the image of σ — the parameter is left in place and σ
    re-binds it. -/
theorem C10_roundtrip_counterexample_untouched :
    let σ : Subst := [("_ŠČ0", .ty (leaf "u8"))]
    (σ.map Prod.fst).Nodup ∧ untouched σ (.tparam "_ŠČ0") = false ∧
    revSub (reverseMap σ) (.tparam "_ŠČ0") = [.tparam "_ŠČ0"] ∧ inst σ (.tparam "_ŠČ0") ≠ .tparam "_ŠČ0" := by
  decide

/-- the generic-argument clause of `Untouched` is needed: `tyFixed` alone accepts a type parameter bound to
    a const value, but `inst` turns the argument it stands in into a const argument. -/
theorem C10_roundtrip_counterexample_const_arg :
    let σ : Subst := [("_ŠČ0", .ex (leaf "E"))]
    let t : T := .node "GenericArgument::Type" [] [.tparam "_ŠČ0"]
    (σ.map Prod.fst).Nodup ∧ tyFixed σ "_ŠČ0" = true ∧ untouched σ t = false ∧
    revSub (reverseMap σ) t = [t] ∧ inst σ t ≠ t := by
  with_unfolding_all decide

/-- distinct keys are needed: with a key bound twice `lookup` sees the first binding only. -/
theorem C10_roundtrip_counterexample_keys :
    let σ : Subst := [("_ŠČ0", .ty (leaf "Type::A")), ("_ŠČ0", .ty (leaf "Type::B"))]
    untouched σ (leaf "Type::B") = true ∧
    revSub (reverseMap σ) (leaf "Type::B") = [.tparam "_ŠČ0"] ∧ inst σ (.tparam "_ŠČ0") ≠ leaf "Type::B" := by
  with_unfolding_all decide

/-- a child kept verbatim must be invariant: parameters beneath `Ign` are not rewritten but `inst` reaches them. -/
theorem C10_roundtrip_counterexample_verbatim :
    let σ : Subst := [("_ŠČ0", .ty (leaf "u8"))]
    let t : T := .node "Ign" [] [.tparam "_ŠČ0"]
    (σ.map Prod.fst).Nodup ∧ untouched σ t = false ∧ revSub (reverseMap σ) t = [t] ∧ inst σ t ≠ t := by
  with_unfolding_all decide

/-- non-vacuity: the header pair `(_ŠČ0, _ŠČ1)` against `(Vec<_ŠČ0>, Vec<_ŠČ0>)` (a non-injective σ) and the bound
    `Option<Vec<_ŠČ0>>`: two re-expressions, both instantiate back to the bound. -/
example :
    let vec : T := .node "Type::Path" [] [leaf "None", .node "Path" [] [.node "IgnL" [] [leaf "None"],
      .node "List" [] [.node "PathSegment" [] [.node "Ident" ["Vec"] [],
        .node "PathArguments::AngleBracketed" [] [.node "List" [] [.node "GenericArgument::Type" [] [.tparam "_ŠČ0"]]]]]]]
    let opt (x : T) : T := .node "Type::Path" [] [leaf "None", .node "Path" [] [.node "IgnL" [] [leaf "None"],
      .node "List" [] [.node "PathSegment" [] [.node "Ident" ["Option"] [],
        .node "PathArguments::AngleBracketed" [] [.node "List" [] [.node "GenericArgument::Type" [] [x]]]]]]]
    let σ : Subst := [("_ŠČ0", .ty vec), ("_ŠČ1", .ty vec)]
    sup (.node "Type::Tuple" [] [.tparam "_ŠČ0", .tparam "_ŠČ1"]) (.node "Type::Tuple" [] [vec, vec]) = .yes σ false ∧
    (σ.map Prod.fst).Nodup ∧ untouched σ (opt vec) = true ∧
    revSub (reverseMap σ) (opt vec) = [opt (.tparam "_ŠČ0"), opt (.tparam "_ŠČ1")] ∧
    inst σ (opt (.tparam "_ŠČ0")) = opt vec ∧ inst σ (opt (.tparam "_ŠČ1")) = opt vec := by
  with_unfolding_all decide

end Counterexamples


/-! ## The source's field schema (regenerated facts) -/

/-- every non-punctuation field of every syn struct with an `impl Substitute` is mentioned or rebuilt by its `substitute`, except
    exactly the fields the model keeps verbatim (`MatchSchema.substituteVerbatim`: attributes, operators, names, flags, literals) -/
theorem C10_every_field_rewritten :
    MatchSchema.unexamined MatchFacts.substituteMentions = MatchSchema.substituteVerbatim := by decide +kernel

/-- the set of types with an `impl Substitute` is the one the model covers -/
theorem C10_substitute_impls : MatchFacts.substituteMentions.map Prod.fst = MatchSchema.substituteImpls := by decide +kernel

end DI
