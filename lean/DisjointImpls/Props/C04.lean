/-
  C04 — overlap is never silently resolved. Property theorems only.
  A program that compiles is ground-coherent (rustc's coherence check rejects two impls of one trait that apply
  to the same ground reference — trusted fact (b) of DESIGN.md §10); the theorems show that a common instance of
  two blocks makes the generated program ground-incoherent, so it cannot compile.
-/
import DisjointImpls.Lemmas.Refine
namespace DI

/-- two different members of one family whose blocks both apply to `q`: both helper impls apply to the *same*
    helper reference (the helper arguments are determined by `q`), i.e. the helper impls overlap -/
theorem C04_overlap_same_family (W : World) (F : Family) (hk : KeysOverHeader F) (m1 m2 : Member) (q : T)
    (ok1 : memberOK F m1 = true) (ok2 : memberOK F m2 = true) (hw : WorldTotal W F)
    (c1 : ThetaCovers F m1) (c2 : ThetaCovers F m2) (s1 : SizedCompat W F m1) (s2 : SizedCompat W F m2) :
    applies W m1.blk q → applies W m2.blk q →
      ∃ gs, helperApplies W F m1 q gs ∧ helperApplies W F m2 q gs := by
  intro a1 a2
  obtain ⟨τ1, gs1, n1, e1, _, l1, p1, h1⟩ := spec_sub_gen W F m1 q ok1 hw c1 s1 a1
  obtain ⟨τ2, gs2, n2, e2, _, l2, p2, h2⟩ := spec_sub_gen W F m2 q ok2 hw c2 s2 a2
  have : gs1 = gs2 := helper_args_unique W F hk q τ1 τ2 gs1 gs2 (wkF_hdr n1) (wkF_hdr n2) e1 e2 l1 l2 p1 p2
  subst this
  exact ⟨gs1, h1, h2⟩

/-- two blocks placed in different families that both apply to `q`: both main impls apply to `q` -/
theorem C04_overlap_two_families (W : World) (F1 F2 : Family) (m1 m2 : Member) (q : T)
    (ok1 : memberOK F1 m1 = true) (ok2 : memberOK F2 m2 = true) (hw1 : WorldTotal W F1) (hw2 : WorldTotal W F2)
    (c1 : ThetaCovers F1 m1) (c2 : ThetaCovers F2 m2) (s1 : SizedCompat W F1 m1) (s2 : SizedCompat W F2 m2) :
    applies W m1.blk q → applies W m2.blk q → genSel W F1 m1 q ∧ genSel W F2 m2 q :=
  fun a1 a2 => ⟨spec_sub_gen W F1 m1 q ok1 hw1 c1 s1 a1, spec_sub_gen W F2 m2 q ok2 hw2 c2 s2 a2⟩

end DI
