/-
  C04 — overlap is never silently resolved. Property theorems only.
  A program that compiles is ground-coherent (rustc's coherence check rejects two impls of one trait that apply
  to the same ground reference — trusted fact (b) of DESIGN.md §10); the theorems show that a common instance of
  two blocks makes the generated program ground-incoherent, so it cannot compile.
-/
import DisjointImpls.Lemmas.Refine
import DisjointImpls.Lemmas.OverlapEndToEnd
import DisjointImpls.Props.C11
namespace DI

/-- two different members of one family whose blocks both apply to `q`: both helper impls apply to the *same*
    helper reference (the helper arguments are determined by `q`), i.e. the helper impls overlap -/
theorem C04_overlap_same_family (W : World) (F : Family) (hk : KeysOverHeader F) (m1 m2 : Member) (q : T)
    (ok1 : memberOK F m1 = true) (ok2 : memberOK F m2 = true) (hw : WorldTotal W F)
    (c1 : ThetaCovers F m1) (c2 : ThetaCovers F m2) (s1 : SizedCompat W F m1) (s2 : SizedCompat W F m2) :
    applies W m1.blk q → applies W m2.blk q →
      ∃ gs, helperApplies W F m1 q gs ∧ helperApplies W F m2 q gs := by
  intro a1 a2
  obtain ⟨τ1, gs1, n1, e1, _, l1, p1, h1⟩ := spec_sub_gen W F m1 q ok1 hw c1 s1 a1
  obtain ⟨τ2, gs2, n2, e2, _, l2, p2, h2⟩ := spec_sub_gen W F m2 q ok2 hw c2 s2 a2
  have : gs1 = gs2 := helper_args_unique W F hk q τ1 τ2 gs1 gs2 (wkF_hdr n1) (wkF_hdr n2) e1 e2 l1 l2 p1 p2
  subst this
  exact ⟨gs1, h1, h2⟩

/-- two blocks placed in different families that both apply to `q`: both main impls apply to `q` -/
theorem C04_overlap_two_families (W : World) (F1 F2 : Family) (m1 m2 : Member) (q : T)
    (ok1 : memberOK F1 m1 = true) (ok2 : memberOK F2 m2 = true) (hw1 : WorldTotal W F1) (hw2 : WorldTotal W F2)
    (c1 : ThetaCovers F1 m1) (c2 : ThetaCovers F2 m2) (s1 : SizedCompat W F1 m1) (s2 : SizedCompat W F2 m2) :
    applies W m1.blk q → applies W m2.blk q → genSel W F1 m1 q ∧ genSel W F2 m2 q :=
  fun a1 a2 => ⟨spec_sub_gen W F1 m1 q ok1 hw1 c1 s1 a1, spec_sub_gen W F2 m2 q ok2 hw2 c2 s2 a2⟩

/-! ## End to end: from the grouping the model computes to a coherence error

  `Lemmas/OverlapEndToEnd.lean`. `IncoherentAt W sp groups q`: in the program generated from `groups` two helper impls of
  one helper trait apply to `q` with the same helper arguments (two members at DIFFERENT positions of one family), or two
  main impls apply to `q` (families at DIFFERENT positions of the grouping) — exactly what rustc's coherence check (E0119)
  rejects (trusted fact (b), DESIGN §10).

  The two blocks are required to have different CANONICAL texts (`canon it1 ≠ canon it2`; this implies that they stand at
  different positions of the input). Two blocks at different positions with the same canonical text (finding D12) collapse
  into ONE member (`mkBuckets` replaces the earlier one), the invocation is accepted and the expansion is coherent although
  the user wrote two overlapping impls: `C04_end_to_end_identical_blocks_counterexample`. -/

/-- the general step: in an accepted grouping in which every bucket block is placed (`hperm`, the conclusion of the
    partition theorems of C11) and whose families satisfy the hypotheses of the refinement (`memberOK`, `thetaCoversB`,
    `keysOverHeaderB`, all executable; `WorldTotal`, `SizedCompat` about the world), two input blocks with different
    canonical texts that both apply to `q` make the expansion ground-incoherent at `q` -/
theorem C04_end_to_end_core (items : List T) (groups : Groups) (h : parseGroups items = .ok groups) (sp : List String)
    (hperm : (groups.flatMap (fun e => e.2.2)).Perm ((mkBuckets (items.map mkBlk)).flatMap (fun bk => bk.2)))
    (hmem : ∀ e ∈ groups, ∀ m ∈ (familyOfGroup sp e).members,
      memberOK (familyOfGroup sp e) m = true ∧ thetaCoversB (familyOfGroup sp e) m = true)
    (hkoh : ∀ e ∈ groups, keysOverHeaderB (familyOfGroup sp e) = true)
    (W : World) (hw : ∀ e ∈ groups, WorldTotal W (familyOfGroup sp e))
    (hsz : ∀ e ∈ groups, ∀ m ∈ (familyOfGroup sp e).members, SizedCompat W (familyOfGroup sp e) m)
    (q : T) (it1 it2 : T) (h1 : it1 ∈ items) (h2 : it2 ∈ items) (hne : canon it1 ≠ canon it2) :
    applies W (mkBlock (canon it1)) q → applies W (mkBlock (canon it2)) q → IncoherentAt W sp groups q := by
  intro a1 a2
  have hyp : ∀ e ∈ groups, ∀ m ∈ (familyOfGroup sp e).members,
      memberOK (familyOfGroup sp e) m = true ∧ ThetaCovers (familyOfGroup sp e) m ∧
        SizedCompat W (familyOfGroup sp e) m :=
    fun e he m hm => ⟨(hmem e he m hm).1, (thetaCoversB_iff _ m).1 (hmem e he m hm).2, hsz e he m hm⟩
  rcases blocks_placed h sp hperm h1 h2 hne with
    ⟨e, he, i, j, hi, hj, hij, b1, b2⟩ | ⟨i, j, hi, hj, hij, m1, hm1, m2, hm2, b1, b2⟩
  · obtain ⟨ok1, c1, s1⟩ := hyp e he _ (List.getElem_mem hi)
    obtain ⟨ok2, c2, s2⟩ := hyp e he _ (List.getElem_mem hj)
    exact Or.inl ⟨e, he, i, j, hi, hj, hij,
      C04_overlap_same_family W _ ((keysOverHeaderB_iff _).1 (hkoh e he)) _ _ q ok1 ok2 (hw e he) c1 c2 s1 s2
        (by rw [b1]; exact a1) (by rw [b2]; exact a2)⟩
  · have he1 : groups[i] ∈ groups := List.getElem_mem hi
    have he2 : groups[j] ∈ groups := List.getElem_mem hj
    obtain ⟨ok1, c1, s1⟩ := hyp _ he1 m1 hm1
    obtain ⟨ok2, c2, s2⟩ := hyp _ he2 m2 hm2
    exact Or.inr ⟨i, j, hi, hj, hij, m1, hm1, m2, hm2,
      C04_overlap_two_families W _ _ m1 m2 q ok1 ok2 (hw _ he1) (hw _ he2) c1 c2 s1 s2
        (by rw [b1]; exact a1) (by rw [b2]; exact a2)⟩

/-- OVERLAP IS NEVER SILENTLY RESOLVED, END TO END, for un-nested invocations: for every input of the model that is
    accepted (`parseGroups items = .ok groups`), has no nested headers (`noNesting`) and whose groups pass the executable
    checks of `C02_end_to_end_flat_coverage` (`flatGroupOK`, `hdrCoversB`) and `keysOverHeaderB` (every parameter
    occurrence of a key has a counterpart of a compatible kind in the family's header), for every world in which dispatch
    traits define their associated types (`WorldTotal`) and the `Sized` requirements are compatible (`SizedCompat`,
    finding D7), and every query `q`: if two input blocks with different canonical texts both apply to `q`, the expansion
    is ground-incoherent at `q` — two helper impls of one helper trait, or two main impls of the user's trait, apply to one
    ground reference, so the expansion does not compile. -/
theorem C04_end_to_end_flat (items : List T) (groups : Groups) (h : parseGroups items = .ok groups)
    (hn : noNesting items = true) (sp : List String)
    (hok : ∀ e ∈ groups, flatGroupOK e = true ∧ hdrCoversB (familyOfGroup sp e) = true ∧
      keysOverHeaderB (familyOfGroup sp e) = true)
    (W : World) (hw : ∀ e ∈ groups, WorldTotal W (familyOfGroup sp e))
    (hsz : ∀ e ∈ groups, ∀ m ∈ (familyOfGroup sp e).members, SizedCompat W (familyOfGroup sp e) m)
    (q : T) (it1 it2 : T) (h1 : it1 ∈ items) (h2 : it2 ∈ items) (hne : canon it1 ≠ canon it2) :
    applies W (mkBlock (canon it1)) q → applies W (mkBlock (canon it2)) q → IncoherentAt W sp groups q :=
  C04_end_to_end_core items groups h sp (C11_partition_partial items groups h hn)
    (fun e he m hm => ⟨flat_memberOK h (noNesting_spec items hn) sp he (hok e he).1 m hm,
      flat_thetaCovers h (noNesting_spec items hn) sp he (hok e he).2.1 m hm⟩)
    (fun e he => (hok e he).2.2) W hw hsz q it1 it2 h1 h2 hne

/-- the same, stated for two POSITIONS `i`, `j` of the input (`canon items[i] ≠ canon items[j]` implies `i ≠ j`) -/
theorem C04_end_to_end_flat_positions (items : List T) (groups : Groups) (h : parseGroups items = .ok groups)
    (hn : noNesting items = true) (sp : List String)
    (hok : ∀ e ∈ groups, flatGroupOK e = true ∧ hdrCoversB (familyOfGroup sp e) = true ∧
      keysOverHeaderB (familyOfGroup sp e) = true)
    (W : World) (hw : ∀ e ∈ groups, WorldTotal W (familyOfGroup sp e))
    (hsz : ∀ e ∈ groups, ∀ m ∈ (familyOfGroup sp e).members, SizedCompat W (familyOfGroup sp e) m)
    (q : T) (i j : Nat) (hi : i < items.length) (hj : j < items.length) (hne : canon items[i] ≠ canon items[j]) :
    applies W (mkBlock (canon items[i])) q → applies W (mkBlock (canon items[j])) q → IncoherentAt W sp groups q :=
  C04_end_to_end_flat items groups h hn sp hok W hw hsz q _ _ (List.getElem_mem hi) (List.getElem_mem hj) hne

/-- … with the group check `flatGroupOK` replaced by the check `flatInputOK` on the input alone
    (`C02_flatGroupOK_of_input`) -/
theorem C04_end_to_end_flat_input (items : List T) (groups : Groups) (h : parseGroups items = .ok groups)
    (hn : noNesting items = true) (hin : flatInputOK items = true) (sp : List String)
    (hok : ∀ e ∈ groups, hdrCoversB (familyOfGroup sp e) = true ∧ keysOverHeaderB (familyOfGroup sp e) = true)
    (W : World) (hw : ∀ e ∈ groups, WorldTotal W (familyOfGroup sp e))
    (hsz : ∀ e ∈ groups, ∀ m ∈ (familyOfGroup sp e).members, SizedCompat W (familyOfGroup sp e) m)
    (q : T) (it1 it2 : T) (h1 : it1 ∈ items) (h2 : it2 ∈ items) (hne : canon it1 ≠ canon it2) :
    applies W (mkBlock (canon it1)) q → applies W (mkBlock (canon it2)) q → IncoherentAt W sp groups q :=
  C04_end_to_end_flat items groups h hn sp
    (fun e he => ⟨flatGroupOK_of_input h (noNesting_spec items hn) hin he, (hok e he).1, (hok e he).2⟩)
    W hw hsz q it1 it2 h1 h2 hne

/-- OVERLAP IS NEVER SILENTLY RESOLVED, END TO END, for ARBITRARY accepted invocations (nested headers included): the
    same conclusion when the recorded header relation is acyclic (`acyclicB`, C11 Part 4b: every block is then placed
    exactly once) and the groups pass the executable checks of `C02_end_to_end_coverage` (`nestedGroupOK`,
    `nestedCoversB`) and `keysOverHeaderB` -/
theorem C04_end_to_end_nested (items : List T) (groups : Groups) (h : parseGroups items = .ok groups)
    (ha : acyclicB items = true) (sp : List String)
    (hok : ∀ e ∈ groups, nestedGroupOK (parseEnv items) e = true ∧ nestedCoversB (familyOfGroup sp e) = true ∧
      keysOverHeaderB (familyOfGroup sp e) = true)
    (W : World) (hw : ∀ e ∈ groups, WorldTotal W (familyOfGroup sp e))
    (hsz : ∀ e ∈ groups, ∀ m ∈ (familyOfGroup sp e).members, SizedCompat W (familyOfGroup sp e) m)
    (q : T) (it1 it2 : T) (h1 : it1 ∈ items) (h2 : it2 ∈ items) (hne : canon it1 ≠ canon it2) :
    applies W (mkBlock (canon it1)) q → applies W (mkBlock (canon it2)) q → IncoherentAt W sp groups q :=
  C04_end_to_end_core items groups h sp (C11_partition_acyclic items groups h ha)
    (fun e he m hm => ⟨nested_memberOK h sp he (hok e he).1 m hm, nested_thetaCovers (hok e he).2.1 m hm⟩)
    (fun e he => (hok e he).2.2) W hw hsz q it1 it2 h1 h2 hne

/-- … in particular for inputs whose headers are well-formed (`headersWF`, the side condition of `C11_partition`) -/
theorem C04_end_to_end_nested_headersWF (items : List T) (groups : Groups) (h : parseGroups items = .ok groups)
    (hwf : headersWF items = true) (sp : List String)
    (hok : ∀ e ∈ groups, nestedGroupOK (parseEnv items) e = true ∧ nestedCoversB (familyOfGroup sp e) = true ∧
      keysOverHeaderB (familyOfGroup sp e) = true)
    (W : World) (hw : ∀ e ∈ groups, WorldTotal W (familyOfGroup sp e))
    (hsz : ∀ e ∈ groups, ∀ m ∈ (familyOfGroup sp e).members, SizedCompat W (familyOfGroup sp e) m)
    (q : T) (it1 it2 : T) (h1 : it1 ∈ items) (h2 : it2 ∈ items) (hne : canon it1 ≠ canon it2) :
    applies W (mkBlock (canon it1)) q → applies W (mkBlock (canon it2)) q → IncoherentAt W sp groups q :=
  C04_end_to_end_nested items groups h (C11_acyclic_of_headersWF items hwf) sp hok W hw hsz q it1 it2 h1 h2 hne

/-- the contrapositive reading the property uses — "an accepted invocation that compiles has no overlapping blocks": if
    the expansion is ground-coherent at every query (which is what a successful compilation guarantees), then no two
    input blocks with different canonical texts apply to a common query. Un-nested invocations. -/
theorem C04_compiles_no_overlap (items : List T) (groups : Groups) (h : parseGroups items = .ok groups)
    (hn : noNesting items = true) (sp : List String)
    (hok : ∀ e ∈ groups, flatGroupOK e = true ∧ hdrCoversB (familyOfGroup sp e) = true ∧
      keysOverHeaderB (familyOfGroup sp e) = true)
    (W : World) (hw : ∀ e ∈ groups, WorldTotal W (familyOfGroup sp e))
    (hsz : ∀ e ∈ groups, ∀ m ∈ (familyOfGroup sp e).members, SizedCompat W (familyOfGroup sp e) m)
    (hcoh : ∀ q, ¬ IncoherentAt W sp groups q) :
    ∀ it1 ∈ items, ∀ it2 ∈ items, canon it1 ≠ canon it2 →
      ∀ q, ¬ (applies W (mkBlock (canon it1)) q ∧ applies W (mkBlock (canon it2)) q) :=
  fun it1 h1 it2 h2 hne q a =>
    hcoh q (C04_end_to_end_flat items groups h hn sp hok W hw hsz q it1 it2 h1 h2 hne a.1 a.2)

/-- … and for arbitrary accepted invocations with an acyclic header relation -/
theorem C04_compiles_no_overlap_nested (items : List T) (groups : Groups) (h : parseGroups items = .ok groups)
    (ha : acyclicB items = true) (sp : List String)
    (hok : ∀ e ∈ groups, nestedGroupOK (parseEnv items) e = true ∧ nestedCoversB (familyOfGroup sp e) = true ∧
      keysOverHeaderB (familyOfGroup sp e) = true)
    (W : World) (hw : ∀ e ∈ groups, WorldTotal W (familyOfGroup sp e))
    (hsz : ∀ e ∈ groups, ∀ m ∈ (familyOfGroup sp e).members, SizedCompat W (familyOfGroup sp e) m)
    (hcoh : ∀ q, ¬ IncoherentAt W sp groups q) :
    ∀ it1 ∈ items, ∀ it2 ∈ items, canon it1 ≠ canon it2 →
      ∀ q, ¬ (applies W (mkBlock (canon it1)) q ∧ applies W (mkBlock (canon it2)) q) :=
  fun it1 h1 it2 h2 hne q a =>
    hcoh q (C04_end_to_end_nested items groups h ha sp hok W hw hsz q it1 it2 h1 h2 hne a.1 a.2)

/-- `keysOverHeaderB` follows from the simpler executable check `keysOverHeaderSimpleB` (no expression parameters in the
    header and the keys, every parameter of a key occurs in the header) -/
theorem C04_keysOverHeaderB_of_simple (F : Family) (h : keysOverHeaderSimpleB F = true) : keysOverHeaderB F = true :=
  keysOverHeaderB_of_simple h

/-! ### Closed examples -/

namespace Ex04
open Ex11
/-- `n<a = g>` -/
def bind1 (n a g : String) : T :=
  path [.node "PathSegment" [] [.node "Ident" [n] [], .node "PathArguments::AngleBracketed" [] [.node "Ign" [] [leaf "None"],
    .node "List" [] [.node "GenericArgument::AssocType" [] [.node "AssocType" [] [.node "Ident" [a] [], leaf "None", tyPath [seg g]]]]]]]
/-- `impl<T: D1<G = A> + D2> Kita for T {}`  +  `impl<T: D1 + D2<H = X>> Kita for T {}`: the rows `[A, _]` and `[_, X]` do
    not generalise each other, so `is_overlapping` lets them pass — but they unify (a type with `G = A` and `H = X`) -/
def items : List T :=
  [implOf [tyParam "T" [traitBound (bind1 "D1" "G" "A"), traitBound (path [seg "D2"])]] (tyPath [seg "T"]),
   implOf [tyParam "T" [traitBound (path [seg "D1"]), traitBound (bind1 "D2" "H" "X")]] (tyPath [seg "T"])]
/-- `impl<T: D1<G = A> + D2> Kita for T {}`  +  `impl<T> Kita for Vec<T> where Vec<T>: D1 + D2<H = X> {}` (nested header) -/
def itemsNested : List T :=
  [implOf [tyParam "T" [traitBound (bind1 "D1" "G" "A"), traitBound (path [seg "D2"])]] tT,
   implW [tyParam "T" []] [pred (vecOf tT) [traitBound (path [seg "D1"]), traitBound (bind1 "D2" "H" "X")]] (vecOf tT)]
/-- the same block twice (finding D12): `impl<T: Dispatch<Group = GroupA>> Kita for T {}` × 2 -/
def itemsDup : List T := [blockFor "GroupA", blockFor "GroupA"]
def u32T : T := tyPath [seg "u32"]
/-- `ty: D1<G = A>` and `ty: D2<H = X>`, nothing else (every impl lists both names so that `WorldTotal`, which does not
    look at the trait, holds); every type is `Sized` -/
def worldFor (ty : T) : World :=
  ⟨fun tr ty' => if (tr = path [seg "D1"] ∨ tr = path [seg "D2"]) ∧ ty' = ty
      then some [("G", tyPath [seg "A"]), ("H", tyPath [seg "X"])] else none, fun _ => true⟩
def W : World := worldFor u32T
def WN : World := worldFor (vecOf u32T)
/-- `u32: Dispatch<Group = GroupA>`, nothing else -/
def WDup : World :=
  ⟨fun tr ty => if tr = path [seg "Dispatch"] ∧ ty = u32T then some [("Group", tyPath [seg "GroupA"])] else none, fun _ => true⟩
/-- the query `Kita for ty` -/
def query (ty : T) : T := .node "ImplGroupId" [] [.node "Some" [] [path [seg "Kita"]], ty]

theorem worldFor_total (ty : T) (F : Family) (hF : ∀ k ∈ F.keys, k.a = "G" ∨ k.a = "H") : WorldTotal (worldFor ty) F := by
  intro k hk tr ty' bs hd
  simp only [worldFor] at hd
  split at hd
  · cases hd
    rcases hF k hk with ha | ha <;> rw [ha]
    · exact ⟨_, rfl⟩
    · exact ⟨_, rfl⟩
  · cases hd
end Ex04

section C04Examples
open Ex04
set_option maxRecDepth 1000000

/-- non-vacuity of `C04_end_to_end_flat` on a GENUINE overlap that the macro accepts: the pair
    `impl<T: D1<G = A> + D2> Kita for T` / `impl<T: D1 + D2<H = X>> Kita for T` (rows `[A, _]`, `[_, X]`: neither
    generalises the other) is accepted as one family, un-nested, passes all executable checks; in the world `Ex04.W`
    (`u32: D1<G = A>`, `u32: D2<H = X>`), which is total and `Sized`-compatible, both blocks apply to `Kita for u32`.
    Hence the expansion is ground-incoherent at `Kita for u32` (the two helper impls `Helper<A, <T as D2>::H>` and
    `Helper<<T as D1>::G, X>` both apply to `u32` with helper arguments `A, X`): rustc rejects it with E0119. -/
theorem C04_end_to_end_overlap_example :
    ∃ gs, parseGroups items = .ok gs ∧ noNesting items = true ∧ flatInputOK items = true ∧
      (∀ e ∈ gs, flatGroupOK e = true ∧ hdrCoversB (familyOfGroup ["_ŠČ0"] e) = true ∧
        keysOverHeaderB (familyOfGroup ["_ŠČ0"] e) = true) ∧
      (∀ e ∈ gs, WorldTotal W (familyOfGroup ["_ŠČ0"] e)) ∧
      (∀ e ∈ gs, ∀ m ∈ (familyOfGroup ["_ŠČ0"] e).members, SizedCompat W (familyOfGroup ["_ŠČ0"] e) m) ∧
      canon items[0] ≠ canon items[1] ∧
      applies W (mkBlock (canon items[0])) (query u32T) ∧ applies W (mkBlock (canon items[1])) (query u32T) ∧
      IncoherentAt W ["_ŠČ0"] gs (query u32T) := by
  obtain ⟨gs, hgs, hchk⟩ := ParseResult.ok_of_check (r := parseGroups items)
    (f := fun gs => gs.all (fun e => flatGroupOK e && hdrCoversB (familyOfGroup ["_ŠČ0"] e) &&
      keysOverHeaderB (familyOfGroup ["_ŠČ0"] e) &&
      (familyOfGroup ["_ŠČ0"] e).keys.all (fun k => k.a == "G" || k.a == "H"))) (by with_unfolding_all decide)
  have hn : noNesting items = true := by with_unfolding_all decide
  simp only [List.all_eq_true, Bool.and_eq_true, Bool.or_eq_true, beq_iff_eq] at hchk
  have hok : ∀ e ∈ gs, flatGroupOK e = true ∧ hdrCoversB (familyOfGroup ["_ŠČ0"] e) = true ∧
      keysOverHeaderB (familyOfGroup ["_ŠČ0"] e) = true :=
    fun e he => ⟨(hchk e he).1.1.1, (hchk e he).1.1.2, (hchk e he).1.2⟩
  have hw : ∀ e ∈ gs, WorldTotal W (familyOfGroup ["_ŠČ0"] e) := fun e he => worldFor_total _ _ (hchk e he).2
  have hsz : ∀ e ∈ gs, ∀ m ∈ (familyOfGroup ["_ŠČ0"] e).members, SizedCompat W (familyOfGroup ["_ŠČ0"] e) m :=
    fun _ _ _ _ _ _ _ _ _ => rfl
  have hne : canon items[0] ≠ canon items[1] := by with_unfolding_all decide
  have a0 : applies W (mkBlock (canon items[0])) (query u32T) :=
    applies_of_B (ρ := [("_ŠČ0", .ty u32T)]) (by with_unfolding_all decide)
  have a1 : applies W (mkBlock (canon items[1])) (query u32T) :=
    applies_of_B (ρ := [("_ŠČ0", .ty u32T)]) (by with_unfolding_all decide)
  exact ⟨gs, hgs, hn, by with_unfolding_all decide, hok, hw, hsz, hne, a0, a1,
    C04_end_to_end_flat_positions items gs hgs hn ["_ŠČ0"] hok W hw hsz (query u32T) 0 1 (by decide) (by decide) hne a0 a1⟩

/-- non-vacuity of `C04_end_to_end_nested` on a genuine overlap through a NESTED header: the pair
    `impl<T: D1<G = A> + D2> Kita for T` / `impl<T> Kita for Vec<T> where Vec<T>: D1 + D2<H = X>` is accepted as one family
    with two members, is not un-nested, its headers are well-formed (`headersWF`, hence `acyclicB`), it passes
    `nestedGroupOK`, `nestedCoversB`, `keysOverHeaderB`; in the world `Ex04.WN` (`Vec<u32>: D1<G = A>`, `Vec<u32>: D2<H = X>`)
    both blocks apply to `Kita for Vec<u32>`. Hence the expansion is ground-incoherent at `Kita for Vec<u32>`. -/
theorem C04_end_to_end_nested_overlap_example :
    ∃ gs, parseGroups itemsNested = .ok gs ∧ noNesting itemsNested = false ∧ headersWF itemsNested = true ∧
      acyclicB itemsNested = true ∧
      (∀ e ∈ gs, nestedGroupOK (parseEnv itemsNested) e = true ∧ nestedCoversB (familyOfGroup ["_ŠČ0"] e) = true ∧
        keysOverHeaderB (familyOfGroup ["_ŠČ0"] e) = true) ∧
      (∀ e ∈ gs, WorldTotal WN (familyOfGroup ["_ŠČ0"] e)) ∧
      (∀ e ∈ gs, ∀ m ∈ (familyOfGroup ["_ŠČ0"] e).members, SizedCompat WN (familyOfGroup ["_ŠČ0"] e) m) ∧
      canon itemsNested[0] ≠ canon itemsNested[1] ∧
      applies WN (mkBlock (canon itemsNested[0])) (query (Ex11.vecOf u32T)) ∧
      applies WN (mkBlock (canon itemsNested[1])) (query (Ex11.vecOf u32T)) ∧
      IncoherentAt WN ["_ŠČ0"] gs (query (Ex11.vecOf u32T)) := by
  obtain ⟨gs, hgs, hchk⟩ := ParseResult.ok_of_check (r := parseGroups itemsNested)
    (f := fun gs => gs.all (fun e => nestedGroupOK (parseEnv itemsNested) e && nestedCoversB (familyOfGroup ["_ŠČ0"] e) &&
      keysOverHeaderB (familyOfGroup ["_ŠČ0"] e) &&
      (familyOfGroup ["_ŠČ0"] e).keys.all (fun k => k.a == "G" || k.a == "H"))) (by with_unfolding_all decide)
  have hwf : headersWF itemsNested = true := by with_unfolding_all decide
  have ha : acyclicB itemsNested = true := C11_acyclic_of_headersWF _ hwf
  simp only [List.all_eq_true, Bool.and_eq_true, Bool.or_eq_true, beq_iff_eq] at hchk
  have hok : ∀ e ∈ gs, nestedGroupOK (parseEnv itemsNested) e = true ∧ nestedCoversB (familyOfGroup ["_ŠČ0"] e) = true ∧
      keysOverHeaderB (familyOfGroup ["_ŠČ0"] e) = true :=
    fun e he => ⟨(hchk e he).1.1.1, (hchk e he).1.1.2, (hchk e he).1.2⟩
  have hw : ∀ e ∈ gs, WorldTotal WN (familyOfGroup ["_ŠČ0"] e) := fun e he => worldFor_total _ _ (hchk e he).2
  have hsz : ∀ e ∈ gs, ∀ m ∈ (familyOfGroup ["_ŠČ0"] e).members, SizedCompat WN (familyOfGroup ["_ŠČ0"] e) m :=
    fun _ _ _ _ _ _ _ _ _ => rfl
  have hne : canon itemsNested[0] ≠ canon itemsNested[1] := by with_unfolding_all decide
  have a0 : applies WN (mkBlock (canon itemsNested[0])) (query (Ex11.vecOf u32T)) :=
    applies_of_B (ρ := [("_ŠČ0", .ty (Ex11.vecOf u32T))]) (by with_unfolding_all decide)
  have a1 : applies WN (mkBlock (canon itemsNested[1])) (query (Ex11.vecOf u32T)) :=
    applies_of_B (ρ := [("_ŠČ0", .ty u32T)]) (by with_unfolding_all decide)
  exact ⟨gs, hgs, by with_unfolding_all decide, hwf, ha, hok, hw, hsz, hne, a0, a1,
    C04_end_to_end_nested itemsNested gs hgs ha ["_ŠČ0"] hok WN hw hsz _ _ _
      (List.getElem_mem (by decide : 0 < itemsNested.length)) (List.getElem_mem (by decide : 1 < itemsNested.length))
      hne a0 a1⟩

/-- the hypothesis `canon it1 ≠ canon it2` cannot be weakened to "different positions" (finding D12): the input
    `impl<T: Dispatch<Group = GroupA>> Kita for T` written TWICE is accepted; the two textually identical blocks collapse
    into ONE member of one family (`mkBuckets` keeps one block per text), all executable checks and both world hypotheses
    hold, both input blocks (positions 0 and 1) apply to `Kita for u32` in the world `Ex04.WDup`
    (`u32: Dispatch<Group = GroupA>`) — and the expansion is NOT ground-incoherent there: it has one family with one
    member. The macro silently accepts two identical (hence overlapping) impls, which rustc alone would reject. -/
theorem C04_end_to_end_identical_blocks_counterexample :
    ∃ gs, parseGroups itemsDup = .ok gs ∧ noNesting itemsDup = true ∧ flatInputOK itemsDup = true ∧
      (∀ e ∈ gs, flatGroupOK e = true ∧ hdrCoversB (familyOfGroup ["_ŠČ0"] e) = true ∧
        keysOverHeaderB (familyOfGroup ["_ŠČ0"] e) = true) ∧
      (∀ e ∈ gs, WorldTotal WDup (familyOfGroup ["_ŠČ0"] e)) ∧
      (∀ e ∈ gs, ∀ m ∈ (familyOfGroup ["_ŠČ0"] e).members, SizedCompat WDup (familyOfGroup ["_ŠČ0"] e) m) ∧
      gs.map (fun e => (familyOfGroup ["_ŠČ0"] e).members.length) = [1] ∧
      applies WDup (mkBlock (canon itemsDup[0])) (query u32T) ∧ applies WDup (mkBlock (canon itemsDup[1])) (query u32T) ∧
      ¬ IncoherentAt WDup ["_ŠČ0"] gs (query u32T) := by
  obtain ⟨gs, hgs, hchk⟩ := ParseResult.ok_of_check (r := parseGroups itemsDup)
    (f := fun gs => gs.map (fun e => (familyOfGroup ["_ŠČ0"] e).members.length) == [1] &&
      gs.all (fun e => flatGroupOK e && hdrCoversB (familyOfGroup ["_ŠČ0"] e) &&
      keysOverHeaderB (familyOfGroup ["_ŠČ0"] e) &&
      (familyOfGroup ["_ŠČ0"] e).keys.all (fun k => k.a == "Group"))) (by with_unfolding_all decide)
  simp only [List.all_eq_true, Bool.and_eq_true, beq_iff_eq] at hchk
  obtain ⟨hlen, hchk⟩ := hchk
  have hw : ∀ e ∈ gs, WorldTotal WDup (familyOfGroup ["_ŠČ0"] e) := by
    intro e he k hk tr ty bs hd
    rw [(hchk e he).2 k hk]
    simp only [WDup] at hd
    split at hd
    · cases hd; exact ⟨_, rfl⟩
    · cases hd
  have hg : gs.length ≤ 1 := by
    have := congrArg List.length hlen
    simp only [List.length_map, List.length_cons, List.length_nil] at this
    omega
  have hm : ∀ e ∈ gs, (familyOfGroup ["_ŠČ0"] e).members.length ≤ 1 := by
    intro e he
    have : (familyOfGroup ["_ŠČ0"] e).members.length ∈ gs.map (fun e => (familyOfGroup ["_ŠČ0"] e).members.length) :=
      List.mem_map.2 ⟨e, he, rfl⟩
    rw [hlen, List.mem_singleton] at this
    omega
  exact ⟨gs, hgs, by with_unfolding_all decide, by with_unfolding_all decide,
    fun e he => ⟨(hchk e he).1.1.1, (hchk e he).1.1.2, (hchk e he).1.2⟩, hw, fun _ _ _ _ _ _ _ _ _ => rfl, hlen,
    applies_of_B (ρ := [("_ŠČ0", .ty u32T)]) (by with_unfolding_all decide),
    applies_of_B (ρ := [("_ŠČ0", .ty u32T)]) (by with_unfolding_all decide),
    not_incoherent_of_single hg hm⟩

/-- hence the statement for two different POSITIONS without `canon items[i] ≠ canon items[j]` is false -/
theorem C04_end_to_end_flat_positions_unconditional_false :
    ¬ ∀ (items : List T) (groups : Groups), parseGroups items = .ok groups → noNesting items = true →
        (∀ e ∈ groups, flatGroupOK e = true ∧ hdrCoversB (familyOfGroup ["_ŠČ0"] e) = true ∧
          keysOverHeaderB (familyOfGroup ["_ŠČ0"] e) = true) →
        ∀ W : World, (∀ e ∈ groups, WorldTotal W (familyOfGroup ["_ŠČ0"] e)) →
        (∀ e ∈ groups, ∀ m ∈ (familyOfGroup ["_ŠČ0"] e).members, SizedCompat W (familyOfGroup ["_ŠČ0"] e) m) →
        ∀ (q : T) (i j : Nat) (hi : i < items.length) (hj : j < items.length), i ≠ j →
          applies W (mkBlock (canon items[i])) q → applies W (mkBlock (canon items[j])) q →
            IncoherentAt W ["_ŠČ0"] groups q := by
  intro hall
  obtain ⟨gs, hgs, hn, _, hok, hw, hsz, _, a0, a1, hnot⟩ := C04_end_to_end_identical_blocks_counterexample
  exact hnot (hall itemsDup gs hgs hn hok WDup hw hsz (query u32T) 0 1 (by decide) (by decide) (by decide) a0 a1)

/-- `keysOverHeaderB` holds on the examples also through the simpler check -/
example : ∃ gs, parseGroups items = .ok gs ∧ (gs.all (fun e => keysOverHeaderSimpleB (familyOfGroup ["_ŠČ0"] e))) = true :=
  ParseResult.ok_of_check (f := fun gs => gs.all (fun e => keysOverHeaderSimpleB (familyOfGroup ["_ŠČ0"] e)))
    (by with_unfolding_all decide)
/-- `keysOverHeaderB` is a separate check: it is not implied by `hdrCoversB`. Header `Kita for [u8; N]` (`N` in expression
    position), key `Wr<N>: D` with associated type `G` (`N` in the ambiguous generic-argument position, which a header
    occurrence in expression position does not determine) -/
example :
    let F : Family := ⟨.node "ImplGroupId" [] [.node "None" [] [], .node "Type::Array" [] [.node "u8" [] [], .eparam "_ŠČ0"]],
      [⟨.node "Wr" [] [.node "GenericArgument::Type" [] [.tparam "_ŠČ0"]], .node "D" [] [], "G"⟩], [], []⟩
    hdrCoversB F = true ∧ keysOverHeaderB F = false := by with_unfolding_all decide
end C04Examples

end DI
