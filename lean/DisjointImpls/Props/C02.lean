/-
  C02 — exact coverage. Property theorems only.
-/
import DisjointImpls.Lemmas.Refine
import DisjointImpls.Lemmas.EndToEnd
import DisjointImpls.Props.C11
namespace DI

/-- For a well-formed member (decidable `memberOK`, established by the grouping search — C11 — and re-validated
    on the implementation's real grouping for every generated case) the generated program selects the member for
    a query exactly when the member's block applies to it. -/
theorem C02_member_selected_iff_applies (W : World) (F : Family) (m : Member) (q : T)
    (hm : memberOK F m = true) (hw : WorldTotal W F) (hθ : ThetaCovers F m) (hs : SizedCompat W F m) :
    genSel W F m q ↔ applies W m.blk q :=
  ⟨gen_sub_spec W F m q, spec_sub_gen W F m q hm hw hθ hs⟩

/-- the trait is implemented for `q` through family `F` iff some member block of `F` applies to `q`:
    never narrowed by bounds only other blocks mention, nothing for queries no block matches -/
theorem C02_implemented_iff_applies (W : World) (F : Family) (q : T)
    (hm : ∀ m ∈ F.members, memberOK F m = true) (hw : WorldTotal W F)
    (hθ : ∀ m ∈ F.members, ThetaCovers F m) (hs : ∀ m ∈ F.members, SizedCompat W F m) :
    (∃ m ∈ F.members, genSel W F m q) ↔ (∃ m ∈ F.members, applies W m.blk q) := by
  constructor
  · rintro ⟨m, hmem, h⟩; exact ⟨m, hmem, gen_sub_spec W F m q h⟩
  · rintro ⟨m, hmem, h⟩; exact ⟨m, hmem, spec_sub_gen W F m q (hm m hmem) hw (hθ m hmem) (hs m hmem) h⟩

namespace D7
def str : T := .node "str" [] []
def bx (t : T) : T := .node "Box" [] [t]
def d : T := .node "D" [] []
def ga : T := .node "GA" [] []
def W : World := ⟨fun tr ty => if tr = d ∧ ty = bx str then some [("G", ga)] else none, fun t => t != str⟩
def blk : Block := ⟨bx (.tparam "p"), [⟨bx (.tparam "p"), d, [("G", ga)]⟩], []⟩
def m : Member := ⟨blk, [("p", .identity)], [some ga]⟩
def F : Family := ⟨bx (.tparam "p"), [⟨bx (.tparam "p"), d, "G"⟩], ["p"], [m]⟩
end D7

/-- the completeness direction is false without `SizedCompat` (defect D7: `?Sized` on a parameter that is not a
    key's bounded type is dropped from the main impl): a member relaxing `p` inside `Box<p>` applies to
    `Box<str>`, the main impl (which declares `p` sized) does not. -/
theorem C02_counterexample_D7 :
    ∃ (W : World) (F : Family) (m : Member) (q : T),
      memberOK F m = true ∧ applies W m.blk q ∧ ¬ genSel W F m q := by
  refine ⟨D7.W, D7.F, D7.m, D7.bx D7.str, by decide, ?_, ?_⟩
  · refine ⟨[("p", .ty D7.str)], by decide, by decide, ?_, ?_⟩
    · intro c hc
      have hc' : c = ⟨D7.bx (.tparam "p"), D7.d, [("G", D7.ga)]⟩ := by
        simpa [D7.m, D7.blk] using hc
      subst hc'
      refine ⟨[("G", D7.ga)], by decide, ?_⟩
      intro a p hap
      simp only [List.mem_singleton, Prod.mk.injEq] at hap
      obtain ⟨rfl, rfl⟩ := hap
      decide
    · intro p hp; simp [D7.m, D7.blk] at hp
  · rintro ⟨τ, gs, _, e, hsz, _⟩
    have hp := hsz "p" (by simp [D7.F])
    have : inst τ (.tparam "p") = D7.str := by
      have h := e
      simp only [D7.F, D7.bx] at h
      unfold inst at h
      split at h
      · next h1 _ _ => exact absurd h1 (by decide)
      · simp only [instL] at h
        injection h with _ _ h3
        injection h3 with h4 _
    rw [this] at hp
    revert hp
    decide

namespace ConstHdr
def u8 : T := .node "u8" [] []
def lit3 : T := .node "Expr::Lit" ["3"] []
def d : T := .node "D" [] []
def ga : T := .node "GA" [] []
def vec (t : T) : T := .node "Vec" [] [.node "GenericArgument::Type" [] [t]]
def gid (self : T) : T := .node "ImplGroupId" [] [.node "None" [] [], self]
/-- `[elem; len]` -/
def arr (elem len : T) : T := .node "Type::Array" [] [elem, len]
/-- `Wr<a, b>` with both arguments printed as types (a bare const argument is) -/
def wr (a b : T) : T := .node "Wr" [] [.node "GenericArgument::Type" [] [a], .node "GenericArgument::Type" [] [b]]

/-- every type is `Sized`; `D` is implemented for `u8` and `Vec<u8>` with `G = GA` -/
def W : World := ⟨fun tr ty => if tr = d ∧ (ty = u8 ∨ ty = vec u8) then some [("G", ga)] else none, fun _ => true⟩

/-- `impl<const N: usize, T: D<G = GA>> Kita for [T; N]` (`T` = `_ŠČ0`, `N` = `_ŠČ1`): the header has an expression
    parameter -/
def hdrA : T := gid (arr (.tparam "_ŠČ0") (.eparam "_ŠČ1"))
def keyA : Key := ⟨.tparam "_ŠČ0", d, "G"⟩
def blkA : Block := ⟨hdrA, [⟨.tparam "_ŠČ0", d, [("G", ga)]⟩], ["_ŠČ0"]⟩
def mA : Member := ⟨blkA, [("_ŠČ0", .identity), ("_ŠČ1", .identity)], [some ga]⟩
/-- a second, nested member `impl<const N: usize, T> Kita for [Vec<T>; N] where Vec<T>: D<G = GA>` -/
def blkA' : Block := ⟨gid (arr (vec (.tparam "_ŠČ0")) (.eparam "_ŠČ1")), [⟨vec (.tparam "_ŠČ0"), d, [("G", ga)]⟩], ["_ŠČ0"]⟩
def mA' : Member := ⟨blkA', [("_ŠČ0", .ty (vec (.tparam "_ŠČ0"))), ("_ŠČ1", .identity)], [some ga]⟩
def FA : Family := ⟨hdrA, [keyA], ["_ŠČ0"], [mA, mA']⟩

/-- `impl<const N: usize, T: D<G = GA>> Wr<N, T>`: the const argument is bare, printed like a type argument -/
def hdrB : T := gid (wr (.tparam "_ŠČ1") (.tparam "_ŠČ0"))
def blkB : Block := ⟨hdrB, [⟨.tparam "_ŠČ0", d, [("G", ga)]⟩], ["_ŠČ0"]⟩
def mB : Member := ⟨blkB, [("_ŠČ0", .identity), ("_ŠČ1", .identity)], [some ga]⟩
def FB : Family := ⟨hdrB, [keyA], ["_ŠČ0"], [mB]⟩

/-- `T := u8`, `N := 3` -/
def ρ : Subst := [("_ŠČ0", .ty u8), ("_ŠČ1", .ex lit3)]

theorem worldTotal (F : Family) (hF : F.keys = [keyA]) : WorldTotal W F := by
  intro k hk tr ty bs h
  rw [hF] at hk
  simp only [List.mem_singleton] at hk
  subst hk
  simp only [W] at h
  split at h
  · cases h; exact ⟨ga, rfl⟩
  · cases h

theorem sizedCompat (F : Family) (m : Member) : SizedCompat W F m := fun _ _ _ _ _ => rfl
end ConstHdr

open ConstHdr in
/-- the decidable hypotheses of the refinement hold for families whose header has a const parameter, in expression
    position (`[T; N]`, two members, one nested) and in the ambiguous generic-argument position (`Wr<N, T>`) -/
theorem C02_const_header_hypotheses :
    (memberOK FA mA = true ∧ thetaCoversB FA mA = true ∧ memberOK FA mA' = true ∧ thetaCoversB FA mA' = true ∧
      keysOverHeaderB FA = true) ∧
    (memberOK FB mB = true ∧ thetaCoversB FB mB = true ∧ keysOverHeaderB FB = true) := by
  decide

open ConstHdr in
/-- … and the refinement theorem is instantiated there: the block `impl<const N: usize, T: D<G = GA>> Kita for [T; N]`
    applies to the query `[u8; 3]` by a substitution that binds the const parameter, hence the generated program
    selects it; the nested member `[Vec<T>; N]` is selected for `[Vec<u8>; 3]`; `Wr<N, T>` for `Wr<3, u8>` (a
    `GenericArgument::Const`). No substitution without const bindings produces these queries. -/
theorem C02_const_header_selected :
    (genSel W FA mA (gid (arr u8 lit3)) ↔ applies W blkA (gid (arr u8 lit3))) ∧ genSel W FA mA (gid (arr u8 lit3)) ∧
    genSel W FA mA' (gid (arr (vec u8) lit3)) ∧
    genSel W FB mB (gid (.node "Wr" [] [.node "GenericArgument::Const" [] [lit3], .node "GenericArgument::Type" [] [u8]])) ∧
    ¬ ∃ σ, noEx σ ∧ inst σ hdrA = gid (arr u8 lit3) := by
  have hyp := C02_const_header_hypotheses
  have hA := C02_member_selected_iff_applies W FA mA (gid (arr u8 lit3)) hyp.1.1 (worldTotal FA rfl)
    ((thetaCoversB_iff FA mA).1 hyp.1.2.1) (sizedCompat FA mA)
  have hA' := C02_member_selected_iff_applies W FA mA' (gid (arr (vec u8) lit3)) hyp.1.2.2.1 (worldTotal FA rfl)
    ((thetaCoversB_iff FA mA').1 hyp.1.2.2.2.1) (sizedCompat FA mA')
  have hB := C02_member_selected_iff_applies W FB mB
    (gid (.node "Wr" [] [.node "GenericArgument::Const" [] [lit3], .node "GenericArgument::Type" [] [u8]]))
    hyp.2.1 (worldTotal FB rfl) ((thetaCoversB_iff FB mB).1 hyp.2.2.1) (sizedCompat FB mB)
  have clause : ∀ (b : T) (hb : inst ρ b = u8 ∨ inst ρ b = vec u8) (c : Clause), c = ⟨b, d, [("G", ga)]⟩ → holds W ρ c := by
    intro b hb c hc
    subst hc
    refine ⟨[("G", ga)], ?_, ?_⟩
    · show W.disp (inst ρ d) (inst ρ b) = _
      have : inst ρ d = d := by decide
      rw [this]
      show (if d = d ∧ (inst ρ b = u8 ∨ inst ρ b = vec u8) then some [("G", ga)] else none) = _
      rw [if_pos ⟨rfl, hb⟩]
    · intro a p hap
      simp only [List.mem_singleton, Prod.mk.injEq] at hap
      obtain ⟨rfl, rfl⟩ := hap
      decide
  refine ⟨hA, hA.2 ?_, hA'.2 ?_, hB.2 ?_, ?_⟩
  · refine ⟨ρ, by decide, by decide, ?_, fun _ _ => rfl⟩
    intro c hc
    exact clause (.tparam "_ŠČ0") (Or.inl (by decide)) c (by simpa [mA, blkA] using hc)
  · refine ⟨ρ, by decide, by decide, ?_, fun _ _ => rfl⟩
    intro c hc
    exact clause (vec (.tparam "_ŠČ0")) (Or.inr (by decide)) c (by simpa [mA', blkA'] using hc)
  · refine ⟨ρ, by decide, by decide, ?_, fun _ _ => rfl⟩
    intro c hc
    exact clause (.tparam "_ŠČ0") (Or.inl (by decide)) c (by simpa [mB, blkB] using hc)
  · rintro ⟨σ, hσ, h⟩
    simp only [hdrA, gid, arr] at h
    rw [inst_node σ hσ] at h
    simp only [instL] at h
    injection h with _ _ h
    injection h with _ h
    injection h with h _
    rw [inst_node σ hσ] at h
    simp only [instL] at h
    injection h with _ _ h
    injection h with _ h
    injection h with h _
    rw [instEp_notEx (hσ "_ŠČ1")] at h
    cases h

/-! ## End to end for un-nested invocations: from the grouping the model computes to the refinement

  `familyOfGroup sp e` (Lemmas/EndToEnd.lean) abstracts a group `e = (header, keys with rows, members)` of the model's
  grouping into a `Family`, the way `Bounds.mkFamily` / `mkMember` do from the wire representation
  (`memberOfGroup_eq_mkMember`); `sp` are the `Sized` parameters of the main impl (they play no role in `memberOK` /
  `thetaCoversB`). Side conditions, all executable, per group:
  * `noNesting items` (Props/C11): no header generalises another one, so every member joins through the self-match;
  * `flatGroupOK e`: `selfClean` — the header matches itself with identity bindings and no lenient arm; every dispatch
    key has a `wfPath` trait path; every trait bound of a member with the same dispatch key as a key of the family is
    `wfPath`, has the same leading `::` as the family's key (`normTr` keeps it, `TraitBound::eq` ignores it) and is not a
    relaxed `?Trait` bound (relaxed bounds are folded into the rows by the code but are no clauses of the block);
  * `hdrCoversB F` (for `thetaCoversB` only): the header is `wf` for the matcher (C09), all parameter occurrences of the
    header and the keys are visible to the matcher in the header, no expression parameter in a type-argument position. -/

/-- the hypothesis `memberOK` of the refinement theorems holds for every member of every family the model computes for
    an un-nested invocation -/
theorem C02_end_to_end_flat_memberOK (items : List T) (groups : Groups) (h : parseGroups items = .ok groups)
    (hn : noNesting items = true) (sp : List String) :
    ∀ e ∈ groups, flatGroupOK e = true →
      ∀ m ∈ (familyOfGroup sp e).members, memberOK (familyOfGroup sp e) m = true :=
  fun _ he hok => flat_memberOK h (noNesting_spec items hn) sp he hok

/-- … and so does `thetaCoversB` (the executable form of `ThetaCovers`) -/
theorem C02_end_to_end_flat_hypotheses (items : List T) (groups : Groups) (h : parseGroups items = .ok groups)
    (hn : noNesting items = true) (sp : List String) :
    ∀ e ∈ groups, flatGroupOK e = true → hdrCoversB (familyOfGroup sp e) = true →
      ∀ m ∈ (familyOfGroup sp e).members,
        memberOK (familyOfGroup sp e) m = true ∧ thetaCoversB (familyOfGroup sp e) m = true :=
  fun _ he hok hcov m hm => ⟨flat_memberOK h (noNesting_spec items hn) sp he hok m hm,
    flat_thetaCovers h (noNesting_spec items hn) sp he hcov m hm⟩

/-- EXACT COVERAGE, END TO END, for un-nested invocations: for every input of the model that is accepted, has no
    nested headers and passes the executable checks (no distinctness of the blocks is needed: textually identical
    blocks, finding D12, denote the same block), for every world in
    which dispatch traits define their associated types (`WorldTotal`) and the `Sized` requirements are compatible
    (`SizedCompat`; fails for finding D7), and for every query `q`: the generated program implements the trait for `q`
    through some family and member  iff  one of the user's blocks applies to `q`. -/
theorem C02_end_to_end_flat_coverage (items : List T) (groups : Groups) (h : parseGroups items = .ok groups)
    (hn : noNesting items = true) (sp : List String)
    (hok : ∀ e ∈ groups, flatGroupOK e = true ∧ hdrCoversB (familyOfGroup sp e) = true)
    (W : World) (hw : ∀ e ∈ groups, WorldTotal W (familyOfGroup sp e))
    (hsz : ∀ e ∈ groups, ∀ m ∈ (familyOfGroup sp e).members, SizedCompat W (familyOfGroup sp e) m) (q : T) :
    (∃ e ∈ groups, ∃ m ∈ (familyOfGroup sp e).members, genSel W (familyOfGroup sp e) m q) ↔
    (∃ it ∈ items, applies W (mkBlock (canon it)) q) :=
  flat_coverage h (noNesting_spec items hn) sp hok W hw hsz q

/-- the group-level check follows from a check on the INPUT alone (`flatInputOK items`: every header matches itself
    with identity bindings; for two blocks with the same header, a trait bound with the same dispatch key as a
    binding-carrying trait bound of the other is not relaxed, both paths are `wfPath` and agree on the leading `::`) -/
theorem C02_flatGroupOK_of_input (items : List T) (groups : Groups) (h : parseGroups items = .ok groups)
    (hn : noNesting items = true) (hin : flatInputOK items = true) : ∀ e ∈ groups, flatGroupOK e = true :=
  fun _ he => flatGroupOK_of_input h (noNesting_spec items hn) hin he

/-- … so `memberOK` holds for every member of every family of an accepted un-nested invocation that passes the input
    check -/
theorem C02_end_to_end_flat_memberOK_input (items : List T) (groups : Groups) (h : parseGroups items = .ok groups)
    (hn : noNesting items = true) (hin : flatInputOK items = true) (sp : List String) :
    ∀ e ∈ groups, ∀ m ∈ (familyOfGroup sp e).members, memberOK (familyOfGroup sp e) m = true :=
  fun e he => C02_end_to_end_flat_memberOK items groups h hn sp e he (C02_flatGroupOK_of_input items groups h hn hin e he)

/-- `familyOfGroup` is the abstraction the checks use: it equals `Bounds.mkFamily` (the driver's `family` command)
    applied to the wire encoding of the group — keys `List [Tuple [Bounded [b], TraitBound [p], Ident [a]] …]`, rows
    `List [List [Some [p] | None …] …]`, the members' items — with the `Sized` parameters of the main impl handed over -/
theorem C02_familyOfGroup_is_mkFamily (e : T × ABG × List Blk) (mainImpl : T) :
    mkFamily e.1 (encKeys e.2.1.idents) (encRows e.2.1.payloads) mainImpl (e.2.2.map (·.item)) =
      familyOfGroup (match mainImpl with
        | .node "Some" [] [item] => mkBlock item
        | _ => ⟨.node "?" [] [], [], []⟩).sizedParams e :=
  familyOfGroup_eq_mkFamily e mainImpl

namespace E2E
open Ex11
/-- `::Dispatch<Group = g>` (leading `::`) -/
def dispatchLc (g : String) : T :=
  .node "Path" [] [.node "IgnL" [] [leaf "Some"], .node "List" [] [.node "PathSegment" [] [.node "Ident" ["Dispatch"] [],
    .node "PathArguments::AngleBracketed" [] [.node "Ign" [] [leaf "None"],
      .node "List" [] [.node "GenericArgument::AssocType" [] [.node "AssocType" [] [.node "Ident" ["Group"] [], leaf "None", tyPath [seg g]]]]]]]]
/-- `impl<T: ::Dispatch<Group = GroupA>> Kita for T {}`  +  `impl<T: Dispatch<Group = GroupB>> Kita for T {}` -/
def itemsLc : List T := [implOf [tyParam "T" [traitBound (dispatchLc "GroupA")]] (tyPath [seg "T"]), blockFor "GroupB"]
/-- `n<a = g>` -/
def bind1 (n a g : String) : T :=
  path [.node "PathSegment" [] [.node "Ident" [n] [], .node "PathArguments::AngleBracketed" [] [.node "Ign" [] [leaf "None"],
    .node "List" [] [.node "GenericArgument::AssocType" [] [.node "AssocType" [] [.node "Ident" [a] [], leaf "None", tyPath [seg g]]]]]]]
def maybeBound (p : T) : T :=
  .node "TypeParamBound::Trait" [] [.node "TraitBound" [] [leaf "None", leaf "TraitBoundModifier::Maybe", leaf "None", p]]
/-- `impl<T: D1<G = A> + D2<H = X>> Kita for T {}`  +  `impl<T: D1<G = B> + ?D2> Kita for T {}` -/
def itemsMaybe : List T :=
  [implOf [tyParam "T" [traitBound (bind1 "D1" "G" "A"), traitBound (bind1 "D2" "H" "X")]] (tyPath [seg "T"]),
   implOf [tyParam "T" [traitBound (bind1 "D1" "G" "B"), maybeBound (path [seg "D2"])]] (tyPath [seg "T"])]
end E2E

section E2ECounter
open E2E
set_option maxRecDepth 1000000

/-- the side condition `flatGroupOK` cannot be dropped, witness 1 (leading `::`): `TraitBound::eq` ignores the leading
    `::` of a trait path, so `T: ::Dispatch<Group = GroupA>` and `T: Dispatch<Group = GroupB>` share one dispatch key,
    stored with the path of the LAST member (`Dispatch`); the first member has no clause `T: Dispatch` (its clause is
    `T: ::Dispatch`, which may be a different trait), so `memberOK` fails for it. The input is accepted and un-nested. -/
theorem C02_end_to_end_flat_memberOK_counterexample_leading_colon :
    ∃ gs, parseGroups itemsLc = .ok gs ∧
      (noNesting itemsLc &&
       gs.map (fun e => (flatGroupOK e, (familyOfGroup ["_ŠČ0"] e).members.map (fun m => memberOK (familyOfGroup ["_ŠČ0"] e) m)))
         == [(false, [false, true])]) = true :=
  ParseResult.ok_of_check (f := fun gs => noNesting itemsLc &&
    gs.map (fun e => (flatGroupOK e, (familyOfGroup ["_ŠČ0"] e).members.map (fun m => memberOK (familyOfGroup ["_ŠČ0"] e) m)))
      == [(false, [false, true])]) (by with_unfolding_all decide)

/-- witness 2 (relaxed bound): the code folds a `?Trait` bound into the rows like any other bound, so the second
    member gets a (wildcard) row under the key `T: D2` although `T: ?D2` is no clause of the block: `memberOK` fails
    for it. (Not valid Rust for a trait other than `Sized`; the model, like `syn`, accepts it.) -/
theorem C02_end_to_end_flat_memberOK_counterexample_maybe :
    ∃ gs, parseGroups itemsMaybe = .ok gs ∧
      (noNesting itemsMaybe &&
       gs.map (fun e => (flatGroupOK e, (familyOfGroup ["_ŠČ0"] e).members.map (fun m => memberOK (familyOfGroup ["_ŠČ0"] e) m)))
         == [(false, [true, false])]) = true :=
  ParseResult.ok_of_check (f := fun gs => noNesting itemsMaybe &&
    gs.map (fun e => (flatGroupOK e, (familyOfGroup ["_ŠČ0"] e).members.map (fun m => memberOK (familyOfGroup ["_ŠČ0"] e) m)))
      == [(false, [true, false])]) (by with_unfolding_all decide)

/-- hence the statement without `flatGroupOK` is false -/
theorem C02_end_to_end_flat_memberOK_unconditional_false :
    ¬ ∀ (items : List T) (groups : Groups), parseGroups items = .ok groups → noNesting items = true →
        ∀ e ∈ groups, ∀ m ∈ (familyOfGroup ["_ŠČ0"] e).members, memberOK (familyOfGroup ["_ŠČ0"] e) m = true := by
  intro hall
  obtain ⟨gs, hgs, hchk⟩ := C02_end_to_end_flat_memberOK_counterexample_leading_colon
  simp only [Bool.and_eq_true, beq_iff_eq] at hchk
  obtain ⟨hn, hmap⟩ := hchk
  have hall' := hall itemsLc gs hgs hn
  cases gs with
  | nil => simp at hmap
  | cons e rest =>
    simp only [List.map_cons, List.cons.injEq, Prod.mk.injEq] at hmap
    have h1 := hmap.1.2
    cases hmem : (familyOfGroup ["_ŠČ0"] e).members with
    | nil => rw [hmem] at h1; simp at h1
    | cons m ms =>
      rw [hmem] at h1
      simp only [List.map_cons, List.cons.injEq] at h1
      have := hall' e (by simp) m (by rw [hmem]; simp)
      rw [this] at h1
      exact absurd h1.1 (by simp)
end E2ECounter

namespace E2E
open Ex11
/-- the normalised trait path `Dispatch` -/
def dispTr : T := path [seg "Dispatch"]
def u32T : T := tyPath [seg "u32"]
def i64T : T := tyPath [seg "i64"]
/-- `u32: Dispatch<Group = GroupA>`, `i64: Dispatch<Group = GroupB>`, nothing else; every type is `Sized` -/
def W : World :=
  ⟨fun tr ty => if tr = dispTr ∧ ty = u32T then some [("Group", tyPath [seg "GroupA"])]
    else if tr = dispTr ∧ ty = i64T then some [("Group", tyPath [seg "GroupB"])] else none, fun _ => true⟩
def items : List T := [blockFor "GroupA", blockFor "GroupB"]
/-- the query `Kita for ty` -/
def query (ty : T) : T := .node "ImplGroupId" [] [.node "Some" [] [path [seg "Kita"]], ty]
end E2E

section E2EExample
open E2E
set_option maxRecDepth 1000000

/-- non-vacuity, on the README pair `impl<T: Dispatch<Group = GroupA>> Kita for T` / `… GroupB …` and the world `E2E.W`:
    the input is accepted, un-nested and passes the input check `flatInputOK`; its one family passes `flatGroupOK` and
    `hdrCoversB`;
    the world is total for its key and `Sized`-compatible. Hence the end-to-end theorem applies: for EVERY query the
    generated program selects some member iff some block applies; it does select one for `Kita for u32` and for
    `Kita for i64`. -/
theorem C02_end_to_end_readme :
    ∃ gs, parseGroups items = .ok gs ∧ noNesting items = true ∧ flatInputOK items = true ∧
      (∀ e ∈ gs, flatGroupOK e = true ∧ hdrCoversB (familyOfGroup ["_ŠČ0"] e) = true) ∧
      (∀ q, (∃ e ∈ gs, ∃ m ∈ (familyOfGroup ["_ŠČ0"] e).members, genSel W (familyOfGroup ["_ŠČ0"] e) m q) ↔
            (∃ it ∈ items, applies W (mkBlock (canon it)) q)) ∧
      (∃ e ∈ gs, ∃ m ∈ (familyOfGroup ["_ŠČ0"] e).members, genSel W (familyOfGroup ["_ŠČ0"] e) m (query u32T)) ∧
      (∃ e ∈ gs, ∃ m ∈ (familyOfGroup ["_ŠČ0"] e).members, genSel W (familyOfGroup ["_ŠČ0"] e) m (query i64T)) := by
  obtain ⟨gs, hgs, hchk⟩ := ParseResult.ok_of_check (r := parseGroups items)
    (f := fun gs => gs.all (fun e => flatGroupOK e && hdrCoversB (familyOfGroup ["_ŠČ0"] e) &&
      (familyOfGroup ["_ŠČ0"] e).keys.all (fun k => k.a == "Group"))) (by with_unfolding_all decide)
  have hn : noNesting items = true := by with_unfolding_all decide
  simp only [List.all_eq_true, Bool.and_eq_true, beq_iff_eq] at hchk
  have hok : ∀ e ∈ gs, flatGroupOK e = true ∧ hdrCoversB (familyOfGroup ["_ŠČ0"] e) = true :=
    fun e he => (hchk e he).1
  have hw : ∀ e ∈ gs, WorldTotal W (familyOfGroup ["_ŠČ0"] e) := by
    intro e he k hk tr ty bs hd
    rw [(hchk e he).2 k hk]
    simp only [W] at hd
    split at hd
    · cases hd; exact ⟨_, rfl⟩
    · split at hd
      · cases hd; exact ⟨_, rfl⟩
      · cases hd
  have hsz : ∀ e ∈ gs, ∀ m ∈ (familyOfGroup ["_ŠČ0"] e).members, SizedCompat W (familyOfGroup ["_ŠČ0"] e) m :=
    fun _ _ _ _ _ _ _ _ _ => rfl
  have hcov := C02_end_to_end_flat_coverage items gs hgs hn ["_ŠČ0"] hok W hw hsz
  refine ⟨gs, hgs, hn, by with_unfolding_all decide, hok, hcov, (hcov _).2 ?_, (hcov _).2 ?_⟩
  · exact ⟨Ex11.blockFor "GroupA", by simp [items],
      applies_of_B (ρ := [("_ŠČ0", .ty u32T)]) (by with_unfolding_all decide)⟩
  · exact ⟨Ex11.blockFor "GroupB", by simp [items],
      applies_of_B (ρ := [("_ŠČ0", .ty i64T)]) (by with_unfolding_all decide)⟩
end E2EExample

end DI
