/-
  C02 — exact coverage. Property theorems only.
-/
import DisjointImpls.Lemmas.Refine
namespace DI

/-- For a well-formed member (decidable `memberOK`, established by the grouping search — C11 — and re-validated
    on the implementation's real grouping for every generated case) the generated program selects the member for
    a query exactly when the member's block applies to it. -/
theorem C02_member_selected_iff_applies (W : World) (F : Family) (m : Member) (q : T)
    (hm : memberOK F m = true) (hw : WorldTotal W F) (hθ : ThetaCovers F m) (hs : SizedCompat W F m) :
    genSel W F m q ↔ applies W m.blk q :=
  ⟨gen_sub_spec W F m q, spec_sub_gen W F m q hm hw hθ hs⟩

/-- the trait is implemented for `q` through family `F` iff some member block of `F` applies to `q`:
    never narrowed by bounds only other blocks mention, nothing for queries no block matches -/
theorem C02_implemented_iff_applies (W : World) (F : Family) (q : T)
    (hm : ∀ m ∈ F.members, memberOK F m = true) (hw : WorldTotal W F)
    (hθ : ∀ m ∈ F.members, ThetaCovers F m) (hs : ∀ m ∈ F.members, SizedCompat W F m) :
    (∃ m ∈ F.members, genSel W F m q) ↔ (∃ m ∈ F.members, applies W m.blk q) := by
  constructor
  · rintro ⟨m, hmem, h⟩; exact ⟨m, hmem, gen_sub_spec W F m q h⟩
  · rintro ⟨m, hmem, h⟩; exact ⟨m, hmem, spec_sub_gen W F m q (hm m hmem) hw (hθ m hmem) (hs m hmem) h⟩

namespace D7
def str : T := .node "str" [] []
def bx (t : T) : T := .node "Box" [] [t]
def d : T := .node "D" [] []
def ga : T := .node "GA" [] []
def W : World := ⟨fun tr ty => if tr = d ∧ ty = bx str then some [("G", ga)] else none, fun t => t != str⟩
def blk : Block := ⟨bx (.tparam "p"), [⟨bx (.tparam "p"), d, [("G", ga)]⟩], []⟩
def m : Member := ⟨blk, [("p", .identity)], [some ga]⟩
def F : Family := ⟨bx (.tparam "p"), [⟨bx (.tparam "p"), d, "G"⟩], ["p"], [m]⟩
end D7

/-- the completeness direction is false without `SizedCompat` (defect D7: `?Sized` on a parameter that is not a
    key's bounded type is dropped from the main impl): a member relaxing `p` inside `Box<p>` applies to
    `Box<str>`, the main impl (which declares `p` sized) does not. -/
theorem C02_counterexample_D7 :
    ∃ (W : World) (F : Family) (m : Member) (q : T),
      memberOK F m = true ∧ applies W m.blk q ∧ ¬ genSel W F m q := by
  refine ⟨D7.W, D7.F, D7.m, D7.bx D7.str, by decide, ?_, ?_⟩
  · refine ⟨[("p", .ty D7.str)], by decide, by decide, ?_, ?_⟩
    · intro c hc
      have hc' : c = ⟨D7.bx (.tparam "p"), D7.d, [("G", D7.ga)]⟩ := by
        simpa [D7.m, D7.blk] using hc
      subst hc'
      refine ⟨[("G", D7.ga)], by decide, ?_⟩
      intro a p hap
      simp only [List.mem_singleton, Prod.mk.injEq] at hap
      obtain ⟨rfl, rfl⟩ := hap
      decide
    · intro p hp; simp [D7.m, D7.blk] at hp
  · rintro ⟨τ, gs, _, e, hsz, _⟩
    have hp := hsz "p" (by simp [D7.F])
    have : inst τ (.tparam "p") = D7.str := by
      have h := e
      simp only [D7.F, D7.bx] at h
      unfold inst at h
      split at h
      · next h1 _ _ => exact absurd h1 (by decide)
      · simp only [instL] at h
        injection h with _ _ h3
        injection h3 with h4 _
    rw [this] at hp
    revert hp
    decide

namespace ConstHdr
def u8 : T := .node "u8" [] []
def lit3 : T := .node "Expr::Lit" ["3"] []
def d : T := .node "D" [] []
def ga : T := .node "GA" [] []
def vec (t : T) : T := .node "Vec" [] [.node "GenericArgument::Type" [] [t]]
def gid (self : T) : T := .node "ImplGroupId" [] [.node "None" [] [], self]
/-- `[elem; len]` -/
def arr (elem len : T) : T := .node "Type::Array" [] [elem, len]
/-- `Wr<a, b>` with both arguments printed as types (a bare const argument is) -/
def wr (a b : T) : T := .node "Wr" [] [.node "GenericArgument::Type" [] [a], .node "GenericArgument::Type" [] [b]]

/-- every type is `Sized`; `D` is implemented for `u8` and `Vec<u8>` with `G = GA` -/
def W : World := ⟨fun tr ty => if tr = d ∧ (ty = u8 ∨ ty = vec u8) then some [("G", ga)] else none, fun _ => true⟩

/-- `impl<const N: usize, T: D<G = GA>> Kita for [T; N]` (`T` = `_ŠČ0`, `N` = `_ŠČ1`): the header has an expression
    parameter -/
def hdrA : T := gid (arr (.tparam "_ŠČ0") (.eparam "_ŠČ1"))
def keyA : Key := ⟨.tparam "_ŠČ0", d, "G"⟩
def blkA : Block := ⟨hdrA, [⟨.tparam "_ŠČ0", d, [("G", ga)]⟩], ["_ŠČ0"]⟩
def mA : Member := ⟨blkA, [("_ŠČ0", .identity), ("_ŠČ1", .identity)], [some ga]⟩
/-- a second, nested member `impl<const N: usize, T> Kita for [Vec<T>; N] where Vec<T>: D<G = GA>` -/
def blkA' : Block := ⟨gid (arr (vec (.tparam "_ŠČ0")) (.eparam "_ŠČ1")), [⟨vec (.tparam "_ŠČ0"), d, [("G", ga)]⟩], ["_ŠČ0"]⟩
def mA' : Member := ⟨blkA', [("_ŠČ0", .ty (vec (.tparam "_ŠČ0"))), ("_ŠČ1", .identity)], [some ga]⟩
def FA : Family := ⟨hdrA, [keyA], ["_ŠČ0"], [mA, mA']⟩

/-- `impl<const N: usize, T: D<G = GA>> Wr<N, T>`: the const argument is bare, printed like a type argument -/
def hdrB : T := gid (wr (.tparam "_ŠČ1") (.tparam "_ŠČ0"))
def blkB : Block := ⟨hdrB, [⟨.tparam "_ŠČ0", d, [("G", ga)]⟩], ["_ŠČ0"]⟩
def mB : Member := ⟨blkB, [("_ŠČ0", .identity), ("_ŠČ1", .identity)], [some ga]⟩
def FB : Family := ⟨hdrB, [keyA], ["_ŠČ0"], [mB]⟩

/-- `T := u8`, `N := 3` -/
def ρ : Subst := [("_ŠČ0", .ty u8), ("_ŠČ1", .ex lit3)]

theorem worldTotal (F : Family) (hF : F.keys = [keyA]) : WorldTotal W F := by
  intro k hk tr ty bs h
  rw [hF] at hk
  simp only [List.mem_singleton] at hk
  subst hk
  simp only [W] at h
  split at h
  · cases h; exact ⟨ga, rfl⟩
  · cases h

theorem sizedCompat (F : Family) (m : Member) : SizedCompat W F m := fun _ _ _ _ _ => rfl
end ConstHdr

open ConstHdr in
/-- the decidable hypotheses of the refinement hold for families whose header has a const parameter, in expression
    position (`[T; N]`, two members, one nested) and in the ambiguous generic-argument position (`Wr<N, T>`) -/
theorem C02_const_header_hypotheses :
    (memberOK FA mA = true ∧ thetaCoversB FA mA = true ∧ memberOK FA mA' = true ∧ thetaCoversB FA mA' = true ∧
      keysOverHeaderB FA = true) ∧
    (memberOK FB mB = true ∧ thetaCoversB FB mB = true ∧ keysOverHeaderB FB = true) := by
  decide

open ConstHdr in
/-- … and the refinement theorem is instantiated there: the block `impl<const N: usize, T: D<G = GA>> Kita for [T; N]`
    applies to the query `[u8; 3]` by a substitution that binds the const parameter, hence the generated program
    selects it; the nested member `[Vec<T>; N]` is selected for `[Vec<u8>; 3]`; `Wr<N, T>` for `Wr<3, u8>` (a
    `GenericArgument::Const`). No substitution without const bindings produces these queries. -/
theorem C02_const_header_selected :
    (genSel W FA mA (gid (arr u8 lit3)) ↔ applies W blkA (gid (arr u8 lit3))) ∧ genSel W FA mA (gid (arr u8 lit3)) ∧
    genSel W FA mA' (gid (arr (vec u8) lit3)) ∧
    genSel W FB mB (gid (.node "Wr" [] [.node "GenericArgument::Const" [] [lit3], .node "GenericArgument::Type" [] [u8]])) ∧
    ¬ ∃ σ, noEx σ ∧ inst σ hdrA = gid (arr u8 lit3) := by
  have hyp := C02_const_header_hypotheses
  have hA := C02_member_selected_iff_applies W FA mA (gid (arr u8 lit3)) hyp.1.1 (worldTotal FA rfl)
    ((thetaCoversB_iff FA mA).1 hyp.1.2.1) (sizedCompat FA mA)
  have hA' := C02_member_selected_iff_applies W FA mA' (gid (arr (vec u8) lit3)) hyp.1.2.2.1 (worldTotal FA rfl)
    ((thetaCoversB_iff FA mA').1 hyp.1.2.2.2.1) (sizedCompat FA mA')
  have hB := C02_member_selected_iff_applies W FB mB
    (gid (.node "Wr" [] [.node "GenericArgument::Const" [] [lit3], .node "GenericArgument::Type" [] [u8]]))
    hyp.2.1 (worldTotal FB rfl) ((thetaCoversB_iff FB mB).1 hyp.2.2.1) (sizedCompat FB mB)
  have clause : ∀ (b : T) (hb : inst ρ b = u8 ∨ inst ρ b = vec u8) (c : Clause), c = ⟨b, d, [("G", ga)]⟩ → holds W ρ c := by
    intro b hb c hc
    subst hc
    refine ⟨[("G", ga)], ?_, ?_⟩
    · show W.disp (inst ρ d) (inst ρ b) = _
      have : inst ρ d = d := by decide
      rw [this]
      show (if d = d ∧ (inst ρ b = u8 ∨ inst ρ b = vec u8) then some [("G", ga)] else none) = _
      rw [if_pos ⟨rfl, hb⟩]
    · intro a p hap
      simp only [List.mem_singleton, Prod.mk.injEq] at hap
      obtain ⟨rfl, rfl⟩ := hap
      decide
  refine ⟨hA, hA.2 ?_, hA'.2 ?_, hB.2 ?_, ?_⟩
  · refine ⟨ρ, by decide, by decide, ?_, fun _ _ => rfl⟩
    intro c hc
    exact clause (.tparam "_ŠČ0") (Or.inl (by decide)) c (by simpa [mA, blkA] using hc)
  · refine ⟨ρ, by decide, by decide, ?_, fun _ _ => rfl⟩
    intro c hc
    exact clause (vec (.tparam "_ŠČ0")) (Or.inr (by decide)) c (by simpa [mA', blkA'] using hc)
  · refine ⟨ρ, by decide, by decide, ?_, fun _ _ => rfl⟩
    intro c hc
    exact clause (.tparam "_ŠČ0") (Or.inl (by decide)) c (by simpa [mB, blkB] using hc)
  · rintro ⟨σ, hσ, h⟩
    simp only [hdrA, gid, arr] at h
    rw [inst_node σ hσ] at h
    simp only [instL] at h
    injection h with _ _ h
    injection h with _ h
    injection h with h _
    rw [inst_node σ hσ] at h
    simp only [instL] at h
    injection h with _ _ h
    injection h with _ h
    injection h with h _
    rw [instEp_notEx (hσ "_ŠČ1")] at h
    cases h

end DI
