/-
  C02 — exact coverage. Property theorems only.
-/
import DisjointImpls.Lemmas.Refine
namespace DI

/-- For a well-formed member (decidable `memberOK`, established by the grouping search — C11 — and re-validated
    on the implementation's real grouping for every generated case) the generated program selects the member for
    a query exactly when the member's block applies to it. -/
theorem C02_member_selected_iff_applies (W : World) (F : Family) (m : Member) (q : T)
    (hm : memberOK F m = true) (hw : WorldTotal W F) (hθ : ThetaCovers F m) (hs : SizedCompat W F m) :
    genSel W F m q ↔ applies W m.blk q :=
  ⟨gen_sub_spec W F m q, spec_sub_gen W F m q hm hw hθ hs⟩

/-- the trait is implemented for `q` through family `F` iff some member block of `F` applies to `q`:
    never narrowed by bounds only other blocks mention, nothing for queries no block matches -/
theorem C02_implemented_iff_applies (W : World) (F : Family) (q : T)
    (hm : ∀ m ∈ F.members, memberOK F m = true) (hw : WorldTotal W F)
    (hθ : ∀ m ∈ F.members, ThetaCovers F m) (hs : ∀ m ∈ F.members, SizedCompat W F m) :
    (∃ m ∈ F.members, genSel W F m q) ↔ (∃ m ∈ F.members, applies W m.blk q) := by
  constructor
  · rintro ⟨m, hmem, h⟩; exact ⟨m, hmem, gen_sub_spec W F m q h⟩
  · rintro ⟨m, hmem, h⟩; exact ⟨m, hmem, spec_sub_gen W F m q (hm m hmem) hw (hθ m hmem) (hs m hmem) h⟩

namespace D7
def str : T := .node "str" [] []
def bx (t : T) : T := .node "Box" [] [t]
def d : T := .node "D" [] []
def ga : T := .node "GA" [] []
def W : World := ⟨fun tr ty => if tr = d ∧ ty = bx str then some [("G", ga)] else none, fun t => t != str⟩
def blk : Block := ⟨bx (.tparam "p"), [⟨bx (.tparam "p"), d, [("G", ga)]⟩], []⟩
def m : Member := ⟨blk, [("p", .identity)], [some ga]⟩
def F : Family := ⟨bx (.tparam "p"), [⟨bx (.tparam "p"), d, "G"⟩], ["p"], [m]⟩
end D7

/-- the completeness direction is false without `SizedCompat` (defect D7: `?Sized` on a parameter that is not a
    key's bounded type is dropped from the main impl): a member relaxing `p` inside `Box<p>` applies to
    `Box<str>`, the main impl (which declares `p` sized) does not. -/
theorem C02_counterexample_D7 :
    ∃ (W : World) (F : Family) (m : Member) (q : T),
      memberOK F m = true ∧ applies W m.blk q ∧ ¬ genSel W F m q := by
  refine ⟨D7.W, D7.F, D7.m, D7.bx D7.str, by decide, ?_, ?_⟩
  · refine ⟨[("p", .ty D7.str)], ?_, by decide, ?_, ?_⟩
    · intro n e h
      by_cases hn : "p" = n
      · simp [lookup, hn] at h
      · simp [lookup, hn] at h
    · intro c hc
      have hc' : c = ⟨D7.bx (.tparam "p"), D7.d, [("G", D7.ga)]⟩ := by
        simpa [D7.m, D7.blk] using hc
      subst hc'
      refine ⟨[("G", D7.ga)], by decide, ?_⟩
      intro a p hap
      simp only [List.mem_singleton, Prod.mk.injEq] at hap
      obtain ⟨rfl, rfl⟩ := hap
      decide
    · intro p hp; simp [D7.m, D7.blk] at hp
  · rintro ⟨τ, gs, _, e, hsz, _⟩
    have hp := hsz "p" (by simp [D7.F])
    have : inst τ (.tparam "p") = D7.str := by
      have h := e
      simp only [D7.F, D7.bx] at h
      unfold inst at h
      split at h
      · next h1 _ _ => exact absurd h1 (by decide)
      · simp only [instL] at h
        injection h with _ _ h3
        injection h3 with h4 _
    rw [this] at hp
    revert hp
    decide

end DI
