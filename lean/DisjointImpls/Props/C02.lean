/-
  C02 — exact coverage. Property theorems only.
-/
import DisjointImpls.Lemmas.Refine
import DisjointImpls.Lemmas.EndToEnd
import DisjointImpls.Lemmas.EndToEndNested
import DisjointImpls.Props.C11
namespace DI

/-- For a well-formed member (decidable `memberOK`, established by the grouping search — C11 — and re-validated
    on the implementation's real grouping for every generated case) the generated program selects the member for
    a query exactly when the member's block applies to it. -/
theorem C02_member_selected_iff_applies (W : World) (F : Family) (m : Member) (q : T)
    (hm : memberOK F m = true) (hw : WorldTotal W F) (hθ : ThetaCovers F m) (hs : SizedCompat W F m) :
    genSel W F m q ↔ applies W m.blk q :=
  ⟨gen_sub_spec W F m q, spec_sub_gen W F m q hm hw hθ hs⟩

/-- the trait is implemented for `q` through family `F` iff some member block of `F` applies to `q`:
    never narrowed by bounds only other blocks mention, nothing for queries no block matches -/
theorem C02_implemented_iff_applies (W : World) (F : Family) (q : T)
    (hm : ∀ m ∈ F.members, memberOK F m = true) (hw : WorldTotal W F)
    (hθ : ∀ m ∈ F.members, ThetaCovers F m) (hs : ∀ m ∈ F.members, SizedCompat W F m) :
    (∃ m ∈ F.members, genSel W F m q) ↔ (∃ m ∈ F.members, applies W m.blk q) := by
  constructor
  · rintro ⟨m, hmem, h⟩; exact ⟨m, hmem, gen_sub_spec W F m q h⟩
  · rintro ⟨m, hmem, h⟩; exact ⟨m, hmem, spec_sub_gen W F m q (hm m hmem) hw (hθ m hmem) (hs m hmem) h⟩

namespace D7
def str : T := .node "str" [] []
def bx (t : T) : T := .node "Box" [] [t]
def d : T := .node "D" [] []
def ga : T := .node "GA" [] []
def W : World := ⟨fun tr ty => if tr = d ∧ ty = bx str then some [("G", ga)] else none, fun t => t != str⟩
def blk : Block := ⟨bx (.tparam "p"), [⟨bx (.tparam "p"), d, [("G", ga)]⟩], []⟩
def m : Member := ⟨blk, [("p", .identity)], [some ga]⟩
def F : Family := ⟨bx (.tparam "p"), [⟨bx (.tparam "p"), d, "G"⟩], ["p"], [m]⟩
end D7

/-- the completeness direction is false without `SizedCompat` (defect D7: `?Sized` on a parameter that is not a
    key's bounded type is dropped from the main impl): a member relaxing `p` inside `Box<p>` applies to
    `Box<str>`, the main impl (which declares `p` sized) does not. -/
theorem C02_counterexample_D7 :
    ∃ (W : World) (F : Family) (m : Member) (q : T),
      memberOK F m = true ∧ applies W m.blk q ∧ ¬ genSel W F m q := by
  refine ⟨D7.W, D7.F, D7.m, D7.bx D7.str, by decide, ?_, ?_⟩
  · refine ⟨[("p", .ty D7.str)], by decide, by decide, ?_, ?_⟩
    · intro c hc
      have hc' : c = ⟨D7.bx (.tparam "p"), D7.d, [("G", D7.ga)]⟩ := by
        simpa [D7.m, D7.blk] using hc
      subst hc'
      refine ⟨[("G", D7.ga)], by decide, ?_⟩
      intro a p hap
      simp only [List.mem_singleton, Prod.mk.injEq] at hap
      obtain ⟨rfl, rfl⟩ := hap
      decide
    · intro p hp; simp [D7.m, D7.blk] at hp
  · rintro ⟨τ, gs, _, e, hsz, _⟩
    have hp := hsz "p" (by simp [D7.F])
    have : inst τ (.tparam "p") = D7.str := by
      have h := e
      simp only [D7.F, D7.bx] at h
      unfold inst at h
      split at h
      · next h1 _ _ => exact absurd h1 (by decide)
      · simp only [instL] at h
        injection h with _ _ h3
        injection h3 with h4 _
    rw [this] at hp
    revert hp
    decide

namespace ConstHdr
def u8 : T := .node "u8" [] []
def lit3 : T := .node "Expr::Lit" ["3"] []
def d : T := .node "D" [] []
def ga : T := .node "GA" [] []
def vec (t : T) : T := .node "Vec" [] [.node "GenericArgument::Type" [] [t]]
def gid (self : T) : T := .node "ImplGroupId" [] [.node "None" [] [], self]
/-- `[elem; len]` -/
def arr (elem len : T) : T := .node "Type::Array" [] [elem, len]
/-- `Wr<a, b>` with both arguments printed as types (a bare const argument is) -/
def wr (a b : T) : T := .node "Wr" [] [.node "GenericArgument::Type" [] [a], .node "GenericArgument::Type" [] [b]]

/-- every type is `Sized`; `D` is implemented for `u8` and `Vec<u8>` with `G = GA` -/
def W : World := ⟨fun tr ty => if tr = d ∧ (ty = u8 ∨ ty = vec u8) then some [("G", ga)] else none, fun _ => true⟩

/-- `impl<const N: usize, T: D<G = GA>> Kita for [T; N]` (`T` = `_ŠČ0`, `N` = `_ŠČ1`): the header has an expression
    parameter -/
def hdrA : T := gid (arr (.tparam "_ŠČ0") (.eparam "_ŠČ1"))
def keyA : Key := ⟨.tparam "_ŠČ0", d, "G"⟩
def blkA : Block := ⟨hdrA, [⟨.tparam "_ŠČ0", d, [("G", ga)]⟩], ["_ŠČ0"]⟩
def mA : Member := ⟨blkA, [("_ŠČ0", .identity), ("_ŠČ1", .identity)], [some ga]⟩
/-- a second, nested member `impl<const N: usize, T> Kita for [Vec<T>; N] where Vec<T>: D<G = GA>` -/
def blkA' : Block := ⟨gid (arr (vec (.tparam "_ŠČ0")) (.eparam "_ŠČ1")), [⟨vec (.tparam "_ŠČ0"), d, [("G", ga)]⟩], ["_ŠČ0"]⟩
def mA' : Member := ⟨blkA', [("_ŠČ0", .ty (vec (.tparam "_ŠČ0"))), ("_ŠČ1", .identity)], [some ga]⟩
def FA : Family := ⟨hdrA, [keyA], ["_ŠČ0"], [mA, mA']⟩

/-- `impl<const N: usize, T: D<G = GA>> Wr<N, T>`: the const argument is bare, printed like a type argument -/
def hdrB : T := gid (wr (.tparam "_ŠČ1") (.tparam "_ŠČ0"))
def blkB : Block := ⟨hdrB, [⟨.tparam "_ŠČ0", d, [("G", ga)]⟩], ["_ŠČ0"]⟩
def mB : Member := ⟨blkB, [("_ŠČ0", .identity), ("_ŠČ1", .identity)], [some ga]⟩
def FB : Family := ⟨hdrB, [keyA], ["_ŠČ0"], [mB]⟩

/-- `T := u8`, `N := 3` -/
def ρ : Subst := [("_ŠČ0", .ty u8), ("_ŠČ1", .ex lit3)]

theorem worldTotal (F : Family) (hF : F.keys = [keyA]) : WorldTotal W F := by
  intro k hk tr ty bs h
  rw [hF] at hk
  simp only [List.mem_singleton] at hk
  subst hk
  simp only [W] at h
  split at h
  · cases h; exact ⟨ga, rfl⟩
  · cases h

theorem sizedCompat (F : Family) (m : Member) : SizedCompat W F m := fun _ _ _ _ _ => rfl
end ConstHdr

open ConstHdr in
/-- the decidable hypotheses of the refinement hold for families whose header has a const parameter, in expression
    position (`[T; N]`, two members, one nested) and in the ambiguous generic-argument position (`Wr<N, T>`) -/
theorem C02_const_header_hypotheses :
    (memberOK FA mA = true ∧ thetaCoversB FA mA = true ∧ memberOK FA mA' = true ∧ thetaCoversB FA mA' = true ∧
      keysOverHeaderB FA = true) ∧
    (memberOK FB mB = true ∧ thetaCoversB FB mB = true ∧ keysOverHeaderB FB = true) := by
  decide

open ConstHdr in
/-- … and the refinement theorem is instantiated there: the block `impl<const N: usize, T: D<G = GA>> Kita for [T; N]`
    applies to the query `[u8; 3]` by a substitution that binds the const parameter, hence the generated program
    selects it; the nested member `[Vec<T>; N]` is selected for `[Vec<u8>; 3]`; `Wr<N, T>` for `Wr<3, u8>` (a
    `GenericArgument::Const`). No substitution without const bindings produces these queries. -/
theorem C02_const_header_selected :
    (genSel W FA mA (gid (arr u8 lit3)) ↔ applies W blkA (gid (arr u8 lit3))) ∧ genSel W FA mA (gid (arr u8 lit3)) ∧
    genSel W FA mA' (gid (arr (vec u8) lit3)) ∧
    genSel W FB mB (gid (.node "Wr" [] [.node "GenericArgument::Const" [] [lit3], .node "GenericArgument::Type" [] [u8]])) ∧
    ¬ ∃ σ, noEx σ ∧ inst σ hdrA = gid (arr u8 lit3) := by
  have hyp := C02_const_header_hypotheses
  have hA := C02_member_selected_iff_applies W FA mA (gid (arr u8 lit3)) hyp.1.1 (worldTotal FA rfl)
    ((thetaCoversB_iff FA mA).1 hyp.1.2.1) (sizedCompat FA mA)
  have hA' := C02_member_selected_iff_applies W FA mA' (gid (arr (vec u8) lit3)) hyp.1.2.2.1 (worldTotal FA rfl)
    ((thetaCoversB_iff FA mA').1 hyp.1.2.2.2.1) (sizedCompat FA mA')
  have hB := C02_member_selected_iff_applies W FB mB
    (gid (.node "Wr" [] [.node "GenericArgument::Const" [] [lit3], .node "GenericArgument::Type" [] [u8]]))
    hyp.2.1 (worldTotal FB rfl) ((thetaCoversB_iff FB mB).1 hyp.2.2.1) (sizedCompat FB mB)
  have clause : ∀ (b : T) (hb : inst ρ b = u8 ∨ inst ρ b = vec u8) (c : Clause), c = ⟨b, d, [("G", ga)]⟩ → holds W ρ c := by
    intro b hb c hc
    subst hc
    refine ⟨[("G", ga)], ?_, ?_⟩
    · show W.disp (inst ρ d) (inst ρ b) = _
      have : inst ρ d = d := by decide
      rw [this]
      show (if d = d ∧ (inst ρ b = u8 ∨ inst ρ b = vec u8) then some [("G", ga)] else none) = _
      rw [if_pos ⟨rfl, hb⟩]
    · intro a p hap
      simp only [List.mem_singleton, Prod.mk.injEq] at hap
      obtain ⟨rfl, rfl⟩ := hap
      decide
  refine ⟨hA, hA.2 ?_, hA'.2 ?_, hB.2 ?_, ?_⟩
  · refine ⟨ρ, by decide, by decide, ?_, fun _ _ => rfl⟩
    intro c hc
    exact clause (.tparam "_ŠČ0") (Or.inl (by decide)) c (by simpa [mA, blkA] using hc)
  · refine ⟨ρ, by decide, by decide, ?_, fun _ _ => rfl⟩
    intro c hc
    exact clause (vec (.tparam "_ŠČ0")) (Or.inr (by decide)) c (by simpa [mA', blkA'] using hc)
  · refine ⟨ρ, by decide, by decide, ?_, fun _ _ => rfl⟩
    intro c hc
    exact clause (.tparam "_ŠČ0") (Or.inl (by decide)) c (by simpa [mB, blkB] using hc)
  · rintro ⟨σ, hσ, h⟩
    simp only [hdrA, gid, arr] at h
    rw [inst_node σ hσ] at h
    simp only [instL] at h
    injection h with _ _ h
    injection h with _ h
    injection h with h _
    rw [inst_node σ hσ] at h
    simp only [instL] at h
    injection h with _ _ h
    injection h with _ h
    injection h with h _
    rw [instEp_notEx (hσ "_ŠČ1")] at h
    cases h

/-! ## End to end for un-nested invocations: from the grouping the model computes to the refinement

  `familyOfGroup sp e` (Lemmas/EndToEnd.lean) abstracts a group `e = (header, keys with rows, members)` of the model's
  grouping into a `Family`, the way `Bounds.mkFamily` / `mkMember` do from the wire representation
  (`memberOfGroup_eq_mkMember`); `sp` are the `Sized` parameters of the main impl (they play no role in `memberOK` /
  `thetaCoversB`). Side conditions, all executable, per group:
  * `noNesting items` (Props/C11): no header generalises another one, so every member joins through the self-match;
  * `flatGroupOK e`: `selfClean` — the header matches itself with identity bindings and no lenient arm; every dispatch
    key has a `wfPath` trait path; every trait bound of a member with the same dispatch key as a key of the family is
    `wfPath`, has the same leading `::` as the family's key (`normTr` keeps it, `TraitBound::eq` ignores it) and is not a
    relaxed `?Trait` bound (relaxed bounds are folded into the rows by the code but are no clauses of the block);
  * `hdrCoversB F` (for `thetaCoversB` only): the header is `wf` for the matcher (C09), all parameter occurrences of the
    header and the keys are visible to the matcher in the header, no expression parameter in a type-argument position. -/

/-- the hypothesis `memberOK` of the refinement theorems holds for every member of every family the model computes for
    an un-nested invocation -/
theorem C02_end_to_end_flat_memberOK (items : List T) (groups : Groups) (h : parseGroups items = .ok groups)
    (hn : noNesting items = true) (sp : List String) :
    ∀ e ∈ groups, flatGroupOK e = true →
      ∀ m ∈ (familyOfGroup sp e).members, memberOK (familyOfGroup sp e) m = true :=
  fun _ he hok => flat_memberOK h (noNesting_spec items hn) sp he hok

/-- … and so does `thetaCoversB` (the executable form of `ThetaCovers`) -/
theorem C02_end_to_end_flat_hypotheses (items : List T) (groups : Groups) (h : parseGroups items = .ok groups)
    (hn : noNesting items = true) (sp : List String) :
    ∀ e ∈ groups, flatGroupOK e = true → hdrCoversB (familyOfGroup sp e) = true →
      ∀ m ∈ (familyOfGroup sp e).members,
        memberOK (familyOfGroup sp e) m = true ∧ thetaCoversB (familyOfGroup sp e) m = true :=
  fun _ he hok hcov m hm => ⟨flat_memberOK h (noNesting_spec items hn) sp he hok m hm,
    flat_thetaCovers h (noNesting_spec items hn) sp he hcov m hm⟩

/-- EXACT COVERAGE, END TO END, for un-nested invocations: for every input of the model that is accepted, has no
    nested headers and passes the executable checks (no distinctness of the blocks is needed: textually identical
    blocks, finding D12, denote the same block), for every world in
    which dispatch traits define their associated types (`WorldTotal`) and the `Sized` requirements are compatible
    (`SizedCompat`; fails for finding D7), and for every query `q`: the generated program implements the trait for `q`
    through some family and member  iff  one of the user's blocks applies to `q`. -/
theorem C02_end_to_end_flat_coverage (items : List T) (groups : Groups) (h : parseGroups items = .ok groups)
    (hn : noNesting items = true) (sp : List String)
    (hok : ∀ e ∈ groups, flatGroupOK e = true ∧ hdrCoversB (familyOfGroup sp e) = true)
    (W : World) (hw : ∀ e ∈ groups, WorldTotal W (familyOfGroup sp e))
    (hsz : ∀ e ∈ groups, ∀ m ∈ (familyOfGroup sp e).members, SizedCompat W (familyOfGroup sp e) m) (q : T) :
    (∃ e ∈ groups, ∃ m ∈ (familyOfGroup sp e).members, genSel W (familyOfGroup sp e) m q) ↔
    (∃ it ∈ items, applies W (mkBlock (canon it)) q) :=
  flat_coverage h (noNesting_spec items hn) sp hok W hw hsz q

/-- the group-level check follows from a check on the INPUT alone (`flatInputOK items`: every header matches itself
    with identity bindings; for two blocks with the same header, a trait bound with the same dispatch key as a
    binding-carrying trait bound of the other is not relaxed, both paths are `wfPath` and agree on the leading `::`) -/
theorem C02_flatGroupOK_of_input (items : List T) (groups : Groups) (h : parseGroups items = .ok groups)
    (hn : noNesting items = true) (hin : flatInputOK items = true) : ∀ e ∈ groups, flatGroupOK e = true :=
  fun _ he => flatGroupOK_of_input h (noNesting_spec items hn) hin he

/-- … so `memberOK` holds for every member of every family of an accepted un-nested invocation that passes the input
    check -/
theorem C02_end_to_end_flat_memberOK_input (items : List T) (groups : Groups) (h : parseGroups items = .ok groups)
    (hn : noNesting items = true) (hin : flatInputOK items = true) (sp : List String) :
    ∀ e ∈ groups, ∀ m ∈ (familyOfGroup sp e).members, memberOK (familyOfGroup sp e) m = true :=
  fun e he => C02_end_to_end_flat_memberOK items groups h hn sp e he (C02_flatGroupOK_of_input items groups h hn hin e he)

/-- `familyOfGroup` is the abstraction the checks use: it equals `Bounds.mkFamily` (the driver's `family` command)
    applied to the wire encoding of the group — keys `List [Tuple [Bounded [b], TraitBound [p], Ident [a]] …]`, rows
    `List [List [Some [p] | None …] …]`, the members' items — with the `Sized` parameters of the main impl handed over -/
theorem C02_familyOfGroup_is_mkFamily (e : T × ABG × List Blk) (mainImpl : T) :
    mkFamily e.1 (encKeys e.2.1.idents) (encRows e.2.1.payloads) mainImpl (e.2.2.map (·.item)) =
      familyOfGroup (match mainImpl with
        | .node "Some" [] [item] => mkBlock item
        | _ => ⟨.node "?" [] [], [], []⟩).sizedParams e :=
  familyOfGroup_eq_mkFamily e mainImpl

namespace E2E
open Ex11
/-- `::Dispatch<Group = g>` (leading `::`) -/
def dispatchLc (g : String) : T :=
  .node "Path" [] [.node "IgnL" [] [leaf "Some"], .node "List" [] [.node "PathSegment" [] [.node "Ident" ["Dispatch"] [],
    .node "PathArguments::AngleBracketed" [] [.node "Ign" [] [leaf "None"],
      .node "List" [] [.node "GenericArgument::AssocType" [] [.node "AssocType" [] [.node "Ident" ["Group"] [], leaf "None", tyPath [seg g]]]]]]]]
/-- `impl<T: ::Dispatch<Group = GroupA>> Kita for T {}`  +  `impl<T: Dispatch<Group = GroupB>> Kita for T {}` -/
def itemsLc : List T := [implOf [tyParam "T" [traitBound (dispatchLc "GroupA")]] (tyPath [seg "T"]), blockFor "GroupB"]
/-- `n<a = g>` -/
def bind1 (n a g : String) : T :=
  path [.node "PathSegment" [] [.node "Ident" [n] [], .node "PathArguments::AngleBracketed" [] [.node "Ign" [] [leaf "None"],
    .node "List" [] [.node "GenericArgument::AssocType" [] [.node "AssocType" [] [.node "Ident" [a] [], leaf "None", tyPath [seg g]]]]]]]
def maybeBound (p : T) : T :=
  .node "TypeParamBound::Trait" [] [.node "TraitBound" [] [leaf "None", leaf "TraitBoundModifier::Maybe", leaf "None", p]]
/-- `impl<T: D1<G = A> + D2<H = X>> Kita for T {}`  +  `impl<T: D1<G = B> + ?D2> Kita for T {}` -/
def itemsMaybe : List T :=
  [implOf [tyParam "T" [traitBound (bind1 "D1" "G" "A"), traitBound (bind1 "D2" "H" "X")]] (tyPath [seg "T"]),
   implOf [tyParam "T" [traitBound (bind1 "D1" "G" "B"), maybeBound (path [seg "D2"])]] (tyPath [seg "T"])]
end E2E

section E2ECounter
open E2E
set_option maxRecDepth 1000000

/-- the side condition `flatGroupOK` cannot be dropped, witness 1 (leading `::`): `TraitBound::eq` ignores the leading
    `::` of a trait path, so `T: ::Dispatch<Group = GroupA>` and `T: Dispatch<Group = GroupB>` share one dispatch key,
    stored with the path of the LAST member (`Dispatch`); the first member has no clause `T: Dispatch` (its clause is
    `T: ::Dispatch`, which may be a different trait), so `memberOK` fails for it. The input is accepted and un-nested. -/
theorem C02_end_to_end_flat_memberOK_counterexample_leading_colon :
    ∃ gs, parseGroups itemsLc = .ok gs ∧
      (noNesting itemsLc &&
       gs.map (fun e => (flatGroupOK e, (familyOfGroup ["_ŠČ0"] e).members.map (fun m => memberOK (familyOfGroup ["_ŠČ0"] e) m)))
         == [(false, [false, true])]) = true :=
  ParseResult.ok_of_check (f := fun gs => noNesting itemsLc &&
    gs.map (fun e => (flatGroupOK e, (familyOfGroup ["_ŠČ0"] e).members.map (fun m => memberOK (familyOfGroup ["_ŠČ0"] e) m)))
      == [(false, [false, true])]) (by with_unfolding_all decide)

/-- witness 2 (relaxed bound): the code folds a `?Trait` bound into the rows like any other bound, so the second
    member gets a (wildcard) row under the key `T: D2` although `T: ?D2` is no clause of the block: `memberOK` fails
    for it. (Not valid Rust for a trait other than `Sized`; the model, like `syn`, accepts it.) -/
theorem C02_end_to_end_flat_memberOK_counterexample_maybe :
    ∃ gs, parseGroups itemsMaybe = .ok gs ∧
      (noNesting itemsMaybe &&
       gs.map (fun e => (flatGroupOK e, (familyOfGroup ["_ŠČ0"] e).members.map (fun m => memberOK (familyOfGroup ["_ŠČ0"] e) m)))
         == [(false, [true, false])]) = true :=
  ParseResult.ok_of_check (f := fun gs => noNesting itemsMaybe &&
    gs.map (fun e => (flatGroupOK e, (familyOfGroup ["_ŠČ0"] e).members.map (fun m => memberOK (familyOfGroup ["_ŠČ0"] e) m)))
      == [(false, [true, false])]) (by with_unfolding_all decide)

/-- hence the statement without `flatGroupOK` is false -/
theorem C02_end_to_end_flat_memberOK_unconditional_false :
    ¬ ∀ (items : List T) (groups : Groups), parseGroups items = .ok groups → noNesting items = true →
        ∀ e ∈ groups, ∀ m ∈ (familyOfGroup ["_ŠČ0"] e).members, memberOK (familyOfGroup ["_ŠČ0"] e) m = true := by
  intro hall
  obtain ⟨gs, hgs, hchk⟩ := C02_end_to_end_flat_memberOK_counterexample_leading_colon
  simp only [Bool.and_eq_true, beq_iff_eq] at hchk
  obtain ⟨hn, hmap⟩ := hchk
  have hall' := hall itemsLc gs hgs hn
  cases gs with
  | nil => simp at hmap
  | cons e rest =>
    simp only [List.map_cons, List.cons.injEq, Prod.mk.injEq] at hmap
    have h1 := hmap.1.2
    cases hmem : (familyOfGroup ["_ŠČ0"] e).members with
    | nil => rw [hmem] at h1; simp at h1
    | cons m ms =>
      rw [hmem] at h1
      simp only [List.map_cons, List.cons.injEq] at h1
      have := hall' e (by simp) m (by rw [hmem]; simp)
      rw [this] at h1
      exact absurd h1.1 (by simp)
end E2ECounter

namespace E2E
open Ex11
/-- the normalised trait path `Dispatch` -/
def dispTr : T := path [seg "Dispatch"]
def u32T : T := tyPath [seg "u32"]
def i64T : T := tyPath [seg "i64"]
/-- `u32: Dispatch<Group = GroupA>`, `i64: Dispatch<Group = GroupB>`, nothing else; every type is `Sized` -/
def W : World :=
  ⟨fun tr ty => if tr = dispTr ∧ ty = u32T then some [("Group", tyPath [seg "GroupA"])]
    else if tr = dispTr ∧ ty = i64T then some [("Group", tyPath [seg "GroupB"])] else none, fun _ => true⟩
def items : List T := [blockFor "GroupA", blockFor "GroupB"]
/-- the query `Kita for ty` -/
def query (ty : T) : T := .node "ImplGroupId" [] [.node "Some" [] [path [seg "Kita"]], ty]
end E2E

section E2EExample
open E2E
set_option maxRecDepth 1000000

/-- non-vacuity, on the README pair `impl<T: Dispatch<Group = GroupA>> Kita for T` / `… GroupB …` and the world `E2E.W`:
    the input is accepted, un-nested and passes the input check `flatInputOK`; its one family passes `flatGroupOK` and
    `hdrCoversB`;
    the world is total for its key and `Sized`-compatible. Hence the end-to-end theorem applies: for EVERY query the
    generated program selects some member iff some block applies; it does select one for `Kita for u32` and for
    `Kita for i64`. -/
theorem C02_end_to_end_readme :
    ∃ gs, parseGroups items = .ok gs ∧ noNesting items = true ∧ flatInputOK items = true ∧
      (∀ e ∈ gs, flatGroupOK e = true ∧ hdrCoversB (familyOfGroup ["_ŠČ0"] e) = true) ∧
      (∀ q, (∃ e ∈ gs, ∃ m ∈ (familyOfGroup ["_ŠČ0"] e).members, genSel W (familyOfGroup ["_ŠČ0"] e) m q) ↔
            (∃ it ∈ items, applies W (mkBlock (canon it)) q)) ∧
      (∃ e ∈ gs, ∃ m ∈ (familyOfGroup ["_ŠČ0"] e).members, genSel W (familyOfGroup ["_ŠČ0"] e) m (query u32T)) ∧
      (∃ e ∈ gs, ∃ m ∈ (familyOfGroup ["_ŠČ0"] e).members, genSel W (familyOfGroup ["_ŠČ0"] e) m (query i64T)) := by
  obtain ⟨gs, hgs, hchk⟩ := ParseResult.ok_of_check (r := parseGroups items)
    (f := fun gs => gs.all (fun e => flatGroupOK e && hdrCoversB (familyOfGroup ["_ŠČ0"] e) &&
      (familyOfGroup ["_ŠČ0"] e).keys.all (fun k => k.a == "Group"))) (by with_unfolding_all decide)
  have hn : noNesting items = true := by with_unfolding_all decide
  simp only [List.all_eq_true, Bool.and_eq_true, beq_iff_eq] at hchk
  have hok : ∀ e ∈ gs, flatGroupOK e = true ∧ hdrCoversB (familyOfGroup ["_ŠČ0"] e) = true :=
    fun e he => (hchk e he).1
  have hw : ∀ e ∈ gs, WorldTotal W (familyOfGroup ["_ŠČ0"] e) := by
    intro e he k hk tr ty bs hd
    rw [(hchk e he).2 k hk]
    simp only [W] at hd
    split at hd
    · cases hd; exact ⟨_, rfl⟩
    · split at hd
      · cases hd; exact ⟨_, rfl⟩
      · cases hd
  have hsz : ∀ e ∈ gs, ∀ m ∈ (familyOfGroup ["_ŠČ0"] e).members, SizedCompat W (familyOfGroup ["_ŠČ0"] e) m :=
    fun _ _ _ _ _ _ _ _ _ => rfl
  have hcov := C02_end_to_end_flat_coverage items gs hgs hn ["_ŠČ0"] hok W hw hsz
  refine ⟨gs, hgs, hn, by with_unfolding_all decide, hok, hcov, (hcov _).2 ?_, (hcov _).2 ?_⟩
  · exact ⟨Ex11.blockFor "GroupA", by simp [items],
      applies_of_B (ρ := [("_ŠČ0", .ty u32T)]) (by with_unfolding_all decide)⟩
  · exact ⟨Ex11.blockFor "GroupB", by simp [items],
      applies_of_B (ρ := [("_ŠČ0", .ty i64T)]) (by with_unfolding_all decide)⟩
end E2EExample

/-! ## End to end for ARBITRARY accepted invocations (nested headers included)

  `Lemmas/EndToEndNested.lean`. Side conditions, all executable:
  * `nestedGroupOK (parseEnv items) e` (per group): every dispatch key has a `wfPath` trait path, and every member `i`
    (block `b`, substitution `θ` = the matcher's answer on family header / member header, which is proved to be the
    substitution the search used — `C02_member_theta_is_search_subst`) passes `nestedMemberOK`:
    - `inst θ (family header) == member header` EXACTLY (C09 gives it only modulo presentation, `erase`; checked);
    - the founding member's `θ` is the identity;
    - for every own key `k'` of the member one of whose re-expressions `sk` (`reexpr`, C11 Part 6) is a key of the family:
      `θ` is the identity, or `untouched θ k'.1 && untouched θ k'.2` (the D4 condition of `C10_bound_roundtrip`: a
      parameter of the bound that reverse substitution leaves in place is fixed by `θ`) and `instCommOK_nst sk.2` (`normTr`
      commutes with `inst` on the re-expressed trait path — `C02_normTr_inst`); `wfPath` of `sk.2`, `k'.2` and of every
      trait bound of the block with the dispatch key of `k'`, agreement on the leading `::`, no relaxed `?Trait` bound
      (as in `flatGroupOK`, which is the special case — `C02_nestedGroupOK_of_flat`);
  * `nestedCoversB F` (for `thetaCoversB`): header `wf` (C09), all parameter occurrences of header and keys visible to the
    matcher in the header, every member's `θ` is the matcher's answer without a lenient arm and `kindOK` for header / keys;
  * `acyclicB items` (coverage, direction ⇐ only): the recorded header relation is acyclic, so every block is placed. -/

/-- `normTr` (the normalisation of a trait path into the dispatch key's trait: bindings removed, `Tr<>` = `Tr`, turbofish
    erased) commutes with every instantiation on a path that passes the executable check `instCommOK_nst`: `wfPath`, every
    segment has `None` / `AngleBracketed [_, List _]` arguments, no generic argument of the last segment is a bare
    parameter occurrence -/
theorem C02_normTr_inst (θ : Subst) (p : T) (h : instCommOK_nst p = true) : normTr (inst θ p) = inst θ (normTr p) :=
  normTr_inst_nst θ h

/-- the substitution of a member in the abstraction (`memberTheta_nst`: what `Bounds.mkMember` computes, the matcher's
    answer on the two headers) IS the substitution with which the search let the block join the family (`memberSubst`,
    C11 Part 6), and it has distinct keys — no side condition -/
theorem C02_member_theta_is_search_subst (items : List T) (gid : T) (b : Blk) (σ : Subst)
    (h : memberSubst (parseEnv items) gid (groupIdOf b.item) = some σ) :
    memberTheta_nst gid b = σ ∧ (σ.map Prod.fst).Nodup :=
  memberTheta_eq_nst h

/-- the hypothesis `memberOK` of the refinement theorems holds for every member — nested or not — of every family the
    model computes for an accepted invocation, when the group passes `nestedGroupOK` -/
theorem C02_end_to_end_memberOK (items : List T) (groups : Groups) (h : parseGroups items = .ok groups) (sp : List String) :
    ∀ e ∈ groups, nestedGroupOK (parseEnv items) e = true →
      ∀ m ∈ (familyOfGroup sp e).members, memberOK (familyOfGroup sp e) m = true :=
  fun _ he hok => nested_memberOK h sp he hok

/-- `flatGroupOK` is the special case of `nestedGroupOK` for un-nested invocations … -/
theorem C02_nestedGroupOK_of_flat (items : List T) (groups : Groups) (h : parseGroups items = .ok groups)
    (hn : noNesting items = true) : ∀ e ∈ groups, flatGroupOK e = true → nestedGroupOK (parseEnv items) e = true :=
  fun _ he hok => nestedGroupOK_of_flat h (noNesting_spec items hn) he hok

/-- … so `C02_end_to_end_flat_memberOK` follows from `C02_end_to_end_memberOK` -/
theorem C02_end_to_end_flat_memberOK_from_nested (items : List T) (groups : Groups) (h : parseGroups items = .ok groups)
    (hn : noNesting items = true) (sp : List String) :
    ∀ e ∈ groups, flatGroupOK e = true →
      ∀ m ∈ (familyOfGroup sp e).members, memberOK (familyOfGroup sp e) m = true :=
  fun e he hok => C02_end_to_end_memberOK items groups h sp e he (C02_nestedGroupOK_of_flat items groups h hn e he hok)

/-- `thetaCoversB` (the executable form of `ThetaCovers`) for every member of a family that passes `nestedCoversB`
    (a statement about the family alone; `C09_binds_all_wf` supplies the bindings, the kinds are checked) -/
theorem C02_end_to_end_thetaCovers (F : Family) (hcov : nestedCoversB F = true) :
    ∀ m ∈ F.members, thetaCoversB F m = true :=
  nested_thetaCovers hcov

/-- both decidable hypotheses of the refinement, for every member of every family of an accepted invocation -/
theorem C02_end_to_end_hypotheses (items : List T) (groups : Groups) (h : parseGroups items = .ok groups) (sp : List String) :
    ∀ e ∈ groups, nestedGroupOK (parseEnv items) e = true → nestedCoversB (familyOfGroup sp e) = true →
      ∀ m ∈ (familyOfGroup sp e).members,
        memberOK (familyOfGroup sp e) m = true ∧ thetaCoversB (familyOfGroup sp e) m = true :=
  fun _ he hok hcov m hm => ⟨nested_memberOK h sp he hok m hm, nested_thetaCovers hcov m hm⟩

/-- EXACT COVERAGE, END TO END, for arbitrary accepted invocations: for every input of the model that is accepted, whose
    recorded header relation is acyclic (`acyclicB`, C11 Part 4b) and whose groups pass the executable checks, for every
    world in which dispatch traits define their associated types (`WorldTotal`) and the `Sized` requirements are
    compatible (`SizedCompat`; fails for finding D7), and for every query `q`: the generated program implements the trait
    for `q` through some family and member  iff  one of the user's blocks applies to `q`. -/
theorem C02_end_to_end_coverage (items : List T) (groups : Groups) (h : parseGroups items = .ok groups)
    (ha : acyclicB items = true) (sp : List String)
    (hok : ∀ e ∈ groups, nestedGroupOK (parseEnv items) e = true ∧ nestedCoversB (familyOfGroup sp e) = true)
    (W : World) (hw : ∀ e ∈ groups, WorldTotal W (familyOfGroup sp e))
    (hsz : ∀ e ∈ groups, ∀ m ∈ (familyOfGroup sp e).members, SizedCompat W (familyOfGroup sp e) m) (q : T) :
    (∃ e ∈ groups, ∃ m ∈ (familyOfGroup sp e).members, genSel W (familyOfGroup sp e) m q) ↔
    (∃ it ∈ items, applies W (mkBlock (canon it)) q) :=
  nested_coverage h ha sp hok W hw hsz q

/-- the un-nested end-to-end coverage theorem `C02_end_to_end_flat_coverage` is the special case of
    `C02_end_to_end_coverage`: `noNesting` implies `acyclicB`, `flatGroupOK` implies `nestedGroupOK`, `hdrCoversB` implies
    `nestedCoversB` -/
theorem C02_end_to_end_flat_coverage_from_nested (items : List T) (groups : Groups) (h : parseGroups items = .ok groups)
    (hn : noNesting items = true) (sp : List String)
    (hok : ∀ e ∈ groups, flatGroupOK e = true ∧ hdrCoversB (familyOfGroup sp e) = true)
    (W : World) (hw : ∀ e ∈ groups, WorldTotal W (familyOfGroup sp e))
    (hsz : ∀ e ∈ groups, ∀ m ∈ (familyOfGroup sp e).members, SizedCompat W (familyOfGroup sp e) m) (q : T) :
    (∃ e ∈ groups, ∃ m ∈ (familyOfGroup sp e).members, genSel W (familyOfGroup sp e) m q) ↔
    (∃ it ∈ items, applies W (mkBlock (canon it)) q) :=
  C02_end_to_end_coverage items groups h (acyclicB_of_no_pairs_nst items (by simpa [noNesting] using hn)) sp
    (fun e he => ⟨C02_nestedGroupOK_of_flat items groups h hn e he (hok e he).1,
      nestedCoversB_of_flat_group h (noNesting_spec items hn) sp he (hok e he).2⟩) W hw hsz q

namespace E2E
open Ex11
/-- `impl<T: Dispatch<Group = GroupA>> Kita for T {}`  +
    `impl<T> Kita for Vec<T> where Vec<T>: Dispatch<Group = GroupB> {}` (tests/supersets_1.rs style) -/
def itemsNested : List T := [blockSelf "GroupA" tT,
  implW [tyParam "T" []] [pred (vecOf tT) [traitBound (dispatch "GroupB")]] (vecOf tT)]
/-- D4: `impl<T: Dispatch<Group = GroupA>> Kita for T {}`  +  `impl<U: Dispatch<Group = GroupB>> Kita for Vec<U> {}` (the
    parameter names are immaterial: `canon` renames both to `_ŠČ0`) -/
def itemsD4 : List T := [blockSelf "GroupA" tT, blockSelf "GroupB" (vecOf tT)]
/-- `u32: Dispatch<Group = GroupA>`, `Vec<u32>: Dispatch<Group = GroupB>`, nothing else; every type is `Sized` -/
def WN : World :=
  ⟨fun tr ty => if tr = dispTr ∧ ty = u32T then some [("Group", tyPath [seg "GroupA"])]
    else if tr = dispTr ∧ ty = vecOf u32T then some [("Group", tyPath [seg "GroupB"])] else none, fun _ => true⟩
/-- `u32: Dispatch<Group = GroupB>`, nothing else; every type is `Sized` -/
def WD4 : World :=
  ⟨fun tr ty => if ty = u32T ∧ tr = dispTr then some [("Group", tyPath [seg "GroupB"])] else none, fun _ => true⟩
end E2E

section E2ENested
open E2E
set_option maxRecDepth 1000000

/-- the `untouched` clause of `nestedGroupOK` cannot be dropped (finding D4): `impl<T: D<G = A>> Kita for T` +
    `impl<U: D<G = B>> Kita for Vec<U>` is accepted as ONE family with the key `T: D` and the rows `G = A`, `G = B` — the
    bound `U: D` of the second block is outside the image of its substitution `{T ↦ Vec<U>}`, reverse substitution leaves it
    in place and it collides with the family's key `T: D`. The generated program dispatches `Vec<U>` on `<Vec<U> as D>::G`,
    the user's block on `<U as D>::G`: `memberOK` is FALSE for the second member (no clause `Vec<U>: D`). Everything else
    holds on the witness: the header relation is acyclic, the group passes `flatGroupOK` (well-formed paths, leading `::`,
    no relaxed bound, `selfIdentity`) and `nestedCoversB`, the second member's header is the exact instance of the family's
    header; the one failing conjunct is `untouched θ (U)`. -/
theorem C02_end_to_end_memberOK_counterexample_D4 :
    ∃ gs, parseGroups itemsD4 = .ok gs ∧
      (acyclicB itemsD4 &&
       gs.map (fun e => (nestedGroupOK (parseEnv itemsD4) e, flatGroupOK e, nestedCoversB (familyOfGroup ["_ŠČ0"] e),
          (familyOfGroup ["_ŠČ0"] e).members.map (fun m => memberOK (familyOfGroup ["_ŠČ0"] e) m)))
         == [(false, true, true, [true, false])] &&
       gs.all (fun e => match e.2.2[1]? with
         | some b => inst (memberTheta_nst e.1 b) e.1 == groupIdOf b.item &&
             (otherFold b).all (fun k'r => !untouched (memberTheta_nst e.1 b) k'r.1.1 && untouched (memberTheta_nst e.1 b) k'r.1.2)
         | none => false)) = true :=
  ParseResult.ok_of_check (f := fun gs => acyclicB itemsD4 &&
       gs.map (fun e => (nestedGroupOK (parseEnv itemsD4) e, flatGroupOK e, nestedCoversB (familyOfGroup ["_ŠČ0"] e),
          (familyOfGroup ["_ŠČ0"] e).members.map (fun m => memberOK (familyOfGroup ["_ŠČ0"] e) m)))
         == [(false, true, true, [true, false])] &&
       gs.all (fun e => match e.2.2[1]? with
         | some b => inst (memberTheta_nst e.1 b) e.1 == groupIdOf b.item &&
             (otherFold b).all (fun k'r => !untouched (memberTheta_nst e.1 b) k'r.1.1 && untouched (memberTheta_nst e.1 b) k'r.1.2)
         | none => false)) (by with_unfolding_all decide)

/-- hence, for nested invocations, the conditions of the flat theorem (`flatGroupOK`) do not suffice: the statement with
    `flatGroupOK` in place of `nestedGroupOK` and `acyclicB` in place of `noNesting` is false -/
theorem C02_end_to_end_memberOK_without_untouched_false :
    ¬ ∀ (items : List T) (groups : Groups), parseGroups items = .ok groups → acyclicB items = true →
        ∀ e ∈ groups, flatGroupOK e = true →
          ∀ m ∈ (familyOfGroup ["_ŠČ0"] e).members, memberOK (familyOfGroup ["_ŠČ0"] e) m = true := by
  intro hall
  obtain ⟨gs, hgs, hchk⟩ := C02_end_to_end_memberOK_counterexample_D4
  simp only [Bool.and_eq_true, beq_iff_eq] at hchk
  obtain ⟨⟨ha, hmap⟩, _⟩ := hchk
  have hall' := hall itemsD4 gs hgs ha
  cases gs with
  | nil => simp at hmap
  | cons e rest =>
    simp only [List.map_cons, List.cons.injEq, Prod.mk.injEq] at hmap
    obtain ⟨⟨_, hflat, _, h1⟩, _⟩ := hmap
    have hm := hall' e (by simp) hflat
    generalize (familyOfGroup ["_ŠČ0"] e).members = ms at h1 hm
    cases ms with
    | nil => simp at h1
    | cons m1 ms1 =>
      cases ms1 with
      | nil => simp at h1
      | cons m2 ms2 =>
        simp only [List.map_cons, List.cons.injEq] at h1
        have := hm m2 (by simp)
        rw [this] at h1
        exact absurd h1.2.1 (by simp)

/-- … and the failure is semantic, not an artefact of the checks: EXACT COVERAGE is false on the D4 witness. In the world
    `E2E.WD4` (`u32: Dispatch<Group = GroupB>`, nothing else; total for the family's key, everything `Sized`) the user's second
    block `impl<U: Dispatch<Group = GroupB>> Kita for Vec<U>` applies to `Kita for Vec<u32>`, but the generated program does
    not implement `Kita` for `Vec<u32>`: its main impl requires the projection `<Vec<u32> as Dispatch>::Group` of the
    family's key `T: Dispatch` at `T = Vec<u32>`, which this world does not define. All side conditions of
    `C02_end_to_end_coverage` other than the `untouched` clause hold. -/
theorem C02_end_to_end_coverage_counterexample_D4 :
    ∃ gs, parseGroups itemsD4 = .ok gs ∧ acyclicB itemsD4 = true ∧
      (∀ e ∈ gs, flatGroupOK e = true ∧ nestedCoversB (familyOfGroup ["_ŠČ0"] e) = true) ∧
      (∀ e ∈ gs, WorldTotal WD4 (familyOfGroup ["_ŠČ0"] e)) ∧
      (∀ e ∈ gs, ∀ m ∈ (familyOfGroup ["_ŠČ0"] e).members, SizedCompat WD4 (familyOfGroup ["_ŠČ0"] e) m) ∧
      (∃ it ∈ itemsD4, applies WD4 (mkBlock (canon it)) (query (Ex11.vecOf u32T))) ∧
      ¬ (∃ e ∈ gs, ∃ m ∈ (familyOfGroup ["_ŠČ0"] e).members,
          genSel WD4 (familyOfGroup ["_ŠČ0"] e) m (query (Ex11.vecOf u32T))) := by
  obtain ⟨gs, hgs, hchk⟩ := ParseResult.ok_of_check (r := parseGroups itemsD4)
    (f := fun gs => gs.all (fun e => flatGroupOK e && nestedCoversB (familyOfGroup ["_ŠČ0"] e) &&
      ((familyOfGroup ["_ŠČ0"] e).hdr == query (.tparam "_ŠČ0") &&
       (familyOfGroup ["_ŠČ0"] e).keys == [(⟨.tparam "_ŠČ0", dispTr, "Group"⟩ : Key)]))) (by with_unfolding_all decide)
  simp only [List.all_eq_true, Bool.and_eq_true, beq_iff_eq] at hchk
  refine ⟨gs, hgs, by with_unfolding_all decide, fun e he => (hchk e he).1, ?_, fun _ _ _ _ _ _ _ _ _ => rfl, ?_, ?_⟩
  · intro e he k hk tr ty bs hd
    rw [(hchk e he).2.2] at hk
    simp only [List.mem_singleton] at hk
    subst hk
    simp only [WD4] at hd
    split at hd
    · cases hd; exact ⟨_, rfl⟩
    · cases hd
  · exact ⟨Ex11.blockSelf "GroupB" (Ex11.vecOf Ex11.tT), by simp [itemsD4],
      applies_of_B (ρ := [("_ŠČ0", .ty u32T)]) (by with_unfolding_all decide)⟩
  · rintro ⟨e, he, m, _, τ, gs', _, hq, _, hlen, hproj, _⟩
    obtain ⟨_, hhdr, hkeys⟩ := hchk e he
    rw [hhdr] at hq
    have hT : inst τ (.tparam "_ŠČ0") = Ex11.vecOf u32T := by
      unfold query at hq
      rw [inst_node_ne_nst τ _ _ (by decide)] at hq
      simp only [instL] at hq
      injection hq with _ _ hq
      injection hq with _ hq
      injection hq with hq _
    have h0 : 0 < (familyOfGroup ["_ŠČ0"] e).keys.length := by rw [hkeys]; simp
    obtain ⟨bs, hbs, _⟩ := hproj 0 h0 (by rw [hlen]; exact h0)
    have hk0 : (familyOfGroup ["_ŠČ0"] e).keys[0] = (⟨.tparam "_ŠČ0", dispTr, "Group"⟩ : Key) := by
      simp only [hkeys, List.getElem_cons_zero]
    rw [hk0] at hbs
    simp only [hT, WD4] at hbs
    rw [if_neg (by rintro ⟨h1, _⟩; revert h1; with_unfolding_all decide)] at hbs
    cases hbs

/-- non-vacuity, on the nested pair `impl<T: Dispatch<Group = GroupA>> Kita for T` /
    `impl<T> Kita for Vec<T> where Vec<T>: Dispatch<Group = GroupB>` and the world `E2E.WN` (`u32: Dispatch<Group = GroupA>`,
    `Vec<u32>: Dispatch<Group = GroupB>`): the input is accepted as one family, is NOT un-nested (`noNesting` false), its
    header relation is acyclic, the family passes `nestedGroupOK` and `nestedCoversB`; the world is total for its key and
    `Sized`-compatible. Hence the end-to-end theorems apply: both members satisfy `memberOK` and `thetaCoversB`; for EVERY
    query the generated program selects some member iff some block applies; it does select one for `Kita for u32` (first
    block) and for `Kita for Vec<u32>` (second, nested block). -/
theorem C02_end_to_end_nested_example :
    ∃ gs, parseGroups itemsNested = .ok gs ∧ noNesting itemsNested = false ∧ acyclicB itemsNested = true ∧
      (∀ e ∈ gs, nestedGroupOK (parseEnv itemsNested) e = true ∧ nestedCoversB (familyOfGroup ["_ŠČ0"] e) = true) ∧
      (gs.map (fun e => (familyOfGroup ["_ŠČ0"] e).members.length) = [2]) ∧
      (∀ e ∈ gs, ∀ m ∈ (familyOfGroup ["_ŠČ0"] e).members,
        memberOK (familyOfGroup ["_ŠČ0"] e) m = true ∧ thetaCoversB (familyOfGroup ["_ŠČ0"] e) m = true) ∧
      (∀ q, (∃ e ∈ gs, ∃ m ∈ (familyOfGroup ["_ŠČ0"] e).members, genSel WN (familyOfGroup ["_ŠČ0"] e) m q) ↔
            (∃ it ∈ itemsNested, applies WN (mkBlock (canon it)) q)) ∧
      (∃ e ∈ gs, ∃ m ∈ (familyOfGroup ["_ŠČ0"] e).members, genSel WN (familyOfGroup ["_ŠČ0"] e) m (query u32T)) ∧
      (∃ e ∈ gs, ∃ m ∈ (familyOfGroup ["_ŠČ0"] e).members, genSel WN (familyOfGroup ["_ŠČ0"] e) m (query (Ex11.vecOf u32T))) := by
  obtain ⟨gs, hgs, hchk⟩ := ParseResult.ok_of_check (r := parseGroups itemsNested)
    (f := fun gs => gs.all (fun e => nestedGroupOK (parseEnv itemsNested) e && nestedCoversB (familyOfGroup ["_ŠČ0"] e) &&
      (familyOfGroup ["_ŠČ0"] e).keys.all (fun k => k.a == "Group")) &&
      gs.map (fun e => (familyOfGroup ["_ŠČ0"] e).members.length) == [2]) (by with_unfolding_all decide)
  have hn : noNesting itemsNested = false := by with_unfolding_all decide
  have ha : acyclicB itemsNested = true := by with_unfolding_all decide
  simp only [List.all_eq_true, Bool.and_eq_true, beq_iff_eq] at hchk
  obtain ⟨hchk, hlen⟩ := hchk
  have hok : ∀ e ∈ gs, nestedGroupOK (parseEnv itemsNested) e = true ∧ nestedCoversB (familyOfGroup ["_ŠČ0"] e) = true :=
    fun e he => (hchk e he).1
  have hw : ∀ e ∈ gs, WorldTotal WN (familyOfGroup ["_ŠČ0"] e) := by
    intro e he k hk tr ty bs hd
    rw [(hchk e he).2 k hk]
    simp only [WN] at hd
    split at hd
    · cases hd; exact ⟨_, rfl⟩
    · split at hd
      · cases hd; exact ⟨_, rfl⟩
      · cases hd
  have hsz : ∀ e ∈ gs, ∀ m ∈ (familyOfGroup ["_ŠČ0"] e).members, SizedCompat WN (familyOfGroup ["_ŠČ0"] e) m :=
    fun _ _ _ _ _ _ _ _ _ => rfl
  have hcov := C02_end_to_end_coverage itemsNested gs hgs ha ["_ŠČ0"] hok WN hw hsz
  refine ⟨gs, hgs, hn, ha, hok, hlen,
    fun e he => C02_end_to_end_hypotheses itemsNested gs hgs ["_ŠČ0"] e he (hok e he).1 (hok e he).2,
    hcov, (hcov _).2 ?_, (hcov _).2 ?_⟩
  · exact ⟨Ex11.blockSelf "GroupA" Ex11.tT, by simp [itemsNested],
      applies_of_B (ρ := [("_ŠČ0", .ty u32T)]) (by with_unfolding_all decide)⟩
  · exact ⟨Ex11.implW [Ex11.tyParam "T" []] [Ex11.pred (Ex11.vecOf Ex11.tT) [Ex11.traitBound (Ex11.dispatch "GroupB")]]
        (Ex11.vecOf Ex11.tT), by simp [itemsNested],
      applies_of_B (ρ := [("_ŠČ0", .ty u32T)]) (by with_unfolding_all decide)⟩
end E2ENested

namespace E2E
open Ex11
/-- the (ill-formed for `syn`, well-formed for `wfPath`) trait path `D<_ŠČ0>` whose generic argument is a BARE parameter
    occurrence instead of a `GenericArgument::…` node -/
def bareArgPath : T := .node "Path" [] [.node "IgnL" [] [leaf "None"], .node "List" [] [.node "PathSegment" [] [.node "Ident" ["D"] [],
  .node "PathArguments::AngleBracketed" [] [.node "Ign" [] [leaf "None"], .node "List" [] [.tparam "_ŠČ0"]]]]]
/-- the binding `G = A` as a generic argument -/
def bindGA : T := .node "GenericArgument::AssocType" [] [.node "AssocType" [] [.node "Ident" ["G"] [], leaf "None", tyPath [seg "A"]]]
end E2E

section E2ENestedMore
open E2E Ex11
set_option maxRecDepth 1000000

/-- the side condition of `C02_normTr_inst` cannot be dropped: on a `wfPath` path whose generic argument is a bare
    parameter, an instantiation can put an associated-type binding there, which `normTr` then removes — `normTr` after
    `inst` differs from `inst` after `normTr` (cannot arise from `syn`, whose generic arguments are always
    `GenericArgument::…` nodes) -/
theorem C02_normTr_inst_counterexample :
    wfPath bareArgPath = true ∧ instCommOK_nst bareArgPath = false ∧
    normTr (inst [("_ŠČ0", .ty bindGA)] bareArgPath) ≠ inst [("_ŠČ0", .ty bindGA)] (normTr bareArgPath) := by
  decide +kernel

/-- the exact-instance clause of `nestedGroupOK` cannot be dropped: for `impl<T: Dispatch<Group = GroupA>> Kita for (T)` +
    `impl<T: Dispatch<Group = GroupB>> Kita for T` (headers that differ by parentheses only, `C11_partition_mutual_headers_pair`)
    the second member joins the family of the first with an identity substitution, but the instance of the family's header
    `(T)` is not literally the member's header `T` (only modulo `erase`, C09): `memberOK` is false for it, although the group
    passes `flatGroupOK` and `nestedCoversB`. (A presentation artefact of comparing headers as trees, not a defect of the
    generated program.) -/
theorem C02_end_to_end_memberOK_counterexample_paren :
    ∃ gs, parseGroups [blockSelf "GroupA" (paren tT), blockSelf "GroupB" tT] = .ok gs ∧
      (gs.map (fun e => (nestedGroupOK (parseEnv [blockSelf "GroupA" (paren tT), blockSelf "GroupB" tT]) e, flatGroupOK e,
          nestedCoversB (familyOfGroup ["_ŠČ0"] e),
          (familyOfGroup ["_ŠČ0"] e).members.map (fun m => (memberOK (familyOfGroup ["_ŠČ0"] e) m,
            inst m.θ (familyOfGroup ["_ŠČ0"] e).hdr == m.blk.hdr, allIdentity m.θ))))
         == [(false, true, true, [(true, true, true), (false, false, true)])]) = true :=
  ParseResult.ok_of_check (f := fun gs =>
      gs.map (fun e => (nestedGroupOK (parseEnv [blockSelf "GroupA" (paren tT), blockSelf "GroupB" tT]) e, flatGroupOK e,
          nestedCoversB (familyOfGroup ["_ŠČ0"] e),
          (familyOfGroup ["_ŠČ0"] e).members.map (fun m => (memberOK (familyOfGroup ["_ŠČ0"] e) m,
            inst m.θ (familyOfGroup ["_ŠČ0"] e).hdr == m.blk.hdr, allIdentity m.θ))))
         == [(false, true, true, [(true, true, true), (false, false, true)])]) (by decide +kernel)
end E2ENestedMore

namespace E2E
open Ex11
/-- `Option<x>` -/
def optOf (x : T) : T := tyPath [.node "PathSegment" [] [.node "Ident" ["Option"] [],
  .node "PathArguments::AngleBracketed" [] [.node "Ign" [] [leaf "None"], .node "List" [] [.node "GenericArgument::Type" [] [x]]]]]
/-- `impl<T, U> Kita for self where self: Dispatch<Group = g> {}` -/
def whereSelf2 (g : String) (self : T) : T :=
  implW [tyParam "T" [], tyParam "U" []] [pred self [traitBound (dispatch g)]] self
/-- the invocation of /repo/tests/supersets_1.rs: `impl<T> Kita for T where Option<T>: Dispatch<Group = GroupA>`,
    `impl<U> Kita for Vec<U> where Option<Vec<U>>: Dispatch<Group = GroupB>`,
    `impl<T> Kita for Option<T> where Option<T>: Dispatch<Group = GroupA>` -/
def itemsSupersets1 : List T := [
  implW [tyParam "T" []] [pred (optOf tT) [traitBound (dispatch "GroupA")]] tT,
  implW [tyParam "U" []] [pred (optOf (vecOf tU)) [traitBound (dispatch "GroupB")]] (vecOf tU),
  implW [tyParam "T" []] [pred (optOf tT) [traitBound (dispatch "GroupA")]] (optOf tT)]
/-- the invocation of /repo/tests/supersets_2.rs: the diamond `(T, U)`, `(Vec<T>, U)`, `(T, Vec<U>)`, `(Vec<T>, Vec<U>)`, each
    bounded on its own self type -/
def itemsSupersets2 : List T := [whereSelf2 "GroupA" (tup [tT, tU]), whereSelf2 "GroupB" (tup [vecOf tT, tU]),
  whereSelf2 "GroupC" (tup [tT, vecOf tU]), whereSelf2 "GroupD" (tup [vecOf tT, vecOf tU])]
/-- all executable side conditions of the end-to-end theorems, and the numbers of members per family -/
def nestedChecks (items : List T) (sp : List String) (sizes : List Nat) (gs : Groups) : Bool :=
  acyclicB items && gs.all (fun e => nestedGroupOK (parseEnv items) e && nestedCoversB (familyOfGroup sp e)) &&
  gs.map (fun e => e.2.2.length) == sizes
end E2E

section E2ESupersets
open E2E
set_option maxRecDepth 1000000

/-- further non-vacuity: the two nested invocations of the implementation's own test suite (tests/supersets_1.rs — two
    families, the first with a nested member `Vec<U>` below `T`; tests/supersets_2.rs — one family of four members, a
    diamond of headers) are accepted, acyclic, and every group passes `nestedGroupOK` and `nestedCoversB`; hence every
    member satisfies both decidable hypotheses of the refinement -/
theorem C02_end_to_end_supersets_examples :
    (∃ gs, parseGroups itemsSupersets1 = .ok gs ∧ nestedChecks itemsSupersets1 ["_ŠČ0"] [2, 1] gs = true ∧
      ∀ e ∈ gs, ∀ m ∈ (familyOfGroup ["_ŠČ0"] e).members,
        memberOK (familyOfGroup ["_ŠČ0"] e) m = true ∧ thetaCoversB (familyOfGroup ["_ŠČ0"] e) m = true) ∧
    (∃ gs, parseGroups itemsSupersets2 = .ok gs ∧ nestedChecks itemsSupersets2 ["_ŠČ0", "_ŠČ1"] [4] gs = true ∧
      ∀ e ∈ gs, ∀ m ∈ (familyOfGroup ["_ŠČ0", "_ŠČ1"] e).members,
        memberOK (familyOfGroup ["_ŠČ0", "_ŠČ1"] e) m = true ∧ thetaCoversB (familyOfGroup ["_ŠČ0", "_ŠČ1"] e) m = true) := by
  have key : ∀ (items : List T) (sp : List String) (sizes : List Nat),
      (match parseGroups items with | .ok gs => nestedChecks items sp sizes gs | _ => false) = true →
      ∃ gs, parseGroups items = .ok gs ∧ nestedChecks items sp sizes gs = true ∧
        ∀ e ∈ gs, ∀ m ∈ (familyOfGroup sp e).members,
          memberOK (familyOfGroup sp e) m = true ∧ thetaCoversB (familyOfGroup sp e) m = true := by
    intro items sp sizes hc
    obtain ⟨gs, hgs, hchk⟩ := ParseResult.ok_of_check (f := nestedChecks items sp sizes) hc
    refine ⟨gs, hgs, hchk, fun e he => ?_⟩
    unfold nestedChecks at hchk
    simp only [Bool.and_eq_true, List.all_eq_true] at hchk
    exact C02_end_to_end_hypotheses items gs hgs sp e he (hchk.1.2 e he).1 (hchk.1.2 e he).2
  exact ⟨key _ _ _ (by decide +kernel), key _ _ _ (by decide +kernel)⟩
end E2ESupersets

end DI
