import DisjointImpls.Lemmas.Refine
namespace DI
theorem C03_placeholder : (1 : Nat) = 1 := rfl
end DI
