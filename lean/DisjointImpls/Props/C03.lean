/-
  C03 — acceptance: inputs the macro must accept. Property theorem over `parseGroups` (`Group.lean`); the proof is
  in `Lemmas/GroupLemmas.lean` (`searchRec_single`, `filterCandidate_single`, `mkBuckets_single`).

  `C03_single_bucket_accepts`: blocks that all have the same header (one bucket), each with exactly one trait bound
  `bounded: tr_i<a = p_i>` whose trait paths are pairwise equal as dispatch keys (`TraitBound::eq`, bindings
  ignored), with pairwise non-generalising payloads `p_i`, are accepted as one family containing all the blocks in
  order, with a single key and one row per block — for any number of blocks. The trait path stored with the key
  is the last block's (`lastTr`), as in the code. Side conditions: the blocks are pairwise different texts
  (`Nodup`, else the later one replaces the earlier), and the header matches itself with identity bindings only
  (`selfIdentity`, executable).
-/
import DisjointImpls.Lemmas.GroupLemmas
import DisjointImpls.Props.C11
namespace DI

theorem C03_single_bucket_accepts (items : List T) (gid bounded : T) (a : String) (trOf pay : Blk → T)
    (b1 : Blk) (other : List Blk) (hB : items.map mkBlk = b1 :: other)
    (hid : ∀ b ∈ b1 :: other, groupIdOf b.item = gid) (hnd : ((b1 :: other).map (·.item)).Nodup)
    (hsb : ∀ b ∈ b1 :: other, ∃ mb, b.raw = [⟨bounded, trOf b, [(a, pay b)], mb⟩])
    (htr : ∀ b ∈ b1 :: other, ∀ b' ∈ b1 :: other, tbEq (trOf b) (trOf b') = .t)
    (hself : selfIdentity gid = true) (hng : nonGenB ((b1 :: other).map pay) = true) :
    ∃ u, parseGroups items =
      .ok [(gid, ⟨[((bounded, lastTr trOf (trOf b1) other), (b1 :: other).map (fun b => [(a, pay b)]))], u⟩, b1 :: other)] :=
  parseGroups_single_bucket items gid bounded a trOf pay b1 other hB hid hnd hsb htr hself (nonGen_of_nonGenB hng)

/-- what `nonGenB` says: no payload generalises another one -/
theorem C03_nonGen_spec (ps : List T) (h : nonGenB ps = true) (i j : Nat) (x y : T) (hij : i ≠ j)
    (hx : ps[i]? = some x) (hy : ps[j]? = some y) : ∀ σ l, sup x y ≠ .yes σ l := by
  intro σ l hs
  have := nonGen_of_nonGenB h i j x y hij hx hy
  rw [hs] at this
  cases this

set_option maxRecDepth 1000000 in
/-- non-vacuity: the README example (`impl<T: Dispatch<Group = GroupA>> Kita for T`, `… GroupB …`) satisfies every
    hypothesis, so the theorem (not a computation) yields its acceptance -/
theorem C03_readme_example :
    ∃ u gid key b1 b2, parseGroups [Ex11.blockFor "GroupA", Ex11.blockFor "GroupB"] =
      .ok [(gid, ⟨[(key, [[("Group", Ex11.tyPath [Ex11.seg "GroupA"])], [("Group", Ex11.tyPath [Ex11.seg "GroupB"])]])], u⟩, [b1, b2])] := by
  let items := [Ex11.blockFor "GroupA", Ex11.blockFor "GroupB"]
  let b1 := mkBlk (Ex11.blockFor "GroupA")
  let b2 := mkBlk (Ex11.blockFor "GroupB")
  let gid := groupIdOf b1.item
  let pay : Blk → T := fun b => if b = b1 then Ex11.tyPath [Ex11.seg "GroupA"] else Ex11.tyPath [Ex11.seg "GroupB"]
  let trOf : Blk → T := fun b => if b = b1 then Ex11.dispatch "GroupA" else Ex11.dispatch "GroupB"
  have hne : b2 ≠ b1 := by with_unfolding_all decide
  have e1 : pay b1 = Ex11.tyPath [Ex11.seg "GroupA"] := by simp [pay]
  have e2 : pay b2 = Ex11.tyPath [Ex11.seg "GroupB"] := by simp [pay, hne]
  have t1 : trOf b1 = Ex11.dispatch "GroupA" := by simp [trOf]
  have t2 : trOf b2 = Ex11.dispatch "GroupB" := by simp [trOf, hne]
  have h1 : b1.raw = [⟨.tparam "_ŠČ0", trOf b1, [("Group", pay b1)], false⟩] := by
    rw [t1, e1]; with_unfolding_all decide
  have h2 : b2.raw = [⟨.tparam "_ŠČ0", trOf b2, [("Group", pay b2)], false⟩] := by
    rw [t2, e2]; with_unfolding_all decide
  obtain ⟨u, hu⟩ := C03_single_bucket_accepts items gid (.tparam "_ŠČ0") "Group" trOf pay b1 [b2] rfl
    (by intro b hb; simp only [List.mem_cons, List.mem_nil_iff, or_false] at hb
        rcases hb with rfl | rfl
        · rfl
        · with_unfolding_all decide)
    (by with_unfolding_all decide)
    (by intro b hb; simp only [List.mem_cons, List.mem_nil_iff, or_false] at hb
        rcases hb with rfl | rfl
        · exact ⟨false, h1⟩
        · exact ⟨false, h2⟩)
    (by intro b hb b' hb'
        simp only [List.mem_cons, List.mem_nil_iff, or_false] at hb hb'
        rcases hb with rfl | rfl <;> rcases hb' with rfl | rfl <;> simp only [t1, t2] <;> decide)
    (by with_unfolding_all decide)
    (by simp only [List.map_cons, List.map_nil, e1, e2]; with_unfolding_all decide)
  refine ⟨u, gid, (.tparam "_ŠČ0", lastTr trOf (trOf b1) [b2]), b1, b2, ?_⟩
  rw [hu]
  simp [e1, e2]

/-- two independently accepted sets of blocks with unrelated headers are accepted together, as the concatenation
    of their families -/
theorem C03_independent_buckets (items1 items2 : List T) (g1 g2 : Groups)
    (hdisj : ∀ b1 ∈ items1.map mkBlk, ∀ b2 ∈ items2.map mkBlk, groupIdOf b1.item ≠ groupIdOf b2.item)
    (hn : noNesting (items1 ++ items2) = true)
    (h1 : parseGroups items1 = .ok g1) (h2 : parseGroups items2 = .ok g2) :
    parseGroups (items1 ++ items2) = .ok (g1 ++ g2) := by
  rw [C11_independent items1 items2 hdisj hn, h1, h2]
  rfl

/-- `Box<x>` -/
def Ex11.boxOf (x : T) : T := Ex11.tyPath [.node "PathSegment" [] [.node "Ident" ["Box"] [],
  .node "PathArguments::AngleBracketed" [] [.node "Ign" [] [Ex11.leaf "None"], .node "List" [] [.node "GenericArgument::Type" [] [x]]]]]

set_option maxRecDepth 1000000 in
/-- non-vacuity of `C03_independent_buckets`: the two-block example for `Vec<T>` and the same for `Box<T>` -/
example :
    let items1 := [Ex11.blockSelf "GroupA" (Ex11.vecOf Ex11.tT), Ex11.blockSelf "GroupB" (Ex11.vecOf Ex11.tT)]
    let items2 := [Ex11.blockSelf "GroupA" (Ex11.boxOf Ex11.tT), Ex11.blockSelf "GroupB" (Ex11.boxOf Ex11.tT)]
    ∃ g1 g2, parseGroups (items1 ++ items2) = .ok (g1 ++ g2) ∧ g1.length = 1 ∧ g2.length = 1 := by
  intro items1 items2
  obtain ⟨g1, h1, l1⟩ := ParseResult.ok_of_check (r := parseGroups items1) (f := fun gs => gs.length == 1)
    (by with_unfolding_all decide)
  obtain ⟨g2, h2, l2⟩ := ParseResult.ok_of_check (r := parseGroups items2) (f := fun gs => gs.length == 1)
    (by with_unfolding_all decide)
  refine ⟨g1, g2, C03_independent_buckets items1 items2 g1 g2 ?_ (by with_unfolding_all decide) h1 h2,
    by simpa using l1, by simpa using l2⟩
  intro b1 hb1 b2 hb2
  simp only [items1, items2, List.map_cons, List.map_nil, List.mem_cons, List.mem_nil_iff, or_false] at hb1 hb2
  rcases hb1 with rfl | rfl <;> rcases hb2 with rfl | rfl <;> with_unfolding_all decide

/-! ## Several keys -/

/-- one bucket, several keys: blocks with the same header that all carry the same `n ≥ 1` keys in the same order
    (`alignedChainB`: position by position `keyEq`, no key `keyEq` to a later one), each binding every key, whose
    rows pass the candidate filter (every key has a non-empty row, rows pairwise not generalising —
    `isOverlapping = false`), are accepted as one family with those keys and one row per block.
    All hypotheses are executable. -/
theorem C03_multi_key_accepts (items : List T) (gid : T) (b1 : Blk) (other : List Blk)
    (hB : items.map mkBlk = b1 :: other)
    (hid : ∀ b ∈ b1 :: other, groupIdOf b.item = gid) (hnd : ((b1 :: other).map (·.item)).Nodup)
    (hd : distinctKeysB b1.ks = true) (hch : alignedChainB b1.ks other = true) (hself : selfIdentity gid = true)
    (h1 : ((lastKs b1.ks other).zip (addRows (b1.rs.map (fun r => [r])) other)).all
      (fun kr => kr.2.any (fun r => !r.isEmpty)) = true)
    (h2 : b1.raw ≠ [])
    (h3 : (ABG.mk ((lastKs b1.ks other).zip (addRows (b1.rs.map (fun r => [r])) other)) []).isOverlapping = false) :
    ∃ u, parseGroups items =
      .ok [(gid, ⟨(lastKs b1.ks other).zip (addRows (b1.rs.map (fun r => [r])) other), u⟩, b1 :: other)] := by
  have hch' := alignedChain_of_B hch
  apply parseGroups_multi_key items gid b1 other hB hid hnd (distinctKeys_of_B hd) hch' hself
    (by simpa [List.all_eq_true] using h1) ?_ h3
  -- the family has as many keys as the first block has bounds
  intro h0
  have hlen : ∀ (ks : List BKey) (rowss : List (List Row)) (bs : List Blk), AlignedChain ks bs → rowss.length = ks.length →
      ((lastKs ks bs).zip (addRows rowss bs)).length = ks.length := by
    intro ks rowss bs
    induction bs generalizing ks rowss with
    | nil => intro _ hl; simp [lastKs, addRows, hl]
    | cons b rest ih =>
      intro ⟨hal, _, hr⟩ hl
      have hkl := hal.length_eq
      simp only [lastKs, addRows]
      rw [ih b.ks _ hr (by simp [Blk.ks, Blk.rs, hkl ▸ hl])]
      exact hkl.symm
  have := hlen b1.ks (b1.rs.map (fun r => [r])) other hch' (by simp [Blk.ks, Blk.rs])
  rw [h0] at this
  simp only [List.length_nil, Blk.ks, List.length_map] at this
  exact h2 (List.length_eq_zero_iff.1 this.symm)

namespace Ex11
/-- `Other<Kind = k>` -/
def otherTr (k : String) : T :=
  path [.node "PathSegment" [] [.node "Ident" ["Other"] [], .node "PathArguments::AngleBracketed" [] [.node "Ign" [] [leaf "None"],
    .node "List" [] [.node "GenericArgument::AssocType" [] [.node "AssocType" [] [.node "Ident" ["Kind"] [], leaf "None", tyPath [seg k]]]]]]]
/-- `impl<T: Dispatch<Group = g> + Other<Kind = k>> Kita for T {}` -/
def block2 (g k : String) : T := implOf [tyParam "T" [traitBound (dispatch g), traitBound (otherTr k)]] tT
end Ex11

set_option maxRecDepth 1000000 in
/-- non-vacuity: two blocks with two keys each (`T: Dispatch<Group = …> + Other<Kind = …>`) satisfy every hypothesis;
    the theorem yields one family with 2 keys and 2 members -/
example :
    ∃ gid abg b1 b2, parseGroups [Ex11.block2 "GroupA" "X", Ex11.block2 "GroupB" "Y"] = .ok [(gid, abg, [b1, b2])] ∧
      abg.bounds.length = 2 := by
  let items := [Ex11.block2 "GroupA" "X", Ex11.block2 "GroupB" "Y"]
  let b1 := mkBlk (Ex11.block2 "GroupA" "X")
  let b2 := mkBlk (Ex11.block2 "GroupB" "Y")
  obtain ⟨u, hu⟩ := C03_multi_key_accepts items (groupIdOf b1.item) b1 [b2] rfl
    (by intro b hb; simp only [List.mem_cons, List.mem_nil_iff, or_false] at hb
        rcases hb with rfl | rfl
        · rfl
        · with_unfolding_all decide)
    (by with_unfolding_all decide) (by with_unfolding_all decide) (by with_unfolding_all decide)
    (by with_unfolding_all decide) (by with_unfolding_all decide) (by with_unfolding_all decide)
    (by with_unfolding_all decide)
  have hlen : ((lastKs (mkBlk (Ex11.block2 "GroupA" "X")).ks [mkBlk (Ex11.block2 "GroupB" "Y")]).zip
      (addRows ((mkBlk (Ex11.block2 "GroupA" "X")).rs.map (fun r => [r])) [mkBlk (Ex11.block2 "GroupB" "Y")])).length = 2 := by
    with_unfolding_all decide
  exact ⟨_, _, b1, b2, hu, hlen⟩

end DI
