/-
  C03 — acceptance: inputs the macro must accept. Property theorem over `parseGroups` (`Group.lean`); the proof is
  in `Lemmas/GroupLemmas.lean` (`searchRec_single`, `filterCandidate_single`, `mkBuckets_single`).

  `C03_single_bucket_accepts`: blocks that all have the same header (one bucket), each with exactly one trait bound
  `bounded: tr_i<a = p_i>` whose trait paths are pairwise equal as dispatch keys (`TraitBound::eq`, bindings
  ignored), with pairwise non-generalising payloads `p_i`, are accepted as one family containing all the blocks in
  order, with a single key and one row per block — for any number of blocks. The trait path stored with the key
  is the last block's (`lastTr`), as in the code. Side conditions: the blocks are pairwise different texts
  (`Nodup`, else the later one replaces the earlier), and the header matches itself with identity bindings only
  (`selfIdentity`, executable).

  Last part (`C03_flat_*`, proofs in `Lemmas/FlatAccept.lean`): ARBITRARY invocations without nested headers (any number
  of buckets; within a bucket bounds in any order, extra and repeated bounds, several associated types).
  `C03_flat_accepts`: every bucket `distinguishedB` (blocks pairwise differ by bindings of an associated type, under a
  key every block bounds, of which neither generalises the other) ⇒ accepted, one family per bucket;
  `C03_flat_accepts_nonunifiable`: the same from pairwise NON-UNIFIABLE payloads; `C03_flat_acceptance_exact`:
  accepted ⇔ every bucket `separatedB` (executable, order-free form of the candidate filter);
  `C03_flat_rejects_indistinguishable` / `C03_flat_rejects_first`: rejection, and which header is reported;
  counterexamples to natural weakenings (`C03_flat_nonshared_key_counterexample`, `C03_flat_lone_block_counterexample`,
  `C03_flat_generalising_payload_counterexample`).
-/
import DisjointImpls.Lemmas.GroupLemmas
import DisjointImpls.Lemmas.FlatAccept
import DisjointImpls.Props.C11
namespace DI

theorem C03_single_bucket_accepts (items : List T) (gid bounded : T) (a : String) (trOf pay : Blk → T)
    (b1 : Blk) (other : List Blk) (hB : items.map mkBlk = b1 :: other)
    (hid : ∀ b ∈ b1 :: other, groupIdOf b.item = gid) (hnd : ((b1 :: other).map (·.item)).Nodup)
    (hsb : ∀ b ∈ b1 :: other, ∃ mb, b.raw = [⟨bounded, trOf b, [(a, pay b)], mb⟩])
    (htr : ∀ b ∈ b1 :: other, ∀ b' ∈ b1 :: other, tbEq (trOf b) (trOf b') = .t)
    (hself : selfIdentity gid = true) (hng : nonGenB ((b1 :: other).map pay) = true) :
    ∃ u, parseGroups items =
      .ok [(gid, ⟨[((bounded, lastTr trOf (trOf b1) other), (b1 :: other).map (fun b => [(a, pay b)]))], u⟩, b1 :: other)] :=
  parseGroups_single_bucket items gid bounded a trOf pay b1 other hB hid hnd hsb htr hself (nonGen_of_nonGenB hng)

/-- what `nonGenB` says: no payload generalises another one -/
theorem C03_nonGen_spec (ps : List T) (h : nonGenB ps = true) (i j : Nat) (x y : T) (hij : i ≠ j)
    (hx : ps[i]? = some x) (hy : ps[j]? = some y) : ∀ σ l, sup x y ≠ .yes σ l := by
  intro σ l hs
  have := nonGen_of_nonGenB h i j x y hij hx hy
  rw [hs] at this
  cases this

set_option maxRecDepth 1000000 in
/-- non-vacuity: the README example (`impl<T: Dispatch<Group = GroupA>> Kita for T`, `… GroupB …`) satisfies every
    hypothesis, so the theorem (not a computation) yields its acceptance -/
theorem C03_readme_example :
    ∃ u gid key b1 b2, parseGroups [Ex11.blockFor "GroupA", Ex11.blockFor "GroupB"] =
      .ok [(gid, ⟨[(key, [[("Group", Ex11.tyPath [Ex11.seg "GroupA"])], [("Group", Ex11.tyPath [Ex11.seg "GroupB"])]])], u⟩, [b1, b2])] := by
  let items := [Ex11.blockFor "GroupA", Ex11.blockFor "GroupB"]
  let b1 := mkBlk (Ex11.blockFor "GroupA")
  let b2 := mkBlk (Ex11.blockFor "GroupB")
  let gid := groupIdOf b1.item
  let pay : Blk → T := fun b => if b = b1 then Ex11.tyPath [Ex11.seg "GroupA"] else Ex11.tyPath [Ex11.seg "GroupB"]
  let trOf : Blk → T := fun b => if b = b1 then Ex11.dispatch "GroupA" else Ex11.dispatch "GroupB"
  have hne : b2 ≠ b1 := by with_unfolding_all decide
  have e1 : pay b1 = Ex11.tyPath [Ex11.seg "GroupA"] := by simp [pay]
  have e2 : pay b2 = Ex11.tyPath [Ex11.seg "GroupB"] := by simp [pay, hne]
  have t1 : trOf b1 = Ex11.dispatch "GroupA" := by simp [trOf]
  have t2 : trOf b2 = Ex11.dispatch "GroupB" := by simp [trOf, hne]
  have h1 : b1.raw = [⟨.tparam "_ŠČ0", trOf b1, [("Group", pay b1)], false⟩] := by
    rw [t1, e1]; with_unfolding_all decide
  have h2 : b2.raw = [⟨.tparam "_ŠČ0", trOf b2, [("Group", pay b2)], false⟩] := by
    rw [t2, e2]; with_unfolding_all decide
  obtain ⟨u, hu⟩ := C03_single_bucket_accepts items gid (.tparam "_ŠČ0") "Group" trOf pay b1 [b2] rfl
    (by intro b hb; simp only [List.mem_cons, List.mem_nil_iff, or_false] at hb
        rcases hb with rfl | rfl
        · rfl
        · with_unfolding_all decide)
    (by with_unfolding_all decide)
    (by intro b hb; simp only [List.mem_cons, List.mem_nil_iff, or_false] at hb
        rcases hb with rfl | rfl
        · exact ⟨false, h1⟩
        · exact ⟨false, h2⟩)
    (by intro b hb b' hb'
        simp only [List.mem_cons, List.mem_nil_iff, or_false] at hb hb'
        rcases hb with rfl | rfl <;> rcases hb' with rfl | rfl <;> simp only [t1, t2] <;> decide)
    (by with_unfolding_all decide)
    (by simp only [List.map_cons, List.map_nil, e1, e2]; with_unfolding_all decide)
  refine ⟨u, gid, (.tparam "_ŠČ0", lastTr trOf (trOf b1) [b2]), b1, b2, ?_⟩
  rw [hu]
  simp [e1, e2]

/-- two independently accepted sets of blocks with unrelated headers are accepted together, as the concatenation
    of their families -/
theorem C03_independent_buckets (items1 items2 : List T) (g1 g2 : Groups)
    (hdisj : ∀ b1 ∈ items1.map mkBlk, ∀ b2 ∈ items2.map mkBlk, groupIdOf b1.item ≠ groupIdOf b2.item)
    (hn : noNesting (items1 ++ items2) = true)
    (h1 : parseGroups items1 = .ok g1) (h2 : parseGroups items2 = .ok g2) :
    parseGroups (items1 ++ items2) = .ok (g1 ++ g2) := by
  rw [C11_independent items1 items2 hdisj hn, h1, h2]
  rfl

/-- `Box<x>` -/
def Ex11.boxOf (x : T) : T := Ex11.tyPath [.node "PathSegment" [] [.node "Ident" ["Box"] [],
  .node "PathArguments::AngleBracketed" [] [.node "Ign" [] [Ex11.leaf "None"], .node "List" [] [.node "GenericArgument::Type" [] [x]]]]]

set_option maxRecDepth 1000000 in
/-- non-vacuity of `C03_independent_buckets`: the two-block example for `Vec<T>` and the same for `Box<T>` -/
example :
    let items1 := [Ex11.blockSelf "GroupA" (Ex11.vecOf Ex11.tT), Ex11.blockSelf "GroupB" (Ex11.vecOf Ex11.tT)]
    let items2 := [Ex11.blockSelf "GroupA" (Ex11.boxOf Ex11.tT), Ex11.blockSelf "GroupB" (Ex11.boxOf Ex11.tT)]
    ∃ g1 g2, parseGroups (items1 ++ items2) = .ok (g1 ++ g2) ∧ g1.length = 1 ∧ g2.length = 1 := by
  intro items1 items2
  obtain ⟨g1, h1, l1⟩ := ParseResult.ok_of_check (r := parseGroups items1) (f := fun gs => gs.length == 1)
    (by with_unfolding_all decide)
  obtain ⟨g2, h2, l2⟩ := ParseResult.ok_of_check (r := parseGroups items2) (f := fun gs => gs.length == 1)
    (by with_unfolding_all decide)
  refine ⟨g1, g2, C03_independent_buckets items1 items2 g1 g2 ?_ (by with_unfolding_all decide) h1 h2,
    by simpa using l1, by simpa using l2⟩
  intro b1 hb1 b2 hb2
  simp only [items1, items2, List.map_cons, List.map_nil, List.mem_cons, List.mem_nil_iff, or_false] at hb1 hb2
  rcases hb1 with rfl | rfl <;> rcases hb2 with rfl | rfl <;> with_unfolding_all decide

/-! ## Several keys -/

/-- one bucket, several keys: blocks with the same header that all carry the same `n ≥ 1` keys in the same order
    (`alignedChainB`: position by position `keyEq`, no key `keyEq` to a later one), each binding every key, whose
    rows pass the candidate filter (every key has a non-empty row, rows pairwise not generalising —
    `isOverlapping = false`), are accepted as one family with those keys and one row per block.
    All hypotheses are executable. -/
theorem C03_multi_key_accepts (items : List T) (gid : T) (b1 : Blk) (other : List Blk)
    (hB : items.map mkBlk = b1 :: other)
    (hid : ∀ b ∈ b1 :: other, groupIdOf b.item = gid) (hnd : ((b1 :: other).map (·.item)).Nodup)
    (hd : distinctKeysB b1.ks = true) (hch : alignedChainB b1.ks other = true) (hself : selfIdentity gid = true)
    (h1 : ((lastKs b1.ks other).zip (addRows (b1.rs.map (fun r => [r])) other)).all
      (fun kr => kr.2.any (fun r => !r.isEmpty)) = true)
    (h2 : b1.raw ≠ [])
    (h3 : (ABG.mk ((lastKs b1.ks other).zip (addRows (b1.rs.map (fun r => [r])) other)) []).isOverlapping = false) :
    ∃ u, parseGroups items =
      .ok [(gid, ⟨(lastKs b1.ks other).zip (addRows (b1.rs.map (fun r => [r])) other), u⟩, b1 :: other)] := by
  have hch' := alignedChain_of_B hch
  apply parseGroups_multi_key items gid b1 other hB hid hnd (distinctKeys_of_B hd) hch' hself
    (by simpa [List.all_eq_true] using h1) ?_ h3
  -- the family has as many keys as the first block has bounds
  intro h0
  have hlen : ∀ (ks : List BKey) (rowss : List (List Row)) (bs : List Blk), AlignedChain ks bs → rowss.length = ks.length →
      ((lastKs ks bs).zip (addRows rowss bs)).length = ks.length := by
    intro ks rowss bs
    induction bs generalizing ks rowss with
    | nil => intro _ hl; simp [lastKs, addRows, hl]
    | cons b rest ih =>
      intro ⟨hal, _, hr⟩ hl
      have hkl := hal.length_eq
      simp only [lastKs, addRows]
      rw [ih b.ks _ hr (by simp [Blk.ks, Blk.rs, hkl ▸ hl])]
      exact hkl.symm
  have := hlen b1.ks (b1.rs.map (fun r => [r])) other hch' (by simp [Blk.ks, Blk.rs])
  rw [h0] at this
  simp only [List.length_nil, Blk.ks, List.length_map] at this
  exact h2 (List.length_eq_zero_iff.1 this.symm)

namespace Ex11
/-- `Other<Kind = k>` -/
def otherTr (k : String) : T :=
  path [.node "PathSegment" [] [.node "Ident" ["Other"] [], .node "PathArguments::AngleBracketed" [] [.node "Ign" [] [leaf "None"],
    .node "List" [] [.node "GenericArgument::AssocType" [] [.node "AssocType" [] [.node "Ident" ["Kind"] [], leaf "None", tyPath [seg k]]]]]]]
/-- `impl<T: Dispatch<Group = g> + Other<Kind = k>> Kita for T {}` -/
def block2 (g k : String) : T := implOf [tyParam "T" [traitBound (dispatch g), traitBound (otherTr k)]] tT
end Ex11

set_option maxRecDepth 1000000 in
/-- non-vacuity: two blocks with two keys each (`T: Dispatch<Group = …> + Other<Kind = …>`) satisfy every hypothesis;
    the theorem yields one family with 2 keys and 2 members -/
example :
    ∃ gid abg b1 b2, parseGroups [Ex11.block2 "GroupA" "X", Ex11.block2 "GroupB" "Y"] = .ok [(gid, abg, [b1, b2])] ∧
      abg.bounds.length = 2 := by
  let items := [Ex11.block2 "GroupA" "X", Ex11.block2 "GroupB" "Y"]
  let b1 := mkBlk (Ex11.block2 "GroupA" "X")
  let b2 := mkBlk (Ex11.block2 "GroupB" "Y")
  obtain ⟨u, hu⟩ := C03_multi_key_accepts items (groupIdOf b1.item) b1 [b2] rfl
    (by intro b hb; simp only [List.mem_cons, List.mem_nil_iff, or_false] at hb
        rcases hb with rfl | rfl
        · rfl
        · with_unfolding_all decide)
    (by with_unfolding_all decide) (by with_unfolding_all decide) (by with_unfolding_all decide)
    (by with_unfolding_all decide) (by with_unfolding_all decide) (by with_unfolding_all decide)
    (by with_unfolding_all decide)
  have hlen : ((lastKs (mkBlk (Ex11.block2 "GroupA" "X")).ks [mkBlk (Ex11.block2 "GroupB" "Y")]).zip
      (addRows ((mkBlk (Ex11.block2 "GroupA" "X")).rs.map (fun r => [r])) [mkBlk (Ex11.block2 "GroupB" "Y")])).length = 2 := by
    with_unfolding_all decide
  exact ⟨_, _, b1, b2, hu, hlen⟩

/-! ## Arbitrary invocations without nested headers (proofs in `Lemmas/FlatAccept.lean`, on top of `Lemmas/FlatOrder.lean`)

  Side conditions (executable, evaluated per test case): `noNesting items` (no header generalises a different one) and
  `flatWF items` (every header matches itself with identity bindings only; every trait path in the bounds can be
  compared by `TraitBound::eq`). Buckets = the blocks grouped by header (`mkBuckets`). Within a bucket the blocks may
  list their bounds in any order, have extra bounds the others lack, repeat a bound, and bind several associated types.

  * `distinguishedB blks` (the documented fragment): some key that every block of the bucket bounds has a binding, and
    every two different blocks bind one associated type under a key that EVERY block of the bucket bounds to payloads
    of which neither generalises the other (`supYes p q = false ∧ supYes q p = false`; non-unifiable payloads satisfy
    it, `C03_nonunifiable_distinguishes`). `C03_distinguishedB_spec` spells it out.
  * `separatedB blks` (exact): some such key has a binding, and for no two different blocks `bi`, `bj` does the row of
    `bi` generalise the row of `bj` on all columns the family keeps (`genPair_fa`). -/

/-- **Acceptance of the documented fragment.** An invocation without nested headers in which the blocks of every
    bucket pairwise differ by bindings of a shared associated type of which neither generalises the other
    (`distinguishedB`) is accepted. The result has one family per bucket, in bucket order, with the bucket's header
    and exactly the bucket's blocks as members (in bucket order); the keys of a family are the keys of its last
    member that every member bounds and for which some member has a binding, and the row of a member under a key is
    the member's own folded row. -/
theorem C03_flat_accepts (items : List T) (hn : noNesting items = true) (hwf : flatWF items = true)
    (hd : ∀ bk ∈ mkBuckets (items.map mkBlk), distinguishedB bk.2 = true) :
    ∃ groups, parseGroups items = .ok groups ∧
      groups.map (fun e => (e.1, e.2.2)) = mkBuckets (items.map mkBlk) ∧
      ∀ e ∈ groups, ∃ l, e.2.2.getLast? = some l ∧
        ∀ kr, kr ∈ e.2.1.bounds ↔
          (∃ r, (kr.1, r) ∈ otherFold l) ∧ hasKey e.2.2 kr.1 = true ∧ kr.2 = e.2.2.map (fun b => rowD b kr.1) ∧
            ∃ b ∈ e.2.2, rowD b kr.1 ≠ [] := by
  have hms : msPairs ((mkBuckets (items.map mkBlk)).map (·.1)) = [] := by simpa [noNesting] using hn
  have hwf0 := flatWF0_of_flatWF hwf
  obtain ⟨g, hg⟩ := (flat_ok_iff_separated_fa items hms hwf).2 (fun bk hbk => separatedB_of_distinguishedB (hd bk hbk))
  refine ⟨g, hg, flat_groups_shape_fa hg hms hwf0, fun e he => ?_⟩
  obtain ⟨_, _, h3⟩ := flat_family_char hg hms hwf0 e he
  exact h3

/-- the same under the single executable precondition
    `flatAcceptPre items = noNesting items && flatWF items && flatDistinguished items` -/
def flatAcceptPre (items : List T) : Bool := noNesting items && flatWF items && flatDistinguished items

theorem C03_flat_accepts_exec (items : List T) (hpre : flatAcceptPre items = true) :
    ∃ groups, parseGroups items = .ok groups ∧ groups.map (fun e => (e.1, e.2.2)) = mkBuckets (items.map mkBlk) := by
  simp only [flatAcceptPre, flatDistinguished, Bool.and_eq_true, List.all_eq_true] at hpre
  obtain ⟨g, h1, h2, _⟩ := C03_flat_accepts items hpre.1.1 hpre.1.2 hpre.2
  exact ⟨g, h1, h2⟩

/-- under the weaker side condition `flatWF0` (headers on which the matcher panics or answers no are allowed) the
    same holds provided no bucket makes the search panic (`bucketPanics`: two or more blocks under a header that does
    not match itself) -/
theorem C03_flat_accepts_weak (items : List T) (hn : noNesting items = true) (hwf : flatWF0 items = true)
    (hd : ∀ bk ∈ mkBuckets (items.map mkBlk), bucketPanics bk = false ∧ distinguishedB bk.2 = true) :
    ∃ groups, parseGroups items = .ok groups ∧ groups.map (fun e => (e.1, e.2.2)) = mkBuckets (items.map mkBlk) := by
  have hms : msPairs ((mkBuckets (items.map mkBlk)).map (·.1)) = [] := by simpa [noNesting] using hn
  obtain ⟨g, hg⟩ := (flat_ok_iff_separated0_fa items hms hwf).2
    (fun bk hbk => ⟨(hd bk hbk).1, separatedB_of_distinguishedB (hd bk hbk).2⟩)
  exact ⟨g, hg, flat_groups_shape_fa hg hms hwf⟩

/-- what `distinguishedB` says (for blocks whose trait paths can be compared, `wfBlk`): some key every block bounds
    has a binding, and for every two different blocks `bi`, `bj` there are a key `k` of `bi` that every block of the
    bucket bounds and an associated-type identifier `a` such that `bi` binds `a` under `k` to `p`, `bj` binds `a`
    under `k` to `q` (`cell`: the block's folded row for the key, looked up at `a`), and neither of `p`, `q`
    generalises the other -/
theorem C03_distinguishedB_spec (blks : List Blk) (hw : ∀ b ∈ blks, wfBlk b = true) :
    distinguishedB blks = true ↔ hasColumn_fa blks = true ∧
      ∀ bi ∈ blks, ∀ bj ∈ blks, bi ≠ bj → ∃ e ∈ otherFold bi, hasKey blks e.1 = true ∧
        ∃ a p q, cell bi (e.1, a) = some p ∧ cell bj (e.1, a) = some q ∧ supYes p q = false ∧ supYes q p = false :=
  distinguishedB_spec_fa hw

/-- for a bucket with two different blocks the pair condition alone is `distinguishedB` (the first conjunct only
    matters for a lone block, `C03_flat_lone_block_counterexample`) -/
theorem C03_distinguishedB_of_pairs (blks : List Blk) (bi bj : Blk) (hbi : bi ∈ blks) (hbj : bj ∈ blks) (hne : bi ≠ bj)
    (h : distPairs_fa blks = true) : distinguishedB blks = true := by
  simp only [distinguishedB, Bool.and_eq_true]
  exact ⟨hasColumn_of_distPairs_fa hbi hbj hne h, h⟩

/-- **Non-unifiable payloads are distinguished.** A positive, non-lenient answer of the matcher is a unifier
    (`q` is an instance of `p`, modulo presentation). Hence two payloads without a common instance — the parameters of
    the two sides instantiated separately, `Unifiable_fa` — bound by two blocks to the same associated type under the
    same key satisfy the cell condition of `distinguishedB`. Side condition `unifPre_fa p q` (executable): both
    payloads are well-formed trees (`wf`), their ignored children face each other (`ignFaces`, both directions), and
    the matcher does not answer through one of its deliberately lenient arms (`supExact_fa`, both directions). -/
theorem C03_nonunifiable_distinguishes (bi bj : Blk) (kx : BKey × String) (p q : T) (hi : cell bi kx = some p)
    (hj : cell bj kx = some q) (hpre : unifPre_fa p q = true)
    (hnu : ¬ ∃ θ₁ θ₂ : Subst, erase (inst θ₁ p) = erase (inst θ₂ q)) : sepCell_fa bi bj kx = true :=
  sepCell_of_not_unifiable_fa hi hj hpre hnu

/-- the lemma behind it: an exact positive answer `sup p q = .yes σ false` on well-formed trees makes `q` an instance
    of `p`, so `p` and `q` are unifiable -/
theorem C03_sup_yes_unifiable (p q : T) (σ : Subst) (hp : wf p = true) (hq : wf q = true)
    (hf : ignFaces p (stripTop q) = true) (h : sup p q = .yes σ false) :
    ∃ θ₁ θ₂ : Subst, erase (inst θ₁ p) = erase (inst θ₂ q) :=
  unifiable_of_sup_fa hp hq hf h

/-- the restriction to exact answers (`lossy = false`) in `C03_sup_yes_unifiable` cannot be dropped: the anonymous
    lifetime `'_` "generalises" `'a` through a deliberately lenient arm of the matcher (`sup … = .yes [] true`), both
    trees are well-formed and closed, and they have no common instance modulo presentation — which is why
    `unifPre_fa` asks for `supExact_fa` -/
theorem C03_sup_yes_unifiable_lossy_counterexample :
    let p : T := .node "Lifetime" [] [.node "Ident" ["_"] []]
    let q : T := .node "Lifetime" [] [.node "Ident" ["a"] []]
    sup p q = .yes [] true ∧ wf p = true ∧ wf q = true ∧ ignFaces p (stripTop q) = true ∧
      ¬ ∃ θ₁ θ₂ : Subst, erase (inst θ₁ p) = erase (inst θ₂ q) := by
  intro p q
  exact ⟨by decide, by decide, by decide, by decide, not_unifiable_of_closed_fa (by decide) (by decide) (by decide)⟩

/-- **Acceptance, exactly.** An invocation without nested headers is accepted iff every bucket is separated
    (`separatedB`, executable and independent of the order of the blocks): some key that every block bounds has a
    binding, and no block's row generalises another block's row on the columns the family keeps. -/
theorem C03_flat_acceptance_exact (items : List T) (hn : noNesting items = true) (hwf : flatWF items = true) :
    (∃ groups, parseGroups items = .ok groups) ↔ ∀ bk ∈ mkBuckets (items.map mkBlk), separatedB bk.2 = true :=
  flat_ok_iff_separated_fa items (by simpa [noNesting] using hn) hwf

/-- the documented fragment is inside the exact condition (a boolean implication, no side condition) -/
theorem C03_distinguished_separated (blks : List Blk) (h : distinguishedB blks = true) : separatedB blks = true :=
  separatedB_of_distinguishedB h

/-- `separatedB` is the candidate filter (`accOK`: after pruning the keys without a binding a key is left and
    `is_overlapping` is false) of the single candidate of the bucket -/
theorem C03_separatedB_is_filter (blks : List Blk) (hne : blks ≠ []) (hw : ∀ b ∈ blks, wfBlk b = true) (hnd : blks.Nodup) :
    accOK blks = separatedB blks :=
  accOK_eq_separatedB hne hw hnd

/-- **Rejection of indistinguishable blocks** (the macro half of C04 for inputs without nested headers): if two
    different blocks `bi`, `bj` of some bucket are such that the row of `bi` generalises the row of `bj` on all shared
    columns (`genPair_fa`: under every key of `bi` that every block of the bucket bounds, every associated type bound
    by `bi` is bound by `bj` to a payload that `bi`'s payload generalises — in particular if both bind the same
    payloads, or if `bi` has no binding under a shared key at all), the macro rejects the invocation with "Unable to
    form impl group" for the header of a bucket that is not separated. -/
theorem C03_flat_rejects_indistinguishable (items : List T) (hn : noNesting items = true) (hwf : flatWF items = true)
    (bk : T × List Blk) (hbk : bk ∈ mkBuckets (items.map mkBlk)) (bi bj : Blk) (hbi : bi ∈ bk.2) (hbj : bj ∈ bk.2)
    (hne : bi ≠ bj) (hg : genPair_fa bk.2 bi bj = true) :
    ∃ id, parseGroups items = .unableToForm id ∧
      ∃ bk' ∈ mkBuckets (items.map mkBlk), bk'.1 = id ∧ separatedB bk'.2 = false :=
  flat_rejects_fa items (by simpa [noNesting] using hn) hwf hbk (not_separated_of_genPair_fa hbi hbj hne hg)

/-- … and of a bucket in which no key that every block bounds has a binding -/
theorem C03_flat_rejects_no_binding (items : List T) (hn : noNesting items = true) (hwf : flatWF items = true)
    (bk : T × List Blk) (hbk : bk ∈ mkBuckets (items.map mkBlk)) (hc : hasColumn_fa bk.2 = false) :
    ∃ id, parseGroups items = .unableToForm id ∧
      ∃ bk' ∈ mkBuckets (items.map mkBlk), bk'.1 = id ∧ separatedB bk'.2 = false :=
  flat_rejects_fa items (by simpa [noNesting] using hn) hwf hbk (by simp [separatedB, hc])

/-- **The semantic form of C03 for inputs without nested headers.** If in every bucket some key that every block
    bounds has a binding and every two different blocks bind one associated type, under a key that every block of
    the bucket bounds, to payloads WITHOUT A COMMON INSTANCE (`¬ ∃ θ₁ θ₂, erase (inst θ₁ p) = erase (inst θ₂ q)`, a
    genuine semantic assumption; plus the executable `unifPre_fa p q`: well-formed payloads on which the matcher
    does not take a lenient arm), the invocation is accepted, with one family per bucket. -/
theorem C03_flat_accepts_nonunifiable (items : List T) (hn : noNesting items = true) (hwf : flatWF items = true)
    (h : ∀ bk ∈ mkBuckets (items.map mkBlk), hasColumn_fa bk.2 = true ∧
      ∀ bi ∈ bk.2, ∀ bj ∈ bk.2, bi ≠ bj → ∃ e ∈ otherFold bi, hasKey bk.2 e.1 = true ∧
        ∃ a p q, cell bi (e.1, a) = some p ∧ cell bj (e.1, a) = some q ∧ unifPre_fa p q = true ∧
          ¬ ∃ θ₁ θ₂ : Subst, erase (inst θ₁ p) = erase (inst θ₂ q)) :
    ∃ groups, parseGroups items = .ok groups ∧ groups.map (fun e => (e.1, e.2.2)) = mkBuckets (items.map mkBlk) := by
  obtain ⟨g, h1, h2, _⟩ := C03_flat_accepts items hn hwf (fun bk hbk => by
    obtain ⟨_, _, _, hw, _⟩ := buckets_facts items (flatWF0_of_flatWF hwf) bk hbk
    exact distinguishedB_of_nonunifiable_fa hw (h bk hbk).1 (h bk hbk).2)
  exact ⟨g, h1, h2⟩

/-- closed (parameter-free) payloads that differ modulo presentation have no common instance -/
theorem C03_closed_payloads_nonunifiable (p q : T) (hp : closed p = true) (hq : closed q = true)
    (h : erase p ≠ erase q) : ¬ ∃ θ₁ θ₂ : Subst, erase (inst θ₁ p) = erase (inst θ₂ q) :=
  not_unifiable_of_closed_fa hp hq h

/-- an executable sufficient condition for "no common instance": a constructor clash (`clash_fa p q`: at some position
    reached through rigid nodes on both sides — not a transparent wrapper, not an ignored child, not a lone type
    parameter in generic-argument position — the two trees have rigid nodes of different kinds, atoms or numbers of
    children). Payloads with parameters are allowed. -/
theorem C03_clash_nonunifiable (p q : T) (h : clash_fa p q = true) :
    ¬ ∃ θ₁ θ₂ : Subst, erase (inst θ₁ p) = erase (inst θ₂ q) :=
  not_unifiable_of_clash_fa h

/-- the two conditions are order-free: they only depend on the set of blocks of the bucket -/
theorem C03_flat_conditions_order_free (blks blks' : List Blk) (hp : blks.Perm blks') :
    distinguishedB blks = distinguishedB blks' ∧ separatedB blks = separatedB blks' :=
  ⟨distinguishedB_mem_congr_fa (fun _ => hp.mem_iff), separatedB_mem_congr_fa (fun _ => hp.mem_iff)⟩

/-- the precondition of `C03_flat_accepts_exec` holds for every permutation of the blocks if it holds for one (so the
    acceptance of every order of a documented invocation follows from the theorem itself) -/
theorem C03_flat_accept_pre_order_free (items items' : List T) (hp : items.Perm items')
    (hpre : flatAcceptPre items = true) : flatAcceptPre items' = true := by
  simp only [flatAcceptPre, Bool.and_eq_true] at hpre ⊢
  obtain ⟨h1, h2⟩ := flat_hyps_perm hp (by simpa [noNesting] using hpre.1.1) hpre.1.2
  exact ⟨⟨by simpa [noNesting] using h1, h2⟩, flatDistinguished_perm_fa hp hpre.2⟩

/-- what `genPair_fa` (the hypothesis of `C03_flat_rejects_indistinguishable`) says: under every key of `bi` that
    every block of the bucket bounds, every associated type `bi` binds is bound by `bj` to a payload that `bi`'s
    payload generalises (`genCell`: one position of `is_overlapping`'s row comparison) -/
theorem C03_genPair_spec (blks : List Blk) (bi bj : Blk) :
    genPair_fa blks bi bj = true ↔ ∀ e ∈ otherFold bi, hasKey blks e.1 = true → ∀ xp ∈ e.2,
      genCell (cell bi (e.1, xp.1)) (cell bj (e.1, xp.1)) = true :=
  genPair_iff_fa

/-- … and the header in the error message is that of the FIRST bucket (in the order of first occurrence of the
    headers) that is not separated -/
theorem C03_flat_rejects_first (items : List T) (hn : noNesting items = true) (hwf : flatWF items = true)
    (pre post : List (T × List Blk)) (bk : T × List Blk) (hsplit : mkBuckets (items.map mkBlk) = pre ++ bk :: post)
    (hpre : ∀ b ∈ pre, separatedB b.2 = true) (hbk : separatedB bk.2 = false) :
    parseGroups items = .unableToForm bk.1 :=
  flat_rejects_first_fa items (by simpa [noNesting] using hn) hwf pre post bk hsplit hpre hbk

namespace Ex11
/-- `impl<T: bounds> Kita for T {}` -/
def blockOf_fa (bs : List T) : T := implOf [tyParam "T" bs] tT
/-- `Dispatch<Group = p>` for an arbitrary payload type `p` -/
def dispatchTy_fa (p : T) : T :=
  path [.node "PathSegment" [] [.node "Ident" ["Dispatch"] [], .node "PathArguments::AngleBracketed" [] [.node "Ign" [] [leaf "None"],
    .node "List" [] [.node "GenericArgument::AssocType" [] [.node "AssocType" [] [.node "Ident" ["Group"] [], leaf "None", p]]]]]]
/-- three blocks with the same header: the second one lists its bounds in the other order and the third one lacks the
    `Other` bound, so the family keeps the single key `T: Dispatch` -/
def flat3_fa : List T :=
  [blockOf_fa [traitBound (dispatch "GroupA"), traitBound (otherTr "X")],
   blockOf_fa [traitBound (otherTr "Y"), traitBound (dispatch "GroupB")],
   blockOf_fa [traitBound (dispatch "GroupC")]]
/-- two buckets (`Vec<T>` and `Box<T>`), blocks interleaved -/
def flat2x2_fa : List T :=
  [blockSelf "GroupA" (vecOf tT), blockSelf "GroupA" (boxOf tT), blockSelf "GroupB" (vecOf tT), blockSelf "GroupB" (boxOf tT)]
/-- three blocks with two keys each; different pairs are distinguished by different keys -/
def flat3keys_fa : List T := [block2 "GroupA" "X", block2 "GroupB" "Y", block2 "GroupA" "Y"]
/-- the first two blocks differ only on `T: Other<Kind = …>`, a key the third block does not bound -/
def nonshared_fa : List T :=
  [blockOf_fa [traitBound (dispatch "GroupA"), traitBound (otherTr "X")],
   blockOf_fa [traitBound (otherTr "Y"), traitBound (dispatch "GroupA")],
   blockOf_fa [traitBound (dispatch "GroupC")]]
/-- `impl<T: Dispatch<Group = Vec<U>>, U> Kita for T {}` and `impl<T: Dispatch<Group = Vec<u32>>> Kita for T {}` -/
def generalising_fa : List T :=
  [implOf [tyParam "T" [traitBound (dispatchTy_fa (vecOf (tyPath [seg "U"])))], tyParam "U" []] tT,
   implOf [tyParam "T" [traitBound (dispatchTy_fa (vecOf (tyPath [seg "u32"])))]] tT]
/-- `impl<T: Dispatch<Group = GroupA> + Other> Kita for T {}` and `impl<T: Dispatch + Other<Kind = X>> Kita for T {}` -/
def wildcards_fa : List T :=
  [blockOf_fa [traitBound (dispatch "GroupA"), traitBound (path [seg "Other"])],
   blockOf_fa [traitBound (path [seg "Dispatch"]), traitBound (otherTr "X")]]
end Ex11

section FlatAcceptExamples
open Ex11
set_option maxRecDepth 1000000

/-- non-vacuity of `C03_flat_accepts`: the README example satisfies every hypothesis (one bucket, two blocks) -/
theorem C03_flat_readme_pre : flatAcceptPre [blockFor "GroupA", blockFor "GroupB"] = true := by
  with_unfolding_all decide

example : ∃ groups, parseGroups [blockFor "GroupA", blockFor "GroupB"] = .ok groups ∧
    groups.map (fun e => (e.1, e.2.2)) = mkBuckets ([blockFor "GroupA", blockFor "GroupB"].map mkBlk) :=
  C03_flat_accepts_exec _ C03_flat_readme_pre

/-- non-vacuity: three blocks with the keys in different orders and an extra, non-shared bound (the example of
    `C05_flat_example_*`); not covered by `C03_single_bucket_accepts` / `C03_multi_key_accepts` (not aligned) -/
theorem C03_flat_three_blocks_pre :
    noNesting flat3_fa = true ∧ flatWF flat3_fa = true ∧
      (∀ bk ∈ mkBuckets (flat3_fa.map mkBlk), distinguishedB bk.2 = true) ∧
      (mkBuckets (flat3_fa.map mkBlk)).map (fun bk => bk.2.length) = [3] := by
  refine ⟨by with_unfolding_all decide, by with_unfolding_all decide, ?_, by with_unfolding_all decide⟩
  have : flatDistinguished flat3_fa = true := by with_unfolding_all decide
  simpa [flatDistinguished, List.all_eq_true] using this

example : ∃ groups, parseGroups flat3_fa = .ok groups ∧
    groups.map (fun e => (e.1, e.2.2)) = mkBuckets (flat3_fa.map mkBlk) := by
  obtain ⟨h1, h2, h3, _⟩ := C03_flat_three_blocks_pre
  obtain ⟨g, hg, hs, _⟩ := C03_flat_accepts flat3_fa h1 h2 h3
  exact ⟨g, hg, hs⟩

/-- non-vacuity: a two-bucket input with interleaved blocks, and three blocks with two keys each where different
    pairs are distinguished by different keys -/
theorem C03_flat_more_pre :
    flatAcceptPre flat2x2_fa = true ∧ (mkBuckets (flat2x2_fa.map mkBlk)).map (fun bk => bk.2.length) = [2, 2] ∧
    flatAcceptPre flat3keys_fa = true ∧ (mkBuckets (flat3keys_fa.map mkBlk)).map (fun bk => bk.2.length) = [3] := by
  refine ⟨by with_unfolding_all decide, by with_unfolding_all decide, by with_unfolding_all decide,
    by with_unfolding_all decide⟩

example : (∃ g, parseGroups flat2x2_fa = .ok g ∧ g.length = 2) ∧ (∃ g, parseGroups flat3keys_fa = .ok g ∧ g.length = 1) := by
  obtain ⟨h1, l1, h2, l2⟩ := C03_flat_more_pre
  obtain ⟨g1, hg1, hs1⟩ := C03_flat_accepts_exec _ h1
  obtain ⟨g2, hg2, hs2⟩ := C03_flat_accepts_exec _ h2
  refine ⟨⟨g1, hg1, ?_⟩, ⟨g2, hg2, ?_⟩⟩
  · have := congrArg List.length hs1
    have l1' := congrArg List.length l1
    simp only [List.length_map] at this l1'
    rw [this, l1']; rfl
  · have := congrArg List.length hs2
    have l2' := congrArg List.length l2
    simp only [List.length_map] at this l2'
    rw [this, l2']; rfl

/-- **Counterexample: the distinguishing key must be bounded by EVERY block of the bucket.** The first two of the
    three blocks differ (only) by their bindings `Kind = X` / `Kind = Y` under `T: Other<…>`, a key the third block
    does not bound; every other pair differs on `T: Dispatch<Group = …>`. The weakened condition
    `distinguishedAnyKeyB_fa` (distinguishing key not required to be shared by all blocks) holds, but the family only
    keeps keys every member bounds, the first two rows coincide there (`Group = GroupA`), and the macro rejects. -/
theorem C03_flat_nonshared_key_counterexample :
    noNesting nonshared_fa = true ∧ flatWF nonshared_fa = true ∧
    (mkBuckets (nonshared_fa.map mkBlk)).all (fun bk => distinguishedAnyKeyB_fa bk.2) = true ∧
    (mkBuckets (nonshared_fa.map mkBlk)).all (fun bk => distinguishedB bk.2) = false ∧
    ∃ id, parseGroups nonshared_fa = .unableToForm id := by
  have hn : noNesting nonshared_fa = true := by with_unfolding_all decide
  have hwf : flatWF nonshared_fa = true := by with_unfolding_all decide
  refine ⟨hn, hwf, by with_unfolding_all decide, by with_unfolding_all decide, ?_⟩
  -- rejection through the theorem: the row of the first block generalises the row of the second one
  have hex : ∃ bk ∈ mkBuckets (nonshared_fa.map mkBlk), ∃ bi ∈ bk.2, ∃ bj ∈ bk.2, bi ≠ bj ∧ genPair_fa bk.2 bi bj = true := by
    have : (mkBuckets (nonshared_fa.map mkBlk)).any (fun bk => bk.2.any (fun bi => bk.2.any (fun bj =>
        decide (bi ≠ bj) && genPair_fa bk.2 bi bj))) = true := by with_unfolding_all decide
    simp only [List.any_eq_true, Bool.and_eq_true, decide_eq_true_eq] at this
    obtain ⟨bk, hbk, bi, hbi, bj, hbj, hne, hg⟩ := this
    exact ⟨bk, hbk, bi, hbi, bj, hbj, hne, hg⟩
  obtain ⟨bk, hbk, bi, hbi, bj, hbj, hne, hg⟩ := hex
  obtain ⟨id, hid, _⟩ := C03_flat_rejects_indistinguishable nonshared_fa hn hwf bk hbk bi bj hbi hbj hne hg
  exact ⟨id, hid⟩

/-- **Counterexample: a lone block needs a binding.** `impl<T> Kita for T {}` alone: the pair condition is vacuous,
    but the candidate filter drops a family without any associated-type binding (`is_empty` after
    `prune_non_assoc`), so the macro rejects the invocation with "Unable to form impl group". -/
theorem C03_flat_lone_block_counterexample :
    noNesting [blockOf_fa []] = true ∧ flatWF [blockOf_fa []] = true ∧
    (mkBuckets ([blockOf_fa []].map mkBlk)).all (fun bk => distPairs_fa bk.2) = true ∧
    ∃ id, parseGroups [blockOf_fa []] = .unableToForm id := by
  have hn : noNesting [blockOf_fa []] = true := by with_unfolding_all decide
  have hwf : flatWF [blockOf_fa []] = true := by with_unfolding_all decide
  refine ⟨hn, hwf, by with_unfolding_all decide, ?_⟩
  have hex : ∃ bk ∈ mkBuckets ([blockOf_fa []].map mkBlk), hasColumn_fa bk.2 = false := by
    have : (mkBuckets ([blockOf_fa []].map mkBlk)).any (fun bk => !hasColumn_fa bk.2) = true := by
      with_unfolding_all decide
    simpa [List.any_eq_true] using this
  obtain ⟨bk, hbk, hc⟩ := hex
  obtain ⟨id, hid, _⟩ := C03_flat_rejects_no_binding _ hn hwf bk hbk hc
  exact ⟨id, hid⟩

/-- **Counterexample: different payloads are not enough, neither may generalise the other.** `Group = Vec<U>` (with
    `U` a parameter of the block) and `Group = Vec<u32>` are different payloads, and the second does not generalise
    the first, but the first generalises the second: the rows are not separated and the macro rejects. -/
theorem C03_flat_generalising_payload_counterexample :
    noNesting generalising_fa = true ∧ flatWF generalising_fa = true ∧
    -- the two blocks' folded rows: one key each, `Group = Vec<_ŠČ1>` and `Group = Vec<u32>`
    (generalising_fa.map mkBlk).map (fun b => (otherFold b).map (fun e => e.2)) =
      [[[("Group", vecOf (.tparam "_ŠČ1"))]], [[("Group", vecOf (tyPath [seg "u32"]))]]] ∧
    vecOf (.tparam "_ŠČ1") ≠ vecOf (tyPath [seg "u32"]) ∧
    supYes (vecOf (tyPath [seg "u32"])) (vecOf (.tparam "_ŠČ1")) = false ∧
    supYes (vecOf (.tparam "_ŠČ1")) (vecOf (tyPath [seg "u32"])) = true ∧
    (mkBuckets (generalising_fa.map mkBlk)).all (fun bk => separatedB bk.2) = false ∧
    ∃ id, parseGroups generalising_fa = .unableToForm id := by
  have hn : noNesting generalising_fa = true := by with_unfolding_all decide
  have hwf : flatWF generalising_fa = true := by with_unfolding_all decide
  have hs : (mkBuckets (generalising_fa.map mkBlk)).all (fun bk => separatedB bk.2) = false := by
    with_unfolding_all decide
  refine ⟨hn, hwf, by with_unfolding_all decide, by decide, by decide, by decide, hs, ?_⟩
  cases hr : parseGroups generalising_fa with
  | ok g =>
    have := (C03_flat_acceptance_exact generalising_fa hn hwf).1 ⟨g, hr⟩
    rw [← List.all_eq_true, hs] at this
    cases this
  | unableToForm id => exact ⟨id, rfl⟩
  | panic e => exact absurd hr ((parseGroups_flat_kinds generalising_fa (by simpa [noNesting] using hn) hwf).2.2 e)

/-- `distinguishedB` is sufficient, not necessary: two blocks that each leave the other's bound associated type
    unconstrained (`Group = GroupA` and no `Kind`, versus no `Group` and `Kind = X`) are separated — neither row
    generalises the other, a binding never generalises a missing one — and the macro accepts them, although no
    associated type is bound by both. (Such blocks overlap semantically; that is C04's subject.) -/
theorem C03_flat_separated_not_distinguished_example :
    noNesting wildcards_fa = true ∧ flatWF wildcards_fa = true ∧
    (mkBuckets (wildcards_fa.map mkBlk)).all (fun bk => distinguishedB bk.2) = false ∧
    ∃ g, parseGroups wildcards_fa = .ok g := by
  have hn : noNesting wildcards_fa = true := by with_unfolding_all decide
  have hwf : flatWF wildcards_fa = true := by with_unfolding_all decide
  refine ⟨hn, hwf, by with_unfolding_all decide, (C03_flat_acceptance_exact wildcards_fa hn hwf).2 ?_⟩
  have : flatSeparated wildcards_fa = true := by with_unfolding_all decide
  simpa [flatSeparated, List.all_eq_true] using this

/-- non-vacuity of `C03_flat_accepts_weak` outside `flatWF`: a lone block under a header on which the matcher itself
    panics (a synthetic header containing a `Pat::Struct` node; its bucket is never compared with itself) next to an
    ordinary family -/
example :
    let weird : T := .node "Type::Slice" [] [.node "Pat::Struct" [] []]
    let items := [blockSelf "GroupA" weird, blockSelf "GroupA" (vecOf tT), blockSelf "GroupB" (vecOf tT)]
    flatWF items = false ∧ ∃ g, parseGroups items = .ok g ∧ g.length = 2 := by
  intro weird items
  have hn : noNesting items = true := by with_unfolding_all decide
  have hwf : flatWF0 items = true := by with_unfolding_all decide
  have hd : (mkBuckets (items.map mkBlk)).all (fun bk => !bucketPanics bk && distinguishedB bk.2) = true := by
    with_unfolding_all decide
  have hl : (mkBuckets (items.map mkBlk)).length = 2 := by with_unfolding_all decide
  obtain ⟨g, hg, hs⟩ := C03_flat_accepts_weak items hn hwf (by
    simp only [List.all_eq_true, Bool.and_eq_true, Bool.not_eq_true'] at hd
    exact hd)
  refine ⟨by with_unfolding_all decide, g, hg, ?_⟩
  have := congrArg List.length hs
  simp only [List.length_map] at this
  rw [this, hl]

/-- non-vacuity of `C03_distinguishedB_spec`, `C03_distinguishedB_of_pairs`, `C03_separatedB_is_filter` and
    `C03_distinguished_separated`: the bucket of the three-block example -/
example : ∃ blks : List Blk, blks.length = 3 ∧ (∀ b ∈ blks, wfBlk b = true) ∧ blks.Nodup ∧
    distinguishedB blks = true ∧ separatedB blks = true ∧ accOK blks = true ∧
    (∀ bi ∈ blks, ∀ bj ∈ blks, bi ≠ bj → ∃ e ∈ otherFold bi, hasKey blks e.1 = true ∧
      ∃ a p q, cell bi (e.1, a) = some p ∧ cell bj (e.1, a) = some q ∧ supYes p q = false ∧ supYes q p = false) := by
  let b0 := mkBlk (blockOf_fa [traitBound (dispatch "GroupA"), traitBound (otherTr "X")])
  let b1 := mkBlk (blockOf_fa [traitBound (otherTr "Y"), traitBound (dispatch "GroupB")])
  let b2 := mkBlk (blockOf_fa [traitBound (dispatch "GroupC")])
  let blks := [b0, b1, b2]
  have hw : ∀ b ∈ blks, wfBlk b = true := by
    have : blks.all wfBlk = true := by with_unfolding_all decide
    simpa [List.all_eq_true] using this
  have hnd : blks.Nodup := by with_unfolding_all decide
  have hp : distPairs_fa blks = true := by with_unfolding_all decide
  have h01 : b0 ≠ b1 := by with_unfolding_all decide
  have hd : distinguishedB blks = true :=
    C03_distinguishedB_of_pairs blks b0 b1 (by simp [blks]) (by simp [blks]) h01 hp
  have hs := C03_distinguished_separated blks hd
  refine ⟨blks, rfl, hw, hnd, hd, hs, ?_, ((C03_distinguishedB_spec blks hw).1 hd).2⟩
  rw [C03_separatedB_is_filter blks (by simp [blks]) hw hnd]
  exact hs

/-- non-vacuity of `C03_sup_yes_unifiable`: `Vec<_ŠČ1>` generalises `Vec<u32>` (the payloads of
    `generalising_fa`) -/
example : ∃ σ, wf (vecOf (.tparam "_ŠČ1")) = true ∧ wf (vecOf (tyPath [seg "u32"])) = true ∧
    ignFaces (vecOf (.tparam "_ŠČ1")) (stripTop (vecOf (tyPath [seg "u32"]))) = true ∧
    sup (vecOf (.tparam "_ŠČ1")) (vecOf (tyPath [seg "u32"])) = .yes σ false :=
  ⟨[("_ŠČ1", .ty (tyPath [seg "u32"]))], by decide, by decide, by decide, by decide⟩

/-- non-vacuity of `C03_nonunifiable_distinguishes`: the payloads `GroupA`, `GroupB` of the README example are closed
    and different, hence not unifiable; the theorem (not a computation of `sup`) yields the cell condition -/
example : sepCell_fa (mkBlk (blockFor "GroupA")) (mkBlk (blockFor "GroupB"))
    ((.tparam "_ŠČ0", dispatch "GroupA"), "Group") = true := by
  apply C03_nonunifiable_distinguishes _ _ _ (tyPath [seg "GroupA"]) (tyPath [seg "GroupB"])
    (by with_unfolding_all decide) (by with_unfolding_all decide) (by with_unfolding_all decide)
  rintro ⟨θ₁, θ₂, h⟩
  rw [inst_closed θ₁ _ (by decide), inst_closed θ₂ _ (by decide)] at h
  revert h
  decide

/-- non-vacuity of `C03_flat_accepts_nonunifiable` and `C03_closed_payloads_nonunifiable`: the README example; its
    payloads `GroupA`, `GroupB` are closed and different, and the theorems (no evaluation of the matcher on the
    payloads) yield the acceptance -/
example : ∃ g, parseGroups [blockFor "GroupA", blockFor "GroupB"] = .ok g := by
  let b1 := mkBlk (blockFor "GroupA")
  let b2 := mkBlk (blockFor "GroupB")
  let k1 : BKey := (.tparam "_ŠČ0", dispatch "GroupA")
  let k2 : BKey := (.tparam "_ŠČ0", dispatch "GroupB")
  have hb : mkBuckets ([blockFor "GroupA", blockFor "GroupB"].map mkBlk) = [(groupIdOf b1.item, [b1, b2])] := by
    with_unfolding_all decide
  have hnu : ¬ ∃ θ₁ θ₂ : Subst, erase (inst θ₁ (tyPath [seg "GroupA"])) = erase (inst θ₂ (tyPath [seg "GroupB"])) :=
    C03_closed_payloads_nonunifiable _ _ (by decide) (by decide) (by decide)
  have hnu' : ¬ ∃ θ₁ θ₂ : Subst, erase (inst θ₁ (tyPath [seg "GroupB"])) = erase (inst θ₂ (tyPath [seg "GroupA"])) :=
    C03_closed_payloads_nonunifiable _ _ (by decide) (by decide) (by decide)
  obtain ⟨g, hg, _⟩ := C03_flat_accepts_nonunifiable [blockFor "GroupA", blockFor "GroupB"]
    (by with_unfolding_all decide) (by with_unfolding_all decide) (by
      intro bk hbk
      rw [hb] at hbk
      simp only [List.mem_singleton] at hbk
      subst hbk
      refine ⟨by with_unfolding_all decide, fun bi hbi bj hbj hne => ?_⟩
      simp only [List.mem_cons, List.mem_nil_iff, or_false] at hbi hbj
      rcases hbi with rfl | rfl <;> rcases hbj with rfl | rfl
      · exact absurd rfl hne
      · exact ⟨(k1, [("Group", tyPath [seg "GroupA"])]), by with_unfolding_all decide, by with_unfolding_all decide,
          "Group", tyPath [seg "GroupA"], tyPath [seg "GroupB"], by with_unfolding_all decide,
          by with_unfolding_all decide, by with_unfolding_all decide, hnu⟩
      · exact ⟨(k2, [("Group", tyPath [seg "GroupB"])]), by with_unfolding_all decide, by with_unfolding_all decide,
          "Group", tyPath [seg "GroupB"], tyPath [seg "GroupA"], by with_unfolding_all decide,
          by with_unfolding_all decide, by with_unfolding_all decide, hnu'⟩
      · exact absurd rfl hne)
  exact ⟨g, hg⟩

/-- non-vacuity of `C03_flat_rejects_first`: the `Vec<T>` bucket is fine, the `Box<T>` bucket holds two blocks with
    the same binding (the second has an extra, unused parameter); the error names the `Box<T>` header -/
example :
    let items := [blockSelf "GroupA" (vecOf tT), blockSelf "GroupA" (boxOf tT), blockSelf "GroupB" (vecOf tT),
      blockSelf2 "GroupA" (boxOf tT)]
    parseGroups items = .unableToForm (groupIdOf (mkBlk (blockSelf "GroupA" (boxOf tT))).item) := by
  intro items
  have hn : noNesting items = true := by with_unfolding_all decide
  have hwf : flatWF items = true := by with_unfolding_all decide
  have hb : ∃ bk1 bk2, mkBuckets (items.map mkBlk) = [bk1] ++ bk2 :: [] ∧ separatedB bk1.2 = true ∧
      separatedB bk2.2 = false ∧ bk2.1 = groupIdOf (mkBlk (blockSelf "GroupA" (boxOf tT))).item := by
    have : (match mkBuckets (items.map mkBlk) with
      | [bk1, bk2] => separatedB bk1.2 && !separatedB bk2.2 &&
          bk2.1 == groupIdOf (mkBlk (blockSelf "GroupA" (boxOf tT))).item
      | _ => false) = true := by with_unfolding_all decide
    revert this
    generalize mkBuckets (items.map mkBlk) = L
    intro this
    match L, this with
    | [bk1, bk2], this =>
      simp only [Bool.and_eq_true, Bool.not_eq_true', beq_iff_eq] at this
      exact ⟨bk1, bk2, rfl, this.1.1, this.1.2, this.2⟩
  obtain ⟨bk1, bk2, hsplit, h1, h2, hid⟩ := hb
  rw [← hid]
  exact C03_flat_rejects_first items hn hwf [bk1] [] bk2 hsplit
    (fun b hb => by simp only [List.mem_singleton] at hb; subst hb; exact h1) h2

/-- non-vacuity of `C03_flat_conditions_order_free`: the three-block bucket and a rotation of it -/
example :
    let b0 := mkBlk (blockOf_fa [traitBound (dispatch "GroupA"), traitBound (otherTr "X")])
    let b1 := mkBlk (blockOf_fa [traitBound (otherTr "Y"), traitBound (dispatch "GroupB")])
    let b2 := mkBlk (blockOf_fa [traitBound (dispatch "GroupC")])
    distinguishedB [b2, b0, b1] = true := by
  intro b0 b1 b2
  rw [← (C03_flat_conditions_order_free [b0, b1, b2] [b2, b0, b1]
    (List.perm_append_comm (l₁ := [b0, b1]) (l₂ := [b2]))).1]
  with_unfolding_all decide

/-- non-vacuity of `C03_clash_nonunifiable`: the README payloads, and a generic payload `Vec<_ŠČ1>` against `u32` -/
example : clash_fa (tyPath [seg "GroupA"]) (tyPath [seg "GroupB"]) = true ∧
    clash_fa (vecOf (.tparam "_ŠČ1")) (tyPath [seg "u32"]) = true ∧
    clash_fa (vecOf (.tparam "_ŠČ1")) (vecOf (tyPath [seg "u32"])) = false := by decide

/-- non-vacuity of `C03_flat_accept_pre_order_free`: the reversed three-block example is accepted, by the theorems -/
example : ∃ g, parseGroups flat3_fa.reverse = .ok g := by
  have hpre : flatAcceptPre flat3_fa = true := by
    obtain ⟨h1, h2, h3, _⟩ := C03_flat_three_blocks_pre
    simp only [flatAcceptPre, flatDistinguished, Bool.and_eq_true, List.all_eq_true]
    exact ⟨⟨h1, h2⟩, h3⟩
  obtain ⟨g, hg, _⟩ := C03_flat_accepts_exec _
    (C03_flat_accept_pre_order_free flat3_fa flat3_fa.reverse (List.reverse_perm _).symm hpre)
  exact ⟨g, hg⟩

end FlatAcceptExamples

end DI
