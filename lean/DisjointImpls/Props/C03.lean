/-
  C03 — acceptance: inputs the macro must accept. Property theorem over `parseGroups` (`Group.lean`); the proof is
  in `Lemmas/GroupLemmas.lean` (`searchRec_single`, `filterCandidate_single`, `mkBuckets_single`).

  `C03_single_bucket_accepts`: blocks that all have the same header (one bucket), each with exactly one trait bound
  `bounded: tr_i<a = p_i>` whose trait paths are pairwise equal as dispatch keys (`TraitBound::eq`, bindings
  ignored), with pairwise non-generalising payloads `p_i`, are accepted as one family containing all the blocks in
  order, with a single key and one row per block — for any number of blocks. The trait path stored with the key
  is the last block's (`lastTr`), as in the code. Side conditions: the blocks are pairwise different texts
  (`Nodup`, else the later one replaces the earlier), and the header matches itself with identity bindings only
  (`selfIdentity`, executable).
-/
import DisjointImpls.Lemmas.GroupLemmas
import DisjointImpls.Props.C11
namespace DI

theorem C03_single_bucket_accepts (items : List T) (gid bounded : T) (a : String) (trOf pay : Blk → T)
    (b1 : Blk) (other : List Blk) (hB : items.map mkBlk = b1 :: other)
    (hid : ∀ b ∈ b1 :: other, groupIdOf b.item = gid) (hnd : ((b1 :: other).map (·.item)).Nodup)
    (hsb : ∀ b ∈ b1 :: other, ∃ mb, b.raw = [⟨bounded, trOf b, [(a, pay b)], mb⟩])
    (htr : ∀ b ∈ b1 :: other, ∀ b' ∈ b1 :: other, tbEq (trOf b) (trOf b') = .t)
    (hself : selfIdentity gid = true) (hng : nonGenB ((b1 :: other).map pay) = true) :
    ∃ u, parseGroups items =
      .ok [(gid, ⟨[((bounded, lastTr trOf (trOf b1) other), (b1 :: other).map (fun b => [(a, pay b)]))], u⟩, b1 :: other)] :=
  parseGroups_single_bucket items gid bounded a trOf pay b1 other hB hid hnd hsb htr hself (nonGen_of_nonGenB hng)

/-- what `nonGenB` says: no payload generalises another one -/
theorem C03_nonGen_spec (ps : List T) (h : nonGenB ps = true) (i j : Nat) (x y : T) (hij : i ≠ j)
    (hx : ps[i]? = some x) (hy : ps[j]? = some y) : ∀ σ l, sup x y ≠ .yes σ l := by
  intro σ l hs
  have := nonGen_of_nonGenB h i j x y hij hx hy
  rw [hs] at this
  cases this

set_option maxRecDepth 1000000 in
/-- non-vacuity: the README example (`impl<T: Dispatch<Group = GroupA>> Kita for T`, `… GroupB …`) satisfies every
    hypothesis, so the theorem (not a computation) yields its acceptance -/
theorem C03_readme_example :
    ∃ u gid key b1 b2, parseGroups [Ex11.blockFor "GroupA", Ex11.blockFor "GroupB"] =
      .ok [(gid, ⟨[(key, [[("Group", Ex11.tyPath [Ex11.seg "GroupA"])], [("Group", Ex11.tyPath [Ex11.seg "GroupB"])]])], u⟩, [b1, b2])] := by
  let items := [Ex11.blockFor "GroupA", Ex11.blockFor "GroupB"]
  let b1 := mkBlk (Ex11.blockFor "GroupA")
  let b2 := mkBlk (Ex11.blockFor "GroupB")
  let gid := groupIdOf b1.item
  let pay : Blk → T := fun b => if b = b1 then Ex11.tyPath [Ex11.seg "GroupA"] else Ex11.tyPath [Ex11.seg "GroupB"]
  let trOf : Blk → T := fun b => if b = b1 then Ex11.dispatch "GroupA" else Ex11.dispatch "GroupB"
  have hne : b2 ≠ b1 := by with_unfolding_all decide
  have e1 : pay b1 = Ex11.tyPath [Ex11.seg "GroupA"] := by simp [pay]
  have e2 : pay b2 = Ex11.tyPath [Ex11.seg "GroupB"] := by simp [pay, hne]
  have t1 : trOf b1 = Ex11.dispatch "GroupA" := by simp [trOf]
  have t2 : trOf b2 = Ex11.dispatch "GroupB" := by simp [trOf, hne]
  have h1 : b1.raw = [⟨.tparam "_ŠČ0", trOf b1, [("Group", pay b1)], false⟩] := by
    rw [t1, e1]; with_unfolding_all decide
  have h2 : b2.raw = [⟨.tparam "_ŠČ0", trOf b2, [("Group", pay b2)], false⟩] := by
    rw [t2, e2]; with_unfolding_all decide
  obtain ⟨u, hu⟩ := C03_single_bucket_accepts items gid (.tparam "_ŠČ0") "Group" trOf pay b1 [b2] rfl
    (by intro b hb; simp only [List.mem_cons, List.mem_nil_iff, or_false] at hb
        rcases hb with rfl | rfl
        · rfl
        · with_unfolding_all decide)
    (by with_unfolding_all decide)
    (by intro b hb; simp only [List.mem_cons, List.mem_nil_iff, or_false] at hb
        rcases hb with rfl | rfl
        · exact ⟨false, h1⟩
        · exact ⟨false, h2⟩)
    (by intro b hb b' hb'
        simp only [List.mem_cons, List.mem_nil_iff, or_false] at hb hb'
        rcases hb with rfl | rfl <;> rcases hb' with rfl | rfl <;> simp only [t1, t2] <;> decide)
    (by with_unfolding_all decide)
    (by simp only [List.map_cons, List.map_nil, e1, e2]; with_unfolding_all decide)
  refine ⟨u, gid, (.tparam "_ŠČ0", lastTr trOf (trOf b1) [b2]), b1, b2, ?_⟩
  rw [hu]
  simp [e1, e2]

end DI
