import DisjointImpls.Lemmas.Refine
namespace DI
theorem C17_placeholder : (1 : Nat) = 1 := rfl
end DI
