/-
  C17 — inherent mode: the semantic model is the one of trait mode; the header is `ImplGroupId [None, self_ty]`
  (no trait path). Corollaries of the refinement theorems and of C16.
-/
import DisjointImpls.Lemmas.Refine
import DisjointImpls.Props.C16
namespace DI

/-- the generated inherent impls refine the user's blocks: a member is selected for a query exactly when its
    block applies (the statement of C02; nothing in it depends on the header having a trait path) -/
theorem C17_refines (W : World) (F : Family) (m : Member) (q : T)
    (hm : memberOK F m = true) (hw : WorldTotal W F) (hθ : ThetaCovers F m) (hs : SizedCompat W F m) :
    genSel W F m q ↔ applies W m.blk q :=
  ⟨gen_sub_spec W F m q, spec_sub_gen W F m q hm hw hθ hs⟩

/-- no items for self types no block matches: if no member block applies to `q`, no member is selected -/
theorem C17_no_items_for_unmatched (W : World) (F : Family) (q : T)
    (h : ∀ m ∈ F.members, ¬ applies W m.blk q) : ∀ m ∈ F.members, ¬ genSel W F m q :=
  fun m hm hg => h m hm (gen_sub_spec W F m q hg)

/-- in inherent mode a selected member's self type instantiates exactly to the queried self type -/
theorem C17_self_type_exact (W : World) (F : Family) (m : Member) (s s' : T)
    (hh : m.blk.hdr = .node "ImplGroupId" [] [.node "None" [] [], s]) :
    genSel W F m (.node "ImplGroupId" [] [.node "None" [] [], s']) → ∃ ρ, wkB ρ m.blk = true ∧ inst ρ s = s' := by
  intro h
  obtain ⟨ρ, h0, _, h2⟩ := C16_trait_args_exact W F m _ s _ s' hh h
  exact ⟨ρ, h0, h2⟩

namespace Coexist
/-- `Wr<_ŠČ0, N>` as a self type: a type argument and a const argument (a literal) -/
def wr (lit : String) : T :=
  .node "Type::Path" [] [.node "Wr" [] [.node "GenericArgument::Type" [] [.tparam "_ŠČ0"],
    .node "GenericArgument::Const" [] [.node "Expr::Lit" [lit] []]]]
def hdr (lit : String) : T := .node "ImplGroupId" [] [.node "None" [] [], wr lit]

/-- headers that differ in a const argument have no common instance, whatever the two substitutions bind -/
theorem no_common_instance (τ1 τ2 : Subst) : inst τ1 (hdr "1") ≠ inst τ2 (hdr "2") := by
  intro h
  simp only [hdr, wr] at h
  rw [inst_other τ1 (by rfl), inst_other τ2 (by rfl)] at h
  simp only [instL] at h
  injection h with _ _ h
  injection h with _ h
  injection h with h _
  rw [inst_other τ1 (by rfl), inst_other τ2 (by rfl)] at h
  simp only [instL] at h
  injection h with _ _ h
  injection h with h _
  rw [inst_other τ1 (by rfl), inst_other τ2 (by rfl)] at h
  simp only [instL] at h
  injection h with _ _ h
  injection h with _ h
  injection h with h _
  rw [inst_gaConst, inst_gaConst, inst_leaf, inst_leaf] at h
  simp at h
end Coexist

/-- inherent impl groups for `Wr<_ŠČ0, 1>` and `Wr<_ŠČ0, 2>` coexist: no query is answered through both families -/
theorem C17_coexist (W : World) (F1 F2 : Family) (m1 m2 : Member) (q : T)
    (h1 : F1.hdr = Coexist.hdr "1") (h2 : F2.hdr = Coexist.hdr "2") :
    genSel W F1 m1 q → ¬ genSel W F2 m2 q := by
  apply C16_independent_instantiations
  rintro ⟨τ1, τ2, _, _, h⟩
  rw [h1, h2] at h
  exact Coexist.no_common_instance τ1 τ2 h

/-- non-vacuity: an inherent-mode family (`impl<T: Dispatch<Group = GroupA>> Wr<T, 1> { … }`) satisfying the decidable
    hypothesis of `C17_refines`, with the header used in `C17_coexist` -/
example :
    let key : Key := ⟨.tparam "_ŠČ0", .node "Dispatch" [] [], "Group"⟩
    let blk : Block := ⟨Coexist.hdr "1", [⟨.tparam "_ŠČ0", .node "Dispatch" [] [], [("Group", .node "GroupA" [] [])]⟩], ["_ŠČ0"]⟩
    let m : Member := ⟨blk, [("_ŠČ0", .identity)], [some (.node "GroupA" [] [])]⟩
    let F : Family := ⟨Coexist.hdr "1", [key], ["_ŠČ0"], [m]⟩
    memberOK F m = true ∧ F.hdr = Coexist.hdr "1" := by decide

end DI
