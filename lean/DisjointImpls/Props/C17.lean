/-
  C17 — inherent mode: the semantic model is the one of trait mode; the header is `ImplGroupId [None, self_ty]`
  (no trait path). Corollaries of the refinement theorems and of C16; and (second half) the generators in inherent mode
  produce the abstract program: `C17_expandOKB_of_expand_inherent`, `C17_expandOK_of_expand_inherent`,
  `C17_helper_params_aligned`, `C17_items_delegate`, `C17_main_params_in_self`, counterexamples for the findings D32, D27
  and for nested members (helper lemmas: Lemmas/ExpandInherent.lean).
-/
import DisjointImpls.Lemmas.Refine
import DisjointImpls.Props.C16
import DisjointImpls.Props.C01
import DisjointImpls.Lemmas.ExpandInherent
import DisjointImpls.Lemmas.HelperPath
namespace DI

/-- the generated inherent impls refine the user's blocks: a member is selected for a query exactly when its
    block applies (the statement of C02; nothing in it depends on the header having a trait path) -/
theorem C17_refines (W : World) (F : Family) (m : Member) (q : T)
    (hm : memberOK F m = true) (hw : WorldTotal W F) (hθ : ThetaCovers F m) (hs : SizedCompat W F m) :
    genSel W F m q ↔ applies W m.blk q :=
  ⟨gen_sub_spec W F m q, spec_sub_gen W F m q hm hw hθ hs⟩

/-- no items for self types no block matches: if no member block applies to `q`, no member is selected -/
theorem C17_no_items_for_unmatched (W : World) (F : Family) (q : T)
    (h : ∀ m ∈ F.members, ¬ applies W m.blk q) : ∀ m ∈ F.members, ¬ genSel W F m q :=
  fun m hm hg => h m hm (gen_sub_spec W F m q hg)

/-- in inherent mode a selected member's self type instantiates exactly to the queried self type -/
theorem C17_self_type_exact (W : World) (F : Family) (m : Member) (s s' : T)
    (hh : m.blk.hdr = .node "ImplGroupId" [] [.node "None" [] [], s]) :
    genSel W F m (.node "ImplGroupId" [] [.node "None" [] [], s']) → ∃ ρ, wkB ρ m.blk = true ∧ inst ρ s = s' := by
  intro h
  obtain ⟨ρ, h0, _, h2⟩ := C16_trait_args_exact W F m _ s _ s' hh h
  exact ⟨ρ, h0, h2⟩

namespace Coexist
/-- `Wr<_ŠČ0, N>` as a self type: a type argument and a const argument (a literal) -/
def wr (lit : String) : T :=
  .node "Type::Path" [] [.node "Wr" [] [.node "GenericArgument::Type" [] [.tparam "_ŠČ0"],
    .node "GenericArgument::Const" [] [.node "Expr::Lit" [lit] []]]]
def hdr (lit : String) : T := .node "ImplGroupId" [] [.node "None" [] [], wr lit]

/-- headers that differ in a const argument have no common instance, whatever the two substitutions bind -/
theorem no_common_instance (τ1 τ2 : Subst) : inst τ1 (hdr "1") ≠ inst τ2 (hdr "2") := by
  intro h
  simp only [hdr, wr] at h
  rw [inst_other τ1 (by rfl), inst_other τ2 (by rfl)] at h
  simp only [instL] at h
  injection h with _ _ h
  injection h with _ h
  injection h with h _
  rw [inst_other τ1 (by rfl), inst_other τ2 (by rfl)] at h
  simp only [instL] at h
  injection h with _ _ h
  injection h with h _
  rw [inst_other τ1 (by rfl), inst_other τ2 (by rfl)] at h
  simp only [instL] at h
  injection h with _ _ h
  injection h with _ h
  injection h with h _
  rw [inst_gaConst, inst_gaConst, inst_leaf, inst_leaf] at h
  simp at h
end Coexist

/-- inherent impl groups for `Wr<_ŠČ0, 1>` and `Wr<_ŠČ0, 2>` coexist: no query is answered through both families -/
theorem C17_coexist (W : World) (F1 F2 : Family) (m1 m2 : Member) (q : T)
    (h1 : F1.hdr = Coexist.hdr "1") (h2 : F2.hdr = Coexist.hdr "2") :
    genSel W F1 m1 q → ¬ genSel W F2 m2 q := by
  apply C16_independent_instantiations
  rintro ⟨τ1, τ2, _, _, h⟩
  rw [h1, h2] at h
  exact Coexist.no_common_instance τ1 τ2 h

/-- non-vacuity: an inherent-mode family (`impl<T: Dispatch<Group = GroupA>> Wr<T, 1> { … }`) satisfying the decidable
    hypothesis of `C17_refines`, with the header used in `C17_coexist` -/
example :
    let key : Key := ⟨.tparam "_ŠČ0", .node "Dispatch" [] [], "Group"⟩
    let blk : Block := ⟨Coexist.hdr "1", [⟨.tparam "_ŠČ0", .node "Dispatch" [] [], [("Group", .node "GroupA" [] [])]⟩], ["_ŠČ0"]⟩
    let m : Member := ⟨blk, [("_ŠČ0", .identity)], [some (.node "GroupA" [] [])]⟩
    let F : Family := ⟨Coexist.hdr "1", [key], ["_ŠČ0"], [m]⟩
    memberOK F m = true ∧ F.hdr = Coexist.hdr "1" := by decide

/-! ## The generators in inherent mode produce the abstract program (`Lemmas/ExpandInherent.lean`)

In inherent mode (`disjoint_impls! { impl<…> Wrapper<…> { … } … }`, no trait) the helper trait is derived from the
family's first block (`helperTraitOfInherent`: bounds removed, parameters sorted by `(!is_lifetime, ident)`, items turned
into declarations), every helper impl is the member implementing `_Wrapper<idx><row…, sorted lifetimes, sorted params>`
for its self type with the items' visibilities removed (`helperImpls`), and the main impl is the first block without its
bounds, bounded by `Self: _Wrapper<idx><lifetimes, key projections, params>` and delegating every item
(`mainImplInherent`). `firstItem_inh g` is the first block of the family `g`; all side conditions below are executable
(`Bool`) functions of the family. -/

/-- (a, the checker of C01) `expandOKB` — which in inherent mode checks, per member, that the helper impl keeps the
    member's generics, self type and safety qualifier and has a trait path, and for the main impl the predicates `bounded: trait`
    per key and `Self: helper<…, projections of the keys in order, …>` — accepts the model's inherent expansion of every
    well-formed (`expandWF`) inherent family (`inherentFamily_inh`: the first block has no trait path). No condition on
    wildcards is needed: `expandOKCore` does not look at the helper arguments in inherent mode. -/
theorem C17_expandOKB_of_expand_inherent (idx : Nat) (g : T × ABG × List Blk) (hs : List T) (m : T)
    (hh : helperImpls idx g = some hs) (hm : mainImplInherent idx g = .ok (some m))
    (hwf : expandWF g = true) (hinh : inherentFamily_inh g = true) :
    expandOKB g (thetasOf g) hs m = true :=
  expandOK_of_expand_inherent_inh idx g hs m hh hm hwf hinh

/-- (a, at full strength) the inherent-mode acceptance predicate `expandOKInh_inh` (Lemmas/ExpandInherent.lean; it reads
    the generated trees only) accepts the model's expansion: every helper impl is its member — attributes, defaultness,
    safety qualifier, generics and self type kept, items kept with their visibility removed — implementing the helper trait
    (the name the main impl refers to) with `row ++ A` as arguments, where the row is checked like in trait mode (a payload
    as a generic argument, a wildcard as the projection of the key through the member's substitution θ) and `A` are the
    arguments the main impl passes besides the key projections, seen through θ; every parameter named in `A` is declared
    by the helper impl and not relaxed with `?Sized` there; the helper trait's declaration is aligned (`refAligned_inh`)
    with the reference of every helper impl and of the main impl; the main impl passes `checkMain` and has the family's
    self type. Side conditions (all executable): `expandWF`, `wildcardsFixed` (as in C01, finding F-D3),
    `inherentFamily_inh`, `firstNamed_inh` (every parameter of the first block has an identifier),
    `selfArgsFixed_inh` (no member's substitution instantiates a parameter of the first block: fails for nested members,
    see `C17_nested_member_counterexample`), `membersDeclare_inh` (every member declares every parameter of the first
    block: fails for finding D32), `membersSized_inh` (no member relaxes a parameter of the first block with `?Sized`:
    fails for finding D27). -/
theorem C17_expandOK_of_expand_inherent (idx : Nat) (g : T × ABG × List Blk) (tr : T) (hs : List T) (m : T)
    (ht : helperTraitOfInherent (firstItem_inh g) idx g.2.1.idents.length = .ok tr)
    (hh : helperImpls idx g = some hs) (hm : mainImplInherent idx g = .ok (some m))
    (hwf : expandWF g = true) (hfix : wildcardsFixed g = true)
    (hinh : inherentFamily_inh g = true) (hn : firstNamed_inh g = true)
    (hsa : selfArgsFixed_inh g = true) (hdecl : membersDeclare_inh g = true) (hsz : membersSized_inh g = true) :
    expandOKB g (thetasOf g) hs m = true ∧ expandOKInh_inh g (thetasOf g) tr hs m = true :=
  ⟨expandOK_of_expand_inherent_inh idx g hs m hh hm hwf hinh,
   expandOKInh_of_expand_inh idx g tr hs m ht hh hm hwf hinh hn hfix hsa hdecl hsz⟩

/-- (b) the helper trait declares exactly the parameters every reference passes, in the same order: for every helper
    impl `h` and for the main impl, the reference `_Helper<args>` (the trait path of `h` / the `Self:` bound of the main
    impl) names the helper trait and is aligned with its declaration (`refAligned_inh nkeys tp args`: the declaration
    lists its lifetimes first, the reference passes as many arguments as there are parameters, as printed — `syn`
    prints lifetime arguments first — the lifetime arguments name the lifetime parameters position by position, then
    come the `nkeys` key slots, then every argument names the parameter declared at its position); and the declaration
    is sorted: its lifetimes are `sort()` of the first block's lifetime identifiers, its parameters after the key
    parameters are `sort()` of the first block's type/const identifiers (`gen_inherent_self_ty_args`).
    Side conditions: the family is inherent and every parameter of the first block has an identifier. -/
theorem C17_helper_params_aligned (idx : Nat) (g : T × ABG × List Blk) (tr : T) (hs : List T) (m : T)
    (ht : helperTraitOfInherent (firstItem_inh g) idx g.2.1.idents.length = .ok tr)
    (hh : helperImpls idx g = some hs) (hm : mainImplInherent idx g = .ok (some m))
    (hinh : inherentFamily_inh g = true) (hn : firstNamed_inh g = true) :
    (∀ h ∈ hs, ∃ hpath, XOK.traitPathOf h = some hpath ∧ XOK.segIdent (XOK.lastSeg hpath) = traitName_inh tr ∧
        refAligned_inh g.2.1.idents.length (traitParams_inh tr) (XOK.segArgs (XOK.lastSeg hpath)) = true) ∧
    (∃ href, mainHref_inh m = some href ∧ XOK.segIdent (XOK.lastSeg href) = traitName_inh tr ∧
        refAligned_inh g.2.1.idents.length (traitParams_inh tr) (XOK.segArgs (XOK.lastSeg href)) = true) ∧
    (∃ gen, implGenerics (firstItem_inh g) = some gen ∧
      ((traitParams_inh tr).filter isLifetimeParam).map pname_inh = sortStr (lifetimeParamIdents gen) ∧
      (((traitParams_inh tr).filter (fun p => !isLifetimeParam p)).drop g.2.1.idents.length).map pname_inh =
        sortStr (otherParamIdents gen)) :=
  helper_params_aligned_inh idx g tr hs m ht hh hm hinh hn

/-- the two sorts of inherent mode agree on every parameter list: `sort_by_key(|p| (!is_lifetime, ident))` on the
    declared parameters (helper trait) lists the lifetimes / the other parameters in the order `sort()` puts their
    identifiers in (`gen_inherent_self_ty_args`) — the content of the fix cb951c4. No side condition. -/
theorem C17_sorts_agree (ps : List T) :
    ltNames_inh (sortParams ps) = sortStr (ltNames_inh ps) ∧ otNames_inh (sortParams ps) = sortStr (otNames_inh ps) :=
  ⟨ltNames_sortParams_inh ps, otNames_sortParams_inh ps⟩

/-- (2) every item of the main inherent impl is the first block's item with its value replaced by the delegation to
    the helper trait: the impl has as many items as the first block; item by item, kind, attributes, visibility,
    defaultness, name, generics and type / signature are those of the first block's item (`itemKeeps_inh`: everything
    but the last child), and — for a const / type / fn item of the shape `syn` produces — the last child is
    `<Self as href>::name`, as an expression / a type / the body `{ <Self as href>::name(args…) }` with the parameter
    patterns re-read as expressions (`delegatesTo_inh`), where `href` is the very helper reference the impl's
    where-clause bounds `Self` by. In particular the visibility is exactly the one the user wrote. -/
theorem C17_items_delegate (idx : Nat) (g : T × ABG × List Blk) (m : T)
    (hm : mainImplInherent idx g = .ok (some m)) :
    ∃ href, mainHref_inh m = some href ∧
      (implItems m).length = (implItems (firstItem_inh g)).length ∧
      ∀ (i : Nat) (h1 : i < (implItems (firstItem_inh g)).length) (h2 : i < (implItems m).length),
        itemKeeps_inh (implItems (firstItem_inh g))[i] (implItems m)[i] = true ∧
        (itemShaped_inh (implItems (firstItem_inh g))[i] = true →
          delegatesTo_inh href (implItems (firstItem_inh g))[i] (implItems m)[i] = true ∧
          XOK.kid (implItems m)[i] 1 = XOK.kid (implItems (firstItem_inh g))[i] 1 ∧
          XOK.kid (implItems m)[i] 3 = XOK.kid (implItems (firstItem_inh g))[i] 3) := by
  obtain ⟨first, rest, href, hg, hhref, hlen, hall⟩ := items_delegate_inh hm
  have hfirst : firstItem_inh g = first.item := by simp [firstItem_inh, hg]
  refine ⟨href, hhref, by rw [hfirst]; exact hlen, ?_⟩
  intro i h1 h2
  have h1' : i < (implItems first.item).length := by rw [← hfirst]; exact h1
  have hget : (implItems (firstItem_inh g))[i] = (implItems first.item)[i] := by simp [hfirst]
  obtain ⟨hk, hd⟩ := hall i h1' h2
  rw [hget]
  refine ⟨hk, fun hs => ⟨hd hs, ?_, ?_⟩⟩
  · exact (itemKeeps_vis_inh hk hs).2.2.1
  · exact (itemKeeps_vis_inh hk hs).2.2.2.2

/-- the helper impls are the members with every visibility removed and the helper trait (a single unqualified segment,
    `C08_helper_path_unqualified`) as their trait (items are
    otherwise untouched) — the other half of "exactly the visibility the user wrote": it is kept on the main impl
    (`C17_items_delegate`) and removed on the helper impls, which are trait impls -/
theorem C17_helper_items_private (idx : Nat) (p0 : T) (idents : List (BKey × String)) (row : List (Option T))
    (member h : T) (hh : helperImpl idx (some p0) idents row member = some h)
    (hl : ∃ sid args0, lastSegOf p0 = some (.node "PathSegment" [] [sid, angle args0])) :
    XOK.kid h 6 = visErased_inh (XOK.kid member 6) ∧ XOK.kid h 3 = XOK.kid member 3 ∧ XOK.kid h 5 = XOK.kid member 5 := by
  obtain ⟨sid, args0, hl⟩ := hl
  obtain ⟨x, a, d, u, g, tr, s, items, _, rfl, rfl⟩ := helperImpl_inherent_inv_inh hl hh
  simp [XOK.kid, XOK.kids]

/-- the helper trait of inherent mode is public, is named `_<Self><idx>` after the first block's self type (`selfTraitIdent`:
    the identifier of the LAST segment of the self type's path, see `C17_helper_trait_named_by_last_segment`), keeps the
    first block's safety qualifier, and has one item per item of the first block: the declaration of that item (same
    ATTRIBUTES — `gen_inherent_impl_items` copies them onto the prototype since /repo 2b7edb4 —, same
    name, same type / signature / generics, no value) for every const / type / fn item of the shape `syn` produces -/
theorem C17_helper_trait_items (item : T) (idx nkeys : Nat) (tr : T)
    (h : helperTraitOfInherent item idx nkeys = .ok tr) :
    XOK.kid tr 1 = .node "Visibility::Public" [] [] ∧ XOK.kid tr 2 = XOK.kid item 2 ∧
    (∃ x, selfTraitIdent (XOK.kid item 5) = some x ∧ traitName_inh tr = genIdentStr x idx) ∧
    (XOK.kids (XOK.kid tr 9)).length = (implItems item).length ∧
    ∀ (i : Nat) (h1 : i < (implItems item).length) (h2 : i < (XOK.kids (XOK.kid tr 9)).length),
      itemShaped_inh (implItems item)[i] = true →
        declares_inh (implItems item)[i] (XOK.kids (XOK.kid tr 9))[i] = true :=
  helper_trait_items_inh h

/-- every parameter the main inherent impl declares is a parameter of the first block; hence, when the first block
    mentions all its parameters in its self type (`firstParamsInSelf_inh`, executable — what finding D32 violates),
    every declared parameter of the main impl occurs in its self type (no unconstrained parameter, E0207) -/
theorem C17_main_params_in_self (idx : Nat) (g : T × ABG × List Blk) (m : T)
    (hm : mainImplInherent idx g = .ok (some m)) (hin : firstParamsInSelf_inh g = true) :
    ∀ p ∈ genericsParams (XOK.kid m 3), (identsOf_inh (XOK.kid m 5)).contains (pname_inh p) = true :=
  main_params_in_self_inh hm hin

namespace ExInh
open Ex11
/-- `name<args>` as a self type -/
def adt (name : String) (args : List T) : T := Ex11.tyPath [.node "PathSegment" [] [.node "Ident" [name] [],
  .node "PathArguments::AngleBracketed" [] [.node "Ign" [] [leaf "None"],
    .node "List" [] (args.map (fun a => .node "GenericArgument::Type" [] [a]))]]]
/-- `vis fn name(&self) {}` -/
def fnItem (vis : T) (name : String) : T :=
  .node "ImplItem::Fn" [] [attrs, vis, leaf "None",
    .node "Signature" [] [leaf "None", leaf "None", leaf "None", leaf "None", .node "Ident" [name] [],
      .node "Generics" [] [leaf "None", .node "List" [] [], leaf "None", leaf "None"],
      .node "List" [] [.node "FnArg::Receiver" [] [attrs, .node "Some" [] [leaf "None"], leaf "None", leaf "Type::Reference"]],
      leaf "None", leaf "ReturnType::Default"],
    .node "Block" [] [.node "List" [] []]]
def pubVis : T := leaf "Visibility::Public"
def privVis : T := leaf "Visibility::Inherited"
/-- `impl<params> self { items }` (no trait) -/
def implInh (params : List T) (wc : T) (self : T) (items : List T) : T :=
  .node "ItemImpl" [] [attrs, leaf "None", leaf "None",
    .node "Generics" [] [leaf "Some", .node "List" [] params, leaf "Some", wc],
    leaf "None", self, .node "List" [] items]
/-- `impl<T: Dispatch<Group = g>> Wrapper<T> { pub fn kita(&self) {} fn hid(&self) {} }`
    (tests/disjoint_inherent_impl.rs, reduced) -/
def blockW (g : String) : T :=
  implInh [tyParam "T" [traitBound (dispatch g)]] (leaf "None") (adt "Wrapper" [tT]) [fnItem pubVis "kita", fnItem privVis "hid"]
/-- `Dispatch<Group = ty>` -/
def dispatchTy (ty : T) : T :=
  path [.node "PathSegment" [] [.node "Ident" ["Dispatch"] [], .node "PathArguments::AngleBracketed" [] [.node "Ign" [] [leaf "None"],
    .node "List" [] [.node "GenericArgument::AssocType" [] [.node "AssocType" [] [.node "Ident" ["Group"] [], leaf "None", ty]]]]]]
/-- D32: `impl<T: Dispatch<Group = Vec<U>>, U> W<T> { pub fn name(&self) {} }` -/
def d32a : T := implInh [tyParam "T" [traitBound (dispatchTy (vecOf tU))], tyParam "U" []] (leaf "None") (adt "W" [tT]) [fnItem pubVis "name"]
/-- `impl<T: Dispatch<Group = GroupB>> W<T> { pub fn name(&self) {} }` -/
def d32b : T := implInh [tyParam "T" [traitBound (dispatch "GroupB")]] (leaf "None") (adt "W" [tT]) [fnItem pubVis "name"]
def maybeSized : T := .node "TypeParamBound::Trait" [] [.node "TraitBound" [] [leaf "None", leaf "TraitBoundModifier::Maybe",
  leaf "None", path [Ex11.seg "Sized"]]]
/-- D27: `impl<T: ?Sized + Dispatch<Group = g>> W<T> { pub fn name(&self) {} }` -/
def d27 (g : String) : T := implInh [tyParam "T" [maybeSized, traitBound (dispatch g)]] (leaf "None") (adt "W" [tT]) [fnItem pubVis "name"]
/-- `impl<T: Dispatch<Group = GroupA>> W<T> { pub fn name(&self) {} }` -/
def nestedA : T := implInh [tyParam "T" [traitBound (dispatch "GroupA")]] (leaf "None") (adt "W" [tT]) [fnItem pubVis "name"]
/-- `impl<T> W<Vec<T>> where Vec<T>: Dispatch<Group = GroupB> { pub fn name(&self) {} }` -/
def nestedB : T := implInh [tyParam "T" []]
  (.node "Some" [] [.node "WhereClause" [] [.node "List" [] [pred (vecOf tT) [traitBound (dispatch "GroupB")]]]])
  (adt "W" [vecOf tT]) [fnItem pubVis "name"]

def ltNode (x : String) : T := .node "Lifetime" [] [.node "Ident" [x] []]
def ltParam (x : String) : T :=
  .node "GenericParam::Lifetime" [] [.node "LifetimeParam" [] [attrs, ltNode x, leaf "None", .node "List" [] []]]
def ltArg (x : String) : T := .node "GenericArgument::Lifetime" [] [ltNode x]
def tyArg (t : T) : T := .node "GenericArgument::Type" [] [t]
/-- `name<args>` with explicit generic arguments -/
def adtArgs (name : String) (args : List T) : T := Ex11.tyPath [.node "PathSegment" [] [.node "Ident" [name] [],
  .node "PathArguments::AngleBracketed" [] [.node "Ign" [] [leaf "None"], .node "List" [] args]]]
/-- `impl<'b, U, 'a, T: Dispatch<Group = g>> Wrapper<'a, 'b, T, U> { pub fn kita(&self) {} }`: the parameters are
    declared in another order than the self type uses them -/
def blockL (g : String) : T :=
  implInh [ltParam "b", tyParam "U" [], ltParam "a", tyParam "T" [traitBound (dispatch g)]] (leaf "None")
    (adtArgs "Wrapper" [ltArg "a", ltArg "b", tyArg tT, tyArg tU]) [fnItem pubVis "kita"]

/-- run the front end and the three generators of inherent mode on the first family and apply a Boolean test -/
def checkFirst (items : List T) (f : (T × ABG × List Blk) → T → List T → T → Bool) : Bool :=
  match parseGroups items with
  | .ok (g :: _) =>
      (match helperTraitOfInherent (firstItem_inh g) 0 g.2.1.idents.length, helperImpls 0 g, mainImplInherent 0 g with
       | .ok tr, some hs, .ok (some m) => f g tr hs m
       | _, _, _ => false)
  | _ => false

/-- all side conditions of `C17_expandOK_of_expand_inherent` / `C17_helper_params_aligned` / `C17_main_params_in_self` -/
def sideConditions (g : T × ABG × List Blk) : Bool :=
  expandWF g && wildcardsFixed g && inherentFamily_inh g && firstNamed_inh g && selfArgsFixed_inh g &&
    membersDeclare_inh g && membersSized_inh g && firstParamsInSelf_inh g

/-- the main impl declares a parameter that its self type does not mention -/
def mainUnconstrained (m : T) : Bool :=
  (genericsParams (XOK.kid m 3)).any (fun p => !(identsOf_inh (XOK.kid m 5)).contains (pname_inh p))

/-- helper impl `h` passes (after the `nkeys` key slots) a parameter it does not declare -/
def passesUndeclared (nkeys : Nat) (h : T) : Bool :=
  match XOK.traitPathOf h with
  | some hp => !argsScoped_inh (genericsParams (XOK.kid h 3)) ((XOK.segArgs (XOK.lastSeg hp)).drop nkeys)
  | none => false

/-- helper impl `h` passes (after the key slots) a parameter that it relaxes with `?Sized`, for a parameter of the
    helper trait `tr` that is declared without bounds (implicitly `Sized`) -/
def passesUnsized (tr : T) (nkeys : Nat) (h : T) : Bool :=
  match XOK.traitPathOf h with
  | some hp => !argsSized_inh (XOK.kid h 3) ((XOK.segArgs (XOK.lastSeg hp)).drop nkeys) &&
      (((traitParams_inh tr).filter (fun p => !isLifetimeParam p)).drop nkeys).all (fun p => p == bareParam p)
  | none => false
end ExInh

section InherentExamples
set_option maxRecDepth 1000000

/-- non-vacuity (tests/disjoint_inherent_impl.rs, reduced to one parameter): the family of the two blocks
    `impl<T: Dispatch<Group = GroupA>> Wrapper<T> { pub fn kita(&self) {} fn hid(&self) {} }` and the same with `GroupB`
    has two members, the three generators succeed, all side conditions hold, both checkers accept, and the main impl
    keeps `pub` on `kita` and no visibility on `hid` -/
example : ExInh.checkFirst [ExInh.blockW "GroupA", ExInh.blockW "GroupB"]
    (fun g tr hs m => g.2.2.length == 2 && hs.length == 2 && ExInh.sideConditions g &&
      expandOKB g (thetasOf g) hs m && expandOKInh_inh g (thetasOf g) tr hs m &&
      (implItems m).map (fun it => XOK.kid it 1) == [ExInh.pubVis, ExInh.privVis] &&
      hs.all (fun h => (implItems h).map (fun it => XOK.kid it 1) == [ExInh.privVis, ExInh.privVis]) &&
      (implItems (firstItem_inh g)).all itemShaped_inh && traitName_inh tr == "_Wrapper0" &&
      (XOK.kids (XOK.kid tr 9)).length == 2) = true := by with_unfolding_all decide

/-- non-vacuity with lifetimes and a declaration order that differs from the order of use
    (`impl<'b, U, 'a, T: Dispatch<Group = g>> Wrapper<'a, 'b, T, U>`): the canonical block declares `'_ŠČ1, _ŠČ3, '_ŠČ0, _ŠČ2`,
    the helper trait declares `'_ŠČ0, '_ŠČ1, _ŠČ4: ?Sized, _ŠČ2, _ŠČ3` (sorted, key parameter after the lifetimes), every
    helper impl passes `<row, '_ŠČ0, '_ŠČ1, _ŠČ2, _ŠČ3>` (printed with the lifetimes first); all side conditions hold and
    both checkers accept; and `refAligned_inh` is not vacuous: it rejects the same references against a declaration
    with the two lifetimes swapped (the defect repaired by cb951c4) -/
example : ExInh.checkFirst [ExInh.blockL "GroupA", ExInh.blockL "GroupB"]
    (fun g tr hs m => g.2.2.length == 2 && hs.length == 2 && ExInh.sideConditions g &&
      expandOKB g (thetasOf g) hs m && expandOKInh_inh g (thetasOf g) tr hs m &&
      (genericsParams ((implGenerics (firstItem_inh g)).getD (.node "?" [] []))).map pname_inh == ["_ŠČ1", "_ŠČ3", "_ŠČ0", "_ŠČ2"] &&
      (traitParams_inh tr).map pname_inh == ["_ŠČ0", "_ŠČ1", "_ŠČ4", "_ŠČ2", "_ŠČ3"] &&
      hs.all (fun h => match XOK.traitPathOf h with
        | some hp =>
            (XOK.segArgs (XOK.lastSeg hp)).map isLifetimeArg == [false, true, true, false, false] &&
            !refAligned_inh 1 (((traitParams_inh tr).take 2).reverse ++ (traitParams_inh tr).drop 2) (XOK.segArgs (XOK.lastSeg hp))
        | none => false)) = true := by with_unfolding_all decide

/-- finding D32 (helper_trait.rs:16-47, lib.rs `gen_inherent_self_ty_args`): with
    `impl<T: Dispatch<Group = Vec<U>>, U> W<T>` as the first block (a parameter that occurs only in a payload) and
    `impl<T: Dispatch<Group = GroupB>> W<T>` as the second, the family is well-formed and the generators succeed, but
    the side conditions `firstParamsInSelf_inh` and `membersDeclare_inh` fail, the second helper impl passes the
    parameter `_ŠČ1` that it does not declare (E0425), the main impl declares a parameter its self type does not mention
    (E0207), and the inherent-mode checker rejects the expansion — while `expandOKCore` accepts it (it does not look at
    the helper arguments in inherent mode) -/
theorem C17_payload_only_param_counterexample : ExInh.checkFirst [ExInh.d32a, ExInh.d32b]
    (fun g tr hs m => g.2.2.length == 2 && expandWF g && wildcardsFixed g && inherentFamily_inh g && firstNamed_inh g &&
      !firstParamsInSelf_inh g && !membersDeclare_inh g &&
      (hs.map (ExInh.passesUndeclared g.2.1.idents.length) == [false, true]) && ExInh.mainUnconstrained m &&
      !expandOKInh_inh g (thetasOf g) tr hs m && expandOKB g (thetasOf g) hs m) = true := by with_unfolding_all decide

/-- … and with the two blocks of D32 in the other order every side condition holds and both checkers accept: the order
    of the blocks changes acceptance -/
theorem C17_payload_only_param_order_dependence : ExInh.checkFirst [ExInh.d32b, ExInh.d32a]
    (fun g tr hs m => g.2.2.length == 2 && ExInh.sideConditions g && !ExInh.mainUnconstrained m &&
      (hs.map (ExInh.passesUndeclared g.2.1.idents.length) == [false, false]) &&
      expandOKInh_inh g (thetasOf g) tr hs m && expandOKB g (thetasOf g) hs m) = true := by with_unfolding_all decide

/-- finding D27 (helper_trait.rs:31 `remove_param_bounds`): for the blocks `impl<T: ?Sized + Dispatch<Group = GroupA>> W<T>`
    and `… GroupB …` the family is well-formed and the generators succeed, but the helper trait declares the self-type
    parameter without bounds (implicitly `Sized`) while both helper impls pass a parameter they relax with `?Sized`
    (E0277): the side condition `membersSized_inh` fails and the inherent-mode checker rejects the expansion -/
theorem C17_relaxed_param_counterexample : ExInh.checkFirst [ExInh.d27 "GroupA", ExInh.d27 "GroupB"]
    (fun g tr hs m => g.2.2.length == 2 && expandWF g && wildcardsFixed g && inherentFamily_inh g && firstNamed_inh g &&
      firstParamsInSelf_inh g && membersDeclare_inh g && selfArgsFixed_inh g && !membersSized_inh g &&
      (hs.map (ExInh.passesUnsized tr g.2.1.idents.length) == [true, true]) &&
      !expandOKInh_inh g (thetasOf g) tr hs m && expandOKB g (thetasOf g) hs m) = true := by with_unfolding_all decide

/-- nested member in inherent mode: for `impl<T: Dispatch<Group = GroupA>> W<T>` and
    `impl<T> W<Vec<T>> where Vec<T>: Dispatch<Group = GroupB>` the front end forms one family whose second member has the
    substitution `_ŠČ0 ↦ Vec<_ŠČ0>`; its helper impl nevertheless passes the first block's parameter `_ŠČ0` itself (not
    `Vec<_ŠČ0>`) to the helper trait, so it never discharges the main impl's `Self: _W0<…, _ŠČ0>` at a type `W<Vec<X>>`
    (which asks for `_W0<…, Vec<X>>`): `selfArgsFixed_inh` fails and the inherent-mode checker rejects the expansion,
    while `expandOKCore` accepts it -/
theorem C17_nested_member_counterexample : ExInh.checkFirst [ExInh.nestedA, ExInh.nestedB]
    (fun g tr hs m => g.2.2.length == 2 && expandWF g && wildcardsFixed g && inherentFamily_inh g && firstNamed_inh g &&
      firstParamsInSelf_inh g && membersDeclare_inh g && membersSized_inh g && !selfArgsFixed_inh g &&
      !expandOKInh_inh g (thetasOf g) tr hs m && expandOKB g (thetasOf g) hs m) = true := by with_unfolding_all decide

end InherentExamples

/-! ## The helper trait is named by the LAST segment of the self type's path
    (helper_trait.rs, /repo commit ccb06e8 "fix: helper traits are named by the last path segment only")

Before the repair `helper_trait::generate` printed `trait #self_ty_without_last_arguments`, which for a qualified self type
such as `meters::Wrapper<T>` is not an identifier (`expected identifier` panic; in the model `selfTraitIdent` demanded a
single segment without leading `::`). Now the helper trait is declared under the last segment's identifier, whatever
leading segments / leading `::` the self type's path has. -/

/-- If `helperTraitOfInherent item idx nkeys = .ok ht` then the self type of `item` (child 5) is an unqualified path type
    `Type::Path [None, p]` (no `<T as Tr>::` prefix), the LAST segment of `p` is `x<…>` for an identifier `x`, and the helper
    trait's identifier (child 5 of `ht`; `traitName_inh`, `traitIdent`) is `genIdentStr x idx` = `_<x><idx>`. Nothing is
    assumed about the other segments of `p` or about a leading `::`: they do not enter the name. No side condition. -/
theorem C17_helper_trait_named_by_last_segment (item : T) (idx nkeys : Nat) (ht : T)
    (h : helperTraitOfInherent item idx nkeys = .ok ht) :
    ∃ p x a, XOK.kid item 5 = .node "Type::Path" [] [tNone, p] ∧
      lastSegOf p = some (.node "PathSegment" [] [.node "Ident" [x] [], a]) ∧
      XOK.kid ht 5 = tIdent (genIdentStr x idx) ∧ traitName_inh ht = genIdentStr x idx ∧
      traitIdent ht = genIdentStr x idx :=
  helperTraitOfInherent_name_hp h

/-- … and conversely a qualified self type no longer makes the generator panic: for an `impl` block whose self type is ANY
    unqualified path type with a named last segment (any leading segments, any leading `::`) and whose items can be turned
    into declarations, the helper trait is generated and named after the last segment. -/
theorem C17_helper_trait_any_qualifier (a d u lt : T) (ps : List T) (gt wc trr p : T) (items its : List T) (x : String) (a0 : T)
    (idx nkeys : Nat)
    (hl : lastSegOf p = some (.node "PathSegment" [] [.node "Ident" [x] [], a0]))
    (hits : genAll (items.map traitItemOfImplItem) = .ok its) :
    ∃ ht, helperTraitOfInherent (.node "ItemImpl" [] [a, d, u, .node "Generics" [] [lt, .node "List" [] ps, gt, wc], trr,
        .node "Type::Path" [] [tNone, p], .node "List" [] items]) idx nkeys = .ok ht ∧
      traitName_inh ht = genIdentStr x idx := by
  have hx := selfTraitIdent_of_last_inh hl
  simp only [tNone] at hx
  unfold helperTraitOfInherent
  simp only [tNone, hx, hits]
  exact ⟨_, rfl, by simp [traitName_inh, XOK.kid, XOK.kids, XOK.atoms, tIdent]⟩

namespace ExInh
open Ex11
/-- `[::]m₁::…::name<args>` as a self type (`lead` = `noLead` / `someLead`) -/
def qualAdt (lead : T) (mods : List String) (name : String) (args : List T) : T :=
  .node "Type::Path" [] [leaf "None", .node "Path" [] [lead, .node "List" [] (mods.map Ex11.seg ++
    [.node "PathSegment" [] [.node "Ident" [name] [],
      .node "PathArguments::AngleBracketed" [] [.node "Ign" [] [leaf "None"],
        .node "List" [] (args.map (fun a => .node "GenericArgument::Type" [] [a]))]]])]]
/-- `impl<T: Dispatch<Group = g>> meters::Wrapper<T> { pub fn kita(&self) {} fn hid(&self) {} }` -/
def blockMW (g : String) : T :=
  implInh [tyParam "T" [traitBound (dispatch g)]] (leaf "None") (qualAdt noLead ["meters"] "Wrapper" [tT])
    [fnItem pubVis "kita", fnItem privVis "hid"]
/-- `impl<T: Dispatch<Group = g>> ::krate::meters::Wrapper<T> { pub fn kita(&self) {} }` -/
def blockAW (g : String) : T :=
  implInh [tyParam "T" [traitBound (dispatch g)]] (leaf "None") (qualAdt someLead ["krate", "meters"] "Wrapper" [tT])
    [fnItem pubVis "kita"]
/-- the trait reference of `h` is the single segment `name<…>` -/
def refIsSingle (name : String) (h : T) : Bool :=
  match XOK.traitPathOf h with
  | some hp => XOK.segIdent (XOK.lastSeg hp) == name && (pathSegments hp).length == 1 && pathLead hp == noLead
  | none => false
end ExInh

section QualifiedSelfExamples
set_option maxRecDepth 1000000

/-- non-vacuity, the input of the repaired panic: two blocks on `meters::Wrapper<T>` (a self type with TWO segments). The three
    generators succeed; the helper trait is named `_Wrapper0`; both helper impls are `impl<…> _Wrapper0<…> for meters::Wrapper<T>`
    (single-segment reference, `pathUnqualified_hp`); the main impl keeps the user's self type; all side conditions of
    `C17_expandOK_of_expand_inherent` hold and both checkers accept -/
example : ExInh.checkFirst [ExInh.blockMW "GroupA", ExInh.blockMW "GroupB"]
    (fun g tr hs m => g.2.2.length == 2 && hs.length == 2 && ExInh.sideConditions g &&
      expandOKB g (thetasOf g) hs m && expandOKInh_inh g (thetasOf g) tr hs m &&
      traitName_inh tr == "_Wrapper0" && XOK.kid tr 5 == tIdent "_Wrapper0" &&
      hs.all pathUnqualified_hp && hs.all (ExInh.refIsSingle "_Wrapper0") &&
      (implSelfTy (firstItem_inh g)).map (fun s => match s with
        | .node "Type::Path" [] [_, p] => (pathSegments p).length
        | _ => 0) == some 2 &&
      XOK.kid m 5 == XOK.kid (firstItem_inh g) 5) = true := by with_unfolding_all decide

/-- the same with a leading `::` and two leading segments: `::krate::meters::Wrapper<T>` -/
example : ExInh.checkFirst [ExInh.blockAW "GroupA", ExInh.blockAW "GroupB"]
    (fun g tr hs m => g.2.2.length == 2 && hs.length == 2 && ExInh.sideConditions g &&
      expandOKB g (thetasOf g) hs m && expandOKInh_inh g (thetasOf g) tr hs m &&
      traitName_inh tr == "_Wrapper0" && hs.all pathUnqualified_hp && hs.all (ExInh.refIsSingle "_Wrapper0") &&
      XOK.kid m 5 == XOK.kid (firstItem_inh g) 5) = true := by with_unfolding_all decide

/-- the hypotheses of `C17_helper_trait_any_qualifier` on the first block of that family -/
example : lastSegOf (.node "Path" [] [someLead, .node "List" [] [Ex11.seg "krate", Ex11.seg "meters",
      .node "PathSegment" [] [.node "Ident" ["Wrapper"] [], noArgs]]]) =
    some (.node "PathSegment" [] [.node "Ident" ["Wrapper"] [], noArgs]) ∧
    genAll ([ExInh.fnItem ExInh.pubVis "kita"].map traitItemOfImplItem) =
      .ok [.node "TraitItem::Fn" [] [ignAttrs, XOK.kid (ExInh.fnItem ExInh.pubVis "kita") 3, tNone, .node "Some" ["Semi"] []]] :=
  ⟨rfl, rfl⟩

/-- attributes are copied onto the prototypes (/repo 2b7edb4): `#[cfg(any())] pub fn kita(&self) {}` (ONE attribute, i.e. an
    attribute list of arity 1) is declared in the helper trait with the same attribute node, not with an empty list -/
example :
    let it := T.node "ImplItem::Fn" [] ((T.node "Ign" [] [.node "List" [] [Ex11.leaf "Attribute"]]) ::
      (XOK.kids (ExInh.fnItem ExInh.pubVis "kita")).tail)
    traitItemOfImplItem it =
      .ok (.node "TraitItem::Fn" [] [.node "Ign" [] [.node "List" [] [Ex11.leaf "Attribute"]], XOK.kid it 3, tNone,
        .node "Some" ["Semi"] []]) ∧
    (∀ tit, traitItemOfImplItem it = .ok tit → XOK.kid tit 0 ≠ ignAttrs) ∧
    itemShaped_inh it = true :=
  ⟨rfl, by intro tit h; cases h; decide, by decide⟩

end QualifiedSelfExamples

end DI
