import DisjointImpls.Tree
namespace DI
theorem C08_placeholder : (1 : Nat) = 1 := rfl
end DI
