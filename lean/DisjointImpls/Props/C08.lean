/-
  C08 — naming and top-level shape of the expansion. Two parts:

  1. Helper-trait names (`helper_trait.rs:140-142`, `format_ident!("_{}{}", ident, idx)`, model `genIdent` in
     `Lemmas/Names.lean`): pairwise distinct within an invocation and different from the trait's own name.
  2. The assembly step of `lib.rs:693-702` only: the trait is emitted verbatim, everything else goes into one
     anonymous constant. These statements are definitional facts about the model `expandTop` of that step;
     what is *inside* the anonymous constant (hygiene of the generated items) is not covered here.
-/
import DisjointImpls.Lemmas.Names
import DisjointImpls.Validate
namespace DI

/-! ## Helper-trait names -/

theorem C08_helpers_distinct (name : String) (i j : Nat) : genIdent name i = genIdent name j → i = j :=
  genIdent_inj name

theorem C08_helper_differs_from_trait (name : String) (i : Nat) : genIdent name i ≠ name := genIdent_ne name i

/-- helpers of one invocation: pairwise distinct names -/
theorem C08_helper_names_nodup (name : String) (n : Nat) : ((List.range n).map (genIdent name)).Nodup :=
  List.Pairwise.map (genIdent name) (fun _ _ hab e => hab (genIdent_inj name e)) List.nodup_range

/-- … none of which is the trait's name -/
theorem C08_helper_names_avoid_trait (name : String) (n : Nat) : name ∉ (List.range n).map (genIdent name) := by
  intro h
  obtain ⟨i, _, hi⟩ := List.mem_map.1 h
  exact genIdent_ne name i hi

/-! ## Top-level shape (assembly step only) -/

/-- what `disjoint_impls!` expands to: the trait definition (trait mode) and one `const _: () = { … };` -/
structure TopLevel where
  trait_ : Option T
  anon : List T

/-- `lib.rs:693-702`: `#trait_  const _: () = { #(#helper_traits)* #(#helper_impls)* #(#main_impls)* };` -/
def expandTop (trait_ : Option T) (helpers helperImpls mainImpls : List T) : TopLevel :=
  ⟨trait_, helpers ++ helperImpls ++ mainImpls⟩

/-- an item of the enclosing scope -/
inductive ScopeItem where
  | named (t : T)                 -- an item with a name of its own: the trait definition
  | anonymous (items : List T)    -- `const _: () = { items };`

def scopeItems (tl : TopLevel) : List ScopeItem := tl.trait_.toList.map .named ++ [.anonymous tl.anon]

/-- names bound in the enclosing scope by an item (`const _` binds none; its contents are not in scope outside) -/
def ScopeItem.boundNames : ScopeItem → List String
  | .named t => [traitIdent t]
  | .anonymous _ => []

/-- the only items added to the enclosing scope are the trait, verbatim, and one anonymous constant containing
    everything else -/
theorem C08_top_level_shape (trait_ : Option T) (helpers helperImpls mainImpls : List T) :
    scopeItems (expandTop trait_ helpers helperImpls mainImpls) =
      trait_.toList.map .named ++ [.anonymous (helpers ++ helperImpls ++ mainImpls)] := rfl

/-- names bound in the enclosing scope: the trait's name only; none in inherent mode -/
theorem C08_introduced_names (trait_ : Option T) (helpers helperImpls mainImpls : List T) :
    (scopeItems (expandTop trait_ helpers helperImpls mainImpls)).flatMap ScopeItem.boundNames =
      trait_.toList.map traitIdent := by
  cases trait_ <;> simp [scopeItems, expandTop, ScopeItem.boundNames]

theorem C08_inherent_introduces_nothing (helpers helperImpls mainImpls : List T) :
    (scopeItems (expandTop none helpers helperImpls mainImpls)).flatMap ScopeItem.boundNames = [] := by
  rw [C08_introduced_names]; rfl

/-- one invocation: the trait (if any) and the three groups of generated items -/
structure Invocation where
  trait_ : Option T
  helpers : List T
  helperImpls : List T
  mainImpls : List T

def Invocation.scope (i : Invocation) : List ScopeItem := scopeItems (expandTop i.trait_ i.helpers i.helperImpls i.mainImpls)

theorem flatMap_toList_eq_filterMap {α β : Type} (f : α → Option β) : ∀ (l : List α),
    l.flatMap (fun a => (f a).toList) = l.filterMap f
  | [] => rfl
  | a :: l => by
      rw [List.flatMap_cons, List.filterMap_cons, flatMap_toList_eq_filterMap f l]
      cases f a <;> rfl

/-- side by side: invocations with pairwise distinct trait names bind no name twice in the enclosing scope
    (anonymous constants bind none, so any number of inherent-mode invocations may be added) -/
theorem C08_side_by_side (invs : List Invocation)
    (h : ((invs.filterMap (·.trait_)).map traitIdent).Nodup) :
    ((invs.flatMap Invocation.scope).flatMap ScopeItem.boundNames).Nodup := by
  have : (invs.flatMap Invocation.scope).flatMap ScopeItem.boundNames =
      (invs.filterMap (·.trait_)).map traitIdent := by
    rw [List.flatMap_assoc]
    have h1 : ∀ i : Invocation, (Invocation.scope i).flatMap ScopeItem.boundNames = (i.trait_.toList).map traitIdent :=
      fun i => C08_introduced_names i.trait_ i.helpers i.helperImpls i.mainImpls
    simp only [h1]
    rw [← flatMap_toList_eq_filterMap, List.map_flatMap]
  rw [this]; exact h

/-! ## Non-vacuity -/

example : genIdent "Kita" 0 = "_Kita0" ∧ genIdent "Kita" 12 = "_Kita12" := by
  with_unfolding_all decide

example :
    let tr (x : String) : T := .node "ItemTrait" [] [.node "L" [] [], .node "V" [] [], .node "None" [] [], .node "None" [] [],
      .node "None" [] [], .node "Ident" [x] [], .node "G" [] [], .node "None" [] [], .node "List" [] [], .node "List" [] []]
    let invs : List Invocation := [⟨some (tr "Kita"), [.node "H" [] []], [], []⟩, ⟨none, [], [], [.node "M" [] []]⟩,
      ⟨some (tr "Other"), [], [], []⟩]
    ((invs.filterMap (·.trait_)).map traitIdent) = ["Kita", "Other"] ∧
    (invs.flatMap Invocation.scope).flatMap ScopeItem.boundNames = ["Kita", "Other"] ∧
    (invs.flatMap Invocation.scope).length = 5 := by decide

end DI
