/-
  C08 — naming and top-level shape of the expansion. Two parts:

  1. Helper-trait names (`helper_trait.rs:140-142`, `format_ident!("_{}{}", ident, idx)`, model `genIdent` in
     `Lemmas/Names.lean`): pairwise distinct within an invocation and different from the trait's own name.
  2. The assembly step of `lib.rs:693-702` only: the trait is emitted verbatim, everything else goes into one
     anonymous constant. These statements are definitional facts about the model `expandTop` of that step;
     what is *inside* the anonymous constant (hygiene of the generated items) is not covered here.
  3. (last section) The assembly step tied to the generators of `Expand.lean`: `expandAll trait? groups` runs the three
     generators on every family in order and renders the result; `C08_expandAll_top_level` (trait verbatim + one
     `const _`, nothing else in inherent mode), `C08_helper_names_in_const` (helper trait of family `idx` is named
     `genIdent n idx`), distinctness in trait mode, and two counterexamples: helper names CAN clash in inherent mode
     with eleven or more families on different self types (`C08_inherent_helper_names_clash_counterexample`, new), and
     a user item named like a helper is shadowed inside the constant (`C08_user_item_shadowed_counterexample`, D11).
  4. (last section) The helper impls name the helper trait by ONE unqualified segment whatever qualifiers the user wrote
     (`C08_helper_path_unqualified`, `C08_helper_impls_unqualified`; /repo commit ccb06e8).
-/
import DisjointImpls.Lemmas.Names
import DisjointImpls.Validate
import DisjointImpls.Lemmas.ExpandEmit
import DisjointImpls.Props.C17
import DisjointImpls.Lemmas.HelperPath
namespace DI

/-! ## Helper-trait names -/

theorem C08_helpers_distinct (name : String) (i j : Nat) : genIdent name i = genIdent name j → i = j :=
  genIdent_inj name

theorem C08_helper_differs_from_trait (name : String) (i : Nat) : genIdent name i ≠ name := genIdent_ne name i

/-- helpers of one invocation: pairwise distinct names -/
theorem C08_helper_names_nodup (name : String) (n : Nat) : ((List.range n).map (genIdent name)).Nodup :=
  List.Pairwise.map (genIdent name) (fun _ _ hab e => hab (genIdent_inj name e)) List.nodup_range

/-- … none of which is the trait's name -/
theorem C08_helper_names_avoid_trait (name : String) (n : Nat) : name ∉ (List.range n).map (genIdent name) := by
  intro h
  obtain ⟨i, _, hi⟩ := List.mem_map.1 h
  exact genIdent_ne name i hi

/-! ## Top-level shape (assembly step only) -/

/-- what `disjoint_impls!` expands to: the trait definition (trait mode) and one `const _: () = { … };` -/
structure TopLevel where
  trait_ : Option T
  anon : List T

/-- `lib.rs:693-702`: `#trait_  const _: () = { #(#helper_traits)* #(#helper_impls)* #(#main_impls)* };` -/
def expandTop (trait_ : Option T) (helpers helperImpls mainImpls : List T) : TopLevel :=
  ⟨trait_, helpers ++ helperImpls ++ mainImpls⟩

/-- an item of the enclosing scope -/
inductive ScopeItem where
  | named (t : T)                 -- an item with a name of its own: the trait definition
  | anonymous (items : List T)    -- `const _: () = { items };`

def scopeItems (tl : TopLevel) : List ScopeItem := tl.trait_.toList.map .named ++ [.anonymous tl.anon]

/-- names bound in the enclosing scope by an item (`const _` binds none; its contents are not in scope outside) -/
def ScopeItem.boundNames : ScopeItem → List String
  | .named t => [traitIdent t]
  | .anonymous _ => []

/-- the only items added to the enclosing scope are the trait, verbatim, and one anonymous constant containing
    everything else -/
theorem C08_top_level_shape (trait_ : Option T) (helpers helperImpls mainImpls : List T) :
    scopeItems (expandTop trait_ helpers helperImpls mainImpls) =
      trait_.toList.map .named ++ [.anonymous (helpers ++ helperImpls ++ mainImpls)] := rfl

/-- names bound in the enclosing scope: the trait's name only; none in inherent mode -/
theorem C08_introduced_names (trait_ : Option T) (helpers helperImpls mainImpls : List T) :
    (scopeItems (expandTop trait_ helpers helperImpls mainImpls)).flatMap ScopeItem.boundNames =
      trait_.toList.map traitIdent := by
  cases trait_ <;> simp [scopeItems, expandTop, ScopeItem.boundNames]

theorem C08_inherent_introduces_nothing (helpers helperImpls mainImpls : List T) :
    (scopeItems (expandTop none helpers helperImpls mainImpls)).flatMap ScopeItem.boundNames = [] := by
  rw [C08_introduced_names]; rfl

/-- one invocation: the trait (if any) and the three groups of generated items -/
structure Invocation where
  trait_ : Option T
  helpers : List T
  helperImpls : List T
  mainImpls : List T

def Invocation.scope (i : Invocation) : List ScopeItem := scopeItems (expandTop i.trait_ i.helpers i.helperImpls i.mainImpls)

theorem flatMap_toList_eq_filterMap {α β : Type} (f : α → Option β) : ∀ (l : List α),
    l.flatMap (fun a => (f a).toList) = l.filterMap f
  | [] => rfl
  | a :: l => by
      rw [List.flatMap_cons, List.filterMap_cons, flatMap_toList_eq_filterMap f l]
      cases f a <;> rfl

/-- side by side: invocations with pairwise distinct trait names bind no name twice in the enclosing scope
    (anonymous constants bind none, so any number of inherent-mode invocations may be added) -/
theorem C08_side_by_side (invs : List Invocation)
    (h : ((invs.filterMap (·.trait_)).map traitIdent).Nodup) :
    ((invs.flatMap Invocation.scope).flatMap ScopeItem.boundNames).Nodup := by
  have : (invs.flatMap Invocation.scope).flatMap ScopeItem.boundNames =
      (invs.filterMap (·.trait_)).map traitIdent := by
    rw [List.flatMap_assoc]
    have h1 : ∀ i : Invocation, (Invocation.scope i).flatMap ScopeItem.boundNames = (i.trait_.toList).map traitIdent :=
      fun i => C08_introduced_names i.trait_ i.helpers i.helperImpls i.mainImpls
    simp only [h1]
    rw [← flatMap_toList_eq_filterMap, List.map_flatMap]
  rw [this]; exact h

/-! ## Non-vacuity -/

example : genIdent "Kita" 0 = "_Kita0" ∧ genIdent "Kita" 12 = "_Kita12" := by
  with_unfolding_all decide

example :
    let tr (x : String) : T := .node "ItemTrait" [] [.node "L" [] [], .node "V" [] [], .node "None" [] [], .node "None" [] [],
      .node "None" [] [], .node "Ident" [x] [], .node "G" [] [], .node "None" [] [], .node "List" [] [], .node "List" [] []]
    let invs : List Invocation := [⟨some (tr "Kita"), [.node "H" [] []], [], []⟩, ⟨none, [], [], [.node "M" [] []]⟩,
      ⟨some (tr "Other"), [], [], []⟩]
    ((invs.filterMap (·.trait_)).map traitIdent) = ["Kita", "Other"] ∧
    (invs.flatMap Invocation.scope).flatMap ScopeItem.boundNames = ["Kita", "Other"] ∧
    (invs.flatMap Invocation.scope).length = 5 := by decide

/-! ## The assembly step tied to the generators of `Expand.lean`

`expandParts_em trait_ groups` (`Lemmas/ExpandEmit.lean`) runs, for every family `g` of `groups` with its index `idx`
(`enumerate()`, lib.rs:693-707), the three generators of the model — `helperTraitOfTrait` / `helperTraitOfInherent`
(with `idents().count()` key parameters), `helperImpls`, `mainImplOfTrait` / `mainImplInherent` — and is `none` if one of
them panics or leaves the modelled fragment. `expandAll` renders `expandTop` of the results as item trees: the trait (if
any) and ONE `const _: () = { helper traits; helper impls; main impls };` (`anonConst_em`). -/

/-- a scope item as an item tree -/
def renderScopeItem : ScopeItem → T
  | .named t => t
  | .anonymous items => anonConst_em items

/-- what `disjoint_impls!` expands to, as a list of top-level items (`none`: a generator fails) -/
def expandAll (trait_ : Option T) (groups : Groups) : Option (List T) :=
  (expandParts_em trait_ groups).map (fun ps =>
    (scopeItems (expandTop trait_ (partsHelpers_em ps) (partsHelperImpls_em ps) (partsMainImpls_em ps))).map renderScopeItem)

/-- **Top-level shape.** Whenever the expansion exists, its top-level items are exactly the trait the user wrote —
    the SAME tree, first — followed by one `const _: () = { … }` that contains one helper trait per family (in family
    order), then all helper impls, then the main impls; in inherent mode the `const _` is the only item. The only
    names bound in the enclosing scope are those of the user's trait (`itemBoundNames_em`: a trait binds its
    identifier, `const _` binds nothing). No side condition. -/
theorem C08_expandAll_top_level (trait_ : Option T) (groups : Groups) (items : List T)
    (h : expandAll trait_ groups = some items) :
    ∃ ps, expandParts_em trait_ groups = some ps ∧ ps.length = groups.length ∧
      (partsHelpers_em ps).length = groups.length ∧
      items = trait_.toList ++ [anonConst_em (partsHelpers_em ps ++ partsHelperImpls_em ps ++ partsMainImpls_em ps)] ∧
      items.flatMap itemBoundNames_em = trait_.toList.flatMap itemBoundNames_em := by
  unfold expandAll at h
  cases hp : expandParts_em trait_ groups with
  | none => rw [hp] at h; cases h
  | some ps =>
    rw [hp] at h
    simp only [Option.map_some, Option.some.injEq] at h
    subst h
    have hlen := expandParts_length_em hp
    refine ⟨ps, rfl, hlen, by simp [partsHelpers_em, hlen], ?_, ?_⟩
    · cases trait_ <;> simp [scopeItems, expandTop, renderScopeItem]
    · cases trait_ <;> simp [scopeItems, expandTop, renderScopeItem, itemBoundNames_anonConst_em]

/-- trait mode: two items, the user's trait verbatim and the anonymous constant; the scope gains the trait's name only
    (side condition, executable: the trait is an `ItemTrait` tree with an identifier, `isItemTrait_em`) -/
theorem C08_expandAll_trait_mode (t : T) (groups : Groups) (items : List T) (h : expandAll (some t) groups = some items) :
    ∃ inner, items = [t, anonConst_em inner] ∧
      (isItemTrait_em t = true → items.flatMap itemBoundNames_em = [traitIdent t]) := by
  obtain ⟨ps, _, _, _, hi, hn⟩ := C08_expandAll_top_level (some t) groups items h
  refine ⟨_, hi, fun ht => ?_⟩
  rw [hn]
  simp [itemBoundNames_of_isItemTrait_em ht]

/-- inherent mode: nothing at all is added to the enclosing scope except one anonymous constant -/
theorem C08_expandAll_inherent_mode (groups : Groups) (items : List T) (h : expandAll none groups = some items) :
    ∃ inner, items = [anonConst_em inner] ∧ items.flatMap itemBoundNames_em = [] := by
  obtain ⟨ps, _, _, _, hi, hn⟩ := C08_expandAll_top_level none groups items h
  exact ⟨_, hi, by rw [hn]; rfl⟩

/-- **Helper names.** The helper trait generated for family `idx` is named `genIdent n idx` = `_<n><idx>`, where `n`
    is the user's trait's identifier (trait mode) or the identifier of the self type of the family's first block
    (inherent mode; `helperBaseName_em`). No side condition beyond the existence of the expansion. -/
theorem C08_helper_names_in_const (trait_ : Option T) (groups : Groups) (ps : List (T × List T × Option T))
    (h : expandParts_em trait_ groups = some ps) :
    (partsHelpers_em ps).map traitIdent =
      (List.zip (List.range groups.length) groups).map (fun ig => genIdent (helperBaseName_em trait_ ig.2) ig.1) :=
  partsHelpers_names_em h

/-- trait mode: the helper traits are named `_<Trait>0, …, _<Trait>(n-1)`: pairwise different and different from the
    trait's own name -/
theorem C08_expandAll_helper_names_trait (t : T) (groups : Groups) (ps : List (T × List T × Option T))
    (h : expandParts_em (some t) groups = some ps) :
    (partsHelpers_em ps).map traitIdent = (List.range groups.length).map (genIdent (traitIdent t)) ∧
    ((partsHelpers_em ps).map traitIdent).Nodup ∧ traitIdent t ∉ (partsHelpers_em ps).map traitIdent := by
  have := partsHelpers_names_trait_em h
  rw [this]
  exact ⟨rfl, C08_helper_names_nodup _ _, C08_helper_names_avoid_trait _ _⟩

/-- inherent mode, PARTIAL: when all families are on the same self-type name `n` (executable side condition), the helper
    traits are named `_<n>0, …, _<n>(k-1)`: pairwise different and different from `n`. Without the side condition the
    names can clash: `C08_inherent_helper_names_clash_counterexample`. -/
theorem C08_expandAll_helper_names_inherent_partial (n : String) (groups : Groups) (ps : List (T × List T × Option T))
    (h : expandParts_em none groups = some ps) (hn : groups.all (fun g => selfName_em g == n) = true) :
    (partsHelpers_em ps).map traitIdent = (List.range groups.length).map (genIdent n) ∧
    ((partsHelpers_em ps).map traitIdent).Nodup ∧ n ∉ (partsHelpers_em ps).map traitIdent := by
  have := partsHelpers_names_inherent_em h hn
  rw [this]
  exact ⟨rfl, C08_helper_names_nodup _ _, C08_helper_names_avoid_trait _ _⟩

/-- both modes, PARTIAL in the other direction: with at most TEN families (executable side condition) all indices are
    single digits and the helper traits have pairwise different names whatever the self-type names are — so the clash of
    `C08_inherent_helper_names_clash_counterexample` needs at least eleven families -/
theorem C08_expandAll_helper_names_nodup_small (trait_ : Option T) (groups : Groups) (ps : List (T × List T × Option T))
    (h : expandParts_em trait_ groups = some ps) (hlen : groups.length ≤ 10) :
    ((partsHelpers_em ps).map traitIdent).Nodup :=
  partsHelpers_names_nodup_small_em h hlen

/-! ### Examples and counterexamples -/

namespace Ex08
open Ex11 ExInh
/-- `impl<T: Dispatch<Group = GroupA>> n<T> { pub fn name(&self) {} }` -/
def inhBlock (n : String) : T :=
  implInh [tyParam "T" [traitBound (dispatch "GroupA")]] (leaf "None") (adt n [tT]) [fnItem pubVis "name"]
/-- eleven inherent blocks on eleven self types, the first `A1<T>`, the eleventh `A<T>` -/
def clashItems : List T := ["A1", "B", "C", "D", "E", "F", "G", "H", "I", "J", "A"].map inhBlock
/-- run the front end and the whole expansion and apply a Boolean test -/
def checkAll (trait_ : Option T) (items : List T) (f : Groups → List (T × List T × Option T) → List T → Bool) : Bool :=
  match parseGroups items with
  | .ok groups =>
      (match expandParts_em trait_ groups, expandAll trait_ groups with
       | some ps, some top => f groups ps top
       | _, _ => false)
  | _ => false
/-- a trait path `_Kita0` as a bound: the user refers to an item of THEIR scope that happens to be called `_Kita0` -/
def userHelperNamedBound : T := traitBound (path [Ex11.seg "_Kita0"])
/-- `impl<T: Dispatch<Group = GroupA> + _Kita0> Kita for T {}` -/
def capturedBlock : T := implOf [tyParam "T" [traitBound (dispatch "GroupA"), userHelperNamedBound]] (Ex11.tyPath [Ex11.seg "T"])
end Ex08

section TopLevelExamples
open Ex08
set_option maxRecDepth 1000000

/-- non-vacuity (trait mode): the README input expands; two top-level items, the trait — the tree the user wrote —
    and the anonymous constant; one family, its helper trait is named `_Kita0`; the scope gains the name `Kita` only -/
example : checkAll (some ExOK.kitaTrait) [Ex11.blockFor "GroupA", Ex11.blockFor "GroupB"] (fun groups ps top =>
    groups.length == 1 && top.length == 2 && top.head? == some ExOK.kitaTrait && isItemTrait_em ExOK.kitaTrait &&
    (partsHelpers_em ps).map traitIdent == ["_Kita0"] && top.flatMap itemBoundNames_em == ["Kita"] &&
    (partsHelperImpls_em ps).length == 2 && (partsMainImpls_em ps).length == 1) = true := by
  with_unfolding_all decide

/-- non-vacuity (inherent mode): two blocks on `Wrapper<T>` expand to one anonymous constant and nothing else; the
    helper trait is named `_Wrapper0`, the side condition of `C08_expandAll_helper_names_inherent_partial` holds -/
example : checkAll none [ExInh.blockW "GroupA", ExInh.blockW "GroupB"] (fun groups ps top =>
    groups.length == 1 && top.length == 1 && top.flatMap itemBoundNames_em == [] &&
    groups.all (fun g => selfName_em g == "Wrapper") &&
    (partsHelpers_em ps).map traitIdent == ["_Wrapper0"]) = true := by
  with_unfolding_all decide

/-- **Counterexample (new finding): helper names can clash in inherent mode.** Different families of an inherent-mode
    invocation may be on different self types, and `format_ident!("_{}{}", ident, idx)` is not injective in the pair
    (identifier, index): with eleven families, the first on `A1<T>` and the eleventh on `A<T>`, the helper traits of
    family 0 and of family 10 are both named `_A10`, inside the same `const _` (rustc: E0428). The input is accepted
    and every generator succeeds. -/
theorem C08_inherent_helper_names_clash_counterexample :
    checkAll none clashItems (fun groups ps _ =>
      groups.length == 11 &&
      ((partsHelpers_em ps).map traitIdent)[0]? == some "_A10" &&
      ((partsHelpers_em ps).map traitIdent)[10]? == some "_A10") = true := by
  with_unfolding_all decide

/-- the arithmetic behind it: `_` ++ `A1` ++ `0` = `_` ++ `A` ++ `10` -/
theorem C08_genIdent_not_injective_in_name : genIdent "A1" 0 = genIdent "A" 10 := by
  with_unfolding_all decide

/-- **Counterexample (finding D11): a user item named like a helper is shadowed inside the constant.** The block
    `impl<T: Dispatch<Group = GroupA> + _Kita0> Kita for T {}` refers to an item `_Kita0` of the user's scope. The
    invocation is accepted and expands; inside the anonymous constant a trait named `_Kita0` is defined (the helper
    trait of family 0), and the user's bound `_Kita0` is copied verbatim into the generics of the first helper impl —
    inside that constant, where the name now resolves to the generated helper trait, not to the user's item. -/
theorem C08_user_item_shadowed_counterexample :
    checkAll (some ExOK.kitaTrait) [capturedBlock, Ex11.blockFor "GroupB"] (fun groups ps top =>
      groups.length == 1 && top.length == 2 &&
      (partsHelpers_em ps).map traitIdent == ["_Kita0"] &&
      (identsOf_inh capturedBlock).contains "_Kita0" &&
      (match (partsHelperImpls_em ps)[0]? with
       | some h => (identsOf_inh (XOK.kid h 3)).contains "_Kita0"
       | none => false)) = true := by
  with_unfolding_all decide
end TopLevelExamples

/-! ## The helper impls never name the helper trait through the user's qualifiers
    (disjoint.rs, /repo commit ccb06e8 "fix: helper traits are named by the last path segment only")

The helper trait `_<Name><idx>` is declared INSIDE the anonymous constant, next to the helper impls; a qualifier the user
wrote on the trait path (`impl<T> self::Kita for T`, `impl<T> ::krate::Kita for T`) or on the self type of an inherent block
(`impl<T> meters::Wrapper<T>`) names a place where no `_<Name><idx>` exists (E0405 before the repair). Now the trait
reference of every helper impl is the single segment, with no leading `::`. -/

/-- **Helper path.** If `helperImpl idx ip idents row member = some h` (either mode: `ip = none` in trait mode,
    `ip = some p₀` the generated self-type path in inherent mode) then, with `p` the source path (`helperSourcePath_hp`: the
    member's trait path, resp. `p₀`) and `x<args>` its LAST segment, the trait path of `h` (`implTraitPath`, and the checker's
    `XOK.traitPathOf`) is EXACTLY `pathNode noLead [one segment]`: no leading `::`, one segment, whose identifier is
    `genIdentStr x idx` = `_<x><idx>` and whose arguments `na` are the printed row followed by `args`
    (`helperSegArgs_hp`). The leading segments and the leading `::` of `p` occur nowhere in it. The executable form of the
    statement, `helperPathUnqualified_hp idx ip member h` (reads the given trees only), holds. No side condition. -/
theorem C08_helper_path_unqualified (idx : Nat) (ip : Option T) (idents : List (BKey × String)) (row : List (Option T))
    (member h : T) (hh : helperImpl idx ip idents row member = some h) :
    ∃ p x args na, helperSourcePath_hp ip member = some p ∧
      lastSegOf p = some (.node "PathSegment" [] [.node "Ident" [x] [], args]) ∧
      helperSegArgs_hp (rowArgs idents row) args = some na ∧
      implTraitPath h = some (pathNode noLead [.node "PathSegment" [] [tIdent (genIdentStr x idx), na]]) ∧
      XOK.traitPathOf h = some (pathNode noLead [.node "PathSegment" [] [tIdent (genIdentStr x idx), na]]) ∧
      helperPathUnqualified_hp idx ip member h = true := by
  obtain ⟨p, x, args, na, h1, h2, h3, h4, h5⟩ := helperImpl_path_hp hh
  exact ⟨p, x, args, na, h1, h2, h3, h4, h5, (helperPathUnqualified_of_hp hh).1⟩

/-- **All helper impls of a family.** Every helper impl `helperImpls idx g` returns has a single-segment trait reference
    without a leading `::` (`pathUnqualified_hp`, executable, reads the helper impl only). No side condition. -/
theorem C08_helper_impls_unqualified (idx : Nat) (g : T × ABG × List Blk) (hs : List T)
    (hh : helperImpls idx g = some hs) : hs.all pathUnqualified_hp = true :=
  helperImpls_unqualified_hp hh

namespace Ex08
open Ex11
/-- `impl<T: Dispatch<Group = g>> [::]s₁::…::sₙ for T {}` (`lead` = `noLead` / `someLead`) -/
def qualBlock (lead : T) (segs : List T) (g : String) : T :=
  .node "ItemImpl" [] [attrs, leaf "None", leaf "None",
    .node "Generics" [] [leaf "Some", .node "List" [] [tyParam "T" [traitBound (dispatch g)]], leaf "Some", leaf "None"],
    .node "Some" [] [.node "Tuple" [] [leaf "None", .node "Path" [] [lead, .node "List" [] segs]]],
    Ex11.tyPath [Ex11.seg "T"], .node "List" [] []]
/-- `impl<T: Dispatch<Group = g>> self::Kita for T {}` -/
def selfKita (g : String) : T := qualBlock noLead [Ex11.seg "self", Ex11.seg "Kita"] g
/-- `impl<T: Dispatch<Group = g>> ::krate::Kita for T {}` -/
def absKita (g : String) : T := qualBlock someLead [Ex11.seg "krate", Ex11.seg "Kita"] g
/-- `_Kita0<g>` as a path -/
def kita0 (g : String) : T :=
  pathNode noLead [.node "PathSegment" [] [tIdent "_Kita0", DI.angle [gaType (Ex11.tyPath [Ex11.seg g])]]]
end Ex08

section UnqualifiedExamples
open Ex08
set_option maxRecDepth 1000000

/-- non-vacuity, the input of the repaired E0405: the members `impl<T: Dispatch<Group = GroupA>> self::Kita for T {}` and the
    same with `GroupB` (trait path with TWO segments) form one family; the generators succeed; the two helper impls implement
    exactly `_Kita0<GroupA>` and `_Kita0<GroupB>` — one segment, no `self::` —; `helperPathUnqualified_hp` holds for every
    (member, helper impl) pair; the MAIN impl keeps the user's path `self::Kita`; `expandOKB` and the item-level checker
    `itemsOK_it` accept -/
example : ExOK.checkFirst [selfKita "GroupA", selfKita "GroupB"] (fun g hs m =>
    g.2.2.length == 2 && hs.length == 2 && expandWF g && wildcardsFixed g && expandOKB g (thetasOf g) hs m &&
    hs.all pathUnqualified_hp &&
    hs.map implTraitPath == [some (kita0 "GroupA"), some (kita0 "GroupB")] &&
    (List.zip (g.2.2.map (·.item)) hs).all (fun mh => helperPathUnqualified_hp 0 none mh.1 mh.2) &&
    g.2.2.map (fun b => (implTraitPath b.item).map (fun p => (pathSegments p).length)) == [some 2, some 2] &&
    itemsOK_it ExOK.kitaTrait 0 g ((helperTraitOfTrait ExOK.kitaTrait 0 1).getD (.node "?" [] [])) hs m &&
    implTraitPath m == some (.node "Path" [] [noLead, .node "List" [] [Ex11.seg "self", Ex11.seg "Kita"]])) = true := by
  with_unfolding_all decide

/-- the same with a leading `::`: `impl<T: Dispatch<Group = g>> ::krate::Kita for T {}`; the helper impls implement `_Kita0<g>`
    (no leading `::`, no `krate::`), the main impl `::krate::Kita` -/
example : ExOK.checkFirst [absKita "GroupA", absKita "GroupB"] (fun g hs m =>
    g.2.2.length == 2 && hs.length == 2 && expandWF g && wildcardsFixed g && expandOKB g (thetasOf g) hs m &&
    hs.all pathUnqualified_hp &&
    hs.map implTraitPath == [some (kita0 "GroupA"), some (kita0 "GroupB")] &&
    (List.zip (g.2.2.map (·.item)) hs).all (fun mh => helperPathUnqualified_hp 0 none mh.1 mh.2) &&
    g.2.2.map (fun b => (implTraitPath b.item).map pathLead) == [some someLead, some someLead] &&
    implTraitPath m == some (.node "Path" [] [someLead, .node "List" [] [Ex11.seg "krate", Ex11.seg "Kita"]])) = true := by
  with_unfolding_all decide

/-- `helperImpl` directly, on one member with a qualified path (no keys, empty row, family index 3): the hypothesis of
    `C08_helper_path_unqualified` is satisfiable and its conclusion is what it says -/
example :
    (helperImpl 3 none [] [] (absKita "GroupA")).map implTraitPath =
      some (some (pathNode noLead [.node "PathSegment" [] [tIdent "_Kita3", DI.angle []]])) ∧
    (helperImpl 3 none [] [] (absKita "GroupA")).map (helperPathUnqualified_hp 3 none (absKita "GroupA")) = some true := by
  with_unfolding_all decide

/-- the checker is not vacuous: it rejects the helper impl the generator produced BEFORE the repair
    (`impl<T: …> self::_Kita0<GroupA> for T`) -/
example :
    let old := qualBlock noLead [Ex11.seg "self",
      .node "PathSegment" [] [tIdent "_Kita0", DI.angle [gaType (Ex11.tyPath [Ex11.seg "GroupA"])]]] "GroupA"
    pathUnqualified_hp old = false ∧ helperPathUnqualified_hp 0 none (selfKita "GroupA") old = false := by
  with_unfolding_all decide

end UnqualifiedExamples

end DI
