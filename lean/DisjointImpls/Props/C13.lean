import DisjointImpls.Canon
namespace DI
theorem C13_placeholder : (1 : Nat) = 1 := rfl
end DI
