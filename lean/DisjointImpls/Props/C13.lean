/-
  C13 — parameter canonicalisation (`param.rs`, model `Canon.lean`): property theorems.
  Proofs are in `Lemmas/CanonLemmas.lean` (which uses `Nat.repr_injective` from Std through `Lemmas/Names.lean`).

  Indexer: every traversal (`ixT`, `ixL`, `ixRound`, `ixLoop`, `indexImpl`) is a composition of the primitive
  steps `ltIdent` / `tyIdent` / `coIdent` (`IxRel`, `ixT_rel` …), so anything the primitive steps preserve is
  preserved. `IxInv s`: the indices handed out are exactly `0 … next-1`, each once, across the three kinds
  (`IdxInv`), and per kind no name occurs twice among the indexed and the not yet indexed parameters.
  Resolver: `rsT` rewrites lifetimes and the first segment of type / expression paths only.
  Idempotence (`C13_canon_idem`): `canon (canon x) = canon x` under the executable condition `canonWF x`
  (`CanonWF.lean`; proofs in `Lemmas/CanonIdem.lean`): indexing commutes with the resolver when the names of the
  indexer state are renamed along (`C13_index_commutes`, `C13_indexImpl_commutes`), so the renaming computed for
  `canon x` is the identity and `canon x` is a fixed point by `C13_canon_fixed`. Every clause of `canonWF` is needed
  (`C13_canonWF_clauses_needed`).
  Declaration order (`C13_declOrder_*`, proofs in `Lemmas/CanonDeclOrder.lean`): permuting the generic parameter list of
  `impl<…>` changes neither the numbering nor anything of the canonical item except the order of the declarations,
  provided the declared type / const names are distinct (`C13_declOrder_counterexample`).
  Alpha-invariance (`C13_alpha_*`, proofs in `Lemmas/CanonAlpha.lean`): consistently respelling the declared parameters
  (`alphaRename π`) does not change the canonical item, under the executable conditions `canonWF item` and
  `alphaOK π item`; the conditions that matter have counterexamples (`C13_alpha_*_counterexample*`). The canonical
  *header* is invariant also when parameters that occur nowhere are respelled (`C13_alpha_header_any`, by the completeness
  of the indexer `C13_indexer_complete`; proofs in `Lemmas/CanonAlphaHeader.lean`). The executable definitions
  (`alphaRename`, `alphaOK`, `setParams`, `hdrVis`, …) are in `CanonAlphaDefs.lean` (core only).
  Canonicalisation IS a renaming (`C13_canon_is_renaming*`, proofs in `Lemmas/CanonIsRenaming.lean`, executable definitions
  in `Lemmas/CanonIsRenamingDefs.lean`, core only): `canon item` is the textual renaming of `item` by the computed
  renaming, followed by the one presentation change of the resolver (`T::A` is printed `<_ŠČn>::A`).
  Round trip and converse of alpha-invariance (`C13_round_trip`, `C13_same_canon_only_if_renaming`, proofs in
  `Lemmas/CanonRoundTrip.lean`, executable definitions in `Lemmas/CanonRoundTripDefs.lean`, core only): the block is
  recovered from its canonical form by the inverse renaming, and two blocks with the same canonical form are textual
  renamings of each other, under the executable condition `roundTripOK_rt`.
-/
import DisjointImpls.Lemmas.CanonLemmas
import DisjointImpls.Lemmas.CanonIdem
import DisjointImpls.Lemmas.CanonDeclOrder
import DisjointImpls.Lemmas.CanonAlpha
import DisjointImpls.Lemmas.CanonAlphaHeader
import DisjointImpls.Lemmas.CanonIsRenaming
import DisjointImpls.Lemmas.CanonRoundTrip
import DisjointImpls.Lemmas.CanonHeaderConverse
import DisjointImpls.Group
namespace DI

/-! ## The indexer -/

theorem C13_ix_preserves (s : IxState) (t : T) : IxInv s → IxInv (ixT s t) := ixT_rel ixInv_rel t s
theorem C13_ixL_preserves (s : IxState) (ts : List T) : IxInv s → IxInv (ixL s ts) :=
  ixL_rel ixInv_rel ts (fun t _ => ixT_rel ixInv_rel t) s
theorem C13_ixRound_preserves (s : IxState) (g : T) : IxInv s → IxInv (ixRound s g) := ixRound_rel ixInv_rel s g
theorem C13_ixLoop_preserves (fuel prev : Nat) (s : IxState) (g : T) : IxInv s → IxInv (ixLoop fuel prev s g) :=
  ixLoop_rel ixInv_rel fuel prev s g

/-- the declared parameter names of an impl, per kind (what the indexer starts from) -/
def declaredLt (item : T) : List String := (ixInit item).unLt
def declaredTy (item : T) : List String := (ixInit item).unTy
def declaredCo (item : T) : List String := (ixInit item).unCo

/-- the invariant holds after indexing an impl whose declared names are distinct per kind -/
theorem C13_indexImpl_inv (item : T) (hlt : (declaredLt item).Nodup) (hty : (declaredTy item).Nodup)
    (hco : (declaredCo item).Nodup) : IxInv (indexImpl item) :=
  indexImpl_inv item hlt hty hco

/-- the indices are exactly `0 … next-1`, each used once — no hypothesis needed -/
theorem C13_indices_exact (item : T) :
    (indexImpl item).idxs.Nodup ∧ (∀ i, i ∈ (indexImpl item).idxs ↔ i < (indexImpl item).next) ∧
    (indexImpl item).idxs.length = (indexImpl item).next :=
  indexImpl_idxInv item

/-- distinct parameters receive distinct canonical names, and the names used are exactly
    `_ŠČ0 … _ŠČ(next-1)`: the new names are the images of the indices under the injective `genIndexedIdent` -/
theorem C13_injective (item : T) :
    let s := indexImpl item
    let r := s.renaming
    ((r.lt ++ r.ty ++ r.co).map Prod.snd).Nodup ∧
    (∀ x, x ∈ (r.lt ++ r.ty ++ r.co).map Prod.snd ↔ ∃ i, i < s.next ∧ x = genIndexedIdent i) ∧
    (∀ i j, genIndexedIdent i = genIndexedIdent j → i = j) := by
  intro s r
  obtain ⟨h1, h2, _⟩ := indexImpl_idxInv item
  have hr : (r.lt ++ r.ty ++ r.co).map Prod.snd = s.idxs.map genIndexedIdent := renaming_new_names s
  refine ⟨?_, ?_, fun i j => genIndexedIdent_inj⟩
  · rw [hr]
    exact List.Pairwise.map genIndexedIdent (fun a b hab e => hab (genIndexedIdent_inj e)) h1
  · intro x
    rw [hr, List.mem_map]
    constructor
    · rintro ⟨i, hi, rfl⟩; exact ⟨i, (h2 i).1 hi, rfl⟩
    · rintro ⟨i, hi, rfl⟩; exact ⟨i, (h2 i).2 hi, rfl⟩

/-- only declared parameters are ever indexed: per kind, the indexed names together with the not yet indexed
    ones are a rearrangement of the declared names (so nothing is invented, nothing is lost) -/
theorem C13_indexed_are_declared (item : T) :
    let s := indexImpl item
    (s.ixLt.map Prod.fst ++ s.unLt).Perm (declaredLt item) ∧
    (s.ixTy.map Prod.fst ++ s.unTy).Perm (declaredTy item) ∧
    (s.ixCo.map Prod.fst ++ s.unCo).Perm (declaredCo item) := by
  have := indexImpl_rel sameNames_rel item
  simpa [SameNames, IxState.namesLt, IxState.namesTy, IxState.namesCo, ixInit, declaredLt, declaredTy,
    declaredCo] using this

/-- … and each at most once: with distinct declared names, no name is indexed twice and no indexed name is
    still waiting -/
theorem C13_indexed_once (item : T) (hty : (declaredTy item).Nodup) :
    ((indexImpl item).ixTy.map Prod.fst).Nodup ∧
    (∀ x ∈ (indexImpl item).ixTy.map Prod.fst, x ∈ declaredTy item ∧ x ∉ (indexImpl item).unTy) := by
  have hp := (C13_indexed_are_declared item).2.1
  have hn := hp.nodup_iff.2 hty
  rw [List.nodup_append] at hn
  refine ⟨hn.1, fun x hx => ⟨hp.mem_iff.1 (List.mem_append.2 (Or.inl hx)), fun hu => hn.2.2 x hx x hu rfl⟩⟩

/-! ## The resolver -/

/-- node kinds other than `Type::Path` / `Expr::Path` are kept, the node is rebuilt around its rewritten
    children (`Ign`, `Eq` leaves and well-formed `Lifetime` nodes have their own statements below) -/
theorem C13_rs_kind_preserved (r : Renaming) (k : String) (as : List String) (ks : List T)
    (h1 : k ≠ "Ign") (h2 : k ≠ "Eq") (h3 : k ≠ "Lifetime") (h4 : k ≠ "Type::Path") (h5 : k ≠ "Expr::Path") :
    rsT r (.node k as ks) = .node k as (rsL r ks) :=
  rsT_other r as ks h1 h2 h3 h4 h5

/-- ignored children and verbatim leaves are never touched -/
theorem C13_rs_ign (r : Renaming) (as : List String) (ks : List T) :
    rsT r (.node "Ign" as ks) = .node "Ign" as ks ∧ rsT r (.node "Eq" as ks) = .node "Eq" as ks :=
  ⟨rsT_ign r as ks, rsT_eq r as ks⟩

/-- an identifier leaf (trait names in bounds, path tails, fields, methods, declared names) is never rewritten
    by the resolver -/
theorem C13_rs_ident (r : Renaming) (x : String) : rsT r (.node "Ident" [x] []) = .node "Ident" [x] [] := by
  rw [rsT_other r _ _ (by decide) (by decide) (by decide) (by decide) (by decide), rsL]

/-- lifetimes are renamed by the lifetime map only -/
theorem C13_rs_lifetime (r : Renaming) (as : List String) (x : String) :
    rsT r (.node "Lifetime" as [.node "Ident" [x] []]) =
      .node "Lifetime" as [.node "Ident" [(rlookup r.lt x).getD x] []] := rsT_lifetime r as x

/-- with the empty renaming nothing changes -/
theorem C13_rs_empty (t : T) : rsT ⟨[], [], []⟩ t = t := rsT_empty t

/-- the renaming is simultaneous (capture-free): a parameter occurrence is looked up once in the *old* names;
    the name produced is not looked up again -/
theorem C13_rs_simultaneous (r : Renaming) (n : String) :
    rsT r (.tparam n) = .tparam ((rlookup r.ty n).getD n) ∧
    rsT r (.eparam n) = .eparam (((rlookup r.ty n).or (rlookup r.co n)).getD n) :=
  ⟨rsT_tparam r n, rsT_eparam r n⟩

/-- an identity renaming changes nothing on a tree without a path that starts with a renamed name -/
theorem C13_rs_identity (r : Renaming) (hid : r.isId = true) (t : T) (hs : rsStable r t = true) : rsT r t = t :=
  rsT_id r hid t hs

/-- idempotence on canonical input: if the declared names are already the canonical ones in first-occurrence
    order (the computed renaming is the identity) and no path starts with one of them, nothing changes -/
theorem C13_canon_fixed (item : T) (h : alreadyCanonical item = true) : canon item = item := canon_fixed item h


/-! ## Idempotence -/

/-- the commuting lemma: indexing the rewritten tree from the state with renamed names is indexing the tree and
    renaming the names of the resulting state. `Stat c`: only declared names are renamed, the new spelling is
    injective on the declared names across the kinds, no name is declared in two kinds; `Un c s`: the parameters
    still waiting in `s` are declared ones; `rsOK c t`: the executable condition on the tree (`CanonWF.lean`) -/
theorem C13_index_commutes (c : CCtx) (st : Stat c) (t : T) (hok : rsOK c t = true) (s : IxState) (hu : Un c s) :
    ixT (mapS c.r s) (rsT c.r t) = mapS c.r (ixT s t) := ixT_comm c st t hok s hu

/-- `Stat` holds for the renaming the indexer computes, under the executable conditions -/
theorem C13_canonWF_stat (item : T) (hd : namesDistinct (canonCtx item) = true) (hf : deadFresh item = true) :
    Stat (canonCtx item) := canon_stat item hd hf

/-- … through the rounds over the bounds of the indexed parameters and the where-clause as well: indexing the
    canonicalised impl gives the state of the first indexing with the names replaced by their canonical names
    (same indices, same order) -/
theorem C13_indexImpl_commutes (item : T) (h : canonWF item = true) :
    indexImpl (canon item) = mapS (indexImpl item).renaming (indexImpl item) := canonWF_indexImpl_comm item h

/-- the canonicalised impl satisfies the side condition of `C13_canon_fixed` -/
theorem C13_canon_is_canonical (item : T) (h : canonWF item = true) : alreadyCanonical (canon item) = true :=
  canon_alreadyCanonical item h

/-- **idempotence of canonicalisation** -/
theorem C13_canon_idem (item : T) (h : canonWF item = true) : canon (canon item) = canon item := canon_idem item h

/-! ## Closed examples -/

namespace Ex13
def leaf (s : String) : T := .node s [] []
def attrs : T := .node "Ign" [] [.node "List" [] []]
def seg (x : String) : T := .node "PathSegment" [] [.node "Ident" [x] [], leaf "PathArguments::None"]
def path (segs : List T) : T := .node "Path" [] [.node "IgnL" [] [leaf "None"], .node "List" [] segs]
def tyPath (segs : List T) : T := .node "Type::Path" [] [leaf "None", path segs]
def tyParam (x : String) (bounds : List T) : T :=
  .node "GenericParam::Type" [] [.node "TypeParam" [] [attrs, .node "Ident" [x] [], leaf "None",
    .node "List" [] bounds, leaf "None", leaf "None"]]
def traitBound (p : T) : T :=
  .node "TypeParamBound::Trait" [] [.node "TraitBound" [] [leaf "None", leaf "TraitBoundModifier::None", leaf "None", p]]
/-- `name<arg>` as a path -/
def trWith (name : String) (arg : T) : T :=
  path [.node "PathSegment" [] [.node "Ident" [name] [], .node "PathArguments::AngleBracketed" [] [.node "Ign" [] [leaf "None"],
    .node "List" [] [.node "GenericArgument::Type" [] [arg]]]]]
def implOf (params : List T) (self : T) : T :=
  .node "ItemImpl" [] [attrs, leaf "None", leaf "None",
    .node "Generics" [] [leaf "Some", .node "List" [] params, leaf "Some", leaf "None"],
    .node "Some" [] [.node "Tuple" [] [leaf "None", path [seg "Kita"]]], self, .node "List" [] []]
def tuple (ts : List T) : T := .node "Type::Tuple" [] [.node "List" [] ts]

/-- `impl<_ŠČ1: Tr<_ŠČ0>, _ŠČ0> Kita for (_ŠČ1, _ŠČ0) {}`: the two reserved names in the "wrong" order -/
def swapped : T :=
  implOf [tyParam "_ŠČ1" [traitBound (trWith "Tr" (.tparam "_ŠČ0"))], tyParam "_ŠČ0" []] (tuple [.tparam "_ŠČ1", .tparam "_ŠČ0"])
def swappedCanon : T :=
  implOf [tyParam "_ŠČ0" [traitBound (trWith "Tr" (.tparam "_ŠČ1"))], tyParam "_ŠČ1" []] (tuple [.tparam "_ŠČ0", .tparam "_ŠČ1"])

/-- `impl<U, T: Tr<U>> Kita for (T, T::Target) {}`: user names, `U` reached only through the bound of `T`,
    a multi-segment path -/
def named : T :=
  implOf [tyParam "U" [], tyParam "T" [traitBound (trWith "Tr" (tyPath [seg "U"]))]]
    (tuple [tyPath [seg "T"], tyPath [seg "T", seg "Target"]])
def namedCanon : T :=
  implOf [tyParam "_ŠČ1" [], tyParam "_ŠČ0" [traitBound (trWith "Tr" (.tparam "_ŠČ1"))]]
    (tuple [.tparam "_ŠČ0", .node "Type::Path" [] [.node "Some" [] [.node "QSelf" [] [.tparam "_ŠČ0", .node "Atom" ["0"] [], leaf "None"]],
      .node "Path" [] [.node "IgnL" [] [.node "Some" ["PathSep"] []], .node "List" [] [seg "Target"]]]])
def lifetime (x : String) : T := .node "Lifetime" [] [.node "Ident" [x] []]
def ltParam (x : String) : T :=
  .node "GenericParam::Lifetime" [] [.node "LifetimeParam" [] [attrs, lifetime x, leaf "None", .node "List" [] []]]
def coParam (x : String) : T :=
  .node "GenericParam::Const" [] [.node "ConstParam" [] [attrs, .node "Ident" [x] [], tyPath [seg "usize"], leaf "None", leaf "None"]]
def exprPath (segs : List T) : T := .node "Expr::Path" [] [attrs, leaf "None", path segs]
def array (elem len : T) : T := .node "Type::Array" [] [elem, len]
def wherePred (bounded : T) (bounds : List T) : T :=
  .node "WherePredicate::Type" [] [.node "PredicateType" [] [leaf "None", bounded, .node "List" [] bounds]]
/-- like `implOf`, with trait path and where-clause -/
def implOfW (params : List T) (tr : T) (self : T) (preds : List T) : T :=
  .node "ItemImpl" [] [attrs, leaf "None", leaf "None",
    .node "Generics" [] [leaf "Some", .node "List" [] params, leaf "Some",
      .node "Some" [] [.node "WhereClause" [] [.node "List" [] preds]]],
    .node "Some" [] [.node "Tuple" [] [leaf "None", tr]], self, .node "List" [] []]
def kitaLt (x : String) : T :=
  path [.node "PathSegment" [] [.node "Ident" ["Kita"] [], .node "PathArguments::AngleBracketed" [] [.node "Ign" [] [leaf "None"],
    .node "List" [] [.node "GenericArgument::Lifetime" [] [lifetime x]]]]]
def qselfTy (self : T) (segs : List T) : T :=
  .node "Type::Path" [] [.node "Some" [] [.node "QSelf" [] [self, .node "Atom" ["1"] [], leaf "Some"]], path segs]

/-- `impl<'a, T: Tr<U>, U, const N: usize> Kita<'a> for [T; N] where U: Tr<T::Target> {}` -/
def mixed : T :=
  implOfW [ltParam "a", tyParam "T" [traitBound (trWith "Tr" (tyPath [seg "U"]))], tyParam "U" [], coParam "N"]
    (kitaLt "a") (array (tyPath [seg "T"]) (exprPath [seg "N"]))
    [wherePred (tyPath [seg "U"]) [traitBound (trWith "Tr" (tyPath [seg "T", seg "Target"]))]]

/-- `impl<_ŠČ0: Tr<U>, T, U> Kita for T {}` -/
def cxDead : T := implOf [tyParam "_ŠČ0" [traitBound (trWith "Tr" (tyPath [seg "U"]))], tyParam "T" [], tyParam "U" []] (tyPath [seg "T"])
/-- `impl<'a, a: Tr<U>, U> Kita for a {}`: a lifetime and a type parameter of one spelling (legal) -/
def ltTySame : T := implOf [ltParam "a", tyParam "a" [traitBound (trWith "Tr" (tyPath [seg "U"]))], tyParam "U" []] (tyPath [seg "a"])
/-- `impl<N, const N: usize, U> Kita for ([u8; N], [u8; N], U) {}`: a type and a const parameter of one spelling
    (E0403 in Rust) -/
def cxNames : T := implOf [tyParam "N" [], coParam "N", tyParam "U" []]
  (tuple [array (tyPath [seg "u8"]) (exprPath [seg "N"]), array (tyPath [seg "u8"]) (exprPath [seg "N"]), tyPath [seg "U"]])
/-- `impl<T, U> Kita for (_ŠČ1, T, U) {}` -/
def cxCapture : T := implOf [tyParam "T" [], tyParam "U" []] (tuple [.tparam "_ŠČ1", tyPath [seg "T"], tyPath [seg "U"]])
/-- `impl<T, U> Kita for (T::U,) {}` -/
def cxSecond : T := implOf [tyParam "T" [], tyParam "U" []] (tuple [tyPath [seg "T", seg "U"]])
/-- `impl<T, Clone> Kita for <T as Clone>::Out {}` -/
def cxQself : T := implOf [tyParam "T" [], tyParam "Clone" []] (qselfTy (tyPath [seg "T"]) [seg "Clone", seg "Out"])
/-- `impl<const N: usize, const M: usize> Kita for ([u8; N::X], [u8; M]) {}` -/
def cxConst : T := implOf [coParam "N", coParam "M"]
  (tuple [array (tyPath [seg "u8"]) (exprPath [seg "N", seg "X"]), array (tyPath [seg "u8"]) (exprPath [seg "M"])])
end Ex13

section Examples
open Ex13
set_option maxRecDepth 100000

/-- swapping two reserved names works: header, bound and declarations are renamed consistently in one pass -/
theorem C13_swap_example :
    (indexImpl swapped).renaming = ⟨[], [("_ŠČ1", "_ŠČ0"), ("_ŠČ0", "_ŠČ1")], []⟩ ∧ canon swapped = swappedCanon := by
  with_unfolding_all decide

/-- user names; a parameter first seen in a bound is numbered after those of the header; `T::Target` becomes
    `<_ŠČ0>::Target` -/
theorem C13_named_example :
    (indexImpl named).renaming = ⟨[], [("T", "_ŠČ0"), ("U", "_ŠČ1")], []⟩ ∧ canon named = namedCanon := by
  with_unfolding_all decide

/-- idempotence on the examples, and non-vacuity of `C13_canon_fixed` -/
theorem C13_idempotent_examples :
    canon (canon swapped) = canon swapped ∧ canon (canon named) = canon named ∧
    alreadyCanonical (canon swapped) = true ∧ alreadyCanonical (canon named) = true ∧
    alreadyCanonical swapped = false := by
  with_unfolding_all decide


/-- non-vacuity of `C13_canon_idem`: user names, reserved names in the wrong order, and a block with a lifetime, a
    const parameter, a where-clause and a multi-segment path -/
theorem C13_canonWF_examples :
    canonWF named = true ∧ canonWF swapped = true ∧ canonWF mixed = true ∧
    (indexImpl mixed).renaming = ⟨[("a", "_ŠČ0")], [("T", "_ŠČ1"), ("U", "_ŠČ3")], [("N", "_ŠČ2")]⟩ ∧
    canonWF (canon mixed) = true := by
  with_unfolding_all decide

/-- a lifetime and a type parameter may share their spelling (`'a` next to `a`): the declaration of the type
    parameter is found (its bound is walked, `U` is numbered), and the block satisfies `canonWF` -/
theorem C13_lifetime_and_type_of_one_name :
    (indexImpl ltTySame).renaming = ⟨[], [("a", "_ŠČ0"), ("U", "_ŠČ1")], []⟩ ∧ canonWF ltTySame = true ∧
    canon (canon ltTySame) = canon ltTySame := by
  with_unfolding_all decide

/-- every clause of `canonWF` is needed: six blocks, each violating exactly one clause (`deadFresh`,
    `namesDistinct`, and four ways of violating `rsOK`: a free type spelled like a name handed out, a second path
    segment spelled like a parameter, a qualified path whose trait is spelled like a parameter — the open finding
    F-C13-qualified-path-trait-capture —, a const parameter at the head of a longer path), and canonicalising twice
    changes each of them. (`cxNames` — a type and a const parameter of one name — is rejected by rustc, E0403; for
    the other half of `namesDistinct`, distinct lifetimes, no block that canonicalises differently the second time is
    known: the proof uses it to read the identity renaming off the canonical block.) -/
theorem C13_canonWF_clauses_needed :
    (deadFresh cxDead = false ∧ canon (canon cxDead) ≠ canon cxDead) ∧
    (namesDistinct (canonCtx cxNames) = false ∧ canon (canon cxNames) ≠ canon cxNames) ∧
    (rsOK (canonCtx cxCapture) cxCapture = false ∧ canon (canon cxCapture) ≠ canon cxCapture) ∧
    (rsOK (canonCtx cxSecond) cxSecond = false ∧ canon (canon cxSecond) ≠ canon cxSecond) ∧
    (rsOK (canonCtx cxQself) cxQself = false ∧ canon (canon cxQself) ≠ canon cxQself) ∧
    (rsOK (canonCtx cxConst) cxConst = false ∧ canon (canon cxConst) ≠ canon cxConst) := by
  with_unfolding_all decide

/-- … and only that clause -/
theorem C13_canonWF_one_clause_each :
    [cxDead, cxNames, cxCapture, cxSecond, cxQself, cxConst].map
      (fun x => (implDeclsOK x, namesDistinct (canonCtx x), deadFresh x, rsOK (canonCtx x) x)) =
    [(true, true, false, true), (true, false, true, true), (true, true, true, false), (true, true, true, false),
     (true, true, true, false), (true, true, true, false)] := by
  with_unfolding_all decide

/-- the side condition of `C13_rs_identity` is needed: a multi-segment path is rebuilt as `<T>::A` even by an
    identity renaming -/
theorem C13_rs_identity_counterexample :
    let r : Renaming := ⟨[], [("_ŠČ0", "_ŠČ0")], []⟩
    let t : T := tyPath [seg "_ŠČ0", seg "Target"]
    r.isId = true ∧ rsStable r t = false ∧ rsT r t ≠ t := by
  with_unfolding_all decide

/-- the declared names of the examples are distinct (hypothesis of `C13_indexImpl_inv`) -/
example : (declaredTy named).Nodup ∧ declaredTy named = ["U", "T"] ∧ (declaredLt named).Nodup ∧ (declaredCo named).Nodup := by
  with_unfolding_all decide
end Examples

/-! ## Declaration order

`setParams ps' item` is `item` with the list of generic parameters in `impl<…>` replaced by `ps'`; `implParams item` is
that list. Side conditions (both executable, both part of `canonWF`): `implDeclsOK item` (the parameter list has the
shape the decoder produces) and `namesDistinct (canonCtx item)` (of which only "the declared type and const names are
pairwise distinct" is used: `paramNode` looks a declaration up by name and takes the first one). -/

/-- **the numbering does not depend on the declaration order**: the indexer computes the same renaming for an impl and
    for the impl with its generic parameter list permuted -/
theorem C13_declOrder_renaming (item : T) (ps' : List T) (hdecl : implDeclsOK item = true)
    (hd : namesDistinct (canonCtx item) = true) (hp : ps'.Perm (implParams item)) :
    (indexImpl (setParams ps' item)).renaming = (indexImpl item).renaming :=
  (declOrder_permS item ps' hdecl hd hp).renaming

/-- … the whole final state of the indexer is the same, except for the order of the parameters that were never reached -/
theorem C13_declOrder_state (item : T) (ps' : List T) (hdecl : implDeclsOK item = true)
    (hd : namesDistinct (canonCtx item) = true) (hp : ps'.Perm (implParams item)) :
    PermS (indexImpl (setParams ps' item)) (indexImpl item) :=
  declOrder_permS item ps' hdecl hd hp

/-- **canonicalisation commutes with permuting the declarations**: the canonical form of the permuted impl is the
    canonical form of the impl with its (renamed) parameter list permuted the same way (`declF r` is what
    canonicalisation does to one declaration); everything else is identical -/
theorem C13_declOrder_canon (item : T) (ps' : List T) (hdecl : implDeclsOK item = true)
    (hd : namesDistinct (canonCtx item) = true) (hp : ps'.Perm (implParams item)) :
    canon (setParams ps' item) = setParams (ps'.map (declF (indexImpl item).renaming)) (canon item) ∧
    (ps'.map (declF (indexImpl item).renaming)).Perm (implParams (canon item)) := by
  obtain ⟨h1, h2⟩ := declOrder_canon item ps' hdecl hd hp
  exact ⟨h1, h2 ▸ hp.map _⟩

/-- in particular the canonical header (group id: trait path and self type), the trait, the self type, the items and the
    where-clause are the same -/
theorem C13_declOrder_header (item : T) (ps' : List T) (hdecl : implDeclsOK item = true)
    (hd : namesDistinct (canonCtx item) = true) (hp : ps'.Perm (implParams item)) :
    groupIdOf (canon (setParams ps' item)) = groupIdOf (canon item) ∧
    implTrait (canon (setParams ps' item)) = implTrait (canon item) ∧
    implSelfTy (canon (setParams ps' item)) = implSelfTy (canon item) ∧
    implItems (canon (setParams ps' item)) = implItems (canon item) ∧
    genericsWhere ((implGenerics (canon (setParams ps' item))).getD (.node "?" [] [])) =
      genericsWhere ((implGenerics (canon item)).getD (.node "?" [] [])) := by
  rw [(declOrder_canon item ps' hdecl hd hp).1]
  exact ⟨mkHdr_setParams _ _, implTrait_setParams _ _, implSelfTy_setParams _ _, implItems_setParams _ _,
    genericsWhere_setParams _ _⟩

namespace Ex13
/-- `impl<T: Tr<U>, U> Kita for (T, T::Target) {}`: `named` with the declarations swapped -/
def namedSwParams : List T := [tyParam "T" [traitBound (trWith "Tr" (tyPath [seg "U"]))], tyParam "U" []]
/-- `mixed` with its four declarations in another order: `impl<const N: usize, U, 'a, T: Tr<U>> …` -/
def mixedPermParams : List T := [coParam "N", tyParam "U" [], ltParam "a", tyParam "T" [traitBound (trWith "Tr" (tyPath [seg "U"]))]]
/-- `impl<T: Tr<U>, T: Tr<V>, U, V> Kita for T {}` (E0403 in Rust): two declarations of one name -/
def dupDecl : T := implOf [tyParam "T" [traitBound (trWith "Tr" (tyPath [seg "U"]))],
  tyParam "T" [traitBound (trWith "Tr" (tyPath [seg "V"]))], tyParam "U" [], tyParam "V" []] (tyPath [seg "T"])
def dupDeclParams : List T := [tyParam "T" [traitBound (trWith "Tr" (tyPath [seg "V"]))],
  tyParam "T" [traitBound (trWith "Tr" (tyPath [seg "U"]))], tyParam "U" [], tyParam "V" []]
end Ex13

section OrderExamples
open Ex13
set_option maxRecDepth 100000

/-- non-vacuity of the `C13_declOrder_*` theorems: `impl<U, T: Tr<U>>` against `impl<T: Tr<U>, U>`, and the block with a
    lifetime, two type parameters, a const parameter and a where-clause against a rearrangement of its declarations -/
theorem C13_declOrder_examples :
    (implDeclsOK named = true ∧ namesDistinct (canonCtx named) = true ∧ namedSwParams.Perm (implParams named) ∧
      setParams namedSwParams named ≠ named ∧
      canon (setParams namedSwParams named) ≠ canon named ∧
      groupIdOf (canon (setParams namedSwParams named)) = groupIdOf (canon named)) ∧
    (implDeclsOK mixed = true ∧ namesDistinct (canonCtx mixed) = true ∧ mixedPermParams.Perm (implParams mixed) ∧
      setParams mixedPermParams mixed ≠ mixed ∧
      (indexImpl (setParams mixedPermParams mixed)).renaming = ⟨[("a", "_ŠČ0")], [("T", "_ŠČ1"), ("U", "_ŠČ3")], [("N", "_ŠČ2")]⟩) := by
  refine ⟨⟨?_, ?_, ?_, ?_, ?_, ?_⟩, ?_, ?_, ?_, ?_, ?_⟩
  · with_unfolding_all decide
  · with_unfolding_all decide
  · exact List.Perm.swap _ _ _
  · with_unfolding_all decide
  · with_unfolding_all decide
  · with_unfolding_all decide
  · with_unfolding_all decide
  · with_unfolding_all decide
  · show [coParam "N", tyParam "U" [], ltParam "a", tyParam "T" [traitBound (trWith "Tr" (tyPath [seg "U"]))]].Perm
      [ltParam "a", tyParam "T" [traitBound (trWith "Tr" (tyPath [seg "U"]))], tyParam "U" [], coParam "N"]
    refine List.Perm.trans ?_ (List.perm_middle (l₁ := [ltParam "a", tyParam "T" _, tyParam "U" []]) (l₂ := [])).symm
    refine List.Perm.cons _ ?_
    refine List.Perm.trans ?_ (List.perm_middle (l₁ := [ltParam "a", tyParam "T" _]) (l₂ := [])).symm
    exact List.Perm.cons _ (List.Perm.refl _)
  · with_unfolding_all decide
  · with_unfolding_all decide

/-- the distinctness of the declared names is needed: with two declarations of one name (rejected by rustc, E0403) the
    bounds of the first one are walked, so swapping them changes the numbering and the canonical header stays but the
    renaming differs -/
theorem C13_declOrder_counterexample :
    implDeclsOK dupDecl = true ∧ namesDistinct (canonCtx dupDecl) = false ∧ dupDeclParams.Perm (implParams dupDecl) ∧
    (indexImpl (setParams dupDeclParams dupDecl)).renaming ≠ (indexImpl dupDecl).renaming := by
  refine ⟨?_, ?_, List.Perm.swap _ _ _, ?_⟩ <;> with_unfolding_all decide
end OrderExamples

/-! ## Alpha-invariance

`alphaRename π item` (`Lemmas/CanonAlpha.lean`) is the user-level consistent renaming of the declared generic parameters
by the per-kind map `π` (lifetimes / types / consts): the declarations in `impl<…>`, every lifetime, every lone parameter
path, and the identifier of the first segment of every longer type or expression path (`T::Assoc` becomes `T'::Assoc`;
the resolver would write `<T'>::Assoc`). Ignored children (attributes …) and verbatim leaves are kept, nothing else
changes. The renaming never converts between the two spellings of a lone path (`tparam` / `eparam` for reserved
identifiers `_ŠČ…`, `Type::Path` / `Expr::Path` for ordinary ones), so it is the textual renaming exactly for maps that
relate reserved names to reserved names and ordinary names to ordinary names (`formOK π`, executable); the theorems hold
for every `π` on the tree level.

Executable side condition `alphaOK π item`:
* `domOK`     only declared parameters are respelled (per kind);
* `injOK`     the new spellings of the declared parameters are pairwise distinct per name space (lifetimes / types and
              consts together) — a parameter that is not respelled counts with its own spelling, so a new name does not
              clash with another declared name (swaps are fine);
* `deadFixed` a declared parameter the indexer never reaches is not respelled: it keeps its spelling in the canonical
              form (finding D21), so respelling it shows (`C13_alpha_dead_counterexample`);
* `alOK`      no capture: an identifier in parameter position that is not a declared parameter is not spelled like
              the new spelling of a declared one.
From `canonWF item` the theorems use `implDeclsOK`, `namesDistinct` and — of `rsOK` — only "an expression path whose
first segment is a const parameter is the bare identifier" (`C13_alpha_const_counterexample`). -/

/-- indexing the respelled impl gives the state of the original indexing with the names respelled: same indices, same
    order (`mapS π s` respells the names of `s`) -/
theorem C13_alpha_index (π : Renaming) (item : T) (hdecl : implDeclsOK item = true)
    (hd : namesDistinct (canonCtx item) = true) (hal : alphaOK π item = true) :
    indexImpl (alphaRename π item) = mapS π (indexImpl item) :=
  alpha_indexImpl π item hdecl hd hal

/-- resolving a respelled tree with a renaming that sends the new spellings to the canonical names is resolving the tree
    (`Comp`: what is needed of the two renamings; `alOK`: no capture; `rsOK cc t`: used for const-headed expression
    paths only) -/
theorem C13_alpha_resolve (c cc : CCtx) (r' : Renaming) (cp : Comp c cc.r r') (t : T) (h1 : alOK c t = true)
    (h2 : rsOK cc t = true) : rsT r' (arT c.r t) = rsT cc.r t :=
  rsT_arT c cc r' cp t h1 h2

/-- **alpha-invariance of canonicalisation**, with the pieces of `canonWF` that are used -/
theorem C13_alpha_invariance_of (π : Renaming) (item : T) (hdecl : implDeclsOK item = true)
    (hd : namesDistinct (canonCtx item) = true) (hrs : rsOK (canonCtx item) item = true)
    (hal : alphaOK π item = true) : canon (alphaRename π item) = canon item :=
  canon_alpha π item hdecl hd hrs hal

/-- **alpha-invariance of canonicalisation**: a block and the block with its generic parameters consistently respelled
    have the same canonical form (the whole item: header, declarations with their bounds, where-clause, items) -/
theorem C13_alpha_invariance (π : Renaming) (item : T) (hwf : canonWF item = true) (hal : alphaOK π item = true) :
    canon (alphaRename π item) = canon item := by
  simp only [canonWF, Bool.and_eq_true] at hwf
  exact canon_alpha π item hwf.1.1.1 hwf.1.1.2 hwf.2 hal

/-- in particular the same canonical header (group id) and the same extracted bounds -/
theorem C13_alpha_header (π : Renaming) (item : T) (hwf : canonWF item = true) (hal : alphaOK π item = true) :
    groupIdOf (canon (alphaRename π item)) = groupIdOf (canon item) ∧
    findBounds ((implGenerics (canon (alphaRename π item))).getD (.node "?" [] [])) =
      findBounds ((implGenerics (canon item)).getD (.node "?" [] [])) := by
  rw [C13_alpha_invariance π item hwf hal]
  exact ⟨rfl, rfl⟩

/-- the respelled block again has a well-formed parameter list with distinct names -/
theorem C13_alpha_decls (π : Renaming) (item : T) (hdecl : implDeclsOK item = true) (hal : alphaOK π item = true) :
    implDeclsOK (alphaRename π item) = true ∧ namesDistinct (canonCtx (alphaRename π item)) = true :=
  alpha_decls π item hdecl hal

namespace Ex13
/-- `T ↦ A, U ↦ B` -/
def piNamed : Renaming := ⟨[], [("T", "A"), ("U", "B")], []⟩
/-- `impl<B, A: Tr<B>> Kita for (A, A::Target) {}` -/
def namedAB : T :=
  implOf [tyParam "B" [], tyParam "A" [traitBound (trWith "Tr" (tyPath [seg "B"]))]]
    (tuple [tyPath [seg "A"], tyPath [seg "A", seg "Target"]])
/-- `'a ↦ 'b`, `T` and `U` swapped, `N ↦ M` -/
def piMixed : Renaming := ⟨[("a", "b")], [("T", "U"), ("U", "T")], [("N", "M")]⟩
/-- `impl<'b, U: Tr<T>, T, const M: usize> Kita<'b> for [U; M] where T: Tr<U::Target> {}` -/
def mixedRenamed : T :=
  implOfW [ltParam "b", tyParam "U" [traitBound (trWith "Tr" (tyPath [seg "T"]))], tyParam "T" [], coParam "M"]
    (kitaLt "b") (array (tyPath [seg "U"]) (exprPath [seg "M"]))
    [wherePred (tyPath [seg "T"]) [traitBound (trWith "Tr" (tyPath [seg "U", seg "Target"]))]]
/-- reserved names to reserved names: `_ŠČ1 ↦ _ŠČ5, _ŠČ0 ↦ _ŠČ1` -/
def piSwapped : Renaming := ⟨[], [("_ŠČ1", "_ŠČ5"), ("_ŠČ0", "_ŠČ1")], []⟩
/-- `impl<T, D> Kita for T {}`: `D` is never reached by the indexer -/
def alphaDead : T := implOf [tyParam "T" [], tyParam "D" []] (tyPath [seg "T"])
def piDead : Renaming := ⟨[], [("D", "E")], []⟩
def piConst : Renaming := ⟨[], [], [("N", "K")]⟩
/-- `impl<T> Kita for (T, u8) {}` with `T ↦ u8` -/
def alphaCapture : T := implOf [tyParam "T" []] (tuple [tyPath [seg "T"], tyPath [seg "u8"]])
def piCapture : Renaming := ⟨[], [("T", "u8")], []⟩
/-- `T ↦ U` on `named`, where `U` is declared and not respelled -/
def piClash : Renaming := ⟨[], [("T", "U")], []⟩
end Ex13

section AlphaExamples
open Ex13
set_option maxRecDepth 100000

/-- non-vacuity of the `C13_alpha_*` theorems: `impl<U, T: Tr<U>> Kita for (T, T::Target)` respelled to `A`, `B` (the
    multi-segment path becomes `A::Target`); the block with a lifetime, two type parameters (swapped!), a const parameter
    and a where-clause; reserved names respelled to reserved names -/
theorem C13_alpha_examples :
    (canonWF named = true ∧ alphaOK piNamed named = true ∧ alphaRename piNamed named = namedAB ∧
      canon namedAB = canon named) ∧
    (canonWF mixed = true ∧ alphaOK piMixed mixed = true ∧ alphaRename piMixed mixed = mixedRenamed ∧
      mixedRenamed ≠ mixed) ∧
    (canonWF swapped = true ∧ alphaOK piSwapped swapped = true ∧ alphaRename piSwapped swapped ≠ swapped) := by
  refine ⟨⟨?_, ?_, ?_, ?_⟩, ⟨?_, ?_, ?_, ?_⟩, ?_, ?_, ?_⟩ <;> with_unfolding_all decide

/-- non-vacuity of `C13_alpha_resolve`: its hypothesis `Comp` holds for the renaming computed for `named` and the one
    computed for `named` respelled by `T ↦ A, U ↦ B` -/
example : Comp (alphaCtx piNamed named) (canonCtx named).r
    (mapS (alphaCtx piNamed named).r (indexImpl named)).renaming ∧
    alOK (alphaCtx piNamed named) named = true ∧ rsOK (canonCtx named) named = true := by
  refine ⟨alpha_comp _ (alpha_stat _ _ ?_ ?_ ?_) _ ?_ (deadFixed_un ?_), ?_, ?_⟩
  · with_unfolding_all decide
  · with_unfolding_all decide
  · with_unfolding_all decide
  · intro k y; rw [alphaCtx_D]; exact canonCtx_mem_D _ k y
  · with_unfolding_all decide
  · with_unfolding_all decide
  · with_unfolding_all decide

/-- a declared parameter that occurs nowhere keeps its spelling in the canonical form (finding D21), so respelling it
    changes the canonical item (not its header): `deadFixed` is needed for the equality of the items -/
theorem C13_alpha_dead_counterexample :
    canonWF alphaDead = true ∧
    (domOK (alphaCtx piDead alphaDead), injOK (alphaCtx piDead alphaDead), deadFixed piDead alphaDead,
      alOK (alphaCtx piDead alphaDead) alphaDead) = (true, true, false, true) ∧
    canon (alphaRename piDead alphaDead) ≠ canon alphaDead ∧
    groupIdOf (canon (alphaRename piDead alphaDead)) = groupIdOf (canon alphaDead) := by
  refine ⟨?_, ?_, ?_, ?_⟩ <;> with_unfolding_all decide

/-- `impl<const N: usize, const M: usize> Kita for ([u8; N::X], [u8; M])` with `N ↦ K`: the resolver does not rewrite
    `N::X` (while the declaration is renamed), so the respelled `K::X` shows in the canonical form — the block violates
    `canonWF` (`rsOK`), `alphaOK` holds -/
theorem C13_alpha_const_counterexample :
    alphaOK piConst cxConst = true ∧ implDeclsOK cxConst = true ∧ namesDistinct (canonCtx cxConst) = true ∧
    rsOK (canonCtx cxConst) cxConst = false ∧ canon (alphaRename piConst cxConst) ≠ canon cxConst := by
  refine ⟨?_, ?_, ?_, ?_, ?_⟩ <;> with_unfolding_all decide

/-- capture (`T ↦ u8` next to a use of `u8`) and a clash with another declared name (`T ↦ U` next to `U`) change the
    canonical form; each violates exactly one clause of `alphaOK` -/
theorem C13_alpha_capture_counterexamples :
    (canonWF alphaCapture = true ∧
      (domOK (alphaCtx piCapture alphaCapture), injOK (alphaCtx piCapture alphaCapture), deadFixed piCapture alphaCapture,
        alOK (alphaCtx piCapture alphaCapture) alphaCapture) = (true, true, true, false) ∧
      canon (alphaRename piCapture alphaCapture) ≠ canon alphaCapture) ∧
    (canonWF named = true ∧
      (domOK (alphaCtx piClash named), injOK (alphaCtx piClash named), deadFixed piClash named,
        alOK (alphaCtx piClash named) named) = (true, false, true, true) ∧
      canon (alphaRename piClash named) ≠ canon named) := by
  refine ⟨⟨?_, ?_, ?_⟩, ?_, ?_, ?_⟩ <;> with_unfolding_all decide

/-- the maps of the examples relate ordinary names to ordinary names and reserved names to reserved names -/
theorem C13_alpha_forms : formOK piNamed = true ∧ formOK piMixed = true ∧ formOK piSwapped = true ∧
    formOK ⟨[], [("T", "_ŠČ7")], []⟩ = false := by
  refine ⟨?_, ?_, ?_, ?_⟩ <;> decide +kernel
end AlphaExamples

/-! ## Alpha-invariance of the header when unused parameters are respelled as well

Respelling a declared parameter the indexer never reaches changes the canonical item (`C13_alpha_dead_counterexample`),
not its header: a name that occurs in a position the indexer visits is indexed (`C13_indexer_complete`), so the trait
path and the self type mention live parameters only. `alphaOKh` is `alphaOK` without `deadFixed`; `hdrVis item`
(executable) says that the indexer visits the whole trait and self type: they contain no `Generics` node (the indexer
has `visit_generics` switched off while the resolver rewrites inside — `C13_alpha_hidden_counterexample`) and the
attributes of their expression paths are ignored children (what the decoder produces). -/

/-- **completeness of the indexer**: after indexing a tree it visits completely, no name in a parameter position of the
    tree is still waiting (`IxInv s`, `Un c s`, `Stat c`: the invariants of the indexer under distinct declared names) -/
theorem C13_indexer_complete (c : CCtx) (st : Stat c) (t : T) (s : IxState) (hi : IxInv s) (hu : Un c s)
    (hv : ixVis t = true) : alP (livePred (ixT s t)) t = true :=
  ixT_complete c st t s hi hu hv

/-- **alpha-invariance of the canonical header**, also when parameters that occur nowhere are respelled -/
theorem C13_alpha_header_any (π : Renaming) (item : T) (hwf : canonWF item = true) (hal : alphaOKh π item = true)
    (hv : hdrVis item = true) : groupIdOf (canon (alphaRename π item)) = groupIdOf (canon item) := by
  simp only [canonWF, Bool.and_eq_true] at hwf
  exact canon_alpha_header π item hwf.1.1.1 hwf.1.1.2 hwf.2 hal hv

namespace Ex13
/-- `impl<T, D> Kita for (T, ⟨a nested generics node mentioning D⟩)`: the indexer does not look into `Generics` nodes -/
def alphaHidden : T :=
  implOf [tyParam "T" [], tyParam "D" []] (tuple [tyPath [seg "T"], .node "Generics" [] [tyPath [seg "D"]]])
end Ex13

section AlphaHeaderExamples
open Ex13
set_option maxRecDepth 100000

/-- non-vacuity of `C13_alpha_header_any`: `impl<T, D> Kita for T` with the unused `D` respelled (the canonical items
    differ, `C13_alpha_dead_counterexample`), and the examples of `C13_alpha_examples` -/
theorem C13_alpha_header_any_examples :
    (canonWF alphaDead = true ∧ alphaOKh piDead alphaDead = true ∧ hdrVis alphaDead = true ∧
      alphaOK piDead alphaDead = false) ∧
    (alphaOKh piNamed named = true ∧ hdrVis named = true) ∧ (alphaOKh piMixed mixed = true ∧ hdrVis mixed = true) := by
  refine ⟨⟨?_, ?_, ?_, ?_⟩, ⟨?_, ?_⟩, ?_, ?_⟩ <;> with_unfolding_all decide

/-- `hdrVis` is needed: a parameter mentioned only inside a `Generics` node is never indexed, keeps its spelling, and
    the resolver leaves it alone — respelling it shows in the canonical header -/
theorem C13_alpha_hidden_counterexample :
    canonWF alphaHidden = true ∧ alphaOKh piDead alphaHidden = true ∧ hdrVis alphaHidden = false ∧
    groupIdOf (canon (alphaRename piDead alphaHidden)) ≠ groupIdOf (canon alphaHidden) := by
  refine ⟨?_, ?_, ?_, ?_⟩ <;> with_unfolding_all decide
end AlphaHeaderExamples

/-! ## Canonicalisation IS a consistent textual renaming of the block

"The rewritten block means the same as the original" amounts, syntactically, to: `canon item` is `item` with its declared
parameters consistently respelled by the computed renaming `r = (indexImpl item).renaming` — the textual renaming of the
alpha-invariance section (declarations in `impl<…>`, every lifetime, every lone parameter path, the first segment of every
longer path; nothing else) — up to the one presentation change the resolver makes: `T::A` is printed `<_ŠČn>::A`.
**Trusted, not proved**: that `X::rest…` and `<X>::rest…` denote the same path when `X` is a type parameter (Rust's path
resolution), and that the theorems are about the PARSED tree (a macro body is a verbatim `Eq` leaf: a parameter mentioned
inside it is invisible to the code and to the model alike, `C13_renaming_macro_body_example`).

Definitions (`Lemmas/CanonIsRenamingDefs.lean`, all executable):
* `alphaRenameC_cr π item` (tree level `acT_cr`): the textual renaming `alphaRename π item` / `arT`, building for every lone
  parameter path the node form the decoder gives its NEW spelling — `tparam` / `eparam` for a reserved identifier `_ŠČ…`,
  a lone `Type::Path` / `Expr::Path` for an ordinary one (`alphaRename` never changes the form of a node, so it is the
  textual renaming only for maps relating reserved to reserved and ordinary to ordinary names, `formOK`; the canonical
  renaming maps ordinary names to reserved ones). The two coincide on `formOK` maps (`C13_alphaRenameC_eq_alphaRename`).
* `qsT_cr P`: every type / expression path `X::rest…` (no qualified self, no leading `::`, no arguments on `X`, at least one
  more segment) with `P X` is printed `<X>::rest…`, exactly as `qselfPath` / `rsTypePath` / `rsExprPath` print it (an
  expression path printed that way loses its attributes, as in the code: param.rs:377 replaces the whole `ExprPath`);
  nothing else changes. `qselfFormOf_cr names` is `qsT_cr` for "`X` is in `names`", `qselfForm_cr` for "`X` is a reserved
  identifier".
* `renOK_cr P r t`: EXACTLY what the equation needs of the tree — a path whose first segment is renamed by `r` is a plain
  `x` / `x::rest…` (the resolver drops a qualified self, a leading `::` and arguments on `x`) whose new first segment
  satisfies `P` if there are more segments; an expression path whose first segment is a renamed const parameter is the bare
  identifier (otherwise it is not rewritten at all while its declaration is); a path whose first segment is NOT renamed is
  not of the form `X::rest…` with `P X`. Nothing about capture, dead parameters or distinct names is needed for the
  equation itself. -/

/-- **the resolver's output is the textual renaming followed by the presentation change**, on any tree and for any
    renaming whose new type / const spellings are reserved identifiers (`reservedTargets_cr`, executable) -/
theorem C13_rs_is_renaming (P : String → Bool) (r : Renaming) (hr : r.reservedTargets_cr = true) (t : T)
    (h : renOK_cr P r t = true) : rsT r t = qsT_cr P (acT_cr r t) :=
  rsT_is_renaming_cr P r hr t h

/-- … for the whole block and the computed renaming (its new spellings are reserved: `renaming_reservedTargets_cr`);
    the condition is evaluated on the block before canonicalisation -/
theorem C13_canon_is_renaming_of (P : String → Bool) (item : T)
    (h : renOK_cr P (indexImpl item).renaming item = true) :
    canon item = qsT_cr P (alphaRenameC_cr (indexImpl item).renaming item) :=
  canon_is_renaming_of_cr P item h

/-- `canonWF` gives the condition for `P :=` "is one of the canonical names of the type parameters" -/
theorem C13_canonWF_renOK (item : T) (h : canonWF item = true) :
    renOK_cr (indexImpl item).renaming.tyNames_cr.contains (indexImpl item).renaming item = true :=
  canonWF_renOK_cr item h

/-- **canonicalisation IS the textual renaming of the block by the computed renaming**, up to `<_ŠČn>::rest…` for the
    canonical names `_ŠČn` of the type parameters. Side condition: `canonWF item` (executable) only. -/
theorem C13_canon_is_renaming (item : T) (h : canonWF item = true) :
    canon item = qselfFormOf_cr (indexImpl item).renaming.tyNames_cr
      (alphaRenameC_cr (indexImpl item).renaming item) :=
  canon_is_renaming_cr item h

/-- … with the presentation change for EVERY reserved identifier (`qselfForm_cr`, no reference to the renaming). Side
    condition `renamingShapeOK_cr item` (executable, `renOK_cr` for "is a reserved identifier"): it is the shape part of
    `canonWF` plus "no path `_ŠČk::rest…` of the block starts with a reserved identifier that is not a renamed type
    parameter" (`C13_renaming_stray_counterexample`); neither `canonWF` nor any no-capture condition is needed -/
theorem C13_canon_is_renaming_reserved (item : T) (h : renamingShapeOK_cr item = true) :
    canon item = qselfForm_cr (alphaRenameC_cr (indexImpl item).renaming item) :=
  canon_is_renaming_of_cr reserved_cr item h

/-- **the computed renaming is an admissible consistent respelling**: `canonWF item` gives every clause of the side
    condition `alphaOK` of alpha-invariance for `π := (indexImpl item).renaming` (only declared parameters are respelled,
    the new spellings are pairwise distinct per name space, unreached parameters keep their spelling, no capture) -/
theorem C13_canonWF_alphaOK (item : T) (h : canonWF item = true) : alphaOK (indexImpl item).renaming item = true :=
  canonWF_alphaOK_cr item h

/-- the decoder-form renaming is `alphaRename` for maps that relate reserved names to reserved names and ordinary names
    to ordinary names (`formOK π`), on blocks in decoder normal form (`decNF_cr`, executable: a `tparam` / `eparam` leaf is a
    reserved identifier, a lone `Type::Path` / `Expr::Path` is not) -/
theorem C13_alphaRenameC_eq_alphaRename (π : Renaming) (item : T) (hf : formOK π = true) (hn : decNF_cr item = true) :
    alphaRenameC_cr π item = alphaRename π item :=
  alphaRenameC_eq_cr π item hf hn

/-- **every occurrence is rewritten**: no old spelling of a renamed parameter is left in parameter position in the
    canonical block (`noOld_cr`, executable: lifetimes against the lifetime map, `tparam` leaves and first segments of type
    paths without qualified self against the type map, `eparam` leaves and first segments of expression paths without
    qualified self against the type and const maps; a name that is also one of the new names of its map may stay). The
    name spaces are the ones the code knows: a CONST parameter written in type position (`W<N>`, which syn parses as a
    type) is not an occurrence for it — finding D24, `C13_renaming_const_generic_arg_counterexample`. -/
theorem C13_canon_all_rewritten (P : String → Bool) (item : T)
    (h : renOK_cr P (indexImpl item).renaming item = true) :
    noOld_cr (indexImpl item).renaming (canon item) = true :=
  canon_noOld_cr P item h

theorem C13_canon_all_rewritten_wf (item : T) (h : canonWF item = true) :
    noOld_cr (indexImpl item).renaming (canon item) = true :=
  canon_noOld_cr _ item (canonWF_renOK_cr item h)

/-- **the declared parameter list is renamed position by position**: the `i`-th declaration of the canonical block is
    the `i`-th declaration of the block with its bounds resolved (`declF r`), of the same kind `k`, its name `y` respelled
    `rn (r.m k) y` (`r.m k`: the lifetime / type / const map) -/
theorem C13_canon_params (item : T) (hdecl : implDeclsOK item = true) (hd : namesDistinct (canonCtx item) = true) :
    implParams (canon item) = (implParams item).map (declF (indexImpl item).renaming) ∧
    ∀ p ∈ implParams item, ∃ k y, kindSel (kindStr k) p = some y ∧ paramIdent p = some y ∧
      kindSel (kindStr k) (declF (indexImpl item).renaming p) = some (rn ((indexImpl item).renaming.m k) y) ∧
      paramIdent (declF (indexImpl item).renaming p) = some (rn ((indexImpl item).renaming.m k) y) :=
  canon_params_cr item hdecl hd

/-- **nothing that is not an occurrence is rewritten** (frame property): a tree in which no identifier in parameter
    position — lifetime, `tparam` / `eparam` leaf, first segment of a type or expression path — is renamed by `r` in the map
    of ITS position (`untouchedP_cr r`: lifetime map / type map / type and const maps; executable through `alP`) is left
    exactly as it is: trait names, later path segments, field and method names, and identifiers that share their spelling
    with a parameter of another position (a lifetime `'T` next to a type `T`, a trait `N` next to a const `N`) are kept.
    The first segment of a QUALIFIED path counts as a parameter position for the code
    (`C13_renaming_shape_counterexamples`, finding F-C13-qualified-path-trait-capture). -/
theorem C13_rs_frame (r : Renaming) (t : T) (h : alP (untouchedP_cr r) t = true) : rsT r t = t :=
  rsT_untouched_cr r t h

namespace Ex13
/-- `Tr<'T, u8>::N::T`-like: a path `N::T` (trait-ish first segment spelled like the const `N`, later segment `T`), a
    lifetime `'T`, inside a tuple with `u8` -/
def crFrame : T := tuple [tyPath [seg "N", seg "T"], .node "Type::Reference" [] [lifetime "T", tyPath [seg "u8"]]]
/-- `impl<T> Kita for (T, _ŠČ7::Out) {}`: a path that starts with a reserved identifier that is not a parameter -/
def crStray : T := implOf [tyParam "T" []] (tuple [tyPath [seg "T"], tyPath [seg "_ŠČ7", seg "Out"]])
/-- `W<a, b>` as syn parses it: both arguments are `GenericArgument::Type` -/
def wOf (a b : T) : T :=
  .node "Type::Path" [] [leaf "None", path [.node "PathSegment" [] [.node "Ident" ["W"] [],
    .node "PathArguments::AngleBracketed" [] [.node "Ign" [] [leaf "None"],
      .node "List" [] [.node "GenericArgument::Type" [] [a], .node "GenericArgument::Type" [] [b]]]]]]
/-- `impl<T, const N: usize> Kita for (W<T, N>, [T; N]) {}` (finding D24) -/
def crConstArg : T := implOf [tyParam "T" [], coParam "N"]
  (tuple [wOf (tyPath [seg "T"]) (tyPath [seg "N"]), array (tyPath [seg "T"]) (exprPath [seg "N"])])
/-- `Tr<'x, 'y>` as a path -/
def trLt2 (x y : String) : T :=
  path [.node "PathSegment" [] [.node "Ident" ["Tr"] [], .node "PathArguments::AngleBracketed" [] [.node "Ign" [] [leaf "None"],
    .node "List" [] [.node "GenericArgument::Lifetime" [] [lifetime x], .node "GenericArgument::Lifetime" [] [lifetime y]]]]]
/-- `for<'b> p` as a bound -/
def forBound (b : String) (p : T) : T :=
  .node "TypeParamBound::Trait" [] [.node "TraitBound" [] [leaf "None", leaf "TraitBoundModifier::None",
    .node "Some" [] [.node "BoundLifetimes" [] [.node "List" [] [ltParam b]]], p]]
/-- `impl<'a, T: for<'_ŠČ0> Tr<'_ŠČ0, 'a>> Kita<'a> for T {}` (finding F-D38) -/
def crBinder : T :=
  implOfW [ltParam "a", tyParam "T" [forBound "_ŠČ0" (trLt2 "_ŠČ0" "a")]] (kitaLt "a") (tyPath [seg "T"]) []
/-- `impl<T> Kita for (T, m!(T)) {}`: the macro body is a verbatim leaf (finding F-D28) -/
def crMacro : T := implOf [tyParam "T" []] (tuple [tyPath [seg "T"], .node "Type::Macro" [] [.node "Eq" ["m ! (T)"] []]])
/-- `impl<T, const N: usize> Kita for [T; #[a] N] {}`: an attribute on a parameter expression -/
def crAttr : T := implOf [tyParam "T" [], coParam "N"]
  (array (tyPath [seg "T"]) (.node "Expr::Path" [] [.node "Ign" [] [.node "List" [] [leaf "Attribute"]], leaf "None", path [seg "N"]]))
end Ex13

section RenamingExamples
open Ex13
set_option maxRecDepth 100000

/-- non-vacuity of `C13_canon_is_renaming`, `C13_canon_is_renaming_reserved`, `C13_canon_all_rewritten`,
    `C13_canonWF_alphaOK` on the three example blocks: the hypotheses hold, and both sides of the equations are computed
    (user names with a multi-segment path; reserved names in the wrong order; a lifetime, two type parameters, a const
    parameter, a where-clause and `T::Target`); the renaming is not the identity on any of them -/
theorem C13_renaming_examples :
    (canonWF named = true ∧ renamingShapeOK_cr named = true ∧
      canon named = qselfFormOf_cr ["_ŠČ0", "_ŠČ1"] (alphaRenameC_cr (indexImpl named).renaming named) ∧
      canon named = qselfForm_cr (alphaRenameC_cr (indexImpl named).renaming named) ∧
      alphaRenameC_cr (indexImpl named).renaming named ≠ canon named ∧ alphaRenameC_cr (indexImpl named).renaming named ≠ named) ∧
    (canonWF swapped = true ∧ renamingShapeOK_cr swapped = true ∧
      canon swapped = qselfForm_cr (alphaRenameC_cr (indexImpl swapped).renaming swapped) ∧ canon swapped ≠ swapped) ∧
    (canonWF mixed = true ∧ renamingShapeOK_cr mixed = true ∧ (indexImpl mixed).renaming.tyNames_cr = ["_ŠČ1", "_ŠČ3"] ∧
      canon mixed = qselfFormOf_cr ["_ŠČ1", "_ŠČ3"] (alphaRenameC_cr (indexImpl mixed).renaming mixed) ∧
      canon mixed = qselfForm_cr (alphaRenameC_cr (indexImpl mixed).renaming mixed) ∧ canon mixed ≠ mixed) ∧
    (noOld_cr (indexImpl named).renaming (canon named) = true ∧ noOld_cr (indexImpl named).renaming named = false ∧
      noOld_cr (indexImpl mixed).renaming (canon mixed) = true ∧ noOld_cr (indexImpl mixed).renaming mixed = false) ∧
    (alphaOK (indexImpl named).renaming named = true ∧ alphaOK (indexImpl mixed).renaming mixed = true ∧
      alphaOK (indexImpl swapped).renaming swapped = true) := by
  refine ⟨⟨?_, ?_, ?_, ?_, ?_, ?_⟩, ⟨?_, ?_, ?_, ?_⟩, ⟨?_, ?_, ?_, ?_, ?_, ?_⟩, ⟨?_, ?_, ?_, ?_⟩, ?_, ?_, ?_⟩ <;>
    with_unfolding_all decide

/-- non-vacuity of the tree-level theorem `C13_rs_is_renaming` (on the self type of `named` and on the whole block) -/
theorem C13_rs_is_renaming_example :
    (indexImpl named).renaming.reservedTargets_cr = true ∧
    renOK_cr reserved_cr (indexImpl named).renaming (tuple [tyPath [seg "T"], tyPath [seg "T", seg "Target"]]) = true ∧
    rsT (indexImpl named).renaming (tuple [tyPath [seg "T"], tyPath [seg "T", seg "Target"]]) =
      qsT_cr reserved_cr (tuple [.tparam "_ŠČ0", tyPath [seg "_ŠČ0", seg "Target"]]) ∧
    acT_cr (indexImpl named).renaming (tuple [tyPath [seg "T"], tyPath [seg "T", seg "Target"]]) =
      tuple [.tparam "_ŠČ0", tyPath [seg "_ŠČ0", seg "Target"]] := by
  refine ⟨?_, ?_, ?_, ?_⟩ <;> with_unfolding_all decide

/-- non-vacuity of `C13_rs_frame`: with `T ↦ _ŠČ0` (type), `N ↦ _ŠČ1` (const) the type `(N::T, &'T u8)` — a path whose first
    segment is spelled like the CONST parameter and whose second like the type parameter, and a lifetime spelled like the
    type parameter — is left alone, while `T` itself is not untouched -/
theorem C13_rs_frame_example :
    alP (untouchedP_cr ⟨[], [("T", "_ŠČ0")], [("N", "_ŠČ1")]⟩) crFrame = true ∧
    rsT ⟨[], [("T", "_ŠČ0")], [("N", "_ŠČ1")]⟩ crFrame = crFrame ∧
    alP (untouchedP_cr ⟨[], [("T", "_ŠČ0")], [("N", "_ŠČ1")]⟩) (tyPath [seg "T"]) = false := by
  refine ⟨?_, ?_, ?_⟩ <;> with_unfolding_all decide

/-- non-vacuity of `C13_alphaRenameC_eq_alphaRename` (`T ↦ A, U ↦ B` on `named`; the swap with a lifetime and a const on
    `mixed`), and of `C13_canon_params` (its hypotheses are part of `canonWF`) -/
theorem C13_renaming_form_examples :
    (formOK piNamed = true ∧ decNF_cr named = true ∧ alphaRenameC_cr piNamed named = namedAB) ∧
    (formOK piMixed = true ∧ decNF_cr mixed = true ∧ alphaRenameC_cr piMixed mixed = mixedRenamed) ∧
    (implDeclsOK mixed = true ∧ namesDistinct (canonCtx mixed) = true ∧
      (implParams (canon mixed)).map paramIdent = [some "_ŠČ0", some "_ŠČ1", some "_ŠČ3", some "_ŠČ2"] ∧
      (implParams mixed).map paramIdent = [some "a", some "T", some "U", some "N"]) := by
  refine ⟨⟨?_, ?_, ?_⟩, ⟨?_, ?_, ?_⟩, ?_, ?_, ?_, ?_⟩
  · decide +kernel
  · with_unfolding_all decide
  · with_unfolding_all decide
  · decide +kernel
  · with_unfolding_all decide
  · with_unfolding_all decide
  · with_unfolding_all decide
  · with_unfolding_all decide
  · with_unfolding_all decide
  · with_unfolding_all decide

/-- the two shape clauses of `renOK_cr` are needed (both are clauses of `canonWF`): a qualified path whose trait is
    spelled like a type parameter (`<T as Clone>::Out` with a parameter `Clone` — finding
    F-C13-qualified-path-trait-capture: the resolver prints `<_ŠČ1>::Out` and drops `T as`), and a const parameter at the
    head of a longer path (`N::X`: not rewritten while the declaration is). Neither block satisfies `renOK_cr` for any
    `P` used here, and the canonical block is not the renamed block -/
theorem C13_renaming_shape_counterexamples :
    (renOK_cr (indexImpl cxQself).renaming.tyNames_cr.contains (indexImpl cxQself).renaming cxQself = false ∧
      renamingShapeOK_cr cxQself = false ∧
      canon cxQself ≠ qselfFormOf_cr (indexImpl cxQself).renaming.tyNames_cr (alphaRenameC_cr (indexImpl cxQself).renaming cxQself) ∧
      canon cxQself ≠ qselfForm_cr (alphaRenameC_cr (indexImpl cxQself).renaming cxQself)) ∧
    (renOK_cr (indexImpl cxConst).renaming.tyNames_cr.contains (indexImpl cxConst).renaming cxConst = false ∧
      renamingShapeOK_cr cxConst = false ∧
      canon cxConst ≠ qselfFormOf_cr (indexImpl cxConst).renaming.tyNames_cr (alphaRenameC_cr (indexImpl cxConst).renaming cxConst) ∧
      canon cxConst ≠ qselfForm_cr (alphaRenameC_cr (indexImpl cxConst).renaming cxConst)) := by
  refine ⟨⟨?_, ?_, ?_, ?_⟩, ?_, ?_, ?_, ?_⟩ <;> with_unfolding_all decide

/-- `impl<T> Kita for (T, _ŠČ7::Out)`: `canonWF` holds and `C13_canon_is_renaming` applies; the resolver keeps
    `_ŠČ7::Out` (`_ŠČ7` is no parameter) while `qselfForm_cr` would print `<_ŠČ7>::Out`: the third clause of
    `renamingShapeOK_cr` is needed for `C13_canon_is_renaming_reserved` -/
theorem C13_renaming_stray_counterexample :
    canonWF crStray = true ∧ renamingShapeOK_cr crStray = false ∧
    canon crStray = qselfFormOf_cr ["_ŠČ0"] (alphaRenameC_cr (indexImpl crStray).renaming crStray) ∧
    canon crStray ≠ qselfForm_cr (alphaRenameC_cr (indexImpl crStray).renaming crStray) := by
  refine ⟨?_, ?_, ?_, ?_⟩ <;> with_unfolding_all decide

/-- **finding D24 is INSIDE `canonWF`**: `impl<T, const N: usize> Kita for (W<T, N>, [T; N])`. syn parses the bare generic
    argument `N` as a type; the indexer reaches `N` through `[T; N]`, the declaration becomes `const _ŠČ1`, `[T; N]` becomes
    `[_ŠČ0; _ŠČ1]`, and `W<T, N>` becomes `W<_ŠČ0, N>` — `N` is no longer declared. `canonWF` holds, `C13_canon_is_renaming`
    applies (the textual renaming of the alpha-invariance section has the same per-position name spaces as the code), and
    `noOld_cr` holds because `N` in type position is not an occurrence of a TYPE parameter: the canonical block is not a
    consistent renaming in Rust's sense although it is the textual one -/
theorem C13_renaming_const_generic_arg_counterexample :
    canonWF crConstArg = true ∧ (indexImpl crConstArg).renaming = ⟨[], [("T", "_ŠČ0")], [("N", "_ŠČ1")]⟩ ∧
    canon crConstArg = qselfForm_cr (alphaRenameC_cr (indexImpl crConstArg).renaming crConstArg) ∧
    (implParams (canon crConstArg)).map paramIdent = [some "_ŠČ0", some "_ŠČ1"] ∧
    implSelfTy (canon crConstArg) =
      some (tuple [wOf (.tparam "_ŠČ0") (tyPath [seg "N"]), array (.tparam "_ŠČ0") (.eparam "_ŠČ1")]) ∧
    noOld_cr (indexImpl crConstArg).renaming (canon crConstArg) = true := by
  refine ⟨?_, ?_, ?_, ?_, ?_, ?_⟩ <;> with_unfolding_all decide

/-- **binder capture (finding F-D38) is OUTSIDE `canonWF`** and is a property of the renaming, not of the equation:
    `impl<'a, T: for<'_ŠČ0> Tr<'_ŠČ0, 'a>> Kita<'a> for T` — `'a` becomes `'_ŠČ0` and is captured by the binder. The equation
    holds (`renamingShapeOK_cr`), the no-capture clauses fail (`rsOK`, `alOK`), so `canonWF` and `alphaOK` are false -/
theorem C13_renaming_binder_counterexample :
    renamingShapeOK_cr crBinder = true ∧
    canon crBinder = qselfForm_cr (alphaRenameC_cr (indexImpl crBinder).renaming crBinder) ∧
    (indexImpl crBinder).renaming = ⟨[("a", "_ŠČ0")], [("T", "_ŠČ1")], []⟩ ∧
    implParams (canon crBinder) = [ltParam "_ŠČ0", tyParam "_ŠČ1" [forBound "_ŠČ0" (trLt2 "_ŠČ0" "_ŠČ0")]] ∧
    rsOK (canonCtx crBinder) crBinder = false ∧ alOK (canonCtx crBinder) crBinder = false ∧ canonWF crBinder = false ∧
    alphaOK (indexImpl crBinder).renaming crBinder = false := by
  refine ⟨?_, ?_, ?_, ?_, ?_, ?_, ?_, ?_⟩ <;> with_unfolding_all decide

/-- dead parameters (finding D21) are consistent with the equation: a declared parameter the indexer never reaches is
    not renamed by the computed renaming, so it keeps its spelling on both sides (`impl<T, D> Kita for T`) -/
theorem C13_renaming_dead_example :
    canonWF alphaDead = true ∧ (indexImpl alphaDead).renaming = ⟨[], [("T", "_ŠČ0")], []⟩ ∧
    canon alphaDead = qselfForm_cr (alphaRenameC_cr (indexImpl alphaDead).renaming alphaDead) ∧
    (implParams (canon alphaDead)).map paramIdent = [some "_ŠČ0", some "D"] := by
  refine ⟨?_, ?_, ?_, ?_⟩ <;> with_unfolding_all decide

/-- macro bodies (finding F-D28): the theorems are about the parsed tree; `m!(T)` is a verbatim leaf that neither the
    resolver nor the textual renaming looks into, so the `T` inside it keeps its spelling on both sides -/
theorem C13_renaming_macro_body_example :
    canonWF crMacro = true ∧
    canon crMacro = qselfForm_cr (alphaRenameC_cr (indexImpl crMacro).renaming crMacro) ∧
    implSelfTy (canon crMacro) = some (tuple [.tparam "_ŠČ0", .node "Type::Macro" [] [.node "Eq" ["m ! (T)"] []]]) := by
  refine ⟨?_, ?_, ?_⟩ <;> with_unfolding_all decide

/-- the attributes of a parameter expression are dropped by the resolver (param.rs:377, 380: the whole `ExprPath` /
    `Expr` is replaced): `[T; #[a] N]` becomes `[_ŠČ0; _ŠČ1]`. The decoder-form renaming does the same (a leaf has no
    attributes; they are an ignored child, invisible to the matcher) -/
theorem C13_renaming_attrs_dropped_example :
    canonWF crAttr = true ∧ implSelfTy (canon crAttr) = some (array (.tparam "_ŠČ0") (.eparam "_ŠČ1")) ∧
    canon crAttr = qselfForm_cr (alphaRenameC_cr (indexImpl crAttr).renaming crAttr) := by
  refine ⟨?_, ?_, ?_⟩ <;> with_unfolding_all decide
end RenamingExamples

/-! ## The round trip, and the converse of alpha-invariance

`C13_canon_is_renaming` says that `canon item` is the textual renaming of `item` by the computed renaming `r`, followed by the
presentation change `X::rest… ↦ <X>::rest…`. Both steps can be undone (definitions in `Lemmas/CanonRoundTripDefs.lean`, all
executable):
* `r.inv_rt`: the inverse renaming (the pairs of each name space swapped); `r.comp_rt ρ`: first `r`, then `ρ`;
* `unqsT_rt P` / `unqself_rt r`: every path written `<X>::rest…` EXACTLY as the resolver prints it (`qselfPath`) with `P X`
  (`X` one of the canonical type names of `r`) is written `X::rest…` again.
Hence (`C13_round_trip`) the block is recovered from its canonical form, and (`C13_same_canon_only_if_renaming`) two blocks
with the same canonical block are textual renamings of each other by the computed renaming `r ; r'⁻¹`
(`renamingBetween_rt item item'`): blocks receive the same canonical block ONLY IF they are equal up to renaming. The IF
direction is `C13_alpha_invariance`; it FAILS for parameters that occur nowhere (finding D21,
`C13_converse_dead_parameter_example`). "Renaming" is the textual one, with the per-position name spaces of the code: a
const parameter written in type position is not an occurrence (finding D24, `C13_converse_const_generic_arg_example`).

The ONE side condition `roundTripOK_rt item` (executable, on the block before canonicalisation; `r` the computed renaming):
* `canonWF item`           the condition of `C13_canon_is_renaming`; it also gives "no capture by `r⁻¹`" — an identifier in
                           parameter position, or a declared parameter, that `r` does not rename is not one of the names
                           handed out in its name space (`C13_canonWF_no_capture`, from `rsOK` and `deadFresh`);
* `decNF_cr item`          decoder normal form: a `tparam` / `eparam` leaf is a reserved identifier, a lone `Type::Path` /
                           `Expr::Path` is not (otherwise the inverse renaming builds the other node form);
* `loneOK_rt r item`       a lone path that is a renamed parameter has no atoms and (expression path) no attributes — it
                           becomes a leaf, which has neither (`[T; #[a] N]`: the resolver drops `#[a]`);
* `qsInvOK_rt … (alphaRenameC_cr r item)`  the presentation change is not injective: the user did not write `<T>::A` for a
                           live type parameter `T` (it is printed like `T::A`), and `T::A` in expression position carries no
                           attributes (the resolver replaces the whole `ExprPath`).
Each of the three added clauses has decided counterexamples inside `canonWF` (`C13_round_trip_clauses_needed`,
`C13_round_trip_one_clause_each`, `C13_same_canon_qself_counterexample`). -/

/-- **the inverse presentation change undoes the presentation change** on a tree that contains no path already written
    `<X>::rest…` with `P X` and no attributes on an expression path `X::rest…` with `P X` (`qsInvOK_rt P t`, executable) -/
theorem C13_unqself_undoes_qself (P : String → Bool) (t : T) (h : qsInvOK_rt P t = true) :
    unqsT_rt P (qsT_cr P t) = t :=
  unqs_qs_rt P t h

/-- the textual renaming of the occurrences commutes with the respelling of the declarations (no side condition) -/
theorem C13_renaming_commutes_with_decls (π ρ : Renaming) (t : T) :
    acT_cr π (renameImplDecls ρ t) = renameImplDecls ρ (acT_cr π t) :=
  acT_renameImplDecls_rt π ρ t

/-- **two textual renamings compose**: renaming a tree by `r` and then by `ρ` is renaming it by `r ; ρ`. `CompOK_rt r ρ`: the
    new names of `r` are reserved identifiers, `ρ` is defined exactly on them (per name space, as lists), no name is new for
    a type and for a const parameter. `acOK_rt r t` (executable): no capture, lone renamed paths without atoms / attributes -/
theorem C13_renamings_compose {r ρ : Renaming} (ok : CompOK_rt r ρ) (t : T) (h : acOK_rt r t = true) :
    acT_cr ρ (acT_cr r t) = acT_cr (r.comp_rt ρ) t :=
  acT_comp_rt ok t h

/-- … for blocks (declarations respelled as well) -/
theorem C13_block_renamings_compose {r ρ : Renaming} (ok : CompOK_rt r ρ) (item : T) (h1 : acOK_rt r item = true)
    (h2 : declsFresh_rt r item = true) :
    alphaRenameC_cr ρ (alphaRenameC_cr r item) = alphaRenameC_cr (r.comp_rt ρ) item :=
  alphaRenameC_comp_rt ok item h1 h2

/-- **`canonWF` gives the no-capture conditions** of the composition for the computed renaming: `acOK_rt r item` (given its
    shape part `loneOK_rt r item`: lone renamed paths without atoms / attributes) and `declsFresh_rt r item` -/
theorem C13_canonWF_no_capture (item : T) (h : canonWF item = true) :
    (loneOK_rt (indexImpl item).renaming item = true → acOK_rt (indexImpl item).renaming item = true) ∧
    declsFresh_rt (indexImpl item).renaming item = true :=
  acOK_of_canonWF_rt item h

/-- an identity renaming changes nothing on a tree in decoder normal form -/
theorem C13_identity_renaming (π : Renaming) (hid : π.isId = true) (t : T) (h : decNF_cr t = true) : acT_cr π t = t :=
  acT_id_rt π hid t h

/-- **the inverse renaming undoes a renaming** whose new names are reserved identifiers, pairwise distinct per name space
    (`InvOK_rt r`; it holds for every renaming the indexer computes, `C13_computed_renaming_invertible`) -/
theorem C13_inverse_renaming {r : Renaming} (hr : InvOK_rt r) (item : T) (h1 : acOK_rt r item = true)
    (h2 : declsFresh_rt r item = true) (h3 : decNF_cr item = true) :
    alphaRenameC_cr r.inv_rt (alphaRenameC_cr r item) = item :=
  alphaRenameC_inv_rt hr item h1 h2 h3

theorem C13_computed_renaming_invertible (item : T) : InvOK_rt (indexImpl item).renaming := renaming_invOK_rt item

/-- undoing the presentation change on the canonical block gives the textual renaming of the block -/
theorem C13_unqself_canon (item : T) (h : roundTripOK_rt item = true) :
    unqself_rt (indexImpl item).renaming (canon item) = alphaRenameC_cr (indexImpl item).renaming item :=
  unqself_canon_rt item h

/-- **the round trip**: the block is recovered from its canonical block and the computed renaming `r` — undo the
    presentation change (`<_ŠČn>::rest… ↦ _ŠČn::rest…` for the canonical type names), then rename textually by `r⁻¹`.
    Side condition: `roundTripOK_rt item` (executable) only. -/
theorem C13_round_trip (item : T) (h : roundTripOK_rt item = true) :
    alphaRenameC_cr (indexImpl item).renaming.inv_rt (unqself_rt (indexImpl item).renaming (canon item)) = item :=
  round_trip_rt item h

/-- the canonical block carries the names handed out (per name space, in the order of the numbering): blocks with the same
    canonical block were handed the same names -/
theorem C13_canon_names (item : T) (h : canonWF item = true) :
    (indexImpl (canon item)).renaming.lt.map Prod.snd = (indexImpl item).renaming.lt.map Prod.snd ∧
    (indexImpl (canon item)).renaming.ty.map Prod.snd = (indexImpl item).renaming.ty.map Prod.snd ∧
    (indexImpl (canon item)).renaming.co.map Prod.snd = (indexImpl item).renaming.co.map Prod.snd :=
  canon_names_rt item h

/-- **the converse of alpha-invariance**: two blocks receive the same canonical block ONLY IF they are textual renamings of
    each other — `item'` is `item` renamed by the computed renaming `r ; r'⁻¹` (`renamingBetween_rt item item'`: canonicalise
    `item`, undo the canonicalisation of `item'`; it pairs the `i`-th numbered parameter of `item` with the `i`-th numbered
    parameter of `item'`). Side condition: `roundTripOK_rt` (executable) for both blocks. Parameters that occur nowhere keep
    their spelling in the canonical block (finding D21), so they are spelled alike in both blocks and the renaming does not
    touch them. -/
theorem C13_same_canon_only_if_renaming (item item' : T) (h : roundTripOK_rt item = true) (h' : roundTripOK_rt item' = true)
    (e : canon item = canon item') : alphaRenameC_cr (renamingBetween_rt item item') item = item' :=
  same_canon_only_if_renaming_rt item item' h h' e

/-- … in terms of the user-level renaming `alphaRename` of the alpha-invariance theorems, when the computed renaming
    relates ordinary names to ordinary names and reserved names to reserved names (`formOK`, executable) -/
theorem C13_same_canon_only_if_alphaRename (item item' : T) (h : roundTripOK_rt item = true)
    (h' : roundTripOK_rt item' = true) (e : canon item = canon item')
    (hf : formOK (renamingBetween_rt item item') = true) : alphaRename (renamingBetween_rt item item') item = item' := by
  rw [← alphaRenameC_eq_cr _ item hf (roundTripOK_parts_rt h).2.1]
  exact same_canon_only_if_renaming_rt item item' h h' e

/-- **same canonical block IFF textual renaming of each other**, for blocks without parameters that occur nowhere: the two
    directions (`C13_alpha_invariance`, `C13_same_canon_only_if_renaming`) put together, for the computed renaming -/
theorem C13_same_canon_iff_renaming (item item' : T) (h : roundTripOK_rt item = true) (h' : roundTripOK_rt item' = true)
    (hf : formOK (renamingBetween_rt item item') = true) (hal : alphaOK (renamingBetween_rt item item') item = true) :
    canon item = canon item' ↔ alphaRename (renamingBetween_rt item item') item = item' := by
  constructor
  · exact fun e => C13_same_canon_only_if_alphaRename item item' h h' e hf
  · intro e
    rw [← e]
    exact (C13_alpha_invariance _ item (roundTripOK_parts_rt h).1 hal).symm

/-- **the tree-level converse, in the form the grouping uses** (trait path and self type are resolved by `rsT r`): two trees
    that two renamings handing out the SAME names (per name space, as lists — executable) resolve to the same tree are
    textual renamings of each other by `r ; r'⁻¹`. Side conditions, all executable: `renOK_cr` (the shape condition of
    `C13_rs_is_renaming`), `qsInvOK_rt` on the renamed trees, `acOK_rt` (no capture, lone renamed paths without atoms /
    attributes), `decNF_cr t'`; `InvOK_rt` holds for computed renamings (`C13_computed_renaming_invertible`). The corollary
    "`groupIdOf (canon item) = groupIdOf (canon item')` → the headers are renamings of each other" for blocks whose every
    parameter occurs in the header is NOT derived: it needs "equal canonical headers were handed the same names", which is
    open (for equal canonical BLOCKS it is `C13_canon_names`). -/
theorem C13_same_resolved_only_if_renaming {r r' : Renaming} (hr : InvOK_rt r) (hr' : InvOK_rt r')
    (elt : r'.lt.map Prod.snd = r.lt.map Prod.snd) (ety : r'.ty.map Prod.snd = r.ty.map Prod.snd)
    (eco : r'.co.map Prod.snd = r.co.map Prod.snd) (t t' : T)
    (h1 : renOK_cr r.tyNames_cr.contains r t = true) (h1' : renOK_cr r'.tyNames_cr.contains r' t' = true)
    (h2 : qsInvOK_rt r.tyNames_cr.contains (acT_cr r t) = true)
    (h2' : qsInvOK_rt r'.tyNames_cr.contains (acT_cr r' t') = true)
    (h3 : acOK_rt r t = true) (h3' : acOK_rt r' t' = true) (h4' : decNF_cr t' = true)
    (e : rsT r t = rsT r' t') : acT_cr (r.comp_rt r'.inv_rt) t = t' :=
  same_resolved_only_if_renaming_rt hr hr' elt ety eco t t' h1 h1' h2 h2' h3 h3' h4' e

namespace Ex13
/-- `impl<T> Kita for <T>::A {}`: the user wrote the qualified form -/
def rtQself : T := implOf [tyParam "T" []]
  (.node "Type::Path" [] [.node "Some" [] [.node "QSelf" [] [tyPath [seg "T"], .node "Atom" ["0"] [], leaf "None"]],
    .node "Path" [] [.node "IgnL" [] [.node "Some" ["PathSep"] []], .node "List" [] [seg "A"]]])
/-- `impl<T> Kita for T::A {}` -/
def rtPlain : T := implOf [tyParam "T" []] (tyPath [seg "T", seg "A"])
/-- `impl<T> Kita for T {}` with `T` as a `tparam` leaf: not in decoder normal form -/
def rtLeaf : T := implOf [tyParam "T" []] (.tparam "T")
/-- `impl<T> Kita for T {}` with an atom on the lone path -/
def rtAtoms : T := implOf [tyParam "T" []] (.node "Type::Path" ["x"] [leaf "None", path [seg "T"]])
/-- `impl<T> Kita for [u8; #[a] T::N] {}`: attributes on a multi-segment parameter expression -/
def rtExprAttr : T := implOf [tyParam "T" []]
  (array (tyPath [seg "u8"]) (.node "Expr::Path" [] [.node "Ign" [] [.node "List" [] [leaf "Attribute"]], leaf "None", path [seg "T", seg "N"]]))
/-- `swapped` respelled by `_ŠČ1 ↦ _ŠČ5, _ŠČ0 ↦ _ŠČ1` -/
def swappedRenamed : T := alphaRename piSwapped swapped
/-- `impl<T, E> Kita for T {}`: `alphaDead` with the unused `D` respelled -/
def alphaDeadE : T := alphaRename piDead alphaDead
/-- `impl<T, const M: usize> Kita for (W<T, N>, [T; M]) {}`: `crConstArg` with the const parameter respelled where the
    code sees it -/
def crConstArgM : T := implOf [tyParam "T" [], coParam "M"]
  (tuple [wOf (tyPath [seg "T"]) (tyPath [seg "N"]), array (tyPath [seg "T"]) (exprPath [seg "M"])])
/-- the four clauses of `roundTripOK_rt` -/
def rtClauses (item : T) : Bool × Bool × Bool × Bool :=
  let r := (indexImpl item).renaming
  (canonWF item, decNF_cr item, loneOK_rt r item, qsInvOK_rt r.tyNames_cr.contains (alphaRenameC_cr r item))
/-- the round trip, computed -/
def rtHolds (item : T) : Bool :=
  alphaRenameC_cr (indexImpl item).renaming.inv_rt (unqself_rt (indexImpl item).renaming (canon item)) == item
end Ex13

section RoundTripExamples
open Ex13
set_option maxRecDepth 100000

/-- non-vacuity of `C13_round_trip` on the three example blocks (user names with `T::Target`; reserved names in the wrong
    order; a lifetime, two type parameters, a const parameter, a where-clause and `T::Target`): the hypothesis holds, the
    inverse renamings are computed (none is the identity), and both sides of the equation are computed -/
theorem C13_round_trip_examples :
    (roundTripOK_rt named = true ∧ (indexImpl named).renaming.inv_rt = ⟨[], [("_ŠČ0", "T"), ("_ŠČ1", "U")], []⟩ ∧
      unqself_rt (indexImpl named).renaming (canon named) ≠ canon named ∧
      alphaRenameC_cr (indexImpl named).renaming.inv_rt (unqself_rt (indexImpl named).renaming (canon named)) = named) ∧
    (roundTripOK_rt swapped = true ∧ (indexImpl swapped).renaming.inv_rt = ⟨[], [("_ŠČ0", "_ŠČ1"), ("_ŠČ1", "_ŠČ0")], []⟩ ∧
      alphaRenameC_cr (indexImpl swapped).renaming.inv_rt (unqself_rt (indexImpl swapped).renaming (canon swapped)) = swapped ∧
      canon swapped ≠ swapped) ∧
    (roundTripOK_rt mixed = true ∧
      (indexImpl mixed).renaming.inv_rt = ⟨[("_ŠČ0", "a")], [("_ŠČ1", "T"), ("_ŠČ3", "U")], [("_ŠČ2", "N")]⟩ ∧
      alphaRenameC_cr (indexImpl mixed).renaming.inv_rt (unqself_rt (indexImpl mixed).renaming (canon mixed)) = mixed ∧
      canon mixed ≠ mixed) := by
  refine ⟨⟨?_, ?_, ?_, ?_⟩, ⟨?_, ?_, ?_, ?_⟩, ?_, ?_, ?_, ?_⟩ <;> with_unfolding_all decide

/-- non-vacuity of `C13_same_canon_only_if_renaming` (and of the `alphaRename` form, and of the equivalence): `named`
    against `impl<B, A: Tr<B>> Kita for (A, A::Target)`, `mixed` against the block with `'a ↦ 'b`, `T` and `U` swapped,
    `N ↦ M`, `swapped` against its respelling by reserved names — the hypotheses hold, the canonical blocks are equal, the
    computed renamings are the expected ones (none is the identity), in both directions -/
theorem C13_same_canon_examples :
    (roundTripOK_rt named = true ∧ roundTripOK_rt namedAB = true ∧ canon named = canon namedAB ∧
      renamingBetween_rt named namedAB = ⟨[], [("T", "A"), ("U", "B")], []⟩ ∧
      alphaRenameC_cr (renamingBetween_rt named namedAB) named = namedAB ∧
      renamingBetween_rt namedAB named = ⟨[], [("A", "T"), ("B", "U")], []⟩ ∧
      alphaRenameC_cr (renamingBetween_rt namedAB named) namedAB = named ∧
      formOK (renamingBetween_rt named namedAB) = true ∧ alphaOK (renamingBetween_rt named namedAB) named = true) ∧
    (roundTripOK_rt mixed = true ∧ roundTripOK_rt mixedRenamed = true ∧ canon mixed = canon mixedRenamed ∧
      renamingBetween_rt mixed mixedRenamed = ⟨[("a", "b")], [("T", "U"), ("U", "T")], [("N", "M")]⟩ ∧
      alphaRenameC_cr (renamingBetween_rt mixed mixedRenamed) mixed = mixedRenamed ∧ mixedRenamed ≠ mixed ∧
      formOK (renamingBetween_rt mixed mixedRenamed) = true ∧ alphaOK (renamingBetween_rt mixed mixedRenamed) mixed = true) ∧
    (roundTripOK_rt swapped = true ∧ roundTripOK_rt swappedRenamed = true ∧ canon swapped = canon swappedRenamed ∧
      renamingBetween_rt swapped swappedRenamed = ⟨[], [("_ŠČ1", "_ŠČ5"), ("_ŠČ0", "_ŠČ1")], []⟩ ∧
      alphaRenameC_cr (renamingBetween_rt swapped swappedRenamed) swapped = swappedRenamed ∧ swappedRenamed ≠ swapped) := by
  refine ⟨⟨?_, ?_, ?_, ?_, ?_, ?_, ?_, ?_, ?_⟩, ⟨?_, ?_, ?_, ?_, ?_, ?_, ?_, ?_⟩, ?_, ?_, ?_, ?_, ?_, ?_⟩
  all_goals first | with_unfolding_all decide | decide +kernel

/-- non-vacuity of the tree-level theorems: `C13_unqself_undoes_qself` on the renamed self type of `named` (the presentation
    change applies), `C13_renamings_compose` / `C13_inverse_renaming` for the computed renaming of `named` and its inverse -/
theorem C13_round_trip_tree_examples :
    (qsInvOK_rt ["_ŠČ0", "_ŠČ1"].contains (tuple [.tparam "_ŠČ0", tyPath [seg "_ŠČ0", seg "Target"]]) = true ∧
      qsT_cr ["_ŠČ0", "_ŠČ1"].contains (tuple [.tparam "_ŠČ0", tyPath [seg "_ŠČ0", seg "Target"]]) ≠
        tuple [.tparam "_ŠČ0", tyPath [seg "_ŠČ0", seg "Target"]] ∧
      unqsT_rt ["_ŠČ0", "_ŠČ1"].contains (qsT_cr ["_ŠČ0", "_ŠČ1"].contains (tuple [.tparam "_ŠČ0", tyPath [seg "_ŠČ0", seg "Target"]])) =
        tuple [.tparam "_ŠČ0", tyPath [seg "_ŠČ0", seg "Target"]]) ∧
    (acOK_rt (indexImpl named).renaming named = true ∧ declsFresh_rt (indexImpl named).renaming named = true ∧
      loneOK_rt (indexImpl named).renaming named = true ∧ decNF_cr named = true ∧
      (indexImpl named).renaming.comp_rt (indexImpl named).renaming.inv_rt = ⟨[], [("T", "T"), ("U", "U")], []⟩ ∧
      ((indexImpl named).renaming.comp_rt (indexImpl named).renaming.inv_rt).isId = true) := by
  refine ⟨⟨?_, ?_, ?_⟩, ?_, ?_, ?_, ?_, ?_, ?_⟩ <;> with_unfolding_all decide

/-- non-vacuity of `C13_renamings_compose` / `C13_block_renamings_compose`: `CompOK_rt` holds for the renaming computed for
    `named` and the inverse of the one computed for `impl<B, A: Tr<B>> Kita for (A, A::Target)` -/
example : CompOK_rt (indexImpl named).renaming (indexImpl namedAB).renaming.inv_rt ∧
    acOK_rt (indexImpl named).renaming named = true ∧ declsFresh_rt (indexImpl named).renaming named = true :=
  ⟨compOK_inv_rt (renaming_invOK_rt named) (by with_unfolding_all decide) (by with_unfolding_all decide)
    (by with_unfolding_all decide), by with_unfolding_all decide, by with_unfolding_all decide⟩

/-- non-vacuity of `C13_same_resolved_only_if_renaming`: the self types `(T, T::Target)` of `named` and `(A, A::Target)` of
    `impl<B, A: Tr<B>> Kita for (A, A::Target)` under the renamings computed for the two blocks — same names handed out, same
    resolved tree, all side conditions hold, and the conclusion computed -/
theorem C13_same_resolved_example :
    let r := (indexImpl named).renaming
    let r' := (indexImpl namedAB).renaming
    let t := tuple [tyPath [seg "T"], tyPath [seg "T", seg "Target"]]
    let t' := tuple [tyPath [seg "A"], tyPath [seg "A", seg "Target"]]
    (r'.lt.map Prod.snd = r.lt.map Prod.snd ∧ r'.ty.map Prod.snd = r.ty.map Prod.snd ∧ r'.co.map Prod.snd = r.co.map Prod.snd) ∧
    (renOK_cr r.tyNames_cr.contains r t = true ∧ renOK_cr r'.tyNames_cr.contains r' t' = true) ∧
    (qsInvOK_rt r.tyNames_cr.contains (acT_cr r t) = true ∧ qsInvOK_rt r'.tyNames_cr.contains (acT_cr r' t') = true) ∧
    (acOK_rt r t = true ∧ acOK_rt r' t' = true ∧ decNF_cr t' = true) ∧
    rsT r t = rsT r' t' ∧ acT_cr (r.comp_rt r'.inv_rt) t = t' ∧ t ≠ t' := by
  refine ⟨⟨?_, ?_, ?_⟩, ⟨?_, ?_⟩, ⟨?_, ?_⟩, ⟨?_, ?_, ?_⟩, ?_, ?_, ?_⟩ <;> with_unfolding_all decide

/-- **the clauses of `roundTripOK_rt` are needed**: five blocks inside `canonWF`, each violating exactly one clause (see
    `C13_round_trip_one_clause_each`), and the round trip fails on each of them:
    `impl<T> Kita for <T>::A` (the user wrote the qualified form; it is printed like `T::A`, and the round trip returns
    `T::A`), `impl<T> Kita for [u8; #[a] T::N]` (attributes on a path the presentation change rewrites), `impl<T> Kita for T`
    with `T` as a reserved-form leaf (not in decoder normal form), a lone path with an atom, `[T; #[a] N]` (attributes on a
    lone parameter expression, dropped by the resolver) -/
theorem C13_round_trip_clauses_needed :
    (roundTripOK_rt rtQself = false ∧ rtHolds rtQself = false) ∧
    (roundTripOK_rt rtExprAttr = false ∧ rtHolds rtExprAttr = false) ∧
    (roundTripOK_rt rtLeaf = false ∧ rtHolds rtLeaf = false) ∧
    (roundTripOK_rt rtAtoms = false ∧ rtHolds rtAtoms = false) ∧
    (roundTripOK_rt crAttr = false ∧ rtHolds crAttr = false) := by
  refine ⟨⟨?_, ?_⟩, ⟨?_, ?_⟩, ⟨?_, ?_⟩, ⟨?_, ?_⟩, ?_, ?_⟩ <;> with_unfolding_all decide

/-- … and only that clause (`canonWF`, `decNF_cr`, `loneOK_rt`, `qsInvOK_rt`) -/
theorem C13_round_trip_one_clause_each :
    [rtQself, rtExprAttr, rtLeaf, rtAtoms, crAttr].map rtClauses =
    [(true, true, true, false), (true, true, true, false), (true, false, true, true),
     (true, true, false, true), (true, true, false, true)] := by
  with_unfolding_all decide

/-- **the presentation change is not injective** (the clause `qsInvOK_rt` is needed for the converse as well):
    `impl<T> Kita for <T>::A` and `impl<T> Kita for T::A` receive the same canonical block and are NOT textual renamings of
    each other (the computed renaming is the identity `T ↦ T`). They denote the same type in Rust — `<T>::A` and `T::A` are
    the same path for a type parameter `T` — so nothing is wrong with the code; the second block satisfies the condition -/
theorem C13_same_canon_qself_counterexample :
    canon rtQself = canon rtPlain ∧ roundTripOK_rt rtQself = false ∧ roundTripOK_rt rtPlain = true ∧
    renamingBetween_rt rtQself rtPlain = ⟨[], [("T", "T")], []⟩ ∧
    alphaRenameC_cr (renamingBetween_rt rtQself rtPlain) rtQself ≠ rtPlain := by
  refine ⟨?_, ?_, ?_, ?_, ?_⟩ <;> with_unfolding_all decide

/-- **dead parameters (finding D21)**: `impl<T, D> Kita for T` and `impl<T, E> Kita for T` ARE renamings of each other
    (`D ↦ E`), both satisfy `roundTripOK_rt` (the round trip holds: the unused `D` keeps its spelling in the canonical block
    and is not touched by `r⁻¹`), and they receive DIFFERENT canonical blocks: the ONLY-IF direction
    (`C13_same_canon_only_if_renaming`) is a theorem, the IF direction needs `deadFixed` (`C13_alpha_dead_counterexample`) -/
theorem C13_converse_dead_parameter_example :
    roundTripOK_rt alphaDead = true ∧ roundTripOK_rt alphaDeadE = true ∧ rtHolds alphaDead = true ∧
    alphaRename piDead alphaDead = alphaDeadE ∧ canon alphaDead ≠ canon alphaDeadE ∧
    (implParams (canon alphaDead)).map paramIdent = [some "_ŠČ0", some "D"] ∧
    (implParams (canon alphaDeadE)).map paramIdent = [some "_ŠČ0", some "E"] := by
  refine ⟨?_, ?_, ?_, ?_, ?_, ?_, ?_⟩ <;> with_unfolding_all decide

/-- **const parameter in type position (finding D24)**: `impl<T, const N: usize> Kita for (W<T, N>, [T; N])` and
    `impl<T, const M: usize> Kita for (W<T, N>, [T; M])` satisfy `roundTripOK_rt`, receive the SAME canonical block
    (`W<_ŠČ0, N>` keeps the `N` the code does not see), and the second is the textual renaming of the first by `N ↦ M` in the
    const name space — as the theorem says. In Rust's sense they are not renamings of each other (in the second block `N`
    is not declared at all): "renaming" in `C13_same_canon_only_if_renaming` has the per-position name spaces of the code -/
theorem C13_converse_const_generic_arg_example :
    roundTripOK_rt crConstArg = true ∧ roundTripOK_rt crConstArgM = true ∧ canon crConstArg = canon crConstArgM ∧
    renamingBetween_rt crConstArg crConstArgM = ⟨[], [("T", "T")], [("N", "M")]⟩ ∧
    alphaRenameC_cr (renamingBetween_rt crConstArg crConstArgM) crConstArg = crConstArgM ∧ rtHolds crConstArg = true := by
  refine ⟨?_, ?_, ?_, ?_, ?_, ?_⟩ <;> with_unfolding_all decide
end RoundTripExamples

/-! ## The converse of alpha-invariance for HEADERS (what the grouping relies on)

`mkBuckets` groups the canonical blocks by `groupIdOf` = `mkHdr` (trait path, self type). `C13_alpha_header*` /
`C06_renamed_permuted_same_header` say: blocks whose headers are equal up to renaming land in one bucket. This section is
the ONLY-IF half: two blocks land in one bucket only if their headers are textual renamings of each other.
Definitions (`Lemmas/CanonHeaderConverseDefs.lean`, all executable): `hdrIx_hc item` = the indexer run on the header ALONE
from the start state of the block (`ixInit item`: the declared names), `hdrRenaming_hc item` the renaming read off it (`rH`),
`hdrRenamingBetween_hc item item'` = `rH ; rH'⁻¹`. The ONE side condition `hdrConverseOK_hc item` (on the block BEFORE
canonicalisation):
* `canonWF item`          the condition of idempotence;
* `hdrFirst_hc item`      the indexer reaches trait path and self type first: attributes, `default`, `unsafe`, the skipped
                          `Generics` node and the `!` of a negative impl hand out no number (state-based, exact);
* `ixVis (mkHdr item)`    the indexer visits every parameter position of the header (no nested `Generics` node; the
                          attributes of an expression path are an ignored child);
* `hdrShapeOK_hc item`    the four executable conditions of the tree-level converse `C13_same_resolved_only_if_renaming`
                          for the header and `rH` (`renOK_cr`, `qsInvOK_rt`, `acOK_rt`, `decNF_cr`);
* `strayFree_hc item`     no identifier in parameter position of the CANONICAL header is a reserved identifier `_ŠČ…` that
                          is not the new spelling of a declared parameter of ITS position (lifetime / type / const). Needed:
                          `C13_same_header_stray_counterexamples` — `impl<T> Kita for (T, _ŠČ1)` lands in the bucket of
                          `impl<T, U> Kita for (T, U)`. -/

/-- **(b) the header of the canonical block is the resolver applied to the header** (`r` the computed renaming of the whole
    block) — no side condition at all (for a tree that is not an `ItemImpl` both sides are the empty header) -/
theorem C13_header_of_canon (item : T) : groupIdOf (canon item) = rsT (indexImpl item).renaming (groupIdOf item) :=
  mkHdr_canon_hc item

/-- … for the trait path and the self type separately -/
theorem C13_header_parts_of_canon (item : T) :
    implTraitPath (canon item) = (implTraitPath item).map (rsT (indexImpl item).renaming) ∧
    implSelfTy (canon item) = (implSelfTy item).map (rsT (indexImpl item).renaming) :=
  ⟨implTraitPath_canon_hc item, implSelfTy_canon_hc item⟩

/-- **the numbering of the header's parameters depends on the header alone**: when the indexer reaches the header first
    (`hdrFirst_hc`, executable), the renaming computed for the block starts, in each of the three name spaces, with the
    renaming `hdrRenaming_hc item` that the indexer computes for the header ALONE (from the declared names and the tree
    `mkHdr item`, nothing else — `C13_header_numbering_depends_on_header_only`); items, inline bounds and where-clause
    only append -/
theorem C13_header_numbering_local (item : T) (hf : hdrFirst_hc item = true) :
    ∃ e : Renaming, (indexImpl item).renaming.lt = (hdrRenaming_hc item).lt ++ e.lt ∧
      (indexImpl item).renaming.ty = (hdrRenaming_hc item).ty ++ e.ty ∧
      (indexImpl item).renaming.co = (hdrRenaming_hc item).co ++ e.co := by
  obtain ⟨l1, e1⟩ := hdr_prefix_hc item hf .lt
  obtain ⟨l2, e2⟩ := hdr_prefix_hc item hf .ty
  obtain ⟨l3, e3⟩ := hdr_prefix_hc item hf .co
  exact ⟨⟨l1, l2, l3⟩, e1, e2, e3⟩

/-- two blocks with the same declared names (`ixInit`: the three lists of declared lifetime / type / const names) and the
    same header have the same header renaming — whatever their items, bounds and where-clauses are -/
theorem C13_header_numbering_depends_on_header_only (item item' : T) (ed : ixInit item = ixInit item')
    (eh : mkHdr item = mkHdr item') : hdrRenaming_hc item = hdrRenaming_hc item' := by
  unfold hdrRenaming_hc hdrIx_hc
  rw [ed, eh]

/-- **every renamed parameter that occurs in the header is numbered by the header alone**: the resolver of the block acts
    on the header like the resolver of the header's own renaming. Side conditions (executable): `canonWF item` (only
    `namesDistinct` and `deadFresh` are used), `hdrFirst_hc item`, `ixVis (mkHdr item)` -/
theorem C13_header_resolved_locally (item : T) (hwf : canonWF item = true) (hf : hdrFirst_hc item = true)
    (hv : ixVis (mkHdr item) = true) :
    groupIdOf (canon item) = rsT (hdrRenaming_hc item) (groupIdOf item) :=
  mkHdr_canon_local_hc item hwf hf hv

/-- the header's renaming is invertible (reserved new names, pairwise distinct per name space) — no side condition -/
theorem C13_header_renaming_invertible (item : T) : InvOK_rt (hdrRenaming_hc item) := hdr_invOK_hc item

/-- **(a) equal canonical headers were handed the same names**, per name space and in the order of the numbering (the
    header analogue of `C13_canon_names`). Side conditions (executable, both blocks): `canonWF`, `hdrFirst_hc`,
    `strayFree_hc` -/
theorem C13_same_header_names (item item' : T) (hwf : canonWF item = true) (hwf' : canonWF item' = true)
    (hf : hdrFirst_hc item = true) (hf' : hdrFirst_hc item' = true) (hs : strayFree_hc item = true)
    (hs' : strayFree_hc item' = true) (e : groupIdOf (canon item) = groupIdOf (canon item')) :
    (hdrRenaming_hc item').lt.map Prod.snd = (hdrRenaming_hc item).lt.map Prod.snd ∧
    (hdrRenaming_hc item').ty.map Prod.snd = (hdrRenaming_hc item).ty.map Prod.snd ∧
    (hdrRenaming_hc item').co.map Prod.snd = (hdrRenaming_hc item).co.map Prod.snd :=
  ⟨hdr_names_hc item item' hwf hwf' hf hf' hs hs' e .lt, hdr_names_hc item item' hwf hwf' hf hf' hs hs' e .ty,
    hdr_names_hc item item' hwf hwf' hf hf' hs hs' e .co⟩

/-- **the converse of alpha-invariance for headers**: two blocks receive the same canonical header (the same group id —
    they land in one bucket of `mkBuckets`) ONLY IF their headers are textual renamings of each other: the header of `item'`
    is the header of `item` renamed by the computed renaming `rH ; rH'⁻¹` of the two headers
    (`hdrRenamingBetween_hc item item'`: it pairs the `i`-th numbered parameter of the header of `item` with the `i`-th
    numbered parameter of the header of `item'`, and mentions the parameters of the headers only). Side condition:
    `hdrConverseOK_hc` (executable) for both blocks. Nothing is assumed about items, bounds, where-clauses and parameters
    that do not occur in the header (D21: they may differ arbitrarily, `C13_same_header_examples`). -/
theorem C13_same_header_only_if_renaming (item item' : T) (h : hdrConverseOK_hc item = true)
    (h' : hdrConverseOK_hc item' = true) (e : groupIdOf (canon item) = groupIdOf (canon item')) :
    acT_cr (hdrRenamingBetween_hc item item') (groupIdOf item) = groupIdOf item' :=
  same_header_only_if_renaming_hc item item' h h' e

/-- … for the trait path and the self type separately -/
theorem C13_same_header_only_if_renaming_parts (item item' : T) (h : hdrConverseOK_hc item = true)
    (h' : hdrConverseOK_hc item' = true) (e : groupIdOf (canon item) = groupIdOf (canon item')) :
    (implTraitPath item).map (acT_cr (hdrRenamingBetween_hc item item')) = implTraitPath item' ∧
    (implSelfTy item).map (acT_cr (hdrRenamingBetween_hc item item')) = implSelfTy item' :=
  same_header_parts_hc item item' h h' e

namespace Ex13
/-- `impl<T> Kita for (T, _ŠČ1) {}`: a concrete type spelled like a reserved identifier (the decoder makes it a leaf) -/
def hcStray : T := implOf [tyParam "T" []] (tuple [tyPath [seg "T"], .tparam "_ŠČ1"])
/-- `impl<T, U> Kita for (T, U) {}` -/
def hcTwo : T := implOf [tyParam "T" [], tyParam "U" []] (tuple [tyPath [seg "T"], tyPath [seg "U"]])
/-- `impl<T> Kita for [u8; T] {}`: a type parameter as a lone expression (rejected by rustc) -/
def hcKindTy : T := implOf [tyParam "T" []] (array (tyPath [seg "u8"]) (exprPath [seg "T"]))
/-- `impl<const N: usize> Kita for [u8; N] {}` -/
def hcKindCo : T := implOf [coParam "N"] (array (tyPath [seg "u8"]) (exprPath [seg "N"]))
def hcRef (l : String) (t : T) : T := .node "Type::Reference" [] [lifetime l, t]
/-- `impl<'a> Kita for (_ŠČ0, &'a u8) {}` -/
def hcLtA : T := implOf [ltParam "a"] (tuple [.tparam "_ŠČ0", hcRef "a" (tyPath [seg "u8"])])
/-- `impl<T> Kita for (T, &'_ŠČ0 u8) {}` -/
def hcLtB : T := implOf [tyParam "T" []] (tuple [tyPath [seg "T"], hcRef "_ŠČ0" (tyPath [seg "u8"])])
/-- the five clauses of `hdrConverseOK_hc` -/
def hcClauses (item : T) : Bool × Bool × Bool × Bool × Bool :=
  (canonWF item, hdrFirst_hc item, ixVis (mkHdr item), hdrShapeOK_hc item, strayFree_hc item)
end Ex13

section HeaderConverseExamples
open Ex13
set_option maxRecDepth 100000

/-- non-vacuity of `C13_header_of_canon`, `C13_header_numbering_local`, `C13_header_resolved_locally`: on `mixed`
    (`impl<'a, T: Tr<U>, U, const N: usize> Kita<'a> for [T; N] where U: Tr<T::Target>`) the header hands out `'a ↦ _ŠČ0,
    T ↦ _ŠČ1, N ↦ _ŠČ2`; `U` is numbered later (`_ŠČ3`, through the bound of `T`) and is appended; the canonical header is
    computed by the header's renaming; the renaming is not the identity -/
theorem C13_header_local_examples :
    (hdrFirst_hc mixed = true ∧ canonWF mixed = true ∧ ixVis (mkHdr mixed) = true ∧
      hdrRenaming_hc mixed = ⟨[("a", "_ŠČ0")], [("T", "_ŠČ1")], [("N", "_ŠČ2")]⟩ ∧
      (indexImpl mixed).renaming = ⟨[("a", "_ŠČ0")], [("T", "_ŠČ1"), ("U", "_ŠČ3")], [("N", "_ŠČ2")]⟩ ∧
      groupIdOf (canon mixed) = rsT (hdrRenaming_hc mixed) (groupIdOf mixed) ∧
      groupIdOf (canon mixed) = rsT (indexImpl mixed).renaming (groupIdOf mixed) ∧ groupIdOf (canon mixed) ≠ groupIdOf mixed) ∧
    (hdrFirst_hc named = true ∧ hdrRenaming_hc named = ⟨[], [("T", "_ŠČ0")], []⟩ ∧
      (indexImpl named).renaming = ⟨[], [("T", "_ŠČ0"), ("U", "_ŠČ1")], []⟩) := by
  refine ⟨⟨?_, ?_, ?_, ?_, ?_, ?_, ?_, ?_⟩, ?_, ?_, ?_⟩ <;> with_unfolding_all decide

/-- non-vacuity of `C13_header_numbering_depends_on_header_only`: `named` (`impl<U, T: Tr<U>> Kita for (T, T::Target)`) and
    the block `impl<U, T> Kita for (T, T::Target)` without the bound have the same declared names and the same header; the
    renamings computed for the whole blocks differ (`U` is numbered in the first one only) -/
example : ixInit named = ixInit (implOf [tyParam "U" [], tyParam "T" []] (tuple [tyPath [seg "T"], tyPath [seg "T", seg "Target"]])) ∧
    mkHdr named = mkHdr (implOf [tyParam "U" [], tyParam "T" []] (tuple [tyPath [seg "T"], tyPath [seg "T", seg "Target"]])) ∧
    (indexImpl named).renaming ≠
      (indexImpl (implOf [tyParam "U" [], tyParam "T" []] (tuple [tyPath [seg "T"], tyPath [seg "T", seg "Target"]]))).renaming := by
  refine ⟨?_, ?_, ?_⟩ <;> with_unfolding_all decide

/-- non-vacuity of `C13_same_header_names`, `C13_same_header_only_if_renaming` (and `_parts`): the side condition holds for
    both blocks, the canonical headers are equal, the computed header renamings are the expected ones (not the identity),
    and the conclusion is computed —
    * `named` `impl<U, T: Tr<U>> Kita for (T, T::Target)` against `impl<B, A: Tr<B>> Kita for (A, A::Target)`: only `T ↦ A`
      (`U` / `B` do not occur in the header), in both directions;
    * `mixed` against `mixedRenamed` (`'a ↦ 'b`, `T ↦ U`, `N ↦ M`; the `U ↦ T` of the block-level renaming is not part of the
      header's);
    * **D21**: `impl<T, D> Kita for T` against `impl<T, E> Kita for T` — DIFFERENT canonical blocks
      (`C13_converse_dead_parameter_example`), the SAME canonical header, and the header theorem applies (the renaming is
      `T ↦ T`);
    * **D24**: `impl<T, const N: usize> Kita for (W<T, N>, [T; N])` against `impl<T, const M: usize> Kita for (W<T, N>, [T; M])`:
      same canonical header, the header of the second is the textual renaming `N ↦ M` (const name space only) of the first -/
theorem C13_same_header_examples :
    (hdrConverseOK_hc named = true ∧ hdrConverseOK_hc namedAB = true ∧ groupIdOf (canon named) = groupIdOf (canon namedAB) ∧
      hdrRenamingBetween_hc named namedAB = ⟨[], [("T", "A")], []⟩ ∧
      acT_cr (hdrRenamingBetween_hc named namedAB) (groupIdOf named) = groupIdOf namedAB ∧
      hdrRenamingBetween_hc namedAB named = ⟨[], [("A", "T")], []⟩ ∧
      acT_cr (hdrRenamingBetween_hc namedAB named) (groupIdOf namedAB) = groupIdOf named ∧ groupIdOf named ≠ groupIdOf namedAB) ∧
    (hdrConverseOK_hc mixed = true ∧ hdrConverseOK_hc mixedRenamed = true ∧
      groupIdOf (canon mixed) = groupIdOf (canon mixedRenamed) ∧
      hdrRenamingBetween_hc mixed mixedRenamed = ⟨[("a", "b")], [("T", "U")], [("N", "M")]⟩ ∧
      acT_cr (hdrRenamingBetween_hc mixed mixedRenamed) (groupIdOf mixed) = groupIdOf mixedRenamed ∧
      groupIdOf mixed ≠ groupIdOf mixedRenamed) ∧
    (hdrConverseOK_hc alphaDead = true ∧ hdrConverseOK_hc alphaDeadE = true ∧ canon alphaDead ≠ canon alphaDeadE ∧
      groupIdOf (canon alphaDead) = groupIdOf (canon alphaDeadE) ∧
      hdrRenamingBetween_hc alphaDead alphaDeadE = ⟨[], [("T", "T")], []⟩ ∧
      acT_cr (hdrRenamingBetween_hc alphaDead alphaDeadE) (groupIdOf alphaDead) = groupIdOf alphaDeadE) ∧
    (hdrConverseOK_hc crConstArg = true ∧ hdrConverseOK_hc crConstArgM = true ∧
      groupIdOf (canon crConstArg) = groupIdOf (canon crConstArgM) ∧
      hdrRenamingBetween_hc crConstArg crConstArgM = ⟨[], [("T", "T")], [("N", "M")]⟩ ∧
      acT_cr (hdrRenamingBetween_hc crConstArg crConstArgM) (groupIdOf crConstArg) = groupIdOf crConstArgM ∧
      groupIdOf crConstArg ≠ groupIdOf crConstArgM) := by
  refine ⟨⟨?_, ?_, ?_, ?_, ?_, ?_, ?_, ?_⟩, ⟨?_, ?_, ?_, ?_, ?_, ?_⟩, ⟨?_, ?_, ?_, ?_, ?_, ?_⟩, ?_, ?_, ?_, ?_, ?_, ?_⟩
  all_goals first | with_unfolding_all decide | decide +kernel

/-- non-vacuity of `C13_same_header_only_if_renaming_parts`: trait path and self type of `named` / `namedAB` -/
example : (implTraitPath named).map (acT_cr (hdrRenamingBetween_hc named namedAB)) = implTraitPath namedAB ∧
    (implSelfTy named).map (acT_cr (hdrRenamingBetween_hc named namedAB)) = implSelfTy namedAB ∧
    implSelfTy named ≠ implSelfTy namedAB := by
  refine ⟨?_, ?_, ?_⟩ <;> with_unfolding_all decide

/-- headers that are NOT renamings of each other get different group ids: `(T, T::Target)` (`named`) against `(T, U)` —
    both satisfy the side condition, the computed renaming does not map one header to the other, and (as
    `C13_same_header_only_if_renaming` says, contrapositively) the canonical headers differ -/
theorem C13_different_headers_example :
    hdrConverseOK_hc named = true ∧ hdrConverseOK_hc hcTwo = true ∧
    acT_cr (hdrRenamingBetween_hc named hcTwo) (groupIdOf named) ≠ groupIdOf hcTwo ∧
    groupIdOf (canon named) ≠ groupIdOf (canon hcTwo) := by
  refine ⟨?_, ?_, ?_, ?_⟩ <;> with_unfolding_all decide

/-- **the clause `strayFree_hc` is needed** — without it the full-strength statement is false, three closed witnesses, one
    per position, each inside `canonWF` and inside every other clause of `hdrConverseOK_hc` (and the first inside
    `roundTripOK_rt`):
    * TYPE position: `impl<T> Kita for (T, _ŠČ1)` (a concrete type spelled `_ŠČ1`) and `impl<T, U> Kita for (T, U)` receive
      the SAME canonical header `(_ŠČ0, _ŠČ1)` — the two blocks land in one bucket although `(T, _ŠČ1)` is not a renaming of
      `(T, U)`; only the reserved spelling `_ŠČ…` of the user's type makes this possible;
    * EXPRESSION position: `impl<T> Kita for [u8; T]` (a type parameter as a lone expression — rejected by rustc) and
      `impl<const N: usize> Kita for [u8; N]` receive the same canonical header `[u8; _ŠČ0]`;
    * LIFETIME position: `impl<'a> Kita for (_ŠČ0, &'a u8)` and `impl<T> Kita for (T, &'_ŠČ0 u8)` receive the same canonical
      header `(_ŠČ0, &'_ŠČ0 u8)`.
    In each pair the headers are not textual renamings of each other by the computed renaming, and the names handed out
    differ -/
theorem C13_same_header_stray_counterexamples :
    (hcClauses hcStray = (true, true, true, true, false) ∧ hdrConverseOK_hc hcTwo = true ∧ roundTripOK_rt hcStray = true ∧
      groupIdOf (canon hcStray) = groupIdOf (canon hcTwo) ∧
      hdrRenamingBetween_hc hcStray hcTwo = ⟨[], [("T", "T")], []⟩ ∧
      acT_cr (hdrRenamingBetween_hc hcStray hcTwo) (groupIdOf hcStray) ≠ groupIdOf hcTwo ∧
      (hdrRenaming_hc hcTwo).ty.map Prod.snd ≠ (hdrRenaming_hc hcStray).ty.map Prod.snd) ∧
    (hcClauses hcKindTy = (true, true, true, true, false) ∧ hdrConverseOK_hc hcKindCo = true ∧
      groupIdOf (canon hcKindTy) = groupIdOf (canon hcKindCo) ∧
      acT_cr (hdrRenamingBetween_hc hcKindTy hcKindCo) (groupIdOf hcKindTy) ≠ groupIdOf hcKindCo ∧
      (hdrRenaming_hc hcKindCo).ty.map Prod.snd ≠ (hdrRenaming_hc hcKindTy).ty.map Prod.snd) ∧
    (hcClauses hcLtA = (true, true, true, true, false) ∧ hcClauses hcLtB = (true, true, true, true, false) ∧
      groupIdOf (canon hcLtA) = groupIdOf (canon hcLtB) ∧
      acT_cr (hdrRenamingBetween_hc hcLtA hcLtB) (groupIdOf hcLtA) ≠ groupIdOf hcLtB ∧
      (hdrRenaming_hc hcLtB).lt.map Prod.snd ≠ (hdrRenaming_hc hcLtA).lt.map Prod.snd) := by
  refine ⟨⟨?_, ?_, ?_, ?_, ?_, ?_, ?_⟩, ⟨?_, ?_, ?_, ?_, ?_⟩, ?_, ?_, ?_, ?_, ?_⟩
  all_goals first | with_unfolding_all decide | decide +kernel

/-- the full-strength statement (no `strayFree_hc`) is false -/
theorem C13_same_header_only_if_renaming_counterexample :
    ¬ ∀ (item item' : T), roundTripOK_rt item = true → canonWF item' = true →
        groupIdOf (canon item) = groupIdOf (canon item') →
        acT_cr (hdrRenamingBetween_hc item item') (groupIdOf item) = groupIdOf item' := by
  intro hall
  obtain ⟨⟨_, h2, h3, h4, _, h6, _⟩, _⟩ := C13_same_header_stray_counterexamples
  exact h6 (hall hcStray hcTwo h3 (hdrConverseOK_parts_hc h2).1 h4)

/-- the presentation clause is needed as well (as for blocks, `C13_same_canon_qself_counterexample`): `impl<T> Kita for
    <T>::A` and `impl<T> Kita for T::A` have the same canonical header and are not textual renamings of each other; the
    first violates `hdrShapeOK_hc` (its `qsInvOK_rt` clause) only -/
theorem C13_same_header_qself_counterexample :
    hcClauses rtQself = (true, true, true, false, true) ∧ hdrConverseOK_hc rtPlain = true ∧
    groupIdOf (canon rtQself) = groupIdOf (canon rtPlain) ∧
    acT_cr (hdrRenamingBetween_hc rtQself rtPlain) (groupIdOf rtQself) ≠ groupIdOf rtPlain := by
  refine ⟨?_, ?_, ?_, ?_⟩ <;> with_unfolding_all decide
end HeaderConverseExamples

end DI
