/-
  C13 — parameter canonicalisation (`param.rs`, model `Canon.lean`): property theorems.
  Proofs are in `Lemmas/CanonLemmas.lean` (which uses `Nat.repr_injective` from Std through `Lemmas/Names.lean`).

  Indexer: every traversal (`ixT`, `ixL`, `ixRound`, `ixLoop`, `indexImpl`) is a composition of the primitive
  steps `ltIdent` / `tyIdent` / `coIdent` (`IxRel`, `ixT_rel` …), so anything the primitive steps preserve is
  preserved. `IxInv s`: the indices handed out are exactly `0 … next-1`, each once, across the three kinds
  (`IdxInv`), and per kind no name occurs twice among the indexed and the not yet indexed parameters.
  Resolver: `rsT` rewrites lifetimes and the first segment of type / expression paths only.
  Idempotence (`C13_canon_idem`): `canon (canon x) = canon x` under the executable condition `canonWF x`
  (`CanonWF.lean`; proofs in `Lemmas/CanonIdem.lean`): indexing commutes with the resolver when the names of the
  indexer state are renamed along (`C13_index_commutes`, `C13_indexImpl_commutes`), so the renaming computed for
  `canon x` is the identity and `canon x` is a fixed point by `C13_canon_fixed`. Every clause of `canonWF` is needed
  (`C13_canonWF_clauses_needed`).
-/
import DisjointImpls.Lemmas.CanonLemmas
import DisjointImpls.Lemmas.CanonIdem
namespace DI

/-! ## The indexer -/

theorem C13_ix_preserves (s : IxState) (t : T) : IxInv s → IxInv (ixT s t) := ixT_rel ixInv_rel t s
theorem C13_ixL_preserves (s : IxState) (ts : List T) : IxInv s → IxInv (ixL s ts) :=
  ixL_rel ixInv_rel ts (fun t _ => ixT_rel ixInv_rel t) s
theorem C13_ixRound_preserves (s : IxState) (g : T) : IxInv s → IxInv (ixRound s g) := ixRound_rel ixInv_rel s g
theorem C13_ixLoop_preserves (fuel prev : Nat) (s : IxState) (g : T) : IxInv s → IxInv (ixLoop fuel prev s g) :=
  ixLoop_rel ixInv_rel fuel prev s g

/-- the declared parameter names of an impl, per kind (what the indexer starts from) -/
def declaredLt (item : T) : List String := (ixInit item).unLt
def declaredTy (item : T) : List String := (ixInit item).unTy
def declaredCo (item : T) : List String := (ixInit item).unCo

/-- the invariant holds after indexing an impl whose declared names are distinct per kind -/
theorem C13_indexImpl_inv (item : T) (hlt : (declaredLt item).Nodup) (hty : (declaredTy item).Nodup)
    (hco : (declaredCo item).Nodup) : IxInv (indexImpl item) :=
  indexImpl_inv item hlt hty hco

/-- the indices are exactly `0 … next-1`, each used once — no hypothesis needed -/
theorem C13_indices_exact (item : T) :
    (indexImpl item).idxs.Nodup ∧ (∀ i, i ∈ (indexImpl item).idxs ↔ i < (indexImpl item).next) ∧
    (indexImpl item).idxs.length = (indexImpl item).next :=
  indexImpl_idxInv item

/-- distinct parameters receive distinct canonical names, and the names used are exactly
    `_ŠČ0 … _ŠČ(next-1)`: the new names are the images of the indices under the injective `genIndexedIdent` -/
theorem C13_injective (item : T) :
    let s := indexImpl item
    let r := s.renaming
    ((r.lt ++ r.ty ++ r.co).map Prod.snd).Nodup ∧
    (∀ x, x ∈ (r.lt ++ r.ty ++ r.co).map Prod.snd ↔ ∃ i, i < s.next ∧ x = genIndexedIdent i) ∧
    (∀ i j, genIndexedIdent i = genIndexedIdent j → i = j) := by
  intro s r
  obtain ⟨h1, h2, _⟩ := indexImpl_idxInv item
  have hr : (r.lt ++ r.ty ++ r.co).map Prod.snd = s.idxs.map genIndexedIdent := renaming_new_names s
  refine ⟨?_, ?_, fun i j => genIndexedIdent_inj⟩
  · rw [hr]
    exact List.Pairwise.map genIndexedIdent (fun a b hab e => hab (genIndexedIdent_inj e)) h1
  · intro x
    rw [hr, List.mem_map]
    constructor
    · rintro ⟨i, hi, rfl⟩; exact ⟨i, (h2 i).1 hi, rfl⟩
    · rintro ⟨i, hi, rfl⟩; exact ⟨i, (h2 i).2 hi, rfl⟩

/-- only declared parameters are ever indexed: per kind, the indexed names together with the not yet indexed
    ones are a rearrangement of the declared names (so nothing is invented, nothing is lost) -/
theorem C13_indexed_are_declared (item : T) :
    let s := indexImpl item
    (s.ixLt.map Prod.fst ++ s.unLt).Perm (declaredLt item) ∧
    (s.ixTy.map Prod.fst ++ s.unTy).Perm (declaredTy item) ∧
    (s.ixCo.map Prod.fst ++ s.unCo).Perm (declaredCo item) := by
  have := indexImpl_rel sameNames_rel item
  simpa [SameNames, IxState.namesLt, IxState.namesTy, IxState.namesCo, ixInit, declaredLt, declaredTy,
    declaredCo] using this

/-- … and each at most once: with distinct declared names, no name is indexed twice and no indexed name is
    still waiting -/
theorem C13_indexed_once (item : T) (hty : (declaredTy item).Nodup) :
    ((indexImpl item).ixTy.map Prod.fst).Nodup ∧
    (∀ x ∈ (indexImpl item).ixTy.map Prod.fst, x ∈ declaredTy item ∧ x ∉ (indexImpl item).unTy) := by
  have hp := (C13_indexed_are_declared item).2.1
  have hn := hp.nodup_iff.2 hty
  rw [List.nodup_append] at hn
  refine ⟨hn.1, fun x hx => ⟨hp.mem_iff.1 (List.mem_append.2 (Or.inl hx)), fun hu => hn.2.2 x hx x hu rfl⟩⟩

/-! ## The resolver -/

/-- node kinds other than `Type::Path` / `Expr::Path` are kept, the node is rebuilt around its rewritten
    children (`Ign`, `Eq` leaves and well-formed `Lifetime` nodes have their own statements below) -/
theorem C13_rs_kind_preserved (r : Renaming) (k : String) (as : List String) (ks : List T)
    (h1 : k ≠ "Ign") (h2 : k ≠ "Eq") (h3 : k ≠ "Lifetime") (h4 : k ≠ "Type::Path") (h5 : k ≠ "Expr::Path") :
    rsT r (.node k as ks) = .node k as (rsL r ks) :=
  rsT_other r as ks h1 h2 h3 h4 h5

/-- ignored children and verbatim leaves are never touched -/
theorem C13_rs_ign (r : Renaming) (as : List String) (ks : List T) :
    rsT r (.node "Ign" as ks) = .node "Ign" as ks ∧ rsT r (.node "Eq" as ks) = .node "Eq" as ks :=
  ⟨rsT_ign r as ks, rsT_eq r as ks⟩

/-- an identifier leaf (trait names in bounds, path tails, fields, methods, declared names) is never rewritten
    by the resolver -/
theorem C13_rs_ident (r : Renaming) (x : String) : rsT r (.node "Ident" [x] []) = .node "Ident" [x] [] := by
  rw [rsT_other r _ _ (by decide) (by decide) (by decide) (by decide) (by decide), rsL]

/-- lifetimes are renamed by the lifetime map only -/
theorem C13_rs_lifetime (r : Renaming) (as : List String) (x : String) :
    rsT r (.node "Lifetime" as [.node "Ident" [x] []]) =
      .node "Lifetime" as [.node "Ident" [(rlookup r.lt x).getD x] []] := rsT_lifetime r as x

/-- with the empty renaming nothing changes -/
theorem C13_rs_empty (t : T) : rsT ⟨[], [], []⟩ t = t := rsT_empty t

/-- the renaming is simultaneous (capture-free): a parameter occurrence is looked up once in the *old* names;
    the name produced is not looked up again -/
theorem C13_rs_simultaneous (r : Renaming) (n : String) :
    rsT r (.tparam n) = .tparam ((rlookup r.ty n).getD n) ∧
    rsT r (.eparam n) = .eparam (((rlookup r.ty n).or (rlookup r.co n)).getD n) :=
  ⟨rsT_tparam r n, rsT_eparam r n⟩

/-- an identity renaming changes nothing on a tree without a path that starts with a renamed name -/
theorem C13_rs_identity (r : Renaming) (hid : r.isId = true) (t : T) (hs : rsStable r t = true) : rsT r t = t :=
  rsT_id r hid t hs

/-- idempotence on canonical input: if the declared names are already the canonical ones in first-occurrence
    order (the computed renaming is the identity) and no path starts with one of them, nothing changes -/
theorem C13_canon_fixed (item : T) (h : alreadyCanonical item = true) : canon item = item := canon_fixed item h


/-! ## Idempotence -/

/-- the commuting lemma: indexing the rewritten tree from the state with renamed names is indexing the tree and
    renaming the names of the resulting state. `Stat c`: only declared names are renamed, the new spelling is
    injective on the declared names across the kinds, no name is declared in two kinds; `Un c s`: the parameters
    still waiting in `s` are declared ones; `rsOK c t`: the executable condition on the tree (`CanonWF.lean`) -/
theorem C13_index_commutes (c : CCtx) (st : Stat c) (t : T) (hok : rsOK c t = true) (s : IxState) (hu : Un c s) :
    ixT (mapS c.r s) (rsT c.r t) = mapS c.r (ixT s t) := ixT_comm c st t hok s hu

/-- `Stat` holds for the renaming the indexer computes, under the executable conditions -/
theorem C13_canonWF_stat (item : T) (hd : namesDistinct (canonCtx item) = true) (hf : deadFresh item = true) :
    Stat (canonCtx item) := canon_stat item hd hf

/-- … through the rounds over the bounds of the indexed parameters and the where-clause as well: indexing the
    canonicalised impl gives the state of the first indexing with the names replaced by their canonical names
    (same indices, same order) -/
theorem C13_indexImpl_commutes (item : T) (h : canonWF item = true) :
    indexImpl (canon item) = mapS (indexImpl item).renaming (indexImpl item) := canonWF_indexImpl_comm item h

/-- the canonicalised impl satisfies the side condition of `C13_canon_fixed` -/
theorem C13_canon_is_canonical (item : T) (h : canonWF item = true) : alreadyCanonical (canon item) = true :=
  canon_alreadyCanonical item h

/-- **idempotence of canonicalisation** -/
theorem C13_canon_idem (item : T) (h : canonWF item = true) : canon (canon item) = canon item := canon_idem item h

/-! ## Closed examples -/

namespace Ex13
def leaf (s : String) : T := .node s [] []
def attrs : T := .node "Ign" [] [.node "List" [] []]
def seg (x : String) : T := .node "PathSegment" [] [.node "Ident" [x] [], leaf "PathArguments::None"]
def path (segs : List T) : T := .node "Path" [] [.node "IgnL" [] [leaf "None"], .node "List" [] segs]
def tyPath (segs : List T) : T := .node "Type::Path" [] [leaf "None", path segs]
def tyParam (x : String) (bounds : List T) : T :=
  .node "GenericParam::Type" [] [.node "TypeParam" [] [attrs, .node "Ident" [x] [], leaf "None",
    .node "List" [] bounds, leaf "None", leaf "None"]]
def traitBound (p : T) : T :=
  .node "TypeParamBound::Trait" [] [.node "TraitBound" [] [leaf "None", leaf "TraitBoundModifier::None", leaf "None", p]]
/-- `name<arg>` as a path -/
def trWith (name : String) (arg : T) : T :=
  path [.node "PathSegment" [] [.node "Ident" [name] [], .node "PathArguments::AngleBracketed" [] [.node "Ign" [] [leaf "None"],
    .node "List" [] [.node "GenericArgument::Type" [] [arg]]]]]
def implOf (params : List T) (self : T) : T :=
  .node "ItemImpl" [] [attrs, leaf "None", leaf "None",
    .node "Generics" [] [leaf "Some", .node "List" [] params, leaf "Some", leaf "None"],
    .node "Some" [] [.node "Tuple" [] [leaf "None", path [seg "Kita"]]], self, .node "List" [] []]
def tuple (ts : List T) : T := .node "Type::Tuple" [] [.node "List" [] ts]

/-- `impl<_ŠČ1: Tr<_ŠČ0>, _ŠČ0> Kita for (_ŠČ1, _ŠČ0) {}`: the two reserved names in the "wrong" order -/
def swapped : T :=
  implOf [tyParam "_ŠČ1" [traitBound (trWith "Tr" (.tparam "_ŠČ0"))], tyParam "_ŠČ0" []] (tuple [.tparam "_ŠČ1", .tparam "_ŠČ0"])
def swappedCanon : T :=
  implOf [tyParam "_ŠČ0" [traitBound (trWith "Tr" (.tparam "_ŠČ1"))], tyParam "_ŠČ1" []] (tuple [.tparam "_ŠČ0", .tparam "_ŠČ1"])

/-- `impl<U, T: Tr<U>> Kita for (T, T::Target) {}`: user names, `U` reached only through the bound of `T`,
    a multi-segment path -/
def named : T :=
  implOf [tyParam "U" [], tyParam "T" [traitBound (trWith "Tr" (tyPath [seg "U"]))]]
    (tuple [tyPath [seg "T"], tyPath [seg "T", seg "Target"]])
def namedCanon : T :=
  implOf [tyParam "_ŠČ1" [], tyParam "_ŠČ0" [traitBound (trWith "Tr" (.tparam "_ŠČ1"))]]
    (tuple [.tparam "_ŠČ0", .node "Type::Path" [] [.node "Some" [] [.node "QSelf" [] [.tparam "_ŠČ0", .node "Atom" ["0"] [], leaf "None"]],
      .node "Path" [] [.node "IgnL" [] [.node "Some" ["PathSep"] []], .node "List" [] [seg "Target"]]]])
def lifetime (x : String) : T := .node "Lifetime" [] [.node "Ident" [x] []]
def ltParam (x : String) : T :=
  .node "GenericParam::Lifetime" [] [.node "LifetimeParam" [] [attrs, lifetime x, leaf "None", .node "List" [] []]]
def coParam (x : String) : T :=
  .node "GenericParam::Const" [] [.node "ConstParam" [] [attrs, .node "Ident" [x] [], tyPath [seg "usize"], leaf "None", leaf "None"]]
def exprPath (segs : List T) : T := .node "Expr::Path" [] [attrs, leaf "None", path segs]
def array (elem len : T) : T := .node "Type::Array" [] [elem, len]
def wherePred (bounded : T) (bounds : List T) : T :=
  .node "WherePredicate::Type" [] [.node "PredicateType" [] [leaf "None", bounded, .node "List" [] bounds]]
/-- like `implOf`, with trait path and where-clause -/
def implOfW (params : List T) (tr : T) (self : T) (preds : List T) : T :=
  .node "ItemImpl" [] [attrs, leaf "None", leaf "None",
    .node "Generics" [] [leaf "Some", .node "List" [] params, leaf "Some",
      .node "Some" [] [.node "WhereClause" [] [.node "List" [] preds]]],
    .node "Some" [] [.node "Tuple" [] [leaf "None", tr]], self, .node "List" [] []]
def kitaLt (x : String) : T :=
  path [.node "PathSegment" [] [.node "Ident" ["Kita"] [], .node "PathArguments::AngleBracketed" [] [.node "Ign" [] [leaf "None"],
    .node "List" [] [.node "GenericArgument::Lifetime" [] [lifetime x]]]]]
def qselfTy (self : T) (segs : List T) : T :=
  .node "Type::Path" [] [.node "Some" [] [.node "QSelf" [] [self, .node "Atom" ["1"] [], leaf "Some"]], path segs]

/-- `impl<'a, T: Tr<U>, U, const N: usize> Kita<'a> for [T; N] where U: Tr<T::Target> {}` -/
def mixed : T :=
  implOfW [ltParam "a", tyParam "T" [traitBound (trWith "Tr" (tyPath [seg "U"]))], tyParam "U" [], coParam "N"]
    (kitaLt "a") (array (tyPath [seg "T"]) (exprPath [seg "N"]))
    [wherePred (tyPath [seg "U"]) [traitBound (trWith "Tr" (tyPath [seg "T", seg "Target"]))]]

/-- `impl<_ŠČ0: Tr<U>, T, U> Kita for T {}` -/
def cxDead : T := implOf [tyParam "_ŠČ0" [traitBound (trWith "Tr" (tyPath [seg "U"]))], tyParam "T" [], tyParam "U" []] (tyPath [seg "T"])
/-- `impl<'a, a: Tr<U>, U> Kita for a {}`: a lifetime and a type parameter of one spelling (legal) -/
def ltTySame : T := implOf [ltParam "a", tyParam "a" [traitBound (trWith "Tr" (tyPath [seg "U"]))], tyParam "U" []] (tyPath [seg "a"])
/-- `impl<N, const N: usize, U> Kita for ([u8; N], [u8; N], U) {}`: a type and a const parameter of one spelling
    (E0403 in Rust) -/
def cxNames : T := implOf [tyParam "N" [], coParam "N", tyParam "U" []]
  (tuple [array (tyPath [seg "u8"]) (exprPath [seg "N"]), array (tyPath [seg "u8"]) (exprPath [seg "N"]), tyPath [seg "U"]])
/-- `impl<T, U> Kita for (_ŠČ1, T, U) {}` -/
def cxCapture : T := implOf [tyParam "T" [], tyParam "U" []] (tuple [.tparam "_ŠČ1", tyPath [seg "T"], tyPath [seg "U"]])
/-- `impl<T, U> Kita for (T::U,) {}` -/
def cxSecond : T := implOf [tyParam "T" [], tyParam "U" []] (tuple [tyPath [seg "T", seg "U"]])
/-- `impl<T, Clone> Kita for <T as Clone>::Out {}` -/
def cxQself : T := implOf [tyParam "T" [], tyParam "Clone" []] (qselfTy (tyPath [seg "T"]) [seg "Clone", seg "Out"])
/-- `impl<const N: usize, const M: usize> Kita for ([u8; N::X], [u8; M]) {}` -/
def cxConst : T := implOf [coParam "N", coParam "M"]
  (tuple [array (tyPath [seg "u8"]) (exprPath [seg "N", seg "X"]), array (tyPath [seg "u8"]) (exprPath [seg "M"])])
end Ex13

section Examples
open Ex13
set_option maxRecDepth 100000

/-- swapping two reserved names works: header, bound and declarations are renamed consistently in one pass -/
theorem C13_swap_example :
    (indexImpl swapped).renaming = ⟨[], [("_ŠČ1", "_ŠČ0"), ("_ŠČ0", "_ŠČ1")], []⟩ ∧ canon swapped = swappedCanon := by
  with_unfolding_all decide

/-- user names; a parameter first seen in a bound is numbered after those of the header; `T::Target` becomes
    `<_ŠČ0>::Target` -/
theorem C13_named_example :
    (indexImpl named).renaming = ⟨[], [("T", "_ŠČ0"), ("U", "_ŠČ1")], []⟩ ∧ canon named = namedCanon := by
  with_unfolding_all decide

/-- idempotence on the examples, and non-vacuity of `C13_canon_fixed` -/
theorem C13_idempotent_examples :
    canon (canon swapped) = canon swapped ∧ canon (canon named) = canon named ∧
    alreadyCanonical (canon swapped) = true ∧ alreadyCanonical (canon named) = true ∧
    alreadyCanonical swapped = false := by
  with_unfolding_all decide


/-- non-vacuity of `C13_canon_idem`: user names, reserved names in the wrong order, and a block with a lifetime, a
    const parameter, a where-clause and a multi-segment path -/
theorem C13_canonWF_examples :
    canonWF named = true ∧ canonWF swapped = true ∧ canonWF mixed = true ∧
    (indexImpl mixed).renaming = ⟨[("a", "_ŠČ0")], [("T", "_ŠČ1"), ("U", "_ŠČ3")], [("N", "_ŠČ2")]⟩ ∧
    canonWF (canon mixed) = true := by
  with_unfolding_all decide

/-- a lifetime and a type parameter may share their spelling (`'a` next to `a`): the declaration of the type
    parameter is found (its bound is walked, `U` is numbered), and the block satisfies `canonWF` -/
theorem C13_lifetime_and_type_of_one_name :
    (indexImpl ltTySame).renaming = ⟨[], [("a", "_ŠČ0"), ("U", "_ŠČ1")], []⟩ ∧ canonWF ltTySame = true ∧
    canon (canon ltTySame) = canon ltTySame := by
  with_unfolding_all decide

/-- every clause of `canonWF` is needed: six blocks, each violating exactly one clause (`deadFresh`,
    `namesDistinct`, and four ways of violating `rsOK`: a free type spelled like a name handed out, a second path
    segment spelled like a parameter, a qualified path whose trait is spelled like a parameter — the open finding
    F-C13-qualified-path-trait-capture —, a const parameter at the head of a longer path), and canonicalising twice
    changes each of them. (`cxNames` — a type and a const parameter of one name — is rejected by rustc, E0403; for
    the other half of `namesDistinct`, distinct lifetimes, no block that canonicalises differently the second time is
    known: the proof uses it to read the identity renaming off the canonical block.) -/
theorem C13_canonWF_clauses_needed :
    (deadFresh cxDead = false ∧ canon (canon cxDead) ≠ canon cxDead) ∧
    (namesDistinct (canonCtx cxNames) = false ∧ canon (canon cxNames) ≠ canon cxNames) ∧
    (rsOK (canonCtx cxCapture) cxCapture = false ∧ canon (canon cxCapture) ≠ canon cxCapture) ∧
    (rsOK (canonCtx cxSecond) cxSecond = false ∧ canon (canon cxSecond) ≠ canon cxSecond) ∧
    (rsOK (canonCtx cxQself) cxQself = false ∧ canon (canon cxQself) ≠ canon cxQself) ∧
    (rsOK (canonCtx cxConst) cxConst = false ∧ canon (canon cxConst) ≠ canon cxConst) := by
  with_unfolding_all decide

/-- … and only that clause -/
theorem C13_canonWF_one_clause_each :
    [cxDead, cxNames, cxCapture, cxSecond, cxQself, cxConst].map
      (fun x => (implDeclsOK x, namesDistinct (canonCtx x), deadFresh x, rsOK (canonCtx x) x)) =
    [(true, true, false, true), (true, false, true, true), (true, true, true, false), (true, true, true, false),
     (true, true, true, false), (true, true, true, false)] := by
  with_unfolding_all decide

/-- the side condition of `C13_rs_identity` is needed: a multi-segment path is rebuilt as `<T>::A` even by an
    identity renaming -/
theorem C13_rs_identity_counterexample :
    let r : Renaming := ⟨[], [("_ŠČ0", "_ŠČ0")], []⟩
    let t : T := tyPath [seg "_ŠČ0", seg "Target"]
    r.isId = true ∧ rsStable r t = false ∧ rsT r t ≠ t := by
  with_unfolding_all decide

/-- the declared names of the examples are distinct (hypothesis of `C13_indexImpl_inv`) -/
example : (declaredTy named).Nodup ∧ declaredTy named = ["U", "T"] ∧ (declaredLt named).Nodup ∧ (declaredCo named).Nodup := by
  with_unfolding_all decide
end Examples

end DI
