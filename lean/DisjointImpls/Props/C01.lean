/-
  C01 — dispatch soundness. Property theorems only (helper lemmas: Lemmas/Refine.lean).
  Statements are about the semantic model of DESIGN.md §6: `genSel W F m q` = "the generated main impl of
  family `F` applies to the ground query `q` and its helper predicate is discharged by the helper impl of
  member `m`"; `applies W b q` = "user block `b` applies to `q`".
-/
import DisjointImpls.Lemmas.Refine
import DisjointImpls.Lemmas.ExpandLemmas
import DisjointImpls.Props.C11
namespace DI

/-- whatever block the generated program selects for a query is a block whose header matches the query and
    whose where-clauses the query satisfies — for every world, query, family and member, with no side condition -/
theorem C01_selected_block_applies (W : World) (F : Family) (m : Member) (q : T) :
    genSel W F m q → applies W m.blk q :=
  gen_sub_spec W F m q

/-- ground coherence of the helper impls of a family (what rustc's coherence check guarantees for a program
    that compiles): no two different members' helper impls apply to one helper reference -/
def HelperCoherent (W : World) (F : Family) : Prop :=
  ∀ q gs m1 m2, m1 ∈ F.members → m2 ∈ F.members → helperApplies W F m1 q gs → helperApplies W F m2 q gs → m1 = m2

/-- it is never another block's item: in a compiling (coherent) program the selected member is unique -/
theorem C01_never_other_block (W : World) (F : Family) (hk : KeysOverHeader F) (hc : HelperCoherent W F)
    (m1 m2 : Member) (h1 : m1 ∈ F.members) (h2 : m2 ∈ F.members) (q : T) :
    genSel W F m1 q → genSel W F m2 q → m1 = m2 := by
  rintro ⟨τ1, gs1, n1, e1, _, l1, p1, a1⟩ ⟨τ2, gs2, n2, e2, _, l2, p2, a2⟩
  have : gs1 = gs2 := helper_args_unique W F hk q τ1 τ2 gs1 gs2 (wkF_hdr n1) (wkF_hdr n2) e1 e2 l1 l2 p1 p2
  subst this
  exact hc q gs1 m1 m2 h1 h2 a1 a2

/-- items: the generated main impl delegates item `x` to the helper trait; resolution lands in the selected
    member's helper impl if it defines `x`, otherwise in the helper trait's default. When helper impls carry the
    member's items and the helper trait carries the trait's defaults (validated per case on the real expansion,
    `ExpandOK`), that is the member's own item, and the trait default exactly when the member does not override it. -/
def genItem (helperImplItems : List (String × T)) (helperTraitDefaults : List (String × T)) (x : String) : Option T :=
  match assoc helperImplItems x with
  | some b => some b
  | none => assoc helperTraitDefaults x

def specItem (blockItems : List (String × T)) (traitDefaults : List (String × T)) (x : String) : Option T :=
  match assoc blockItems x with
  | some b => some b
  | none => assoc traitDefaults x

theorem C01_item_of_selected_block (blockItems traitDefaults helperImplItems helperTraitDefaults : List (String × T))
    (h1 : helperImplItems = blockItems) (h2 : helperTraitDefaults = traitDefaults) (x : String) :
    genItem helperImplItems helperTraitDefaults x = specItem blockItems traitDefaults x ∧
    ((assoc blockItems x = none) → genItem helperImplItems helperTraitDefaults x = assoc traitDefaults x) := by
  subst h1; subst h2
  refine ⟨rfl, ?_⟩
  intro h; simp [genItem, h]

/-- non-vacuity: a concrete family (README basic example, block A) satisfies the hypotheses used above -/
example :
    let hdr := T.node "ImplGroupId" [] [.tparam "_ŠČ0"]
    let key : Key := ⟨.tparam "_ŠČ0", .node "Dispatch" [] [], "Group"⟩
    let blk : Block := ⟨hdr, [⟨.tparam "_ŠČ0", .node "Dispatch" [] [], [("Group", .node "GroupA" [] [])]⟩], ["_ŠČ0"]⟩
    let m : Member := ⟨blk, [("_ŠČ0", .identity)], [some (.node "GroupA" [] [])]⟩
    let F : Family := ⟨hdr, [key], ["_ŠČ0"], [m]⟩
    memberOK F m = true := by decide

/-! ## `ExpandOK`: the expansion has the shape the refinement theorem assumes

`expandOKB g θs helpers main` (`ExpandOK.lean`) is the executable checker that used to live in Python
(`harness/props/shape.py::expand_ok`): every helper impl is its member with the trait path renamed and
`row ++ member's trait arguments` as arguments, the main impl has the family's trait path and self type, a
predicate `bounded: trait` per key and `Self: helper<lifetimes, projections of the keys, …>`. It reads the given
trees positionally and does not call the generators. Below it is proved of the model's own expansion
(`helperImpls`, `mainImplOfTrait` of `Expand.lean`, which agree tree for tree with the real generators on every
generated plan), once and for all. -/

/-- `ExpandOK` holds of the model's expansion in trait mode, for a formed family that is well-formed
    (`expandWF`, executable: at least one key, one row per member under every key, the group id is the header of
    the first member, every key's trait path is a well-formed path and no key is bounded on `Self`) and whose
    wildcard row entries occur only where the member's substitution fixes the key's bounded type
    (`wildcardsFixed`, executable; its failure is the open finding F-D3, see the counterexample below).
    `thetasOf g` computes the members' substitutions as the driver's `family` command does. -/
theorem C01_expandOK_of_expand (tr : T) (idx : Nat) (g : T × ABG × List Blk) (hs : List T) (m : T)
    (hh : helperImpls idx g = some hs) (hm : mainImplOfTrait tr idx g = .ok m)
    (hwf : expandWF g = true) (hfix : wildcardsFixed g = true) :
    expandOKB g (thetasOf g) hs m = true :=
  expandOK_of_expand tr idx g hs m hh hm hwf hfix

/-- everything but the wildcard conjunct needs no hypothesis on the substitutions: the main impl always passes -/
theorem C01_expandOK_main (tr : T) (idx : Nat) (g : T × ABG × List Blk) (m : T)
    (hm : mainImplOfTrait tr idx g = .ok m) (hwf : expandWF g = true) :
    XOK.checkMain false g.1 (XOK.keysOf g.2.1.idents) m = true :=
  checkMain_of_main hm hwf

namespace ExOK
/-- `trait Kita {}` -/
def kitaTrait : T := .node "ItemTrait" [] [Ex11.attrs, .node "Visibility::Inherited" [] [], Ex11.leaf "None", Ex11.leaf "None",
  Ex11.leaf "None", .node "Ident" ["Kita"] [], .node "Generics" [] [Ex11.leaf "None", .node "List" [] [], Ex11.leaf "None", Ex11.leaf "None"],
  Ex11.leaf "None", .node "List" [] [], .node "List" [] []]
def implW (params : List T) (wc : T) (self : T) : T :=
  .node "ItemImpl" [] [Ex11.attrs, Ex11.leaf "None", Ex11.leaf "None",
    .node "Generics" [] [Ex11.leaf "Some", .node "List" [] params, Ex11.leaf "Some", wc],
    .node "Some" [] [.node "Tuple" [] [Ex11.leaf "None", Ex11.path [Ex11.seg "Kita"]]], self, .node "List" [] []]
def tU : T := Ex11.tyPath [Ex11.seg "U"]
def tup2 (a b : T) : T := .node "Type::Tuple" [] [.node "List" [] [a, b]]
/-- `impl<T: Dispatch<Group = GroupA>, U: Dispatch<Group = GroupA>> Kita for (T, U) {}` -/
def d3a : T := implW [Ex11.tyParam "T" [Ex11.traitBound (Ex11.dispatch "GroupA")],
  Ex11.tyParam "U" [Ex11.traitBound (Ex11.dispatch "GroupA")]] (Ex11.leaf "None") (tup2 Ex11.tT tU)
/-- `impl<T: Dispatch<Group = GroupB>, U> Kita for (T, Vec<U>) where Vec<U>: Dispatch {}` -/
def d3b : T := implW [Ex11.tyParam "T" [Ex11.traitBound (Ex11.dispatch "GroupB")], Ex11.tyParam "U" []]
  (.node "Some" [] [.node "WhereClause" [] [.node "List" [] [.node "WherePredicate::Type" [] [.node "PredicateType" []
    [Ex11.leaf "None", Ex11.vecOf tU, .node "List" [] [Ex11.traitBound (Ex11.path [Ex11.seg "Dispatch"])]]]]]])
  (tup2 Ex11.tT (Ex11.vecOf tU))

/-- run the front end and the generators on the first family and apply a Boolean test to the result -/
def checkFirst (items : List T) (f : (T × ABG × List Blk) → List T → T → Bool) : Bool :=
  match parseGroups items with
  | .ok (g :: _) =>
      (match helperImpls 0 g, mainImplOfTrait kitaTrait 0 g with
       | some hs, .ok m => f g hs m
       | _, _ => false)
  | _ => false
end ExOK

section ExpandExamples
set_option maxRecDepth 1000000

/-- non-vacuity: the README family (two members, one key) is accepted, both generators succeed, the hypotheses
    `expandWF` / `wildcardsFixed` hold and the checker accepts the expansion -/
example : ExOK.checkFirst [Ex11.blockFor "GroupA", Ex11.blockFor "GroupB"]
    (fun g hs m => g.2.2.length == 2 && hs.length == 2 && expandWF g && wildcardsFixed g &&
      expandOKB g (thetasOf g) hs m) = true := by with_unfolding_all decide

/-- the hypothesis `wildcardsFixed` is needed (finding F-D3, disjoint.rs:45-48): for the family `(T, U)` keyed on
    `T: Dispatch`, `U: Dispatch` with the nested member `(T, Vec<U>) where Vec<U>: Dispatch`, the wildcard entry of
    the member's row is printed with the family's key `<_ŠČ1 as Dispatch>::Group` instead of the key seen through
    the member's substitution `<Vec<_ŠČ1> as Dispatch>::Group`: the family is well-formed, both generators succeed,
    and the checker rejects the expansion -/
theorem C01_expandOK_wildcard_counterexample : ExOK.checkFirst [ExOK.d3a, ExOK.d3b]
    (fun g hs m => g.2.2.length == 2 && expandWF g && !wildcardsFixed g && !expandOKB g (thetasOf g) hs m &&
      XOK.checkMain false g.1 (XOK.keysOf g.2.1.idents) m) = true := by with_unfolding_all decide
end ExpandExamples

end DI
