/-
  C01 — dispatch soundness. Property theorems only (helper lemmas: Lemmas/Refine.lean).
  Statements are about the semantic model of DESIGN.md §6: `genSel W F m q` = "the generated main impl of
  family `F` applies to the ground query `q` and its helper predicate is discharged by the helper impl of
  member `m`"; `applies W b q` = "user block `b` applies to `q`".
-/
import DisjointImpls.Lemmas.Refine
import DisjointImpls.Lemmas.ExpandLemmas
import DisjointImpls.Lemmas.ExpandItems
import DisjointImpls.Props.C11
namespace DI

/-- whatever block the generated program selects for a query is a block whose header matches the query and
    whose where-clauses the query satisfies — for every world, query, family and member, with no side condition -/
theorem C01_selected_block_applies (W : World) (F : Family) (m : Member) (q : T) :
    genSel W F m q → applies W m.blk q :=
  gen_sub_spec W F m q

/-- ground coherence of the helper impls of a family (what rustc's coherence check guarantees for a program
    that compiles): no two different members' helper impls apply to one helper reference -/
def HelperCoherent (W : World) (F : Family) : Prop :=
  ∀ q gs m1 m2, m1 ∈ F.members → m2 ∈ F.members → helperApplies W F m1 q gs → helperApplies W F m2 q gs → m1 = m2

/-- it is never another block's item: in a compiling (coherent) program the selected member is unique -/
theorem C01_never_other_block (W : World) (F : Family) (hk : KeysOverHeader F) (hc : HelperCoherent W F)
    (m1 m2 : Member) (h1 : m1 ∈ F.members) (h2 : m2 ∈ F.members) (q : T) :
    genSel W F m1 q → genSel W F m2 q → m1 = m2 := by
  rintro ⟨τ1, gs1, n1, e1, _, l1, p1, a1⟩ ⟨τ2, gs2, n2, e2, _, l2, p2, a2⟩
  have : gs1 = gs2 := helper_args_unique W F hk q τ1 τ2 gs1 gs2 (wkF_hdr n1) (wkF_hdr n2) e1 e2 l1 l2 p1 p2
  subst this
  exact hc q gs1 m1 m2 h1 h2 a1 a2

/-- items: the generated main impl delegates item `x` to the helper trait; resolution lands in the selected
    member's helper impl if it defines `x`, otherwise in the helper trait's default. When helper impls carry the
    member's items and the helper trait carries the trait's defaults (validated per case on the real expansion,
    `ExpandOK`), that is the member's own item, and the trait default exactly when the member does not override it. -/
def genItem (helperImplItems : List (String × T)) (helperTraitDefaults : List (String × T)) (x : String) : Option T :=
  match assoc helperImplItems x with
  | some b => some b
  | none => assoc helperTraitDefaults x

def specItem (blockItems : List (String × T)) (traitDefaults : List (String × T)) (x : String) : Option T :=
  match assoc blockItems x with
  | some b => some b
  | none => assoc traitDefaults x

theorem C01_item_of_selected_block (blockItems traitDefaults helperImplItems helperTraitDefaults : List (String × T))
    (h1 : helperImplItems = blockItems) (h2 : helperTraitDefaults = traitDefaults) (x : String) :
    genItem helperImplItems helperTraitDefaults x = specItem blockItems traitDefaults x ∧
    ((assoc blockItems x = none) → genItem helperImplItems helperTraitDefaults x = assoc traitDefaults x) := by
  subst h1; subst h2
  refine ⟨rfl, ?_⟩
  intro h; simp [genItem, h]

/-- non-vacuity: a concrete family (README basic example, block A) satisfies the hypotheses used above -/
example :
    let hdr := T.node "ImplGroupId" [] [.tparam "_ŠČ0"]
    let key : Key := ⟨.tparam "_ŠČ0", .node "Dispatch" [] [], "Group"⟩
    let blk : Block := ⟨hdr, [⟨.tparam "_ŠČ0", .node "Dispatch" [] [], [("Group", .node "GroupA" [] [])]⟩], ["_ŠČ0"]⟩
    let m : Member := ⟨blk, [("_ŠČ0", .identity)], [some (.node "GroupA" [] [])]⟩
    let F : Family := ⟨hdr, [key], ["_ŠČ0"], [m]⟩
    memberOK F m = true := by decide

/-! ## `ExpandOK`: the expansion has the shape the refinement theorem assumes

`expandOKB g θs helpers main` (`ExpandOK.lean`) is the executable checker that used to live in Python
(`harness/props/shape.py::expand_ok`): every helper impl is its member with the helper trait as trait reference (the
checker reads the LAST segment of both paths only) and `row ++ member's trait arguments` as arguments, the main impl has the family's trait path and self type, a
predicate `bounded: trait` per key and `Self: helper<lifetimes, projections of the keys, …>`. It reads the given
trees positionally and does not call the generators. Below it is proved of the model's own expansion
(`helperImpls`, `mainImplOfTrait` of `Expand.lean`, which agree tree for tree with the real generators on every
generated plan), once and for all. -/

/-- `ExpandOK` holds of the model's expansion in trait mode, for a formed family that is well-formed
    (`expandWF`, executable: at least one key, one row per member under every key, the group id is the header of
    the first member, every key's trait path is a well-formed path and no key is bounded on `Self`) and whose
    wildcard row entries occur only where the member's substitution fixes the key's bounded type
    (`wildcardsFixed`, executable; its failure is the open finding F-D3, see the counterexample below).
    `thetasOf g` computes the members' substitutions as the driver's `family` command does. -/
theorem C01_expandOK_of_expand (tr : T) (idx : Nat) (g : T × ABG × List Blk) (hs : List T) (m : T)
    (hh : helperImpls idx g = some hs) (hm : mainImplOfTrait tr idx g = .ok m)
    (hwf : expandWF g = true) (hfix : wildcardsFixed g = true) :
    expandOKB g (thetasOf g) hs m = true :=
  expandOK_of_expand tr idx g hs m hh hm hwf hfix

/-- everything but the wildcard conjunct needs no hypothesis on the substitutions: the main impl always passes -/
theorem C01_expandOK_main (tr : T) (idx : Nat) (g : T × ABG × List Blk) (m : T)
    (hm : mainImplOfTrait tr idx g = .ok m) (hwf : expandWF g = true) :
    XOK.checkMain false g.1 (XOK.keysOf g.2.1.idents) m = true :=
  checkMain_of_main hm hwf

namespace ExOK
/-- `trait Kita {}` -/
def kitaTrait : T := .node "ItemTrait" [] [Ex11.attrs, .node "Visibility::Inherited" [] [], Ex11.leaf "None", Ex11.leaf "None",
  Ex11.leaf "None", .node "Ident" ["Kita"] [], .node "Generics" [] [Ex11.leaf "None", .node "List" [] [], Ex11.leaf "None", Ex11.leaf "None"],
  Ex11.leaf "None", .node "List" [] [], .node "List" [] []]
def implW (params : List T) (wc : T) (self : T) : T :=
  .node "ItemImpl" [] [Ex11.attrs, Ex11.leaf "None", Ex11.leaf "None",
    .node "Generics" [] [Ex11.leaf "Some", .node "List" [] params, Ex11.leaf "Some", wc],
    .node "Some" [] [.node "Tuple" [] [Ex11.leaf "None", Ex11.path [Ex11.seg "Kita"]]], self, .node "List" [] []]
def tU : T := Ex11.tyPath [Ex11.seg "U"]
def tup2 (a b : T) : T := .node "Type::Tuple" [] [.node "List" [] [a, b]]
/-- `impl<T: Dispatch<Group = GroupA>, U: Dispatch<Group = GroupA>> Kita for (T, U) {}` -/
def d3a : T := implW [Ex11.tyParam "T" [Ex11.traitBound (Ex11.dispatch "GroupA")],
  Ex11.tyParam "U" [Ex11.traitBound (Ex11.dispatch "GroupA")]] (Ex11.leaf "None") (tup2 Ex11.tT tU)
/-- `impl<T: Dispatch<Group = GroupB>, U> Kita for (T, Vec<U>) where Vec<U>: Dispatch {}` -/
def d3b : T := implW [Ex11.tyParam "T" [Ex11.traitBound (Ex11.dispatch "GroupB")], Ex11.tyParam "U" []]
  (.node "Some" [] [.node "WhereClause" [] [.node "List" [] [.node "WherePredicate::Type" [] [.node "PredicateType" []
    [Ex11.leaf "None", Ex11.vecOf tU, .node "List" [] [Ex11.traitBound (Ex11.path [Ex11.seg "Dispatch"])]]]]]])
  (tup2 Ex11.tT (Ex11.vecOf tU))

/-- run the front end and the generators on the first family and apply a Boolean test to the result -/
def checkFirst (items : List T) (f : (T × ABG × List Blk) → List T → T → Bool) : Bool :=
  match parseGroups items with
  | .ok (g :: _) =>
      (match helperImpls 0 g, mainImplOfTrait kitaTrait 0 g with
       | some hs, .ok m => f g hs m
       | _, _ => false)
  | _ => false
end ExOK

section ExpandExamples
set_option maxRecDepth 1000000

/-- non-vacuity: the README family (two members, one key) is accepted, both generators succeed, the hypotheses
    `expandWF` / `wildcardsFixed` hold and the checker accepts the expansion -/
example : ExOK.checkFirst [Ex11.blockFor "GroupA", Ex11.blockFor "GroupB"]
    (fun g hs m => g.2.2.length == 2 && hs.length == 2 && expandWF g && wildcardsFixed g &&
      expandOKB g (thetasOf g) hs m) = true := by with_unfolding_all decide

/-- the hypothesis `wildcardsFixed` is needed (finding F-D3, disjoint.rs:45-48): for the family `(T, U)` keyed on
    `T: Dispatch`, `U: Dispatch` with the nested member `(T, Vec<U>) where Vec<U>: Dispatch`, the wildcard entry of
    the member's row is printed with the family's key `<_ŠČ1 as Dispatch>::Group` instead of the key seen through
    the member's substitution `<Vec<_ŠČ1> as Dispatch>::Group`: the family is well-formed, both generators succeed,
    and the checker rejects the expansion -/
theorem C01_expandOK_wildcard_counterexample : ExOK.checkFirst [ExOK.d3a, ExOK.d3b]
    (fun g hs m => g.2.2.length == 2 && expandWF g && !wildcardsFixed g && !expandOKB g (thetasOf g) hs m &&
      XOK.checkMain false g.1 (XOK.keysOf g.2.1.idents) m) = true := by with_unfolding_all decide
end ExpandExamples

/-! ## Item-level fidelity of the generators in trait mode (`Lemmas/ExpandItems.lean`)

The trees are read with the positional accessors of the checker (`XOK.kid t i` = child `i`, the dummy node `?` when
missing). Children of an `ItemTrait`: 0 attributes, 1 visibility, 2 `unsafe`, 3 `auto`, 4 restriction, 5 name, 6 generics
(`Generics [<, parameters, >, where-clause]`), 7 `:`, 8 supertraits, 9 items. Children of an `ItemImpl`: 0 attributes,
1 `default`, 2 `unsafe`, 3 generics, 4 trait reference, 5 self type, 6 items. -/

/-- (1) THE HELPER TRAIT IS THE USER'S TRAIT. If `helperTraitOfTrait tr idx nkeys = some ht` then `ht` has the trait's item
    list verbatim (child 9: names, signatures, DEFAULT values / bodies, item generics, attributes), its supertraits and
    the `:` (8, 7), its attributes, `unsafe`, `auto` and restriction (0, 2, 3, 4); it is `pub`, named `_<Trait><idx>`, and its
    generics are `helperGenerics` of the trait's. For generics of the shape `syn` produces (`genericsShaped_it`,
    executable) that means: the `<` `>` tokens and the WHERE-CLAUSE are the trait's, and the parameter list is
    `helperParams_it`: the trait's lifetime parameters, then `nkeys` fresh type parameters `_ŠČn: ?Sized, _ŠČ(n+1): ?Sized, …`
    (`n` = number of parameters of the trait), then the trait's type and const parameters — the trait's own parameters
    are the very nodes of the definition, so with their bounds and defaults. No side condition besides the shape. -/
theorem C01_helper_trait_keeps_items (tr : T) (idx nkeys : Nat) (ht : T)
    (h : helperTraitOfTrait tr idx nkeys = some ht) :
    XOK.kid ht 9 = XOK.kid tr 9 ∧ traitItemsOf_it ht = traitItemsOf_it tr ∧
    traitDefaultAssoc_it ht = traitDefaultAssoc_it tr ∧
    XOK.kid ht 8 = XOK.kid tr 8 ∧ XOK.kid ht 7 = XOK.kid tr 7 ∧
    XOK.kid ht 0 = XOK.kid tr 0 ∧ XOK.kid ht 2 = XOK.kid tr 2 ∧ XOK.kid ht 3 = XOK.kid tr 3 ∧ XOK.kid ht 4 = XOK.kid tr 4 ∧
    XOK.kid ht 1 = .node "Visibility::Public" [] [] ∧
    traitName_inh ht = genIdentStr (traitName_inh tr) idx ∧
    XOK.kid ht 6 = helperGenerics (XOK.kid tr 6) nkeys ∧
    (genericsShaped_it (XOK.kid tr 6) = true →
      traitParams_inh ht = helperParams_it (traitParams_inh tr) nkeys ∧
      XOK.kid (XOK.kid ht 6) 0 = XOK.kid (XOK.kid tr 6) 0 ∧ XOK.kid (XOK.kid ht 6) 2 = XOK.kid (XOK.kid tr 6) 2 ∧
      XOK.kid (XOK.kid ht 6) 3 = XOK.kid (XOK.kid tr 6) 3) := by
  obtain ⟨a, v, u, au, r, x, g, c, sup, items, rfl, rfl⟩ := helperTraitOfTrait_inv_it h
  have hit : traitItemsOf_it (.node "ItemTrait" [] [a, .node "Visibility::Public" [] [], u, au, r, tIdent (genIdentStr x idx),
      helperGenerics g nkeys, c, sup, items]) =
      traitItemsOf_it (.node "ItemTrait" [] [a, v, u, au, r, .node "Ident" [x] [], g, c, sup, items]) := by
    rw [traitItemsOf_node_it, traitItemsOf_node_it]
  refine ⟨rfl, hit, by simp only [traitDefaultAssoc_it, hit], rfl, rfl, rfl, rfl, rfl, rfl, rfl, rfl, rfl, ?_⟩
  intro hs
  obtain ⟨h1, h2, h3, h4, _⟩ := helperGenerics_shaped_it nkeys (g := g) hs
  exact ⟨h1, h2, h3, h4⟩

/-- (2) EVERY HELPER IMPL IS ITS MEMBER. If `helperImpls idx g = some hs` for a well-formed (`expandWF`) family of trait
    mode (`inherentFamily_inh g = false`: the first block has a trait path) then there is one helper impl per member and
    the `i`-th helper impl is the `i`-th member block with ONLY its trait reference (child 4) changed: attributes, `default`,
    `unsafe`, generics with their where-clause, self type and the ITEM LIST (child 6, `implItems`) are the member's.
    The trait reference is the SINGLE segment `_<name><idx><…>` — `name` the identifier of the LAST segment of the member's
    trait path — with no leading `::` and none of the member's leading segments (disjoint.rs: `*trait_ = path.clone().into()`;
    the helper trait is declared next to the helper impls, so `impl self::Kita for T` yields `impl _Kita0<…> for T`); its
    arguments are the member's row (`rowArgs`: a payload as a generic argument, a wildcard as the projection of the key)
    followed by the member's own (last-segment) trait arguments. -/
theorem C01_helper_impls_keep_items (idx : Nat) (g : T × ABG × List Blk) (hs : List T)
    (hh : helperImpls idx g = some hs) (htr : inherentFamily_inh g = false) (hwf : expandWF g = true) :
    hs.length = g.2.2.length ∧
    ∀ (i : Nat) (h1 : i < g.2.2.length) (h2 : i < hs.length),
      (∀ j, j ≠ 4 → XOK.kid hs[i] j = XOK.kid g.2.2[i].item j) ∧
      implItems hs[i] = implItems g.2.2[i].item ∧
      ∃ mp hp, implTraitPath g.2.2[i].item = some mp ∧ XOK.traitPathOf hs[i] = some hp ∧
        pathLead hp = noLead ∧ initSegsOf hp = [] ∧
        (∃ x, lastSegIdentOf mp = some x ∧ lastSegIdentOf hp = some (genIdentStr x idx) ∧
          ∃ na, hp = pathNode noLead [.node "PathSegment" [] [tIdent (genIdentStr x idx), na]]) ∧
        XOK.segArgs (XOK.lastSeg hp) =
          rowArgs g.2.1.idents (g.2.1.payloads.getD i []) ++ XOK.segArgs (XOK.lastSeg mp) := by
  have hpl := payloads_length_of_wf_it hwf
  obtain ⟨hlen, hget⟩ := helperImpls_trait_get_it hh htr
  refine ⟨by rw [hlen, hpl]; exact Nat.min_self _, ?_⟩
  intro i h1 h2
  have h1' : i < g.2.1.payloads.length := by rw [hpl]; exact h1
  obtain ⟨k1, k2, mp, hp, e1, e2, _, e4, e5, e6, e7⟩ := helperImpl_trait_read_it (hget i h1 h1' h2)
  refine ⟨k1, k2, mp, hp, e1, e2, e4, e5, e6, ?_⟩
  rw [e7]
  simp [List.getD_eq_getElem?_getD, List.getElem?_eq_getElem h1']

/-- (3) EVERY ITEM OF THE MAIN IMPL DELEGATES TO THE HELPER TRAIT, AND THERE IS NOTHING ELSE. If
    `mainImplOfTrait tr idx g = .ok m` then, with `tp` the trait path of the family's first block (`Trait<args>`) and
    `href = _<Trait><idx><lifetime args, projections of the keys, other args>` (`mainHrefOf_it`):
    * `href` is the very helper reference the main impl's where-clause bounds `Self` by (`mainHref_inh m`);
    * the resolved trait items `items` are the trait's own items when `tp` has no `<…>`, and otherwise the trait's items
      under `sbT am` (`C16_trait_param_replacement`) where `am = mainArgMap_it tr tp` zips the trait's parameters with `args`;
    * the main impl has exactly one item per trait item, in the order of the trait definition, and item `i` is
      `delegates_it href items[i]`: the same kind and name, no attributes, no visibility, for a const its type and the value
      `<Self as href>::NAME`, for an associated type the type `<Self as href>::Name`, for a function the whole resolved
      signature and the body `{ <Self as href>::name(args…) }`; a trait item WITH a default is delegated like every other
      (its default is not copied: the default that runs is the helper trait's copy of it, by (1) the user's);
    * (names) when the trait item's name is an identifier (`traitItemNamed_it`, executable) the generated item has the
      namespace and name of the ORIGINAL trait item.
    No side condition. The item generics of a const / associated type are re-printed as `#ty_generics` (`itemGenerics`):
    identifiers only — see `C01_item_generics_counterexample`. -/
theorem C01_main_items_delegate (tr : T) (idx : Nat) (g : T × ABG × List Blk) (m : T)
    (hm : mainImplOfTrait tr idx g = .ok m) :
    ∃ tp tname href items,
      implTraitPath (firstItem_inh g) = some tp ∧ lastSegIdentOf tp = some tname ∧
      href = mainHrefOf_it tname idx g.2.1 tp ∧ mainHref_inh m = some href ∧
      ((traitArgsOf_it tp = [] ∧ items = traitItemsOf_it tr) ∨
       (∃ am, mainArgMap_it tr tp = some am ∧ sbL am (traitItemsOf_it tr) = some items)) ∧
      items.length = (traitItemsOf_it tr).length ∧ (implItems m).length = (traitItemsOf_it tr).length ∧
      ∀ (i : Nat) (h0 : i < (traitItemsOf_it tr).length) (h1 : i < items.length) (h2 : i < (implItems m).length),
        delegates_it href items[i] (implItems m)[i] = true ∧
        itemKey_it (implItems m)[i] = itemKey_it items[i] ∧
        (traitItemNamed_it (traitItemsOf_it tr)[i] = true →
          itemKey_it (implItems m)[i] = itemKey_it (traitItemsOf_it tr)[i]) := by
  obtain ⟨first, rest, tp, tname, targs, gen, items, hg, hp, hlast, hres, hhref, hlen, hall⟩ := main_items_delegate_it hm
  have hfirst : firstItem_inh g = first.item := by simp [firstItem_inh, hg]
  have hrel := resolveMainTrait_items_it hlast hres
  have hil : items.length = (traitItemsOf_it tr).length := by
    rcases hrel with ⟨_, rfl⟩ | ⟨_, _, am, _, _, _, hsb⟩
    · rfl
    · exact (sbL_get_it hsb).1
  refine ⟨tp, tname, _, items, by rw [hfirst]; exact hp, by simp [lastSegIdentOf, hlast], rfl, hhref, ?_, hil,
    by rw [hlen, hil], ?_⟩
  · rcases hrel with ⟨rfl, rfl⟩ | ⟨c, args, am, _, _, ham, hsb⟩
    · exact Or.inl ⟨by simp [traitArgsOf_it, hlast, noArgs], rfl⟩
    · exact Or.inr ⟨am, ham, hsb⟩
  · intro i h0 h1 h2
    have hd := hall i h1 h2
    refine ⟨hd, delegates_key_it hd, fun hn => ?_⟩
    rw [delegates_key_it hd]
    rcases hrel with ⟨_, rfl⟩ | ⟨_, _, am, _, _, _, hsb⟩
    · rfl
    · exact sbT_itemKey_it hn ((sbL_get_it hsb).2 i h0 h1)

/-- the trait name the first block's trait path uses is the name of the trait definition (what validation,
    `validateTraitImpls`, checks first) -/
def traitNameMatches_it (tr : T) (g : T × ABG × List Blk) : Bool :=
  (implTraitPath (firstItem_inh g)).bind lastSegIdentOf == some (traitName_inh tr)

/-- (1–3 combined) ITEMS END TO END, for the model's whole expansion of a well-formed family of trait mode. With the
    association lists `implItemAssoc_it` (name ↦ item an impl block defines) and `traitDefaultAssoc_it` (name ↦ trait item
    that has a default; a name is `const X` / `type X` / `fn x`):
    * resolution of item `x` in the helper program — the `i`-th helper impl's own item, else the helper trait's default —
      is the specified item — the `i`-th member's own item, else the trait's default (`genItem … = specItem …`), so a
      trait default is used exactly when the member does not override it;
    * the main impl's items all delegate to `<Self as href>::…` (`C01_main_items_delegate`), and the helper reference
      `href` its where-clause names refers, by name, to the helper trait `ht` whenever the family's trait path names the
      trait definition (`traitNameMatches_it`, executable, guaranteed by validation). -/
theorem C01_items_end_to_end (tr : T) (idx : Nat) (g : T × ABG × List Blk) (ht : T) (hs : List T) (m : T)
    (hht : helperTraitOfTrait tr idx g.2.1.idents.length = some ht) (hh : helperImpls idx g = some hs)
    (hm : mainImplOfTrait tr idx g = .ok m) (hwf : expandWF g = true) :
    hs.length = g.2.2.length ∧
    (∀ (i : Nat) (h1 : i < g.2.2.length) (h2 : i < hs.length) (x : String),
      genItem (implItemAssoc_it hs[i]) (traitDefaultAssoc_it ht) x =
        specItem (implItemAssoc_it g.2.2[i].item) (traitDefaultAssoc_it tr) x ∧
      (assoc (implItemAssoc_it g.2.2[i].item) x = none →
        genItem (implItemAssoc_it hs[i]) (traitDefaultAssoc_it ht) x = assoc (traitDefaultAssoc_it tr) x)) ∧
    ∃ href, mainHref_inh m = some href ∧
      (traitNameMatches_it tr g = true → XOK.segIdent (XOK.lastSeg href) = traitName_inh ht) := by
  obtain ⟨tp, tname, href, items, hp, hname, rfl, hhref, _⟩ := C01_main_items_delegate tr idx g m hm
  have htr : inherentFamily_inh g = false := by
    unfold inherentFamily_inh
    unfold firstItem_inh at hp
    split
    · next first rest hg => rw [hg] at hp; simp only at hp; rw [hp]; rfl
    · rfl
  obtain ⟨hlen, hall⟩ := C01_helper_impls_keep_items idx g hs hh htr hwf
  obtain ⟨_, _, hdef, _, _, _, _, _, _, _, hnm, _⟩ := C01_helper_trait_keeps_items tr idx _ ht hht
  refine ⟨hlen, ?_, _, hhref, ?_⟩
  · intro i h1 h2 x
    obtain ⟨_, hitems, _⟩ := hall i h1 h2
    exact C01_item_of_selected_block _ _ _ _ (by simp only [implItemAssoc_it, hitems]) hdef x
  · intro hmatch
    simp only [traitNameMatches_it, hp, Option.bind_some, hname, beq_iff_eq, Option.some.injEq] at hmatch
    rw [hnm, ← hmatch]
    simp [mainHrefOf_it, helperRef, XOK.lastSeg, XOK.segsOf, XOK.segIdent, pathNode, tList, seg, tIdent, XOK.kid, XOK.kids,
      XOK.lastOf, XOK.atoms]

namespace ExIt
/-! trees for the closed examples of the item-level theorems (shapes as `syn` prints them, tokens dropped) -/
open Ex11
def ltNode (x : String) : T := .node "Lifetime" [] [.node "Ident" [x] []]
def ltParam (x : String) : T := .node "GenericParam::Lifetime" [] [.node "LifetimeParam" [] [attrs, ltNode x, leaf "None", .node "List" [] []]]
def constParam (x : String) (ty : T) : T :=
  .node "GenericParam::Const" [] [.node "ConstParam" [] [attrs, .node "Ident" [x] [], ty, leaf "None", leaf "None"]]
def ltArg (x : String) : T := .node "GenericArgument::Lifetime" [] [ltNode x]
def tyArg (t : T) : T := .node "GenericArgument::Type" [] [t]
def lit (n : String) : T := .node "Expr::Lit" [] [attrs, .node "Lit::Int" [] [.node "Atom" [n] []]]
def stmtExpr (e : T) : T := .node "Stmt::Expr" [] [e, .node "IgnL" [] [leaf "None"]]
def blockOf (stmts : List T) : T := .node "Block" [] [.node "List" [] stmts]
def blockExpr (n : String) : T := .node "Expr::Block" [] [attrs, leaf "None", blockOf [stmtExpr (lit n)]]
def constArg (e : T) : T := .node "GenericArgument::Const" [] [e]
def tyS (x : String) : T := Ex11.tyPath [Ex11.seg x]
def refTy (lt : String) (elem : T) : T := .node "Type::Reference" [] [.node "Some" [] [ltNode lt], leaf "None", elem]
def arrTy (elem len : T) : T := .node "Type::Array" [] [elem, len]
def exprIdent (x : String) : T := .node "Expr::Path" [] [attrs, leaf "None", Ex11.path [Ex11.seg x]]
def emptyGen : T := .node "Generics" [] [leaf "None", .node "List" [] [], leaf "None", leaf "None"]
def recv : T := .node "FnArg::Receiver" [] [attrs, .node "Some" [] [leaf "None"], leaf "None", leaf "Type::Reference"]
def typedArg (x : String) (ty : T) : T :=
  .node "FnArg::Typed" [] [.node "PatType" [] [attrs, .node "Pat::Ident" [] [attrs, leaf "None", leaf "None", .node "Ident" [x] [], leaf "None"], ty]]
def sig (name : String) (inputs : List T) (out : T) : T :=
  .node "Signature" [] [leaf "None", leaf "None", leaf "None", leaf "None", .node "Ident" [name] [], emptyGen, .node "List" [] inputs, leaf "None", out]
def retTy (t : T) : T := .node "ReturnType::Type" [] [t]
def loopBody : T := blockOf [stmtExpr (.node "Expr::Loop" [] [attrs, leaf "None", blockOf []])]
def tConst (name : String) (ty dflt : T) : T := .node "TraitItem::Const" [] [attrs, .node "Ident" [name] [], emptyGen, ty, dflt]
def tType (name : String) (dflt : T) : T := .node "TraitItem::Type" [] [attrs, .node "Ident" [name] [], emptyGen, leaf "None", .node "List" [] [], dflt]
def tFn (sg dflt semi : T) : T := .node "TraitItem::Fn" [] [attrs, sg, dflt, semi]
def inh : T := leaf "Visibility::Inherited"
def iConst (name : String) (ty e : T) : T := .node "ImplItem::Const" [] [attrs, inh, leaf "None", .node "Ident" [name] [], emptyGen, ty, e]
def iType (name : String) (ty : T) : T := .node "ImplItem::Type" [] [attrs, inh, leaf "None", .node "Ident" [name] [], emptyGen, ty]
def iFn (sg body : T) : T := .node "ImplItem::Fn" [] [attrs, inh, leaf "None", sg, body]
def kitaPath (args : List T) : T :=
  Ex11.path [.node "PathSegment" [] [.node "Ident" ["Kita"] [], .node "PathArguments::AngleBracketed" [] [.node "Ign" [] [leaf "None"], .node "List" [] args]]]
/-- `trait Kita<'a, U, const N: usize> { const C: usize; type Out; fn get(&self, x: &'a U) -> [U; N] { loop {} } }` -/
def traitDef : T := .node "ItemTrait" [] [attrs, inh, leaf "None", leaf "None", leaf "None", .node "Ident" ["Kita"] [],
  .node "Generics" [] [leaf "Some", .node "List" [] [ltParam "a", tyParam "U" [], constParam "N" (tyS "usize")], leaf "Some", leaf "None"],
  leaf "None", .node "List" [] [],
  .node "List" [] [tConst "C" (tyS "usize") (leaf "None"), tType "Out" (leaf "None"),
    tFn (sig "get" [recv, typedArg "x" (refTy "a" (tyS "U"))] (retTy (arrTy (tyS "U") (exprIdent "N")))) (.node "Some" [] [loopBody]) (leaf "None")]]
def member (grp : String) (items : List T) : T :=
  .node "ItemImpl" [] [attrs, leaf "None", leaf "None",
    .node "Generics" [] [leaf "Some", .node "List" [] [ltParam "x", tyParam "T" [traitBound (dispatch grp)]], leaf "Some", leaf "None"],
    .node "Some" [] [.node "Tuple" [] [leaf "None", kitaPath [ltArg "x", tyArg (vecOf tT), constArg (blockExpr "2")]]],
    tT, .node "List" [] items]
/-- `impl<'x, T: Dispatch<Group = GroupA>> Kita<'x, Vec<T>, { 2 }> for T { const C: usize = 1; type Out = u8;
      fn get(&self, x: &'x Vec<T>) -> [Vec<T>; 2] { loop {} } }` -/
def memberA : T := member "GroupA" [iConst "C" (tyS "usize") (lit "1"), iType "Out" (tyS "u8"),
  iFn (sig "get" [recv, typedArg "x" (refTy "x" (vecOf tT))] (retTy (arrTy (vecOf tT) (lit "2")))) loopBody]
/-- `impl<'x, T: Dispatch<Group = GroupB>> Kita<'x, Vec<T>, { 2 }> for T { const C: usize = 2; type Out = u16; }` -/
def memberB : T := member "GroupB" [iConst "C" (tyS "usize") (lit "2"), iType "Out" (tyS "u16")]

/-- run the front end and the three generators of trait mode on the first family and apply a Boolean test -/
def run (tr : T) (items : List T) (f : (T × ABG × List Blk) → T → List T → T → Bool) : Bool :=
  match parseGroups items with
  | .ok (g :: _) =>
      (match helperTraitOfTrait tr 0 g.2.1.idents.length, helperImpls 0 g, mainImplOfTrait tr 0 g with
       | some ht, some hs, .ok m => f g ht hs m
       | _, _, _ => false)
  | _ => false
/-- `trait Kita { type Out<X: Clone>; }` -/
def gatTrait : T := .node "ItemTrait" [] [attrs, inh, leaf "None", leaf "None", leaf "None", .node "Ident" ["Kita"] [], emptyGen,
  leaf "None", .node "List" [] [],
  .node "List" [] [.node "TraitItem::Type" [] [attrs, .node "Ident" ["Out"] [],
    .node "Generics" [] [leaf "Some", .node "List" [] [tyParam "X" [traitBound (Ex11.path [Ex11.seg "Clone"])]], leaf "Some", leaf "None"],
    leaf "None", .node "List" [] [], leaf "None"]]]
/-- `impl<T: Dispatch<Group = g>> Kita for T { type Out<X: Clone> = X; }` -/
def gatMember (grp : String) : T :=
  .node "ItemImpl" [] [attrs, leaf "None", leaf "None",
    .node "Generics" [] [leaf "Some", .node "List" [] [tyParam "T" [traitBound (dispatch grp)]], leaf "Some", leaf "None"],
    .node "Some" [] [.node "Tuple" [] [leaf "None", Ex11.path [Ex11.seg "Kita"]]], tT,
    .node "List" [] [.node "ImplItem::Type" [] [attrs, inh, leaf "None", .node "Ident" ["Out"] [],
      .node "Generics" [] [leaf "Some", .node "List" [] [tyParam "X" [traitBound (Ex11.path [Ex11.seg "Clone"])]], leaf "Some", leaf "None"],
      tyS "X"]]]
/-- `impl<params> Kita<args> for T { items }` -/
def memberOf (params args items : List T) : T :=
  .node "ItemImpl" [] [attrs, leaf "None", leaf "None",
    .node "Generics" [] [leaf "Some", .node "List" [] params, leaf "Some", leaf "None"],
    .node "Some" [] [.node "Tuple" [] [leaf "None", kitaPath args]], tT, .node "List" [] items]
def unitBody : T := blockOf []
def semi : T := .node "Some" ["Semi"] []
/-- D17: `trait Kita<U, V = u32> { fn f(&self, x: V); }` -/
def d17Trait : T := .node "ItemTrait" [] [attrs, inh, leaf "None", leaf "None", leaf "None", .node "Ident" ["Kita"] [],
  .node "Generics" [] [leaf "Some", .node "List" [] [tyParam "U" [],
    .node "GenericParam::Type" [] [.node "TypeParam" [] [attrs, .node "Ident" ["V"] [], leaf "None", .node "List" [] [],
      .node "Some" ["Eq"] [], .node "Some" [] [tyS "u32"]]]], leaf "Some", leaf "None"],
  leaf "None", .node "List" [] [],
  .node "List" [] [tFn (sig "f" [recv, typedArg "x" (tyS "V")] (leaf "ReturnType::Default")) (leaf "None") semi]]
/-- `impl<T: Dispatch<Group = g>> Kita<T> for T { fn f(&self, x: u32) {} }`: the defaulted argument is omitted -/
def d17Member (grp : String) : T := memberOf [tyParam "T" [traitBound (dispatch grp)]] [tyArg tT]
  [iFn (sig "f" [recv, typedArg "x" (tyS "u32")] (leaf "ReturnType::Default")) unitBody]
/-- D24: `trait Kita<const N: usize> { fn f(&self) -> [u8; N]; }` -/
def d24Trait : T := .node "ItemTrait" [] [attrs, inh, leaf "None", leaf "None", leaf "None", .node "Ident" ["Kita"] [],
  .node "Generics" [] [leaf "Some", .node "List" [] [constParam "N" (tyS "usize")], leaf "Some", leaf "None"],
  leaf "None", .node "List" [] [],
  .node "List" [] [tFn (sig "f" [recv] (retTy (arrTy (tyS "u8") (exprIdent "N")))) (leaf "None") semi]]
/-- `impl<T: Dispatch<Group = g>, const M: usize> Kita<M> for T { fn f(&self) -> [u8; M] { loop {} } }`: the const
    argument is a bare identifier, which `syn` parses as a type argument -/
def d24Member (grp : String) : T := memberOf [tyParam "T" [traitBound (dispatch grp)], constParam "M" (tyS "usize")] [tyArg (tyS "M")]
  [iFn (sig "f" [recv] (retTy (arrTy (tyS "u8") (exprIdent "M")))) loopBody]
/-- … and with the braced spelling `Kita<{ M }>` -/
def d24MemberBraced (grp : String) : T := memberOf [tyParam "T" [traitBound (dispatch grp)], constParam "M" (tyS "usize")]
  [constArg (.node "Expr::Block" [] [attrs, leaf "None", blockOf [stmtExpr (exprIdent "M")]])]
  [iFn (sig "f" [recv] (retTy (arrTy (tyS "u8") (exprIdent "M")))) loopBody]
end ExIt

section ItemExamples
set_option maxRecDepth 1000000
open ExIt

/-- non-vacuity of (1)–(3) and of `C01_items_end_to_end`: for
    `trait Kita<'a, U, const N: usize> { const C: usize; type Out; fn get(&self, x: &'a U) -> [U; N] { loop {} } }` and the
    two blocks `impl<'x, T: Dispatch<Group = GroupA>> Kita<'x, Vec<T>, { 2 }> for T { const C …; type Out …; fn get … }`
    (overrides the default) and `… GroupB … { const C …; type Out …; }` (inherits it): one family with two members, the
    three generators succeed, every side condition holds; the trait has three named items and one default (`fn get`);
    resolution of `fn get` in the helper program is the first member's own function for member 0 and the trait's default
    for member 1; the main impl has the items `C`, `Out`, `get` in this order and the signature of `get` is
    `fn get(&self, x: &'_ŠČ0 Vec<_ŠČ1>) -> [Vec<_ŠČ1>; { 2 }]` (lifetime, type and const parameter replaced by the family's
    arguments); the helper trait `_Kita0` declares `'a, _ŠČ3: ?Sized, U, N` and is the trait the main impl's `Self:` bound names -/
theorem C01_items_example : ExIt.run traitDef [memberA, memberB] (fun g ht hs m =>
    g.2.2.length == 2 && hs.length == 2 && expandWF g && !inherentFamily_inh g && traitNameMatches_it traitDef g &&
    genericsShaped_it (XOK.kid traitDef 6) &&
    (traitItemsOf_it traitDef).all traitItemNamed_it && (traitItemsOf_it traitDef).length == 3 &&
    (traitDefaultAssoc_it traitDef).map (fun p => p.1) == ["fn get"] &&
    g.2.2.map (fun b => (implItemAssoc_it b.item).map (fun p => p.1)) == [["const C", "type Out", "fn get"], ["const C", "type Out"]] &&
    genItem (implItemAssoc_it (hs.getD 0 XOK.dummy)) (traitDefaultAssoc_it ht) "fn get" == (g.2.2.head?.bind (fun b => (implItems b.item)[2]?)) &&
    genItem (implItemAssoc_it (hs.getD 1 XOK.dummy)) (traitDefaultAssoc_it ht) "fn get" == (traitItemsOf_it traitDef)[2]? &&
    (implItems m).map itemKey_it == [("const", .node "Ident" ["C"] []), ("type", .node "Ident" ["Out"] []), ("fn", .node "Ident" ["get"] [])] &&
    ((implItems m)[2]?.map (fun it => XOK.kid it 3)) ==
      some (sig "get" [recv, typedArg "x" (refTy "_ŠČ0" (Ex11.vecOf (.tparam "_ŠČ1")))] (retTy (arrTy (Ex11.vecOf (.tparam "_ŠČ1")) (blockExpr "2")))) &&
    (traitParams_inh ht).map pname_inh == ["a", "_ŠČ3", "U", "N"] &&
    traitName_inh ht == "_Kita0" && (mainHref_inh m).map (fun h => XOK.segIdent (XOK.lastSeg h)) == some "_Kita0") = true := by
  with_unfolding_all decide

/-- the clause "the generated item has the trait item's signature" is FALSE for the generics of an associated type (and of
    a const): they are re-printed as `#ty_generics` (`itemGenerics`: identifiers only), and the delegation passes no
    generic argument. Witness: `trait Kita { type Out<X: Clone>; }` with two blocks
    `impl<T: Dispatch<Group = g>> Kita for T { type Out<X: Clone> = X; }` — the generators succeed, the helper trait and
    both helper impls keep `Out<X: Clone>`, but the main impl has `type Out<X> = <Self as _Kita0<…>>::Out;`: other item
    generics than the trait item (the bound is gone) and no `<X>` after `Out`. (rustc rejects this expansion — missing
    generics for the associated type — so generic associated types are unsupported rather than silently wrong.) The
    strongest true statement is `delegates_it` in `C01_main_items_delegate`: the generics are `itemGenerics` of the trait's. -/
theorem C01_item_generics_counterexample : ExIt.run gatTrait [gatMember "GroupA", gatMember "GroupB"] (fun g ht hs m =>
    g.2.2.length == 2 && expandWF g && (traitItemsOf_it gatTrait).length == 1 && (implItems m).length == 1 &&
    XOK.kid ht 9 == XOK.kid gatTrait 9 &&
    hs.all (fun h => (implItems h).map (fun it => XOK.kid it 4) == (traitItemsOf_it gatTrait).map (fun it => XOK.kid it 2)) &&
    (implItems m).map (fun it => XOK.kid it 4) != (traitItemsOf_it gatTrait).map (fun it => XOK.kid it 2) &&
    (implItems m).map (fun it => genericsParams (XOK.kid it 4)) == [[Ex11.tyParam "X" []]] &&
    (implItems m).map (fun it => XOK.kid (XOK.lastSeg (XOK.kid (XOK.kid it 5) 1)) 1) == [noArgs]) = true := by
  with_unfolding_all decide

end ItemExamples

/-- (1–3 as one executable predicate) `itemsOK_it tr idx g ht hs m` (Lemmas/ExpandItems.lean) reads the given trees only:
    the helper trait `ht` is `tr` with nothing but the visibility (`pub`), the name (`_<Trait><idx>`) and the generics
    (`helperGenerics`) changed; helper impl `i` is member `i` with nothing but the trait reference changed (pairwise, same
    number); the main impl's `Self:` bound names `_<Trait><idx><lifetimes, key projections, other arguments of the family's
    trait path>` and its item list is, one by one and with nothing else, the delegation (`delegates_it`) of the resolved
    trait items to that reference. It accepts the model's expansion of every well-formed family of trait mode — so it can
    be evaluated on the REAL expansion of every generated case, like `expandOKB`. -/
theorem C01_itemsOK_of_expand (tr : T) (idx : Nat) (g : T × ABG × List Blk) (ht : T) (hs : List T) (m : T)
    (hht : helperTraitOfTrait tr idx g.2.1.idents.length = some ht) (hh : helperImpls idx g = some hs)
    (hm : mainImplOfTrait tr idx g = .ok m) (hwf : expandWF g = true) :
    itemsOK_it tr idx g ht hs m = true :=
  itemsOK_of_expand_it hht hh hm hwf

section ItemsOKExamples
set_option maxRecDepth 1000000
open ExIt

/-- `mapImplItems` for the examples: the impl with its item list replaced -/
def ExIt.withItems (f : List T → List T) : T → T
  | .node "ItemImpl" [] [a, d, u, g, tr, s, .node "List" [] items] => .node "ItemImpl" [] [a, d, u, g, tr, s, .node "List" [] (f items)]
  | t => t

/-- non-vacuity of `C01_itemsOK_of_expand`, and the predicate is not vacuous: on the example of `C01_items_example` it
    accepts the expansion, and rejects it when the main impl's items are reordered, when one of them is dropped, when the
    second helper impl is given the first member's items, and when the helper trait loses its last item (the default) -/
theorem C01_itemsOK_example : ExIt.run traitDef [memberA, memberB] (fun g ht hs m =>
    expandWF g && itemsOK_it traitDef 0 g ht hs m &&
    !itemsOK_it traitDef 0 g ht hs (ExIt.withItems List.reverse m) &&
    !itemsOK_it traitDef 0 g ht hs (ExIt.withItems List.dropLast m) &&
    !itemsOK_it traitDef 0 g ht (hs.map (fun h => ExIt.withItems (fun _ => implItems (hs.getD 0 XOK.dummy)) h)) m &&
    !itemsOK_it traitDef 0 g (helperTraitOfTrait (match traitDef with
        | .node k as [a0, a1, a2, a3, a4, a5, a6, a7, a8, .node "List" [] its] => .node k as [a0, a1, a2, a3, a4, a5, a6, a7, a8, .node "List" [] its.dropLast]
        | t => t) 0 g.2.1.idents.length |>.getD XOK.dummy) hs m) = true := by
  with_unfolding_all decide

end ItemsOKExamples

end DI
