/-
  C01 — dispatch soundness. Property theorems only (helper lemmas: Lemmas/Refine.lean).
  Statements are about the semantic model of DESIGN.md §6: `genSel W F m q` = "the generated main impl of
  family `F` applies to the ground query `q` and its helper predicate is discharged by the helper impl of
  member `m`"; `applies W b q` = "user block `b` applies to `q`".
-/
import DisjointImpls.Lemmas.Refine
namespace DI

/-- whatever block the generated program selects for a query is a block whose header matches the query and
    whose where-clauses the query satisfies — for every world, query, family and member, with no side condition -/
theorem C01_selected_block_applies (W : World) (F : Family) (m : Member) (q : T) :
    genSel W F m q → applies W m.blk q :=
  gen_sub_spec W F m q

/-- ground coherence of the helper impls of a family (what rustc's coherence check guarantees for a program
    that compiles): no two different members' helper impls apply to one helper reference -/
def HelperCoherent (W : World) (F : Family) : Prop :=
  ∀ q gs m1 m2, m1 ∈ F.members → m2 ∈ F.members → helperApplies W F m1 q gs → helperApplies W F m2 q gs → m1 = m2

/-- it is never another block's item: in a compiling (coherent) program the selected member is unique -/
theorem C01_never_other_block (W : World) (F : Family) (hk : KeysOverHeader F) (hc : HelperCoherent W F)
    (m1 m2 : Member) (h1 : m1 ∈ F.members) (h2 : m2 ∈ F.members) (q : T) :
    genSel W F m1 q → genSel W F m2 q → m1 = m2 := by
  rintro ⟨τ1, gs1, n1, e1, _, l1, p1, a1⟩ ⟨τ2, gs2, n2, e2, _, l2, p2, a2⟩
  have : gs1 = gs2 := helper_args_unique W F hk q τ1 τ2 gs1 gs2 n1 n2 e1 e2 l1 l2 p1 p2
  subst this
  exact hc q gs1 m1 m2 h1 h2 a1 a2

/-- items: the generated main impl delegates item `x` to the helper trait; resolution lands in the selected
    member's helper impl if it defines `x`, otherwise in the helper trait's default. When helper impls carry the
    member's items and the helper trait carries the trait's defaults (validated per case on the real expansion,
    `ExpandOK`), that is the member's own item, and the trait default exactly when the member does not override it. -/
def genItem (helperImplItems : List (String × T)) (helperTraitDefaults : List (String × T)) (x : String) : Option T :=
  match assoc helperImplItems x with
  | some b => some b
  | none => assoc helperTraitDefaults x

def specItem (blockItems : List (String × T)) (traitDefaults : List (String × T)) (x : String) : Option T :=
  match assoc blockItems x with
  | some b => some b
  | none => assoc traitDefaults x

theorem C01_item_of_selected_block (blockItems traitDefaults helperImplItems helperTraitDefaults : List (String × T))
    (h1 : helperImplItems = blockItems) (h2 : helperTraitDefaults = traitDefaults) (x : String) :
    genItem helperImplItems helperTraitDefaults x = specItem blockItems traitDefaults x ∧
    ((assoc blockItems x = none) → genItem helperImplItems helperTraitDefaults x = assoc traitDefaults x) := by
  subst h1; subst h2
  refine ⟨rfl, ?_⟩
  intro h; simp [genItem, h]

/-- non-vacuity: a concrete family (README basic example, block A) satisfies the hypotheses used above -/
example :
    let hdr := T.node "ImplGroupId" [] [.tparam "_ŠČ0"]
    let key : Key := ⟨.tparam "_ŠČ0", .node "Dispatch" [] [], "Group"⟩
    let blk : Block := ⟨hdr, [⟨.tparam "_ŠČ0", .node "Dispatch" [] [], [("Group", .node "GroupA" [] [])]⟩], ["_ŠČ0"]⟩
    let m : Member := ⟨blk, [("_ŠČ0", .identity)], [some (.node "GroupA" [] [])]⟩
    let F : Family := ⟨hdr, [key], ["_ŠČ0"], [m]⟩
    memberOK F m = true := by decide

end DI
