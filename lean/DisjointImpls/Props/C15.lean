import DisjointImpls.Lemmas.Refine
namespace DI
theorem C15_placeholder : (1 : Nat) = 1 := rfl
end DI
