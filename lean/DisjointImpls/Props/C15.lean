/-
  C15 — `?Sized` is handled exactly: corollaries of the refinement theorems (Lemmas/Refine.lean, Props/C02.lean).
  `m.blk.sizedParams` are the type parameters of the member's block that were *not* relaxed with `?Sized`;
  `F.sizedParams` those of the generated main impl.
-/
import DisjointImpls.Lemmas.Refine
import DisjointImpls.Props.C02
namespace DI

/-- no leak: a member selected for `q` matches `q` with a substitution that instantiates every parameter the
    member did not relax with a `Sized` type -/
theorem C15_no_leak (W : World) (F : Family) (m : Member) (q : T) :
    genSel W F m q → ∃ ρ, wkB ρ m.blk = true ∧ inst ρ m.blk.hdr = q ∧ sizedOK W ρ m.blk.sizedParams := by
  intro h
  obtain ⟨ρ, h0, h1, _, h3⟩ := gen_sub_spec W F m q h
  exact ⟨ρ, h0, h1, h3⟩

/-- contrapositive: a member that did not relax a parameter never answers a query that instantiates it with an
    unsized type -/
theorem C15_no_leak_contra (W : World) (F : Family) (m : Member) (q : T)
    (h : ∀ ρ, wkB ρ m.blk = true → inst ρ m.blk.hdr = q → ∃ p ∈ m.blk.sizedParams, W.sized (inst ρ (.tparam p)) = false) :
    ¬ genSel W F m q := by
  intro hg
  obtain ⟨ρ, h0, h1, h3⟩ := C15_no_leak W F m q hg
  obtain ⟨p, hp, hf⟩ := h ρ h0 h1
  rw [h3 p hp] at hf; cases hf

/-- the same for the generated main impl: it only answers queries that instantiate its non-relaxed parameters
    with `Sized` types -/
theorem C15_main_impl_sized (W : World) (F : Family) (m : Member) (q : T) :
    genSel W F m q → ∃ τ, wkF τ F = true ∧ inst τ F.hdr = q ∧ sizedOK W τ F.sizedParams := by
  rintro ⟨τ, _, h0, h1, h2, _⟩
  exact ⟨τ, h0, h1, h2⟩

/-- exactness: under the hypotheses of C02 (in particular `SizedCompat`: the main impl requires `Sized` of no
    more than the member does) the member is selected exactly for the queries its block accepts, `Sized`
    requirements included -/
theorem C15_unsized_exact (W : World) (F : Family) (m : Member) (q : T)
    (hm : memberOK F m = true) (hw : WorldTotal W F) (hθ : ThetaCovers F m) (hs : SizedCompat W F m) :
    genSel W F m q ↔
      ∃ ρ, wkB ρ m.blk = true ∧ inst ρ m.blk.hdr = q ∧ (∀ c ∈ m.blk.clauses, holds W ρ c) ∧ sizedOK W ρ m.blk.sizedParams :=
  C02_member_selected_iff_applies W F m q hm hw hθ hs

/-- relaxing is monotone: dropping parameters from the `Sized` list of a block only adds queries -/
theorem C15_relax_monotone (W : World) (b : Block) (ps : List String) (hsub : ∀ p ∈ ps, p ∈ b.sizedParams) (q : T) :
    applies W b q → applies W { b with sizedParams := ps } q := by
  rintro ⟨ρ, h0, h1, h2, h3⟩
  exact ⟨ρ, wkB_of_sub (b := b) (b' := { b with sizedParams := ps }) rfl (fun _ hc => hc) hsub h0, h1, h2, fun p hp => h3 p (hsub p hp)⟩

/-- a member with its `Sized` list replaced -/
def Member.relax (m : Member) (ps : List String) : Member := { m with blk := { m.blk with sizedParams := ps } }

/-- the family with member `m'` replaced by its relaxed version -/
def Family.relaxMember (F : Family) (m' : Member) (ps : List String) : Family :=
  { F with members := F.members.map (fun x => if x = m' then m'.relax ps else x) }

/-- relaxation is local: changing the `?Sized` relaxations of one member `m'` leaves every other member in the
    family, with the same block, selected for exactly the same queries -/
theorem C15_relaxation_local (W : World) (F : Family) (m m' : Member) (ps : List String) (q : T)
    (hm : m ∈ F.members) (hne : m ≠ m') :
    m ∈ (F.relaxMember m' ps).members ∧
    (genSel W (F.relaxMember m' ps) m q ↔ genSel W F m q) := by
  refine ⟨?_, Iff.rfl⟩
  exact List.mem_map.2 ⟨m, hm, by simp [hne]⟩

/-- selection of a member does not depend on the other members of the family at all -/
theorem C15_selection_ignores_members (W : World) (F : Family) (ms : List Member) (m : Member) (q : T) :
    genSel W { F with members := ms } m q ↔ genSel W F m q := Iff.rfl

/-- D7: `SizedCompat` is needed for exactness — a member relaxing `p` inside `Box<p>` applies to `Box<str>`,
    the generated main impl (which keeps `p: Sized`) does not -/
theorem C15_counterexample_D7 :
    ∃ (W : World) (F : Family) (m : Member) (q : T),
      memberOK F m = true ∧ applies W m.blk q ∧ ¬ genSel W F m q :=
  C02_counterexample_D7

/-- non-vacuity of `C15_no_leak_contra`: in the world of D7 (`str` unsized) a member `impl<p> … for Box<p>` that
    did *not* relax `p` is never selected for `Box<str>` -/
example :
    let blk : Block := ⟨D7.bx (.tparam "p"), [⟨D7.bx (.tparam "p"), D7.d, [("G", D7.ga)]⟩], ["p"]⟩
    let m : Member := ⟨blk, [("p", .identity)], [some D7.ga]⟩
    let F : Family := ⟨D7.bx (.tparam "p"), [⟨D7.bx (.tparam "p"), D7.d, "G"⟩], ["p"], [m]⟩
    memberOK F m = true ∧ ¬ genSel D7.W F m (D7.bx D7.str) := by
  refine ⟨by decide, ?_⟩
  apply C15_no_leak_contra
  intro ρ hρ he
  refine ⟨"p", by simp, ?_⟩
  have : inst ρ (.tparam "p") = D7.str := by
    simp only [D7.bx] at he
    rw [inst_other ρ (by rfl)] at he
    simp only [instL] at he
    injection he with _ _ h3
    injection h3
  rw [this]; decide

end DI
