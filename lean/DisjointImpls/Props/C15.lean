/-
  C15 — `?Sized` is handled exactly: corollaries of the refinement theorems (Lemmas/Refine.lean, Props/C02.lean).
  `m.blk.sizedParams` are the type parameters of the member's block that were *not* relaxed with `?Sized`;
  `F.sizedParams` those of the generated main impl.
-/
import DisjointImpls.Lemmas.Refine
import DisjointImpls.Lemmas.UnsizedSearch
import DisjointImpls.Lemmas.UnsizedExpand
import DisjointImpls.Props.C01
import DisjointImpls.Props.C02
import DisjointImpls.Props.C05
namespace DI

/-- no leak: a member selected for `q` matches `q` with a substitution that instantiates every parameter the
    member did not relax with a `Sized` type -/
theorem C15_no_leak (W : World) (F : Family) (m : Member) (q : T) :
    genSel W F m q → ∃ ρ, wkB ρ m.blk = true ∧ inst ρ m.blk.hdr = q ∧ sizedOK W ρ m.blk.sizedParams := by
  intro h
  obtain ⟨ρ, h0, h1, _, h3⟩ := gen_sub_spec W F m q h
  exact ⟨ρ, h0, h1, h3⟩

/-- contrapositive: a member that did not relax a parameter never answers a query that instantiates it with an
    unsized type -/
theorem C15_no_leak_contra (W : World) (F : Family) (m : Member) (q : T)
    (h : ∀ ρ, wkB ρ m.blk = true → inst ρ m.blk.hdr = q → ∃ p ∈ m.blk.sizedParams, W.sized (inst ρ (.tparam p)) = false) :
    ¬ genSel W F m q := by
  intro hg
  obtain ⟨ρ, h0, h1, h3⟩ := C15_no_leak W F m q hg
  obtain ⟨p, hp, hf⟩ := h ρ h0 h1
  rw [h3 p hp] at hf; cases hf

/-- the same for the generated main impl: it only answers queries that instantiate its non-relaxed parameters
    with `Sized` types -/
theorem C15_main_impl_sized (W : World) (F : Family) (m : Member) (q : T) :
    genSel W F m q → ∃ τ, wkF τ F = true ∧ inst τ F.hdr = q ∧ sizedOK W τ F.sizedParams := by
  rintro ⟨τ, _, h0, h1, h2, _⟩
  exact ⟨τ, h0, h1, h2⟩

/-- exactness: under the hypotheses of C02 (in particular `SizedCompat`: the main impl requires `Sized` of no
    more than the member does) the member is selected exactly for the queries its block accepts, `Sized`
    requirements included -/
theorem C15_unsized_exact (W : World) (F : Family) (m : Member) (q : T)
    (hm : memberOK F m = true) (hw : WorldTotal W F) (hθ : ThetaCovers F m) (hs : SizedCompat W F m) :
    genSel W F m q ↔
      ∃ ρ, wkB ρ m.blk = true ∧ inst ρ m.blk.hdr = q ∧ (∀ c ∈ m.blk.clauses, holds W ρ c) ∧ sizedOK W ρ m.blk.sizedParams :=
  C02_member_selected_iff_applies W F m q hm hw hθ hs

/-- relaxing is monotone: dropping parameters from the `Sized` list of a block only adds queries -/
theorem C15_relax_monotone (W : World) (b : Block) (ps : List String) (hsub : ∀ p ∈ ps, p ∈ b.sizedParams) (q : T) :
    applies W b q → applies W { b with sizedParams := ps } q := by
  rintro ⟨ρ, h0, h1, h2, h3⟩
  exact ⟨ρ, wkB_of_sub (b := b) (b' := { b with sizedParams := ps }) rfl (fun _ hc => hc) hsub h0, h1, h2, fun p hp => h3 p (hsub p hp)⟩

/-- a member with its `Sized` list replaced -/
def Member.relax (m : Member) (ps : List String) : Member := { m with blk := { m.blk with sizedParams := ps } }

/-- the family with member `m'` replaced by its relaxed version -/
def Family.relaxMember (F : Family) (m' : Member) (ps : List String) : Family :=
  { F with members := F.members.map (fun x => if x = m' then m'.relax ps else x) }

/-- relaxation is local: changing the `?Sized` relaxations of one member `m'` leaves every other member in the
    family, with the same block, selected for exactly the same queries -/
theorem C15_relaxation_local (W : World) (F : Family) (m m' : Member) (ps : List String) (q : T)
    (hm : m ∈ F.members) (hne : m ≠ m') :
    m ∈ (F.relaxMember m' ps).members ∧
    (genSel W (F.relaxMember m' ps) m q ↔ genSel W F m q) := by
  refine ⟨?_, Iff.rfl⟩
  exact List.mem_map.2 ⟨m, hm, by simp [hne]⟩

/-- selection of a member does not depend on the other members of the family at all -/
theorem C15_selection_ignores_members (W : World) (F : Family) (ms : List Member) (m : Member) (q : T) :
    genSel W { F with members := ms } m q ↔ genSel W F m q := Iff.rfl

/-- D7: `SizedCompat` is needed for exactness — a member relaxing `p` inside `Box<p>` applies to `Box<str>`,
    the generated main impl (which keeps `p: Sized`) does not -/
theorem C15_counterexample_D7 :
    ∃ (W : World) (F : Family) (m : Member) (q : T),
      memberOK F m = true ∧ applies W m.blk q ∧ ¬ genSel W F m q :=
  C02_counterexample_D7

/-- non-vacuity of `C15_no_leak_contra`: in the world of D7 (`str` unsized) a member `impl<p> … for Box<p>` that
    did *not* relax `p` is never selected for `Box<str>` -/
example :
    let blk : Block := ⟨D7.bx (.tparam "p"), [⟨D7.bx (.tparam "p"), D7.d, [("G", D7.ga)]⟩], ["p"]⟩
    let m : Member := ⟨blk, [("p", .identity)], [some D7.ga]⟩
    let F : Family := ⟨D7.bx (.tparam "p"), [⟨D7.bx (.tparam "p"), D7.d, "G"⟩], ["p"], [m]⟩
    memberOK F m = true ∧ ¬ genSel D7.W F m (D7.bx D7.str) := by
  refine ⟨by decide, ?_⟩
  apply C15_no_leak_contra
  intro ρ hρ he
  refine ⟨"p", by simp, ?_⟩
  have : inst ρ (.tparam "p") = D7.str := by
    simp only [D7.bx] at he
    rw [inst_other ρ (by rfl)] at he
    simp only [instL] at he
    injection he with _ _ h3
    injection h3
  rw [this]; decide

/-! ## The `?Sized` set computed by the grouping search, and `SizedCompat` from the search (Lemmas/UnsizedSearch.lean)

  `e = (header, abg, members)` is a family of the accepted grouping; `abg.unsized` is the `unsized_params` set of
  `AssocBoundsGroup`; `b.unsized` the bounded types on which block `b` wrote a `?Trait` bound (inline or where-clause).
  NOTE (model = code, lib.rs:543-559): a bound `T: ?Sized` is itself recorded as a key `(T, Sized)` without bindings. It
  takes part in the intersections and is removed only by `prune_non_assoc`. Hence the key set that decides what the
  `retain` of lib.rs:472 keeps is the one BEFORE pruning (`keys0` below), not the keys of the final family. -/

/-- **The computed set, for every accepted input and every family.** There is a key list `keys0` — the keys of the
    search candidate as they were after the last member joined, before `prune_non_assoc` — of which the family's keys are
    the ones with a binding, such that
    * a single-member family has `keys0 = ` the keys of `ABG.new` of that member and `abg.unsized = ` the member's own set;
    * in a family with two or more members, `p ∈ abg.unsized` iff some member relaxed `p` (by spelling) and `p` is the
      bounded type of a key in `keys0`.
    No side condition. -/
theorem C15_unsized_of_search (items : List T) (groups : Groups) (h : parseGroups items = .ok groups) :
    ∀ e ∈ groups, ∃ keys0 : List (BKey × List Row),
      e.2.1.bounds = keys0.filter (fun kr => kr.2.any (fun r => !r.isEmpty)) ∧
      ((∃ b, e.2.2 = [b] ∧ keys0 = (ABG.new b).bounds ∧ e.2.1.unsized = b.unsized) ∨
       (2 ≤ e.2.2.length ∧
         ∀ p, p ∈ e.2.1.unsized ↔ (∃ b ∈ e.2.2, p ∈ b.unsized) ∧ p ∈ keys0.map (fun kr => kr.1.1))) := by
  intro e he
  obtain ⟨e0, ⟨hne, hone, htwo⟩, rfl⟩ := parseGroups_unsizedInv_uz h he
  refine ⟨e0.2.1.bounds, rfl, ?_⟩
  cases hms : e0.2.2 with
  | nil => exact absurd hms hne
  | cons b1 tl =>
    cases tl with
    | nil => exact Or.inl ⟨b1, rfl, by rw [hone b1 hms], by rw [prune_unsized_uz, hone b1 hms]; rfl⟩
    | cons b2 tl =>
      refine Or.inr ⟨by simp, ?_⟩
      have := htwo (by rw [hms]; simp)
      rw [hms] at this
      exact this

/-- **What the main impl relaxes, order-free and search-free**, for every family (one member or many) of every accepted
    input: the main impl writes `p: ?Sized + …` (`mainRelaxed_uz e p`: `p ∈ abg.unsized` and `p` is the bounded type of a
    key of the family) exactly for the bounded types `p` of the family's (surviving) keys that SOME member relaxed — whichever
    member, inline or in the where-clause. -/
theorem C15_main_relaxed_characterised (items : List T) (groups : Groups) (h : parseGroups items = .ok groups) :
    ∀ e ∈ groups, ∀ p, mainRelaxed_uz e p ↔ (∃ b ∈ e.2.2, p ∈ b.unsized) ∧ p ∈ keyTypes_uz e.2.1 :=
  fun _ he p => mainRelaxed_iff_uz h he p

/-- soundness of the executable check `sizedCompatB` (Bounds.lean), general case: in every world in which every
    constructed type other than a slice or a trait object is `Sized` (`SizedWorld_uz W`; NOTE that `str`, a `Type::Path`,
    must be `Sized` in such a world — the constructed-type arm of `sizedCompatB` is not sound for `θ(p) = str`) -/
theorem C15_sizedCompatB_sound (W : World) (hW : SizedWorld_uz W) (F : Family) (m : Member)
    (h : sizedCompatB F m = true) : SizedCompat W F m :=
  sizedCompatB_sound_uz W hW F m h

/-- … and in EVERY world (`str` unsized included) for a member whose substitution assigns no constructed type
    (`noCtor_uz m.θ`, executable; in particular every member of an un-nested family) -/
theorem C15_sizedCompatB_sound_noCtor (W : World) (F : Family) (m : Member) (hθ : noCtor_uz m.θ = true)
    (h : sizedCompatB F m = true) : SizedCompat W F m :=
  sizedCompatB_sound_noCtor_uz W F m hθ h

/-- **`SizedCompat` from the search, flat case.** `mainSizedParams_uz e` are the `Sized` parameters of the main impl as the
    generator determines them (type parameters of the first member, minus those `x` with `x ∈ abg.unsized` and `x` the
    bounded type of a key with an associated-type identifier). Side conditions, all executable, per family:
    * `noNesting items`, `selfIdentity e.1` (the header matches itself with identity bindings);
    * `mainParamsOK_uz e`: every `Sized` parameter of the main impl is bound by the header's self-match and is declared as
      a TYPE parameter by every member;
    * `relaxedAreKeys_uz e` — the negation of D7's shape: a type parameter that some member relaxes is itself the bounded
      type of a key of the family (there is NO exemption for single-member families: the main impl only relaxes bounded
      types of keys, `C15_counterexample_D7_single`). -/
theorem C15_sizedCompat_of_search_flat (items : List T) (groups : Groups) (h : parseGroups items = .ok groups)
    (hn : noNesting items = true) :
    ∀ e ∈ groups, selfIdentity e.1 = true → mainParamsOK_uz e = true → relaxedAreKeys_uz e = true →
      ∀ m ∈ (familyOfGroup (mainSizedParams_uz e) e).members,
        sizedCompatB (familyOfGroup (mainSizedParams_uz e) e) m = true :=
  fun _ he hs hp hr => flat_sizedCompatB_uz h (noNesting_spec items hn) he hs hp hr

/-- … also for every main impl that requires `Sized` of fewer parameters (`sp ⊆ mainSizedParams_uz e`; e.g. the trait's own
    where-clause relaxes one more), and then `SizedCompat` holds in EVERY world -/
theorem C15_sizedCompat_of_search_flat_sem (items : List T) (groups : Groups) (h : parseGroups items = .ok groups)
    (hn : noNesting items = true) (W : World) :
    ∀ e ∈ groups, selfIdentity e.1 = true → mainParamsOK_uz e = true → relaxedAreKeys_uz e = true →
      ∀ sp : List String, (∀ p ∈ sp, p ∈ mainSizedParams_uz e) →
      ∀ m ∈ (familyOfGroup sp e).members, sizedCompatB (familyOfGroup sp e) m = true ∧ SizedCompat W (familyOfGroup sp e) m :=
  fun _ he hs hp hr sp hsub m hm =>
    ⟨flat_sizedCompatB_sub_uz h (noNesting_spec items hn) he hs hp hr sp hsub m hm,
     flat_sizedCompat_uz h (noNesting_spec items hn) he hs hp hr sp hsub W m hm⟩

/-- the header part of `mainParamsOK_uz` in the terms of `hdrCoversB`: a parameter that occurs in a header which is `wf`
    for the matcher and matches itself without a lenient arm is bound to the identity by the self-match -/
theorem C15_selfSubst_identity (gid : T) (hclean : selfClean gid = true) (hwf : wf gid = true) (p : String)
    (hp : p ∈ params gid) : lookup (selfSubst_uz gid) p = some .identity :=
  selfSubst_identity_uz hclean hwf hp

/-- **Exactness from the search, flat case, per member**: for an accepted un-nested invocation and a family that passes the
    executable check `unsizedFlatOK_uz e` (= `flatGroupOK e && hdrCoversB F && mainParamsOK_uz e && relaxedAreKeys_uz e`,
    `F` the abstraction of the family with the main impl's own `Sized` parameters), in every world in which the dispatch
    traits define their associated types: a member is selected for a query EXACTLY when its block applies to it —
    including queries that instantiate a relaxed parameter with an unsized type (whichever member wrote the relaxation:
    the main impl relaxes the parameter if any member did, `C15_main_relaxed_characterised`), and excluding them for a
    member that did not relax it (`applies` requires `sizedOK` of the member's own non-relaxed parameters). -/
theorem C15_unsized_exact_flat (items : List T) (groups : Groups) (h : parseGroups items = .ok groups)
    (hn : noNesting items = true) (W : World) :
    ∀ e ∈ groups, unsizedFlatOK_uz e = true → WorldTotal W (familyOfGroup (mainSizedParams_uz e) e) →
      ∀ m ∈ (familyOfGroup (mainSizedParams_uz e) e).members, ∀ q,
        genSel W (familyOfGroup (mainSizedParams_uz e) e) m q ↔
          ∃ ρ, wkB ρ m.blk = true ∧ inst ρ m.blk.hdr = q ∧ (∀ c ∈ m.blk.clauses, holds W ρ c) ∧
            sizedOK W ρ m.blk.sizedParams :=
  fun _ he hok hw m hm q => flat_unsized_exact_uz h (noNesting_spec items hn) he hok W hw m hm q

/-- **Exact coverage from the search, flat case, WITHOUT the hypothesis `SizedCompat`** (compare
    `C02_end_to_end_flat_coverage`): each family is abstracted with the main impl's own `Sized` parameters -/
theorem C15_end_to_end_flat_coverage (items : List T) (groups : Groups) (h : parseGroups items = .ok groups)
    (hn : noNesting items = true) (hok : ∀ e ∈ groups, unsizedFlatOK_uz e = true)
    (W : World) (hw : ∀ e ∈ groups, WorldTotal W (familyOfGroup (mainSizedParams_uz e) e)) (q : T) :
    (∃ e ∈ groups, ∃ m ∈ (familyOfGroup (mainSizedParams_uz e) e).members,
        genSel W (familyOfGroup (mainSizedParams_uz e) e) m q) ↔
    (∃ it ∈ items, applies W (mkBlock (canon it)) q) :=
  flat_coverage_unsized_uz h (noNesting_spec items hn) hok W hw q

/-- **Whichever block wrote it / order-freeness** (restating `C05_flat_families_order_free`): for an un-nested invocation
    and any permutation of its blocks, both accepted, the families correspond by header and corresponding families have
    the same `?Sized` set (as a set), the same members up to order — hence the main impl relaxes the same bounded types -/
theorem C15_unsized_order_free (items items' : List T) (g g' : Groups) (hp : items.Perm items')
    (hn : noNesting items = true) (hwf : flatWF0 items = true)
    (h : parseGroups items = .ok g) (h' : parseGroups items' = .ok g') :
    ∀ e ∈ g, ∃ e' ∈ g', e'.1 = e.1 ∧ e.2.2.Perm e'.2.2 ∧ (∀ p, p ∈ e.2.1.unsized ↔ p ∈ e'.2.1.unsized) ∧
      ∀ p, mainRelaxed_uz e p ↔ mainRelaxed_uz e' p := by
  intro e he
  obtain ⟨e', he', h1, h2, h3, _, h5⟩ := (C05_flat_families_order_free items items' g g' hp hn hwf h h').2.2 e he
  refine ⟨e', he', h1, h2, h5, fun p => ?_⟩
  unfold mainRelaxed_uz
  rw [h5 p]
  have hk : p ∈ keyTypes_uz e.2.1 ↔ p ∈ keyTypes_uz e'.2.1 := by
    have hm : ∀ g : ABG, keyTypes_uz g = (g.bounds.map (fun kr => nk kr.1)).map (·.1) := by
      intro g; simp [keyTypes_uz, nk, List.map_map, Function.comp_def]
    rw [hm, hm]
    exact (h3.map _).mem_iff
  rw [hk]

/-! ### Closed witnesses -/

namespace ExU
open Ex11
/-- `?Sized` -/
def maybeSized : T :=
  .node "TypeParamBound::Trait" [] [.node "TraitBound" [] [leaf "None", leaf "TraitBoundModifier::Maybe", leaf "None", Ex11.path [Ex11.seg "Sized"]]]
/-- `bounded: bs` as a where-predicate -/
def wherePred (bounded : T) (bs : List T) : T :=
  .node "WherePredicate::Type" [] [.node "PredicateType" [] [leaf "None", bounded, .node "List" [] bs]]
/-- `impl<params> Kita for self where preds {}` -/
def implOfW (params : List T) (self : T) (preds : List T) : T :=
  .node "ItemImpl" [] [attrs, leaf "None", leaf "None",
    .node "Generics" [] [leaf "Some", .node "List" [] params, leaf "Some",
      .node "Some" [] [.node "WhereClause" [] [.node "List" [] preds]]],
    .node "Some" [] [.node "Tuple" [] [leaf "None", Ex11.path [Ex11.seg "Kita"]]], self, .node "List" [] []]
/-- D7's shape: `impl<T: ?Sized> Kita for Box<T> where Box<T>: Dispatch<Group = g> {}` -/
def d7Block (g : String) : T := implOfW [tyParam "T" [maybeSized]] (boxOf tT) [wherePred (boxOf tT) [traitBound (dispatch g)]]
/-- the same without the relaxation: `impl<T> Kita for Box<T> where Box<T>: Dispatch<Group = g> {}` -/
def boxBlock (g : String) : T := implOfW [tyParam "T" []] (boxOf tT) [wherePred (boxOf tT) [traitBound (dispatch g)]]
/-- `tests/unsized_type.rs`: `impl<T: ?Sized + Dispatch<Group = g>> Kita for T {}` -/
def relaxedBlock (g : String) : T := implOf [tyParam "T" [maybeSized, traitBound (dispatch g)]] tT
/-- the same with the relaxation in the where-clause: `impl<T: Dispatch<Group = g>> Kita for T where T: ?Sized {}` -/
def relaxedBlockW (g : String) : T := implOfW [tyParam "T" [traitBound (dispatch g)]] tT [wherePred tT [maybeSized]]
/-- `Kita<v>` -/
def kitaOf (v : T) : T := Ex11.path [.node "PathSegment" [] [.node "Ident" ["Kita"] [],
  .node "PathArguments::AngleBracketed" [] [.node "Ign" [] [leaf "None"], .node "List" [] [.node "GenericArgument::Type" [] [v]]]]]
/-- `impl<params> tr for self {}` -/
def implTr (params : List T) (tr self : T) : T :=
  .node "ItemImpl" [] [attrs, leaf "None", leaf "None",
    .node "Generics" [] [leaf "Some", .node "List" [] params, leaf "Some", leaf "None"],
    .node "Some" [] [.node "Tuple" [] [leaf "None", tr]], self, .node "List" [] []]
def tV : T := Ex11.tyPath [Ex11.seg "V"]
def tA1 : T := Ex11.tyPath [Ex11.seg "A1"]
def tA2 : T := Ex11.tyPath [Ex11.seg "A2"]
def tB : T := Ex11.tyPath [Ex11.seg "B"]
/-- the canonical parameter `_ŠČi` as a bounded type -/
def cp (i : Nat) : T := .tparam (genIndexedIdent i)
/-- summary of a family: (`abg.unsized`, bounded types of the keys, `Sized` parameters of the main impl, number of members,
    `relaxedAreKeys_uz`, `sizedCompatB` of every member) -/
def summary (e : T × ABG × List Blk) : List T × List T × List String × Nat × Bool × List Bool :=
  (e.2.1.unsized, keyTypes_uz e.2.1, mainSizedParams_uz e, e.2.2.length, relaxedAreKeys_uz e,
   (familyOfGroup (mainSizedParams_uz e) e).members.map (fun m => sizedCompatB (familyOfGroup (mainSizedParams_uz e) e) m))
end ExU

section UnsizedWitnesses
open Ex11 ExU
set_option maxRecDepth 1000000

/-- D7 in the search model, both members relax: `impl<T: ?Sized> Kita for Box<T> where Box<T>: Dispatch<Group = GroupA>` +
    `… GroupB`. `abg.unsized` KEEPS `T` (the bound `T: ?Sized` is itself a key `(T, Sized)` of both members, so `T` is the
    bounded type of a key when `retain` runs; the key is pruned afterwards), but the only surviving key is bounded on
    `Box<T>`, so the main impl declares `T` `Sized`: `sizedCompatB` fails for both members. -/
theorem C15_counterexample_D7_search :
    ∃ gs, parseGroups [d7Block "GroupA", d7Block "GroupB"] = .ok gs ∧
      (noNesting [d7Block "GroupA", d7Block "GroupB"] &&
        gs.map summary == [([cp 0], [boxOf (cp 0)], ["_ŠČ0"], 2, false, [false, false])]) = true :=
  ParseResult.ok_of_check (f := fun gs => noNesting [d7Block "GroupA", d7Block "GroupB"] &&
    gs.map summary == [([cp 0], [boxOf (cp 0)], ["_ŠČ0"], 2, false, [false, false])]) (by with_unfolding_all decide)

/-- D7, only one of two members relaxes (`d7Block` + `boxBlock`): now `(T, Sized)` is not a common key and the `retain` of
    lib.rs:472 drops `T` from `abg.unsized`; `sizedCompatB` fails for the member that relaxed. -/
theorem C15_counterexample_D7_retain :
    ∃ gs, parseGroups [d7Block "GroupA", boxBlock "GroupB"] = .ok gs ∧
      (gs.map summary == [([], [boxOf (cp 0)], ["_ŠČ0"], 2, false, [false, true])]) = true :=
  ParseResult.ok_of_check (f := fun gs => gs.map summary == [([], [boxOf (cp 0)], ["_ŠČ0"], 2, false, [false, true])])
    (by with_unfolding_all decide)

/-- the contrast: the single-member family keeps `T` in `abg.unsized` (`ABG.new`) — but the main impl still does not
    relax it (`T` is not the bounded type of a key), so `sizedCompatB` fails all the same: D7 needs no second member,
    and `relaxedAreKeys_uz` must not exempt single-member families. -/
theorem C15_counterexample_D7_single :
    ∃ gs, parseGroups [d7Block "GroupA"] = .ok gs ∧
      (gs.map summary == [([cp 0], [boxOf (cp 0)], ["_ŠČ0"], 1, false, [false])]) = true :=
  ParseResult.ok_of_check (f := fun gs => gs.map summary == [([cp 0], [boxOf (cp 0)], ["_ŠČ0"], 1, false, [false])])
    (by with_unfolding_all decide)

/-- hence `C15_sizedCompat_of_search_flat` is false without `relaxedAreKeys_uz` -/
theorem C15_sizedCompat_of_search_flat_unconditional_false :
    ¬ ∀ (items : List T) (groups : Groups), parseGroups items = .ok groups → noNesting items = true →
        ∀ e ∈ groups, ∀ m ∈ (familyOfGroup (mainSizedParams_uz e) e).members,
          sizedCompatB (familyOfGroup (mainSizedParams_uz e) e) m = true := by
  intro hall
  obtain ⟨gs, hgs, hchk⟩ := C15_counterexample_D7_search
  simp only [Bool.and_eq_true, beq_iff_eq] at hchk
  obtain ⟨hn, hmap⟩ := hchk
  have hall' := hall _ gs hgs hn
  cases gs with
  | nil => simp at hmap
  | cons e rest =>
    simp only [List.map_cons, List.cons.injEq] at hmap
    have h1 := hmap.1
    simp only [summary, Prod.mk.injEq] at h1
    have h2 := h1.2.2.2.2.2
    cases hmem : (familyOfGroup (mainSizedParams_uz e) e).members with
    | nil => rw [hmem] at h2; simp at h2
    | cons m ms =>
      rw [hmem] at h2
      simp only [List.map_cons, List.cons.injEq] at h2
      have := hall' e (by simp) m (by rw [hmem]; simp)
      rw [this] at h2
      exact absurd h2.1 (by simp)

/-- NESTED, over-relaxation by spelling: `impl<T: Dispatch<Group = GroupA>> Kita for T` +
    `impl<U: ?Sized> Kita for Box<U> where Box<U>: Dispatch<Group = GroupB>`. The nested member's `U` is `_ŠČ0` in ITS
    numbering, the family's `T` is `_ŠČ0` in the family's; the union of lib.rs:432-433 is by spelling, so the family
    relaxes `T` although NO block relaxed the parameter that is `T` (block 1 did not, and block 2 instantiates `T` with
    the sized `Box<U>`). For `SizedCompat` this is harmless (`sizedCompatB` holds for both members); in Rust the main
    impl becomes `impl<_ŠČ0: ?Sized> Kita for _ŠČ0`, which does NOT compile when the trait has a by-value `self` method
    (E0277, confirmed with rustc on the real macro): relaxing in one block makes the invocation fail. -/
theorem C15_nested_over_relaxation :
    ∃ gs, parseGroups [blockFor "GroupA", d7Block "GroupB"] = .ok gs ∧
      (!noNesting [blockFor "GroupA", d7Block "GroupB"] &&
       gs.map summary == [([cp 0], [cp 0], [], 2, true, [true, true])] &&
       gs.all (fun e => e.2.2.map (fun b => b.unsized) == [[], [cp 0]])) = true :=
  ParseResult.ok_of_check (f := fun gs => !noNesting [blockFor "GroupA", d7Block "GroupB"] &&
    gs.map summary == [([cp 0], [cp 0], [], 2, true, [true, true])] &&
    gs.all (fun e => e.2.2.map (fun b => b.unsized) == [[], [cp 0]])) (by with_unfolding_all decide)

/-- NESTED, lost relaxation by spelling (a DEFECT, coverage hole like D7 but on a key's own bounded type):
    `impl<T, V: Dispatch<Group = GroupA>> Kita<T> for V` (`T` = `_ŠČ0`, `V` = `_ŠČ1`) +
    `impl<A1, A2, B: ?Sized + Dispatch<Group = GroupB>> Kita<(A1, A2)> for B` (`B` = `_ŠČ2`). The nested member relaxes
    `B`, the image of the family's key parameter `V`; its set `[_ŠČ2]` is united by spelling with the family's and then
    filtered by the family's key types `[_ŠČ1]`: the relaxation is lost, the main impl requires `V: Sized`, and
    `sizedCompatB` fails for the nested member (`str: Kita<(u8, u8)>` is not implemented although block 2 applies —
    confirmed with rustc on the real macro). When the numbers happen to coincide (`Kita<Vec<A1>> for B`: `B` = `_ŠČ1`)
    the relaxation survives. `relaxedAreKeys_uz` (a check for flat families) does not see it. -/
theorem C15_nested_lost_relaxation :
    let items := [implTr [tyParam "T" [], tyParam "V" [traitBound (dispatch "GroupA")]] (kitaOf tT) tV,
      implTr [tyParam "A1" [], tyParam "A2" [], tyParam "B" [maybeSized, traitBound (dispatch "GroupB")]] (kitaOf (tup [tA1, tA2])) tB]
    ∃ gs, parseGroups items = .ok gs ∧
      (!noNesting items && gs.map summary == [([], [cp 1], ["_ŠČ0", "_ŠČ1"], 2, true, [true, false])] &&
       gs.all (fun e => e.2.2.map (fun b => b.unsized) == [[], [cp 2]])) = true := by
  intro items
  exact ParseResult.ok_of_check (f := fun gs => !noNesting items &&
    gs.map summary == [([], [cp 1], ["_ŠČ0", "_ŠČ1"], 2, true, [true, false])] &&
    gs.all (fun e => e.2.2.map (fun b => b.unsized) == [[], [cp 2]])) (by with_unfolding_all decide)

end UnsizedWitnesses

/-! ### Non-vacuity: the shape of `tests/unsized_type.rs` -/

namespace ExU
open Ex11 E2E
def strT : T := Ex11.tyPath [Ex11.seg "str"]
/-- `[u8]` -/
def sliceT : T := .node "Type::Slice" [] [Ex11.tyPath [Ex11.seg "u8"]]
/-- `str: Dispatch<Group = GroupA>` (unsized), `u32: Dispatch<Group = GroupB>` (sized), `[u8]: Dispatch<Group = GroupB>`
    (unsized); nothing else -/
def WU : World :=
  ⟨fun tr ty => if tr = dispTr ∧ ty = strT then some [("Group", Ex11.tyPath [Ex11.seg "GroupA"])]
    else if tr = dispTr ∧ (ty = u32T ∨ ty = sliceT) then some [("Group", Ex11.tyPath [Ex11.seg "GroupB"])] else none,
   fun t => t != strT && t != sliceT⟩
/-- `impl<T: ?Sized + Dispatch<Group = GroupA>> Kita for T {}` + `impl<T: Dispatch<Group = GroupB>> Kita for T {}` -/
def itemsU : List T := [relaxedBlock "GroupA", blockFor "GroupB"]
/-- the same with the relaxation written in the where-clause, and the blocks in the other order -/
def itemsU' : List T := [blockFor "GroupB", relaxedBlockW "GroupA"]
def hdrU : T := .node "ImplGroupId" [] [.node "Some" [] [Ex11.path [Ex11.seg "Kita"]], .tparam "_ŠČ0"]
end ExU

section UnsizedExample
open Ex11 E2E ExU
set_option maxRecDepth 1000000

theorem inst_hdrU_uz {ρ : Subst} {ty : T} (h : inst ρ hdrU = query ty) : inst ρ (.tparam "_ŠČ0") = ty := by
  simp only [hdrU, query] at h
  rw [inst_other ρ (by rfl)] at h
  simp only [instL] at h
  injection h with _ _ h3
  injection h3 with _ h4
  injection h4

/-- NON-VACUITY of the flat `?Sized` theorems, on the shape of `tests/unsized_type.rs`
    (`impl<T: ?Sized + Dispatch<Group = GroupA>> Kita for T` + `impl<T: Dispatch<Group = GroupB>> Kita for T`, the second
    block not relaxing) and the world `ExU.WU` in which `str` and `[u8]` are unsized: the input is accepted, un-nested, its
    family passes `unsizedFlatOK_uz` (so `sizedCompatB`/`SizedCompat` hold by `C15_sizedCompat_of_search_flat`), the main
    impl has no `Sized` parameter left, and by `C15_end_to_end_flat_coverage`
    * the generated program implements `Kita` for the UNSIZED `str` (through the member that relaxed),
    * for the sized `u32` (through the member that did not relax — relaxing in one block does not disturb the other),
    * and NOT for the unsized `[u8]`, whose `Group` selects the member that did not relax: no leak, although the main impl
      is relaxed. -/
theorem C15_unsized_type_example :
    ∃ gs, parseGroups itemsU = .ok gs ∧ noNesting itemsU = true ∧
      (∀ e ∈ gs, unsizedFlatOK_uz e = true ∧ mainSizedParams_uz e = [] ∧
        ∀ m ∈ (familyOfGroup (mainSizedParams_uz e) e).members, sizedCompatB (familyOfGroup (mainSizedParams_uz e) e) m = true) ∧
      (∀ q, (∃ e ∈ gs, ∃ m ∈ (familyOfGroup (mainSizedParams_uz e) e).members,
              genSel WU (familyOfGroup (mainSizedParams_uz e) e) m q) ↔ (∃ it ∈ itemsU, applies WU (mkBlock (canon it)) q)) ∧
      (∃ e ∈ gs, ∃ m ∈ (familyOfGroup (mainSizedParams_uz e) e).members,
        genSel WU (familyOfGroup (mainSizedParams_uz e) e) m (query strT)) ∧
      (∃ e ∈ gs, ∃ m ∈ (familyOfGroup (mainSizedParams_uz e) e).members,
        genSel WU (familyOfGroup (mainSizedParams_uz e) e) m (query u32T)) ∧
      ¬ (∃ e ∈ gs, ∃ m ∈ (familyOfGroup (mainSizedParams_uz e) e).members,
        genSel WU (familyOfGroup (mainSizedParams_uz e) e) m (query sliceT)) := by
  obtain ⟨gs, hgs, hchk⟩ := ParseResult.ok_of_check (r := parseGroups itemsU)
    (f := fun gs => gs.all (fun e => unsizedFlatOK_uz e && mainSizedParams_uz e == [] &&
      (familyOfGroup (mainSizedParams_uz e) e).keys.all (fun k => k.a == "Group"))) (by with_unfolding_all decide)
  have hn : noNesting itemsU = true := by with_unfolding_all decide
  simp only [List.all_eq_true, Bool.and_eq_true, beq_iff_eq] at hchk
  have hok : ∀ e ∈ gs, unsizedFlatOK_uz e = true := fun e he => (hchk e he).1.1
  have hw : ∀ e ∈ gs, WorldTotal WU (familyOfGroup (mainSizedParams_uz e) e) := by
    intro e he k hk tr ty bs hd
    rw [(hchk e he).2 k hk]
    simp only [WU] at hd
    split at hd
    · cases hd; exact ⟨_, rfl⟩
    · split at hd
      · cases hd; exact ⟨_, rfl⟩
      · cases hd
  have hcov := C15_end_to_end_flat_coverage itemsU gs hgs hn hok WU hw
  have hb1 : mkBlock (canon (relaxedBlock "GroupA")) =
      ⟨hdrU, [⟨.tparam "_ŠČ0", dispTr, [("Group", Ex11.tyPath [Ex11.seg "GroupA"])]⟩], []⟩ := by with_unfolding_all decide
  have hb2 : mkBlock (canon (blockFor "GroupB")) =
      ⟨hdrU, [⟨.tparam "_ŠČ0", dispTr, [("Group", Ex11.tyPath [Ex11.seg "GroupB"])]⟩], ["_ŠČ0"]⟩ := by with_unfolding_all decide
  refine ⟨gs, hgs, hn, fun e he => ⟨hok e he, (hchk e he).1.2, ?_⟩, hcov, (hcov _).2 ?_, (hcov _).2 ?_, ?_⟩
  · obtain ⟨_, _, ok3, ok4, ok5⟩ := unsizedFlatOK_spec_uz (hok e he)
    exact C15_sizedCompat_of_search_flat itemsU gs hgs hn e he ok5 ok3 ok4
  · exact ⟨relaxedBlock "GroupA", by simp [itemsU],
      applies_of_B (ρ := [("_ŠČ0", .ty strT)]) (by with_unfolding_all decide)⟩
  · exact ⟨blockFor "GroupB", by simp [itemsU],
      applies_of_B (ρ := [("_ŠČ0", .ty u32T)]) (by with_unfolding_all decide)⟩
  · intro hsel
    obtain ⟨it, hit, ρ, _, hq, hc, hsz⟩ := (hcov _).1 hsel
    simp only [itemsU, List.mem_cons, List.not_mem_nil, or_false] at hit
    rcases hit with rfl | rfl
    · -- the relaxing block requires `Group = GroupA`
      rw [hb1] at hq hc
      have hty := inst_hdrU_uz hq
      obtain ⟨bs, hd, hb⟩ := hc _ (List.mem_singleton.2 rfl)
      simp only at hd hb
      rw [hty, inst_closed ρ dispTr (by decide)] at hd
      have hbs : bs = [("Group", Ex11.tyPath [Ex11.seg "GroupB"])] := by
        have : WU.disp dispTr sliceT = some [("Group", Ex11.tyPath [Ex11.seg "GroupB"])] := by decide
        rw [this] at hd
        exact (Option.some.inj hd).symm
      have := hb "Group" (Ex11.tyPath [Ex11.seg "GroupA"]) (List.mem_singleton.2 rfl)
      rw [hbs, inst_closed ρ _ (by decide)] at this
      revert this
      decide
    · -- the other block requires `Sized`
      rw [hb2] at hq hsz
      have hty := inst_hdrU_uz hq
      have := hsz "_ŠČ0" (List.mem_singleton.2 rfl)
      rw [hty] at this
      revert this
      decide

/-- "whether the relaxation was written inline or in the where-clause and whichever block of the family wrote it": the
    variant with the relaxation in the where-clause of the block that now comes second is accepted with the same `?Sized`
    set, passes the same checks, and `sizedCompatB` holds for both members -/
theorem C15_unsized_type_example_where_clause :
    ∃ gs, parseGroups itemsU' = .ok gs ∧
      (noNesting itemsU' && gs.map summary == [([cp 0], [cp 0], [], 2, true, [true, true])] &&
       gs.all unsizedFlatOK_uz) = true :=
  ParseResult.ok_of_check (f := fun gs => noNesting itemsU' &&
    gs.map summary == [([cp 0], [cp 0], [], 2, true, [true, true])] && gs.all unsizedFlatOK_uz)
    (by with_unfolding_all decide)

end UnsizedExample

/-! ### Relaxing does not make the invocation fail for the others: what the search reads -/

/-- the keys and rows a block founds a family with (`AssocBoundsGroup::new`) do not depend on which of its bounds carry a
    `?` modifier (`stripMaybe_uz b`: all modifiers erased) -/
theorem C15_new_keys_ignore_relaxation (b : Blk) : (ABG.new (stripMaybe_uz b)).bounds = (ABG.new b).bounds :=
  new_bounds_stripMaybe_uz b

/-- the keys and rows of every result of `intersection` depend neither on the `unsized` set of the family (replaced by
    any `u`) nor on the `?` modifiers of the joining block -/
theorem C15_intersection_keys_ignore_relaxation (g : ABG) (u : List T) (other : Blk) (σ : Subst) :
    ((withUnsized_uz g u).intersection (stripMaybe_uz other) σ).map (·.bounds) = (g.intersection other σ).map (·.bounds) :=
  intersection_bounds_uz g u other σ

/-- the candidate filter — the only place where a candidate grouping is rejected — does not read the `unsized` sets:
    replacing the set of every group `e` by an arbitrary `U e` changes neither the verdict nor the keys, rows and members
    of the candidate that passes -/
theorem C15_filter_ignores_unsized (U : T × ABG × List Blk → List T) (gs : Groups) :
    (filterCandidate (gs.map (fun e => (e.1, withUnsized_uz e.2.1 (U e), e.2.2)))).isSome = (filterCandidate gs).isSome ∧
    filterCandidate (gs.map (fun e => (e.1, withUnsized_uz e.2.1 (U e), e.2.2))) =
      (filterCandidate gs).map (fun p => (List.zip gs p).map (fun ep => (ep.2.1, withUnsized_uz ep.2.2.1 (U ep.1), ep.2.2.2))) :=
  ⟨filterCandidate_isSome_withUnsized_uz U gs, filterCandidate_withUnsized_uz U gs⟩

namespace ExU
open Ex11
/-- `impl<T: Dispatch<Group = g>, U> Kita for T {}` (a second, textually different block with the same header) -/
def blockU (g : String) : T := implOf [tyParam "T" [traitBound (dispatch g)], tyParam "U" []] tT
/-- `impl<T: ?Sized + Dispatch<Group = g>, U> Kita for T {}` -/
def relaxedBlockU (g : String) : T := implOf [tyParam "T" [maybeSized, traitBound (dispatch g)], tyParam "U" []] tT
end ExU
/-- acceptance, and on acceptance the keys and rows of the families -/
def ParseResult.verdict_uz : ParseResult → Option (List (List (BKey × List Row)))
  | .ok gs => some (gs.map (fun e => e.2.1.bounds))
  | _ => none

section RelaxAcceptance
open Ex11 ExU
set_option maxRecDepth 1000000

/-- closed instances of "relaxing a parameter in one block does not change acceptance": an accepted pair of blocks stays
    accepted, with the same keys and rows, when the first, the second or both blocks relax `T` (inline or in the
    where-clause); a rejected pair (same `Group` twice) stays rejected -/
theorem C15_relaxation_does_not_affect_acceptance_examples :
    ((parseGroups [blockFor "GroupA", blockU "GroupB"]).verdict_uz.isSome &&
     (parseGroups [relaxedBlock "GroupA", blockU "GroupB"]).verdict_uz == (parseGroups [blockFor "GroupA", blockU "GroupB"]).verdict_uz &&
     (parseGroups [blockFor "GroupA", relaxedBlockU "GroupB"]).verdict_uz == (parseGroups [blockFor "GroupA", blockU "GroupB"]).verdict_uz &&
     (parseGroups [relaxedBlockW "GroupA", relaxedBlockU "GroupB"]).verdict_uz ==
       (parseGroups [blockFor "GroupA", blockU "GroupB"]).verdict_uz) = true ∧
    ((parseGroups [blockFor "GroupA", blockU "GroupA"]).verdict_uz.isNone &&
     (parseGroups [relaxedBlock "GroupA", blockU "GroupA"]).verdict_uz.isNone &&
     (parseGroups [relaxedBlock "GroupA", relaxedBlockU "GroupA"]).verdict_uz.isNone) = true := by
  with_unfolding_all decide

/-- non-vacuity of `C15_unsized_order_free`: the `tests/unsized_type.rs` pair and its reversal -/
example : ∃ gs gs', parseGroups itemsU = .ok gs ∧ parseGroups itemsU.reverse = .ok gs' ∧
    ∀ e ∈ gs, ∃ e' ∈ gs', e'.1 = e.1 ∧ e.2.2.Perm e'.2.2 ∧ (∀ p, p ∈ e.2.1.unsized ↔ p ∈ e'.2.1.unsized) ∧
      ∀ p, mainRelaxed_uz e p ↔ mainRelaxed_uz e' p := by
  have hn : noNesting itemsU = true := by with_unfolding_all decide
  have hwf : flatWF itemsU = true := by with_unfolding_all decide
  obtain ⟨gs, hgs, _⟩ := ParseResult.ok_of_check (r := parseGroups itemsU) (f := fun _ => true) (by with_unfolding_all decide)
  obtain ⟨gs', hgs', _⟩ := ParseResult.ok_of_check (r := parseGroups itemsU.reverse) (f := fun _ => true)
    (by with_unfolding_all decide)
  exact ⟨gs, gs', hgs, hgs', C15_unsized_order_free itemsU itemsU.reverse gs gs' (List.reverse_perm itemsU).symm hn
    (flatWF0_of_flatWF hwf) hgs hgs'⟩

/-- non-vacuity of `C15_sizedCompatB_sound` (a nested member: `θ(_ŠČ0) = Vec<_ŠČ0>`, a constructed type) in the world
    `ConstHdr.W` where everything is `Sized` -/
example : SizedWorld_uz ConstHdr.W ∧ sizedCompatB ConstHdr.FA ConstHdr.mA' = true ∧ noCtor_uz ConstHdr.mA'.θ = false ∧
    SizedCompat ConstHdr.W ConstHdr.FA ConstHdr.mA' := by
  have h1 : SizedWorld_uz ConstHdr.W := fun _ _ _ _ _ => rfl
  have h2 : sizedCompatB ConstHdr.FA ConstHdr.mA' = true := by decide
  exact ⟨h1, h2, by decide, C15_sizedCompatB_sound _ h1 _ _ h2⟩

/-- the world condition of `C15_sizedCompatB_sound` cannot be dropped: `sizedCompatB` accepts a member whose substitution
    sends a `Sized` parameter of the main impl to the constructed type `str` (a `Type::Path`), but in a world where `str` is
    unsized `SizedCompat` fails -/
theorem C15_sizedCompatB_sound_counterexample :
    ∃ (W : World) (F : Family) (m : Member), sizedCompatB F m = true ∧ ¬ SizedCompat W F m := by
  let strT : T := .node "Type::Path" [] [.node "str" [] []]
  let W : World := ⟨fun _ _ => none, fun t => t != strT⟩
  let blk : Block := ⟨strT, [], []⟩
  let m : Member := ⟨blk, [("p", .ty strT)], []⟩
  let F : Family := ⟨.tparam "p", [], ["p"], [m]⟩
  refine ⟨W, F, m, by decide, ?_⟩
  intro h
  have := h [] (by decide) (fun p hp => by cases hp) "p" (List.mem_singleton.2 rfl)
  revert this
  decide

end RelaxAcceptance

/-! ### `mainSizedParams_uz` against the model of the generator -/

/-- the `Sized` parameters that `Bounds.mkBlock` reads off the main impl the model's generator `mainImplOfTrait` returns
    for a group `e` are among `mainSizedParams_uz e`. (Not equal in general: the generator drops the parameters the main
    impl does not mention, and the trait's own where-clause may relax further ones; `sizedCompatB` is antitone in this
    set.) No side condition. -/
theorem C15_mainSizedParams_of_generator (trait_ : T) (idx : Nat) (e : T × ABG × List Blk) (m : T)
    (h : mainImplOfTrait trait_ idx e = .ok m) : ∀ p ∈ (mkBlock m).sizedParams, p ∈ mainSizedParams_uz e :=
  mainImpl_sizedParams_sub_uz h

/-- **`SizedCompat` from the search, flat case, for the family as the checks abstract it**: with the `Sized` parameters
    read off the GENERATED main impl (`Bounds.mkFamily`, the driver's `family` command), `sizedCompatB` holds for every
    member, and `SizedCompat` in every world -/
theorem C15_sizedCompat_of_search_flat_generated (items : List T) (groups : Groups) (h : parseGroups items = .ok groups)
    (hn : noNesting items = true) (trait_ : T) (idx : Nat) (W : World) :
    ∀ e ∈ groups, selfIdentity e.1 = true → mainParamsOK_uz e = true → relaxedAreKeys_uz e = true →
      ∀ m, mainImplOfTrait trait_ idx e = .ok m →
      ∀ mem ∈ (familyOfGroup (mkBlock m).sizedParams e).members,
        sizedCompatB (familyOfGroup (mkBlock m).sizedParams e) mem = true ∧
        SizedCompat W (familyOfGroup (mkBlock m).sizedParams e) mem :=
  fun _ he hs hp hr _ hm => flat_sizedCompatB_mainImpl_uz h (noNesting_spec items hn) he hs hp hr hm W

section GeneratorExamples
open Ex11 ExU
set_option maxRecDepth 1000000

/-- non-vacuity / agreement on the closed inputs: the `tests/unsized_type.rs` pair (main impl fully relaxed), D7 with both
    members relaxing (main impl keeps `_ŠČ0` `Sized`), and the nested over-relaxation (main impl relaxed although no
    block relaxed the family's parameter): in all three the generated main impl's `Sized` parameters EQUAL
    `mainSizedParams_uz` -/
example :
    (ExOK.checkFirst itemsU (fun g _ m => (mkBlock m).sizedParams == [] && mainSizedParams_uz g == [] &&
      mainParamsOK_uz g && relaxedAreKeys_uz g && selfIdentity g.1) &&
     ExOK.checkFirst [d7Block "GroupA", d7Block "GroupB"]
      (fun g _ m => (mkBlock m).sizedParams == ["_ŠČ0"] && mainSizedParams_uz g == ["_ŠČ0"]) &&
     ExOK.checkFirst [blockFor "GroupA", d7Block "GroupB"]
      (fun g _ m => (mkBlock m).sizedParams == [] && mainSizedParams_uz g == [])) = true := by
  with_unfolding_all decide

end GeneratorExamples

end DI
