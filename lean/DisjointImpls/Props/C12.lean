import DisjointImpls.Key
namespace DI
theorem C12_placeholder : tbEq (.tparam "x") (.tparam "x") = .panic := by
  decide
end DI
